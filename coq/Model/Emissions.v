(* Model of the emission schedule code:
     x/community/keeper/staking.go          (PayoutAccumulatedStakingRewards, calculateStakingRewards)
     x/community/keeper/disable_inflation.go (CheckAndDisableMintAndKavaDistInflation)
     x/community/abci.go                     (BeginBlocker: switch first, then payout)
     x/kavadist/keeper/mint.go               (MintPeriodInflation, mintIncentivePeriods, mintInflationaryCoins)
     x/kavadist/keeper/infrastructure.go     (mintInfrastructurePeriods: the same switch, and the
                                              elapsed time it hands on (fix f4ddd6441: the sum of
                                              the stretches minted for); distributeInfrastructureCoins:
                                              partner rewards per second x elapsed, core rewards by
                                              weight of what is left, the rest stays in the module account)
       -- as of fix commits 26e660a58, f162bf2f3 (case 2 counts from max(prev, Start)) and
          596bf9063 (a zero amount returns a well-formed zero coin instead of sdk.Coin{})
     app/app.go SetOrderBeginBlockers        (community, then x/mint, then kavadist)
   over an abstract x/bank (four ukava balances and the supply), x/mint (the
   amount it mints is an oracle value, forced to 0 once InflationMax = 0) and
   x/distribution (community tax parameter; the community-pool coins moved by
   the consolidation at the switch are an oracle value).
   Times are Unix nanoseconds as Z; 0 stands for Go's zero time / "not set".
   Decimals are LegacyDec mantissas (Base/Dec.v).  Definitions only. *)
From Kava Require Import Base.Prelude Base.Dec.
Local Open Scope Z_scope.

Definition NS : Z := 1000000000.                 (* nanosecondsInOneSecond *)
Definition unix (t : Z) : Z := t / NS.           (* time.Time.Unix() of an instant after 1970 *)

(** * x/community: staking rewards *)

(* staking.go calculateStakingRewards, operation by operation *)
Definition calc_staking_rewards (now last err rate pool_dec : Z) : Z * Z :=
  let nanos := dec_of_int (now - last) in                             (* LegacyNewDec(duration.Nanoseconds()) *)
  let acc0 := dec_add (dec_quo_int (dec_mul nanos rate) NS) err in    (* .Mul(rate).QuoInt64(1e9).Add(lastTruncationError) *)
  let acc := if pool_dec <? acc0 then pool_dec else acc0 in           (* communityPoolBalance.LT(accumulatedRewards) *)
  let tr := dec_trunc_dec acc in                                      (* TruncateDec *)
  (dec_trunc_int tr, dec_sub acc tr).                                 (* (TruncateInt, accumulated - truncated) *)

Record period := mkPeriod { p_start : Z; p_end : Z; p_infl : Z }.

(* who can be named as the address of a partner or core reward: an ordinary
   account (index into [users]), the x/kavadist module account itself, the
   x/community module account (both are on app.go's allow-list of module
   accounts that may receive funds), or an address x/bank refuses to pay to
   (any other module account: fee collector, x/distribution, ...) *)
Inductive recipient := RUser (i : nat) | RKavadist | RCommunity | RBlocked.
Record partner := mkPartner { pr_to : recipient; pr_rate : Z }.      (* RewardsPerSecond.Amount (the coin's denom is ignored by the code) *)
Record core := mkCore { cr_to : recipient; cr_weight : Z }.         (* Weight (mantissa) *)

Record state := mkState {
  (* x/community store *)
  sr_last : Z;        (* StakingRewardsState.LastAccumulationTime, 0 = zero time *)
  sr_err : Z;         (* StakingRewardsState.LastTruncationError (mantissa) *)
  c_rate : Z;         (* Params.StakingRewardsPerSecond (mantissa) *)
  c_upg : Z;          (* Params.UpgradeTimeDisableInflation, 0 = zero time *)
  c_upg_rate : Z;     (* Params.UpgradeTimeSetStakingRewardsPerSecond *)
  (* x/bank, ukava *)
  pool : Z;           (* x/community module account *)
  sink : Z;           (* fee collector + x/distribution module account *)
  kdbal : Z;          (* x/kavadist module account *)
  supply : Z;
  (* x/mint and x/distribution parameters touched by the switch *)
  m_min : Z; m_max : Z; d_tax : Z;
  (* x/kavadist *)
  kd_active : bool;
  kd_prev : Z;        (* PreviousBlockTime, 0 = not found *)
  kd_periods : list period;
  kd_infra : list period;
  (* x/kavadist InfrastructureParams.PartnerRewards / CoreRewards, and the ukava
     balances of the ordinary accounts that can be named in them *)
  kd_partners : list partner;
  kd_cores : list core;
  users : list Z
}.

Definition set_sr (s : state) (last err : Z) : state :=
  mkState last err (c_rate s) (c_upg s) (c_upg_rate s) (pool s) (sink s) (kdbal s) (supply s)
          (m_min s) (m_max s) (d_tax s) (kd_active s) (kd_prev s) (kd_periods s) (kd_infra s) (kd_partners s) (kd_cores s) (users s).
Definition set_rate (s : state) (r : Z) : state :=
  mkState (sr_last s) (sr_err s) r (c_upg s) (c_upg_rate s) (pool s) (sink s) (kdbal s) (supply s)
          (m_min s) (m_max s) (d_tax s) (kd_active s) (kd_prev s) (kd_periods s) (kd_infra s) (kd_partners s) (kd_cores s) (users s).
Definition set_bank (s : state) (p k kd su : Z) : state :=
  mkState (sr_last s) (sr_err s) (c_rate s) (c_upg s) (c_upg_rate s) p k kd su
          (m_min s) (m_max s) (d_tax s) (kd_active s) (kd_prev s) (kd_periods s) (kd_infra s) (kd_partners s) (kd_cores s) (users s).
Definition set_users (s : state) (u : list Z) : state :=
  mkState (sr_last s) (sr_err s) (c_rate s) (c_upg s) (c_upg_rate s) (pool s) (sink s) (kdbal s) (supply s)
          (m_min s) (m_max s) (d_tax s) (kd_active s) (kd_prev s) (kd_periods s) (kd_infra s) (kd_partners s) (kd_cores s) u.
Definition set_kd (s : state) (a : bool) (prev : Z) : state :=
  mkState (sr_last s) (sr_err s) (c_rate s) (c_upg s) (c_upg_rate s) (pool s) (sink s) (kdbal s) (supply s)
          (m_min s) (m_max s) (d_tax s) a prev (kd_periods s) (kd_infra s) (kd_partners s) (kd_cores s) (users s).

(* what one payout did (ghost record used by the theorems; everything in it is
   determined by the state before the payout and the block time) *)
Record payrec := mkPay {
  p_gap : Z;      (* nanoseconds since the last accumulation *)
  p_rate : Z;     (* rate applied *)
  p_pool : Z;     (* community pool balance before the payout *)
  p_err0 : Z;     (* carried error before *)
  p_paid : Z;
  p_err1 : Z      (* carried error after *)
}.
Definition p_acc0 (r : payrec) : Z := Z.quot (p_gap r * p_rate r) NS + p_err0 r.
Definition p_capped (r : payrec) : bool := p_pool r * PREC <? p_acc0 r.
Definition p_rem (r : payrec) : Z := (p_gap r * p_rate r) mod NS.       (* dropped by QuoInt64, outside the carry *)
Definition p_loss (r : payrec) : Z :=                                    (* dropped by the cap to the pool balance *)
  if p_capped r then NS * (p_acc0 r - p_pool r * PREC) else 0.

(* StakingRewardsState.Validate as called by SetStakingRewardsState (time non-zero) *)
Definition valid_sr (err : Z) : bool := (0 <=? err) && (err <? PREC).

(* staking.go PayoutAccumulatedStakingRewards *)
Definition payout (t : Z) (s : state) : outcome state (option payrec) :=
  if sr_last s =? 0 then
    (* un-initialised state: set the accumulation time only *)
    if valid_sr (sr_err s) then Ok (set_sr s t (sr_err s)) None else Panic
  else
    let '(paid, e') := calc_staking_rewards t (sr_last s) (sr_err s) (c_rate s) (dec_of_int (pool s)) in
    if paid <? 0 then Panic                      (* sdk.NewCoin panics on a negative amount *)
    else if pool s <? paid then Panic            (* SendCoinsFromModuleToModule fails => panic(err) *)
    else if negb (valid_sr e') then Panic        (* SetStakingRewardsState panics on an invalid state *)
    else
      Ok (set_sr (set_bank s (pool s - paid) (sink s + paid) (kdbal s) (supply s)) t e')
         (Some (mkPay (t - sr_last s) (c_rate s) (pool s) (sr_err s) paid e')).

(* disable_inflation.go CheckAndDisableMintAndKavaDistInflation.  [cons] is the
   (truncated) ukava amount of the x/distribution community pool that
   StartCommunityFundConsolidation moves into the x/community account. *)
Definition switch_due (t : Z) (s : state) : bool := negb (c_upg s =? 0) && negb (t <? c_upg s).
Definition check_disable (t cons : Z) (s : state) : state * bool :=
  if switch_due t s then
    (mkState (sr_last s) (sr_err s)
             (c_upg_rate s)          (* StakingRewardsPerSecond := UpgradeTimeSetStakingRewardsPerSecond *)
             0                       (* UpgradeTimeDisableInflation := time.Time{} *)
             (c_upg_rate s)
             (pool s + cons) (sink s - cons) (kdbal s) (supply s)
             0 0                     (* x/mint InflationMin, InflationMax := 0 *)
             0                       (* x/distribution CommunityTax := 0 *)
             false                   (* x/kavadist Active := false *)
             (kd_prev s) (kd_periods s) (kd_infra s) (kd_partners s) (kd_cores s) (users s), true)
  else (s, false).

(** * x/mint BeginBlocker (oracle): mints [m] to the fee collector; the next
    inflation rate is clamped into [InflationMin, InflationMax], so nothing is
    minted once InflationMax = 0 *)
Definition mint_bb (m : Z) (s : state) : state * Z :=
  let m' := if m_max s =? 0 then 0 else m in
  (set_bank s (pool s) (sink s + m') (kdbal s) (supply s + m'), m').

(** * x/kavadist *)

(* mint.go mintInflationaryCoins: None = panic (negative Uint conversion or negative coin) *)
Definition kd_amount (infl secs sup : Z) : Z :=
  let inflation_int := dec_trunc_int (dec_mul infl (dec_of_int PREC)) in   (* inflationRate.Mul(NewDecFromInt(scalar)).TruncateInt() *)
  let acc := dec_mul (dec_of_int (rel_pow inflation_int secs PREC)) 1 in   (* NewDecFromBigInt(RelativePow(..)).Mul(SmallestDec()) *)
  dec_trunc_int (dec_sub (dec_mul (dec_of_int sup) acc) (dec_of_int sup)).
Definition kd_mint (infl secs sup : Z) : option Z :=
  if (infl <? 0) || (secs <? 0) then None
  else let a := kd_amount infl secs sup in
       if a <? 0 then None else Some a.

(* a stretch of time (in Unix seconds, the granularity the code mints at)
   for which one period was minted in one call: (w_from, w_to] *)
Record window := mkWin {
  w_idx : nat;        (* position of the period in the list *)
  w_per : period;
  w_prev : Z;         (* the instant (ns) used as the start of the interval *)
  w_from : Z;         (* = unix w_prev *)
  w_to : Z;
  w_amt : Z           (* coins minted for it *)
}.

Definition kd_case2 (now prev : Z) (p : period) : bool := (prev <? p_end p) && (p_end p <=? now).
Definition kd_case3 (now prev : Z) (p : period) : bool := (p_start p <=? prev) && (now <? p_end p).

(* mint.go mintIncentivePeriods / infrastructure.go mintInfrastructurePeriods (the same
   switch in both): returns the new supply and the windows minted; None = panic *)
Fixpoint mint_periods (now : Z) (ps : list period) (i : nat) (prev sup : Z) : option (Z * list window) :=
  match ps with
  | [] => Some (sup, [])
  | p :: r =>
      if p_end p <? prev then mint_periods now r (S i) prev sup                  (* case 1: fully expired *)
      else if kd_case2 now prev p then                                            (* case 2: ended since the previous block *)
        (* mintFrom := previousBlockTime; if period.Start.After(mintFrom) { mintFrom = period.Start } *)
        let from := Z.max prev (p_start p) in
        match kd_mint (p_infl p) (unix (p_end p) - unix from) sup with
        | None => None
        | Some a =>
            match mint_periods now r (S i) (p_end p) (sup + a) with
            | None => None
            | Some (sup', ws) => Some (sup', mkWin i p from (unix from) (unix (p_end p)) a :: ws)
            end
        end
      else if kd_case3 now prev p then                                            (* case 3: ongoing *)
        match kd_mint (p_infl p) (unix now - unix prev) sup with
        | None => None
        | Some a =>
            match mint_periods now r (S i) prev (sup + a) with
            | None => None
            | Some (sup', ws) => Some (sup', mkWin i p prev (unix prev) (unix now) a :: ws)
            end
        end
      else mint_periods now r (S i) prev sup                                      (* case 4 / no case applies *)
  end.

(* mint.go MintPeriodInflation, minting part: the two period lists.  (The
   distribution of the infrastructure coins follows in [kavadist_full]; in the
   code it sits between the second list and SetPreviousBlockTime, which it
   neither reads nor writes.) *)
Definition kavadist_bb (t : Z) (s : state) : outcome state (list window * list window) :=
  if negb (kd_active s) then Ok s ([], [])
  else if kd_prev s =? 0 then Ok (set_kd s true t) ([], [])
  else
    match mint_periods t (kd_periods s) 0 (kd_prev s) (supply s) with
    | None => Panic
    | Some (sup1, ws1) =>
        match mint_periods t (kd_infra s) 0 (kd_prev s) sup1 with
        | None => Panic
        | Some (sup2, ws2) =>
            Ok (set_kd (set_bank s (pool s) (sink s) (kdbal s + (sup2 - supply s)) sup2) true t) (ws1, ws2)
        end
    end.

(** ** infrastructure.go: the elapsed time and the distribution *)

(* the second result of mintInfrastructurePeriods (as of fix commit f4ddd6441):
   [timeElapsed] is the SUM of the stretches minted for -- case 2 adds
   End - max(prev, Start), case 3 adds now - prev, the other cases add nothing.
   Same switch, same threading of previousBlockTime as [mint_periods].
   (Before the fix it was the LAST assignment, and case 4 assigned now - prev
   without minting: see the regression theorems in Properties/C19.v.) *)
Fixpoint infra_elapsed (now : Z) (ps : list period) (prev te : Z) : Z :=
  match ps with
  | [] => te
  | p :: r =>
      if p_end p <? prev then infra_elapsed now r prev te                                        (* case 1 *)
      else if kd_case2 now prev p then
        infra_elapsed now r (p_end p) (te + (unix (p_end p) - unix (Z.max prev (p_start p))))    (* case 2 *)
      else if kd_case3 now prev p then infra_elapsed now r prev (te + (unix now - unix prev))    (* case 3 *)
      else infra_elapsed now r prev te                                                           (* case 4 / no case applies *)
  end.

(* the pre-fix function, kept for the regression theorems only *)
Fixpoint infra_elapsed_old (now : Z) (ps : list period) (prev te : Z) : Z :=
  match ps with
  | [] => te
  | p :: r =>
      if p_end p <? prev then infra_elapsed_old now r prev te
      else if kd_case2 now prev p then
        infra_elapsed_old now r (p_end p) (unix (p_end p) - unix (Z.max prev (p_start p)))
      else if kd_case3 now prev p then infra_elapsed_old now r prev (unix now - unix prev)
      else if now <=? p_start p then infra_elapsed_old now r prev (unix now - unix prev)
      else infra_elapsed_old now r prev te
  end.

Fixpoint set_nth (l : list Z) (i : nat) (v : Z) : list Z :=
  match l, i with
  | [], _ => []
  | _ :: r, O => v :: r
  | x :: r, S k => x :: set_nth r k v
  end.

(* x/bank SendCoinsFromModuleToAccount(kavadist, to, a ukava): refused for a
   blocked address (checked first, even for a zero amount) and when the module
   account holds less than [a]; paying the module account itself debits and
   credits the same balance.  None = error (which the begin blocker turns into
   a panic).  An index outside [users] names no account of the model. *)
Definition send_kd (s : state) (to : recipient) (a : Z) : option state :=
  match to with
  | RBlocked => None
  | RKavadist => if kdbal s <? a then None else Some s
  | RCommunity =>
      if kdbal s <? a then None else Some (set_bank s (pool s + a) (sink s) (kdbal s - a) (supply s))
  | RUser i =>
      if kdbal s <? a then None
      else if (i <? length (users s))%nat then
        Some (set_users (set_bank s (pool s) (sink s) (kdbal s - a) (supply s))
                        (set_nth (users s) i (nth i (users s) 0 + a)))
      else None
  end.

Record payment := mkPayment { pay_to : recipient; pay_amt : Z }.

(* first loop of distributeInfrastructureCoins: [left] is coinsToDistribute *)
Fixpoint pay_partners (te : Z) (ps : list partner) (left : Z) (s : state) : option (Z * state * list payment) :=
  match ps with
  | [] => Some (left, s, [])
  | p :: r =>
      let a := pr_rate p * te in                       (* pr.RewardsPerSecond.Amount.Mul(timeElapsed) *)
      if a <? 0 then None                              (* sdk.NewCoin panics on a negative amount *)
      else
        match send_kd s (pr_to p) a with
        | None => None                                 (* return err *)
        | Some s1 =>
            if left <? a then None                     (* safeSub: "negative coins" *)
            else
              match pay_partners te r (left - a) s1 with
              | None => None
              | Some (l, s2, pays) => Some (l, s2, mkPayment (pr_to p) a :: pays)
              end
        end
  end.

(* second loop: each core reward is its weight of what is LEFT at that point, RoundInt *)
Definition core_amount (left w : Z) : Z := dec_round_int (dec_mul (dec_of_int left) w).
Fixpoint pay_cores (cs : list core) (left : Z) (s : state) : option (Z * state * list payment) :=
  match cs with
  | [] => Some (left, s, [])
  | c :: r =>
      let a := core_amount left (cr_weight c) in
      if a <? 0 then None
      else
        match send_kd s (cr_to c) a with
        | None => None
        | Some s1 =>
            if left <? a then None
            else
              match pay_cores r (left - a) s1 with
              | None => None
              | Some (l, s2, pays) => Some (l, s2, mkPayment (cr_to c) a :: pays)
              end
        end
  end.

(* what one call of distributeInfrastructureCoins did *)
Record drec := mkDist {
  d_te : Z;                      (* timeElapsed handed over by mintInfrastructurePeriods *)
  d_coins : Z;                   (* coinsToDistribute: minted for the infrastructure periods in this block *)
  d_partner : list payment;
  d_core : list payment;
  d_rem : Z                      (* what is left over: it is not sent anywhere, it stays in the module account *)
}.
Definition no_dist : drec := mkDist 0 0 [] [] 0.

(* infrastructure.go distributeInfrastructureCoins; None = error or panic *)
Definition distribute (te coins : Z) (s : state) : option (state * drec) :=
  if (te =? 0) || (coins =? 0) then Some (s, mkDist te coins [] [] coins)
  else
    match pay_partners te (kd_partners s) coins s with
    | None => None
    | Some (l1, s1, pp) =>
        match pay_cores (kd_cores s) l1 s1 with
        | None => None
        | Some (l2, s2, cp) => Some (s2, mkDist te coins pp cp l2)
        end
    end.

Definition amounts (l : list payment) : Z := zsum (map pay_amt l).
Definition minted (ws : list window) : Z := zsum (map w_amt ws).

(* mint.go MintPeriodInflation as a whole *)
Definition kavadist_full (t : Z) (s : state) : outcome state (list window * list window * drec) :=
  match kavadist_bb t s with
  | Ok s1 (ws, wsi) =>
      if negb (kd_active s) || (kd_prev s =? 0) then Ok s1 (ws, wsi, no_dist)     (* returned before the period loops *)
      else
        match distribute (infra_elapsed t (kd_infra s) (kd_prev s) 0) (minted wsi) s1 with
        | Some (s2, d) => Ok s2 (ws, wsi, d)
        | None => Panic                                                            (* BeginBlocker: panic(err) *)
        end
  | _ => Panic
  end.

(** * operations *)

Inductive op :=
| Block (t : Z) (mint_o cons_o : Z)        (* app.BeginBlocker at block time t, with the two oracle values *)
| PoolAdj (d : Z)                          (* FundCommunityPool (d >= 0) / DistributeFromCommunityPool (d < 0) *)
| SetRate (r : Z)                          (* governance update of StakingRewardsPerSecond *)
| SetKdActive (b : bool)                   (* governance update of kavadist Active (the only way back on) *)
| Calc (now last err rate pool_dec : Z)    (* direct call of calculateStakingRewards *)
| KdMint (now prev : Z) (ps : list period) (* direct call of mintIncentivePeriods at block time now *)
| KdInfra (now prev : Z) (ps : list period). (* direct call of mintInfrastructurePeriods *)

Record bout := mkBout {
  b_time : Z;
  b_fired : bool;                (* the disable-inflation switch fired in this block *)
  b_cons : Z;                    (* coins consolidated into the pool (0 unless fired) *)
  b_pay : option payrec;
  b_mint : Z;                    (* minted by x/mint *)
  b_ws : list window;            (* kavadist incentive periods *)
  b_wsi : list window;           (* kavadist infrastructure periods *)
  b_dist : drec                  (* distribution of the infrastructure coins *)
}.

Inductive out :=
| OBlock (b : bout)
| OAdj (d : Z)
| OCalc (paid err : Z)
| OKd (m : Z) (ws : list window)
| OKdI (m : Z) (ws : list window) (te : Z)
| ONone.

Definition block (t mint_o cons_o : Z) (s : state) : outcome state out :=
  let '(s1, fired) := check_disable t cons_o s in
  match payout t s1 with
  | Ok s2 pay =>
      let '(s3, m) := mint_bb mint_o s2 in
      match kavadist_full t s3 with
      | Ok s4 (ws, wsi, d) => Ok s4 (OBlock (mkBout t fired (if fired then cons_o else 0) pay m ws wsi d))
      | _ => Panic
      end
  | _ => Panic
  end.

Definition kd_direct (now prev : Z) (ps : list period) (s : state) : outcome state out :=
  match mint_periods now ps 0 prev (supply s) with
  | None => Panic
  | Some (sup', ws) =>
      Ok (set_bank s (pool s) (sink s) (kdbal s + (sup' - supply s)) sup') (OKd (sup' - supply s) ws)
  end.

(* direct call of mintInfrastructurePeriods: also returns the elapsed time *)
Definition kd_direct_infra (now prev : Z) (ps : list period) (s : state) : outcome state out :=
  match mint_periods now ps 0 prev (supply s) with
  | None => Panic
  | Some (sup', ws) =>
      Ok (set_bank s (pool s) (sink s) (kdbal s + (sup' - supply s)) sup')
         (OKdI (sup' - supply s) ws (infra_elapsed now ps prev 0))
  end.

Definition step (s : state) (o : op) : outcome state out :=
  match o with
  | Block t m c => block t m c s
  | PoolAdj d =>
      if pool s + d <? 0 then Err
      else Ok (set_bank s (pool s + d) (sink s) (kdbal s) (supply s)) (OAdj d)
  | SetRate r => if r <? 0 then Panic else Ok (set_rate s r) ONone
  | SetKdActive b => Ok (set_kd s b (kd_prev s)) ONone
  | Calc now last err rate pd =>
      let '(paid, e) := calc_staking_rewards now last err rate pd in Ok s (OCalc paid e)
  | KdMint now prev ps => kd_direct now prev ps s
  | KdInfra now prev ps => kd_direct_infra now prev ps s
  end.

(* failed operations are discarded (cached context not written) *)
Fixpoint run_outs (s : state) (ops : list op) : state * list out :=
  match ops with
  | [] => (s, [])
  | o :: r =>
      match step s o with
      | Ok s' x => let '(sf, l) := run_outs s' r in (sf, x :: l)
      | _ => run_outs s r
      end
  end.
Definition run (s : state) (ops : list op) : state := fst (run_outs s ops).

(** ** ghost sums over the outputs of a history *)
Definition pays (l : list out) : list payrec :=
  flat_map (fun x => match x with OBlock b => match b_pay b with Some r => [r] | None => [] end | _ => [] end) l.
Definition blocks (l : list out) : list bout :=
  flat_map (fun x => match x with OBlock b => [b] | _ => [] end) l.
Definition paid_sum (l : list out) : Z := zsum (map p_paid (pays l)).
Definition sched_sum (l : list out) : Z := zsum (map (fun r => p_gap r * p_rate r) (pays l)).   (* rate * time, scaled by 10^18 * 10^9 *)
Definition rem_sum (l : list out) : Z := zsum (map p_rem (pays l)).
Definition loss_sum (l : list out) : Z := zsum (map p_loss (pays l)).
Definition never_capped (l : list out) : Prop := Forall (fun r => p_capped r = false) (pays l).
Definition npays (l : list out) : Z := Z.of_nat (length (pays l)).
(* what entered the community pool: deposits and spends, the consolidation at
   the switch, and infrastructure rewards addressed to the x/community account *)
Definition to_pool (l : list payment) : Z :=
  zsum (map (fun p => match pay_to p with RCommunity => pay_amt p | _ => 0 end) l).
Definition dist_to_pool (d : drec) : Z := to_pool (d_partner d) + to_pool (d_core d).
Definition adj_sum (l : list out) : Z :=
  zsum (map (fun x => match x with OAdj d => d | OBlock b => b_cons b + dist_to_pool (b_dist b) | _ => 0 end) l).
Definition fired_count (l : list out) : nat := length (filter b_fired (blocks l)).
Definition block_windows (l : list out) : list (list window) := map b_ws (blocks l).
Definition block_windows_infra (l : list out) : list (list window) := map b_wsi (blocks l).

(* operations a chain performs by itself or through ordinary governance of the
   reward rate; excludes re-activating kavadist and the harness-only direct calls *)
Definition chain_op (o : op) : Prop :=
  match o with Block _ _ _ | PoolAdj _ | SetRate _ | SetKdActive false => True | _ => False end.

(* block times are positive, never decrease, oracle values are in range *)
Fixpoint mono (now : Z) (ops : list op) : Prop :=
  match ops with
  | [] => True
  | Block t m c :: r => now <= t /\ 0 < t /\ 0 <= m /\ 0 <= c /\ mono t r
  | _ :: r => mono now r
  end.

(* amounts minted for a list of windows, replayed from a starting supply *)
Definition replay_ws (sup : Z) (ws : list window) : Z :=
  fold_left (fun s w => s + kd_amount (p_infl (w_per w)) (w_to w - w_from w) s) ws sup.

(* kavadist params validation (validatePeriodsParams): End >= Start, chronological, positive *)
Fixpoint periods_valid (prev_end : Z) (ps : list period) : Prop :=
  match ps with
  | [] => True
  | p :: r => p_start p <= p_end p /\ prev_end <= p_start p /\ NS <= p_start p /\ periods_valid (p_end p) r
  end.

(** * Correspondence-check support *)

Inductive rclass := ROk | RErr | RPanic.
Definition rclass_eqb (a b : rclass) : bool :=
  match a, b with ROk, ROk | RErr, RErr | RPanic, RPanic => true | _, _ => false end.
Definition class_of {S O} (r : outcome S O) : rclass :=
  match r with Ok _ _ => ROk | Err => RErr | Panic => RPanic end.

(* recorded after each operation: result class, the components of the
   implementation's projected state that changed (position, new value) relative
   to the previous observation, and the operation's own outputs.  The checker
   keeps a shadow copy of the implementation's projection, applies the recorded
   changes and compares the full projections. *)
Record obs := mkObs { o_class : rclass; o_dstate : list (nat * Z); o_out : list Z }.

Definition apply_obs (sh : list Z) (o : obs) : list Z :=
  fold_left (fun l p => set_nth l (fst p) (snd p)) (o_dstate o) sh.

Definition project (s : state) : list Z :=
  [sr_last s; sr_err s; c_rate s; c_upg s; c_upg_rate s; pool s; sink s; kdbal s; supply s;
   m_min s; m_max s; d_tax s; (if kd_active s then 1 else 0); kd_prev s] ++ users s.

Definition out_values (x : out) : list Z :=
  match x with
  | OBlock b => [(if b_fired b then 1 else 0)]
  | OCalc paid e => [paid; e]
  | OKd m _ => [m]
  | OKdI m _ te => [m; te]
  | _ => []
  end.

Fixpoint list_eqb {A} (eqb : A -> A -> bool) (l1 l2 : list A) : bool :=
  match l1, l2 with
  | [], [] => true
  | x :: r1, y :: r2 => eqb x y && list_eqb eqb r1 r2
  | _, _ => false
  end.

(* boolean module invariant, evaluated on every model state of a run *)
Definition inv_b (s : state) : bool :=
  (0 <=? sr_err s) && (sr_err s <? PREC) && (0 <=? c_rate s) && (0 <=? c_upg_rate s)
  && (0 <=? pool s) && (0 <=? sr_last s) && (0 <=? c_upg s) && (0 <=? kd_prev s)
  && ((negb (sr_last s =? 0)) || (sr_err s =? 0)) && (0 <=? kdbal s).

(* side-conditions on the oracle values of an operation, checked on every step *)
Definition oracle_ok (s : state) (o : op) : bool :=
  match o with
  | Block t m c => (0 <? t) && (0 <=? m) && (0 <=? c) && (c <=? sink s)
  | _ => true
  end.

Fixpoint first_mismatch (s : state) (sh : list Z) (h : list (op * obs)) (i : nat) : option nat :=
  match h with
  | [] => None
  | (o, ob) :: r =>
      let res := step s o in
      let s' := match res with Ok s1 _ => s1 | _ => s end in
      let outs := match res with Ok _ x => out_values x | _ => [] end in
      let sh' := apply_obs sh ob in
      if oracle_ok s o
         && rclass_eqb (class_of res) (o_class ob)
         && list_eqb Z.eqb (project s') sh'
         && list_eqb Z.eqb outs (o_out ob)
         && inv_b s'
      then first_mismatch s' sh' r (S i)
      else Some i
  end.

(* [v]: the 14 scalar components in the order of [project], followed by the users' balances *)
Definition mk_state (v : list Z) (ps infra : list period) (partners : list partner) (cores : list core) : state :=
  let g := fun i => nth i v 0 in
  mkState (g 0%nat) (g 1%nat) (g 2%nat) (g 3%nat) (g 4%nat) (g 5%nat) (g 6%nat) (g 7%nat) (g 8%nat)
          (g 9%nat) (g 10%nat) (g 11%nat) (negb (g 12%nat =? 0)) (g 13%nat) ps infra partners cores (skipn 14 v).

Record history := mkHist { h_init : state; h_steps : list (op * obs) }.

Definition check_history (h : history) : option nat :=
  if inv_b (h_init h) then first_mismatch (h_init h) (project (h_init h)) (h_steps h) 0 else Some 0%nat.

Fixpoint mismatches_from (i : nat) (hs : list history) : list (nat * nat) :=
  match hs with
  | [] => []
  | h :: r =>
      match check_history h with
      | None => mismatches_from (S i) r
      | Some k => (i, k) :: mismatches_from (S i) r
      end
  end.
Definition mismatches := mismatches_from 0.
