(* Model of x/cdp: keeper/cdp.go, deposit.go, draw.go, interest.go, seize.go,
   auctions.go, keeper.go, abci.go (BeginBlocker), over an abstract x/bank and
   an abstract x/auction (Start*Auction = bank movements + the record handed
   over).  Message level: types/msg.go ValidateBasic + keeper/msg_server.go.
   Definitions only.

   Numbers: sdkmath.Int = Z, LegacyDec = mantissa Z (Base/Dec.v).  Time = unix
   nanoseconds.  Addresses, collateral types, denoms, markets and cdp ids are
   small indexes (nat).  Users are numbered in the byte order of their
   addresses (the deposit store is iterated in that order); collateral types in
   the order of the CollateralParams list. *)
From Kava Require Import Base.Prelude Base.Dec.
Local Open Scope Z_scope.

(** * Parameters *)
Record cparam := mkCP {
  cp_denom : nat;      (* Denom *)
  cp_liq : Z;          (* LiquidationRatio (Dec) *)
  cp_limit : Z;        (* DebtLimit.Amount *)
  cp_fee : Z;          (* StabilityFee (Dec, per second) *)
  cp_asize : Z;        (* AuctionSize *)
  cp_pen : Z;          (* LiquidationPenalty (Dec) *)
  cp_spot : nat;       (* SpotMarketID *)
  cp_liqm : nat;       (* LiquidationMarketID *)
  cp_reward : Z;       (* KeeperRewardPercentage (Dec) *)
  cp_count : Z;        (* CheckCollateralizationIndexCount *)
  cp_cf : Z            (* ConversionFactor *)
}.

Record env := mkEnv {
  nusers : nat;              (* user accounts 0 .. nusers-1 *)
  ndenoms : nat;
  nmarkets : nat;
  cps : list cparam;         (* CollateralParams, in order *)
  d_usdx : nat;              (* DebtParam.Denom *)
  d_debt : nat;              (* debt denom *)
  d_gov : nat;               (* gov denom *)
  dp_cf : Z;                 (* DebtParam.ConversionFactor *)
  dp_floor : Z;              (* DebtParam.DebtFloor *)
  glimit : Z;                (* GlobalDebtLimit.Amount *)
  sur_thr : Z; sur_lot : Z;  (* SurplusAuctionThreshold / Lot *)
  debt_thr : Z; debt_lot : Z;(* DebtAuctionThreshold / Lot *)
  interval : Z               (* LiquidationBlockInterval *)
}.

Definition ntypes (e : env) : nat := length (cps e).
Definition get_cp (e : env) (t : nat) : option cparam := nth_error (cps e) t.
(* module accounts *)
Definition CDPM (e : env) : nat := nusers e.
Definition LIQM (e : env) : nat := S (nusers e).
Definition AUCM (e : env) : nat := S (S (nusers e)).
Definition nacc (e : env) : nat := (nusers e + 3)%nat.

(** * State *)
Record cdp := mkCdp {
  c_id : nat; c_owner : nat; c_type : nat;
  c_coll : Z; c_prin : Z; c_fees : Z;
  c_upd : Z;      (* FeesUpdated *)
  c_ifac : Z      (* InterestFactor (Dec) *)
}.

(* what x/auction is handed: kind 0 collateral, 1 debt, 2 surplus *)
Record auc := mkAuc { a_kind : nat; a_lotd : nat; a_lot : Z; a_max : Z; a_debt : Z; a_ret : nat }.

Record state := mkSt {
  cdps : nat -> nat -> option cdp;      (* CdpKeyPrefix: type, id *)
  deps : nat -> nat -> option Z;        (* DepositKeyPrefix: cdp id, depositor *)
  oidx : nat -> list nat;               (* CdpIDKeyPrefix: owner -> ids ([] = no entry) *)
  ridx : nat -> list (Z * nat);         (* CollateralRatioIndexPrefix: per type, (ratio key, id) in key order *)
  tprin : nat -> Z;                     (* PrincipalKeyPrefix (type ++ usdx) *)
  ifac : nat -> option Z;               (* InterestFactorPrefix *)
  ptime : nat -> option Z;              (* PreviousAccrualTimePrefix *)
  nextid : nat;
  mstat : nat -> bool;                  (* PricefeedStatusKeyPrefix *)
  price : nat -> Z;                     (* pricefeed current price (Dec); 0 = no valid price *)
  bal : nat -> nat -> Z;                (* x/bank balances: account, denom *)
  sup : nat -> Z;                       (* x/bank supply *)
  aucs : list auc;                      (* auctions started (newest last) *)
  now : Z;                              (* block time, ns *)
  height : Z
}.

Definition set_cdps s v := mkSt v (deps s) (oidx s) (ridx s) (tprin s) (ifac s) (ptime s) (nextid s) (mstat s) (price s) (bal s) (sup s) (aucs s) (now s) (height s).
Definition set_deps s v := mkSt (cdps s) v (oidx s) (ridx s) (tprin s) (ifac s) (ptime s) (nextid s) (mstat s) (price s) (bal s) (sup s) (aucs s) (now s) (height s).
Definition set_oidx s v := mkSt (cdps s) (deps s) v (ridx s) (tprin s) (ifac s) (ptime s) (nextid s) (mstat s) (price s) (bal s) (sup s) (aucs s) (now s) (height s).
Definition set_ridx s v := mkSt (cdps s) (deps s) (oidx s) v (tprin s) (ifac s) (ptime s) (nextid s) (mstat s) (price s) (bal s) (sup s) (aucs s) (now s) (height s).
Definition set_tprin s v := mkSt (cdps s) (deps s) (oidx s) (ridx s) v (ifac s) (ptime s) (nextid s) (mstat s) (price s) (bal s) (sup s) (aucs s) (now s) (height s).
Definition set_ifac s v := mkSt (cdps s) (deps s) (oidx s) (ridx s) (tprin s) v (ptime s) (nextid s) (mstat s) (price s) (bal s) (sup s) (aucs s) (now s) (height s).
Definition set_ptime s v := mkSt (cdps s) (deps s) (oidx s) (ridx s) (tprin s) (ifac s) v (nextid s) (mstat s) (price s) (bal s) (sup s) (aucs s) (now s) (height s).
Definition set_nextid s v := mkSt (cdps s) (deps s) (oidx s) (ridx s) (tprin s) (ifac s) (ptime s) v (mstat s) (price s) (bal s) (sup s) (aucs s) (now s) (height s).
Definition set_mstat s v := mkSt (cdps s) (deps s) (oidx s) (ridx s) (tprin s) (ifac s) (ptime s) (nextid s) v (price s) (bal s) (sup s) (aucs s) (now s) (height s).
Definition set_price s v := mkSt (cdps s) (deps s) (oidx s) (ridx s) (tprin s) (ifac s) (ptime s) (nextid s) (mstat s) v (bal s) (sup s) (aucs s) (now s) (height s).
Definition set_bal s v := mkSt (cdps s) (deps s) (oidx s) (ridx s) (tprin s) (ifac s) (ptime s) (nextid s) (mstat s) (price s) v (sup s) (aucs s) (now s) (height s).
Definition set_sup s v := mkSt (cdps s) (deps s) (oidx s) (ridx s) (tprin s) (ifac s) (ptime s) (nextid s) (mstat s) (price s) (bal s) v (aucs s) (now s) (height s).
Definition set_aucs s v := mkSt (cdps s) (deps s) (oidx s) (ridx s) (tprin s) (ifac s) (ptime s) (nextid s) (mstat s) (price s) (bal s) (sup s) v (now s) (height s).
Definition set_clock s t h := mkSt (cdps s) (deps s) (oidx s) (ridx s) (tprin s) (ifac s) (ptime s) (nextid s) (mstat s) (price s) (bal s) (sup s) (aucs s) t h.

(** * x/bank (modelled, not verified): single-coin calls.  sdk.NewCoins drops a
    zero coin, so a zero amount moves nothing and cannot fail. *)
Definition b_send (s : state) (f t d : nat) (x : Z) : option state :=
  if x <=? 0 then Some s
  else if bal s f d <? x then None
  else
    let b1 := upd2 (bal s) f d (bal s f d - x) in
    Some (set_bal s (upd2 b1 t d (b1 t d + x))).

Definition b_mint (s : state) (m d : nat) (x : Z) : state :=
  if x <=? 0 then s
  else set_sup (set_bal s (upd2 (bal s) m d (bal s m d + x))) (upd (sup s) d (sup s d + x)).

Definition b_burn (s : state) (m d : nat) (x : Z) : option state :=
  if x <=? 0 then Some s
  else if bal s m d <? x then None
  else Some (set_sup (set_bal s (upd2 (bal s) m d (bal s m d - x))) (upd (sup s) d (sup s d - x))).

(** * Ratios (keeper/cdp.go) *)
Definition MAXS : Z := PREC * PREC.        (* types.MaxSortableDec = 10^18 *)

(* convertCollateralToBaseUnits / convertDebtToBaseUnits *)
Definition to_base (x cf : Z) : Z := dec_mul (dec_of_int x) (dec_with_prec 1 cf).

(* CalculateCollateralToDebtRatio and interest.go calculateCollateralRatio *)
Definition c2d_ratio (coll cfc debt cfd : Z) : Z :=
  let dt := to_base debt cfd in
  if (dt =? 0) || (MAXS <=? dt) then MAXS - 1
  else dec_quo (to_base coll cfc) dt.

(* types.CollateralRatioBytes: values above MaxSortableDec are stored as "max";
   the byte order of the keys is the order of the clipped mantissas *)
Definition rkey (r : Z) : Z := Z.min r MAXS.

(* CalculateCollateralizationRatio with the price already fetched
   (None = division by zero panic) *)
Definition coll_ratio (coll cfc prin fees cfd p : Z) : option Z :=
  if coll =? 0 then Some 0 else
  let v := dec_mul (to_base coll cfc) p in
  let tot := to_base prin cfd + to_base fees cfd in
  if tot =? 0 then None else Some (dec_quo v tot).

(* LiquidateCdps: 1/(price/liqRatio) *)
Definition liq_cut (p liq : Z) : Z :=
  let q0 := dec_quo p liq in
  let q := if q0 =? 0 then 1 else q0 in
  dec_quo PREC q.

Definition cdp_debt (c : cdp) : Z := c_prin c + c_fees c.      (* GetTotalPrincipal *)
Definition cdp_ratio (e : env) (cp : cparam) (c : cdp) : Z :=
  c2d_ratio (c_coll c) (cp_cf cp) (cdp_debt c) (dp_cf e).

(** * Stores and indexes *)
Definition get_cdp (e : env) (s : state) (t id : nat) : option cdp :=
  match get_cp e t with None => None | Some _ => cdps s t id end.
Definition put_cdp (s : state) (c : cdp) : state := set_cdps s (upd2 (cdps s) (c_type c) (c_id c) (Some c)).
Definition del_cdp (s : state) (c : cdp) : state := set_cdps s (upd2 (cdps s) (c_type c) (c_id c) None).

Definition ent_eqb (a b : Z * nat) : bool := (fst a =? fst b) && Nat.eqb (snd a) (snd b).
Definition ent_ltb (a b : Z * nat) : bool :=
  (fst a <? fst b) || ((fst a =? fst b) && Nat.ltb (snd a) (snd b)).
Fixpoint ent_ins (x : Z * nat) (l : list (Z * nat)) : list (Z * nat) :=
  match l with
  | [] => [x]
  | h :: tl => if ent_eqb x h then l else if ent_ltb x h then x :: l else h :: ent_ins x tl
  end.
Definition ent_del (x : Z * nat) (l : list (Z * nat)) : list (Z * nat) :=
  filter (fun h => negb (ent_eqb x h)) l.

(* IndexCdpByCollateralRatio / RemoveCdpCollateralRatioIndex *)
Definition ridx_ins (s : state) (t : nat) (r : Z) (id : nat) : state :=
  set_ridx s (upd (ridx s) t (ent_ins (rkey r, id) (ridx s t))).
Definition ridx_del (s : state) (t : nat) (r : Z) (id : nat) : state :=
  set_ridx s (upd (ridx s) t (ent_del (rkey r, id) (ridx s t))).

(* the first n entries below the target key (iterator [type:0, type:target) ) *)
Fixpoint idx_below (target : Z) (n : nat) (l : list (Z * nat)) : list (Z * nat) :=
  match n, l with
  | S k, h :: tl => if fst h <? target then h :: idx_below target k tl else []
  | _, _ => []
  end.
(* both scans append before testing the count, so a count of 0 still yields one *)
Definition scan_count (cp : cparam) : nat := Z.to_nat (Z.max 1 (cp_count cp)).

Fixpoint nat_ins (x : nat) (l : list nat) : list nat :=
  match l with
  | [] => [x]
  | h :: tl => if Nat.leb x h then x :: l else h :: nat_ins x tl
  end.
(* IndexCdpByOwner (append, sort) / RemoveCdpOwnerIndex *)
Definition oidx_add (s : state) (o id : nat) : state := set_oidx s (upd (oidx s) o (nat_ins id (oidx s o))).
Definition oidx_rm (s : state) (o id : nat) : state :=
  set_oidx s (upd (oidx s) o (filter (fun x => negb (Nat.eqb x id)) (oidx s o))).

(* GetCdpByOwnerAndCollateralType *)
Fixpoint first_cdp (e : env) (s : state) (t : nat) (ids : list nat) : option cdp :=
  match ids with
  | [] => None
  | id :: r => match get_cdp e s t id with Some c => Some c | None => first_cdp e s t r end
  end.
Definition find_cdp (e : env) (s : state) (o t : nat) : option cdp := first_cdp e s t (oidx s o).

(* GetDeposits: depositor order *)
Definition dep_list (e : env) (s : state) (id : nat) : list (nat * Z) :=
  flat_map (fun u => match deps s id u with Some a => [(u, a)] | None => [] end) (seq 0 (nusers e)).
Definition put_dep (s : state) (id u : nat) (a : Z) : state := set_deps s (upd2 (deps s) id u (Some a)).
Definition del_dep (s : state) (id u : nat) : state := set_deps s (upd2 (deps s) id u None).

(* UpdateCdpAndCollateralRatioIndex: the old index key is recomputed from the STORED cdp *)
Definition update_cdp (e : env) (s : state) (cp : cparam) (c : cdp) (r : Z) : outcome state unit :=
  match get_cdp e s (c_type c) (c_id c) with
  | None => Err
  | Some old =>
      let s1 := ridx_del s (c_type old) (cdp_ratio e cp old) (c_id old) in
      Ok (ridx_ins (put_cdp s1 c) (c_type c) r (c_id c)) tt
  end.

Definition with_fees (c : cdp) (fees upd fac : Z) : cdp :=
  mkCdp (c_id c) (c_owner c) (c_type c) (c_coll c) (c_prin c) fees upd fac.
Definition with_coll (c : cdp) (coll : Z) : cdp :=
  mkCdp (c_id c) (c_owner c) (c_type c) coll (c_prin c) (c_fees c) (c_upd c) (c_ifac c).
Definition with_prin (c : cdp) (prin : Z) : cdp :=
  mkCdp (c_id c) (c_owner c) (c_type c) (c_coll c) prin (c_fees c) (c_upd c) (c_ifac c).

(** * Interest (keeper/interest.go) *)
Definition NS : Z := 1000000000.
(* int64(math.RoundToEven(d.Seconds())) on a non-negative nanosecond count *)
Definition round_secs (d : Z) : Z :=
  let q := d / NS in let r := d mod NS in
  if 2 * r <? NS then q else if NS <? 2 * r then q + 1 else if Z.even q then q else q + 1.

(* CalculateInterestFactor: the rate's mantissa raised with sdkmath.RelativePow *)
Definition interest_factor (rate secs : Z) : Z := rel_pow rate secs PREC.

(* interest on a debt for an interest-factor quotient (CalculateNewInterest) *)
Definition new_interest (gf cf debt : Z) : Z :=
  let f := dec_quo gf cf in
  if f =? PREC then 0 else dec_round_int (dec_mul (dec_of_int debt) f) - debt.

Definition accumulate_interest (e : env) (s : state) (t : nat) (cp : cparam) : state :=
  match ptime s t with
  | None => set_ptime s (upd (ptime s) t (Some (now s)))
  | Some prev =>
      let el := round_secs (now s - prev) in
      if el =? 0 then s else
      let tp := tprin s t in
      if tp <=? 0 then set_ptime s (upd (ptime s) t (Some (now s))) else
      match ifac s t with
      | None => set_ptime (set_ifac s (upd (ifac s) t (Some PREC))) (upd (ptime s) t (Some (now s)))
      | Some fprior =>
          if cp_fee cp =? PREC then set_ptime s (upd (ptime s) t (Some (now s))) else
          let f := interest_factor (cp_fee cp) el in
          let acc := dec_round_int (dec_mul f (dec_of_int tp)) - tp in
          if acc =? 0 then s else
          let s1 := b_mint s (CDPM e) (d_debt e) acc in
          let s2 := b_mint s1 (LIQM e) (d_usdx e) acc in
          let s3 := set_tprin s2 (upd (tprin s2) t (tp + acc)) in
          let s4 := set_ifac s3 (upd (ifac s3) t (Some (dec_mul fprior f))) in
          set_ptime s4 (upd (ptime s4) t (Some (now s)))
      end
  end.

(* SynchronizeInterest *)
Definition sync_interest (e : env) (s : state) (cp : cparam) (c : cdp) : outcome state cdp :=
  match ifac s (c_type c) with
  | None =>
      let c1 := with_fees c (c_fees c) (now s) PREC in
      Ok (put_cdp (set_ifac s (upd (ifac s) (c_type c) (Some PREC))) c1) c1
  | Some gf =>
      let acc := new_interest gf (c_ifac c) (cdp_debt c) in
      match ptime s (c_type c) with
      | None => Ok s c
      | Some prev =>
          if (acc =? 0) && (c_upd c =? prev) then Ok s c else
          let c1 := if acc =? 0 then with_fees c (c_fees c) prev (c_ifac c) else c in
          let s1 := if acc =? 0 then put_cdp s c1 else s in
          let c2 := with_fees c1 (c_fees c1 + acc) prev gf in
          match update_cdp e s1 cp c2 (cdp_ratio e cp c2) with
          | Ok s2 _ => Ok s2 c2
          | _ => Panic
          end
      end
  end.

(* one iteration of the loop of SynchronizeInterestForRiskyCDPs (index keys rewritten by hand) *)
Definition sync_risky_one (e : env) (cp : cparam) (t : nat) (gf prev : Z) (s : state) (id : nat) : outcome state unit :=
  match cdps s t id with
  | None => Panic
  | Some c =>
      let acc := new_interest gf (c_ifac c) (cdp_debt c) in
      if (acc =? 0) && (c_upd c =? prev) then Ok s tt else
      let c1 := if acc =? 0 then with_fees c (c_fees c) prev (c_ifac c) else c in
      let s1 := if acc =? 0 then put_cdp s c1 else s in
      let old := cdp_ratio e cp c1 in
      let c2 := with_fees c1 (c_fees c1 + acc) prev gf in
      let new := cdp_ratio e cp c2 in
      Ok (ridx_ins (put_cdp (ridx_del s1 t old id) c2) t new id) tt
  end.

Fixpoint ofold {A} (f : state -> A -> outcome state unit) (s : state) (l : list A) : outcome state unit :=
  match l with
  | [] => Ok s tt
  | x :: r => match f s x with Ok s1 _ => ofold f s1 r | Err => Err | Panic => Panic end
  end.

Definition sync_risky (e : env) (s : state) (t : nat) (cp : cparam) : outcome state unit :=
  let ids := map snd (idx_below MAXS (scan_count cp) (ridx s t)) in
  match ptime s t with
  | None => Panic
  | Some prev =>
      match ifac s t, ids with
      | None, [] => Ok s tt
      | None, _ => Panic
      | Some gf, _ => ofold (sync_risky_one e cp t gf prev) s ids
      end
  end.

(** * Auctions (keeper/auctions.go; x/auction Start*Auction as bank movements) *)
Definition start_coll_auction (e : env) (s : state) (lotd : nat) (lot maxbid debt : Z) (ret : nat) : outcome state unit :=
  match b_send s (LIQM e) (AUCM e) lotd lot with
  | None => Err
  | Some s1 =>
      match b_send s1 (LIQM e) (AUCM e) (d_debt e) debt with
      | None => Err
      | Some s2 => Ok (set_aucs s2 (aucs s2 ++ [mkAuc 0 lotd lot maxbid debt ret])) tt
      end
  end.

(* ApplyLiquidationPenalty *)
Definition penalty (cp : cparam) (debt : Z) : Z := dec_round_int (dec_mul (dec_of_int debt) (cp_pen cp)).

(* the loop over whole auctions of CreateAuctionsFromDeposit; returns the debt still unallocated *)
Fixpoint whole_auctions (e : env) (cp : cparam) (ret : nat) (n : nat) (dpa : Z) (s : state) (unalloc : Z) : outcome state Z :=
  match n with
  | O => Ok s unalloc
  | S k =>
      let d := if 0 <? unalloc then dpa + 1 else dpa in
      let un := if 0 <? unalloc then unalloc - 1 else unalloc in
      match start_coll_auction e s (cp_denom cp) (cp_asize cp) (d + penalty cp d) d ret with
      | Ok s1 _ => whole_auctions e cp ret k dpa s1 un
      | Err => Err
      | Panic => Panic
      end
  end.

Definition auctions_from_deposit (e : env) (cp : cparam) (s : state) (ret : nat) (coll debt : Z) : outcome state unit :=
  if coll =? 0 then Panic else       (* Int.Quo by a zero deposit *)
  let size := cp_asize cp in
  let n := coll / size in
  let dpa := debt * size / coll in
  let lastc := coll mod size in
  let lastd := debt * lastc / coll in
  let un0 := debt - (n * dpa + lastd) in
  let werr := (debt * size) mod coll in
  let lerr := (debt * lastc) mod coll in
  let lastd1 := if werr <? lerr then lastd + 1 else lastd in
  let un1 := if werr <? lerr then un0 - 1 else un0 in
  match whole_auctions e cp ret (Z.to_nat n) dpa s un1 with
  | Ok s1 un2 =>
      if lastc <=? 0 then Ok s1 tt else
      let lastd2 := if 0 <? un2 then lastd1 + 1 else lastd1 in
      start_coll_auction e s1 (cp_denom cp) lastc (lastd2 + penalty cp lastd2) lastd2 ret
  | Err => Err
  | Panic => Panic
  end.

(* AuctionCollateral: pro-rata share of a deposit = RoundInt((deposit/total) * debt) *)
Definition debt_share (dep total debt : Z) : Z :=
  dec_round_int (dec_mul (dec_quo (dec_of_int dep) (dec_of_int total)) (dec_of_int debt)).

(* the loop of AuctionCollateral (after fix 901bfe8a4): a share is capped at the
   debt that is left and the last deposit takes the remainder *)
Fixpoint auction_deposits (e : env) (cp : cparam) (total debt : Z) (s : state) (dl : list (nat * Z)) (remaining : Z) : outcome state unit :=
  match dl with
  | [] => Ok s tt
  | d :: tl =>
      if total =? 0 then Panic else     (* Dec.Quo by zero *)
      let sh0 := debt_share (snd d) total debt in
      let sh := if (match tl with [] => true | _ => false end) || (remaining <? sh0) then remaining else sh0 in
      match auctions_from_deposit e cp s (fst d) (snd d) sh with
      | Ok s1 _ => auction_deposits e cp total debt s1 tl (remaining - sh)
      | Err => Err
      | Panic => Panic
      end
  end.

Definition auction_collateral (e : env) (cp : cparam) (s : state) (dl : list (nat * Z)) (debt : Z) : outcome state unit :=
  auction_deposits e cp (zsum (map snd dl)) debt s dl debt.

(** * Seizure (keeper/seize.go) *)
Definition seize (e : env) (s : state) (cp : cparam) (c : cdp) : outcome state unit :=
  let old := cdp_ratio e cp c in
  let dl := dep_list e s (c_id c) in
  let debt := Z.min (cdp_debt c) (bal s (CDPM e) (d_debt e)) in
  match b_send s (CDPM e) (LIQM e) (d_debt e) debt with
  | None => Err
  | Some s1 =>
      match ofold (fun s2 (d : nat * Z) =>
                     match b_send s2 (CDPM e) (LIQM e) (cp_denom cp) (snd d) with
                     | None => Err
                     | Some s3 => Ok (del_dep s3 (c_id c) (fst d)) tt
                     end) s1 dl with
      | Ok s4 _ =>
          match auction_collateral e cp s4 dl debt with
          | Ok s5 _ =>
              let s6 := set_tprin s5 (upd (tprin s5) (c_type c) (Z.max (tprin s5 (c_type c) - cdp_debt c) 0)) in
              let s7 := oidx_rm s6 (c_owner c) (c_id c) in
              let s8 := ridx_del s7 (c_type c) old (c_id c) in
              Ok (del_cdp s8 c) tt
          | Err => Err
          | Panic => Panic
          end
      | Err => Err
      | Panic => Panic
      end
  end.

(* LiquidateCdps (after fix 2e356dd20): every candidate read from the index scan is confirmed with the
   value-ratio formula of CalculateCollateralizationRatio at the price fetched by this function;
   a candidate whose ratio is at or above the liquidation ratio is skipped *)
Definition confirm_below (e : env) (cp : cparam) (p : Z) (c : cdp) : bool :=
  let debt := to_base (c_prin c) (dp_cf e) + to_base (c_fees c) (dp_cf e) in
  if 0 <? debt then dec_quo (dec_mul (to_base (c_coll c) (cp_cf cp)) p) debt <? cp_liq cp else true.

Definition liq_step (e : env) (cp : cparam) (p : Z) (s1 : state) (o : option cdp) : outcome state unit :=
  match o with
  | Some c => if confirm_below e cp p c then seize e s1 cp c else Ok s1 tt
  | None => Panic
  end.

(* the slice of cdps is read first, then each confirmed candidate is seized *)
Definition liquidate_cdps (e : env) (s : state) (t : nat) (cp : cparam) : outcome state unit :=
  let p := price s (cp_liqm cp) in
  if p =? 0 then Ok s tt        (* ErrNoValidPrice is ignored by the begin blocker *)
  else
    let ents := idx_below (rkey (liq_cut p (cp_liq cp))) (scan_count cp) (ridx s t) in
    let loaded := map (fun x : Z * nat => get_cdp e s t (snd x)) ents in
    if existsb (fun o : option cdp => match o with None => true | Some _ => false end) loaded then Panic
    else ofold (liq_step e cp p) s loaded.

(* payoutKeeperLiquidationReward *)
Fixpoint first_dep_ge (r : Z) (dl : list (nat * Z)) : option (nat * Z) :=
  match dl with
  | [] => None
  | d :: tl => if r <=? snd d then Some d else first_dep_ge r tl
  end.

Definition payout_reward (e : env) (s : state) (cp : cparam) (k : nat) (c : cdp) : outcome state cdp :=
  let reward := dec_round_int (dec_mul (dec_of_int (c_coll c)) (cp_reward cp)) in
  match first_dep_ge reward (dep_list e s (c_id c)) with
  | None => Ok s c
  | Some (u, a) =>
      let s1 := put_dep s (c_id c) u (a - reward) in
      match b_send s1 (CDPM e) k (cp_denom cp) reward with
      | None => Err
      | Some s2 =>
          if c_coll c <? reward then Panic else
          let c1 := with_coll c (c_coll c - reward) in
          match update_cdp e s2 cp c1 (cdp_ratio e cp c1) with
          | Ok s3 _ => Ok s3 c1
          | Err => Err
          | Panic => Panic
          end
      end
  end.

(* NetSurplusAndDebt + RunSurplusAndDebtAuctions *)
Definition run_auctions (e : env) (s : state) : outcome state unit :=
  let net := Z.min (bal s (LIQM e) (d_usdx e)) (bal s (LIQM e) (d_debt e)) in
  match (if net =? 0 then Some s
         else match b_burn s (LIQM e) (d_debt e) net with
              | None => None
              | Some s1 => b_burn s1 (LIQM e) (d_usdx e) (Z.min (bal s1 (LIQM e) (d_usdx e)) net)
              end) with
  | None => Err
  | Some s2 =>
      match (if debt_thr e <=? bal s2 (LIQM e) (d_debt e)
             then match b_send s2 (LIQM e) (AUCM e) (d_debt e) (debt_lot e) with
                  | None => None
                  | Some s3 => Some (set_aucs s3 (aucs s3 ++ [mkAuc 1 (d_gov e) (debt_lot e * 100) (debt_lot e) (debt_lot e) 0]))
                  end
             else Some s2) with
      | None => Err
      | Some s4 =>
          let surplus := bal s4 (LIQM e) (d_usdx e) in
          if surplus <? sur_thr e then Ok s4 tt else
          let lot := Z.min (sur_lot e) surplus in
          match b_send s4 (LIQM e) (AUCM e) (d_usdx e) lot with
          | None => Err
          | Some s5 => Ok (set_aucs s5 (aucs s5 ++ [mkAuc 2 (d_usdx e) lot 0 0 0])) tt
          end
      end
  end.

(** * Begin blocker (abci.go) *)
Definition update_status (s : state) (m : nat) : state * bool :=
  let ok := negb (price s m =? 0) in (set_mstat s (upd (mstat s) m ok), ok).

Definition begin_type (e : env) (skip : bool) (s : state) (tcp : nat * cparam) : outcome state unit :=
  let (t, cp) := tcp in
  let (s1, ok1) := update_status s (cp_spot cp) in
  if negb ok1 then Ok s1 tt else
  let (s2, ok2) := update_status s1 (cp_liqm cp) in
  if negb ok2 then Ok s2 tt else
  let s3 := accumulate_interest e s2 t cp in
  if skip then Ok s3 tt else
  match sync_risky e s3 t cp with
  | Ok s4 _ =>
      match liquidate_cdps e s4 t cp with
      | Ok s5 _ => Ok s5 tt
      | _ => Panic
      end
  | _ => Panic
  end.

Definition begin_block (e : env) (s : state) : outcome state unit :=
  let skip := negb (Z.rem (height s) (interval e) =? 0) in
  match ofold (begin_type e skip) s (combine (seq 0 (ntypes e)) (cps e)) with
  | Ok s1 _ => match run_auctions e s1 with Ok s2 _ => Ok s2 tt | _ => Panic end
  | _ => Panic
  end.

(** * Messages (msg_server.go after ValidateBasic) *)
(* ValidateCollateral *)
Definition validate_collateral (e : env) (s : state) (t d : nat) : option cparam :=
  match get_cp e t with
  | None => None
  | Some cp => if Nat.eqb (cp_denom cp) d && mstat s (cp_spot cp) && mstat s (cp_liqm cp) then Some cp else None
  end.

(* ValidateDebtLimit *)
Definition debt_limit_ok (e : env) (s : state) (t : nat) (cp : cparam) (x : Z) : bool :=
  (tprin s t + x <=? cp_limit cp) && (tprin s t + x <=? glimit e).

(* CalculateCollateralizationRatio at a fetched price p (0 = ErrNoValidPrice) *)
Definition ratio_at (e : env) (cp : cparam) (p coll prin fees : Z) : outcome unit Z :=
  if coll =? 0 then Ok tt 0 else
  if p =? 0 then Err else
  match coll_ratio coll (cp_cf cp) prin fees (dp_cf e) p with
  | None => Panic
  | Some r => Ok tt r
  end.

(* ValidateCollateralizationRatio / the check of WithdrawCollateral at the spot price *)
Definition ratio_gate (e : env) (s : state) (cp : cparam) (coll prin fees : Z) : outcome unit unit :=
  match ratio_at e cp (price s (cp_spot cp)) coll prin fees with
  | Ok _ r => if r <? cp_liq cp then Err else Ok tt tt
  | Err => Err
  | Panic => Panic
  end.

(* AddCdp *)
Definition create (e : env) (s : state) (o t cd : nat) (coll : Z) (pd : nat) (prin : Z) : outcome state unit :=
  if negb ((0 <? coll) && (0 <? prin)) then Err else
  match validate_collateral e s t cd with
  | None => Err
  | Some cp =>
      if bal s o cd <? coll then Err else
      match find_cdp e s o t with
      | Some _ => Err
      | None =>
          if negb (Nat.eqb pd (d_usdx e)) then Err else
          if prin <? dp_floor e then Err else
          if negb (debt_limit_ok e s t cp prin) then Err else
          match ratio_gate e s cp coll prin 0 with
          | Err => Err
          | Panic => Panic
          | Ok _ _ =>
              let id := nextid s in
              let s0 := match ifac s t with None => set_ifac s (upd (ifac s) t (Some PREC)) | Some _ => s end in
              let fac := match ifac s t with None => PREC | Some f => f end in
              let c := mkCdp id o t coll prin 0 (now s) fac in
              match b_send s0 o (CDPM e) cd coll with
              | None => Err
              | Some s1 =>
                  let s2 := b_mint s1 (CDPM e) (d_usdx e) prin in
                  match b_send s2 (CDPM e) o (d_usdx e) prin with
                  | None => Panic
                  | Some s3 =>
                      let s4 := b_mint s3 (CDPM e) (d_debt e) prin in
                      let s5 := set_tprin s4 (upd (tprin s4) t (tprin s4 t + prin)) in
                      let s6 := ridx_ins (put_cdp s5 c) t (cdp_ratio e cp c) id in
                      let s7 := oidx_add s6 o id in
                      let s8 := put_dep s7 id o coll in
                      Ok (set_nextid s8 (S id)) tt
                  end
              end
          end
      end
  end.

(* DepositCollateral *)
Definition deposit (e : env) (s : state) (o u t cd : nat) (x : Z) : outcome state unit :=
  if negb (0 <? x) then Err else
  match validate_collateral e s t cd with
  | None => Err
  | Some cp =>
      match find_cdp e s o t with
      | None => Err
      | Some c0 =>
          if bal s u cd <? x then Err else
          match sync_interest e s cp c0 with
          | Ok s1 c =>
              let a := match deps s1 (c_id c) u with Some a0 => a0 + x | None => x end in
              match b_send s1 u (CDPM e) cd x with
              | None => Err
              | Some s2 =>
                  let s3 := put_dep s2 (c_id c) u a in
                  let c1 := with_coll c (c_coll c + x) in
                  update_cdp e s3 cp c1 (cdp_ratio e cp c1)
              end
          | Err => Err
          | Panic => Panic
          end
      end
  end.

(* WithdrawCollateral *)
Definition withdraw (e : env) (s : state) (o u t cd : nat) (x : Z) : outcome state unit :=
  if negb (0 <? x) then Err else
  match validate_collateral e s t cd with
  | None => Err
  | Some cp =>
      match find_cdp e s o t with
      | None => Err
      | Some c0 =>
          match deps s (c_id c0) u with
          | None => Err
          | Some a =>
              if a <? x then Err else
              match sync_interest e s cp c0 with
              | Ok s1 c =>
                  if c_coll c <? x then Panic else       (* Coin.Sub below zero *)
                  match ratio_gate e s1 cp (c_coll c - x) (c_prin c) (c_fees c) with
                  | Err => Err
                  | Panic => Panic
                  | Ok _ _ =>
                      match b_send s1 (CDPM e) u cd x with
                      | None => Panic
                      | Some s2 =>
                          let c1 := with_coll c (c_coll c - x) in
                          match update_cdp e s2 cp c1 (cdp_ratio e cp c1) with
                          | Ok s3 _ =>
                              Ok (if a - x =? 0 then del_dep s3 (c_id c) u else put_dep s3 (c_id c) u (a - x)) tt
                          | Err => Err
                          | Panic => Panic
                          end
                      end
                  end
              | Err => Err
              | Panic => Panic
              end
          end
      end
  end.

(* AddPrincipal *)
Definition draw (e : env) (s : state) (o t pd : nat) (x : Z) : outcome state unit :=
  if negb (0 <? x) then Err else
  match find_cdp e s o t, get_cp e t with
  | Some c0, Some cp =>
      (* ValidateCollateral (after fix 8fb7c1495): both market-status flags must be up *)
      if negb (mstat s (cp_spot cp) && mstat s (cp_liqm cp)) then Err else
      if negb (Nat.eqb pd (d_usdx e)) then Err else
      if negb (debt_limit_ok e s t cp x) then Err else
      match sync_interest e s cp c0 with
      | Ok s1 c =>
          match ratio_gate e s1 cp (c_coll c) (c_prin c + x) (c_fees c) with
          | Err => Err
          | Panic => Panic
          | Ok _ _ =>
              let s2 := b_mint s1 (CDPM e) (d_usdx e) x in
              match b_send s2 (CDPM e) o (d_usdx e) x with
              | None => Panic
              | Some s3 =>
                  let s4 := b_mint s3 (CDPM e) (d_debt e) x in
                  let c1 := with_prin c (c_prin c + x) in
                  let s5 := set_tprin s4 (upd (tprin s4) t (tprin s4 t + x)) in
                  update_cdp e s5 cp c1 (cdp_ratio e cp c1)
              end
          end
      | Err => Err
      | Panic => Panic
      end
  | _, _ => Err
  end.

(* calculatePayment: (fee payment, principal payment) *)
Definition calc_payment (owed fees pay : Z) : Z * Z :=
  let p := if owed <? pay then owed else pay in
  if fees =? 0 then (0, p)
  else if fees <? p then (fees, p - fees) else (p, 0).

(* ReturnCollateral *)
Definition return_collateral (e : env) (s : state) (cp : cparam) (c : cdp) : outcome state unit :=
  ofold (fun s1 (d : nat * Z) =>
           match b_send s1 (CDPM e) (fst d) (cp_denom cp) (snd d) with
           | None => Panic
           | Some s2 => Ok (del_dep s2 (c_id c) (fst d)) tt
           end) s (dep_list e s (c_id c)).

(* RepayPrincipal *)
Definition repay (e : env) (s : state) (o t pd : nat) (x : Z) : outcome state unit :=
  if negb (0 <? x) then Err else
  match find_cdp e s o t, get_cp e t with
  | Some c0, Some cp =>
      if negb (Nat.eqb pd (d_usdx e)) then Err else
      if bal s o pd <? x then Err else
      match sync_interest e s cp c0 with
      | Ok s1 c =>
          let '(fp, pp) := calc_payment (cdp_debt c) (c_fees c) x in
          let prop := c_prin c - pp in
          if (0 <? prop) && (prop <? dp_floor e) then Err else
          match b_send s1 o (CDPM e) (d_usdx e) (fp + pp) with
          | None => Err
          | Some s2 =>
              match b_burn s2 (CDPM e) (d_usdx e) (fp + pp) with
              | None => Panic
              | Some s3 =>
                  match b_burn s3 (CDPM e) (d_debt e) (Z.min (fp + pp) (bal s3 (CDPM e) (d_debt e))) with
                  | None => Panic
                  | Some s4 =>
                      let c1 := with_fees (with_prin c (c_prin c - pp)) (c_fees c - fp) (c_upd c) (c_ifac c) in
                      let s5 := set_tprin s4 (upd (tprin s4) t (Z.max (tprin s4 t - (fp + pp)) 0)) in
                      if (c_prin c1 =? 0) && (c_fees c1 =? 0) then
                        match return_collateral e s5 cp c1 with
                        | Ok s6 _ =>
                            let s7 := oidx_rm s6 (c_owner c1) (c_id c1) in
                            match get_cdp e s7 (c_type c1) (c_id c1) with
                            | None => Err
                            | Some old => Ok (del_cdp (ridx_del s7 (c_type old) (cdp_ratio e cp old) (c_id old)) c1) tt
                            end
                        | Err => Err
                        | Panic => Panic
                        end
                      else update_cdp e s5 cp c1 (cdp_ratio e cp c1)
                  end
              end
          end
      | Err => Err
      | Panic => Panic
      end
  | _, _ => Err
  end.

(* ValidateLiquidation + AttemptKeeperLiquidation *)
Definition keeper_liquidate (e : env) (s : state) (k o t : nat) : outcome state unit :=
  match find_cdp e s o t, get_cp e t with
  | Some c0, Some cp =>
      match sync_interest e s cp c0 with
      | Ok s1 c =>
          match ratio_at e cp (price s1 (cp_liqm cp)) (c_coll c) (c_prin c) (c_fees c) with
          | Err => Err
          | Panic => Panic
          | Ok _ r =>
              if cp_liq cp <=? r then Err else
              match payout_reward e s1 cp k c with
              | Ok s2 c1 => seize e s2 cp c1
              | Err => Err
              | Panic => Panic
              end
          end
      | Err => Err
      | Panic => Panic
      end
  | _, _ => Err
  end.

Inductive op :=
| Create (o t cd : nat) (coll : Z) (pd : nat) (prin : Z)
| Deposit (o u t cd : nat) (x : Z)
| Withdraw (o u t cd : nat) (x : Z)
| Draw (o t pd : nat) (x : Z)
| Repay (o t pd : nat) (x : Z)
| Liquidate (k o t : nat)
| Block (dt : Z) (prices : list (nat * Z)).   (* new prices (pricefeed end blocker), next block, cdp begin blocker *)

Definition user_ok (e : env) (u : nat) : bool := Nat.ltb u (nusers e).

Definition step (e : env) (s : state) (o : op) : outcome state unit :=
  match o with
  | Create ow t cd coll pd prin => if user_ok e ow then create e s ow t cd coll pd prin else Err
  | Deposit ow u t cd x => if user_ok e ow && user_ok e u then deposit e s ow u t cd x else Err
  | Withdraw ow u t cd x => if user_ok e ow && user_ok e u then withdraw e s ow u t cd x else Err
  | Draw ow t pd x => if user_ok e ow then draw e s ow t pd x else Err
  | Repay ow t pd x => if user_ok e ow then repay e s ow t pd x else Err
  | Liquidate k ow t => if user_ok e ow && user_ok e k then keeper_liquidate e s k ow t else Err
  | Block dt prices =>
      let pr := fold_left (fun f (mp : nat * Z) => upd f (fst mp) (snd mp)) prices (price s) in
      begin_block e (set_clock (set_price s pr) (now s + dt) (height s + 1))
  end.

(* a failed operation leaves the state it started from *)
Definition step' (e : env) (s : state) (o : op) : state :=
  match step e s o with Ok s' _ => s' | _ => s end.
Definition run (e : env) (s : state) (ops : list op) : state := fold_left (step' e) ops s.

(** * Correspondence-check support *)
Inductive rclass := ROk | RErr | RPanic.
Definition rclass_eqb (a b : rclass) : bool :=
  match a, b with ROk, ROk | RErr, RErr | RPanic, RPanic => true | _, _ => false end.
Definition class_of {S O} (r : outcome S O) : rclass :=
  match r with Ok _ _ => ROk | Err => RErr | Panic => RPanic end.

Fixpoint list_eqb {A} (eqb : A -> A -> bool) (l1 l2 : list A) : bool :=
  match l1, l2 with
  | [], [] => true
  | x :: r1, y :: r2 => eqb x y && list_eqb eqb r1 r2
  | _, _ => false
  end.
Definition zl_eqb := list_eqb Z.eqb.
Definition zll_eqb := list_eqb zl_eqb.

Definition N2Z (n : nat) : Z := Z.of_nat n.
Definition oz (o : option Z) : Z := match o with Some z => z | None => -1 end.

(* projection of a state on the observables (rows of integers) *)
Record snap := mkSnap {
  sn_cdps : list (list Z);    (* [type; id; owner; collateral; principal; fees; fees updated; interest factor], key order *)
  sn_deps : list (list Z);    (* [cdp id; depositor; amount], key order *)
  sn_oidx : list (list Z);    (* owner :: ids, owner order, raw *)
  sn_ridx : list (list Z);    (* [type; ratio key; id], key order, raw *)
  sn_misc : list (list Z);    (* per type [total principal; interest factor; accrual time]; then [next id]; then market status *)
  sn_bal : list (list Z);     (* account x denom *)
  sn_sup : list Z;
  sn_aucs : list (list Z)     (* auctions started by the last step: [kind; lot denom; lot; max bid; debt; return address] *)
}.

Definition proj_cdps (e : env) (s : state) : list (list Z) :=
  flat_map (fun t => flat_map (fun id =>
     match cdps s t id with
     | Some c => [[N2Z (c_type c); N2Z (c_id c); N2Z (c_owner c); c_coll c; c_prin c; c_fees c; c_upd c; c_ifac c]]
     | None => [] end) (seq 0 (nextid s))) (seq 0 (ntypes e)).
Definition proj_deps (e : env) (s : state) : list (list Z) :=
  flat_map (fun id => map (fun d : nat * Z => [N2Z id; N2Z (fst d); snd d]) (dep_list e s id)) (seq 0 (nextid s)).
Definition proj_oidx (e : env) (s : state) : list (list Z) :=
  flat_map (fun o => match oidx s o with [] => [] | l => [N2Z o :: map N2Z l] end) (seq 0 (nusers e)).
Definition proj_ridx (e : env) (s : state) : list (list Z) :=
  flat_map (fun t => map (fun x : Z * nat => [N2Z t; fst x; N2Z (snd x)]) (ridx s t)) (seq 0 (ntypes e)).
Definition proj_misc (e : env) (s : state) : list (list Z) :=
  map (fun t => [tprin s t; oz (ifac s t); oz (ptime s t)]) (seq 0 (ntypes e))
  ++ [[N2Z (nextid s)]; map (fun m => if mstat s m then 1 else 0) (seq 0 (nmarkets e))].
Definition proj_aucs (s : state) : list (list Z) :=
  map (fun a => [N2Z (a_kind a); N2Z (a_lotd a); a_lot a; a_max a; a_debt a; N2Z (a_ret a)]) (aucs s).

Definition project (e : env) (s : state) : snap :=
  mkSnap (proj_cdps e s) (proj_deps e s) (proj_oidx e s) (proj_ridx e s) (proj_misc e s)
         (map (fun a => map (fun d => bal s a d) (seq 0 (ndenoms e))) (seq 0 (nacc e)))
         (map (fun d => sup s d) (seq 0 (ndenoms e)))
         (proj_aucs s).

Definition snap_eqb (a b : snap) : bool :=
  zll_eqb (sn_cdps a) (sn_cdps b) && zll_eqb (sn_deps a) (sn_deps b) && zll_eqb (sn_oidx a) (sn_oidx b)
  && zll_eqb (sn_ridx a) (sn_ridx b) && zll_eqb (sn_misc a) (sn_misc b) && zll_eqb (sn_bal a) (sn_bal b)
  && zl_eqb (sn_sup a) (sn_sup b) && zll_eqb (sn_aucs a) (sn_aucs b).

(* what the harness records after each operation: the result class and the
   observable state of the implementation; a component that did not change since
   the previous observation is None, balances and supplies are given as changes *)
Record obs := mkObs {
  o_class : rclass;
  o_cdps : option (list (list Z));
  o_deps : option (list (list Z));
  o_oidx : option (list (list Z));
  o_ridx : option (list (list Z));
  o_misc : option (list (list Z));
  o_dbal : list (nat * nat * Z);
  o_dsup : list (nat * Z);
  o_aucs : list (list Z)
}.

Definition oset {A} (o : option A) (d : A) : A := match o with Some x => x | None => d end.
Fixpoint set_nth {A} (l : list A) (i : nat) (v : A) : list A :=
  match l, i with
  | [], _ => []
  | _ :: r, O => v :: r
  | h :: r, S k => h :: set_nth r k v
  end.

Definition apply_obs (sh : snap) (o : obs) : snap :=
  mkSnap (oset (o_cdps o) (sn_cdps sh)) (oset (o_deps o) (sn_deps sh)) (oset (o_oidx o) (sn_oidx sh))
         (oset (o_ridx o) (sn_ridx sh)) (oset (o_misc o) (sn_misc sh))
         (fold_left (fun b (p : nat * nat * Z) =>
                       set_nth b (fst (fst p)) (set_nth (nth (fst (fst p)) b []) (snd (fst p)) (snd p)))
                    (o_dbal o) (sn_bal sh))
         (fold_left (fun b (p : nat * Z) => set_nth b (fst p) (snd p)) (o_dsup o) (sn_sup sh))
         (o_aucs o).

(** boolean form of the module invariant, evaluated on every model state of the
    correspondence run (Proofs/Cdp*.v relate it to the propositional one) *)
Definition oz0 (o : option Z) : Z := match o with Some z => z | None => 0 end.
Definition dep_total (e : env) (s : state) (id : nat) : Z := sumN (nusers e) (fun u => oz0 (deps s id u)).
Definition coll_of (s : state) (t id : nat) : Z := match cdps s t id with Some c => c_coll c | None => 0 end.
Definition debt_of (s : state) (t id : nat) : Z := match cdps s t id with Some c => cdp_debt c | None => 0 end.
(* collateral of denom d recorded in cdps *)
Definition custody (e : env) (s : state) (d : nat) : Z :=
  zsum (map (fun tcp : nat * cparam =>
               if Nat.eqb (cp_denom (snd tcp)) d then sumN (nextid s) (fun id => coll_of s (fst tcp) id) else 0)
            (combine (seq 0 (ntypes e)) (cps e))).
Definition is_coll_denom (e : env) (d : nat) : bool := existsb (fun cp => Nat.eqb (cp_denom cp) d) (cps e).

Fixpoint ents_sorted (l : list (Z * nat)) : bool :=
  match l with
  | a :: ((b :: _) as r) => ent_ltb a b && ents_sorted r
  | _ => true
  end.
Fixpoint nats_sorted (l : list nat) : bool :=
  match l with
  | a :: ((b :: _) as r) => Nat.ltb a b && nats_sorted r
  | _ => true
  end.
Definition mem_nat (x : nat) (l : list nat) : bool := existsb (Nat.eqb x) l.
Definition mem_ent (x : Z * nat) (l : list (Z * nat)) : bool := existsb (ent_eqb x) l.

Definition inv_cdp_b (e : env) (s : state) (t : nat) (cp : cparam) (id : nat) : bool :=
  match cdps s t id with
  | None => true
  | Some c =>
      Nat.eqb (c_id c) id && Nat.eqb (c_type c) t && Nat.ltb (c_owner c) (nusers e)
      && (c_coll c =? dep_total e s id) && (0 <=? c_coll c) && (0 <=? c_prin c) && (0 <=? c_fees c)
      && mem_nat id (oidx s (c_owner c))
      && mem_ent (rkey (cdp_ratio e cp c), id) (ridx s t)
      (* a cdp id is used by one collateral type only *)
      && forallb (fun t' => Nat.eqb t' t || match cdps s t' id with None => true | Some _ => false end) (seq 0 (ntypes e))
  end.

Definition inv_b (e : env) (usdx0 : Z) (s : state) : bool :=
  (* every stored cdp: identity, collateral = sum of its deposits, indexed by owner and by ratio *)
  forallb (fun tcp : nat * cparam => forallb (inv_cdp_b e s (fst tcp) (snd tcp)) (seq 0 (nextid s)))
          (combine (seq 0 (ntypes e)) (cps e))
  (* every deposit belongs to a stored cdp and is not negative *)
  && forallb (fun id => forallb (fun u =>
        match deps s id u with
        | None => true
        | Some a => (0 <=? a) && existsb (fun t => match cdps s t id with Some _ => true | None => false end) (seq 0 (ntypes e))
        end) (seq 0 (nusers e))) (seq 0 (nextid s))
  (* module account holds exactly the recorded collateral *)
  && forallb (fun d => negb (is_coll_denom e d) || (bal s (CDPM e) d =? custody e s d)) (seq 0 (ndenoms e))
  (* owner index: sorted, every id is a stored cdp of that owner *)
  && forallb (fun o => nats_sorted (oidx s o)
        && forallb (fun id => existsb (fun t => match cdps s t id with Some c => Nat.eqb (c_owner c) o | None => false end)
                                      (seq 0 (ntypes e))) (oidx s o)) (seq 0 (nusers e))
  (* ratio index: sorted, every entry is a stored cdp under its current ratio *)
  && forallb (fun tcp : nat * cparam => ents_sorted (ridx s (fst tcp))
        && forallb (fun x : Z * nat =>
             match cdps s (fst tcp) (snd x) with
             | Some c => fst x =? rkey (cdp_ratio e (snd tcp) c)
             | None => false end) (ridx s (fst tcp)))
        (combine (seq 0 (ntypes e)) (cps e))
  (* stable coin issued by the module never exceeds the debt coin, which sits in the three module accounts *)
  && (sup s (d_debt e) =? bal s (CDPM e) (d_debt e) + bal s (LIQM e) (d_debt e) + bal s (AUCM e) (d_debt e))
  && (sup s (d_usdx e) - usdx0 <=? sup s (d_debt e)).

Record history := mkHist {
  h_env : env;
  h_usdx0 : Z;            (* usdx supply at genesis (not issued by the module) *)
  h_init : state;
  h_steps : list (op * obs)
}.

(* first step index (from 0) at which model and implementation differ, or at
   which the model invariant evaluates to false *)
Fixpoint first_mismatch (e : env) (u0 : Z) (s : state) (sh : snap) (h : list (op * obs)) (i : nat) : option nat :=
  match h with
  | [] => None
  | (o, ob) :: r =>
      let res := step e (set_aucs s []) o in
      let s' := match res with Ok s1 _ => s1 | _ => set_aucs s [] end in
      let sh' := apply_obs sh ob in
      if rclass_eqb (class_of res) (o_class ob) && snap_eqb (project e s') sh' && inv_b e u0 s'
      then first_mismatch e u0 s' sh' r (S i)
      else Some i
  end.

Definition check_history (h : history) : option nat :=
  if inv_b (h_env h) (h_usdx0 h) (h_init h)
  then first_mismatch (h_env h) (h_usdx0 h) (h_init h) (project (h_env h) (h_init h)) (h_steps h) 0
  else Some 0%nat.

Fixpoint mismatches_from (i : nat) (hs : list history) : list (nat * nat) :=
  match hs with
  | [] => []
  | h :: r =>
      match check_history h with
      | None => mismatches_from (S i) r
      | Some k => (i, k) :: mismatches_from (S i) r
      end
  end.
Definition mismatches := mismatches_from 0.

(* list-based construction of the initial state from harness data *)
Definition nthZ (l : list Z) (i : nat) : Z := nth i l 0.
Definition nthO (l : list Z) (i : nat) : option Z := match nth_error l i with Some z => if z <? 0 then None else Some z | None => None end.

(* genesis: empty cdp stores; balances, supplies, prices, market status, per type
   interest factor / accrual time (-1 = not set), starting id, block time and height *)
Definition mk_state (bals : list (list Z)) (sups prices : list Z) (status : list bool)
                    (ifacs ptimes : list Z) (startid : nat) (t h : Z) : state :=
  mkSt (fun _ _ => None) (fun _ _ => None) (fun _ => []) (fun _ => []) (fun _ => 0)
       (nthO ifacs) (nthO ptimes) startid (fun m => nth m status false) (nthZ prices)
       (fun a d => nthZ (nth a bals []) d) (nthZ sups) [] t h.
