(* C02: the order of the begin and end blockers of the app, as a table.

   [begin_blockers] / [end_blockers] list EVERY argument of app.mm.SetOrderBeginBlockers( ... ) and
   app.mm.SetOrderEndBlockers( ... ) of /repo/app/app.go in source order: (is the module one of Kava's own,
   i.e. imported from github.com/kava-labs/kava/x/..., the module directory name).
   [blocker_rows] is the same information in the form ./check compares, row by row, with what the source
   enumerator tools/blockorder re-reads from app.go on every run (key = phase:position:kava|ext:module);
   [blocker_rows_are_the_tables] proves that the literal rows are exactly the rendering of the two tables, so a
   change of the blocker order in the source (an insertion, a removal, two modules swapped) breaks the tie of
   every C02 theorem to the code.  Definitions and two closed computations only. *)
From Coq Require Import String Ascii List Arith.
Import ListNotations.
Local Open Scope string_scope.

Definition begin_blockers : list (bool * string) :=
  [(true, "metrics");
   (false, "upgrade");
   (false, "capability");
   (true, "committee");
   (true, "community");
   (false, "mint");
   (false, "distribution");
   (false, "slashing");
   (false, "evidence");
   (false, "staking");
   (false, "feemarket");
   (false, "evm");
   (true, "kavadist");
   (true, "auction");
   (true, "cdp");
   (true, "bep3");
   (true, "hard");
   (true, "issuance");
   (true, "incentive");
   (false, "core");
   (true, "swap");
   (false, "vesting");
   (true, "pricefeed");
   (true, "validator-vesting");
   (false, "auth");
   (false, "bank");
   (false, "gov");
   (false, "crisis");
   (false, "genutil");
   (false, "transfer");
   (false, "params");
   (false, "authz");
   (true, "evmutil");
   (true, "savings");
   (true, "liquid");
   (true, "earn");
   (true, "router");
   (false, "consensus");
   (false, "packetforward");
   (true, "precisebank")].

Definition end_blockers : list (bool * string) :=
  [(false, "crisis");
   (false, "gov");
   (false, "staking");
   (false, "evm");
   (false, "feemarket");
   (true, "pricefeed");
   (false, "capability");
   (true, "incentive");
   (true, "issuance");
   (false, "slashing");
   (false, "distribution");
   (true, "auction");
   (true, "bep3");
   (true, "cdp");
   (true, "hard");
   (true, "committee");
   (false, "upgrade");
   (false, "evidence");
   (true, "kavadist");
   (true, "swap");
   (false, "vesting");
   (false, "core");
   (true, "validator-vesting");
   (false, "auth");
   (false, "bank");
   (false, "genutil");
   (false, "transfer");
   (false, "params");
   (false, "authz");
   (true, "evmutil");
   (true, "savings");
   (true, "liquid");
   (true, "earn");
   (true, "router");
   (false, "mint");
   (true, "community");
   (true, "metrics");
   (false, "consensus");
   (false, "packetforward");
   (true, "precisebank")].

Definition begin_blocker_order : list string := map snd begin_blockers.
Definition end_blocker_order : list string := map snd end_blockers.

(* Kava's own modules, in begin-blocker (end-blocker) order *)
Definition kava_begin_order : list string := map snd (filter fst begin_blockers).
Definition kava_end_order : list string := map snd (filter fst end_blockers).

(* rendering of a table as enumerator keys *)
Definition digit (n : nat) : string := String (ascii_of_nat (48 + n)) EmptyString.
Definition two_digits (n : nat) : string := digit (n / 10) ++ digit (n mod 10).
Fixpoint keys_from (phase : string) (i : nat) (l : list (bool * string)) : list string :=
  match l with
  | [] => []
  | (k, name) :: r =>
      (phase ++ ":" ++ two_digits i ++ ":" ++ (if k then "kava" else "ext") ++ ":" ++ name) :: keys_from phase (S i) r
  end.

(* the rows compared with the source on every run (do not edit by hand: regenerate with tools/blockorder) *)
Definition blocker_rows : list (string * nat) :=
  [("begin:00:kava:metrics", 1%nat);
   ("begin:01:ext:upgrade", 1%nat);
   ("begin:02:ext:capability", 1%nat);
   ("begin:03:kava:committee", 1%nat);
   ("begin:04:kava:community", 1%nat);
   ("begin:05:ext:mint", 1%nat);
   ("begin:06:ext:distribution", 1%nat);
   ("begin:07:ext:slashing", 1%nat);
   ("begin:08:ext:evidence", 1%nat);
   ("begin:09:ext:staking", 1%nat);
   ("begin:10:ext:feemarket", 1%nat);
   ("begin:11:ext:evm", 1%nat);
   ("begin:12:kava:kavadist", 1%nat);
   ("begin:13:kava:auction", 1%nat);
   ("begin:14:kava:cdp", 1%nat);
   ("begin:15:kava:bep3", 1%nat);
   ("begin:16:kava:hard", 1%nat);
   ("begin:17:kava:issuance", 1%nat);
   ("begin:18:kava:incentive", 1%nat);
   ("begin:19:ext:core", 1%nat);
   ("begin:20:kava:swap", 1%nat);
   ("begin:21:ext:vesting", 1%nat);
   ("begin:22:kava:pricefeed", 1%nat);
   ("begin:23:kava:validator-vesting", 1%nat);
   ("begin:24:ext:auth", 1%nat);
   ("begin:25:ext:bank", 1%nat);
   ("begin:26:ext:gov", 1%nat);
   ("begin:27:ext:crisis", 1%nat);
   ("begin:28:ext:genutil", 1%nat);
   ("begin:29:ext:transfer", 1%nat);
   ("begin:30:ext:params", 1%nat);
   ("begin:31:ext:authz", 1%nat);
   ("begin:32:kava:evmutil", 1%nat);
   ("begin:33:kava:savings", 1%nat);
   ("begin:34:kava:liquid", 1%nat);
   ("begin:35:kava:earn", 1%nat);
   ("begin:36:kava:router", 1%nat);
   ("begin:37:ext:consensus", 1%nat);
   ("begin:38:ext:packetforward", 1%nat);
   ("begin:39:kava:precisebank", 1%nat);
   ("end:00:ext:crisis", 1%nat);
   ("end:01:ext:gov", 1%nat);
   ("end:02:ext:staking", 1%nat);
   ("end:03:ext:evm", 1%nat);
   ("end:04:ext:feemarket", 1%nat);
   ("end:05:kava:pricefeed", 1%nat);
   ("end:06:ext:capability", 1%nat);
   ("end:07:kava:incentive", 1%nat);
   ("end:08:kava:issuance", 1%nat);
   ("end:09:ext:slashing", 1%nat);
   ("end:10:ext:distribution", 1%nat);
   ("end:11:kava:auction", 1%nat);
   ("end:12:kava:bep3", 1%nat);
   ("end:13:kava:cdp", 1%nat);
   ("end:14:kava:hard", 1%nat);
   ("end:15:kava:committee", 1%nat);
   ("end:16:ext:upgrade", 1%nat);
   ("end:17:ext:evidence", 1%nat);
   ("end:18:kava:kavadist", 1%nat);
   ("end:19:kava:swap", 1%nat);
   ("end:20:ext:vesting", 1%nat);
   ("end:21:ext:core", 1%nat);
   ("end:22:kava:validator-vesting", 1%nat);
   ("end:23:ext:auth", 1%nat);
   ("end:24:ext:bank", 1%nat);
   ("end:25:ext:genutil", 1%nat);
   ("end:26:ext:transfer", 1%nat);
   ("end:27:ext:params", 1%nat);
   ("end:28:ext:authz", 1%nat);
   ("end:29:kava:evmutil", 1%nat);
   ("end:30:kava:savings", 1%nat);
   ("end:31:kava:liquid", 1%nat);
   ("end:32:kava:earn", 1%nat);
   ("end:33:kava:router", 1%nat);
   ("end:34:ext:mint", 1%nat);
   ("end:35:kava:community", 1%nat);
   ("end:36:kava:metrics", 1%nat);
   ("end:37:ext:consensus", 1%nat);
   ("end:38:ext:packetforward", 1%nat);
   ("end:39:kava:precisebank", 1%nat)].

Lemma blocker_rows_are_the_tables :
  map fst blocker_rows = (keys_from "begin" 0 begin_blockers ++ keys_from "end" 0 end_blockers)%list.
Proof. vm_compute. reflexivity. Qed.

(* position of a module in an order (None = absent) *)
Fixpoint pos_of (name : string) (l : list string) (i : nat) : option nat :=
  match l with
  | [] => None
  | x :: r => if String.eqb x name then Some i else pos_of name r (S i)
  end.

