(* Model of x/hard: keeper/{deposit,withdraw,borrow,repay,liquidation,interest,hooks,params}.go,
   types/liquidation.go, abci.go, over an abstract x/bank (plain balances), x/pricefeed
   (current price per denom, 0 = no valid price), x/auction (a started auction = the lot
   leaving the hard module account for the auction module account) and the incentive
   hooks wired in app.go (only their panic condition: NormalizedDeposit/NormalizedBorrow).
   Definitions only.

   Denoms are numbered in string order (0 .. nd-1); sdk.Coins is a function
   denom -> amount (the coin list = the denoms with a non-zero amount, in order).
   LegacyDec values are mantissas (Base/Dec.v). *)
From Kava Require Import Base.Prelude Base.Dec.
Local Open Scope Z_scope.

(** * outcome monad *)
Definition res (A : Type) := outcome A unit.
Definition ret {A} (a : A) : res A := Ok a tt.
Definition bind {A B} (r : res A) (f : A -> res B) : res B :=
  match r with Ok a _ => f a | Err => Err | Panic => Panic end.
Notation "x <- r ;; k" := (bind r (fun x => k)) (at level 61, r at next level, right associativity).
Definition err_unless (b : bool) : res unit := if b then ret tt else Err.
Definition panic_unless (b : bool) : res unit := if b then ret tt else Panic.
Definition opt_err {A} (o : option A) : res A := match o with Some a => ret a | None => Err end.

(** * sdk.Coins *)
Definition coins := nat -> Z.
Definition czero : coins := fun _ => 0.
Definition cadd (a b : coins) : coins := fun d => a d + b d.
Definition csub (a b : coins) : coins := fun d => a d - b d.
Definition csingle (d : nat) (x : Z) : coins := fun y => if Nat.eqb y d then x else 0.
Definition denoms (n : nat) (c : coins) : list nat :=
  filter (fun d => negb (c d =? 0)) (seq 0 n).
Definition cempty (n : nat) (c : coins) : bool := forallb (fun d => c d =? 0) (seq 0 n).
Definition cany_neg (n : nat) (c : coins) : bool := existsb (fun d => c d <? 0) (seq 0 n).
Definition cmin (a b : coins) : coins := fun d => Z.min (a d) (b d).

(* coins of a message: sdk.Coins.IsValid (strictly increasing denoms, positive amounts) *)
Fixpoint clist_valid_from (lo : option nat) (c : list (nat * Z)) : bool :=
  match c with
  | [] => true
  | (d, x) :: r =>
      (0 <? x) && (match lo with None => true | Some p => Nat.ltb p d end)
      && clist_valid_from (Some d) r
  end.
Definition clist_valid (c : list (nat * Z)) := clist_valid_from None c.
Fixpoint of_list (l : list (nat * Z)) : coins :=
  match l with
  | [] => czero
  | (d, x) :: r => fun y => if Nat.eqb y d then x else of_list r y
  end.

(** * interest-factor index lists (types.SupplyInterestFactors / BorrowInterestFactors) *)
Definition index := list (nat * Z).
Fixpoint idx_get (d : nat) (l : index) : option Z :=
  match l with
  | [] => None
  | (d', x) :: r => if Nat.eqb d' d then Some x else idx_get d r
  end.
Fixpoint idx_set (d : nat) (v : Z) (l : index) : index :=
  match l with
  | [] => [(d, v)]
  | (d', x) :: r => if Nat.eqb d' d then (d, v) :: r else (d', x) :: idx_set d v r
  end.
Fixpoint idx_remove (d : nat) (l : index) : option index :=
  match l with
  | [] => None
  | (d', x) :: r =>
      if Nat.eqb d' d then Some r
      else match idx_remove d r with Some r' => Some ((d', x) :: r') | None => None end
  end.

(** * parameters and state *)
Record market := mkMarket {
  m_cf : Z;           (* ConversionFactor (Int) *)
  m_ltv : Z;          (* BorrowLimit.LoanToValue (Dec) *)
  m_has_max : bool;   (* BorrowLimit.HasMaxLimit *)
  m_max : Z;          (* BorrowLimit.MaximumLimit (Dec) *)
  m_reserve : Z;      (* ReserveFactor (Dec) *)
  m_keeper : Z;       (* KeeperRewardPercentage (Dec) *)
  m_base : Z; m_mult : Z; m_kink : Z; m_jump : Z   (* InterestRateModel (Dec) *)
}.

Record env := mkEnv {
  nd : nat;                    (* denoms 0 .. nd-1 *)
  nu : nat;                    (* users 0 .. nu-1; account nu = hard module, nu+1 = auction module *)
  min_borrow : Z               (* MinimumBorrowUSDValue (Dec) *)
}.
Definition hacc (e : env) : nat := nu e.
Definition aacc (e : env) : nat := S (nu e).
Definition nacc (e : env) : nat := S (S (nu e)).

Record urec := mkU { amt : coins; idx : index }.   (* Deposit / Borrow record *)

Record state := mkState {
  bal : nat -> nat -> Z;       (* x/bank balance: account, denom *)
  price : nat -> Z;            (* pricefeed current price of the denom's spot market; 0 = none *)
  dep : nat -> option urec;
  bor : nat -> option urec;
  sfac : nat -> option Z;      (* supply interest factor *)
  bfac : nat -> option Z;      (* borrow interest factor *)
  prev : nat -> option Z;      (* previous accrual time (unix seconds) *)
  tsup : coins;                (* total supplied; "found" = non-empty *)
  tbor : coins;                (* total borrowed *)
  tres : coins;                (* total reserves *)
  params : nat -> option market;  (* x/params: Params.MoneyMarkets (changed by governance: SetParams) *)
  mkts : nat -> option market     (* money-market store (MoneyMarketsPrefix); synced from the params by the begin blocker *)
}.

Definition set_bal s v := mkState v (price s) (dep s) (bor s) (sfac s) (bfac s) (prev s) (tsup s) (tbor s) (tres s) (params s) (mkts s).
Definition set_price s v := mkState (bal s) v (dep s) (bor s) (sfac s) (bfac s) (prev s) (tsup s) (tbor s) (tres s) (params s) (mkts s).
Definition set_dep s v := mkState (bal s) (price s) v (bor s) (sfac s) (bfac s) (prev s) (tsup s) (tbor s) (tres s) (params s) (mkts s).
Definition set_bor s v := mkState (bal s) (price s) (dep s) v (sfac s) (bfac s) (prev s) (tsup s) (tbor s) (tres s) (params s) (mkts s).
Definition set_sfac s v := mkState (bal s) (price s) (dep s) (bor s) v (bfac s) (prev s) (tsup s) (tbor s) (tres s) (params s) (mkts s).
Definition set_bfac s v := mkState (bal s) (price s) (dep s) (bor s) (sfac s) v (prev s) (tsup s) (tbor s) (tres s) (params s) (mkts s).
Definition set_prev s v := mkState (bal s) (price s) (dep s) (bor s) (sfac s) (bfac s) v (tsup s) (tbor s) (tres s) (params s) (mkts s).
Definition set_tsup s v := mkState (bal s) (price s) (dep s) (bor s) (sfac s) (bfac s) (prev s) v (tbor s) (tres s) (params s) (mkts s).
Definition set_tbor s v := mkState (bal s) (price s) (dep s) (bor s) (sfac s) (bfac s) (prev s) (tsup s) v (tres s) (params s) (mkts s).
Definition set_tres s v := mkState (bal s) (price s) (dep s) (bor s) (sfac s) (bfac s) (prev s) (tsup s) (tbor s) v (params s) (mkts s).
Definition set_params s v := mkState (bal s) (price s) (dep s) (bor s) (sfac s) (bfac s) (prev s) (tsup s) (tbor s) (tres s) v (mkts s).
Definition set_mkts s v := mkState (bal s) (price s) (dep s) (bor s) (sfac s) (bfac s) (prev s) (tsup s) (tbor s) (tres s) (params s) v.

Definition amt_of (o : option urec) : coins := match o with Some r => amt r | None => czero end.

(** * x/bank (modelled, not verified): plain accounts, no locked coins *)
Definition can_pay (n : nat) (s : state) (f : nat) (c : coins) : bool :=
  forallb (fun d => (c d =? 0) || (c d <=? bal s f d)) (seq 0 n).
Definition move (s : state) (f t : nat) (c : coins) : state :=
  set_bal s (fun a d => bal s a d - (if Nat.eqb a f then c d else 0) + (if Nat.eqb a t then c d else 0)).
Definition bsend (n : nat) (s : state) (f t : nat) (c : coins) : res state :=
  if can_pay n s f c then ret (move s f t c) else Err.

(** * valuation *)
(* sdk.NewDecFromInt(amount).Quo(sdk.NewDecFromInt(conversionFactor)).Mul(price) — the same
   expression at every call site (ValidateBorrow x3, ValidateRepay x2, IsWithinValidLtvRange x2,
   SeizeDeposits x2) *)
Definition usd (m : market) (p : Z) (a : Z) : Z :=
  dec_mul (dec_quo (dec_of_int a) (dec_of_int (m_cf m))) p.

(* money market and valid price of a denom, as LoadLiquidationData / ValidateBorrow fetch them *)
Definition mkt (e : env) (s : state) (d : nat) : option (market * Z) :=
  match mkts s d with
  | Some m => if price s d =? 0 then None else Some (m, price s d)
  | None => None
  end.

Definition sum_over (l : list nat) (f : nat -> Z) : Z := zsum (map f l).

(* all denoms of the coins have a market and a price *)
Definition all_priced (e : env) (s : state) (c : coins) : bool :=
  forallb (fun d => match mkt e s d with Some _ => true | None => false end) (denoms (nd e) c).

Definition usd_d (e : env) (s : state) (d : nat) (a : Z) : Z :=
  match mkt e s d with Some (m, p) => usd m p a | None => 0 end.
Definition ltv_d (s : state) (d : nat) : Z :=
  match mkts s d with Some m => m_ltv m | None => 0 end.

(* total USD value of coins, each coin valued separately *)
Definition value_of (e : env) (s : state) (c : coins) : Z :=
  sum_over (denoms (nd e) c) (fun d => usd_d e s d (c d)).
(* sum over deposit coins of usdValue.Mul(ltv) *)
Definition borrowable_of (e : env) (s : state) (c : coins) : Z :=
  sum_over (denoms (nd e) c) (fun d => dec_mul (usd_d e s d (c d)) (ltv_d s d)).

(* liquidation.go IsWithinValidLtvRange: None = error (market or price not found) *)
Definition within_ltv (e : env) (s : state) (dp bw : coins) : option bool :=
  if all_priced e s dp && all_priced e s bw
  then Some (negb (borrowable_of e s dp <? value_of e s bw))
  else None.

(** * incentive hooks (app.go wires incentive's Hooks into the hard keeper):
      SynchronizeHardSupplyReward / SynchronizeHardBorrowReward panic when
      NormalizedDeposit / NormalizedBorrow fail: a coin without index entry or with an
      index value < 1.  (A claim exists for every account that has a record.) *)
Definition hook_ok (n : nat) (o : option urec) : bool :=
  match o with
  | None => true
  | Some r => forallb (fun d => match idx_get d (idx r) with
                                | Some f => PREC <=? f
                                | None => false end) (denoms n (amt r))
  end.

(** * interest.go SyncSupplyInterest / SyncBorrowInterest, deposit.go loadSyncedDeposit,
      borrow.go loadSyncedBorrow *)
Definition fac0 (f : nat -> option Z) (d : nat) : Z := match f d with Some x => x | None => 0 end.

(* interest of one supplied coin: storedAmount.Mul(factor).Quo(userFactor) - storedAmount, truncated *)
Definition sup_interest (a f uf : Z) : Z :=
  dec_trunc_int (dec_quo (dec_mul (dec_of_int a) f) uf - dec_of_int a).
(* interest of one borrowed coin: storedAmount.Quo(userFactor).Mul(factor) - storedAmount, truncated *)
Definition bor_interest (a f uf : Z) : Z :=
  dec_trunc_int (dec_mul (dec_quo (dec_of_int a) uf) f - dec_of_int a).

Definition sync_sup_coin (sf : nat -> option Z) (a : coins) (acc : res (coins * index)) (d : nat)
  : res (coins * index) :=
  x <- acc ;;
  let '(tot, ix) := x in
  let f := fac0 sf d in
  match idx_get d ix with
  | None => ret (tot, idx_set d f ix)
  | Some uf =>
      if uf =? 0 then Panic   (* Dec.Quo by zero *)
      else
        let i := sup_interest (a d) f uf in
        ret ((if 0 <? i then upd tot d i else tot), idx_set d f ix)
  end.

Definition sync_sup_rec (n : nat) (sf : nat -> option Z) (r : urec) : res urec :=
  x <- fold_left (sync_sup_coin sf (amt r)) (denoms n (amt r)) (ret (czero, idx r)) ;;
  ret (mkU (cadd (amt r) (fst x)) (snd x)).

Definition sync_bor_coin (bf : nat -> option Z) (a : coins) (acc : res (coins * index)) (d : nat)
  : res (coins * index) :=
  x <- acc ;;
  let '(tot, ix) := x in
  let f := fac0 bf d in
  match idx_get d ix with
  | None => ret (tot, idx_set d f ix)
  | Some uf =>
      if uf =? 0 then Panic
      else
        let i := bor_interest (a d) f uf in
        if i <? 0 then Panic   (* sdk.NewCoin with a negative amount *)
        else ret (upd tot d i, idx_set d f ix)
  end.

Definition sync_bor_rec (n : nat) (bf : nat -> option Z) (r : urec) : res urec :=
  x <- fold_left (sync_bor_coin bf (amt r)) (denoms n (amt r)) (ret (czero, idx r)) ;;
  ret (mkU (cadd (amt r) (fst x)) (snd x)).

Definition sync_supply (e : env) (s : state) (u : nat) : res state :=
  match dep s u with
  | None => ret s
  | Some r => r' <- sync_sup_rec (nd e) (sfac s) r ;; ret (set_dep s (upd (dep s) u (Some r')))
  end.
Definition sync_borrow (e : env) (s : state) (u : nat) : res state :=
  match bor s u with
  | None => ret s
  | Some r => r' <- sync_bor_rec (nd e) (bfac s) r ;; ret (set_bor s (upd (bor s) u (Some r')))
  end.

(* loadSyncedDeposit / loadSyncedBorrow: interest is added for a coin only when the global
   factor and the user's index entry both exist; sdk.NewCoin panics on a negative amount
   (unlike SyncSupplyInterest, which skips a non-positive interest), Dec.Quo on a zero index.
   [intf] is the interest formula.  loadSyncedBorrow uses Quo-then-Mul ([bor_interest]) like
   SyncBorrowInterest.  loadSyncedDeposit uses Mul-then-Quo ([sup_interest]) like
   SyncSupplyInterest since fix 6c61e7a5b; before it, it used the borrow-side order and could
   report one base unit less than the sync then credited. *)
Definition load_coin_f (intf : Z -> Z -> Z -> Z) (gf : nat -> option Z) (r : urec) (acc : res coins) (d : nat)
  : res coins :=
  tot <- acc ;;
  match gf d, idx_get d (idx r) with
  | Some f, Some uf =>
      if uf =? 0 then Panic else
      let i := intf (amt r d) f uf in
      if i <? 0 then Panic else ret (upd tot d i)
  | _, _ => ret tot
  end.
Definition load_synced_f (intf : Z -> Z -> Z -> Z) (n : nat) (gf : nat -> option Z) (r : urec) : res coins :=
  tot <- fold_left (load_coin_f intf gf r) (denoms n (amt r)) (ret czero) ;;
  ret (cadd (amt r) tot).

(* loadSyncedBorrow (= [load_coin_f bor_interest] / [load_synced_f bor_interest], written out) *)
Definition load_coin (gf : nat -> option Z) (r : urec) (acc : res coins) (d : nat) : res coins :=
  tot <- acc ;;
  match gf d, idx_get d (idx r) with
  | Some f, Some uf =>
      if uf =? 0 then Panic else
      let i := bor_interest (amt r d) f uf in
      if i <? 0 then Panic else ret (upd tot d i)
  | _, _ => ret tot
  end.
Definition load_synced (n : nat) (gf : nat -> option Z) (r : urec) : res coins :=
  tot <- fold_left (load_coin gf r) (denoms n (amt r)) (ret czero) ;;
  ret (cadd (amt r) tot).

(* loadSyncedDeposit *)
Definition load_coin_sup : (nat -> option Z) -> urec -> res coins -> nat -> res coins := load_coin_f sup_interest.
Definition load_synced_sup : nat -> (nat -> option Z) -> urec -> res coins := load_synced_f sup_interest.

Definition synced_deposit (e : env) (s : state) (u : nat) : option (res coins) :=
  match dep s u with Some r => Some (load_synced_sup (nd e) (sfac s) r) | None => None end.
Definition synced_borrow (e : env) (s : state) (u : nat) : option (res coins) :=
  match bor s u with Some r => Some (load_synced (nd e) (bfac s) r) | None => None end.

(** * totals: Increment/DecrementSuppliedCoins, Increment/DecrementBorrowedCoins *)
(* Decrement: SafeSub; when any result is negative, each coin is clamped separately *)
Definition dec_clamp (t c : coins) : coins :=
  fun d => if t d <? c d then (if 0 <? t d then 0 else t d) else t d - c d.
Definition dec_supplied (e : env) (s : state) (c : coins) : res state :=
  if cempty (nd e) (tsup s) then Err else ret (set_tsup s (dec_clamp (tsup s) c)).
Definition dec_borrowed (e : env) (s : state) (c : coins) : res state :=
  if cempty (nd e) (tbor s) then Err else ret (set_tbor s (dec_clamp (tbor s) c)).

(** * deposit.go Deposit *)
Definition init_facs (mk : nat -> option market) (get : nat -> option Z) (cl : list nat) : nat -> option Z :=
  fold_left (fun f d => match f d, mk d with
                        | None, Some _ => upd f d (Some PREC)
                        | _, _ => f end) cl get.

Definition set_idx_found (gf : nat -> option Z) (cl : list nat) (ix : index) : index :=
  fold_left (fun ix d => match gf d with Some f => idx_set d f ix | None => ix end) cl ix.

Definition deposit (e : env) (s : state) (u : nat) (c : coins) : res state :=
  let cl := denoms (nd e) c in
  let s := set_sfac s (init_facs (mkts s) (sfac s) cl) in
  _ <- panic_unless (hook_ok (nd e) (dep s u)) ;;
  s <- sync_supply e s u ;;
  _ <- err_unless (forallb (fun d => match mkts s d with Some _ => true | None => false end) cl) ;;
  s <- bsend (nd e) s u (hacc e) c ;;
  let ix := set_idx_found (sfac s) cl (match dep s u with Some r => idx r | None => [] end) in
  let a := cadd (amt_of (dep s u)) c in
  let s := set_dep s (upd (dep s) u (if cempty (nd e) a then None else Some (mkU a ix))) in
  ret (set_tsup s (cadd (tsup s) c)).

(** * withdraw.go Withdraw *)
Definition subset_of (e : env) (req avail : coins) : bool :=
  forallb (fun d => negb (avail d =? 0)) (denoms (nd e) req).
(* CalculateWithdrawAmount / CalculatePaymentAmount *)
Definition capped (e : env) (req avail : coins) : coins :=
  fun d => if req d =? 0 then 0 else if avail d <? req d then avail d else req d.

Definition remove_idxs (ds : list nat) (ix : index) : option index :=
  fold_left (fun o d => match o with Some ix => idx_remove d ix | None => None end) ds (Some ix).

Definition withdraw (e : env) (s : state) (u : nat) (c : coins) : res state :=
  _ <- err_unless (match dep s u with Some _ => true | None => false end) ;;
  _ <- panic_unless (hook_ok (nd e) (dep s u)) ;;
  _ <- panic_unless (hook_ok (nd e) (bor s u)) ;;
  s <- sync_borrow e s u ;;
  s <- sync_supply e s u ;;
  match dep s u with
  | None => Err
  | Some r =>
    _ <- err_unless (subset_of e c (amt r)) ;;
    let amount := capped e c (amt r) in
    let proposed := csub (amt r) amount in
    _ <- panic_unless (negb (cany_neg (nd e) proposed)) ;;
    w <- opt_err (within_ltv e s proposed (amt_of (bor s u))) ;;
    _ <- err_unless w ;;
    s <- bsend (nd e) s (hacc e) u amount ;;
    (* index entries of completely withdrawn denoms are removed *)
    ix <- opt_err (remove_idxs (filter (fun d => proposed d =? 0) (denoms (nd e) (amt r))) (idx r)) ;;
    let s := set_dep s (upd (dep s) u (if cempty (nd e) proposed then None else Some (mkU proposed ix))) in
    dec_supplied e s amount
  end.

(** * borrow.go Borrow / ValidateBorrow *)
Definition validate_borrow (e : env) (s : state) (u : nat) (c : coins) : res unit :=
  let cl := denoms (nd e) c in
  (* reserves are not available to borrow *)
  let funds := fun d => if c d =? 0 then 0 else bal s (hacc e) d - tres s d in
  _ <- err_unless (negb (cany_neg (nd e) funds)) ;;
  (* Coins.IsAnyGT: false when the other side is empty; a zero amount on the other side never counts *)
  _ <- err_unless (negb (negb (cempty (nd e) funds) &&
                         existsb (fun d => (funds d <? c d) && negb (funds d =? 0)) cl)) ;;
  _ <- err_unless (all_priced e s c) ;;
  _ <- err_unless (forallb (fun d => match mkts s d with
                                     | Some m => negb (m_has_max m && (m_max m <? dec_of_int (tbor s d + c d)))
                                     | None => false end) cl) ;;
  let proposed := value_of e s c in
  match dep s u with
  | None => Err
  | Some dp =>
    _ <- err_unless (all_priced e s (amt dp)) ;;
    let borrowable := borrowable_of e s (amt dp) in
    let bw := amt_of (bor s u) in
    _ <- err_unless (all_priced e s bw) ;;
    let existing := value_of e s bw in
    _ <- err_unless (negb (proposed + existing <? min_borrow e)) ;;
    _ <- err_unless (negb (borrowable - existing <? proposed)) ;;
    (* the resulting position must also be within range for the liquidation valuation
       (existing and new borrow summed per denom): IsWithinValidLtvRange(deposit, proposedBorrow) *)
    w <- opt_err (within_ltv e s (amt dp) (cadd bw c)) ;;
    err_unless w
  end.

Definition borrow (e : env) (s : state) (u : nat) (c : coins) : res state :=
  let cl := denoms (nd e) c in
  let s := set_bfac s (init_facs (mkts s) (bfac s) cl) in
  _ <- panic_unless (hook_ok (nd e) (dep s u)) ;;
  _ <- panic_unless (hook_ok (nd e) (bor s u)) ;;
  s <- sync_supply e s u ;;
  s <- sync_borrow e s u ;;
  _ <- validate_borrow e s u c ;;
  s <- bsend (nd e) s (hacc e) u c ;;
  let ix := set_idx_found (bfac s) cl (match bor s u with Some r => idx r | None => [] end) in
  let a := cadd (amt_of (bor s u)) c in
  let s := set_bor s (upd (bor s) u (if cempty (nd e) a then None else Some (mkU a ix))) in
  ret (set_tbor s (cadd (tbor s) c)).

(** * repay.go Repay / ValidateRepay *)
Definition coins_eqb (n : nat) (a b : coins) : bool := forallb (fun d => a d =? b d) (seq 0 n).

Definition repay (e : env) (s : state) (sender owner : nat) (c : coins) : res state :=
  _ <- err_unless (match bor s owner with Some _ => true | None => false end) ;;
  _ <- panic_unless (hook_ok (nd e) (bor s owner)) ;;
  s <- sync_borrow e s owner ;;
  match bor s owner with
  | None => Err
  | Some r =>
    _ <- err_unless (subset_of e c (amt r)) ;;
    let payment := capped e c (amt r) in
    (* ValidateRepay *)
    _ <- err_unless (all_priced e s (amt r)) ;;
    _ <- err_unless (can_pay (nd e) s sender payment) ;;
    let newval := value_of e s (amt r) - value_of e s payment in
    let full := coins_eqb (nd e) payment (amt r) in
    _ <- err_unless (negb ((newval <? min_borrow e) && negb full)) ;;
    s <- bsend (nd e) s sender (hacc e) payment ;;
    ix <- opt_err (remove_idxs (filter (fun d => payment d =? amt r d) (denoms (nd e) payment)) (idx r)) ;;
    let a := csub (amt r) payment in
    _ <- panic_unless (negb (cany_neg (nd e) a)) ;;
    let s := set_bor s (upd (bor s) owner (if cempty (nd e) a then None else Some (mkU a ix))) in
    dec_borrowed e s payment
  end.

(** * liquidation.go AttemptKeeperLiquidation / SeizeDeposits / StartAuctions *)
Definition dquo (a b : Z) : res Z := if b =? 0 then Panic else ret (dec_quo a b).

Definition cf_d (s : state) (d : nat) : Z := match mkts s d with Some m => m_cf m | None => 0 end.
Definition keeper_pct (s : state) (d : nat) : Z := match mkts s d with Some m => m_keeper m | None => 0 end.

(* KeeperRewardPercentage.MulInt(amount).TruncateInt(), kept when positive *)
Definition keeper_reward (s : state) (dp : coins) : coins :=
  fun d => let r := dec_trunc_int (dec_mul_int (keeper_pct s d) (dp d)) in if 0 <? r then r else 0.

Record astate := mkA {
  a_s : state;        (* bank balances, total supplied / borrowed *)
  a_bv : coins;       (* borrowCoinValues *)
  a_dv : coins;       (* depositCoinValues *)
  a_bor : coins;      (* borrows *)
  a_dep : coins;      (* deposits *)
  a_max : Z           (* maxLotSize *)
}.

(* one auction: lot leaves the module, totals are decremented, running deposits/borrows updated *)
Definition start_auction (e : env) (a : astate) (macc : coins) (bk dk : nat) (lot0 bid : Z)
  : res (state * coins * coins) :=
  _ <- panic_unless (0 <=? lot0) ;;
  _ <- panic_unless (0 <=? bid) ;;
  let insufficient := macc dk <? lot0 in
  let lot := if insufficient then macc dk else lot0 in
  _ <- err_unless (negb (a_dep a dk <? lot)) ;;
  s <- bsend (nd e) (a_s a) (hacc e) (aacc e) (csingle dk lot) ;;
  s <- dec_supplied e s (csingle dk lot) ;;
  s <- dec_borrowed e s (csingle bk bid) ;;
  let bor' := csub (a_bor a) (csingle bk bid) in
  _ <- panic_unless (0 <=? bor' bk) ;;
  let dep' := if insufficient then upd (a_dep a) dk 0 else csub (a_dep a) (csingle dk lot) in
  ret (s, bor', dep').

Definition auction_step (e : env) (ltv : Z) (macc : coins) (bk : nat) (acc : res astate) (dk : nat) : res astate :=
  a <- acc ;;
  let dvalue := a_dv a dk in
  if a_max a =? 0 then ret a else
  if a_max a <=? dvalue then
    (* an auction for the whole remaining borrow amount *)
    let bid := a_bor a bk in
    lotsize <- dquo (dec_mul_int (a_max a) (cf_d (a_s a) dk)) (price (a_s a) dk) ;;
    let lot := dec_trunc_int lotsize in
    if lot =? 0 then ret a else
    x <- start_auction e a macc bk dk lot bid ;;
    let '(s, bor', dep') := x in
    ret (mkA s (upd (a_bv a) bk 0) (upd (a_dv a) dk (dvalue - a_max a)) bor' dep' 0)
  else
    (* an auction for part of the borrow amount against the whole deposit of this denom *)
    let maxbid := dec_mul dvalue ltv in
    bidsize <- dquo (dec_mul_int maxbid (cf_d (a_s a) bk)) (price (a_s a) bk) ;;
    let bid := dec_trunc_int bidsize in
    let lot := a_dep a dk in
    if (bid =? 0) || (lot =? 0) then ret a else
    x <- start_auction e a macc bk dk lot bid ;;
    let '(s, bor', dep') := x in
    let bv' := upd (a_bv a) bk (a_bv a bk - maxbid) in
    m <- dquo (bv' bk) ltv ;;
    ret (mkA s bv' (upd (a_dv a) dk 0) bor' dep' m).

Definition borrow_step (e : env) (ltv : Z) (macc : coins) (dkeys : list nat) (acc : res astate) (bk : nat) : res astate :=
  a <- acc ;;
  m <- dquo (a_bv a bk) ltv ;;
  fold_left (auction_step e ltv macc bk) dkeys (ret (mkA (a_s a) (a_bv a) (a_dv a) (a_bor a) (a_dep a) m)).

Definition return_step (e : env) (b : nat) (deps : coins) (acc : res state) (dk : nat) : res state :=
  s <- acc ;;
  if 0 <? deps dk then bsend (nd e) s (hacc e) b (csingle dk (deps dk)) else ret s.

Definition start_auctions (e : env) (s : state) (b : nat) (bw aucdep dvals bvals : coins) (ltv : Z) : res state :=
  let bkeys := denoms (nd e) bw in
  let dkeys := denoms (nd e) aucdep in
  let macc := bal s (hacc e) in
  a <- fold_left (borrow_step e ltv macc dkeys) bkeys (ret (mkA s bvals dvals bw aucdep 0)) ;;
  fold_left (return_step e b (a_dep a)) dkeys (ret (a_s a)).

Definition seize (e : env) (s : state) (k b : nat) (dp bw : coins) : res state :=
  let reward := keeper_reward s dp in
  s <- (if cempty (nd e) reward then ret s
        else s <- dec_supplied e s reward ;; bsend (nd e) s (hacc e) k reward) ;;
  let aucdep := csub dp reward in
  _ <- panic_unless (negb (cany_neg (nd e) aucdep)) ;;
  let dvals := fun d => if aucdep d =? 0 then 0 else usd_d e s d (aucdep d) in
  let bvals := fun d => if bw d =? 0 then 0 else usd_d e s d (bw d) in
  let dsum := sum_over (denoms (nd e) aucdep) dvals in
  if dsum =? 0 then ret s else
  let ltv := dec_quo (sum_over (denoms (nd e) bw) bvals) dsum in
  start_auctions e s b bw aucdep dvals bvals ltv.

Definition liquidate (e : env) (s : state) (k b : nat) : res state :=
  _ <- err_unless (match dep s b with Some _ => true | None => false end) ;;
  _ <- err_unless (match bor s b with Some _ => true | None => false end) ;;
  _ <- panic_unless (hook_ok (nd e) (dep s b)) ;;
  _ <- panic_unless (hook_ok (nd e) (bor s b)) ;;
  s <- sync_borrow e s b ;;
  s <- sync_supply e s b ;;
  match dep s b, bor s b with
  | Some dp, Some bw =>
    w <- opt_err (within_ltv e s (amt dp) (amt bw)) ;;
    _ <- err_unless (negb w) ;;
    s <- seize e s k b (amt dp) (amt bw) ;;
    ret (set_bor (set_dep s (upd (dep s) b None)) (upd (bor s) b None))
  | _, _ => Err
  end.

(** * interest.go AccrueInterest, abci.go BeginBlocker *)
Definition util_ratio (cash borrows reserves : Z) : res Z :=     (* Dec arguments *)
  if borrows =? 0 then ret 0 else
  let ts := cash + borrows - reserves in
  if ts <=? 0 then ret PREC else      (* !totalSupply.IsPositive() *)
  x <- dquo borrows ts ;; ret (Z.min PREC x).

Definition borrow_rate (m : market) (cash borrows reserves : Z) : res Z :=
  u <- util_ratio cash borrows reserves ;;
  if u <=? m_kink m then ret (dec_mul u (m_mult m) + m_base m)
  else
    let normal := dec_mul (m_kink m) (m_mult m) + m_base m in
    ret (dec_mul (u - m_kink m) (m_jump m) + normal).

(* CalculateSupplyInterestFactor *)
Definition supply_factor (newint cash borrows reserves : Z) : Z :=    (* Dec arguments *)
  let ts := cash + borrows - reserves in
  if ts <=? 0 then PREC else dec_quo newint ts + PREC.   (* !totalSupply.IsPositive() *)

(* [f] is the interval's borrow interest factor
   CalculateBorrowInterestFactor(APYToSPY(1 + borrowRateApy), timeElapsed), taken as an oracle
   value (recorded from the implementation's own functions); f < 0 encodes an APYToSPY error *)
Definition accrue (e : env) (s : state) (d : nat) (t f : Z) : res state :=
  match prev s d with
  | None => ret (set_prev s (upd (prev s) d (Some t)))
  | Some p =>
    if t - p =? 0 then ret s else
    let cash := bal s (hacc e) d in
    let b := tbor s d in
    if b =? 0 then ret (set_prev s (upd (prev s) d (Some t))) else
    let r := tres s d in
    let bf := match bfac s d with Some x => x | None => PREC end in
    let sf := match sfac s d with Some x => x | None => PREC end in
    let s := set_sfac (set_bfac s (upd (bfac s) d (Some bf))) (upd (sfac s) d (Some sf)) in
    match mkts s d with
    | None => Err
    | Some m =>
      apy <- borrow_rate m (dec_of_int cash) (dec_of_int b) (dec_of_int r) ;;
      _ <- err_unless (0 <=? f) ;;
      let interest := dec_trunc_int (dec_mul f (dec_of_int b)) - b in
      if (interest =? 0) && (0 <? apy) then ret s else
      _ <- panic_unless (0 <=? interest) ;;
      let rnew := dec_trunc_int (dec_mul (dec_of_int interest) (m_reserve m)) in
      let sint := interest - rnew in
      _ <- panic_unless (0 <=? sint) ;;
      _ <- panic_unless (0 <=? rnew) ;;
      let sfn := supply_factor (dec_of_int sint) (dec_of_int cash) (dec_of_int b) (dec_of_int r) in
      let s := set_bfac s (upd (bfac s) d (Some (dec_mul bf f))) in
      let s := set_sfac s (upd (sfac s) d (Some (dec_mul sf sfn))) in
      let s := set_tbor s (cadd (tbor s) (csingle d interest)) in
      let s := set_tsup s (cadd (tsup s) (csingle d sint)) in
      let s := set_tres s (cadd (tres s) (csingle d rnew)) in
      ret (set_prev s (upd (prev s) d (Some t)))
    end
  end.

Definition nthZ (l : list Z) (i : nat) : Z := nth i l 0.

Definition market_eqb (a b : market) : bool :=      (* MoneyMarket.Equal *)
  (m_cf a =? m_cf b) && (m_ltv a =? m_ltv b) && Bool.eqb (m_has_max a) (m_has_max b) && (m_max a =? m_max b)
  && (m_reserve a =? m_reserve b) && (m_keeper a =? m_keeper b)
  && (m_base a =? m_base b) && (m_mult a =? m_mult b) && (m_kink a =? m_kink b) && (m_jump a =? m_jump b).

(* ApplyInterestRateUpdates, first loop: one money market of the params.  A market missing from
   the store is added; interest accrues under the stored market; then a changed market is
   copied from the params into the store. *)
Definition apply_param_market (e : env) (t : Z) (fs : list Z) (acc : res state) (d : nat) : res state :=
  s <- acc ;;
  match params s d with
  | None => ret s
  | Some pm =>
    let old := match mkts s d with Some m => m | None => pm end in
    let s := match mkts s d with Some _ => s | None => set_mkts s (upd (mkts s) d (Some pm)) end in
    s <- accrue e s d t (nthZ fs d) ;;
    ret (if market_eqb old pm then s else set_mkts s (upd (mkts s) d (Some pm)))
  end.

(* second loop: markets still in the store but removed from the params accrue once more and are
   deleted from the store *)
Definition drop_removed_market (e : env) (t : Z) (fs : list Z) (acc : res state) (d : nat) : res state :=
  s <- acc ;;
  match mkts s d, params s d with
  | Some _, None => s <- accrue e s d t (nthZ fs d) ;; ret (set_mkts s (upd (mkts s) d None))
  | _, _ => ret s
  end.

(* abci.go BeginBlocker -> ApplyInterestRateUpdates; an error panics *)
Definition begin_block (e : env) (s : state) (t : Z) (fs : list Z) : res state :=
  match fold_left (drop_removed_market e t fs) (seq 0 (nd e))
          (fold_left (apply_param_market e t fs) (seq 0 (nd e)) (ret s)) with
  | Ok s' _ => ret s'
  | _ => Panic
  end.

(** * operations *)
Inductive op :=
| Deposit (u : nat) (c : list (nat * Z))
| Withdraw (u : nat) (c : list (nat * Z))
| Borrow (u : nat) (c : list (nat * Z))
| Repay (sender owner : nat) (c : list (nat * Z))
| Liquidate (keeper borrower : nat)
| SetPrice (d : nat) (p : Z)                 (* pricefeed: new current price *)
| Donate (u : nat) (d : nat) (x : Z)         (* plain bank transfer user -> hard module account *)
| BeginBlock (t : Z) (fs : list Z)           (* new block at time t; oracle factors per denom *)
| SetParams (ps : list (option market)).     (* governance: k.SetParams with new money markets *)

(* Msg*.ValidateBasic: valid, non-empty coins; denoms inside the modelled universe *)
Definition msg_ok (e : env) (c : list (nat * Z)) : bool :=
  clist_valid c && negb (match c with [] => true | _ => false end)
  && forallb (fun p => Nat.ltb (fst p) (nd e)) c.

Definition step (e : env) (s : state) (o : op) : res state :=
  match o with
  | Deposit u c => if Nat.ltb u (nu e) && msg_ok e c then deposit e s u (of_list c) else Err
  | Withdraw u c => if Nat.ltb u (nu e) && msg_ok e c then withdraw e s u (of_list c) else Err
  | Borrow u c => if Nat.ltb u (nu e) && msg_ok e c then borrow e s u (of_list c) else Err
  | Repay a b c => if Nat.ltb a (nu e) && Nat.ltb b (nu e) && msg_ok e c then repay e s a b (of_list c) else Err
  | Liquidate k b => if Nat.ltb k (nu e) && Nat.ltb b (nu e) then liquidate e s k b else Err
  | SetPrice d p => if Nat.ltb d (nd e) && (0 <=? p) then ret (set_price s (upd (price s) d p)) else Err
  | Donate u d x => if Nat.ltb u (nu e) && Nat.ltb d (nd e) && (0 <=? x)
                    then bsend (nd e) s u (hacc e) (csingle d x) else Err
  | BeginBlock t fs => begin_block e s t fs
  | SetParams ps => ret (set_params s (fun d => nth d ps None))
  end.

Definition step' (e : env) (s : state) (o : op) : state :=
  match step e s o with Ok s' _ => s' | _ => s end.
Definition run (e : env) (s : state) (ops : list op) : state := fold_left (step' e) ops s.

(** * Correspondence-check support: observations and comparison *)

Inductive rclass := ROk | RErr | RPanic.
Definition rclass_eqb (a b : rclass) : bool :=
  match a, b with ROk, ROk | RErr, RErr | RPanic, RPanic => true | _, _ => false end.
Definition class_of {S O} (r : outcome S O) : rclass :=
  match r with Ok _ _ => ROk | Err => RErr | Panic => RPanic end.

(* a stored record: amounts of all denoms + the index list in stored order *)
Definition vrec := option (list Z * list (nat * Z)).
(* GetSyncedDeposit / GetSyncedBorrow: not found, panic, or the amounts *)
Inductive sres := SNone | SPanic | SSome (l : list Z).

Record view := mkView {
  v_bal : list (list Z);     (* accounts x denoms *)
  v_dep : list vrec;
  v_bor : list vrec;
  v_sdep : list sres;
  v_sbor : list sres;
  v_sfac : list (option Z);
  v_bfac : list (option Z);
  v_prev : list (option Z);
  v_tsup : list Z;
  v_tbor : list Z;
  v_tres : list Z;
  v_mkts : list (option (list Z))   (* the money-market store, read with GetMoneyMarket *)
}.

Definition vec (n : nat) (c : coins) : list Z := map c (seq 0 n).
Definition vrec_of (n : nat) (o : option urec) : vrec :=
  match o with Some r => Some (vec n (amt r), idx r) | None => None end.
Definition sres_of (n : nat) (o : option (res coins)) : sres :=
  match o with
  | None => SNone
  | Some (Ok c _) => SSome (vec n c)
  | Some _ => SPanic
  end.

Definition market_vec (m : market) : list Z :=
  [m_cf m; m_ltv m; (if m_has_max m then 1 else 0); m_max m; m_reserve m; m_keeper m; m_base m; m_mult m; m_kink m; m_jump m].
Definition project (e : env) (s : state) : view :=
  let us := seq 0 (nu e) in
  let ds := seq 0 (nd e) in
  mkView (map (fun a => vec (nd e) (bal s a)) (seq 0 (nacc e)))
         (map (fun u => vrec_of (nd e) (dep s u)) us)
         (map (fun u => vrec_of (nd e) (bor s u)) us)
         (map (fun u => sres_of (nd e) (synced_deposit e s u)) us)
         (map (fun u => sres_of (nd e) (synced_borrow e s u)) us)
         (map (sfac s) ds) (map (bfac s) ds) (map (prev s) ds)
         (vec (nd e) (tsup s)) (vec (nd e) (tbor s)) (vec (nd e) (tres s))
         (map (fun d => option_map market_vec (mkts s d)) ds).

(* observation after an operation: result class + the changed entries *)
Record obs := mkObs {
  o_class : rclass;
  o_bal : list (nat * nat * Z);
  o_dep : list (nat * vrec);
  o_bor : list (nat * vrec);
  o_sdep : list (nat * sres);
  o_sbor : list (nat * sres);
  o_sfac : list (nat * option Z);
  o_bfac : list (nat * option Z);
  o_prev : list (nat * option Z);
  o_tsup : list (nat * Z);
  o_tbor : list (nat * Z);
  o_tres : list (nat * Z);
  o_mkts : list (nat * option (list Z))
}.

Fixpoint set_nth {A} (l : list A) (i : nat) (v : A) : list A :=
  match l, i with
  | [], _ => []
  | _ :: r, O => v :: r
  | x :: r, S k => x :: set_nth r k v
  end.
Definition apply_l {A} (l : list A) (ch : list (nat * A)) : list A :=
  fold_left (fun l p => set_nth l (fst p) (snd p)) ch l.
Definition apply_bal (l : list (list Z)) (ch : list (nat * nat * Z)) : list (list Z) :=
  fold_left (fun l p => let '(a, d, v) := p in set_nth l a (set_nth (nth a l []) d v)) ch l.

Definition apply_obs (v : view) (o : obs) : view :=
  mkView (apply_bal (v_bal v) (o_bal o))
         (apply_l (v_dep v) (o_dep o)) (apply_l (v_bor v) (o_bor o))
         (apply_l (v_sdep v) (o_sdep o)) (apply_l (v_sbor v) (o_sbor o))
         (apply_l (v_sfac v) (o_sfac o)) (apply_l (v_bfac v) (o_bfac o)) (apply_l (v_prev v) (o_prev o))
         (apply_l (v_tsup v) (o_tsup o)) (apply_l (v_tbor v) (o_tbor o)) (apply_l (v_tres v) (o_tres o))
         (apply_l (v_mkts v) (o_mkts o)).

Fixpoint list_eqb {A} (eqb : A -> A -> bool) (l1 l2 : list A) : bool :=
  match l1, l2 with
  | [], [] => true
  | x :: r1, y :: r2 => eqb x y && list_eqb eqb r1 r2
  | _, _ => false
  end.
Definition opt_eqb {A} (eqb : A -> A -> bool) (a b : option A) : bool :=
  match a, b with Some x, Some y => eqb x y | None, None => true | _, _ => false end.
Definition pair_eqb (p q : nat * Z) : bool := Nat.eqb (fst p) (fst q) && (snd p =? snd q).
Definition vrec_eqb : vrec -> vrec -> bool :=
  opt_eqb (fun p q => list_eqb Z.eqb (fst p) (fst q) && list_eqb pair_eqb (snd p) (snd q)).
Definition sres_eqb (a b : sres) : bool :=
  match a, b with
  | SNone, SNone | SPanic, SPanic => true
  | SSome x, SSome y => list_eqb Z.eqb x y
  | _, _ => false
  end.

Definition view_eqb (a b : view) : bool :=
  list_eqb (list_eqb Z.eqb) (v_bal a) (v_bal b)
  && list_eqb vrec_eqb (v_dep a) (v_dep b) && list_eqb vrec_eqb (v_bor a) (v_bor b)
  && list_eqb sres_eqb (v_sdep a) (v_sdep b) && list_eqb sres_eqb (v_sbor a) (v_sbor b)
  && list_eqb (opt_eqb Z.eqb) (v_sfac a) (v_sfac b) && list_eqb (opt_eqb Z.eqb) (v_bfac a) (v_bfac b)
  && list_eqb (opt_eqb Z.eqb) (v_prev a) (v_prev b)
  && list_eqb Z.eqb (v_tsup a) (v_tsup b) && list_eqb Z.eqb (v_tbor a) (v_tbor b)
  && list_eqb Z.eqb (v_tres a) (v_tres b)
  && list_eqb (opt_eqb (list_eqb Z.eqb)) (v_mkts a) (v_mkts b).

(* boolean form of the model invariant evaluated on every model state of the
   correspondence run: amounts of records, totals and balances are non-negative, borrow
   interest factors are >= 1, every coin of a record has an index entry and every borrow
   index entry is >= 1 *)
Definition rec_ok (n : nat) (chk : Z -> bool) (o : option urec) : bool :=
  match o with
  | None => true
  | Some r => forallb (fun d => (0 <=? amt r d)
                                && ((amt r d =? 0) || match idx_get d (idx r) with Some f => chk f | None => false end))
                      (seq 0 n)
              && negb (cempty n (amt r))
  end.
Definition inv_b (e : env) (s : state) : bool :=
  forallb (fun u => rec_ok (nd e) (fun _ => true) (dep s u) && rec_ok (nd e) (Z.leb PREC) (bor s u)) (seq 0 (nu e))
  && forallb (fun d => (0 <=? tsup s d) && (0 <=? tbor s d) && (0 <=? tres s d)
                       && match bfac s d with Some f => PREC <=? f | None => true end
                       && (0 <=? price s d))
             (seq 0 (nd e))
  && forallb (fun a => forallb (fun d => 0 <=? bal s a d) (seq 0 (nd e))) (seq 0 (nacc e)).

(* side-condition on the oracle values of a BeginBlock operation: each is an error marker
   (-1) or a factor >= 1 *)
Definition oracle_ok (o : op) : bool :=
  match o with
  | BeginBlock _ fs => forallb (fun f => (f =? -1) || (PREC <=? f)) fs
  | _ => true
  end.

(* The state components are functions; after many operations they are deep towers of
   closures (and [csub a (capped c a)] mentions [a] twice, which doubles the cost per level).
   The checker therefore re-tabulates the state after every step; on the index ranges of the
   environment the tabulated state has the same components (and the same projection). *)
Definition tab (n : nat) (f : nat -> Z) : nat -> Z :=
  let l := map f (seq 0 n) in fun d => nth d l 0.
Definition tab_o {A} (n : nat) (f : nat -> option A) : nat -> option A :=
  let l := map f (seq 0 n) in fun d => nth d l None.
Definition tab_rec (n : nat) (o : option urec) : option urec :=
  match o with Some r => Some (mkU (tab n (amt r)) (idx r)) | None => None end.
Definition normalize (e : env) (s : state) : state :=
  let b := map (fun a => map (bal s a) (seq 0 (nd e))) (seq 0 (nacc e)) in
  mkState (fun a d => nth d (nth a b []) 0)
          (tab (nd e) (price s))
          (tab_o (nu e) (fun u => tab_rec (nd e) (dep s u)))
          (tab_o (nu e) (fun u => tab_rec (nd e) (bor s u)))
          (tab_o (nd e) (sfac s)) (tab_o (nd e) (bfac s)) (tab_o (nd e) (prev s))
          (tab (nd e) (tsup s)) (tab (nd e) (tbor s)) (tab (nd e) (tres s))
          (tab_o (nd e) (params s)) (tab_o (nd e) (mkts s)).

Fixpoint first_mismatch (e : env) (s : state) (sh : view) (h : list (op * obs)) (i : nat) : option nat :=
  match h with
  | [] => None
  | (o, ob) :: r =>
      let rs := step e s o in
      let s' := normalize e (match rs with Ok s1 _ => s1 | _ => s end) in
      let sh' := apply_obs sh ob in
      if oracle_ok o
         && rclass_eqb (class_of rs) (o_class ob)
         && view_eqb (project e s') sh'
         && inv_b e s'
      then first_mismatch e s' sh' r (S i)
      else Some i
  end.

(* list-based construction of environments and states from harness data *)
Definition nthO {A} (l : list (option A)) (i : nat) : option A := nth i l None.

Definition mk_env (n_d n_u : nat) (minb : Z) : env := mkEnv n_d n_u minb.

Definition mk_state (bals : list (list Z)) (prices : list Z) (prevs : list (option Z))
    (mms : list (option market)) : state :=
  mkState (fun a d => nthZ (nth a bals []) d) (nthZ prices)
          (fun _ => None) (fun _ => None) (fun _ => None) (fun _ => None) (nthO prevs)
          czero czero czero (nthO mms) (nthO mms).

Record history := mkHist {
  h_env : env;
  h_init : state;
  h_steps : list (op * obs)
}.

Definition check_history (h : history) : option nat :=
  if inv_b (h_env h) (h_init h)
  then first_mismatch (h_env h) (h_init h) (project (h_env h) (h_init h)) (h_steps h) 0
  else Some 0%nat.

Fixpoint mismatches_from (i : nat) (hs : list history) : list (nat * nat) :=
  match hs with
  | [] => []
  | h :: r =>
      match check_history h with
      | None => mismatches_from (S i) r
      | Some k => (i, k) :: mismatches_from (S i) r
      end
  end.
Definition mismatches := mismatches_from 0.
