(* Model of x/swap: types/base_pool.go (BasePool), types/denominated_pool.go
   (denom sorting), keeper/deposit.go, keeper/withdraw.go, keeper/swap.go over an
   abstract x/bank.  big.Int = Z, sdkmath.Int = Z with the 256-bit overflow
   panic, LegacyDec = mantissa (Base/Dec.v) with the 315-bit overflow panic.
   Definitions only. *)
From Kava Require Import Base.Prelude Base.Dec.
Local Open Scope Z_scope.

(** * Number ranges of cosmossdk.io/math *)
Definition MAXINT : Z := 115792089237316195423570985008687907853269984665640564039457584007913129639936. (* 2^256 *)
Definition MAXDEC : Z := 66749594872528440074844428317798503581334516323645399060845050244444366430645017188217565216768. (* 2^315 *)
Definition CEILLIM : Z := 33374797436264220037422214158899251790667258161822699530422525122222183215322508594108782608384. (* 2^314 *)
(* sdkmath.Int: bigIntOverflows = BitLen > 256 *)
Definition int_ok (x : Z) : bool := Z.abs x <? MAXINT.
(* LegacyDec: BitLen > 315 panics *)
Definition dec_ok (x : Z) : bool := Z.abs x <? MAXDEC.

(** * types/base_pool.go *)

Record pool := mkPool { ra : Z; rb : Z; sh : Z }.

Inductive why := Invalid | Overflow | DivZero | InvariantBroken.
(* BasePool methods have no error results: they return or panic *)
Inductive pres (A : Type) := POk (a : A) | PPanic (w : why).
Arguments POk {A} a.
Arguments PPanic {A} w.

(* calculateInitialShares: big.Int.Sqrt = floor square root *)
Definition initial_shares (a b : Z) : Z := Z.sqrt (a * b).

(* NewBasePool (error, not panic, on non-positive reserves) *)
Definition new_pool (a b : Z) : option pool :=
  if (a <=? 0) || (b <=? 0) then None else Some (mkPool a b (initial_shares a b)).

(* NewBasePoolWithExistingShares *)
Definition new_pool_shares (a b s : Z) : option pool :=
  if (a <=? 0) || (b <=? 0) then None else
  if s <=? 0 then None else Some (mkPool a b s).

Definition is_empty (p : pool) : bool := (ra p =? 0) && (rb p =? 0).

(* AddLiquidity: returns (depositA, depositB, shares) *)
Definition add_liquidity (p : pool) (da db : Z) : pres (pool * (Z * Z * Z)) :=
  if (da <=? 0) || (db <=? 0) then PPanic Invalid else
  if is_empty p then
    let s := initial_shares da db in POk (mkPool da db s, (da, db, s))
  else
  if (ra p <=? 0) || (rb p <=? 0) then PPanic Invalid else
  let prodA := rb p * da in
  let prodB := ra p * db in
  let actA := if prodA <=? prodB then da else Z.quot prodB (rb p) in
  let actB := if prodA <=? prodB then Z.quot prodA (ra p) else db in
  let shA := Z.quot (actA * sh p) (ra p) in
  let shB := Z.quot (actB * sh p) (rb p) in
  let s := if shA <=? shB then shA else shB in
  if negb (int_ok s) then PPanic Overflow else
  if negb (int_ok (ra p + actA) && int_ok (rb p + actB) && int_ok (sh p + s)) then PPanic Overflow else
  POk (mkPool (ra p + actA) (rb p + actB) (sh p + s), (actA, actB, s)).

(* ShareValue *)
Definition share_value (p : pool) (s : Z) : pres (Z * Z) :=
  if s <=? 0 then PPanic Invalid else
  if sh p <? s then PPanic Invalid else
  POk (Z.quot (ra p * s) (sh p), Z.quot (rb p * s) (sh p)).

(* RemoveLiquidity *)
Definition remove_liquidity (p : pool) (s : Z) : pres (pool * (Z * Z)) :=
  match share_value p s with
  | PPanic w => PPanic w
  | POk (wa, wb) =>
      let na := ra p - wa in
      let nb := rb p - wb in
      if (na <? 0) || (nb <? 0) then PPanic InvariantBroken else
      POk (mkPool na nb (sh p - s), (wa, wb))
  end.

Definition fee_ok (f : Z) : bool := (0 <=? f) && (f <? PREC).

(* calculateOutputForExactInput: (out, feeValue) *)
Definition calc_out_exact_in (inn inRes outRes fee : Z) : pres (Z * Z) :=
  if inn <=? 0 then PPanic Invalid else
  if negb (fee_ok fee) then PPanic Invalid else
  let m := dec_mul (dec_of_int inn) (dec_sub dec_one fee) in
  if negb (dec_ok m) then PPanic Overflow else
  let iaf := dec_trunc_int m in
  if negb (int_ok (inRes + iaf)) then PPanic Overflow else
  if inRes + iaf =? 0 then PPanic DivZero else
  let out := Z.quot (outRes * iaf) (inRes + iaf) in
  if negb (int_ok out) then PPanic Overflow else
  POk (out, inn - iaf).

(* calculateInputForExactOutput: (in, feeValue) *)
Definition calc_in_exact_out (out outRes inRes fee : Z) : pres (Z * Z) :=
  if out <=? 0 then PPanic Invalid else
  if outRes <=? out then PPanic Invalid else
  if negb (fee_ok fee) then PPanic Invalid else
  let prod := inRes * out in
  let newOut := outRes - out in
  let q := Z.quot prod newOut in
  let r := Z.rem prod newOut in
  if negb (int_ok q) then PPanic Overflow else
  let w := if r =? 0 then q else q + 1 in
  if negb (int_ok w) then PPanic Overflow else
  let d := dec_quo (dec_of_int w) (dec_sub dec_one fee) in
  if negb (dec_ok d) then PPanic Overflow else
  (* Ceil panics when it has to round up a mantissa of 315 bits *)
  if (0 <? Z.rem d PREC) && negb (Z.abs d <? CEILLIM) then PPanic Overflow else
  let i := dec_trunc_int (dec_ceil d) in
  if negb (int_ok i) then PPanic Overflow else
  POk (i, i - w).

(* assertInvariantAndUpdateReserves *)
Definition update_reserves (p : pool) (na fa nb fb : Z) : pres pool :=
  if negb (int_ok (na - fa) && int_ok (nb - fb)) then PPanic Overflow else
  if (na - fa) * (nb - fb) <? ra p * rb p then PPanic InvariantBroken else
  POk (mkPool na nb (sh p)).

Definition swap_exact_a_for_b (p : pool) (a fee : Z) : pres (pool * (Z * Z)) :=
  match calc_out_exact_in a (ra p) (rb p) fee with
  | PPanic w => PPanic w
  | POk (b, fv) =>
      if negb (int_ok (ra p + a) && int_ok (rb p - b)) then PPanic Overflow else
      match update_reserves p (ra p + a) fv (rb p - b) 0 with
      | PPanic w => PPanic w
      | POk p' => POk (p', (b, fv))
      end
  end.

Definition swap_exact_b_for_a (p : pool) (b fee : Z) : pres (pool * (Z * Z)) :=
  match calc_out_exact_in b (rb p) (ra p) fee with
  | PPanic w => PPanic w
  | POk (a, fv) =>
      if negb (int_ok (ra p - a) && int_ok (rb p + b)) then PPanic Overflow else
      match update_reserves p (ra p - a) 0 (rb p + b) fv with
      | PPanic w => PPanic w
      | POk p' => POk (p', (a, fv))
      end
  end.

Definition swap_a_for_exact_b (p : pool) (b fee : Z) : pres (pool * (Z * Z)) :=
  match calc_in_exact_out b (rb p) (ra p) fee with
  | PPanic w => PPanic w
  | POk (a, fv) =>
      if negb (int_ok (ra p + a) && int_ok (rb p - b)) then PPanic Overflow else
      match update_reserves p (ra p + a) fv (rb p - b) 0 with
      | PPanic w => PPanic w
      | POk p' => POk (p', (a, fv))
      end
  end.

Definition swap_b_for_exact_a (p : pool) (a fee : Z) : pres (pool * (Z * Z)) :=
  match calc_in_exact_out a (ra p) (rb p) fee with
  | PPanic w => PPanic w
  | POk (b, fv) =>
      if negb (int_ok (ra p - a) && int_ok (rb p + b)) then PPanic Overflow else
      match update_reserves p (ra p - a) 0 (rb p + b) fv with
      | PPanic w => PPanic w
      | POk p' => POk (p', (b, fv))
      end
  end.

(* the pool with the roles of A and B exchanged *)
Definition flip (p : pool) : pool := mkPool (rb p) (ra p) (sh p).

(** * types/denominated_pool.go: a base pool plus the two denoms *)

Record dpool := mkDP { dp_pool : pool; dp_a : nat; dp_b : nat }.

(* SwapWithExactInput: (pool', output amount, fee) ; the output has the other denom *)
Definition dp_swap_exact_in (d : dpool) (denom : nat) (amt fee : Z) : pres (dpool * (Z * Z)) :=
  if Nat.eqb denom (dp_a d) then
    match swap_exact_a_for_b (dp_pool d) amt fee with
    | PPanic w => PPanic w
    | POk (p', r) => POk (mkDP p' (dp_a d) (dp_b d), r)
    end
  else if Nat.eqb denom (dp_b d) then
    match swap_exact_b_for_a (dp_pool d) amt fee with
    | PPanic w => PPanic w
    | POk (p', r) => POk (mkDP p' (dp_a d) (dp_b d), r)
    end
  else PPanic Invalid.

(* SwapWithExactOutput: (pool', input amount, fee); [denom] is the output denom *)
Definition dp_swap_exact_out (d : dpool) (denom : nat) (amt fee : Z) : pres (dpool * (Z * Z)) :=
  if Nat.eqb denom (dp_a d) then
    match swap_b_for_exact_a (dp_pool d) amt fee with
    | PPanic w => PPanic w
    | POk (p', r) => POk (mkDP p' (dp_a d) (dp_b d), r)
    end
  else if Nat.eqb denom (dp_b d) then
    match swap_a_for_exact_b (dp_pool d) amt fee with
    | PPanic w => PPanic w
    | POk (p', r) => POk (mkDP p' (dp_a d) (dp_b d), r)
    end
  else PPanic Invalid.

(* reserves of a denom (Reserves().AmountOf) *)
Definition dp_reserve (d : dpool) (denom : nat) : Z :=
  if Nat.eqb denom (dp_a d) then ra (dp_pool d)
  else if Nat.eqb denom (dp_b d) then rb (dp_pool d) else 0.

Definition dp_flip (d : dpool) : dpool := mkDP (flip (dp_pool d)) (dp_b d) (dp_a d).

(** * keeper *)

(* denoms are numbered in string order, so sdk.NewCoins / PoolID sort by number *)
Record env := mkEnv {
  nusers : nat;                     (* user accounts 0 .. nusers-1; the module account is nusers *)
  nden : nat;
  allowed : list (nat * nat);       (* params.AllowedPools (tokenA < tokenB) *)
  swap_fee : Z                      (* params.SwapFee mantissa *)
}.
Definition macc (e : env) : nat := nusers e.

Record kstate := mkK {
  k_bal : nat -> nat -> Z;               (* x/bank: account, denom *)
  k_pool : nat -> nat -> option pool;    (* pool records by (denomA, denomB), denomA < denomB *)
  k_sh : nat -> nat -> nat -> Z          (* share records: depositor, denomA, denomB; 0 = no record *)
}.

Definition upd3 {A} (f : nat -> nat -> nat -> A) (a x y : nat) (v : A) : nat -> nat -> nat -> A :=
  fun a' x' y' => if Nat.eqb a' a && Nat.eqb x' x && Nat.eqb y' y then v else f a' x' y'.

Definition set_pool (s : kstate) (x y : nat) (p : option pool) : kstate :=
  mkK (k_bal s) (upd2 (k_pool s) x y p) (k_sh s).
Definition set_shares (s : kstate) (a x y : nat) (v : Z) : kstate :=
  mkK (k_bal s) (k_pool s) (upd3 (k_sh s) a x y v).
Definition set_bal (s : kstate) (a d : nat) (v : Z) : kstate :=
  mkK (upd2 (k_bal s) a d v) (k_pool s) (k_sh s).

(* bank: move [amt] of [d] from f to t; None = insufficient funds *)
Definition bank_send (s : kstate) (f t d : nat) (amt : Z) : option kstate :=
  if amt =? 0 then Some s else
  if k_bal s f d <? amt then None else
  let s1 := set_bal s f d (k_bal s f d - amt) in
  Some (set_bal s1 t d (k_bal s1 t d + amt)).

Fixpoint allowed_b (l : list (nat * nat)) (x y : nat) : bool :=
  match l with
  | [] => false
  | (a, b) :: r => (Nat.eqb a x && Nat.eqb b y) || allowed_b r x y
  end.

(* updatePool: a pool whose shares reach zero is deleted *)
Definition update_pool (s : kstate) (x y : nat) (p : pool) : kstate :=
  if sh p =? 0 then set_pool s x y None else set_pool s x y (Some p).

(* SetPool's record.Validate *)
Definition pool_valid (p : pool) : bool := (0 <? ra p) && (0 <? rb p) && (0 <? sh p).

(* deposit.go Deposit.  Output: deposited amounts in (denomA, denomB) order and shares minted *)
Definition deposit (e : env) (s : kstate) (who : nat) (d1 : nat) (a1 : Z) (d2 : nat) (a2 : Z) (slip : Z)
  : outcome kstate (list Z) :=
  (* sdk.NewCoins panics on duplicate denoms and negative amounts, drops zero coins (then coins[1] is out of range) *)
  if (a1 <=? 0) || (a2 <=? 0) || Nat.eqb d1 d2 then Panic else
  let x := if Nat.ltb d1 d2 then d1 else d2 in
  let y := if Nat.ltb d1 d2 then d2 else d1 in
  let ax := if Nat.ltb d1 d2 then a1 else a2 in
  let ay := if Nat.ltb d1 d2 then a2 else a1 in
  let r :=
    match k_pool s x y with
    | Some p =>
        match new_pool_shares (ra p) (rb p) (sh p) with
        | None => Err
        | Some p0 =>
            match add_liquidity p0 ax ay with
            | PPanic _ => Panic
            | POk r => Ok r tt
            end
        end
    | None =>
        if negb (allowed_b (allowed e) x y) then Err else
        match new_pool ax ay with
        | None => Err
        | Some p => Ok (p, (ax, ay, sh p)) tt
        end
    end in
  match r with
  | Err => Err | Panic => Panic
  | Ok (p', (actx, acty, shs)) _ =>
      if (actx =? 0) || (acty =? 0) then Err else
      if shs =? 0 then Err else
      let qx := dec_quo (dec_of_int ax) (dec_of_int actx) in
      let qy := dec_quo (dec_of_int ay) (dec_of_int acty) in
      if negb (dec_ok qx && dec_ok qy) then Panic else
      let slippage := dec_sub (Z.max qx qy) dec_one in
      if slip <? slippage then Err else
      if negb (pool_valid p') then Panic else
      let s1 := update_pool s x y p' in
      let owned := k_sh s1 who x y in
      if negb (int_ok (owned + shs)) then Panic else
      let s2 := set_shares s1 who x y (owned + shs) in
      match bank_send s2 who (macc e) x actx with
      | None => Err
      | Some s3 =>
          match bank_send s3 who (macc e) y acty with
          | None => Err
          | Some s4 => Ok s4 [actx; acty; shs]
          end
      end
  end.

(* withdraw.go Withdraw.  Output: withdrawn amounts in (denomA, denomB) order *)
Definition withdraw (e : env) (s : kstate) (who : nat) (shares : Z) (d1 : nat) (m1 : Z) (d2 : nat) (m2 : Z)
  : outcome kstate (list Z) :=
  (* PoolID(d, d) names no pool and no share record *)
  if Nat.eqb d1 d2 then Err else
  let x := if Nat.ltb d1 d2 then d1 else d2 in
  let y := if Nat.ltb d1 d2 then d2 else d1 in
  let mx := if Nat.ltb d1 d2 then m1 else m2 in
  let my := if Nat.ltb d1 d2 then m2 else m1 in
  let owned := k_sh s who x y in
  if owned =? 0 then Err else
  if owned <? shares then Err else
  match k_pool s x y with
  | None => Panic
  | Some p =>
      match new_pool_shares (ra p) (rb p) (sh p) with
      | None => Panic
      | Some p0 =>
          match remove_liquidity p0 shares with
          | PPanic _ => Panic
          | POk (p', (wx, wy)) =>
              if (wx =? 0) || (wy =? 0) then Err else
              if (wx <? mx) || (wy <? my) then Err else
              if negb (sh p' =? 0) && negb (pool_valid p') then Panic else
              let s1 := update_pool s x y p' in
              let s2 := set_shares s1 who x y (owned - shares) in
              match bank_send s2 (macc e) who x wx with
              | None => Panic
              | Some s3 =>
                  match bank_send s3 (macc e) who y wy with
                  | None => Panic
                  | Some s4 => Ok s4 [wx; wy]
                  end
              end
          end
      end
  end.

(* swap.go loadPool *)
Definition load_pool (s : kstate) (d1 d2 : nat) : outcome dpool (nat * nat) :=
  if Nat.eqb d1 d2 then Err else
  let x := if Nat.ltb d1 d2 then d1 else d2 in
  let y := if Nat.ltb d1 d2 then d2 else d1 in
  match k_pool s x y with
  | None => Err
  | Some p =>
      match new_pool_shares (ra p) (rb p) (sh p) with
      | None => Panic
      | Some p0 => Ok (mkDP p0 x y) (x, y)
      end
  end.

(* swap.go commitSwap *)
Definition commit_swap (e : env) (s : kstate) (x y : nat) (p' : pool) (who : nat)
  (din : nat) (ain : Z) (dout : nat) (aout : Z) (fv : Z) : outcome kstate (list Z) :=
  if negb (pool_valid p') then Panic else
  let s1 := set_pool s x y (Some p') in
  match bank_send s1 who (macc e) din ain with
  | None => Err
  | Some s2 =>
      match bank_send s2 (macc e) who dout aout with
      | None => Panic
      | Some s3 => Ok s3 [ain; aout; fv]
      end
  end.

(* swap.go SwapExactForTokens.  Output: input, output, fee *)
Definition swap_exact_for_tokens (e : env) (s : kstate) (who : nat) (din : nat) (ain : Z) (dout : nat) (bdes : Z) (slip : Z)
  : outcome kstate (list Z) :=
  match load_pool s din dout with
  | Err => Err | Panic => Panic
  | Ok dp (x, y) =>
      match dp_swap_exact_in dp din ain (swap_fee e) with
      | PPanic _ => Panic
      | POk (dp', (out, fv)) =>
          if out =? 0 then Err else
          (* Dec.Quo by zero panics *)
          if bdes =? 0 then Panic else
          let pc := dec_quo (dec_of_int out) (dec_of_int bdes) in
          if negb (dec_ok pc) then Panic else
          let slippage := dec_sub dec_one pc in
          if negb (dec_ok slippage) then Panic else
          if slip <? slippage then Err else
          commit_swap e s x y (dp_pool dp') who din ain dout out fv
      end
  end.

(* swap.go SwapForExactTokens.  Output: input, output, fee *)
Definition swap_for_exact_tokens (e : env) (s : kstate) (who : nat) (din : nat) (amax : Z) (dout : nat) (bex : Z) (slip : Z)
  : outcome kstate (list Z) :=
  match load_pool s din dout with
  | Err => Err | Panic => Panic
  | Ok dp (x, y) =>
      if dp_reserve dp dout <=? bex then Err else
      match dp_swap_exact_out dp dout bex (swap_fee e) with
      | PPanic _ => Panic
      | POk (dp', (inn, fv)) =>
          (* swapInput.Sub(feePaid): Coin.Sub panics on a negative result; Quo by zero panics *)
          if inn - fv <? 0 then Panic else
          if inn - fv =? 0 then Panic else
          let pc := dec_quo (dec_of_int amax) (dec_of_int (inn - fv)) in
          if negb (dec_ok pc) then Panic else
          let slippage := dec_sub dec_one pc in
          if negb (dec_ok slippage) then Panic else
          if slip <? slippage then Err else
          commit_swap e s x y (dp_pool dp') who din inn dout bex fv
      end
  end.

Inductive op :=
| Deposit (who : nat) (d1 : nat) (a1 : Z) (d2 : nat) (a2 : Z) (slip : Z)
| Withdraw (who : nat) (shares : Z) (d1 : nat) (m1 : Z) (d2 : nat) (m2 : Z)
| SwapIn (who : nat) (din : nat) (ain : Z) (dout : nat) (bdes : Z) (slip : Z)
| SwapOut (who : nat) (din : nat) (amax : Z) (dout : nat) (bex : Z) (slip : Z)
(* a plain bank MsgSend from a user to the swap module account (bank msg server):
   the module account is a blocked address (app.go loadBlockedMaccAddrs), so it is refused *)
| BankSend (who : nat) (d : nat) (amt : Z).

Definition op_who (o : op) : nat :=
  match o with
  | Deposit w _ _ _ _ _ | Withdraw w _ _ _ _ _ | SwapIn w _ _ _ _ _ | SwapOut w _ _ _ _ _ => w
  | BankSend w _ _ => w
  end.
Definition op_denoms (o : op) : nat * nat :=
  match o with
  | Deposit _ d1 _ d2 _ _ | Withdraw _ _ d1 _ d2 _ | SwapIn _ d1 _ d2 _ _ | SwapOut _ d1 _ d2 _ _ => (d1, d2)
  | BankSend _ d _ => (d, d)
  end.

(* the harness only names user accounts and known denoms *)
Definition op_in_range (e : env) (o : op) : bool :=
  Nat.ltb (op_who o) (nusers e) && Nat.ltb (fst (op_denoms o)) (nden e) && Nat.ltb (snd (op_denoms o)) (nden e).

Definition step (e : env) (s : kstate) (o : op) : outcome kstate (list Z) :=
  if negb (op_in_range e o) then Err else
  match o with
  | Deposit w d1 a1 d2 a2 sl => deposit e s w d1 a1 d2 a2 sl
  | Withdraw w shs d1 m1 d2 m2 => withdraw e s w shs d1 m1 d2 m2
  | SwapIn w d1 a d2 b sl => swap_exact_for_tokens e s w d1 a d2 b sl
  | SwapOut w d1 a d2 b sl => swap_for_exact_tokens e s w d1 a d2 b sl
  | BankSend _ _ _ => Err
  end.

Definition step' (e : env) (s : kstate) (o : op) : kstate :=
  match step e s o with Ok s' _ => s' | _ => s end.

Definition run (e : env) (s : kstate) (ops : list op) : kstate := fold_left (step' e) ops s.

(** * Correspondence-check support *)

Inductive rclass := ROk | RErr | RPanic.
Definition rclass_eqb (a b : rclass) : bool :=
  match a, b with ROk, ROk | RErr, RErr | RPanic, RPanic => true | _, _ => false end.
Definition class_of {S O} (r : outcome S O) : rclass :=
  match r with Ok _ _ => ROk | Err => RErr | Panic => RPanic end.

Fixpoint list_eqb {A} (eqb : A -> A -> bool) (l1 l2 : list A) : bool :=
  match l1, l2 with
  | [], [] => true
  | x :: r1, y :: r2 => eqb x y && list_eqb eqb r1 r2
  | _, _ => false
  end.

(** ** keeper histories *)

(* observation after an operation: result class and the changes of the
   implementation's observable state relative to the previous observation *)
Record obs := mkObs {
  o_class : rclass;
  o_dbal : list (nat * nat * Z);                 (* (account, denom, new balance) *)
  o_dpool : list (nat * nat * option (Z * Z * Z)); (* (denomA, denomB, new record or deleted) *)
  o_dsh : list (nat * nat * nat * Z)             (* (depositor, denomA, denomB, new shares; 0 = deleted) *)
}.

Definition pool_of (t : option (Z * Z * Z)) : option pool :=
  match t with Some (a, b, s) => Some (mkPool a b s) | None => None end.

Definition apply_obs (s : kstate) (o : obs) : kstate :=
  mkK (fold_left (fun f p => upd2 f (fst (fst p)) (snd (fst p)) (snd p)) (o_dbal o) (k_bal s))
      (fold_left (fun f p => upd2 f (fst (fst p)) (snd (fst p)) (pool_of (snd p))) (o_dpool o) (k_pool s))
      (fold_left (fun f p => upd3 f (fst (fst (fst p))) (snd (fst (fst p))) (snd (fst p)) (snd p)) (o_dsh o) (k_sh s)).

Definition pool_vals (p : option pool) : list Z :=
  match p with Some q => [1; ra q; rb q; sh q] | None => [0; 0; 0; 0] end.

Definition project (e : env) (s : kstate) : list (list Z) :=
  map (fun a => map (fun d => k_bal s a d) (seq 0 (nden e))) (seq 0 (S (nusers e)))
  ++ flat_map (fun x => map (fun y => pool_vals (k_pool s x y)) (seq 0 (nden e))) (seq 0 (nden e))
  ++ flat_map (fun a => map (fun x => map (fun y => k_sh s a x y) (seq 0 (nden e))) (seq 0 (nden e))) (seq 0 (S (nusers e))).

Definition proj_eqb (p q : list (list Z)) : bool := list_eqb (list_eqb Z.eqb) p q.

(* boolean module invariant *)
Definition res_in (d : nat) (pools : nat -> nat -> option pool) (x y : nat) : Z :=
  match pools x y with
  | Some p => (if Nat.eqb x d then ra p else 0) + (if Nat.eqb y d then rb p else 0)
  | None => 0
  end.
Definition sum2 (n : nat) (f : nat -> nat -> Z) : Z := sumN n (fun x => sumN n (f x)).
Definition pool_shares (p : option pool) : Z := match p with Some q => sh q | None => 0 end.

Definition inv_b (e : env) (s : kstate) : bool :=
  forallb (fun d => k_bal s (macc e) d =? sum2 (nden e) (res_in d (k_pool s))) (seq 0 (nden e))
  && forallb (fun x => forallb (fun y =>
        (pool_shares (k_pool s x y) =? sumN (S (nusers e)) (fun a => k_sh s a x y))
        && (match k_pool s x y with Some p => pool_valid p && Nat.ltb x y | None => true end)
        && forallb (fun a => 0 <=? k_sh s a x y) (seq 0 (S (nusers e))))
      (seq 0 (nden e))) (seq 0 (nden e)).

Fixpoint first_mismatch (e : env) (s shd : kstate) (h : list (op * obs)) (i : nat) : option nat :=
  match h with
  | [] => None
  | (o, ob) :: r =>
      let res := step e s o in
      let s' := match res with Ok s1 _ => s1 | _ => s end in
      let shd' := apply_obs shd ob in
      if rclass_eqb (class_of res) (o_class ob)
         && proj_eqb (project e s') (project e shd')
         && inv_b e s'
      then first_mismatch e s' shd' r (S i)
      else Some i
  end.

Definition nthZ (l : list Z) (i : nat) : Z := nth i l 0.

(* initial state from harness data: balances by account and denom; no pools, no shares *)
Definition mk_state (bals : list (list Z)) : kstate :=
  mkK (fun a d => nthZ (nth a bals []) d) (fun _ _ => None) (fun _ _ _ => 0).

(** ** BasePool cases: one operation on a pool with given reserves and shares *)

Inductive bop :=
| BNew (a b : Z)
| BNewShares (a b s : Z)
| BAdd (da db : Z)
| BRemove (s : Z)
| BShareValue (s : Z)
| BSwapAB (a fee : Z)       (* SwapExactAForB *)
| BSwapBA (b fee : Z)       (* SwapExactBForA *)
| BSwapForB (b fee : Z)     (* SwapAForExactB *)
| BSwapForA (a fee : Z).    (* SwapBForExactA *)

(* result: class, returned values, pool afterwards (compared only when the class is Ok) *)
Record bres := mkBR { b_class : rclass; b_out : list Z; b_pool : list Z }.

Definition pl (p : pool) : list Z := [ra p; rb p; sh p].

Definition bres_of2 (r : pres (pool * (Z * Z))) : bres :=
  match r with
  | POk (p, (u, v)) => mkBR ROk [u; v] (pl p)
  | PPanic _ => mkBR RPanic [] []
  end.

Definition bexec (p : pool) (o : bop) : bres :=
  match o with
  | BNew a b => match new_pool a b with Some q => mkBR ROk [] (pl q) | None => mkBR RErr [] [] end
  | BNewShares a b s => match new_pool_shares a b s with Some q => mkBR ROk [] (pl q) | None => mkBR RErr [] [] end
  | BAdd da db =>
      match add_liquidity p da db with
      | POk (q, (u, v, w)) => mkBR ROk [u; v; w] (pl q)
      | PPanic _ => mkBR RPanic [] []
      end
  | BRemove s => bres_of2 (remove_liquidity p s)
  | BShareValue s =>
      match share_value p s with
      | POk (u, v) => mkBR ROk [u; v] (pl p)
      | PPanic _ => mkBR RPanic [] []
      end
  | BSwapAB a f => bres_of2 (swap_exact_a_for_b p a f)
  | BSwapBA b f => bres_of2 (swap_exact_b_for_a p b f)
  | BSwapForB b f => bres_of2 (swap_a_for_exact_b p b f)
  | BSwapForA a f => bres_of2 (swap_b_for_exact_a p a f)
  end.

Definition bres_eqb (x y : bres) : bool :=
  rclass_eqb (b_class x) (b_class y) &&
  match b_class x with
  | ROk => list_eqb Z.eqb (b_out x) (b_out y) && list_eqb Z.eqb (b_pool x) (b_pool y)
  | _ => true
  end.

Record bcase := mkBC { bc_ra : Z; bc_rb : Z; bc_sh : Z; bc_op : bop; bc_exp : bres }.

Definition bcase_ok (c : bcase) : bool :=
  bres_eqb (bexec (mkPool (bc_ra c) (bc_rb c) (bc_sh c)) (bc_op c)) (bc_exp c).

Fixpoint first_bad {A} (f : A -> bool) (l : list A) (i : nat) : option nat :=
  match l with
  | [] => None
  | c :: r => if f c then first_bad f r (S i) else Some i
  end.

(** ** exhaustive small domain: digests of all results for one value of reserves A *)

Definition HM : Z := 2305843009213693951.   (* 2^61 - 1, used as a bit mask *)
Definition mix (h v : Z) : Z := Z.land (h * 1000003 + v) HM.
Definition pack (l : list Z) : Z := fold_left (fun acc x => acc * 4096 + (x + 1)) l 0.
Definition code (r : bres) : Z :=
  match b_class r with
  | ROk => pack (1 :: b_out r ++ b_pool r)
  | RErr => 2
  | RPanic => 3
  end.

Definition zrange (lo hi : Z) : list Z := map (fun i => lo + Z.of_nat i) (seq 0 (Z.to_nat (hi - lo + 1))).

(* all operations with amounts 0..n on the pool (a, b, s); fees from the list *)
Definition digest_pool (n : Z) (fees : list Z) (a b s : Z) : Z :=
  let p := mkPool a b s in
  let h1 := fold_left (fun h da => fold_left (fun h db => mix h (code (bexec p (BAdd da db)))) (zrange 0 n) h) (zrange 0 n) 0 in
  let h2 := fold_left (fun h x => mix h (code (bexec p (BRemove x)))) (zrange 0 (n + 1)) h1 in
  h2.

(* swaps do not involve the shares *)
Definition digest_swaps (n : Z) (fees : list Z) (a b : Z) : Z :=
  let p := mkPool a b 1 in
  fold_left (fun h f => fold_left (fun h x =>
      mix (mix (mix (mix h (code (bexec p (BSwapAB x f)))) (code (bexec p (BSwapBA x f))))
               (code (bexec p (BSwapForB x f)))) (code (bexec p (BSwapForA x f))))
    (zrange 0 n) h) fees 0.

(* digest of the row (a, b): swaps, then every share count 1..n *)
Definition digest_row (n : Z) (fees : list Z) (a b : Z) : Z :=
  fold_left (fun h s => mix h (digest_pool n fees a b s)) (zrange 1 n) (digest_swaps n fees a b).

Definition digest_rows (n : Z) (fees : list Z) (a : Z) : list Z :=
  map (fun b => digest_row n fees a b) (zrange 1 n).

(** ** histories *)

Inductive history :=
| HK (e : env) (init : kstate) (steps : list (op * obs))        (* keeper history *)
| HB (cases : list bcase)                                        (* BasePool cases *)
| HX (n : Z) (fees : list Z) (a : Z) (expected : list Z).        (* exhaustive rows for reserves A = a *)

Fixpoint first_diff (l1 l2 : list Z) (i : nat) : option nat :=
  match l1, l2 with
  | [], [] => None
  | x :: r1, y :: r2 => if x =? y then first_diff r1 r2 (S i) else Some i
  | _, _ => Some i
  end.

Definition check_history (h : history) : option nat :=
  match h with
  | HK e init steps =>
      if inv_b e init then first_mismatch e init init steps 0 else Some 0%nat
  | HB cases => first_bad bcase_ok cases 0
  | HX n fees a expected => first_diff (digest_rows n fees a) expected 0
  end.

Fixpoint mismatches_from (i : nat) (hs : list history) : list (nat * nat) :=
  match hs with
  | [] => []
  | h :: r =>
      match check_history h with
      | None => mismatches_from (S i) r
      | Some k => (i, k) :: mismatches_from (S i) r
      end
  end.
Definition mismatches := mismatches_from 0.

(** * The message level (types/msg.go ValidateBasic, keeper/msg_server.go) *)

(* A swap message: the keeper operation it carries and its deadline in Unix
   seconds.  (BankSend is x/bank's MsgSend: no deadline, no swap ValidateBasic.) *)
Record msg := mkMsg { m_op : op; m_deadline : Z }.

Definition is_swap_msg (o : op) : bool := match o with BankSend _ _ _ => false | _ => true end.

(* MsgDeposit/MsgWithdraw/MsgSwapExactForTokens/MsgSwapForExactTokens.DeadlineExceeded:
   blockTime.Unix() >= msg.Deadline -- a deadline EQUAL to the block time is already exceeded *)
Definition deadline_exceeded (block_unix : Z) (m : msg) : bool :=
  is_swap_msg (m_op m) && (m_deadline m <=? block_unix).

(* msg_server.go: checkDeadline, then the keeper call (AccAddressFromBech32
   cannot fail for the addresses of the model) *)
Definition msg_step (e : env) (block_unix : Z) (s : kstate) (m : msg) : outcome kstate (list Z) :=
  if deadline_exceeded block_unix m then Err else step e s (m_op m).

(* ValidateBasic of the four messages (run by baseapp before the handler): both
   coins valid and non-zero, different denoms, slippage set and not negative
   (shares positive for a withdrawal), deadline positive.  Denoms of the model
   are valid names and addresses well-formed. *)
Definition validate_basic (m : msg) : bool :=
  match m_op m with
  | Deposit _ d1 a1 d2 a2 sl | SwapIn _ d1 a1 d2 a2 sl | SwapOut _ d1 a1 d2 a2 sl =>
      (0 <? a1) && (0 <? a2) && negb (Nat.eqb d1 d2) && (0 <=? sl) && (0 <? m_deadline m)
  | Withdraw _ shs d1 m1 d2 m2 =>
      (0 <? shs) && (0 <? m1) && (0 <? m2) && negb (Nat.eqb d1 d2) && (0 <? m_deadline m)
  | BankSend _ _ _ => true
  end.

(* a message delivered in a transaction at block time [block_unix] *)
Definition tx_step (e : env) (block_unix : Z) (s : kstate) (m : msg) : outcome kstate (list Z) :=
  if negb (validate_basic m) then Err else msg_step e block_unix s m.

Definition tx_step' (e : env) (s : kstate) (tm : Z * msg) : kstate :=
  match tx_step e (fst tm) s (snd tm) with Ok s' _ => s' | _ => s end.
Definition tx_run (e : env) (s : kstate) (l : list (Z * msg)) : kstate := fold_left (tx_step' e) l s.

(** ** message histories for the correspondence check *)
Record mhistory := mkMH { mh_env : env; mh_init : kstate; mh_steps : list (Z * msg * obs) }.

Fixpoint first_mismatch_m (e : env) (s shd : kstate) (h : list (Z * msg * obs)) (i : nat) : option nat :=
  match h with
  | [] => None
  | (t, m, ob) :: r =>
      let res := tx_step e t s m in
      let s' := match res with Ok s1 _ => s1 | _ => s end in
      let shd' := apply_obs shd ob in
      if rclass_eqb (class_of res) (o_class ob)
         && proj_eqb (project e s') (project e shd')
         && inv_b e s'
      then first_mismatch_m e s' shd' r (S i)
      else Some i
  end.

Definition check_mhistory (h : mhistory) : option nat :=
  if inv_b (mh_env h) (mh_init h) then first_mismatch_m (mh_env h) (mh_init h) (mh_init h) (mh_steps h) 0 else Some 0%nat.

Fixpoint mmismatches_from (i : nat) (hs : list mhistory) : list (nat * nat) :=
  match hs with
  | [] => []
  | h :: r =>
      match check_mhistory h with
      | None => mmismatches_from (S i) r
      | Some k => (i, k) :: mmismatches_from (S i) r
      end
  end.
Definition mismatches_m := mmismatches_from 0.
