(* x/hard/genesis.go (ExportGenesis, InitGenesis) and types/genesis.go, types/params.go,
   types/deposit.go, types/borrow.go (GenesisState.Validate and what it calls) over the
   state of Model/Hard.v.  Definitions only.

   ExportGenesis does not write to the hard store, but what it exports is not what is stored:
   every deposit and borrow is exported SYNCED (loadSyncedDeposit / loadSyncedBorrow: the
   interest accrued since the position's last touch added to the amount, the index replaced
   by one entry per coin holding the current global factor).  Accumulation times and interest
   factors are exported for the money markets of the PARAMS only, and the export panics when
   one of them has no previous accrual time yet. *)
From Kava Require Import Base.Prelude Base.Dec Model.Hard.
Local Open Scope Z_scope.

Record grec := mkGRec { gr_user : nat; gr_amt : list (nat * Z); gr_idx : list (nat * Z) }.
Record ggat := mkGat { ga_denom : nat; ga_prev : Z; ga_sf : Z; ga_bf : Z }.
Record genesis := mkGen {
  g_minb : Z;                          (* Params.MinimumBorrowUSDValue *)
  g_mms : list (nat * market);         (* Params.MoneyMarkets *)
  g_gats : list ggat;                  (* PreviousAccumulationTimes *)
  g_deps : list grec;
  g_bors : list grec;
  g_tsup : list (nat * Z);
  g_tbor : list (nat * Z);
  g_tres : list (nat * Z)
}.

(** * ExportGenesis *)

(* sdk.Coins of a coins function: the non-zero amounts in denom order *)
Definition to_clist (n : nat) (c : coins) : list (nat * Z) := map (fun d => (d, c d)) (denoms n c).

(* loadSyncedDeposit / loadSyncedBorrow ([ld] = load_synced_sup / load_synced of Model/Hard.v:
   the two differ in the order of Mul and Quo): amounts plus interest; one index entry per coin
   of the STORED amount, in coin order, holding the global factor (zero when there is none) *)
Definition loader := nat -> (nat -> option Z) -> urec -> res coins.
Definition synced_rec (ld : loader) (n : nat) (gf : nat -> option Z) (r : urec) : res urec :=
  c <- ld n gf r ;;
  ret (mkU c (map (fun d => (d, fac0 gf d)) (denoms n (amt r)))).

Definition grec_of (n : nat) (u : nat) (r : urec) : grec := mkGRec u (to_clist n (amt r)) (idx r).

(* IterateDeposits: BeforeDepositModified (the incentive hook panics when NormalizedDeposit
   fails), then GetSyncedDeposit *)
Definition export_recs (ld : loader) (n : nat) (gf : nat -> option Z) (tbl : nat -> option urec) (us : list nat) : res (list grec) :=
  fold_left (fun acc u =>
    l <- acc ;;
    match tbl u with
    | None => ret l
    | Some r =>
        _ <- panic_unless (hook_ok n (Some r)) ;;
        r' <- synced_rec ld n gf r ;;
        ret (l ++ [grec_of n u r'])
    end) us (ret []).

(* for _, mm := range params.MoneyMarkets: factors default to 1.0, a missing previous accrual
   time panics *)
Definition export_gats (e : env) (s : state) : res (list ggat) :=
  fold_left (fun acc d =>
    l <- acc ;;
    match params s d with
    | None => ret l
    | Some _ =>
        match prev s d with
        | None => Panic
        | Some t =>
            ret (l ++ [mkGat d t (match sfac s d with Some f => f | None => PREC end)
                                 (match bfac s d with Some f => f | None => PREC end)])
        end
    end) (seq 0 (nd e)) (ret []).

Definition export_mms (e : env) (s : state) : list (nat * market) :=
  flat_map (fun d => match params s d with Some m => [(d, m)] | None => [] end) (seq 0 (nd e)).

Definition export_genesis (e : env) (s : state) : res genesis :=
  deps <- export_recs load_synced_sup (nd e) (sfac s) (dep s) (seq 0 (nu e)) ;;
  bors <- export_recs load_synced (nd e) (bfac s) (bor s) (seq 0 (nu e)) ;;
  gats <- export_gats e s ;;
  ret (mkGen (min_borrow e) (export_mms e s) gats deps bors
             (to_clist (nd e) (tsup s)) (to_clist (nd e) (tbor s)) (to_clist (nd e) (tres s))).

(** * GenesisState.Validate *)

(* MoneyMarket.Validate: BorrowLimit (max >= 0, 0 <= ltv <= 1), ConversionFactor >= 1,
   InterestRateModel (0 <= base <= 1, mult >= 0, 0 <= kink <= 1, jump >= 0),
   0 <= reserve factor <= 1, 0 <= keeper reward <= 1.  No duplicate check. *)
Definition market_valid (m : market) : bool :=
  (0 <=? m_max m) && (0 <=? m_ltv m) && (m_ltv m <=? PREC) && (1 <=? m_cf m)
  && (0 <=? m_base m) && (m_base m <=? PREC) && (0 <=? m_mult m)
  && (0 <=? m_kink m) && (m_kink m <=? PREC) && (0 <=? m_jump m)
  && (0 <=? m_reserve m) && (m_reserve m <=? PREC)
  && (0 <=? m_keeper m) && (m_keeper m <=? PREC).

(* GenesisAccumulationTime.Validate: both factors >= 1.0 *)
Definition gat_valid (g : ggat) : bool := (PREC <=? ga_sf g) && (PREC <=? ga_bf g).

(* Deposit.Validate / Borrow.Validate: Amount.IsValid(), no negative index value *)
Definition grec_valid (r : grec) : bool :=
  clist_valid (gr_amt r) && forallb (fun p => 0 <=? snd p) (gr_idx r).

Fixpoint nodup_users (seen : list nat) (l : list grec) : bool :=
  match l with
  | [] => true
  | r :: rest => negb (existsb (Nat.eqb (gr_user r)) seen) && nodup_users (gr_user r :: seen) rest
  end.

Definition validate_genesis (g : genesis) : bool :=
  (0 <=? g_minb g) && forallb (fun p => market_valid (snd p)) (g_mms g)
  && forallb gat_valid (g_gats g)
  && forallb grec_valid (g_deps g) && nodup_users [] (g_deps g)
  && forallb grec_valid (g_bors g) && nodup_users [] (g_bors g)
  && clist_valid (g_tsup g) && clist_valid (g_tbor g) && clist_valid (g_tres g).

(** * InitGenesis *)

Definition set_all {A} (f : nat -> option A) (l : list (nat * A)) : nat -> option A :=
  fold_left (fun f p => upd f (fst p) (Some (snd p))) l f.

Definition urec_of (r : grec) : urec := mkU (of_list (gr_amt r)) (gr_idx r).

(* [s0] supplies what is not in the hard store: bank balances and pricefeed prices.  The hard
   store is empty when InitGenesis starts.  SetParams writes x/params, SetMoneyMarket the store:
   both hold the genesis money markets afterwards. *)
Definition init_genesis (e : env) (s0 : state) (g : genesis) : res state :=
  _ <- panic_unless (validate_genesis g) ;;
  let mm := set_all (fun _ => None) (g_mms g) in
  ret (mkState (bal s0) (price s0)
         (set_all (fun _ => None) (map (fun r => (gr_user r, urec_of r)) (g_deps g)))
         (set_all (fun _ => None) (map (fun r => (gr_user r, urec_of r)) (g_bors g)))
         (set_all (fun _ => None) (map (fun a => (ga_denom a, ga_sf a)) (g_gats g)))
         (set_all (fun _ => None) (map (fun a => (ga_denom a, ga_bf a)) (g_gats g)))
         (set_all (fun _ => None) (map (fun a => (ga_denom a, ga_prev a)) (g_gats g)))
         (of_list (g_tsup g)) (of_list (g_tbor g)) (of_list (g_tres g))
         mm mm).

(** * The wrapper machine *)

Inductive gop :=
| GOp (o : op)
| GReimport
| GProbe (g : genesis).   (* a (perturbed) genesis state validated, and imported on a discarded branch *)

Definition reimport (e : env) (s : state) : res state :=
  g <- export_genesis e s ;; init_genesis e s g.

Definition rcode (r : rclass) : Z := match r with ROk => 0 | RErr => 1 | RPanic => 2 end.

Definition gstep (e : env) (s : state) (o : gop) : res state :=
  match o with
  | GOp x => step e s x
  | GReimport => reimport e s
  | GProbe _ => ret s
  end.

Definition gstep' (e : env) (s : state) (o : gop) : state :=
  match gstep e s o with Ok s' _ => s' | _ => s end.
Definition grun (e : env) (s : state) (ops : list gop) : state := fold_left (gstep' e) ops s.

(* both verdicts on a probed genesis state: Validate, and the class of InitGenesis, which the
   implementation runs on every probed state (also those Validate refuses) on an emptied store
   (InitGenesis validates first: it panics exactly when validation fails) *)
Definition probe (e : env) (s : state) (g : genesis) : list Z :=
  [(if validate_genesis g then 1 else 0); rcode (class_of (init_genesis e s g))].

(** * Correspondence-check support *)

Definition coins_list_eqb (a b : list (nat * Z)) : bool := list_eqb pair_eqb a b.
Definition grec_eqb (a b : grec) : bool :=
  Nat.eqb (gr_user a) (gr_user b) && coins_list_eqb (gr_amt a) (gr_amt b) && coins_list_eqb (gr_idx a) (gr_idx b).
Definition ggat_eqb (a b : ggat) : bool :=
  Nat.eqb (ga_denom a) (ga_denom b) && (ga_prev a =? ga_prev b) && (ga_sf a =? ga_sf b) && (ga_bf a =? ga_bf b).
Definition genesis_eqb (a b : genesis) : bool :=
  (g_minb a =? g_minb b)
  && list_eqb (fun p q => Nat.eqb (fst p) (fst q) && market_eqb (snd p) (snd q)) (g_mms a) (g_mms b)
  && list_eqb ggat_eqb (g_gats a) (g_gats b)
  && list_eqb grec_eqb (g_deps a) (g_deps b) && list_eqb grec_eqb (g_bors a) (g_bors b)
  && coins_list_eqb (g_tsup a) (g_tsup b) && coins_list_eqb (g_tbor a) (g_tbor b) && coins_list_eqb (g_tres a) (g_tres b).

(* what the harness records for a step: the ordinary observation; for a re-import also the
   genesis state the real ExportGenesis produced (deposits and borrows listed by user number);
   for a probe the two verdicts *)
Inductive gobs :=
| ObsStep (o : obs)
| ObsReimport (o : obs) (g : option genesis)      (* None: the real export panicked *)
| ObsProbe (v : list Z).

Definition export_matches (e : env) (s : state) (g : option genesis) : bool :=
  match export_genesis e s, g with
  | Ok g1 _, Some g2 => genesis_eqb g1 g2
  | Panic, None => true
  | _, _ => false
  end.

Definition no_change : obs := mkObs ROk [] [] [] [] [] [] [] [] [] [] [] [].

Fixpoint gfirst_mismatch (e : env) (s : state) (sh : view) (h : list (gop * gobs)) (i : nat) : option nat :=
  match h with
  | [] => None
  | (o, gb) :: r =>
      let rs := gstep e s o in
      let s' := normalize e (match rs with Ok s1 _ => s1 | _ => s end) in
      let ob := match gb with ObsStep x => x | ObsReimport x _ => x | ObsProbe _ => no_change end in
      let sh' := apply_obs sh ob in
      let extra := match o, gb with
                   | GOp x, ObsStep _ => oracle_ok x
                   | GReimport, ObsReimport _ g => export_matches e s g
                   | GProbe g, ObsProbe v => list_eqb Z.eqb (probe e s g) v
                   | _, _ => false
                   end in
      if extra
         && rclass_eqb (class_of rs) (o_class ob)
         && view_eqb (project e s') sh'
         && inv_b e s'
      then gfirst_mismatch e s' sh' r (S i)
      else Some i
  end.

Record ghistory := mkGHist {
  gh_env : env;
  gh_init : state;
  gh_steps : list (gop * gobs)
}.

Definition gcheck_history (h : ghistory) : option nat :=
  if inv_b (gh_env h) (gh_init h)
  then gfirst_mismatch (gh_env h) (gh_init h) (project (gh_env h) (gh_init h)) (gh_steps h) 0
  else Some 0%nat.

Fixpoint gmismatches_from (i : nat) (hs : list ghistory) : list (nat * nat) :=
  match hs with
  | [] => []
  | h :: r =>
      match gcheck_history h with
      | None => gmismatches_from (S i) r
      | Some k => (i, k) :: gmismatches_from (S i) r
      end
  end.
Definition gmismatches := gmismatches_from 0.
