(* JSON as the three decoders of the committee/params code path see it.
   - [json]: a parsed document; object members are kept in source order WITH
     duplicates, because the two consumers resolve them themselves.
   - [to_map] / [to_multi]: encoding/json Unmarshal into map[string]interface{} /
     []map[string]interface{} (x/committee/types/permissions.go): duplicate keys -
     last wins, null -> nil map.
   - [jeq]: reflect.DeepEqual on the decoded interface{} values.
   - schemas ([skind], [kind], [field]) and amino-JSON struct encoding/decoding
     (go-amino v0.16.0 json-encode.go / json-decode.go): a zero-valued omitempty
     field is absent from the encoding; on decoding, exact-name lookup, unknown
     keys ignored, a missing key zeroes the field unless it is omitempty (then
     the destination keeps what it had), null zeroes the field.
   Strings are abstracted injectively: a string that is a canonical decimal
   integer is [SInt z], a canonical 18-digit decimal is [SDec mantissa], a valid
   bech32 account address is [SAddr index], anything else [SText s].  The driver
   applies this classification to every string of every document.
   Definitions only. *)
From Coq Require Export String Ascii.
From Kava Require Import Base.Prelude.
Local Open Scope Z_scope.

Inductive jstr :=
| SText (s : string)
| SInt (z : Z)
| SDec (m : Z)
| SAddr (n : nat).

Definition jstr_eqb (a b : jstr) : bool :=
  match a, b with
  | SText x, SText y => String.eqb x y
  | SInt x, SInt y => x =? y
  | SDec x, SDec y => x =? y
  | SAddr x, SAddr y => Nat.eqb x y
  | _, _ => false
  end.

Inductive json :=
| JNull
| JBool (b : bool)
| JNum (z : Z)            (* a bare number; integer literals only (none of the modelled param types has a bare-number field) *)
| JStr (s : jstr)
| JArr (l : list json)
| JObj (l : list (string * json)).

Definition jmap := list (string * json).

(* value of key [k]: the LAST occurrence wins *)
Fixpoint oget (k : string) (l : jmap) : option json :=
  match l with
  | [] => None
  | (k', v) :: r =>
      match oget k r with
      | Some w => Some w
      | None => if String.eqb k' k then Some v else None
      end
  end.

Fixpoint has_key (k : string) (l : jmap) : bool :=
  match l with
  | [] => false
  | (k', _) :: r => String.eqb k' k || has_key k r
  end.

(* the Go map a member list denotes: one entry per key, the last occurrence *)
Fixpoint dedupe (l : jmap) : jmap :=
  match l with
  | [] => []
  | (k, v) :: r => if has_key k r then dedupe r else (k, v) :: dedupe r
  end.

(* a missing map key reads as the nil interface *)
Definition mget (k : string) (m : jmap) : json :=
  match oget k m with Some v => v | None => JNull end.

(* reflect.DeepEqual on decoded values *)
Fixpoint jeq (a b : json) {struct a} : bool :=
  match a, b with
  | JNull, JNull => true
  | JBool x, JBool y => Bool.eqb x y
  | JNum x, JNum y => x =? y
  | JStr x, JStr y => jstr_eqb x y
  | JArr x, JArr y =>
      (fix go (l1 l2 : list json) : bool :=
         match l1, l2 with
         | [], [] => true
         | p :: r1, q :: r2 => jeq p q && go r1 r2
         | _, _ => false
         end) x y
  | JObj x, JObj y =>
      (fix sub (l : jmap) : bool :=
         match l with
         | [] => true
         | kv :: r =>
             (if has_key (fst kv) r then true
              else match oget (fst kv) y with Some w => jeq (snd kv) w | None => false end)
             && sub r
         end) x
      && Nat.eqb (length (dedupe x)) (length (dedupe y))
  | _, _ => false
  end.

(* syntactic equality (used to compare stored documents of model and implementation) *)
Fixpoint json_eqb (a b : json) {struct a} : bool :=
  match a, b with
  | JNull, JNull => true
  | JBool x, JBool y => Bool.eqb x y
  | JNum x, JNum y => x =? y
  | JStr x, JStr y => jstr_eqb x y
  | JArr x, JArr y =>
      (fix go (l1 l2 : list json) : bool :=
         match l1, l2 with
         | [], [] => true
         | p :: r1, q :: r2 => json_eqb p q && go r1 r2
         | _, _ => false
         end) x y
  | JObj x, JObj y =>
      (fix go (l1 l2 : jmap) : bool :=
         match l1, l2 with
         | [], [] => true
         | p :: r1, q :: r2 => String.eqb (fst p) (fst q) && json_eqb (snd p) (snd q) && go r1 r2
         | _, _ => false
         end) x y
  | _, _ => false
  end.

(* json.Unmarshal(bz, &map[string]interface{}) *)
Definition to_map (j : json) : option jmap :=
  match j with
  | JObj l => Some (dedupe l)
  | JNull => Some []
  | _ => None
  end.

(* json.Unmarshal(bz, &[]map[string]interface{}) *)
Fixpoint to_maps (l : list json) : option (list jmap) :=
  match l with
  | [] => Some []
  | j :: r =>
      match to_map j, to_maps r with
      | Some m, Some ms => Some (m :: ms)
      | _, _ => None
      end
  end.
Definition to_multi (j : json) : option (list jmap) :=
  match j with
  | JArr l => to_maps l
  | JNull => Some []
  | _ => None
  end.

(** * Schemas *)

Inductive skind := KStr | KBool | KI64 | KU64 | KInt | KDec | KAddr.
Definition skind_eqb (a b : skind) : bool :=
  match a, b with
  | KStr, KStr | KBool, KBool | KI64, KI64 | KU64, KU64 | KInt, KInt | KDec, KDec | KAddr, KAddr => true
  | _, _ => false
  end.

Definition sfield := (string * skind * bool)%type.   (* json name, kind, omitempty *)

Inductive kind :=
| KS (k : skind)
| KObj (fs : list sfield).                            (* nested struct with scalar fields *)

Record field := mkField { f_name : string; f_kind : kind; f_omit : bool }.
Definition schema := list field.

(* Typed values are represented by json terms: a typed scalar is what the
   decoder produced; [JNull] stands for the nil Int / nil Dec. *)
Definition zero_s (k : skind) : json :=
  match k with
  | KStr => JStr (SText EmptyString)
  | KBool => JBool false
  | KI64 | KU64 => JStr (SInt 0)
  | KInt | KDec => JNull
  | KAddr => JStr (SText EmptyString)
  end.

(* first-occurrence lookup in a typed record (names are unique there) *)
Fixpoint bget (k : string) (r : jmap) (d : json) : json :=
  match r with
  | [] => d
  | (k', v) :: t => if String.eqb k' k then v else bget k t d
  end.

Definition zero_fields (fs : list sfield) : jmap :=
  map (fun f => (fst (fst f), zero_s (snd (fst f)))) fs.

Definition zero_k (k : kind) : json :=
  match k with KS s => zero_s s | KObj fs => JObj (zero_fields fs) end.

Definition zero_rec (sch : schema) : jmap :=
  map (fun f => (f_name f, zero_k (f_kind f))) sch.

Definition I64MIN : Z := - 9223372036854775808.
Definition I64MAX : Z := 9223372036854775807.
Definition U64MAX : Z := 18446744073709551615.
Definition INT_BOUND : Z := 2 ^ 256.     (* sdkmath.Int: bit length <= 256 *)
Definition DEC_BOUND : Z := 2 ^ 315.     (* LegacyDec: bit length <= 315 *)

(* decodeReflectJSON on a scalar field *)
Definition dec_s (k : skind) (j : json) : option json :=
  match j with
  | JNull => Some (zero_s k)
  | _ =>
    match k, j with
    | KStr, JStr _ => Some j
    | KBool, JBool _ => Some j
    | KI64, JStr (SInt z) => if (I64MIN <=? z) && (z <=? I64MAX) then Some j else None
    | KU64, JStr (SInt z) => if (0 <=? z) && (z <=? U64MAX) then Some j else None
    | KInt, JStr (SInt z) => if Z.abs z <? INT_BOUND then Some j else None
    | KDec, JStr (SDec m) => if Z.abs m <? DEC_BOUND then Some j else None
    | KDec, JStr (SInt z) =>                 (* LegacyNewDecFromStr accepts a plain integer *)
        if Z.abs (z * 1000000000000000000) <? DEC_BOUND then Some (JStr (SDec (z * 1000000000000000000))) else None
    | KAddr, JStr (SAddr _) => Some j
    | KAddr, JStr (SText EmptyString) => Some j
    | _, _ => None
    end
  end.

(* decodeReflectJSONStruct for a struct with scalar fields, onto [base] *)
Fixpoint dec_fields (fs : list sfield) (base raw : jmap) : option jmap :=
  match fs with
  | [] => Some []
  | (n, k, om) :: r =>
      let v := match oget n raw with
               | None => Some (if om then bget n base (zero_s k) else zero_s k)
               | Some j => dec_s k j
               end in
      match v, dec_fields r base raw with
      | Some x, Some t => Some ((n, x) :: t)
      | _, _ => None
      end
  end.

Definition dec_k (k : kind) (base : json) (j : json) : option json :=
  match k with
  | KS s => dec_s s j
  | KObj fs =>
      match j with
      | JNull => Some (JObj (zero_fields fs))
      | JObj raw =>
          match dec_fields fs (match base with JObj b => b | _ => zero_fields fs end) raw with
          | Some t => Some (JObj t)
          | None => None
          end
      | _ => None
      end
  end.

(* decodeReflectJSONStruct for a top-level record, onto [base] *)
Fixpoint dec_rec (sch : schema) (base raw : jmap) : option jmap :=
  match sch with
  | [] => Some []
  | f :: r =>
      let n := f_name f in
      let v := match oget n raw with
               | None => Some (if f_omit f then bget n base (zero_k (f_kind f)) else zero_k (f_kind f))
               | Some j => dec_k (f_kind f) (bget n base (zero_k (f_kind f))) j
               end in
      match v, dec_rec r base raw with
      | Some x, Some t => Some ((n, x) :: t)
      | _, _ => None
      end
  end.

(* amino decoding of a whole struct value (UnmarshalJSON onto dest) *)
Definition dec_struct (sch : schema) (base : jmap) (j : json) : option jmap :=
  match j with
  | JNull => Some (zero_rec sch)
  | JObj raw => dec_rec sch base raw
  | _ => None
  end.

(* amino decoding of a slice of structs: always a fresh slice, elements start from zero *)
Fixpoint dec_structs (sch : schema) (l : list json) : option (list jmap) :=
  match l with
  | [] => Some []
  | j :: r =>
      match dec_struct sch (zero_rec sch) j, dec_structs sch r with
      | Some x, Some t => Some (x :: t)
      | _, _ => None
      end
  end.
Definition dec_slice (sch : schema) (j : json) : option (list jmap) :=
  match j with
  | JNull => Some []
  | JArr l => dec_structs sch l
  | _ => None
  end.

(** * amino-JSON encoding *)

(* isEmpty: the zero value (a nil Int is DeepEqual to the zero Int, Int(0) is not) *)
Definition emp_s (k : skind) (v : json) : bool := json_eqb v (zero_s k).

Definition enc_s (k : skind) (v : json) : json :=
  match k, v with
  | KInt, JNull => JStr (SInt 0)       (* Int.MarshalJSON prints a nil Int as "0" *)
  | _, _ => v
  end.

Fixpoint enc_fields (fs : list sfield) (vals : jmap) : jmap :=
  match fs with
  | [] => []
  | (n, k, om) :: r =>
      let v := bget n vals (zero_s k) in
      if om && emp_s k v then enc_fields r vals else (n, enc_s k v) :: enc_fields r vals
  end.

Definition enc_k (k : kind) (v : json) : json :=
  match k with
  | KS s => enc_s s v
  | KObj fs => JObj (enc_fields fs (match v with JObj b => b | _ => zero_fields fs end))
  end.

Definition emp_k (k : kind) (v : json) : bool :=
  match k with KS s => emp_s s v | KObj _ => false end.   (* no modelled struct-typed field is omitempty *)

Fixpoint enc_rec (sch : schema) (r : jmap) : jmap :=
  match sch with
  | [] => []
  | f :: t =>
      let v := bget (f_name f) r (zero_k (f_kind f)) in
      if f_omit f && emp_k (f_kind f) v then enc_rec t r
      else (f_name f, enc_k (f_kind f) v) :: enc_rec t r
  end.

Definition enc_struct (sch : schema) (r : jmap) : json := JObj (enc_rec sch r).
Definition enc_slice (sch : schema) (l : list jmap) : json :=
  match l with
  | [] => JNull                         (* a nil slice is written as null *)
  | _ => JArr (map (enc_struct sch) l)
  end.

(* omitempty is only modelled on kinds whose zero value is unambiguous in JSON *)
Definition omit_ok_s (k : skind) : bool :=
  match k with KInt | KDec => false | _ => true end.
Fixpoint names_nodup (l : list string) : bool :=
  match l with
  | [] => true
  | x :: r => negb (existsb (String.eqb x) r) && names_nodup r
  end.
Definition sfields_ok (fs : list sfield) : bool :=
  names_nodup (map (fun f => fst (fst f)) fs)
  && forallb (fun f => negb (snd f) || omit_ok_s (snd (fst f))) fs.
Definition field_ok (f : field) : bool :=
  match f_kind f with
  | KS s => negb (f_omit f) || omit_ok_s s
  | KObj fs => negb (f_omit f) && sfields_ok fs
  end.
Definition schema_ok (sch : schema) : bool :=
  names_nodup (map f_name sch) && forallb field_ok sch.
