(* x/precisebank/genesis.go and types/genesis.go: ExportGenesis iterates the
   fractional-balance store (only non-zero entries are stored) and reads the
   remainder; InitGenesis validates and writes them back. *)
From Kava Require Import Base.Prelude Model.Precisebank.

Record genesis := mkGen { g_balances : list (nat * Z); g_remainder : Z }.

Definition export_genesis (e : env) (s : state) : genesis :=
  mkGen (filter (fun p => negb (snd p =? 0)) (map (fun a => (a, frac s a)) (seq 0 (nacc e)))) (rem s).

Fixpoint nodup_keys (seen : list nat) (l : list (nat * Z)) : bool :=
  match l with
  | [] => true
  | (a, _) :: r => negb (existsb (Nat.eqb a) seen) && nodup_keys (a :: seen) r
  end.

(* types.GenesisState.Validate: every balance in (0, 10^12), no duplicate address,
   remainder in [0, 10^12), (sum + remainder) mod 10^12 = 0 *)
Definition validate_genesis (g : genesis) : bool :=
  forallb (fun p => (0 <? snd p) && (snd p <? CF)) (g_balances g)
  && nodup_keys [] (g_balances g)
  && (0 <=? g_remainder g) && (g_remainder g <? CF)
  && ((zsum (map snd (g_balances g)) + g_remainder g) mod CF =? 0).

(* InitGenesis on top of a bank state (the bank is imported by x/bank's own genesis):
   panics when validation fails or when the reserve does not back the total *)
Definition init_genesis (e : env) (bank : state) (g : genesis) : outcome state unit :=
  if negb (validate_genesis g) then Panic else
  if negb (zsum (map snd (g_balances g)) + g_remainder g =? bal bank (reserve e) dU * CF) then Panic else
  let fr := fold_left (fun f p => upd f (fst p) (snd p)) (g_balances g) (fun _ => 0) in
  Ok (mkState (bal bank) (sup bank) fr (g_remainder g)) tt.
