(* Model of x/evmutil/keeper: conversion_evm_native.go, conversion_evm_native_bep3.go,
   conversion_cosmos_native.go, erc20.go (GetOrDeployCosmosCoinERC20Contract,
   MintERC20, BurnERC20), evm.go (monitorApprovalEvent), params.go (lookups in the
   parameter lists), types/conversion_pair.go (the validators of the parameter-change
   path), msg_server.go + types/msg.go (ValidateBasic), over an abstract x/bank and the
   abstract ERC20 ledgers of Model/Erc20.v.  Definitions only.

   Accounts are numbered; an account's sdk address and its EVM address are the
   same 20 bytes (as for types.ModuleEVMAddress), so one index names both; one
   index is the zero address.  Contracts are numbered in order of deployment:
   0 .. npair-1 is the table of EVM-native pair contracts governance chooses from,
   the module-deployed wrappers of cosmos coins get next, next+1, ...; a number
   >= next is an address without code. *)
From Kava Require Import Base.Prelude Model.Erc20.

Definition K10 : Z := 10000000000.     (* bep3ConversionFactor = 10^10 *)

Record env := {
  nacc : nat;                  (* accounts observed by the harness: 0 .. nacc-1 *)
  ndenom : nat;                (* denoms observed by the harness: 0 .. ndenom-1 *)
  macc : nat;                  (* the evmutil module account / types.ModuleEVMAddress *)
  zacc : nat;                  (* the zero address 0x000..0 *)
  blocked : nat -> bool;       (* bank BlockedAddr *)
  npair : nat;                 (* table of pair contracts: 0 .. npair-1 *)
  pair_denom : nat -> nat;     (* the sdk denom governance pairs table contract c with *)
  pkind : nat -> ckind;        (* bytecode of table contract c *)
  is_bep3 : nat -> bool        (* isBep3Asset(denom) *)
}.

(* wrappers are deployed by the module from the compiled ERC20KavaWrappedCosmosCoin *)
Definition kind (e : env) (c : nat) : ckind := if Nat.ltb c (npair e) then pkind e c else Oz.

Record state := mkState {
  bal : nat -> nat -> Z;       (* x/bank balance: account, denom *)
  sup : nat -> Z;              (* x/bank supply per denom *)
  erc : nat -> ledger;         (* EVM state of each ERC20 contract *)
  reg : nat -> option nat;     (* store DeployedCosmosCoinContractKeyPrefix: cosmos denom -> contract *)
  next : nat;                  (* number of deployed contracts = id of the next one *)
  pairs : list (nat * nat);    (* params.EnabledConversionPairs: (contract, denom), in order *)
  allowed : nat -> bool        (* params.AllowedCosmosDenoms *)
}.

Definition set_bal (s : state) (a d : nat) (v : Z) : state :=
  mkState (upd2 (bal s) a d v) (sup s) (erc s) (reg s) (next s) (pairs s) (allowed s).
Definition set_sup (s : state) (d : nat) (v : Z) : state :=
  mkState (bal s) (upd (sup s) d v) (erc s) (reg s) (next s) (pairs s) (allowed s).
Definition set_erc (s : state) (c : nat) (l : ledger) : state :=
  mkState (bal s) (sup s) (upd (erc s) c l) (reg s) (next s) (pairs s) (allowed s).

(** * x/bank (modelled, not verified) — single-coin forms of the calls the keeper makes.
    sdk.NewCoins drops a zero coin, so every call with amount 0 is a call with
    empty coins and changes nothing. *)

(* SendCoins / SendCoinsFromAccountToModule *)
Definition bank_send (s : state) (f t d : nat) (x : Z) : option state :=
  if x =? 0 then Some s else
  if x <=? bal s f d then
    let s1 := set_bal s f d (bal s f d - x) in
    Some (set_bal s1 t d (bal s1 t d + x))
  else None.

(* SendCoinsFromModuleToAccount: the blocked-address check comes first *)
Definition send_mod_to_acc (e : env) (s : state) (t d : nat) (x : Z) : option state :=
  if blocked e t then None else bank_send s (macc e) t d x.

(* MintCoins to the module account *)
Definition bank_mint (e : env) (s : state) (d : nat) (x : Z) : state :=
  let m := macc e in
  set_sup (set_bal s m d (bal s m d + x)) d (sup s d + x).

(* BurnCoins from the module account *)
Definition bank_burn (e : env) (s : state) (d : nat) (x : Z) : option state :=
  let m := macc e in
  if x =? 0 then Some s else
  if x <=? bal s m d then Some (set_sup (set_bal s m d (bal s m d - x)) d (sup s d - x))
  else None.

(** * ERC20 calls, by the bytecode of the contract *)

Definition tok_transfer (e : env) (c : nat) (l : ledger) (f t : nat) (x : Z) : option ledger :=
  match kind e c with
  | Oz => erc_transfer (zacc e) l f t x
  | Refund => rf_transfer l f t x
  end.

(* does a successful transfer() of this contract log Approval(address,address,uint256)? *)
Definition emits_approval (e : env) (c : nat) : bool :=
  match kind e c with Oz => false | Refund => true end.

(** * EVM-native pairs: conversion_evm_native.go, conversion_evm_native_bep3.go *)

Definition kf (e : env) (d : nat) : Z := if is_bep3 e d then K10 else 1.

(* params.go GetEnabledConversionPairFromDenom: first enabled pair with that denom *)
Definition pair_of_denom (s : state) (d : nat) : option nat :=
  match find (fun p => Nat.eqb (snd p) d) (pairs s) with Some p => Some (fst p) | None => None end.

(* params.go GetEnabledConversionPairFromERC20Address: first enabled pair with that address *)
Definition pair_of_ctr (s : state) (c : nat) : option nat :=
  match find (fun p => Nat.eqb (fst p) c) (pairs s) with Some p => Some (snd p) | None => None end.

Definition enabled (s : state) (c : nat) : bool :=
  match pair_of_ctr s c with Some _ => true | None => false end.

(* ConvertCoinToERC20: BurnConversionPairCoin, then UnlockERC20Tokens with its
   balance-delta check on the receiver and the Approval-event check. *)
Definition conv_coin_to_erc20 (e : env) (s : state) (i r d : nat) (x : Z) : outcome state unit :=
  match pair_of_denom s d with
  | None => Err
  | Some c =>
    match bank_send s i (macc e) d x with
    | None => Err
    | Some s1 =>
      match bank_burn e s1 d x with
      | None => Err
      | Some s2 =>
        let unlock := if is_bep3 e d then x * K10 else x in
        (* balanceOf of an address without code returns nothing: the query fails *)
        if Nat.leb (next s2) c then Err else
        let l := erc s2 c in
        let start := ebal l r in
        match tok_transfer e c l (macc e) r unlock with
        | None => Err
        | Some l1 =>
          if negb (start + unlock =? ebal l1 r) then Err else
          if emits_approval e c then Err else
          Ok (set_erc s2 c l1) tt
        end
      end
    end
  end.

(* ConvertERC20ToCoin: bep3ERC20AmountToCoinMintAndERC20LockAmount, LockERC20Tokens
   with its balance-delta check on the initiator and the Approval-event check,
   MintConversionPairCoin. *)
Definition conv_erc20_to_coin (e : env) (s : state) (i r c : nat) (x : Z) : outcome state unit :=
  match pair_of_ctr s c with
  | None => Err
  | Some d =>
    let mint := if is_bep3 e d then x / K10 else x in
    let lock := if is_bep3 e d then (x / K10) * K10 else x in
    if is_bep3 e d && (mint =? 0) then Err else
    if Nat.leb (next s) c then Err else
    let l := erc s c in
    let start := ebal l i in
    match tok_transfer e c l i (macc e) lock with
    | None => Err
    | Some l1 =>
      if negb (start - lock =? ebal l1 i) then Err else
      if emits_approval e c then Err else
      let s1 := set_erc s c l1 in
      let s2 := bank_mint e s1 d mint in
      match send_mod_to_acc e s2 r d mint with
      | None => Err
      | Some s3 => Ok s3 tt
      end
    end
  end.

(** * Cosmos-native coins: conversion_cosmos_native.go, erc20.go *)

(* DeployKavaWrappedCosmosCoinERC20Contract + SetDeployedCosmosCoinContract *)
Definition deploy (s : state) (d : nat) : state :=
  mkState (bal s) (sup s) (upd (erc s) (next s) empty_ledger)
          (upd (reg s) d (Some (next s))) (S (next s)) (pairs s) (allowed s).

(* ConvertCosmosCoinToERC20 *)
Definition conv_cosmos_to_erc20 (e : env) (s : state) (i r d : nat) (x : Z) : outcome state unit :=
  if negb (allowed s d) then Err else
  match bank_send s i (macc e) d x with
  | None => Err
  | Some s1 =>
    let s2 := match reg s1 d with Some _ => s1 | None => deploy s1 d end in
    let c := match reg s1 d with Some c => c | None => next s1 end in
    match erc_mint (zacc e) (erc s2 c) r x with
    | None => Err
    | Some l1 => Ok (set_erc s2 c l1) tt
    end
  end.

(* ConvertCosmosCoinFromERC20 (no allow-list check on the way back) *)
Definition conv_cosmos_from_erc20 (e : env) (s : state) (i r d : nat) (x : Z) : outcome state unit :=
  match reg s d with
  | None => Err
  | Some c =>
    let l := erc s c in
    if ebal l i <? x then Err else
    match erc_burn (zacc e) l i x with
    | None => Err
    | Some l1 =>
      match send_mod_to_acc e (set_erc s c l1) r d x with
      | None => Err
      | Some s2 => Ok s2 tt
      end
    end
  end.

(** * Parameter changes: the values a proposal carries and the validators of
      types/conversion_pair.go (ParamSetPairs: validateConversionPairs,
      validateAllowedCosmosCoinERC20Tokens) *)

Inductive paddr :=
| ACtr (c : nat)        (* the 20-byte address of contract c (or of no code, c >= next) *)
| AZero                 (* 20 zero bytes *)
| ABadLen.              (* a byte string whose length is not 20 *)

Record praw := mkPraw {
  p_addr : paddr;
  p_denom : option nat   (* None: a string sdk.ValidateDenom refuses *)
}.

Record traw := mkTraw {
  t_denom : option nat;  (* None: a string sdk.ValidateDenom refuses *)
  t_name_ok : bool;      (* name not empty *)
  t_sym : option nat;    (* None: empty symbol; Some k: symbol number k *)
  t_dec_ok : bool        (* decimals <= 255 *)
}.

(* ConversionPair.Validate *)
Definition decode_pair (p : praw) : option (nat * nat) :=
  match p_addr p, p_denom p with
  | ACtr c, Some d => Some (c, d)
  | _, _ => None
  end.

Fixpoint decode_pairs (ps : list praw) : option (list (nat * nat)) :=
  match ps with
  | [] => Some []
  | p :: r =>
      match decode_pair p, decode_pairs r with
      | Some q, Some l => Some (q :: l)
      | _, _ => None
      end
  end.

Fixpoint nodupb (l : list nat) : bool :=
  match l with
  | [] => true
  | x :: r => negb (existsb (Nat.eqb x) r) && nodupb r
  end.

(* ConversionPairs.Validate: every pair valid, no address twice, no denom twice *)
Definition pairs_nodupb (l : list (nat * nat)) : bool :=
  nodupb (map fst l) && nodupb (map snd l).

Definition valid_pairs (ps : list praw) : option (list (nat * nat)) :=
  match decode_pairs ps with
  | Some l => if pairs_nodupb l then Some l else None
  | None => None
  end.

(* AllowedCosmosCoinERC20Token.Validate *)
Definition decode_tok (t : traw) : option (nat * nat) :=
  match t_denom t, t_sym t with
  | Some d, Some k => if t_name_ok t && t_dec_ok t then Some (d, k) else None
  | _, _ => None
  end.

Fixpoint decode_toks (ts : list traw) : option (list (nat * nat)) :=
  match ts with
  | [] => Some []
  | t :: r =>
      match decode_tok t, decode_toks r with
      | Some q, Some l => Some (q :: l)
      | _, _ => None
      end
  end.

(* AllowedCosmosCoinERC20Tokens.Validate: every token valid, no denom twice, no symbol twice *)
Definition valid_toks (ts : list traw) : option (list nat) :=
  match decode_toks ts with
  | Some l => if pairs_nodupb l then Some (map fst l) else None
  | None => None
  end.

Definition memb (l : list nat) (d : nat) : bool := existsb (Nat.eqb d) l.

(** * Operations of a history *)

Inductive op :=
(* the four messages; [direct] = the keeper method called directly (amount 0
   allowed) instead of the message (ValidateBasic + msg server: amount > 0) *)
| ConvCoinToERC20 (direct : bool) (i r d : nat) (x : Z)
| ConvERC20ToCoin (direct : bool) (i r c : nat) (x : Z)
| ConvCosmosToERC20 (direct : bool) (i r d : nat) (x : Z)
| ConvCosmosFromERC20 (direct : bool) (i r d : nat) (x : Z)
(* the environment: ERC20 calls by holders / owners / spenders, bank MsgSend,
   a governance parameter-change proposal *)
| ErcTransfer (c f t : nat) (x : Z)
| ErcMint (c t : nat) (x : Z)
| BankSend (f t d : nat) (x : Z)
| SetParams (ps : list praw) (ts : list traw)
| ErcApprove (c o sp : nat) (x : Z)
| ErcTransferFrom (c sp f t : nat) (x : Z).

(* amounts of the conversion messages are sdkmath.Int: below 2^256; ValidateBasic
   of the four messages refuses zero and negative amounts; direct keeper calls
   are modelled for non-negative amounts only (a negative sdk.Coin makes
   sdk.NewCoins panic and cannot come from a transaction) *)
Definition amount_ok (direct : bool) (x : Z) : bool :=
  (if direct then 0 <=? x else 0 <? x) && (x <? U256).

Definition step (e : env) (s : state) (o : op) : outcome state unit :=
  match o with
  | ConvCoinToERC20 dr i r d x =>
      if amount_ok dr x then conv_coin_to_erc20 e s i r d x else Err
  | ConvERC20ToCoin dr i r c x =>
      if amount_ok dr x then conv_erc20_to_coin e s i r c x else Err
  | ConvCosmosToERC20 dr i r d x =>
      if amount_ok dr x then conv_cosmos_to_erc20 e s i r d x else Err
  | ConvCosmosFromERC20 dr i r d x =>
      if amount_ok dr x then conv_cosmos_from_erc20 e s i r d x else Err
  | ErcTransfer c f t x =>
      (* a call to an address without code succeeds and does nothing *)
      if Nat.leb (next s) c then Ok s tt else
      match tok_transfer e c (erc s c) f t x with
      | Some l => Ok (set_erc s c l) tt
      | None => Err
      end
  | ErcMint c t x =>
      if Nat.leb (next s) c then Ok s tt else
      (* the wrappers of cosmos coins are owned by the module: onlyOwner reverts *)
      if negb (Nat.ltb c (npair e)) then Err else
      match kind e c with
      | Oz => match erc_mint (zacc e) (erc s c) t x with
              | Some l => Ok (set_erc s c l) tt
              | None => Err
              end
      | Refund => Ok (set_erc s c (rf_mint (erc s c) t x)) tt
      end
  | BankSend f t d x =>
      (* bank MsgSend: ValidateBasic wants positive coins, the msg server refuses blocked recipients *)
      if x <=? 0 then Err else
      if blocked e t then Err else
      match bank_send s f t d x with Some s' => Ok s' tt | None => Err end
  | SetParams ps ts =>
      (* x/params proposal handler: Subspace.Update of both keys, each validated *)
      match valid_pairs ps, valid_toks ts with
      | Some l, Some al => Ok (mkState (bal s) (sup s) (erc s) (reg s) (next s) l (memb al)) tt
      | _, _ => Err
      end
  | ErcApprove c o sp x =>
      if Nat.leb (next s) c then Ok s tt else
      match kind e c with
      | Oz => match erc_approve (zacc e) (erc s c) o sp x with
              | Some l => Ok (set_erc s c l) tt
              | None => Err
              end
      | Refund => Err      (* no such entry point: the dispatcher reverts *)
      end
  | ErcTransferFrom c sp f t x =>
      if Nat.leb (next s) c then Ok s tt else
      match (match kind e c with
             | Oz => erc_transfer_from (zacc e) (erc s c) sp f t x
             | Refund => rf_transfer_from (erc s c) sp f t x
             end) with
      | Some l => Ok (set_erc s c l) tt
      | None => Err
      end
  end.

(* who authorises the operation (signature / msg.sender) *)
Definition signer (o : op) : option nat :=
  match o with
  | ConvCoinToERC20 _ i _ _ _ | ConvERC20ToCoin _ i _ _ _
  | ConvCosmosToERC20 _ i _ _ _ | ConvCosmosFromERC20 _ i _ _ _ => Some i
  | ErcTransfer _ f _ _ => Some f
  | BankSend f _ _ _ => Some f
  | ErcApprove _ o _ _ => Some o
  | ErcTransferFrom _ sp _ _ _ => Some sp
  | ErcMint _ _ _ | SetParams _ _ => None
  end.

(* a failed operation leaves the state it started from *)
Definition step' (e : env) (s : state) (o : op) : state :=
  match step e s o with Ok s' _ => s' | _ => s end.

Definition run (e : env) (s : state) (ops : list op) : state :=
  fold_left (step' e) ops s.

(** * Transactions: several messages executed on one cached context, which
      baseapp commits only if every message succeeded *)

Fixpoint tx_step (e : env) (s : state) (tx : list op) : outcome state unit :=
  match tx with
  | [] => Ok s tt
  | o :: r =>
      match step e s o with
      | Ok s1 _ => tx_step e s1 r
      | Err => Err
      | Panic => Panic
      end
  end.

Definition tx_step' (e : env) (s : state) (tx : list op) : state :=
  match tx_step e s tx with Ok s' _ => s' | _ => s end.

Definition run_txs (e : env) (s : state) (txs : list (list op)) : state :=
  fold_left (tx_step' e) txs s.

(** * Correspondence-check support: observations and comparison *)

Inductive rclass := ROk | RErr | RPanic.
Definition rclass_eqb (a b : rclass) : bool :=
  match a, b with ROk, ROk | RErr, RErr | RPanic, RPanic => true | _, _ => false end.
Definition class_of {S O} (r : outcome S O) : rclass :=
  match r with Ok _ _ => ROk | Err => RErr | Panic => RPanic end.

(* what the harness records after each transaction: the result class and the
   changes of the implementation's observable state relative to the previous
   observation: bank balances and supplies, ERC20 balanceOf and allowances of
   every observed account and totalSupply for every deployed contract, the raw
   registry, the number of deployed contracts, the parameters read back from the
   keeper (when they changed). *)
Record obs := mkObs {
  o_class : rclass;
  o_dbal : list (nat * nat * Z);          (* (account, denom, new balance) *)
  o_dsup : list (nat * Z);                (* (denom, new supply) *)
  o_derc : list (nat * nat * Z);          (* (contract, account, new balanceOf) *)
  o_dtot : list (nat * Z);                (* (contract, new totalSupply) *)
  o_dall : list (nat * (nat * nat) * Z);  (* (contract, (owner, spender), new allowance) *)
  o_dreg : list (nat * nat);              (* (denom, contract) new registry entries *)
  o_next : nat;
  o_params : option (list (nat * nat) * list nat)  (* enabled pairs, allowed denoms *)
}.

Definition reg_code (s : state) (d : nat) : Z :=
  match reg s d with Some c => Z.of_nat c | None => -1 end.

Definition project (e : env) (s : state) : list (list Z) :=
  map (fun a => map (fun d => bal s a d) (seq 0 (ndenom e))) (seq 0 (nacc e))
  ++ [map (sup s) (seq 0 (ndenom e)); map (reg_code s) (seq 0 (ndenom e)); [Z.of_nat (next s)];
      flat_map (fun p => [Z.of_nat (fst p); Z.of_nat (snd p)]) (pairs s);
      map (fun d => if allowed s d then 1 else 0) (seq 0 (ndenom e))]
  ++ map (fun c => etot (erc s c) :: map (ebal (erc s c)) (seq 0 (nacc e))
                   ++ flat_map (fun o => map (eallow (erc s c) o) (seq 0 (nacc e))) (seq 0 (nacc e)))
         (seq 0 (next s)).

Fixpoint zl_eqb (l1 l2 : list Z) : bool :=
  match l1, l2 with
  | [], [] => true
  | x :: r1, y :: r2 => (x =? y) && zl_eqb r1 r2
  | _, _ => false
  end.
Fixpoint zll_eqb (l1 l2 : list (list Z)) : bool :=
  match l1, l2 with
  | [], [] => true
  | x :: r1, y :: r2 => zl_eqb x y && zll_eqb r1 r2
  | _, _ => false
  end.

Definition apply_obs (sh : state) (o : obs) : state :=
  let b := fold_left (fun f p => upd2 f (fst (fst p)) (snd (fst p)) (snd p)) (o_dbal o) (bal sh) in
  let su := fold_left (fun f p => upd f (fst p) (snd p)) (o_dsup o) (sup sh) in
  let er1 := fold_left (fun f p =>
                 let c := fst (fst p) in
                 upd f c (mkLedger (upd (ebal (f c)) (snd (fst p)) (snd p)) (etot (f c)) (eallow (f c))))
               (o_derc o) (erc sh) in
  let er2 := fold_left (fun f p => upd f (fst p) (mkLedger (ebal (f (fst p))) (snd p) (eallow (f (fst p)))))
               (o_dtot o) er1 in
  let er3 := fold_left (fun f p =>
                 let c := fst (fst p) in
                 upd f c (mkLedger (ebal (f c)) (etot (f c))
                                   (upd2 (eallow (f c)) (fst (snd (fst p))) (snd (snd (fst p))) (snd p))))
               (o_dall o) er2 in
  let rg := fold_left (fun f p => upd f (fst p) (Some (snd p))) (o_dreg o) (reg sh) in
  match o_params o with
  | Some (prs, al) => mkState b su er3 rg (o_next o) prs (memb al)
  | None => mkState b su er3 rg (o_next o) (pairs sh) (allowed sh)
  end.

(* boolean form of the module invariant on the observed finite domain
   (evaluated on every model state during the correspondence run) *)
Definition kind_eqb (a b : ckind) : bool :=
  match a, b with Oz, Oz | Refund, Refund => true | _, _ => false end.

Definition inv_b (e : env) (s : state) : bool :=
  let m := macc e in
  Nat.leb (npair e) (next s)
  && forallb (fun d =>
       match reg s d with
       | Some c => Nat.leb (npair e) c && Nat.ltb c (next s) && (etot (erc s c) =? bal s m d)
       | None => bal s m d =? 0
       end) (seq 0 (ndenom e))
  && forallb (fun d => forallb (fun d' =>
        Nat.eqb d d' || match reg s d, reg s d' with Some c, Some c' => negb (Nat.eqb c c') | _, _ => true end)
        (seq 0 (ndenom e))) (seq 0 (ndenom e))
  && forallb (fun c =>
        match kind e c with
        | Oz => (sup s (pair_denom e c) * kf e (pair_denom e c) <=? ebal (erc s c) m)
                && forallb (fun a => eallow (erc s c) m a =? 0) (seq 0 (nacc e))
        | Refund => sup s (pair_denom e c) =? 0
        end) (seq 0 (npair e))
  && pairs_nodupb (pairs s)
  && forallb (fun p => Nat.ltb (fst p) (npair e) && Nat.eqb (snd p) (pair_denom e (fst p))) (pairs s).

(* first transaction index (from 0) at which model and implementation differ,
   or at which the model invariant evaluates to false *)
Fixpoint first_mismatch (e : env) (s sh : state) (h : list (list op * obs)) (i : nat) : option nat :=
  match h with
  | [] => None
  | (tx, ob) :: r =>
      let res := tx_step e s tx in
      let s' := match res with Ok s1 _ => s1 | _ => s end in
      let sh' := apply_obs sh ob in
      if rclass_eqb (class_of res) (o_class ob)
         && zll_eqb (project e s') (project e sh')
         && inv_b e s'
      then first_mismatch e s' sh' r (S i)
      else Some i
  end.

(* list-based construction of environments and states from harness data *)
Definition nthZ (l : list Z) (i : nat) : Z := nth i l 0.
Definition nthN (l : list nat) (i : nat) : nat := nth i l O.
Definition nthB (l : list bool) (i : nat) : bool := nth i l false.

(* [ev]: the table contracts with the adversarial bytecode *)
Definition mk_envx (na nd m z : nat) (blk : list bool) (pd : list nat) (ev : list bool) (bep : list bool) : env :=
  {| nacc := na; ndenom := nd; macc := m; zacc := z; blocked := nthB blk;
     npair := length pd; pair_denom := nthN pd;
     pkind := fun c => if nthB ev c then Refund else Oz; is_bep3 := nthB bep |}.

(* no zero address among the observed accounts (index na), all table contracts OpenZeppelin *)
Definition mk_env (na nd m : nat) (blk : list bool) (pd : list nat) (bep : list bool) : env :=
  mk_envx na nd m na blk pd [] bep.

(* contracts: one (totalSupply, balances, allowance rows by owner) entry per deployed contract;
   registry: (denom, contract) entries; enabled pairs; allowed denoms *)
Definition mk_statex (bals : list (list Z)) (sups : list Z) (ctrs : list (Z * list Z * list (list Z)))
                     (rg : list (nat * nat)) (prs : list (nat * nat)) (al : list nat) : state :=
  mkState (fun a d => nthZ (nth a bals []) d) (nthZ sups)
          (fun c => match nth_error ctrs c with
                    | Some (t, b, aw) => mkLedger (nthZ b) t (fun o sp => nthZ (nth o aw []) sp)
                    | None => empty_ledger end)
          (fold_left (fun f p => upd f (fst p) (Some (snd p))) rg (fun _ => None))
          (length ctrs) prs (memb al).

Definition mk_state (bals : list (list Z)) (sups : list Z) (ctrs : list (Z * list Z))
                    (rg : list (nat * nat)) (prs : list (nat * nat)) (al : list nat) : state :=
  mk_statex bals sups (map (fun p => (fst p, snd p, [])) ctrs) rg prs al.

Record history := mkHist {
  h_env : env;
  h_init : state;
  h_steps : list (list op * obs)
}.

Definition check_history (h : history) : option nat :=
  if inv_b (h_env h) (h_init h)
  then first_mismatch (h_env h) (h_init h) (h_init h) (h_steps h) 0
  else Some 0%nat.

Fixpoint mismatches_from (i : nat) (hs : list history) : list (nat * nat) :=
  match hs with
  | [] => []
  | h :: r =>
      match check_history h with
      | None => mismatches_from (S i) r
      | Some k => (i, k) :: mismatches_from (S i) r
      end
  end.
Definition mismatches := mismatches_from 0.
