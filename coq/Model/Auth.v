(* C16 — privileged actions.  Model of the authorisation guards of Kava's
   privileged message handlers, over a small abstract state:

     x/pricefeed/keeper/msg_server.go PostPrice -> params.go GetOracle, keeper.go SetPrice
     x/issuance/keeper/issuance.go   IssueTokens, RedeemTokens, BlockAddress, UnblockAddress, SetPauseStatus
     x/bep3/keeper/swap.go           CreateAtomicSwap (the deputy decides the direction)
     x/committee/keeper/proposal.go  SubmitProposal, AddVote
     x/community/keeper/msg_server.go UpdateParams
     x/cdp/keeper/draw.go            AddPrincipal, RepayPrincipal;  deposit.go WithdrawCollateral
     x/hard, x/savings, x/swap, x/earn keeper/withdraw.go  Withdraw

   and of the governance actions that change who the designated principals are
   (section "Changes of the designated principals": oracle lists, asset owners,
   deputies through x/params Subspace.Update; committee member lists and
   deletions through x/committee/proposal_handler.go).

   Addresses, denoms, market / committee / pool ids are small indexes (nat).
   Checks of a handler that do not concern authorisation and are expensive to
   model (collateral ratios, supply limits, swap id freshness, LTV, vault share
   conversion) enter the operation as a boolean / integer oracle recorded from
   the implementation ([rest], [ltv_ok], [wshares] ...).
   Definitions only; proofs are in Proofs/Auth.v. *)
From Coq Require Import String.
From Kava Require Import Base.Prelude.
Open Scope Z_scope.

(** * The table of all msgServer handlers of x/*/keeper/msg_server.go *)

Inductive pkind :=
| POracle        (* an oracle of the market named in the message *)
| PAssetOwner    (* the owner of the issuance asset *)
| PDeputy        (* the bep3 deputy of the asset (incoming swaps) *)
| PMember        (* a member of the committee *)
| PGovAuthority  (* the x/gov module account *)
| PCdpOwner      (* the owner of the CDP: the record is looked up by the signer *)
| PRecordOwner.  (* the holder of the deposit / share record: looked up by the signer *)

Inductive hclass := Priv (p : pkind) | Unpriv.

Definition hrow : Type := (string * string * hclass)%type.

(* sorted by module, then method name: the order in which the enumerator lists them *)
Definition handlers : list hrow := [
  ("auction",   "PlaceBid",                   Unpriv);
  ("bep3",      "ClaimAtomicSwap",            Unpriv);
  ("bep3",      "CreateAtomicSwap",           Priv PDeputy);
  ("bep3",      "RefundAtomicSwap",           Unpriv);
  ("cdp",       "CreateCDP",                  Unpriv);
  ("cdp",       "Deposit",                    Unpriv);
  ("cdp",       "DrawDebt",                   Priv PCdpOwner);
  ("cdp",       "Liquidate",                  Unpriv);
  ("cdp",       "RepayDebt",                  Priv PCdpOwner);
  ("cdp",       "Withdraw",                   Priv PRecordOwner);
  ("committee", "SubmitProposal",             Priv PMember);
  ("committee", "Vote",                       Priv PMember);
  ("community", "FundCommunityPool",          Unpriv);
  ("community", "UpdateParams",               Priv PGovAuthority);
  ("earn",      "Deposit",                    Unpriv);
  ("earn",      "Withdraw",                   Priv PRecordOwner);
  ("evmutil",   "ConvertCoinToERC20",         Unpriv);
  ("evmutil",   "ConvertCosmosCoinFromERC20", Unpriv);
  ("evmutil",   "ConvertCosmosCoinToERC20",   Unpriv);
  ("evmutil",   "ConvertERC20ToCoin",         Unpriv);
  ("hard",      "Borrow",                     Unpriv);
  ("hard",      "Deposit",                    Unpriv);
  ("hard",      "Liquidate",                  Unpriv);
  ("hard",      "Repay",                      Unpriv);
  ("hard",      "Withdraw",                   Priv PRecordOwner);
  ("incentive", "ClaimDelegatorReward",       Unpriv);
  ("incentive", "ClaimEarnReward",            Unpriv);
  ("incentive", "ClaimHardReward",            Unpriv);
  ("incentive", "ClaimSavingsReward",         Unpriv);
  ("incentive", "ClaimSwapReward",            Unpriv);
  ("incentive", "ClaimUSDXMintingReward",     Unpriv);
  ("issuance",  "BlockAddress",               Priv PAssetOwner);
  ("issuance",  "IssueTokens",                Priv PAssetOwner);
  ("issuance",  "RedeemTokens",               Priv PAssetOwner);
  ("issuance",  "SetPauseStatus",             Priv PAssetOwner);
  ("issuance",  "UnblockAddress",             Priv PAssetOwner);
  ("liquid",    "BurnDerivative",             Unpriv);
  ("liquid",    "MintDerivative",             Unpriv);
  ("pricefeed", "PostPrice",                  Priv POracle);
  ("router",    "DelegateMintDeposit",        Unpriv);
  ("router",    "MintDeposit",                Unpriv);
  ("router",    "WithdrawBurn",               Unpriv);
  ("router",    "WithdrawBurnUndelegate",     Unpriv);
  ("savings",   "Deposit",                    Unpriv);
  ("savings",   "Withdraw",                   Priv PRecordOwner);
  ("swap",      "Deposit",                    Unpriv);
  ("swap",      "SwapExactForTokens",         Unpriv);
  ("swap",      "SwapForExactTokens",         Unpriv);
  ("swap",      "Withdraw",                   Priv PRecordOwner)
]%string.

Definition pkind_eqb (a b : pkind) : bool :=
  match a, b with
  | POracle, POracle | PAssetOwner, PAssetOwner | PDeputy, PDeputy | PMember, PMember
  | PGovAuthority, PGovAuthority | PCdpOwner, PCdpOwner | PRecordOwner, PRecordOwner => true
  | _, _ => false
  end.
Definition hclass_eqb (a b : hclass) : bool :=
  match a, b with
  | Unpriv, Unpriv => true
  | Priv p, Priv q => pkind_eqb p q
  | _, _ => false
  end.
Definition hrow_eqb (a b : hrow) : bool :=
  let '(m, h, c) := a in let '(m', h', c') := b in
  String.eqb m m' && String.eqb h h' && hclass_eqb c c'.

Fixpoint list_eqb {A} (eqb : A -> A -> bool) (l1 l2 : list A) : bool :=
  match l1, l2 with
  | [], [] => true
  | x :: r1, y :: r2 => eqb x y && list_eqb eqb r1 r2
  | _, _ => false
  end.

(* the table regenerated from the source on every run must equal [handlers] *)
Definition table_matches (t : list hrow) : bool := list_eqb hrow_eqb t handlers.

(** * State *)

Definition coins := list (nat * Z).

(* sdk.Coins.IsValid: strictly increasing denoms, all amounts positive *)
Fixpoint coins_valid_from (lo : option nat) (c : coins) : bool :=
  match c with
  | [] => true
  | (d, x) :: r =>
      (0 <? x) && (match lo with None => true | Some p => Nat.ltb p d end)
      && coins_valid_from (Some d) r
  end.
Definition coins_valid (c : coins) := coins_valid_from None c.

Record asset := mkAsset {
  as_denom : nat;
  as_owner : nat;
  as_paused : bool;
  as_blockable : bool;
  as_blocked : list nat;
  as_rl_active : bool;       (* RateLimit.Active *)
  as_rl_limit : Z            (* RateLimit.Limit *)
}.

Record b3asset := mkB3 {
  b3_denom : nat;
  b3_deputy : nat
}.

Record swaprec := mkSwap {
  sw_sender : nat;
  sw_recipient : nat;
  sw_denom : nat;
  sw_amount : Z;
  sw_incoming : bool
}.

Record committee := mkCom {
  cm_id : nat;
  cm_members : list nat;
  cm_member_type : bool      (* true: MemberCommittee, false: TokenCommittee *)
}.

Record cdp := mkCdp {
  cd_owner : nat;
  cd_type : nat;
  cd_coll : Z;
  cd_princ : Z
}.

Record env := mkEnv {
  nacc : nat;                (* actors are 0 .. nacc-1 *)
  nusers : nat;              (* actors below nusers are ordinary addresses, the others module accounts *)
  now : Z;                   (* block time (unix seconds) *)
  is_macc : nat -> bool;     (* module account *)
  gov : nat;                 (* community keeper authority = x/gov module account *)
  nden : nat;                (* deposit denoms are 0 .. nden-1 *)
  npool : nat;
  earn_macc : nat;           (* the earn module account: it holds the vaults' hard / savings deposits *)
  earn_strat : nat -> nat    (* vault denom -> 0: hard strategy, otherwise: savings strategy *)
}.

Record state := mkState {
  (* pricefeed *)
  markets : list (nat * list nat);          (* params: market id, oracles *)
  prices : nat -> nat -> option (Z * Z);    (* raw posted price by (market, oracle): price mantissa, expiry *)
  (* issuance *)
  assets : list asset;                      (* params *)
  iss_supply : nat -> Z;                    (* AssetSupply.CurrentSupply of rate limited assets *)
  iss_bal : nat -> nat -> Z;                (* bank balance (address, asset denom) *)
  (* bep3 *)
  b3assets : list b3asset;
  swaps : list swaprec;                     (* newest first *)
  (* committee *)
  committees : list committee;
  proposals : nat -> option (nat * Z);      (* proposal id -> committee id, deadline *)
  next_pid : nat;
  votes : nat -> nat -> option nat;         (* proposal id, voter -> vote type *)
  (* community *)
  cparams : Z * Z * Z;                      (* upgrade time, staking rewards per second, post-upgrade rewards per second *)
  (* cdp *)
  cdps : nat -> option cdp;                 (* by cdp id *)
  ncdp : nat;                               (* ids are below ncdp *)
  cdp_deps : nat -> nat -> Z;               (* cdp id, depositor *)
  (* deposits and shares, by address *)
  hard_dep : nat -> nat -> Z;               (* address, denom *)
  sav_dep : nat -> nat -> Z;
  swap_pools : nat -> Z * Z * Z;            (* pool -> reserves A, reserves B, total shares *)
  swap_shares : nat -> nat -> Z;            (* address, pool *)
  earn_shares : nat -> nat -> Z;            (* address, vault denom -> share mantissa *)
  (* auth *)
  accs : nat -> bool                        (* x/auth has an account for the address *)
}.

(* functional record update, one setter per component *)
Definition set_prices s v := mkState (markets s) v (assets s) (iss_supply s) (iss_bal s) (b3assets s) (swaps s) (committees s) (proposals s) (next_pid s) (votes s) (cparams s) (cdps s) (ncdp s) (cdp_deps s) (hard_dep s) (sav_dep s) (swap_pools s) (swap_shares s) (earn_shares s) (accs s).
Definition set_assets s v := mkState (markets s) (prices s) v (iss_supply s) (iss_bal s) (b3assets s) (swaps s) (committees s) (proposals s) (next_pid s) (votes s) (cparams s) (cdps s) (ncdp s) (cdp_deps s) (hard_dep s) (sav_dep s) (swap_pools s) (swap_shares s) (earn_shares s) (accs s).
Definition set_iss s sup b := mkState (markets s) (prices s) (assets s) sup b (b3assets s) (swaps s) (committees s) (proposals s) (next_pid s) (votes s) (cparams s) (cdps s) (ncdp s) (cdp_deps s) (hard_dep s) (sav_dep s) (swap_pools s) (swap_shares s) (earn_shares s) (accs s).
Definition set_swaps s v := mkState (markets s) (prices s) (assets s) (iss_supply s) (iss_bal s) (b3assets s) v (committees s) (proposals s) (next_pid s) (votes s) (cparams s) (cdps s) (ncdp s) (cdp_deps s) (hard_dep s) (sav_dep s) (swap_pools s) (swap_shares s) (earn_shares s) (accs s).
Definition set_props s p n := mkState (markets s) (prices s) (assets s) (iss_supply s) (iss_bal s) (b3assets s) (swaps s) (committees s) p n (votes s) (cparams s) (cdps s) (ncdp s) (cdp_deps s) (hard_dep s) (sav_dep s) (swap_pools s) (swap_shares s) (earn_shares s) (accs s).
Definition set_votes s v := mkState (markets s) (prices s) (assets s) (iss_supply s) (iss_bal s) (b3assets s) (swaps s) (committees s) (proposals s) (next_pid s) v (cparams s) (cdps s) (ncdp s) (cdp_deps s) (hard_dep s) (sav_dep s) (swap_pools s) (swap_shares s) (earn_shares s) (accs s).
Definition set_cparams s v := mkState (markets s) (prices s) (assets s) (iss_supply s) (iss_bal s) (b3assets s) (swaps s) (committees s) (proposals s) (next_pid s) (votes s) v (cdps s) (ncdp s) (cdp_deps s) (hard_dep s) (sav_dep s) (swap_pools s) (swap_shares s) (earn_shares s) (accs s).
Definition set_cdp s c d := mkState (markets s) (prices s) (assets s) (iss_supply s) (iss_bal s) (b3assets s) (swaps s) (committees s) (proposals s) (next_pid s) (votes s) (cparams s) c (ncdp s) d (hard_dep s) (sav_dep s) (swap_pools s) (swap_shares s) (earn_shares s) (accs s).
Definition set_hard s v := mkState (markets s) (prices s) (assets s) (iss_supply s) (iss_bal s) (b3assets s) (swaps s) (committees s) (proposals s) (next_pid s) (votes s) (cparams s) (cdps s) (ncdp s) (cdp_deps s) v (sav_dep s) (swap_pools s) (swap_shares s) (earn_shares s) (accs s).
Definition set_sav s v := mkState (markets s) (prices s) (assets s) (iss_supply s) (iss_bal s) (b3assets s) (swaps s) (committees s) (proposals s) (next_pid s) (votes s) (cparams s) (cdps s) (ncdp s) (cdp_deps s) (hard_dep s) v (swap_pools s) (swap_shares s) (earn_shares s) (accs s).
Definition set_swap s p sh := mkState (markets s) (prices s) (assets s) (iss_supply s) (iss_bal s) (b3assets s) (swaps s) (committees s) (proposals s) (next_pid s) (votes s) (cparams s) (cdps s) (ncdp s) (cdp_deps s) (hard_dep s) (sav_dep s) p sh (earn_shares s) (accs s).
Definition set_accs s v := mkState (markets s) (prices s) (assets s) (iss_supply s) (iss_bal s) (b3assets s) (swaps s) (committees s) (proposals s) (next_pid s) (votes s) (cparams s) (cdps s) (ncdp s) (cdp_deps s) (hard_dep s) (sav_dep s) (swap_pools s) (swap_shares s) (earn_shares s) v.
Definition set_earn s v := mkState (markets s) (prices s) (assets s) (iss_supply s) (iss_bal s) (b3assets s) (swaps s) (committees s) (proposals s) (next_pid s) (votes s) (cparams s) (cdps s) (ncdp s) (cdp_deps s) (hard_dep s) (sav_dep s) (swap_pools s) (swap_shares s) v (accs s).

Definition set_markets s v := mkState v (prices s) (assets s) (iss_supply s) (iss_bal s) (b3assets s) (swaps s) (committees s) (proposals s) (next_pid s) (votes s) (cparams s) (cdps s) (ncdp s) (cdp_deps s) (hard_dep s) (sav_dep s) (swap_pools s) (swap_shares s) (earn_shares s) (accs s).
Definition set_b3 s v := mkState (markets s) (prices s) (assets s) (iss_supply s) (iss_bal s) v (swaps s) (committees s) (proposals s) (next_pid s) (votes s) (cparams s) (cdps s) (ncdp s) (cdp_deps s) (hard_dep s) (sav_dep s) (swap_pools s) (swap_shares s) (earn_shares s) (accs s).
Definition set_coms s c p v := mkState (markets s) (prices s) (assets s) (iss_supply s) (iss_bal s) (b3assets s) (swaps s) c p (next_pid s) v (cparams s) (cdps s) (ncdp s) (cdp_deps s) (hard_dep s) (sav_dep s) (swap_pools s) (swap_shares s) (earn_shares s) (accs s).

Definition mem (a : nat) (l : list nat) : bool := existsb (Nat.eqb a) l.

(** * pricefeed *)

(* params.go GetOracles: the first market with that id *)
Definition oracles_of (s : state) (m : nat) : option (list nat) :=
  match find (fun p => Nat.eqb (fst p) m) (markets s) with
  | Some p => Some (snd p)
  | None => None
  end.

(* msg_server.go PostPrice: GetOracle, then keeper.SetPrice *)
Definition post_price (e : env) (s : state) (a m : nat) (price expiry : Z) : outcome state coins :=
  match oracles_of s m with
  | None => Err                                   (* ErrInvalidMarket *)
  | Some os =>
      if negb (mem a os) then Err                 (* ErrInvalidOracle *)
      else if expiry <=? now e then Err           (* ErrExpired: !expiry.After(blockTime) *)
      else Ok (set_prices s (upd2 (prices s) m a (Some (price, expiry)))) []
  end.

(** * issuance *)

Definition find_asset (s : state) (d : nat) : option asset :=
  find (fun x => Nat.eqb (as_denom x) d) (assets s).

(* params.go SetAsset: every entry with that denom is overwritten *)
Definition put_asset (s : state) (x : asset) : state :=
  set_assets s (map (fun y => if Nat.eqb (as_denom y) (as_denom x) then x else y) (assets s)).

Definition with_blocked (x : asset) (l : list nat) : asset :=
  mkAsset (as_denom x) (as_owner x) (as_paused x) (as_blockable x) l (as_rl_active x) (as_rl_limit x).
Definition with_paused (x : asset) (p : bool) : asset :=
  mkAsset (as_denom x) (as_owner x) p (as_blockable x) (as_blocked x) (as_rl_active x) (as_rl_limit x).

(* issuance.go IssueTokens *)
Definition issue (e : env) (s : state) (a d : nat) (amt : Z) (rcv : nat) : outcome state coins :=
  match find_asset s d with
  | None => Err
  | Some x =>
      if negb (Nat.eqb a (as_owner x)) then Err            (* ErrNotAuthorized *)
      else if as_paused x then Err
      else if as_blockable x && mem rcv (as_blocked x) then Err
      else if is_macc e rcv then Err                       (* ErrIssueToModuleAccount *)
      else if amt <=? 0 then Err                           (* rejected by ValidateBasic *)
      else if as_rl_active x && (as_rl_limit x <? iss_supply s d + amt) then Err
      else
        let sup := if as_rl_active x then upd (iss_supply s) d (iss_supply s d + amt) else iss_supply s in
        (* the bank creates the receiver's account when it does not exist *)
        Ok (set_accs (set_iss s sup (upd2 (iss_bal s) rcv d (iss_bal s rcv d + amt))) (upd (accs s) rcv true)) []
  end.

(* issuance.go RedeemTokens *)
Definition redeem (e : env) (s : state) (a d : nat) (amt : Z) : outcome state coins :=
  match find_asset s d with
  | None => Err
  | Some x =>
      if negb (Nat.eqb a (as_owner x)) then Err
      else if as_paused x then Err
      else if amt <=? 0 then Err                           (* rejected by ValidateBasic *)
      else if iss_bal s a d <? amt then Err                (* bank: insufficient funds *)
      else Ok (set_iss s (iss_supply s) (upd2 (iss_bal s) a d (iss_bal s a d - amt))) []
  end.

(* issuance.go BlockAddress.  Blocking the owner makes SetParams panic: the
   param validator refuses an asset whose owner is in its own block list. *)
Definition block (e : env) (s : state) (a d b : nat) : outcome state coins :=
  match find_asset s d with
  | None => Err
  | Some x =>
      if negb (as_blockable x) then Err
      else if negb (Nat.eqb a (as_owner x)) then Err
      else if mem b (as_blocked x) then Err                (* ErrAccountAlreadyBlocked *)
      else if negb (accs s b) then Err                     (* ErrAccountNotFound *)
      else if Nat.eqb b (as_owner x) then Panic
      else Ok (put_asset s (with_blocked x (as_blocked x ++ [b]))) []
  end.

(* issuance.go checkBlockedAddress / removeBlockedAddress: the first
   occurrence is swapped with the last element, then the list is cut *)
Fixpoint index_of (b : nat) (l : list nat) : nat :=
  match l with
  | [] => 0%nat
  | x :: r => if Nat.eqb x b then 0%nat else S (index_of b r)
  end.
Fixpoint set_nth (i : nat) (v : nat) (l : list nat) : list nat :=
  match l, i with
  | [], _ => []
  | _ :: r, O => v :: r
  | x :: r, S k => x :: set_nth k v r
  end.
Definition remove_blocked (b : nat) (l : list nat) : list nat :=
  let i := index_of b l in
  let lst := last l 0%nat in
  removelast (set_nth i lst l).

(* issuance.go UnblockAddress *)
Definition unblock (e : env) (s : state) (a d b : nat) : outcome state coins :=
  match find_asset s d with
  | None => Err
  | Some x =>
      if negb (as_blockable x) then Err
      else if negb (Nat.eqb a (as_owner x)) then Err
      else if negb (mem b (as_blocked x)) then Err         (* ErrAccountAlreadyUnblocked *)
      else Ok (put_asset s (with_blocked x (remove_blocked b (as_blocked x)))) []
  end.

(* issuance.go SetPauseStatus *)
Definition set_pause (e : env) (s : state) (a d : nat) (st : bool) : outcome state coins :=
  match find_asset s d with
  | None => Err
  | Some x =>
      if negb (Nat.eqb a (as_owner x)) then Err
      else if Bool.eqb (as_paused x) st then Ok s []
      else Ok (put_asset s (with_paused x (negb (as_paused x)))) []
  end.

(** * bep3 *)

Definition find_b3 (s : state) (d : nat) : option b3asset :=
  find (fun x => Nat.eqb (b3_denom x) d) (b3assets s).

(* swap.go CreateAtomicSwap.  [rest]: the swap id is new, the asset is active,
   amount and timestamp are in range, the supply limit admits the amount and
   (outgoing) height span, fee and funds are fine. *)
Definition create_swap (e : env) (s : state) (a rcp d : nat) (amt : Z) (rest : bool) : outcome state coins :=
  if is_macc e rcp then Err else                        (* recipient is a module account *)
  match find_b3 s d with
  | None => Err
  | Some x =>
      if Nat.eqb a (b3_deputy x) then
        if Nat.eqb rcp (b3_deputy x) then Err           (* deputy cannot be both sender and receiver *)
        else if negb rest then Err
        (* the recipient's account is registered when it does not exist *)
        else Ok (set_accs (set_swaps s (mkSwap a rcp d amt true :: swaps s)) (upd (accs s) rcp true)) []
      else
        if negb (Nat.eqb rcp (b3_deputy x)) then Err    (* deputy must be recipient for outgoing *)
        else if negb rest then Err
        else Ok (set_swaps s (mkSwap a rcp d amt false :: swaps s)) []
  end.

(* the message carries a coin list; the keeper refuses anything but exactly one
   coin ("amount must contain exactly one coin"): asset lookup, deputy
   comparison, limits and supply accounting all read the first coin only *)
Definition create_swap_msg (e : env) (s : state) (a rcp : nat) (amount : coins) (rest : bool) : outcome state coins :=
  match amount with
  | [(d, amt)] => create_swap e s a rcp d amt rest
  | _ => Err
  end.

(** * committee *)

Definition find_com (s : state) (c : nat) : option committee :=
  find (fun x => Nat.eqb (cm_id x) c) (committees s).

(* proposal.go SubmitProposal.  [rest]: the committee has permissions for the
   proposal and the proposal is valid.  [dur]: the committee's proposal duration. *)
Definition submit (e : env) (s : state) (a c : nat) (dur : Z) (rest : bool) : outcome state coins :=
  match find_com s c with
  | None => Err
  | Some x =>
      if negb (mem a (cm_members x)) then Err
      else if negb rest then Err
      else Ok (set_props s (upd (proposals s) (next_pid s) (Some (c, now e + dur))) (S (next_pid s))) []
  end.

(* proposal.go AddVote; vote type 1 = yes *)
Definition vote (e : env) (s : state) (a pid vt : nat) : outcome state coins :=
  match proposals s pid with
  | None => Err
  | Some (c, deadline) =>
      if deadline <=? now e then Err                    (* HasExpiredBy: !now.Before(deadline) *)
      else match find_com s c with
      | None => Err
      | Some x =>
          if cm_member_type x && negb (mem a (cm_members x)) then Err
          else if cm_member_type x && negb (Nat.eqb vt 1) then Err
          else Ok (set_votes s (upd2 (votes s) pid a (Some vt))) []
      end
  end.

(** * community *)

(* msg_server.go UpdateParams *)
Definition update_params (e : env) (s : state) (a : nat) (p : Z * Z * Z) : outcome state coins :=
  if negb (Nat.eqb a (gov e)) then Err                  (* ErrInvalidSigner *)
  else let '(_, r1, r2) := p in
       if (r1 <? 0) || (r2 <? 0) then Err               (* Params.Validate *)
       else Ok (set_cparams s p) [].

(** * cdp *)

(* GetCdpByOwnerAndCollateralType: the record is found through the signer *)
Definition find_cdp (s : state) (a ct : nat) : option (nat * cdp) :=
  match find (fun i => match cdps s i with
                       | Some c => Nat.eqb (cd_owner c) a && Nat.eqb (cd_type c) ct
                       | None => false end) (seq 0 (ncdp s)) with
  | Some i => match cdps s i with Some c => Some (i, c) | None => None end
  | None => None
  end.

(* draw.go AddPrincipal.  [rest]: principal denom, debt limit and collateral ratio are fine. *)
Definition cdp_draw (e : env) (s : state) (a ct : nat) (amt : Z) (rest : bool) : outcome state coins :=
  match find_cdp s a ct with
  | None => Err                                         (* ErrCdpNotFound *)
  | Some (i, c) =>
      if negb rest then Err
      else Ok (set_cdp s (upd (cdps s) i (Some (mkCdp (cd_owner c) (cd_type c) (cd_coll c) (cd_princ c + amt)))) (cdp_deps s)) []
  end.

(* draw.go RepayPrincipal (no accumulated fees: stability fee 1.0).  [rest]:
   payment denom, the signer's balance and the debt floor are fine. *)
Definition cdp_repay (e : env) (s : state) (a ct : nat) (amt : Z) (rest : bool) : outcome state coins :=
  match find_cdp s a ct with
  | None => Err
  | Some (i, c) =>
      if negb rest then Err
      else
        let pay := Z.min amt (cd_princ c) in
        if cd_princ c - pay =? 0 then
          (* fully repaid: collateral goes back to the depositors, cdp and deposits are deleted *)
          Ok (set_cdp s (upd (cdps s) i None) (upd (cdp_deps s) i (fun _ => 0))) []
        else
          Ok (set_cdp s (upd (cdps s) i (Some (mkCdp (cd_owner c) (cd_type c) (cd_coll c) (cd_princ c - pay)))) (cdp_deps s)) []
  end.

(* deposit.go WithdrawCollateral: signer = depositor.  [rest]: collateral
   denom / price and the resulting collateral ratio are fine. *)
Definition cdp_withdraw (e : env) (s : state) (a owner ct : nat) (amt : Z) (rest : bool) : outcome state coins :=
  match find_cdp s owner ct with
  | None => Err
  | Some (i, c) =>
      let dep := cdp_deps s i a in
      if dep <=? 0 then Err                             (* ErrDepositNotFound *)
      else if dep <? amt then Err                       (* ErrInvalidWithdrawAmount *)
      else if amt <=? 0 then Err                        (* rejected by ValidateBasic *)
      else if negb rest then Err
      else Ok (set_cdp s (upd (cdps s) i (Some (mkCdp (cd_owner c) (cd_type c) (cd_coll c - amt) (cd_princ c))))
                         (upd2 (cdp_deps s) i a (dep - amt))) [(ct, amt)]
  end.

(** * hard and savings deposits *)

Definition has_rec (n : nat) (pos : nat -> Z) : bool := existsb (fun d => 0 <? pos d) (seq 0 n).

(* request.DenomsSubsetOf(deposit) *)
Definition subset_of (req : coins) (pos : nat -> Z) : bool := forallb (fun p => 0 <? pos (fst p)) req.

(* CalculateWithdrawAmount: a request above the deposit is cut to the deposit *)
Definition capped (req : coins) (pos : nat -> Z) : coins :=
  map (fun p => (fst p, Z.min (snd p) (pos (fst p)))) req.

Definition sub_coins (pos : nat -> Z) (c : coins) : nat -> Z :=
  fold_left (fun f p => upd f (fst p) (f (fst p) - snd p)) c pos.

(* hard/keeper/withdraw.go.  [ltv_ok]: liquidation data loads and the proposed deposit covers the borrow. *)
Definition hard_withdraw (e : env) (s : state) (a : nat) (req : coins) (ltv_ok : bool) : outcome state coins :=
  let pos := hard_dep s a in
  if negb (has_rec (nden e) pos) then Err               (* ErrDepositNotFound *)
  else if negb (coins_valid req) then Err               (* rejected by ValidateBasic *)
  else if negb (subset_of req pos) then Err             (* ErrInvalidWithdrawDenom *)
  else if negb ltv_ok then Err
  else let amt := capped req pos in
       Ok (set_hard s (upd (hard_dep s) a (sub_coins pos amt))) amt.

(* savings/keeper/withdraw.go *)
Definition sav_withdraw (e : env) (s : state) (a : nat) (req : coins) : outcome state coins :=
  let pos := sav_dep s a in
  if negb (has_rec (nden e) pos) then Err
  else if negb (coins_valid req) then Err
  else if negb (subset_of req pos) then Err
  else let amt := capped req pos in
       Ok (set_sav s (upd (sav_dep s) a (sub_coins pos amt))) amt.

(** * swap shares *)

(* swap/keeper/withdraw.go; output: the two reserve amounts paid out *)
Definition swap_withdraw (e : env) (s : state) (a pool : nat) (shares minA minB : Z) (deadline_ok : bool) : outcome state coins :=
  if negb deadline_ok then Err else
  let owned := swap_shares s a pool in
  if owned <=? 0 then Err                               (* ErrDepositNotFound *)
  else if owned <? shares then Err                      (* ErrInvalidShares *)
  else
    let '(ra, rb, tot) := swap_pools s pool in
    if tot <=? 0 then Panic                             (* pool not found *)
    else if shares <=? 0 then Panic                     (* assertSharesArePositive *)
    else if tot <? shares then Panic                    (* assertSharesAreLessThanTotal *)
    else
      let wa := Z.quot (ra * shares) tot in
      let wb := Z.quot (rb * shares) tot in
      if (wa =? 0) || (wb =? 0) then Err                (* ErrInsufficientLiquidity *)
      else if (wa <? minA) || (wb <? minB) then Err     (* ErrSlippageExceeded *)
      else Ok (set_swap s (upd (swap_pools s) pool (ra - wa, rb - wb, tot - shares))
                          (upd2 (swap_shares s) a pool (owned - shares))) [(0%nat, wa); (1%nat, wb)].

(** * earn shares *)

(* earn/keeper/withdraw.go.  Oracles recorded from the implementation:
   [wshares] = ConvertToShares(amount), [wamount] = ConvertToAssets(wshares),
   [accval] = GetVaultAccountValue, [dust] = ShareIsDust(remaining shares);
   [rest]: vault allowed, amount non-zero, strategy allowed, vault record
   present, strategy withdrawal and payout succeed. *)
(* strategy_hard.go / strategy_savings.go Withdraw: the vault's funds sit in a
   hard or savings deposit of the earn module account *)
Definition strategy_withdraw (e : env) (s : state) (d : nat) (amt : Z) : option state :=
  if amt <=? 0 then Some s
  else if Nat.eqb (earn_strat e d) 0 then
    match hard_withdraw e s (earn_macc e) [(d, amt)] true with Ok s1 _ => Some s1 | _ => None end
  else
    match sav_withdraw e s (earn_macc e) [(d, amt)] with Ok s1 _ => Some s1 | _ => None end.

Definition earn_withdraw (e : env) (s : state) (a d : nat) (wshares wamount accval : Z) (dust rest : bool) : outcome state coins :=
  if negb rest then Err
  else if negb (has_rec (nden e) (earn_shares s a)) then Err   (* ErrVaultShareRecordNotFound *)
  else
    let cur := earn_shares s a d in
    if cur <? wshares then Err                          (* ErrInsufficientValue (shares) *)
    else if accval <? wamount then Err                  (* ErrInsufficientValue (value) *)
    else
      match strategy_withdraw e s d wamount with
      | None => Err                                     (* failed to withdraw from strategy *)
      | Some s1 =>
          let new := if dust then 0 else cur - wshares in
          Ok (set_earn s1 (upd2 (earn_shares s1) a d new)) [(d, wamount)]
      end.

(** * Operations *)

Inductive op :=
| PostPrice (a m : nat) (price expiry : Z)
| Issue (a d : nat) (amt : Z) (rcv : nat)
| Redeem (a d : nat) (amt : Z)
| Block (a d b : nat)
| Unblock (a d b : nat)
| SetPause (a d : nat) (st : bool)
| CreateSwap (a rcp : nat) (amount : coins) (rest : bool)
| Submit (a c : nat) (dur : Z) (rest : bool)
| Vote (a pid vt : nat)
| UpdateParams (a : nat) (p : Z * Z * Z)
| CdpDraw (a ct : nat) (amt : Z) (rest : bool)
| CdpRepay (a ct : nat) (amt : Z) (rest : bool)
| CdpWithdraw (a owner ct : nat) (amt : Z) (rest : bool)
| HardWithdraw (a : nat) (req : coins) (ltv_ok : bool)
| SavWithdraw (a : nat) (req : coins)
| SwapWithdraw (a pool : nat) (shares minA minB : Z) (deadline_ok : bool)
| EarnWithdraw (a d : nat) (wshares wamount accval : Z) (dust rest : bool).

Definition step (e : env) (s : state) (o : op) : outcome state coins :=
  match o with
  | PostPrice a m p x => post_price e s a m p x
  | Issue a d amt rcv => issue e s a d amt rcv
  | Redeem a d amt => redeem e s a d amt
  | Block a d b => block e s a d b
  | Unblock a d b => unblock e s a d b
  | SetPause a d st => set_pause e s a d st
  | CreateSwap a rcp amount rest => create_swap_msg e s a rcp amount rest
  | Submit a c dur rest => submit e s a c dur rest
  | Vote a pid vt => vote e s a pid vt
  | UpdateParams a p => update_params e s a p
  | CdpDraw a ct amt rest => cdp_draw e s a ct amt rest
  | CdpRepay a ct amt rest => cdp_repay e s a ct amt rest
  | CdpWithdraw a owner ct amt rest => cdp_withdraw e s a owner ct amt rest
  | HardWithdraw a req l => hard_withdraw e s a req l
  | SavWithdraw a req => sav_withdraw e s a req
  | SwapWithdraw a pool sh ma mb dl => swap_withdraw e s a pool sh ma mb dl
  | EarnWithdraw a d ws wa av dust rest => earn_withdraw e s a d ws wa av dust rest
  end.

(* a failed operation leaves the state it started from *)
Definition step' (e : env) (s : state) (o : op) : state :=
  match step e s o with Ok s' _ => s' | _ => s end.

Definition run (e : env) (s : state) (ops : list op) : state := fold_left (step' e) ops s.

Definition signer (o : op) : nat :=
  match o with
  | PostPrice a _ _ _ | Issue a _ _ _ | Redeem a _ _ | Block a _ _ | Unblock a _ _ | SetPause a _ _
  | CreateSwap a _ _ _ | Submit a _ _ _ | Vote a _ _ | UpdateParams a _
  | CdpDraw a _ _ _ | CdpRepay a _ _ _ | CdpWithdraw a _ _ _ _
  | HardWithdraw a _ _ | SavWithdraw a _ | SwapWithdraw a _ _ _ _ _ | EarnWithdraw a _ _ _ _ _ _ => a
  end.

(* the same message from signer [b]; [r] replaces the oracle flag of the
   non-authorisation checks where the operation has one *)
Definition with_signer (o : op) (b : nat) (r : bool) : op :=
  match o with
  | PostPrice _ m p x => PostPrice b m p x
  | Issue _ d amt rcv => Issue b d amt rcv
  | Redeem _ d amt => Redeem b d amt
  | Block _ d x => Block b d x
  | Unblock _ d x => Unblock b d x
  | SetPause _ d st => SetPause b d st
  | CreateSwap _ rcp amount _ => CreateSwap b rcp amount r
  | Submit _ c dur _ => Submit b c dur r
  | Vote _ pid vt => Vote b pid vt
  | UpdateParams _ p => UpdateParams b p
  | CdpDraw _ ct amt _ => CdpDraw b ct amt r
  | CdpRepay _ ct amt _ => CdpRepay b ct amt r
  | CdpWithdraw _ owner ct amt _ => CdpWithdraw b owner ct amt r
  | HardWithdraw _ req _ => HardWithdraw b req r
  | SavWithdraw _ req => SavWithdraw b req
  | SwapWithdraw _ pool sh ma mb _ => SwapWithdraw b pool sh ma mb r
  (* [accval] is the value of the signer's own shares: the recorded value of
     the principal's is not reused for another signer; an accepted attempt
     (r = true) had a sufficient account value *)
  | EarnWithdraw _ d ws wa av dust _ => EarnWithdraw b d ws wa (if r then wa else av) dust r
  end.

(* the row of [handlers] an operation models *)
Definition handler_of (o : op) : string * string :=
  match o with
  | PostPrice _ _ _ _ => ("pricefeed", "PostPrice")
  | Issue _ _ _ _ => ("issuance", "IssueTokens")
  | Redeem _ _ _ => ("issuance", "RedeemTokens")
  | Block _ _ _ => ("issuance", "BlockAddress")
  | Unblock _ _ _ => ("issuance", "UnblockAddress")
  | SetPause _ _ _ => ("issuance", "SetPauseStatus")
  | CreateSwap _ _ _ _ => ("bep3", "CreateAtomicSwap")
  | Submit _ _ _ _ => ("committee", "SubmitProposal")
  | Vote _ _ _ => ("committee", "Vote")
  | UpdateParams _ _ => ("community", "UpdateParams")
  | CdpDraw _ _ _ _ => ("cdp", "DrawDebt")
  | CdpRepay _ _ _ _ => ("cdp", "RepayDebt")
  | CdpWithdraw _ _ _ _ _ => ("cdp", "Withdraw")
  | HardWithdraw _ _ _ => ("hard", "Withdraw")
  | SavWithdraw _ _ => ("savings", "Withdraw")
  | SwapWithdraw _ _ _ _ _ _ => ("swap", "Withdraw")
  | EarnWithdraw _ _ _ _ _ _ _ => ("earn", "Withdraw")
  end%string.

(* one representative operation per constructor, for the coverage statement *)
Definition op_samples : list op := [
  PostPrice 0 0 0 0; Issue 0 0 0 0; Redeem 0 0 0; Block 0 0 0; Unblock 0 0 0; SetPause 0 0 false;
  CreateSwap 0 0 [] false; Submit 0 0 0 false; Vote 0 0 0; UpdateParams 0 (0%Z, 0%Z, 0%Z);
  CdpDraw 0 0 0 false; CdpRepay 0 0 0 false; CdpWithdraw 0 0 0 0 false;
  HardWithdraw 0 [] false; SavWithdraw 0 []; SwapWithdraw 0 0 0 0 0 false; EarnWithdraw 0 0 0 0 0 false false ]%nat.

Definition row_is (mh : string * string) (r : hrow) : bool :=
  let '(m, h, _) := r in String.eqb m (fst mh) && String.eqb h (snd mh).

(* every privileged row of the table is modelled by an operation, and every
   operation models a privileged row *)
Definition table_covered : bool :=
  forallb (fun r => match r with
                    | (m, h, Priv _) => existsb (fun o => row_is (handler_of o) r) op_samples
                    | (_, _, Unpriv) => true
                    end) handlers
  && forallb (fun o => existsb (fun r => match r with
                                         | (_, _, Priv _) => row_is (handler_of o) r
                                         | _ => false end) handlers) op_samples.

(** * Who is the designated principal *)

(* [authorised e s o]: the signer of [o] is the principal the code designates
   for this message in state [s] (for messages that are open to anyone in the
   given shape — an outgoing swap to the deputy, a vote in a token committee —
   everybody is). *)
Definition authorised (e : env) (s : state) (o : op) : bool :=
  match o with
  | PostPrice a m _ _ =>
      match oracles_of s m with Some os => mem a os | None => false end
  | Issue a d _ _ | Redeem a d _ | Block a d _ | Unblock a d _ | SetPause a d _ =>
      match find_asset s d with Some x => Nat.eqb a (as_owner x) | None => false end
  | CreateSwap a rcp [(d, _)] _ =>
      match find_b3 s d with
      | Some x => Nat.eqb a (b3_deputy x) || Nat.eqb rcp (b3_deputy x)
      | None => false end
  | CreateSwap _ _ _ _ => false                 (* nobody may send a swap of several coins *)
  | Submit a c _ _ =>
      match find_com s c with Some x => mem a (cm_members x) | None => false end
  | Vote a pid _ =>
      match proposals s pid with
      | Some (c, _) =>
          match find_com s c with
          | Some x => negb (cm_member_type x) || mem a (cm_members x)
          | None => false end
      | None => false end
  | UpdateParams a _ => Nat.eqb a (gov e)
  | CdpDraw a ct _ _ | CdpRepay a ct _ _ =>
      match find_cdp s a ct with Some _ => true | None => false end
  | CdpWithdraw a owner ct _ _ =>
      match find_cdp s owner ct with Some (i, _) => 0 <? cdp_deps s i a | None => false end
  | HardWithdraw a _ _ => has_rec (nden e) (hard_dep s a)
  | SavWithdraw a _ => has_rec (nden e) (sav_dep s a)
  | SwapWithdraw a pool _ _ _ _ => 0 <? swap_shares s a pool
  | EarnWithdraw a _ _ _ _ _ _ => has_rec (nden e) (earn_shares s a)
  end.

(** * Changes of the designated principals

   The lists the guards read are state: governance changes them in the middle
   of a history.  Each change goes through the handler the gov router calls:

     pricefeed / issuance / bep3: x/params ParameterChangeProposal -> Subspace.Update
        (the new value is validated by the module's param validator, then stored)
     committee: x/committee/proposal_handler.go handleCommitteeChangeProposal
        (the committee's ongoing proposals are closed with their votes, then
        SetCommittee; an unknown id creates the committee) and
        handleCommitteeDeleteProposal (proposals closed, DeleteCommittee)

   The guards above read [markets], [assets], [b3assets], [committees] of the
   state they run in: nothing is remembered from an earlier state. *)

Fixpoint nodup_b (l : list nat) : bool :=
  match l with
  | [] => true
  | x :: r => negb (mem x r) && nodup_b r
  end.

Inductive admin :=
| SetOracles (m : nat) (l : list nat)     (* the oracle list of market m becomes l *)
| SetOwner (d a : nat)                    (* the owner of issuance asset d becomes a *)
| SetDeputy (d a : nat)                   (* the bep3 deputy of asset d becomes a *)
| SetMembers (c : nat) (l : list nat)     (* CommitteeChangeProposal: the members of committee c become l *)
| DelCommittee (c : nat).                 (* CommitteeDeleteProposal *)

(* pricefeed Market.Validate refuses a duplicated oracle; a market id that is
   not in the parameters leaves them as they are *)
Definition set_oracles (s : state) (m : nat) (l : list nat) : outcome state coins :=
  if negb (nodup_b l) then Err
  else Ok (set_markets s (map (fun p => if Nat.eqb (fst p) m then (fst p, l) else p) (markets s))) [].

Definition with_owner (x : asset) (a : nat) : asset :=
  mkAsset (as_denom x) a (as_paused x) (as_blockable x) (as_blocked x) (as_rl_active x) (as_rl_limit x).

(* issuance Asset.Validate: "asset owner cannot be blocked" *)
Definition set_owner (s : state) (d a : nat) : outcome state coins :=
  match find_asset s d with
  | None => Ok s []
  | Some x => if mem a (as_blocked x) then Err else Ok (put_asset s (with_owner x a)) []
  end.

Definition set_deputy (s : state) (d a : nat) : outcome state coins :=
  Ok (set_b3 s (map (fun x => if Nat.eqb (b3_denom x) d then mkB3 (b3_denom x) a else x) (b3assets s))) [].

(* keeper CloseProposal -> DeleteProposalAndVotes, for every proposal of committee c *)
Definition closed_props (s : state) (c : nat) : nat -> option (nat * Z) :=
  fun pid => match proposals s pid with
             | Some (c', dl) => if Nat.eqb c' c then None else Some (c', dl)
             | None => None
             end.
Definition closed_votes (s : state) (c : nat) : nat -> nat -> option nat :=
  fun pid a => match proposals s pid with
               | Some (c', _) => if Nat.eqb c' c then None else votes s pid a
               | None => votes s pid a
               end.

(* BaseCommittee.Validate: "committee must have members", no duplicate members.
   The committee keeps its kind; a new id gives a member committee. *)
Definition set_members (s : state) (c : nat) (l : list nat) : outcome state coins :=
  if (match l with [] => true | _ => false end) || negb (nodup_b l) then Err
  else
    let coms := match find_com s c with
                | Some _ => map (fun y => if Nat.eqb (cm_id y) c then mkCom (cm_id y) l (cm_member_type y) else y) (committees s)
                | None => committees s ++ [mkCom c l true]
                end in
    Ok (set_coms s coms (closed_props s c) (closed_votes s c)) [].

Definition del_committee (s : state) (c : nat) : outcome state coins :=
  Ok (set_coms s (filter (fun y => negb (Nat.eqb (cm_id y) c)) (committees s)) (closed_props s c) (closed_votes s c)) [].

Definition admin_step (e : env) (s : state) (a : admin) : outcome state coins :=
  match a with
  | SetOracles m l => set_oracles s m l
  | SetOwner d x => set_owner s d x
  | SetDeputy d x => set_deputy s d x
  | SetMembers c l => set_members s c l
  | DelCommittee c => del_committee s c
  end.

(* histories in which messages and changes of the principals alternate freely *)
Inductive hop := Msg (o : op) | Adm (a : admin).

Definition hstep (e : env) (s : state) (h : hop) : outcome state coins :=
  match h with Msg o => step e s o | Adm a => admin_step e s a end.

Definition hstep' (e : env) (s : state) (h : hop) : state :=
  match hstep e s h with Ok s' _ => s' | _ => s end.

Definition hrun (e : env) (s : state) (hs : list hop) : state := fold_left (hstep' e) hs s.

(** * Invariant (boolean form) *)

Definition swap_ok (s : state) (w : swaprec) : bool :=
  negb (sw_incoming w) ||
  match find_b3 s (sw_denom w) with Some x => Nat.eqb (sw_sender w) (b3_deputy x) | None => false end.

Definition vote_ok (e : env) (s : state) (pid a : nat) : bool :=
  match votes s pid a, proposals s pid with
  | Some vt, Some (c, _) =>
      match find_com s c with
      | Some x => negb (cm_member_type x) || (mem a (cm_members x) && Nat.eqb vt 1)
      | None => false
      end
  | Some _, None => false
  | None, _ => true
  end.

Definition inv_b (e : env) (s : state) : bool :=
  forallb (swap_ok s) (swaps s)
  && forallb (fun pid => forallb (vote_ok e s pid) (seq 0 (nacc e))) (seq 0 (next_pid s)).

(** * Correspondence-check support *)

Inductive rclass := ROk | RErr | RPanic.
Definition rclass_eqb (a b : rclass) : bool :=
  match a, b with ROk, ROk | RErr, RErr | RPanic, RPanic => true | _, _ => false end.
Definition class_of {S O} (r : outcome S O) : rclass :=
  match r with Ok _ _ => ROk | Err => RErr | Panic => RPanic end.

Definition optZ2 (o : option (Z * Z)) : list Z :=
  match o with Some (a, b) => [1; a; b] | None => [0] end.
Definition b2z (b : bool) : Z := if b then 1 else 0.
Definition n2z (n : nat) : Z := Z.of_nat n.

(* the component of the state an operation writes, flattened canonically; the
   harness flattens the implementation's stores (read raw) the same way *)
Definition project (e : env) (s : state) (o : op) : list Z :=
  match o with
  | PostPrice _ _ _ _ =>
      flat_map (fun mk => flat_map (fun a => optZ2 (prices s (fst mk) a)) (seq 0 (nacc e))) (markets s)
  | Issue _ _ _ _ | Redeem _ _ _ | Block _ _ _ | Unblock _ _ _ | SetPause _ _ _ =>
      flat_map (fun x => [n2z (as_owner x); b2z (as_paused x); b2z (as_blockable x); n2z (length (as_blocked x))]
                         ++ map n2z (as_blocked x) ++ [iss_supply s (as_denom x)]
                         ++ map (fun a => iss_bal s a (as_denom x)) (seq 0 (nusers e))) (assets s)
  | CreateSwap _ _ _ _ =>
      n2z (length (swaps s)) ::
      flat_map (fun w => [n2z (sw_sender w); n2z (sw_recipient w); n2z (sw_denom w); sw_amount w; b2z (sw_incoming w)]) (swaps s)
  | Submit _ _ _ _ | Vote _ _ _ =>
      n2z (next_pid s) ::
      flat_map (fun pid =>
        (match proposals s pid with Some (c, dl) => [1; n2z c; dl] | None => [0] end)
        ++ flat_map (fun a => match votes s pid a with Some vt => [n2z a; n2z vt] | None => [] end) (seq 0 (nacc e)))
        (seq 0 (next_pid s))
  | UpdateParams _ _ => let '(t, r1, r2) := cparams s in [t; r1; r2]
  | CdpDraw _ _ _ _ | CdpRepay _ _ _ _ | CdpWithdraw _ _ _ _ _ =>
      flat_map (fun i => match cdps s i with
                         | Some c => [n2z i; n2z (cd_owner c); n2z (cd_type c); cd_coll c; cd_princ c]
                                     ++ map (cdp_deps s i) (seq 0 (nacc e))
                         | None => [] end) (seq 0 (ncdp s))
  | HardWithdraw _ _ _ =>
      flat_map (fun a => map (hard_dep s a) (seq 0 (nden e))) (seq 0 (nacc e))
  | SavWithdraw _ _ =>
      flat_map (fun a => map (sav_dep s a) (seq 0 (nden e))) (seq 0 (nacc e))
  | SwapWithdraw _ _ _ _ _ _ =>
      flat_map (fun p => let '(ra, rb, t) := swap_pools s p in [ra; rb; t]) (seq 0 (npool e))
      ++ flat_map (fun a => map (swap_shares s a) (seq 0 (npool e))) (seq 0 (nacc e))
  | EarnWithdraw _ _ _ _ _ _ _ =>
      flat_map (fun a => map (earn_shares s a) (seq 0 (nden e))) (seq 0 (nacc e))
      ++ map (hard_dep s (earn_macc e)) (seq 0 (nden e)) ++ map (sav_dep s (earn_macc e)) (seq 0 (nden e))
  end.

(* one probed message: the operation as sent by its designated principal,
   the attempts made with the same message on a discarded context (one code
   per actor, in actor order: actor i sent the message as signer), whether the
   principal's message was then committed, and the projection of the written
   component after the commit.
   code 0: accepted; 1: refused, the other checks of the handler hold (the
   refusal must come from the guard); 2: refused (other checks unknown);
   3: panicked. *)
Record probe := mkProbe {
  p_op : op;
  p_attempts : list nat;
  p_commit : bool;
  p_after : list Z
}.

Definition expected (code : nat) : rclass :=
  match code with 0%nat => ROk | 3%nat => RPanic | _ => RErr end.
Definition rest_of (code : nat) : bool :=
  match code with 2%nat => false | _ => true end.

Definition attempts_ok (e : env) (s : state) (o : op) (l : list nat) : bool :=
  forallb (fun ac => rclass_eqb (class_of (step e s (with_signer o (fst ac) (rest_of (snd ac))))) (expected (snd ac)))
          (combine (seq 0 (length l)) l).

(* the vote half of the invariant: it survives changes of the member lists
   because a change closes the committee's proposals *)
Definition vinv_b (e : env) (s : state) : bool :=
  forallb (fun pid => forallb (vote_ok e s pid) (seq 0 (nacc e))) (seq 0 (next_pid s)).

(* the swap half, for the swap a committed message has just recorded: its
   direction was decided by the deputy of the state the message ran in (a later
   change of the deputy does not re-label the swaps already recorded) *)
Definition new_swap_ok (s s' : state) : bool :=
  match swaps s' with w :: _ => swap_ok s w | [] => true end.

Definition commit_inv (e : env) (s s' : state) (o : op) : bool :=
  vinv_b e s' && match o with CreateSwap _ _ _ _ => new_swap_ok s s' | _ => true end.

(* the component a change of principals writes *)
Definition max_com : nat := 8.
Definition aproject (e : env) (s : state) (a : admin) : list Z :=
  match a with
  | SetOracles _ _ =>
      flat_map (fun mk => n2z (fst mk) :: n2z (length (snd mk)) :: map n2z (snd mk)) (markets s)
  | SetOwner _ _ => project e s (SetPause 0 0 false)
  | SetDeputy _ _ =>
      flat_map (fun x => [n2z (b3_denom x); n2z (b3_deputy x)]) (b3assets s)
  | SetMembers _ _ | DelCommittee _ =>
      flat_map (fun c => match find_com s c with
                         | Some x => n2z c :: b2z (cm_member_type x) :: n2z (length (cm_members x)) :: map n2z (cm_members x)
                         | None => [] end) (seq 0 max_com)
      ++ project e s (Vote 0 0 0)
  end.

(* one step of a recorded history: a probed message, or a change of principals
   with the class the implementation returned (0 applied, 1 refused) and the
   projection of the written component afterwards *)
Inductive item :=
| IProbe (p : probe)
| IAdmin (a : admin) (code : nat) (after : list Z).

Fixpoint first_mismatch (e : env) (s : state) (h : list item) (i : nat) : option nat :=
  match h with
  | [] => None
  | IProbe p :: r =>
      if negb (attempts_ok e s (p_op p) (p_attempts p)) then Some i
      else if negb (p_commit p) then first_mismatch e s r (S i)
      else match step e s (p_op p) with
           | Ok s' _ =>
               if list_eqb Z.eqb (project e s' (p_op p)) (p_after p) && commit_inv e s s' (p_op p)
               then first_mismatch e s' r (S i) else Some i
           | _ => Some i
           end
  | IAdmin a code after :: r =>
      match admin_step e s a with
      | Ok s' _ =>
          if Nat.eqb code 0 && list_eqb Z.eqb (aproject e s' a) after && vinv_b e s'
          then first_mismatch e s' r (S i) else Some i
      | Err => if Nat.eqb code 1 then first_mismatch e s r (S i) else Some i
      | Panic => Some i
      end
  end.

(* list-based construction of environments and states from harness data *)
Definition nthB (l : list bool) (i : nat) : bool := nth i l false.

Definition fn2 (l : list (nat * nat * Z)) : nat -> nat -> Z :=
  fun a b => match find (fun p => Nat.eqb (fst (fst p)) a && Nat.eqb (snd (fst p)) b) l with
             | Some p => snd p | None => 0 end.

Definition mk_env (n nu : nat) (t : Z) (macc : list bool) (g nd np em : nat) (strat : list nat) : env :=
  mkEnv n nu t (nthB macc) g nd np em (fun d => nth d strat 0%nat).

Definition mk_state
  (mk : list (nat * list nat)) (pr : list (nat * nat * (Z * Z)))
  (ass : list asset) (isup : list Z) (ibal : list (nat * nat * Z))
  (b3 : list b3asset) (sw : list swaprec)
  (coms : list committee) (props : list (nat * (nat * Z))) (npid : nat) (vts : list (nat * nat * nat))
  (cp : Z * Z * Z)
  (cds : list (nat * cdp)) (nc : nat) (cdeps : list (nat * nat * Z))
  (hd sd : list (nat * nat * Z)) (pools : list (Z * Z * Z)) (ssh esh : list (nat * nat * Z)) (exist : list bool) : state :=
  mkState mk
    (fun m a => match find (fun p => Nat.eqb (fst (fst p)) m && Nat.eqb (snd (fst p)) a) pr with
                | Some p => Some (snd p) | None => None end)
    ass (fun d => nth d isup 0) (fn2 ibal)
    b3 sw
    coms
    (fun pid => match find (fun p => Nat.eqb (fst p) pid) props with Some p => Some (snd p) | None => None end)
    npid
    (fun pid a => match find (fun p => Nat.eqb (fst (fst p)) pid && Nat.eqb (snd (fst p)) a) vts with
                  | Some p => Some (snd p) | None => None end)
    cp
    (fun i => match find (fun p => Nat.eqb (fst p) i) cds with Some p => Some (snd p) | None => None end)
    nc (fn2 cdeps)
    (fn2 hd) (fn2 sd) (fun p => nth p pools (0, 0, 0)) (fn2 ssh) (fn2 esh) (nthB exist).

Record history := mkHist {
  h_env : env;
  h_init : state;
  h_items : list item
}.

Definition check_history (h : history) : option nat :=
  if inv_b (h_env h) (h_init h)
  then first_mismatch (h_env h) (h_init h) (h_items h) 0
  else Some 0%nat.

Fixpoint mismatches_from (i : nat) (hs : list history) : list (nat * nat) :=
  match hs with
  | [] => []
  | h :: r =>
      match check_history h with
      | None => mismatches_from (S i) r
      | Some k => (i, k) :: mismatches_from (S i) r
      end
  end.

(* [tbl]: the handler table enumerated from the source in this run *)
Definition mismatches (tbl : list hrow) (hs : list history) : list (nat * nat) :=
  if table_matches tbl && table_covered then mismatches_from 0 hs
  else (0%nat, 0%nat) :: mismatches_from 0 hs.
