(* Model of x/precisebank/keeper: send.go, mint.go, burn.go, view.go,
   over an abstract x/bank (balances, locked coins, supply, module
   permissions, blocked addresses).  Definitions only. *)
From Kava Require Import Base.Prelude.

Definition CF : Z := 1000000000000.          (* types.ConversionFactor() = 10^12 *)
Definition dA : nat := 0%nat.                (* "akava"  (ExtendedCoinDenom) *)
Definition dU : nat := 2%nat.                (* "ukava"  (IntegerCoinDenom); denoms are numbered in string order *)

Definition coins := list (nat * Z).

(* sdk.Coins.IsValid: strictly increasing denoms, all amounts positive
   (the empty list is valid). *)
Fixpoint coins_valid_from (lo : option nat) (c : coins) : bool :=
  match c with
  | [] => true
  | (d, x) :: r =>
      (0 <? x) && (match lo with None => true | Some p => Nat.ltb p d end)
      && coins_valid_from (Some d) r
  end.
Definition coins_valid (c : coins) := coins_valid_from None c.

Fixpoint amount_of (d : nat) (c : coins) : Z :=
  match c with
  | [] => 0
  | (d', x) :: r => if Nat.eqb d' d then x else amount_of d r
  end.

Definition without (d : nat) (c : coins) : coins :=
  filter (fun p => negb (Nat.eqb (fst p) d)) c.

Record env := {
  nacc : nat;                    (* accounts are 0 .. nacc-1 *)
  reserve : nat;                 (* the precisebank module account *)
  lock : nat -> nat -> Z;        (* bank LockedCoins(addr, denom) at the block time of the history *)
  is_module : nat -> bool;
  minter : nat -> bool;
  burner : nat -> bool;
  blocked : nat -> bool          (* bank BlockedAddr *)
}.

Record state := mkState {
  bal : nat -> nat -> Z;         (* x/bank balance: address, denom *)
  sup : nat -> Z;                (* x/bank supply per denom *)
  frac : nat -> Z;               (* precisebank fractional balance store *)
  rem : Z                        (* precisebank remainder *)
}.

Definition set_bal (s : state) (a d : nat) (v : Z) : state :=
  mkState (upd2 (bal s) a d v) (sup s) (frac s) (rem s).
Definition set_sup (s : state) (d : nat) (v : Z) : state :=
  mkState (bal s) (upd (sup s) d v) (frac s) (rem s).
Definition set_frac (s : state) (a : nat) (v : Z) : state :=
  mkState (bal s) (sup s) (upd (frac s) a v) (rem s).
Definition set_rem (s : state) (v : Z) : state :=
  mkState (bal s) (sup s) (frac s) v.

(** * x/bank (modelled, not verified) *)

(* subUnlockedCoins for one coin *)
Definition bsub1 (e : env) (s : state) (a d : nat) (x : Z) : option state :=
  if (lock e a d <=? bal s a d) && (x <=? bal s a d - lock e a d)
  then Some (set_bal s a d (bal s a d - x)) else None.

Definition badd1 (s : state) (a d : nat) (x : Z) : state :=
  set_bal s a d (bal s a d + x).

Fixpoint bsub (e : env) (s : state) (a : nat) (c : coins) : option state :=
  match c with
  | [] => Some s
  | (d, x) :: r =>
      match bsub1 e s a d x with Some s' => bsub e s' a r | None => None end
  end.

Fixpoint badd (s : state) (a : nat) (c : coins) : state :=
  match c with
  | [] => s
  | (d, x) :: r => badd (badd1 s a d x) a r
  end.

Definition bsend (e : env) (s : state) (f t : nat) (c : coins) : option state :=
  match bsub e s f c with Some s1 => Some (badd s1 t c) | None => None end.

Fixpoint sup_add (s : state) (c : coins) (sign : Z) : state :=
  match c with
  | [] => s
  | (d, x) :: r => sup_add (set_sup s d (sup s d + sign * x)) r sign
  end.

Definition bmint (s : state) (m : nat) (c : coins) : state :=
  sup_add (badd s m c) c 1.

Definition bburn (e : env) (s : state) (m : nat) (c : coins) : option state :=
  match bsub e s m c with Some s1 => Some (sup_add s1 c (-1)) | None => None end.

(** * x/precisebank *)

(* view.go GetBalance(addr, akava): the reserve is hidden *)
Definition xbal (s : state) (a : nat) : Z := bal s a dU * CF + frac s a.
Definition get_balance (e : env) (s : state) (a : nat) : Z :=
  if Nat.eqb a (reserve e) then 0 else xbal s a.
(* view.go SpendableCoin(addr, akava) *)
Definition spendable_ext (e : env) (s : state) (a : nat) : Z :=
  if Nat.eqb a (reserve e) then 0
  else Z.max 0 (bal s a dU - lock e a dU) * CF + frac s a.

(* send.go sendExtendedCoins *)
Definition send_ext (e : env) (s : state) (f t : nat) (x : Z) : outcome state unit :=
  if Nat.eqb f t then
    (* self transfer: only the funds check, nothing moves *)
    if x <=? spendable_ext e s f then Ok s tt else Err
  else
  let sf := frac s f in
  let rf := frac s t in
  let ia := x / CF in
  let fa := x mod CF in
  let borrow := sf - fa <? 0 in
  let carry := CF <=? rf + fa in
  let sf' := if borrow then sf - fa + CF else sf - fa in
  let rf' := if carry then rf + fa - CF else rf + fa in
  let ia' := if borrow && carry then ia + 1 else ia in
  match (if 0 <? ia' then bsend e s f t [(dU, ia')] else Some s) with
  | None => Err
  | Some s1 =>
    match (if borrow && negb carry then bsend e s1 f (reserve e) [(dU, 1)] else Some s1) with
    | None => Err
    | Some s2 =>
      match (if negb borrow && carry then bsend e s2 (reserve e) t [(dU, 1)] else Some s2) with
      | None => Panic
      | Some s3 => Ok (set_frac (set_frac s3 f sf') t rf') tt
      end
    end
  end.

(* send.go SendCoins *)
Definition send_coins (e : env) (s : state) (f t : nat) (c : coins) : outcome state unit :=
  (* the reserve account may not be a party of a transfer *)
  if Nat.eqb f (reserve e) || Nat.eqb t (reserve e) then Err else
  if negb (coins_valid c) then Err else
  let x := amount_of dA c in
  let pass := without dA c in
  match (match pass with [] => Some s | _ => bsend e s f t pass end) with
  | None => Err
  | Some s1 => if 0 <? x then send_ext e s1 f t x else Ok s1 tt
  end.

(* mint.go mintExtendedCoin *)
Definition mint_ext (e : env) (s : state) (m : nat) (x : Z) : outcome state unit :=
  let fb := frac s m in
  let im := x / CF in
  let fm := x mod CF in
  let prev := rem s in
  let newrem := prev - fm in
  let nf := fb + fm in
  match (if (CF <=? nf) && (0 <=? newrem) then bsend e s (reserve e) m [(dU, 1)] else Some s) with
  | None => Err
  | Some s1 =>
    let im' := if (CF <=? nf) && (newrem <? 0) then im + 1 else im in
    let nf' := if CF <=? nf then nf - CF else nf in
    let s2 := if 0 <? im' then bmint s1 m [(dU, im')] else s1 in
    let s3 := set_frac s2 m nf' in
    let s4 := if (prev <? fm) && negb (CF <=? nf) then bmint s3 (reserve e) [(dU, 1)] else s3 in
    let newrem' := if newrem <? 0 then newrem + CF else newrem in
    Ok (set_rem s4 newrem') tt
  end.

(* mint.go MintCoins *)
Definition mint_coins (e : env) (s : state) (m : nat) (c : coins) : outcome state unit :=
  if Nat.eqb m (reserve e) then Panic else
  if negb (is_module e m) then Panic else
  if negb (minter e m) then Panic else
  if negb (coins_valid c) then Err else
  let x := amount_of dA c in
  let pass := without dA c in
  let s1 := match pass with [] => s | _ => bmint s m pass end in
  if 0 <? x then mint_ext e s1 m x else Ok s1 tt.

(* burn.go burnExtendedCoin *)
Definition burn_ext (e : env) (s : state) (m : nat) (x : Z) : outcome state unit :=
  let pf := frac s m in
  let prev := rem s in
  let ib := x / CF in
  let fb := x mod CF in
  let nf := pf - fb in
  let borrow := nf <? 0 in
  let nr := prev + fb in
  let over := CF <=? nr in
  let nf' := if borrow then nf + CF else nf in
  let nr' := if over then nr - CF else nr in
  let ib' := if borrow && over then ib + 1 else ib in
  match (if borrow && negb over then bsend e s m (reserve e) [(dU, 1)] else Some s) with
  | None => Err
  | Some s1 =>
    match (if negb borrow && over then bburn e s1 (reserve e) [(dU, 1)] else Some s1) with
    | None => Err
    | Some s2 =>
      match (if negb (ib' =? 0) then bburn e s2 m [(dU, ib')] else Some s2) with
      | None => Err
      | Some s3 => Ok (set_rem (set_frac s3 m nf') nr') tt
      end
    end
  end.

(* burn.go BurnCoins *)
Definition burn_coins (e : env) (s : state) (m : nat) (c : coins) : outcome state unit :=
  if Nat.eqb m (reserve e) then Panic else
  if negb (is_module e m) then Panic else
  if negb (burner e m) then Panic else
  if negb (coins_valid c) then Err else
  let x := amount_of dA c in
  let pass := without dA c in
  match (match pass with [] => Some s | _ => bburn e s m pass end) with
  | None => Err
  | Some s1 => if 0 <? x then burn_ext e s1 m x else Ok s1 tt
  end.

Inductive op :=
| Send (f t : nat) (c : coins)
| SendM2A (m t : nat) (c : coins)
| SendA2M (f m : nat) (c : coins)
| Mint (m : nat) (c : coins)
| Burn (m : nat) (c : coins).

Definition in_range (e : env) (a : nat) : bool := Nat.ltb a (nacc e).

Definition step (e : env) (s : state) (o : op) : outcome state unit :=
  match o with
  | Send f t c =>
      if in_range e f && in_range e t then send_coins e s f t c else Err
  | SendM2A m t c =>
      if negb (in_range e m && in_range e t) then Err else
      if negb (is_module e m) then Panic else
      if Nat.eqb m (reserve e) then Err else
      if blocked e t then Err else
      send_coins e s m t c
  | SendA2M f m c =>
      if negb (in_range e m && in_range e f) then Err else
      if negb (is_module e m) then Panic else
      if Nat.eqb m (reserve e) then Err else
      send_coins e s f m c
  | Mint m c => if in_range e m then mint_coins e s m c else Err
  | Burn m c => if in_range e m then burn_coins e s m c else Err
  end.

(* a failed operation leaves the state it started from *)
Definition step' (e : env) (s : state) (o : op) : state :=
  match step e s o with Ok s' _ => s' | _ => s end.

Definition run (e : env) (s : state) (ops : list op) : state :=
  fold_left (step' e) ops s.

(** * Correspondence-check support: observations and comparison *)

Inductive rclass := ROk | RErr | RPanic.
Definition rclass_eqb (a b : rclass) : bool :=
  match a, b with ROk, ROk | RErr, RErr | RPanic, RPanic => true | _, _ => false end.
Definition class_of {S O} (r : outcome S O) : rclass :=
  match r with Ok _ _ => ROk | Err => RErr | Panic => RPanic end.

(* what the harness records after each operation: the result class and the
   changes of the implementation's observable state (bank balances of the
   tracked denoms for every account, raw fractional balances, remainder,
   supplies) relative to the previous observation.  The checker keeps a shadow
   copy of the implementation's state, applies the recorded changes and
   compares the full projections of model state and shadow state. *)
Record obs := mkObs {
  o_class : rclass;
  o_dbal : list (nat * nat * Z);   (* (account, denom, new balance) *)
  o_dfrac : list (nat * Z);
  o_rem : Z;
  o_dsup : list (nat * Z)
}.

Definition tracked : list nat := [0; 1; 2; 3]%nat.

Definition project (e : env) (s : state) : list (list Z) * list Z * Z * list Z :=
  (map (fun a => map (fun d => bal s a d) tracked) (seq 0 (nacc e)),
   map (fun a => frac s a) (seq 0 (nacc e)),
   rem s,
   map (fun d => sup s d) tracked).

Fixpoint list_eqb {A} (eqb : A -> A -> bool) (l1 l2 : list A) : bool :=
  match l1, l2 with
  | [], [] => true
  | x :: r1, y :: r2 => eqb x y && list_eqb eqb r1 r2
  | _, _ => false
  end.

Definition proj_eqb (p q : list (list Z) * list Z * Z * list Z) : bool :=
  let '(b, f, r0, su) := p in
  let '(b', f', r0', su') := q in
  list_eqb (list_eqb Z.eqb) b b' && list_eqb Z.eqb f f' && (r0 =? r0') && list_eqb Z.eqb su su'.

Definition apply_obs (sh : state) (o : obs) : state :=
  let b := fold_left (fun f p => upd2 f (fst (fst p)) (snd (fst p)) (snd p)) (o_dbal o) (bal sh) in
  let fr := fold_left (fun f p => upd f (fst p) (snd p)) (o_dfrac o) (frac sh) in
  let su := fold_left (fun f p => upd f (fst p) (snd p)) (o_dsup o) (sup sh) in
  mkState b su fr (o_rem o).

(* boolean form of the module invariant (evaluated on every model state
   during the correspondence run; by theorem it cannot be false) *)
Definition inv_b (e : env) (s : state) : bool :=
  forallb (fun a => (0 <=? frac s a) && (frac s a <? CF)) (seq 0 (nacc e))
  && (0 <=? rem s) && (rem s <? CF)
  && (bal s (reserve e) dU * CF =? sumN (nacc e) (frac s) + rem s)
  && (sup s dA =? 0)
  && (frac s (reserve e) =? 0).

(* first step index (from 0) at which model and implementation differ,
   or at which the model invariant evaluates to false *)
Fixpoint first_mismatch (e : env) (s sh : state) (h : list (op * obs)) (i : nat) : option nat :=
  match h with
  | [] => None
  | (o, ob) :: r =>
      let res := step e s o in
      let s' := match res with Ok s1 _ => s1 | _ => s end in
      let sh' := apply_obs sh ob in
      if rclass_eqb (class_of res) (o_class ob)
         && proj_eqb (project e s') (project e sh')
         && inv_b e s'
      then first_mismatch e s' sh' r (S i)
      else Some i
  end.

(* list-based construction of environments and states from harness data *)
Definition nthZ (l : list Z) (i : nat) : Z := nth i l 0.
Definition nthB (l : list bool) (i : nat) : bool := nth i l false.

Definition mk_env (n res : nat) (locks : list (list Z)) (ism mint burn blk : list bool) : env :=
  {| nacc := n; reserve := res;
     lock := fun a d => nthZ (nth a locks []) d;
     is_module := nthB ism; minter := nthB mint; burner := nthB burn; blocked := nthB blk |}.

Definition mk_state (bals : list (list Z)) (sups fracs : list Z) (r : Z) : state :=
  mkState (fun a d => nthZ (nth a bals []) d) (nthZ sups) (nthZ fracs) r.

Record history := mkHist {
  h_env : env;
  h_init : state;
  h_steps : list (op * obs)
}.

Definition check_history (h : history) : option nat :=
  if inv_b (h_env h) (h_init h)
  then first_mismatch (h_env h) (h_init h) (h_init h) (h_steps h) 0
  else Some 0%nat.

Fixpoint mismatches_from (i : nat) (hs : list history) : list (nat * nat) :=
  match hs with
  | [] => []
  | h :: r =>
      match check_history h with
      | None => mismatches_from (S i) r
      | Some k => (i, k) :: mismatches_from (S i) r
      end
  end.
Definition mismatches := mismatches_from 0.
