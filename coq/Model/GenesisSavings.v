(* x/savings/genesis.go (ExportGenesis, InitGenesis) and types/genesis.go, types/deposit.go,
   types/params.go (GenesisState.Validate) over the state of Model/Savings.v; the wrapper
   machine runs inside the histories of Model/Earn.v (whose state contains the savings
   state: the earn module account is a depositor of the savings-strategy vaults).
   Definitions only. *)
From Kava Require Import Base.Prelude Base.Dec Model.Savings Model.Earn.
Local Open Scope Z_scope.

Record genesis := mkGen {
  g_supported : list nat;               (* Params.SupportedDenoms *)
  g_deposits : list (nat * coins)       (* Deposits: depositor, amount *)
}.

(** * ExportGenesis: GetParams, GetAllDeposits *)

(* the stored sdk.Coins of a depositor: the non-zero amounts in denom order *)
Definition dep_coins (e : senv) (s : sstate) (a : nat) : coins :=
  flat_map (fun d => if sdep s a d =? 0 then [] else [(d, sdep s a d)]) (denoms e).

Definition export_genesis (e : senv) (s : sstate) : genesis :=
  mkGen (filter (sav_supported e) (denoms e))
        (flat_map (fun a => if sdep_found e s a then [(a, dep_coins e s a)] else []) (seq 0 (nacc e))).

(** * GenesisState.Validate *)

Fixpoint nodup_nats (seen : list nat) (l : list nat) : bool :=
  match l with
  | [] => true
  | x :: r => negb (existsb (Nat.eqb x) seen) && nodup_nats (x :: seen) r
  end.

(* Params.Validate: no duplicated supported denom; Deposits.Validate: every amount IsValid, no
   duplicated depositor *)
Definition validate_genesis (g : genesis) : bool :=
  nodup_nats [] (g_supported g)
  && forallb (fun p => coins_valid (snd p)) (g_deposits g)
  && nodup_nats [] (map fst (g_deposits g)).

(** * InitGenesis *)

Definition set_deposit (f : nat -> nat -> Z) (a : nat) (c : coins) : nat -> nat -> Z :=
  (* SetDeposit overwrites the depositor's record: denoms not in [c] become absent *)
  fun x d => if Nat.eqb x a then (match find (fun p => Nat.eqb (fst p) d) c with Some p => snd p | None => 0 end) else f x d.

(* [s0] supplies the bank balances; the savings store is empty when InitGenesis starts; the
   module account exists (it is account [sav_acc]); the supported denoms are a constant of the
   model's environment *)
Definition init_genesis (e : senv) (s0 : sstate) (g : genesis) : outcome sstate unit :=
  if negb (validate_genesis g) then Panic else
  Ok (mkS (bal s0) (fold_left (fun f p => set_deposit f (fst p) (snd p)) (g_deposits g) (fun _ _ => 0))) tt.

Definition sreimport (e : senv) (s : sstate) : outcome sstate unit := init_genesis e s (export_genesis e s).

(** * The wrapper machine over the earn + savings histories *)

Inductive gop :=
| GOp (o : op)
| GReimport
| GProbe (g : genesis).

Definition rcode (r : rclass) : Z := match r with ROk => 0 | RErr => 1 | RPanic => 2 end.

(* both verdicts on a probed genesis state: Validate, and the class of InitGenesis, which the
   implementation runs on every probed state (also those Validate refuses) on an emptied store *)
Definition probe (e : env) (s : state) (g : genesis) : list Z :=
  [(if validate_genesis g then 1 else 0); rcode (class_of (init_genesis (se e) (sv s) g))].

Definition gstep (e : env) (s : state) (o : gop) : outcome state Z :=
  match o with
  | GOp x => step e s x
  | GReimport => lift s (sreimport (se e) (sv s))
  | GProbe _ => Ok s 0
  end.

Definition gstep' (e : env) (s : state) (o : gop) : state :=
  match gstep e s o with Ok s' _ => s' | _ => s end.
Definition grun (e : env) (s : state) (ops : list gop) : state := fold_left (gstep' e) ops s.

(** * Correspondence-check support *)

Definition coins_eqb (a b : coins) : bool := list_eqb (fun p q => Nat.eqb (fst p) (fst q) && (snd p =? snd q)) a b.
Definition genesis_eqb (a b : genesis) : bool :=
  list_eqb Nat.eqb (g_supported a) (g_supported b)
  && list_eqb (fun p q => Nat.eqb (fst p) (fst q) && coins_eqb (snd p) (snd q)) (g_deposits a) (g_deposits b).

Inductive gobs :=
| ObsStep (o : obs)
| ObsReimport (o : obs) (g : genesis)
| ObsProbe (v : list Z).

Definition no_change (vals : list (list Z)) : obs := mkObs ROk 0 [] [] [] [] [] vals.

Fixpoint gfirst_mismatch (e : env) (s sh : state) (h : list (gop * gobs)) (i : nat) : option nat :=
  match h with
  | [] => None
  | (o, gb) :: r =>
      let res := gstep e s o in
      let s' := match res with Ok s1 _ => s1 | _ => s end in
      let ob := match gb with ObsStep x => x | ObsReimport x _ => x | ObsProbe _ => no_change (vals_of e s') end in
      let sh' := apply_obs sh ob in
      let extra := match o, gb with
                   | GOp _, ObsStep _ => true
                   | GReimport, ObsReimport _ g => genesis_eqb (export_genesis (se e) (sv s)) g
                   | GProbe g, ObsProbe v => list_eqb Z.eqb (probe e s g) v
                   | _, _ => false
                   end in
      if extra
         && rclass_eqb (class_of res) (o_class ob)
         && (out_of res =? o_out ob)
         && proj_eqb (project e s') (project e sh')
         && rows_eqb (vals_of e s') (o_vals ob)
         && inv_b e s'
      then gfirst_mismatch e s' sh' r (S i)
      else Some i
  end.

Record ghistory := mkGHist { gh_env : env; gh_init : state; gh_steps : list (gop * gobs) }.

Definition gcheck_history (h : ghistory) : option nat :=
  if inv_b (gh_env h) (gh_init h)
  then gfirst_mismatch (gh_env h) (gh_init h) (gh_init h) (gh_steps h) 0
  else Some 0%nat.

Fixpoint gmismatches_from (i : nat) (hs : list ghistory) : list (nat * nat) :=
  match hs with
  | [] => []
  | h :: r =>
      match gcheck_history h with
      | None => gmismatches_from (S i) r
      | Some k => (i, k) :: gmismatches_from (S i) r
      end
  end.
Definition gmismatches := gmismatches_from 0.
