(* Model of x/earn/keeper: deposit.go, withdraw.go, vault_share.go, vault.go,
   strategy_hard.go, strategy_savings.go (and the ValidateBasic of the two
   messages), over Model/Savings.v (x/savings + abstract x/bank) and an abstract
   x/hard position of the earn module account.

   x/hard is not modelled: the synced hard deposit of the earn module account
   is one integer per denom ([hval]); its growth by interest between operations
   is the environment operation [Accrue d v] whose new value [v] is recorded
   from the implementation (side conditions: not smaller than the current
   value, and zero when the position is empty); a hard deposit adds exactly the amount, a hard withdrawal removes
   min(amount, position).  Borrowing and repaying by third parties only changes
   the hard module account's bank balance ([HardFlow]).
   Definitions only. *)
From Kava Require Import Base.Prelude Base.Dec Model.Savings.
Local Open Scope Z_scope.

Record env := {
  se : senv;
  earn_acc : nat;                       (* the earn module account (not a blocked address) *)
  hard_acc : nat;                       (* the hard module account *)
  vault_strat : nat -> nat;             (* params.AllowedVaults: 0 no vault, 1 hard, 2 savings (exactly one strategy per vault) *)
  vault_allowed : nat -> nat -> bool;   (* AllowedVault.IsAccountAllowed: denom, account *)
  hard_mm : nat -> bool                 (* hard has a money market for the denom *)
}.

Record state := mkE {
  sv : sstate;                          (* bank balances and savings deposits *)
  hval : nat -> Z;                      (* hard: synced deposit of the earn module account per denom *)
  vrec : nat -> option Z;               (* VaultRecord: total shares (Dec mantissa); None = no record *)
  shr : nat -> nat -> Z                 (* VaultShareRecord: account, denom -> shares (Dec mantissa); 0 = absent *)
}.

Inductive res (A : Type) : Type := Val (a : A) | Fail | Crash.
Arguments Val {A} a.
Arguments Fail {A}.
Arguments Crash {A}.

(** * strategies *)

(* vault.go GetVaultTotalValue -> strategy.GetEstimatedTotalAssets *)
Definition total_value (e : env) (s : state) (d : nat) : option Z :=
  match vault_strat e d with
  | 1%nat => Some (hval s d)
  | 2%nat => Some (sdep (sv s) (earn_acc e) d)
  | _ => None
  end.

(* sdk.NewCoins(coin): a zero coin is dropped *)
Definition new_coins (d : nat) (x : Z) : coins := if x =? 0 then [] else [(d, x)].

(* the hard deposit record of the earn module account exists iff some coin of it is non-zero *)
Definition hard_found (e : env) (s : state) : bool :=
  existsb (fun d => 0 <? hval s d) (denoms (se e)).

(* strategy_hard.go Deposit -> hard Deposit (amount > 0) *)
Definition hard_deposit (e : env) (s : state) (d : nat) (x : Z) : option state :=
  if negb (hard_mm e d) then None else
  match bsend1 (bal (sv s)) (earn_acc e) (hard_acc e) d x with
  | None => None
  | Some b => Some (mkE (mkS b (sdep (sv s))) (upd (hval s) d (hval s d + x)) (vrec s) (shr s))
  end.

(* strategy_hard.go Withdraw -> hard Withdraw: deposit must exist; requested
   denoms must be in the deposit; amount capped at the deposit; the earn module
   account has no borrow, so the loan-to-value check passes *)
Definition hard_withdraw (e : env) (s : state) (d : nat) (w : Z) : option state :=
  if negb (hard_found e s) then None else
  if w =? 0 then Some s else
  if hval s d <=? 0 then None else
  let a := Z.min w (hval s d) in
  match bsend1 (bal (sv s)) (hard_acc e) (earn_acc e) d a with
  | None => None
  | Some b => Some (mkE (mkS b (sdep (sv s))) (upd (hval s) d (hval s d - a)) (vrec s) (shr s))
  end.

Definition with_sv (s : state) (x : sstate) : state := mkE x (hval s) (vrec s) (shr s).

Definition strat_deposit (e : env) (s : state) (d : nat) (x : Z) : option state :=
  match vault_strat e d with
  | 1%nat => hard_deposit e s d x
  | 2%nat => match sav_deposit (se e) (sv s) (earn_acc e) (new_coins d x) with
             | Ok x' _ => Some (with_sv s x') | _ => None end
  | _ => None
  end.

Definition strat_withdraw (e : env) (s : state) (d : nat) (w : Z) : option state :=
  match vault_strat e d with
  | 1%nat => hard_withdraw e s d w
  | 2%nat => match sav_withdraw (se e) (sv s) (earn_acc e) (new_coins d w) with
             | Ok x' _ => Some (with_sv s x') | _ => None end
  | _ => None
  end.

(** * vault_share.go *)

(* ConvertToShares (assets > 0) *)
Definition convert_to_shares (e : env) (s : state) (d : nat) (x : Z) : res Z :=
  match vrec s d with
  | None => Val (dec_of_int x)               (* no shares issued yet: 1:1 *)
  | Some T =>
      match total_value e s d with
      | None => Fail
      | Some V =>
          if V =? 0 then Fail else
          let sh := dec_quo_trunc (dec_mul (dec_of_int x) T) (dec_of_int V) in
          if sh =? 0 then Fail else
          if sh <? 0 then Crash               (* NewVaultShare panics on a negative amount *)
          else Val sh
      end
  end.

(* ConvertToAssets *)
Definition convert_to_assets (e : env) (s : state) (d : nat) (sh : Z) : res Z :=
  match vrec s d with
  | None => Fail
  | Some T =>
      match total_value e s d with
      | None => Fail
      | Some V =>
          if T =? 0 then Crash                (* QuoTruncate by zero *)
          else
          let v := dec_trunc_int (dec_quo_trunc (dec_mul (dec_of_int V) sh) T) in
          if v <? 0 then Crash else Val v     (* sdk.NewCoin panics on a negative amount *)
      end
  end.

(* the VaultShareRecord of [u] exists iff it has shares of some denom *)
Definition share_found (e : env) (s : state) (u : nat) : bool :=
  existsb (fun d => negb (shr s u d =? 0)) (denoms (se e)).

(* vault.go GetVaultAccountValue *)
Definition account_value (e : env) (s : state) (u d : nat) : res Z :=
  if share_found e s u then convert_to_assets e s d (shr s u d) else Fail.

(** * deposit.go Deposit (behind MsgDeposit.ValidateBasic) *)
Definition earn_deposit (e : env) (s : state) (u d : nat) (x : Z) (strat : nat) : outcome state Z :=
  if x <? 0 then Err else                              (* ValidateBasic: Coin.Validate *)
  if Nat.eqb (vault_strat e d) 0 then Err else         (* ErrInvalidVaultDenom *)
  if x =? 0 then Err else                              (* ErrInsufficientAmount *)
  if negb (Nat.eqb strat (vault_strat e d)) then Err else   (* ErrInvalidVaultStrategy (covers Strategy.Validate) *)
  if negb (vault_allowed e d u) then Err else          (* ErrAccountDepositNotAllowed *)
  match bsend1 (bal (sv s)) u (earn_acc e) d x with    (* depositor -> earn module account *)
  | None => Err
  | Some b =>
      let s1 := with_sv s (mkS b (sdep (sv s))) in
      match convert_to_shares e s1 d x with            (* before the strategy deposit *)
      | Fail => Err
      | Crash => Panic
      | Val sh =>
          let tot := match vrec s1 d with Some t => t | None => 0 end in
          let s2 := mkE (sv s1) (hval s1) (upd (vrec s1) d (Some (tot + sh))) (upd2 (shr s1) u d (shr s1 u d + sh)) in
          match strat_deposit e s2 d x with
          | None => Err
          | Some s3 => Ok s3 0
          end
      end
  end.

(** * withdraw.go Withdraw (behind MsgWithdraw.ValidateBasic); output: the coin amount paid *)
Definition earn_withdraw (e : env) (s : state) (u d : nat) (x : Z) (strat : nat) : outcome state Z :=
  if x <? 0 then Err else
  if Nat.eqb (vault_strat e d) 0 then Err else
  if x =? 0 then Err else
  if negb (Nat.eqb strat (vault_strat e d)) then Err else
  match vrec s d with
  | None => Err                                        (* ErrVaultRecordNotFound *)
  | Some tot =>
  if negb (share_found e s u) then Err else            (* ErrVaultShareRecordNotFound *)
  match convert_to_shares e s d x with
  | Fail => Err
  | Crash => Panic
  | Val ws0 =>
  if shr s u d <? ws0 then Err else                    (* ErrInsufficientValue *)
  match convert_to_assets e s d ws0 with
  | Fail => Err
  | Crash => Panic
  | Val w =>
  match account_value e s u d with
  | Fail => Err
  | Crash => Panic
  | Val av =>
  if av <? w then Err else                             (* ErrInsufficientValue *)
  match strat_withdraw e s d w with                    (* strategy -> earn module account *)
  | None => Err
  | Some s1 =>
  match bsend1 (bal (sv s1)) (earn_acc e) u d w with    (* earn module account -> withdrawer *)
  | None => Err
  | Some b =>
      let s2 := with_sv s1 (mkS b (sdep (sv s1))) in
      (* ShareIsDust on the remaining shares: the total value is already
         reduced by the strategy withdrawal, the vault record not yet updated *)
      match convert_to_assets e s2 d (shr s u d - ws0) with
      | Fail => Err
      | Crash => Panic
      | Val rest =>
          let ws := if rest =? 0 then shr s u d else ws0 in   (* dust: remove the whole share balance *)
          if tot - ws <? 0 then Panic else             (* VaultShare.Sub panics *)
          let tot' := tot - ws in
          Ok (mkE (sv s2) (hval s2)
                  (upd (vrec s2) d (if tot' =? 0 then None else Some tot'))   (* UpdateVaultRecord deletes at zero *)
                  (upd2 (shr s2) u d (shr s u d - ws))) w
      end
  end end end end end
  end.

(** * operations *)
Inductive op :=
| SDeposit (u : nat) (c : coins)
| SWithdraw (u : nat) (c : coins)
| EDeposit (u d : nat) (x : Z) (strat : nat)
| EWithdraw (u d : nat) (x : Z) (strat : nat)
| Accrue (d : nat) (v : Z)          (* hard interest: the earn module account's synced position in denom d becomes v *)
| HardFlow (d : nat) (delta : Z)    (* third parties borrow from / repay to hard *)
| Donate (u d : nat) (x : Z).       (* bank transfer to the earn module account *)

(* only ordinary accounts sign messages *)
Definition is_user (e : env) (u : nat) : bool :=
  Nat.ltb u (nacc (se e)) && negb (Nat.eqb u (earn_acc e)) && negb (Nat.eqb u (sav_acc (se e))) && negb (Nat.eqb u (hard_acc e)).

Definition lift {O} (s : state) (r : outcome sstate O) : outcome state Z :=
  match r with Ok x _ => Ok (with_sv s x) 0 | Err => Err | Panic => Panic end.

Definition step (e : env) (s : state) (o : op) : outcome state Z :=
  match o with
  | SDeposit u c => if is_user e u then lift s (sav_msg_deposit (se e) (sv s) u c) else Err
  | SWithdraw u c => if is_user e u then lift s (sav_msg_withdraw (se e) (sv s) u c) else Err
  | EDeposit u d x st => if is_user e u then earn_deposit e s u d x st else Err
  | EWithdraw u d x st => if is_user e u then earn_withdraw e s u d x st else Err
  | Accrue d v =>
      (* side conditions on the recorded value: interest never shrinks the
         position, and an empty position earns nothing *)
      if Nat.eqb (vault_strat e d) 1 && (hval s d <=? v) && (negb (hval s d =? 0) || (v =? 0))
      then Ok (mkE (sv s) (upd (hval s) d v) (vrec s) (shr s)) 0 else Err
  | HardFlow d delta =>
      let b := bal (sv s) in
      if 0 <=? b (hard_acc e) d + delta
      then Ok (with_sv s (mkS (upd2 b (hard_acc e) d (b (hard_acc e) d + delta)) (sdep (sv s)))) 0 else Err
  | Donate u d x =>
      if negb (is_user e u) || (x <=? 0) then Err else
      match bsend1 (bal (sv s)) u (earn_acc e) d x with
      | None => Err
      | Some b => Ok (with_sv s (mkS b (sdep (sv s)))) 0
      end
  end.

(* a failed operation leaves the state it started from *)
Definition step' (e : env) (s : state) (o : op) : state :=
  match step e s o with Ok s' _ => s' | _ => s end.

Definition run (e : env) (s : state) (ops : list op) : state := fold_left (step' e) ops s.

(** * Correspondence-check support: observations and comparison *)

Inductive rclass := ROk | RErr | RPanic.
Definition rclass_eqb (a b : rclass) : bool :=
  match a, b with ROk, ROk | RErr, RErr | RPanic, RPanic => true | _, _ => false end.
Definition class_of {S O} (r : outcome S O) : rclass :=
  match r with Ok _ _ => ROk | Err => RErr | Panic => RPanic end.

(* what the harness records after each operation: result class, the amount
   returned by an earn withdrawal, the changes of the implementation's
   observable state relative to the previous observation (bank balances, raw
   savings deposits, the hard position of the earn module account, raw vault
   records (-1 = no record), raw share records) and the full table of
   GetVaultAccountValue results (-1 = error) *)
Record obs := mkObs {
  o_class : rclass;
  o_out : Z;
  o_dbal : list (nat * nat * Z);
  o_dsdep : list (nat * nat * Z);
  o_dhval : list (nat * Z);
  o_dvrec : list (nat * Z);
  o_dshr : list (nat * nat * Z);
  o_vals : list (list Z)
}.

Definition vrecZ (o : option Z) : Z := match o with Some t => t | None => -1 end.
Definition Zvrec (z : Z) : option Z := if z <? 0 then None else Some z.

Definition accs (e : env) : list nat := seq 0 (nacc (se e)).

Definition project (e : env) (s : state) :=
  (map (fun a => map (fun d => bal (sv s) a d) (denoms (se e))) (accs e),
   map (fun a => map (fun d => sdep (sv s) a d) (denoms (se e))) (accs e),
   map (fun d => hval s d) (denoms (se e)),
   map (fun d => vrecZ (vrec s d)) (denoms (se e)),
   map (fun a => map (fun d => shr s a d) (denoms (se e))) (accs e)).

Definition vals_of (e : env) (s : state) : list (list Z) :=
  map (fun u => map (fun d => match account_value e s u d with Val z => z | _ => -1 end) (denoms (se e)))
      (filter (is_user e) (accs e)).

Fixpoint list_eqb {A} (eqb : A -> A -> bool) (l1 l2 : list A) : bool :=
  match l1, l2 with
  | [], [] => true
  | x :: r1, y :: r2 => eqb x y && list_eqb eqb r1 r2
  | _, _ => false
  end.

Definition rows_eqb := list_eqb (list_eqb Z.eqb).

Definition proj_eqb (p q : list (list Z) * list (list Z) * list Z * list Z * list (list Z)) : bool :=
  let '(b, sd, hv, vr, sh) := p in
  let '(b', sd', hv', vr', sh') := q in
  rows_eqb b b' && rows_eqb sd sd' && list_eqb Z.eqb hv hv' && list_eqb Z.eqb vr vr' && rows_eqb sh sh'.

Definition app2 (f : nat -> nat -> Z) (l : list (nat * nat * Z)) : nat -> nat -> Z :=
  fold_left (fun g p => upd2 g (fst (fst p)) (snd (fst p)) (snd p)) l f.

Definition apply_obs (sh : state) (o : obs) : state :=
  mkE (mkS (app2 (bal (sv sh)) (o_dbal o)) (app2 (sdep (sv sh)) (o_dsdep o)))
      (fold_left (fun g p => upd g (fst p) (snd p)) (o_dhval o) (hval sh))
      (fold_left (fun g p => upd g (fst p) (Zvrec (snd p))) (o_dvrec o) (vrec sh))
      (app2 (shr sh) (o_dshr o)).

Definition sumZ (l : list nat) (f : nat -> Z) : Z := fold_right (fun a acc => f a + acc) 0 l.

(* boolean form of the invariant of Proofs/Earn.v (evaluated on every model
   state during the correspondence run) *)
Definition inv_b (e : env) (s : state) : bool :=
  forallb (fun d =>
    forallb (fun a => (0 <=? bal (sv s) a d) && (0 <=? sdep (sv s) a d) && (0 <=? shr s a d)) (accs e)
    && (0 <=? hval s d)
    && (bal (sv s) (sav_acc (se e)) d =? sumN (nacc (se e)) (fun a => sdep (sv s) a d))
    && (match vrec s d with Some t => 0 <? t | None => true end)
    && ((match vrec s d with Some t => t | None => 0 end) =? sumN (nacc (se e)) (fun a => shr s a d)))
  (denoms (se e)).

Definition out_of (r : outcome state Z) : Z := match r with Ok _ z => z | _ => 0 end.

Fixpoint first_mismatch (e : env) (s sh : state) (h : list (op * obs)) (i : nat) : option nat :=
  match h with
  | [] => None
  | (o, ob) :: r =>
      let res := step e s o in
      let s' := match res with Ok s1 _ => s1 | _ => s end in
      let sh' := apply_obs sh ob in
      if rclass_eqb (class_of res) (o_class ob)
         && (out_of res =? o_out ob)
         && proj_eqb (project e s') (project e sh')
         && rows_eqb (vals_of e s') (o_vals ob)
         && inv_b e s'
      then first_mismatch e s' sh' r (S i)
      else Some i
  end.

(* list-based construction of environments and states from harness data *)
Definition nthZ (l : list Z) (i : nat) : Z := nth i l 0.
Definition nthB (l : list bool) (i : nat) : bool := nth i l false.
Definition nthN (l : list nat) (i : nat) : nat := nth i l 0%nat.
Definition tab (rows : list (list Z)) (a d : nat) : Z := nthZ (nth a rows []) d.

Definition mk_env (n sav earn hard : nat) (dens : list nat) (sup : list bool) (strat : list nat)
                  (allowed : list (list bool)) (mm : list bool) : env :=
  {| se := {| nacc := n; sav_acc := sav; sav_supported := nthB sup; denoms := dens |};
     earn_acc := earn; hard_acc := hard;
     vault_strat := nthN strat;
     vault_allowed := fun d a => nthB (nth d allowed []) a;
     hard_mm := nthB mm |}.

Definition mk_state (bals sdeps : list (list Z)) (hv vr : list Z) (shs : list (list Z)) : state :=
  mkE (mkS (tab bals) (tab sdeps)) (nthZ hv) (fun d => Zvrec (nth d vr (-1))) (tab shs).

Record history := mkHist {
  h_env : env;
  h_init : state;
  h_steps : list (op * obs)
}.

Definition check_history (h : history) : option nat :=
  if inv_b (h_env h) (h_init h)
  then first_mismatch (h_env h) (h_init h) (h_init h) (h_steps h) 0
  else Some 0%nat.

Fixpoint mismatches_from (i : nat) (hs : list history) : list (nat * nat) :=
  match hs with
  | [] => []
  | h :: r =>
      match check_history h with
      | None => mismatches_from (S i) r
      | Some k => (i, k) :: mismatches_from (S i) r
      end
  end.
Definition mismatches := mismatches_from 0.
