(* Model of x/incentive/types/accumulator.go: Accumulator.Accumulate,
   getTimeElapsedWithinLimits, calculateNewRewards.  Times are Unix
   nanoseconds (Z); decimals are LegacyDec mantissas (Base/Dec.v).
   Definitions only. *)
From Kava Require Import Base.Prelude Base.Dec.
Local Open Scope Z_scope.

Definition NS : Z := 1000000000.             (* nanoseconds per second *)

(* int64(math.RoundToEven(duration.Seconds())) for a duration of d >= 0
   nanoseconds.  Duration.Seconds() is float64(d/1e9) + float64(d%1e9)/1e9;
   for whole-second parts below 2^22 (48 days) the float sum is far enough from
   every x.5 boundary that rounding the nanosecond count itself gives the same
   integer (hypothesis stated in props/C09.json; the harness keeps the
   accumulation gaps inside it). *)
Definition secs_of_ns (d : Z) : Z :=
  let q := d / NS in
  let r := d mod NS in
  if 2 * r <? NS then q
  else if NS <? 2 * r then q + 1
  else if Z.even q then q else q + 1.

(* A reward period of the params: start, end (nanoseconds) and the reward
   rate per second for every reward denom (0 = the denom is not rewarded).
   RewardsPerSecond is an sdk.Coins: unique denoms, positive amounts. *)
Record period := mkPeriod {
  p_start : Z;
  p_end : Z;
  p_rate : nat -> Z
}.

(* getTimeElapsedWithinLimits(start=a, end=b, limitMin, limitMax); None = panic *)
Definition elapsed_within (a b lmin lmax : Z) : option Z :=
  if b <? a then None
  else if lmax <? lmin then None
  else if (lmax <? a) || (b <? lmin) then Some 0
  else Some (Z.min b lmax - Z.max a lmin).

(* one factor of calculateNewRewards:
   NewDecFromInt(rate).Mul(NewDec(seconds)).Quo(totalSourceShares) *)
Definition index_increment (rate secs T : Z) : Z :=
  dec_quo (dec_mul (dec_of_int rate) (dec_of_int secs)) T.

(* calculateNewRewards for one reward denom: nothing when there are no source
   shares or the rounded duration is not positive *)
Definition new_reward (rate T dur : Z) : Z :=
  if T <=? 0 then 0
  else let s := secs_of_ns dur in
       if s <=? 0 then 0 else index_increment rate s T.

(* the reward the module counts as emitted by that accumulation (integer units) *)
Definition emitted_of (rate T dur : Z) : Z :=
  if T <=? 0 then 0
  else let s := secs_of_ns dur in
       if s <=? 0 then 0 else rate * s.

(* Accumulator.Accumulate: new (PreviousAccumulationTime, Indexes); None = panic.
   prev is the stored accrual time (or the block time when none is stored). *)
Definition accumulate (pd : period) (prev : Z) (idx : nat -> Z) (T now : Z)
  : option (Z * (nat -> Z)) :=
  match elapsed_within prev now (p_start pd) (p_end pd) with
  | None => None
  | Some dur =>
      Some (Z.min (p_end pd) now, fun d => idx d + new_reward (p_rate pd d) T dur)
  end.

(** * The bkava (liquid-staking) earn vaults: keeper/rewards_earn.go
      accumulateEarnBkavaRewards, GetProportionalRewardsPerSecond,
      accumulateBkavaEarnRewards, types.CalculatePerSecondRewards *)

(* GetProportionalRewardsPerSecond for one reward denom, a Dec:
   NewDecFromInt(rate).Mul(NewDecFromInt(v)).Quo(NewDecFromInt(V)); nothing when
   the total derivative value V is zero.  v = value (in staked tokens) of the
   whole supply of this vault's derivative denom, V = of all derivative denoms. *)
Definition bk_rate (rate v V : Z) : Z :=
  if V =? 0 then 0 else dec_quo (dec_mul (dec_of_int rate) (dec_of_int v)) (dec_of_int V).

(* CalculatePerSecondRewards for one denom: rate.Mul(NewDec(whole seconds)) (DecCoins.MulDec),
   nothing when the rounded duration is not positive *)
Definition bk_persec (rate_dec dur : Z) : Z :=
  let s := secs_of_ns dur in if s <=? 0 then 0 else dec_mul rate_dec (dec_of_int s).

(* total rewards of the vault for this accumulation (Dec mantissa): the staking
   rewards collected for the vault's validator (integer coins, no window) plus
   the proportional per-second rewards *)
Definition bk_rewards (rate_dec dur stk : Z) : Z := dec_of_int stk + bk_persec rate_dec dur.

(* increment of the vault's global index: rewards.Quo(total shares); rewards are
   dropped when the vault has no shares *)
Definition bk_increment (rewards T : Z) : Z := if T <=? 0 then 0 else dec_quo rewards T.

(* what the module counts as emitted by that accumulation (Dec mantissa) *)
Definition bk_emitted (rewards T : Z) : Z := if T <=? 0 then 0 else rewards.
