(* Model of x/savings/keeper: deposit.go (Deposit, ValidateDeposit), withdraw.go
   (Withdraw, CalculateWithdrawAmount) and the ValidateBasic of the two
   messages, over an abstract x/bank (balances only: no account of the
   histories is a vesting account; recipients are never blocked addresses).
   Definitions only. *)
From Kava Require Import Base.Prelude.
Local Open Scope Z_scope.

Definition coins := list (nat * Z).

(* sdk.Coins.IsValid: strictly increasing denoms, all amounts positive *)
Fixpoint coins_valid_from (lo : option nat) (c : coins) : bool :=
  match c with
  | [] => true
  | (d, x) :: r =>
      (0 <? x) && (match lo with None => true | Some p => Nat.ltb p d end)
      && coins_valid_from (Some d) r
  end.
Definition coins_valid (c : coins) := coins_valid_from None c.

(* MsgDeposit / MsgWithdraw ValidateBasic: IsValid and not IsZero (a valid
   non-empty set is not zero) *)
Definition msg_coins_ok (c : coins) : bool :=
  coins_valid c && negb (match c with [] => true | _ => false end).

Record senv := {
  nacc : nat;                       (* accounts are 0 .. nacc-1 *)
  sav_acc : nat;                    (* the savings module account *)
  sav_supported : nat -> bool;      (* params.SupportedDenoms *)
  denoms : list nat                 (* every denom that occurs in a history *)
}.

Record sstate := mkS {
  bal : nat -> nat -> Z;            (* x/bank balance: account, denom *)
  sdep : nat -> nat -> Z            (* savings deposit record: depositor, denom (0 = absent) *)
}.

(** x/bank (modelled, not verified): SendCoins of one coin *)
Definition bsend1 (b : nat -> nat -> Z) (f t d : nat) (x : Z) : option (nat -> nat -> Z) :=
  if x <=? b f d
  then let b1 := upd2 b f d (b f d - x) in Some (upd2 b1 t d (b1 t d + x))
  else None.

Fixpoint bsend (b : nat -> nat -> Z) (f t : nat) (c : coins) : option (nat -> nat -> Z) :=
  match c with
  | [] => Some b
  | (d, x) :: r => match bsend1 b f t d x with Some b1 => bsend b1 f t r | None => None end
  end.

(* the deposit record of [a] exists iff some coin of it is non-zero: Withdraw
   deletes a record whose coins are empty, Deposit stores sdk.Coins (no zero
   coins) *)
Definition sdep_found (e : senv) (s : sstate) (a : nat) : bool :=
  existsb (fun d => negb (sdep s a d =? 0)) (denoms e).

Fixpoint dep_add (f : nat -> nat -> Z) (a : nat) (c : coins) : nat -> nat -> Z :=
  match c with
  | [] => f
  | (d, x) :: r => dep_add (upd2 f a d (f a d + x)) a r
  end.

(* keeper.Deposit *)
Definition sav_deposit (e : senv) (s : sstate) (a : nat) (c : coins) : outcome sstate unit :=
  if negb (forallb (fun p => sav_supported e (fst p)) c) then Err else
  match bsend (bal s) a (sav_acc e) c with
  | None => Err
  | Some b => Ok (mkS b (dep_add (sdep s) a c)) tt
  end.

(* CalculateWithdrawAmount: every requested denom must be in the deposit
   (DenomsSubsetOf); the amount is capped at the deposited amount *)
Definition calc_withdraw (s : sstate) (a : nat) (c : coins) : option coins :=
  if forallb (fun p => 0 <? sdep s a (fst p)) c
  then Some (map (fun p => (fst p, Z.min (snd p) (sdep s a (fst p)))) c)
  else None.

Fixpoint dep_sub (f : nat -> nat -> Z) (a : nat) (c : coins) : nat -> nat -> Z :=
  match c with
  | [] => f
  | (d, x) :: r => dep_sub (upd2 f a d (f a d - x)) a r
  end.

(* keeper.Withdraw; the output is the list of coins paid *)
Definition sav_withdraw (e : senv) (s : sstate) (a : nat) (c : coins) : outcome sstate coins :=
  if negb (sdep_found e s a) then Err else
  match calc_withdraw s a c with
  | None => Err
  | Some amt =>
      match bsend (bal s) (sav_acc e) a amt with
      | None => Err
      | Some b => Ok (mkS b (dep_sub (sdep s) a amt)) amt
      end
  end.

(* message level: ValidateBasic, then the keeper *)
Definition sav_msg_deposit (e : senv) (s : sstate) (a : nat) (c : coins) : outcome sstate unit :=
  if msg_coins_ok c then sav_deposit e s a c else Err.
Definition sav_msg_withdraw (e : senv) (s : sstate) (a : nat) (c : coins) : outcome sstate coins :=
  if msg_coins_ok c then sav_withdraw e s a c else Err.
