(* Model of x/auction/keeper/math.go splitIntIntoWeightedBuckets (largest
   remainder method) and the checker used by the correspondence check.
   Definitions only; proofs are in Proofs/Split.v.

   Go sorts the buckets by decreasing remainder with sort.Slice, which is not
   stable: among equal remainders the recipient of an extra unit is not
   determined by the source.  [split] fixes one order (the stable one: among
   equal remainders the lowest index first); [split_ok] is the boolean
   specification that accepts every tie-breaking and nothing else. *)
From Kava Require Import Base.Prelude.
Local Open Scope Z_scope.

(* amount.Mul(w).Quo(total) and amount.Mul(w).Mod(total); on the non-negative
   inputs the function accepts, big.Int Quo/Mod coincide with Z.div / Z.modulo *)
Definition sq (a W w : Z) : Z := (a * w) / W.
Definition sr (a W w : Z) : Z := (a * w) mod W.

(* inputs on which the Go function does not panic *)
Definition split_valid (a : Z) (ws : list Z) : bool :=
  (0 <=? a) && (match ws with [] => false | _ => true end)
  && forallb (fun w => 0 <=? w) ws && (0 <? zsum ws).

(** * The algorithm with the stable order *)

(* a bucket: its weight and whether it has been given an extra unit *)
Definition item := (Z * bool)%type.

(* largest remainder among the buckets not yet picked *)
Fixpoint max_unpicked (a W : Z) (l : list item) : option Z :=
  match l with
  | [] => None
  | (w, b) :: r =>
      let m := max_unpicked a W r in
      if b then m
      else Some (match m with None => sr a W w | Some v => Z.max (sr a W w) v end)
  end.

(* mark the first bucket not yet picked whose remainder is m *)
Fixpoint mark_first (a W m : Z) (l : list item) : list item :=
  match l with
  | [] => []
  | (w, b) :: r =>
      if negb b && (sr a W w =? m) then (w, true) :: r
      else (w, b) :: mark_first a W m r
  end.

Definition pick1 (a W : Z) (l : list item) : list item :=
  match max_unpicked a W l with
  | None => l
  | Some m => mark_first a W m l
  end.

Fixpoint pickn (n : nat) (a W : Z) (l : list item) : list item :=
  match n with
  | O => l
  | S k => pickn k a W (pick1 a W l)
  end.

Definition part_of (a W : Z) (it : item) : Z :=
  sq a W (fst it) + (if snd it then 1 else 0).

(* the number of units left after the whole-number parts; it is smaller than
   the number of buckets (Proofs/Split.v), so the conversion to nat is an index *)
Definition leftover (a : Z) (ws : list Z) : Z :=
  a - zsum (map (sq a (zsum ws)) ws).

Definition split (a : Z) (ws : list Z) : list Z :=
  let W := zsum ws in
  map (part_of a W)
      (pickn (Z.to_nat (leftover a ws)) a W (map (fun w => (w, false)) ws)).

(** * Specification, in boolean form and as a proposition *)

(* parts sum to the amount; each part is its whole-number share or one more;
   whoever got an extra unit has a remainder at least as large as whoever did not *)
Definition split_ok (a : Z) (ws ps : list Z) : bool :=
  let W := zsum ws in
  let wp := combine ws ps in
  (Nat.eqb (length ps) (length ws))
  && (zsum ps =? a)
  && forallb (fun x => (sq a W (fst x) <=? snd x) && (snd x <=? sq a W (fst x) + 1)) wp
  && forallb (fun x => forallb (fun y =>
        implb ((snd x =? sq a W (fst x) + 1) && (snd y =? sq a W (fst y)))
              (sr a W (fst y) <=? sr a W (fst x))) wp) wp.

Definition split_spec (a : Z) (ws ps : list Z) : Prop :=
  let W := zsum ws in
  length ps = length ws /\
  zsum ps = a /\
  (forall w p, In (w, p) (combine ws ps) -> sq a W w <= p <= sq a W w + 1) /\
  (forall w p w' p', In (w, p) (combine ws ps) -> In (w', p') (combine ws ps) ->
     p = sq a W w + 1 -> p' = sq a W w' -> sr a W w' <= sr a W w).

(** * Correspondence-check support *)

(* tie-invariant signature of an allocation: the sorted list of
   (remainder, extra units) pairs, encoded as 2*remainder + extra.  Every
   allocation satisfying the specification has the same signature. *)
Fixpoint zinsert (x : Z) (l : list Z) : list Z :=
  match l with
  | [] => [x]
  | y :: r => if x <=? y then x :: l else y :: zinsert x r
  end.
Definition zsort (l : list Z) : list Z := fold_right zinsert [] l.

Definition split_sig (a : Z) (ws ps : list Z) : list Z :=
  let W := zsum ws in
  zsort (map (fun x => 2 * sr a W (fst x) + (snd x - sq a W (fst x))) (combine ws ps)).

Fixpoint zlist_eqb (l1 l2 : list Z) : bool :=
  match l1, l2 with
  | [], [] => true
  | x :: r1, y :: r2 => (x =? y) && zlist_eqb r1 r2
  | _, _ => false
  end.

(* one recorded case: amount, weights, the implementation's output *)
Definition split_case := (Z * list Z * list Z)%type.

(* 0 = agrees; 1 = the implementation's output violates the specification;
   2 = it satisfies it but its tie-invariant signature differs from that of the
   model's own output (a cross-check of the implementation against the
   algorithm as modelled, independent of the definition of [split_ok]) *)
Definition split_case_verdict (c : split_case) : nat :=
  let '(a, ws, ps) := c in
  if negb (split_valid a ws) then 1%nat
  else if negb (split_ok a ws ps) then 1%nat
  else if negb (zlist_eqb (split_sig a ws ps) (split_sig a ws (split a ws))) then 2%nat
  else 0%nat.

Fixpoint split_mismatches_from (i : nat) (cs : list split_case) : list (nat * nat) :=
  match cs with
  | [] => []
  | c :: r =>
      match split_case_verdict c with
      | O => split_mismatches_from (S i) r
      | k => (i, k) :: split_mismatches_from (S i) r
      end
  end.
Definition split_mismatches := split_mismatches_from 0.
