(* x/incentive/genesis.go (ExportGenesis, InitGenesis) and types/genesis.go, types/claims.go
   (GenesisState.Validate) for ONE reward source, over the state of Model/Incentive.v (the same
   abstract machine serves every source: accumulation times and global reward indexes per
   collateral type, and per owner a claim = reward coins + reward indexes per collateral type).
   Claims are exported AS STORED (unsynchronised).  Definitions only.

   Of the state only g_time, g_idx, has_claim, u_idx and rew live in the incentive store; the
   source shares and totals, the bank and the history variables are untouched by an import. *)
From Kava Require Import Base.Prelude Base.Dec Model.Accumulator Model.Incentive.
Local Open Scope Z_scope.

Definition indexes := list (nat * Z).                  (* RewardIndexes: reward denom, factor *)
Definition multi := list (nat * indexes).              (* MultiRewardIndexes: collateral type, indexes *)

Record gclaim := mkGC { gc_owner : nat; gc_reward : list (nat * Z); gc_idx : multi }.

Record genesis := mkGen {
  gn_times : list (nat * Z);        (* AccumulationTimes: collateral type, previous accumulation time (ns) *)
  gn_idx : multi;                   (* MultiRewardIndexes of the reward state *)
  gn_claims : list gclaim
}.

(* time.Time{} (InitGenesis: "accumulation time is not set"), as the harness renders it *)
Definition ZERO_T : Z := -62135596800000000000.

(** * ExportGenesis: the accrual-time, reward-index and claim stores *)

Definition export_genesis (e : env) (st : state) : genesis :=
  let ds := seq 0 (ndenoms e) in
  let ps := seq 0 (npools e) in
  mkGen (flat_map (fun p => match g_time st p with Some t => [(p, t)] | None => [] end) ps)
        (map (fun p => (p, map (fun d => (d, g_idx st p d)) ds)) ps)
        (flat_map (fun u => if has_claim st u
                            then [mkGC u (flat_map (fun d => if rew st u d =? 0 then [] else [(d, rew st u d)]) ds)
                                         (map (fun p => (p, map (fun d => (d, u_idx st u p d)) ds)) ps)]
                            else []) (seq 0 (nusers e))).

(** * GenesisState.Validate (for this source: GenesisRewardState.Validate and the claims) *)

(* sdk.Coins.IsValid *)
Fixpoint coins_valid_from (lo : option nat) (c : list (nat * Z)) : bool :=
  match c with
  | [] => true
  | (d, x) :: r => (0 <? x) && (match lo with None => true | Some p => Nat.ltb p d end) && coins_valid_from (Some d) r
  end.

(* MultiRewardIndex.Validate / RewardIndex.Validate: no negative factor *)
Definition multi_valid (m : multi) : bool := forallb (fun pi => forallb (fun df => 0 <=? snd df) (snd pi)) m.

Definition validate_genesis (g : genesis) : bool :=
  multi_valid (gn_idx g)
  && forallb (fun c => multi_valid (gc_idx c) && coins_valid_from None (gc_reward c)) (gn_claims g).

(** * InitGenesis *)

Definition idx_of (l : indexes) (d : nat) : Z :=
  match find (fun x => Nat.eqb (fst x) d) l with Some x => snd x | None => 0 end.
Definition multi_of (m : multi) (p d : nat) : Z :=
  match find (fun x => Nat.eqb (fst x) p) m with Some x => idx_of (snd x) d | None => 0 end.

(* the later record of a collateral type / owner overwrites the earlier one (store.Set);
   [find] on the reversed list picks the last *)
Definition last_claim (l : list gclaim) (u : nat) : option gclaim := find (fun c => Nat.eqb (gc_owner c) u) (rev l).
Definition last_time (l : list (nat * Z)) (p : nat) : option Z :=
  match find (fun x => Nat.eqb (fst x) p) (rev l) with Some x => Some (snd x) | None => None end.
Definition last_multi (m : multi) (p d : nat) : Z := multi_of (rev m) p d.

(* panics: validation fails; an accumulation time is the zero time *)
Definition init_genesis (e : env) (st : state) (g : genesis) : outcome state unit :=
  if negb (validate_genesis g) then Panic else
  if existsb (fun x => snd x =? ZERO_T) (gn_times g) then Panic else
  Ok (mkState (now st) (last_time (gn_times g)) (last_multi (gn_idx g)) (tot st) (sh st)
        (fun u => match last_claim (gn_claims g) u with Some _ => true | None => false end)
        (fun u p d => match last_claim (gn_claims g) u with Some c => multi_of (gc_idx c) p d | None => 0 end)
        (fun u d => match last_claim (gn_claims g) u with Some c => idx_of (gc_reward c) d | None => 0 end)
        (macc st) (bal st)
        (integral st) (due st) (nsync st) (claimed st) (emitted st) (accslack st) (drift st) (overshare st) (emitted_x st)) tt.

Definition reimport (e : env) (st : state) : outcome state unit := init_genesis e st (export_genesis e st).

Definition rcode (r : rclass) : Z := match r with ROk => 0 | RErr => 1 | RPanic => 2 end.
(* both verdicts on a probed genesis state: Validate, and the class of InitGenesis, which the
   implementation runs on every probed state (also those Validate refuses) on an emptied store *)
Definition probe (e : env) (st : state) (g : genesis) : list Z :=
  [(if validate_genesis g then 1 else 0); rcode (class_of (init_genesis e st g))].

(** * Correspondence-check support: the histories of Model/Incentive.v with re-import steps *)

Inductive gstepk :=
| GOps (os : list xop)              (* an ordinary step: the model operations of one implementation step *)
| GReimport
| GProbe (g : genesis) (v : list Z). (* a (perturbed) genesis state and the implementation's two verdicts *)

Definition gapply (xs : xstate) (k : gstepk) : outcome xstate unit :=
  match k with
  | GOps os => xstep_list xs os
  | GReimport => match reimport (x_env xs) (x_st xs) with
                 | Ok s' _ => Ok (mkX (x_env xs) s') tt
                 | Err => Err
                 | Panic => Panic
                 end
  | GProbe _ _ => Ok xs tt
  end.

Fixpoint gfirst_mismatch (xs : xstate) (shadow : list Z) (h : list (gstepk * obs)) (i : nat) : option nat :=
  match h with
  | [] => None
  | (k, ob) :: r =>
      let res := gapply xs k in
      let xs1 := match res with Ok s1 _ => s1 | _ => xs end in
      let e := x_env xs1 in
      let s' := retab e (x_st xs1) in
      let shadow' := apply_obs shadow ob in
      let extra := match k with GProbe g v => list_eqb Z.eqb (probe (x_env xs) (x_st xs) g) v | _ => true end in
      if extra
         && rclass_eqb (class_of res) (o_class ob)
         && list_eqb Z.eqb (project e s') shadow'
         && inv_b e s'
      then gfirst_mismatch (mkX e s') shadow' r (S i)
      else Some i
  end.

Record ghistory := mkGHist {
  gh_env : env;
  gh_t0 : Z;
  gh_macc : list Z;
  gh_gtime : list Z;
  gh_tot : list Z;
  gh_init : list Z;
  gh_steps : list (gstepk * obs)
}.

Definition gcheck_history (h : ghistory) : option nat :=
  let s0 := init (gh_t0 h) (nthZ (gh_macc h))
                 (fun p => let x := nth p (gh_gtime h) (-1) in if x <? 0 then None else Some x)
                 (nthZ (gh_tot h)) in
  if inv_b (gh_env h) s0 && list_eqb Z.eqb (project (gh_env h) s0) (gh_init h)
  then gfirst_mismatch (mkX (gh_env h) s0) (gh_init h) (gh_steps h) 0
  else Some 0%nat.

Fixpoint gmismatches_from (i : nat) (hs : list ghistory) : list (nat * nat) :=
  match hs with
  | [] => []
  | h :: r =>
      match gcheck_history h with
      | None => gmismatches_from (S i) r
      | Some k => (i, k) :: gmismatches_from (S i) r
      end
  end.
Definition gmismatches := gmismatches_from 0.
