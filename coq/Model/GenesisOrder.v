(* C14: the order in which the modules' InitGenesis runs (app/app.go SetOrderInitGenesis),
   re-read from the source on every run by tools/blockorder (argument "genesis") and compared
   with this table.  The genesis invariant assertion of x/crisis runs inside crisis'
   InitGenesis: it must come after every module whose state a registered invariant reads (a
   seeded change once moved it before precisebank: the reserve invariant then ran on an empty
   store and InitChain of a valid export panicked). *)
From Coq Require Import List String Ascii Arith Bool.
Import ListNotations.
Open Scope string_scope.

Definition genesis_rows : list (string * nat) :=
  [("genesis:00:ext:capability", 1%nat);
   ("genesis:01:ext:auth", 1%nat);
   ("genesis:02:ext:bank", 1%nat);
   ("genesis:03:ext:distribution", 1%nat);
   ("genesis:04:ext:staking", 1%nat);
   ("genesis:05:ext:slashing", 1%nat);
   ("genesis:06:ext:gov", 1%nat);
   ("genesis:07:ext:mint", 1%nat);
   ("genesis:08:ext:core", 1%nat);
   ("genesis:09:ext:evidence", 1%nat);
   ("genesis:10:ext:authz", 1%nat);
   ("genesis:11:ext:transfer", 1%nat);
   ("genesis:12:ext:evm", 1%nat);
   ("genesis:13:ext:feemarket", 1%nat);
   ("genesis:14:kava:kavadist", 1%nat);
   ("genesis:15:kava:auction", 1%nat);
   ("genesis:16:kava:issuance", 1%nat);
   ("genesis:17:kava:savings", 1%nat);
   ("genesis:18:kava:bep3", 1%nat);
   ("genesis:19:kava:pricefeed", 1%nat);
   ("genesis:20:kava:swap", 1%nat);
   ("genesis:21:kava:cdp", 1%nat);
   ("genesis:22:kava:hard", 1%nat);
   ("genesis:23:kava:incentive", 1%nat);
   ("genesis:24:kava:committee", 1%nat);
   ("genesis:25:kava:evmutil", 1%nat);
   ("genesis:26:kava:earn", 1%nat);
   ("genesis:27:kava:community", 1%nat);
   ("genesis:28:ext:genutil", 1%nat);
   ("genesis:29:ext:vesting", 1%nat);
   ("genesis:30:ext:params", 1%nat);
   ("genesis:31:ext:upgrade", 1%nat);
   ("genesis:32:kava:validator-vesting", 1%nat);
   ("genesis:33:kava:liquid", 1%nat);
   ("genesis:34:kava:router", 1%nat);
   ("genesis:35:kava:metrics", 1%nat);
   ("genesis:36:ext:consensus", 1%nat);
   ("genesis:37:ext:packetforward", 1%nat);
   ("genesis:38:kava:precisebank", 1%nat);
   ("genesis:39:ext:crisis", 1%nat)].

(* the module names in InitGenesis order *)
Definition after_last_colon (s : string) : string :=
  (fix go (s acc : string) : string :=
     match s with
     | EmptyString => acc
     | String c r => if Ascii.eqb c ":"%char then go r EmptyString else go r (acc ++ String c EmptyString)
     end) s EmptyString.
Definition genesis_order : list string := map (fun r => after_last_colon (fst r)) genesis_rows.

Fixpoint index_of (m : string) (l : list string) (i : nat) : option nat :=
  match l with
  | [] => None
  | x :: r => if String.eqb x m then Some i else index_of m r (S i)
  end.

(* crisis is the last module, so its genesis invariant assertion sees every module's state *)
Definition crisis_last : bool :=
  match rev genesis_order with
  | x :: _ => String.eqb x "crisis"
  | [] => false
  end.

(* a precedes b *)
Definition precedes (a b : string) : bool :=
  match index_of a genesis_order 0, index_of b genesis_order 0 with
  | Some i, Some j => Nat.ltb i j
  | _, _ => false
  end.

(* what the modules' InitGenesis functions rely on: accounts and balances exist before any
   module that checks its module-account balance; prices before cdp and hard; cdp, hard, swap,
   earn before incentive reads their totals... (only the pairs the code depends on are listed) *)
Definition genesis_dependencies_respected : bool :=
  forallb (fun p => precedes (fst p) (snd p))
    [("auth", "bank"); ("bank", "auction"); ("bank", "bep3"); ("bank", "cdp"); ("bank", "hard"); ("bank", "swap");
     ("bank", "savings"); ("bank", "precisebank"); ("bank", "evmutil"); ("evm", "evmutil");
     ("pricefeed", "cdp"); ("pricefeed", "hard"); ("auction", "cdp");
     ("cdp", "incentive"); ("hard", "incentive"); ("swap", "incentive"); ("staking", "gov");
     ("precisebank", "crisis"); ("bank", "crisis"); ("staking", "crisis"); ("distribution", "crisis")].
