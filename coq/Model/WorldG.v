(* C02: block processing as a state machine, generalised (Model/World.v is the
   first, unguarded form and stays as it is).

   A block is a block input [b] (time, height, oracle values ...) followed by
   transactions:   begin blocker ; transactions ; end blocker.
   - a transaction that fails (Err, or a panic recovered by baseapp) leaves the
     state it started from ([tx'] of Model/World.v);
   - a begin blocker or an end blocker that does not return Ok halts the chain
     (the Go blockers turn every error into a panic, and a panic in
     BeginBlock/EndBlock is not recovered): [None].

   A chain component (a Kava module model, or several modelled together) is a
   [module]: state, block input, operations, the three steps, an invariant and
   two guards.  The guards carry the side hypotheses of the module theorems:
   [m_goodB s b] is what the block input must satisfy in state [s] (time does not
   run backwards, oracle factors >= 1 ...), [m_goodT s o] what an ACCEPTED
   operation must satisfy (the caller guarantees of keeper-to-keeper calls, "the
   module account signs nothing").  Each instance says what discharges them.

   Components are composed side by side ([mprod], [mcompose]): the product state
   is the tuple of the component states, a block input is the tuple of the
   component inputs, a transaction addresses one component, and the begin (end)
   blockers run in list order.  Each component owns its own abstract bank:
   coupling between components through the shared bank and through hooks is NOT
   part of this composition (the C02 driver observes it on the real app).
   Definitions only. *)
From Coq Require Import String.
From Kava Require Import Base.Prelude Model.World.

Record module : Type := mkModule {
  m_names : list string;     (* the app-level module names this component models, in begin-blocker order *)
  m_S : Type;                (* state *)
  m_B : Type;                (* block input *)
  m_O : Type;                (* operations (messages and keeper-to-keeper calls) *)
  m_bb : m_S -> m_B -> outcome m_S unit;     (* begin blocker *)
  m_tx : m_S -> m_O -> outcome m_S unit;     (* one operation *)
  m_eb : m_S -> m_B -> outcome m_S unit;     (* end blocker *)
  m_Inv : m_S -> Prop;
  m_goodB : m_S -> m_B -> Prop;
  m_goodT : m_S -> m_O -> Prop
}.

(* forget the output of a model step *)
Definition forget {S U} (r : outcome S U) : outcome S unit :=
  match r with Ok s _ => Ok s tt | Err => Err | Panic => Panic end.

(* a blocker that does nothing (empty BeginBlock / EndBlock in module.go) *)
Definition no_blocker {S B} (s : S) (_ : B) : outcome S unit := Ok s tt.

Section Run.
  Variable M : module.

  (* None = the chain halted *)
  Definition run_blockG (s : m_S M) (blk : m_B M * list (m_O M)) : option (m_S M) :=
    match m_bb M s (fst blk) with
    | Ok s1 _ =>
        match m_eb M (fold_left (tx' (m_tx M)) (snd blk) s1) (fst blk) with
        | Ok s2 _ => Some s2
        | _ => None
        end
    | _ => None
    end.

  Fixpoint run_blocksG (s : m_S M) (blks : list (m_B M * list (m_O M))) : option (m_S M) :=
    match blks with
    | [] => Some s
    | b :: r => match run_blockG s b with Some s' => run_blocksG s' r | None => None end
    end.

  (* every accepted operation of the list satisfies the operation guard *)
  Fixpoint good_txs (s : m_S M) (os : list (m_O M)) : Prop :=
    match os with
    | [] => True
    | o :: r => (forall s' u, m_tx M s o = Ok s' u -> m_goodT M s o) /\ good_txs (tx' (m_tx M) s o) r
    end.

  (* every block input satisfies the block guard in the state it is applied to,
     and the operations of every block satisfy the operation guard *)
  Fixpoint good_blocks (s : m_S M) (blks : list (m_B M * list (m_O M))) : Prop :=
    match blks with
    | [] => True
    | blk :: r =>
        m_goodB M s (fst blk) /\
        (forall s1, m_bb M s (fst blk) = Ok s1 tt -> good_txs s1 (snd blk)) /\
        (forall s2, run_blockG s blk = Some s2 -> good_blocks s2 r)
    end.
End Run.

(** * two components side by side *)
Section Product.
  Variables M1 M2 : module.

  Definition seq2 {S1 S2 : Type} (r1 : outcome S1 unit) (r2 : outcome S2 unit) : outcome (S1 * S2) unit :=
    match r1 with
    | Ok s1 _ => match r2 with Ok s2 _ => Ok (s1, s2) tt | Err => Err | Panic => Panic end
    | Err => Err
    | Panic => Panic
    end.

  Definition mprod : module :=
    mkModule (m_names M1 ++ m_names M2)
      (m_S M1 * m_S M2) (m_B M1 * m_B M2) (m_O M1 + m_O M2)
      (fun s b => seq2 (m_bb M1 (fst s) (fst b)) (m_bb M2 (snd s) (snd b)))
      (fun s o => match o with
                  | inl o1 => match m_tx M1 (fst s) o1 with Ok s1 _ => Ok (s1, snd s) tt | Err => Err | Panic => Panic end
                  | inr o2 => match m_tx M2 (snd s) o2 with Ok s2 _ => Ok (fst s, s2) tt | Err => Err | Panic => Panic end
                  end)
      (fun s b => seq2 (m_eb M1 (fst s) (fst b)) (m_eb M2 (snd s) (snd b)))
      (fun s => m_Inv M1 (fst s) /\ m_Inv M2 (snd s))
      (fun s b => m_goodB M1 (fst s) (fst b) /\ m_goodB M2 (snd s) (snd b))
      (fun s o => match o with inl o1 => m_goodT M1 (fst s) o1 | inr o2 => m_goodT M2 (snd s) o2 end).
End Product.

(* the empty composition *)
Definition munit : module :=
  mkModule [] unit unit Empty_set no_blocker (fun s o => match o with end) no_blocker
           (fun _ => True) (fun _ _ => True) (fun _ _ => True).

(* n components, begin (and end) blockers in list order *)
Definition mcompose (l : list module) : module := fold_right mprod munit l.

(* a component with no state: a module whose BeginBlock and EndBlock are empty
   and of which nothing is modelled (it only keeps its place in the order) *)
Definition mempty (name : string) : module :=
  mkModule [name] unit unit Empty_set no_blocker (fun s o => match o with end) no_blocker
           (fun _ => True) (fun _ _ => True) (fun _ _ => True).
