(* Model of Kava's ante gating (app/ante/ante.go, authz.go, vesting.go,
   authorized.go; evmante.RejectMessagesDecorator of ethermint).

   Definitions only; proofs are in Proofs/Ante.v.

   Messages are a rose tree: authz MsgExec wraps a list of messages, authz
   MsgGrant names the type URL its authorisation is for, every other message
   is [Plain] with its type URL.  Type URLs and extension-option URLs are the
   real strings.  A transaction is the list of its top-level messages, the
   list of the type URLs of its (critical) extension options and the list of
   its signers (small indexes; derived by the SDK from the top-level
   messages, recorded from the implementation).

   Everything the SDK / ethermint / ibc decorators decide (gas set-up,
   ValidateBasic, memo, fees, public keys, signatures, sequence numbers,
   redundant relay; on the Ethereum path everything except "every message is
   a MsgEthereumTx") is an oracle of two bits per evaluation — [o_pre] for the
   foreign decorators placed before Kava's gates in the chain, [o_post] for
   those placed after them: the theorems hold for all four values. *)
From Coq Require Import String.
From Kava Require Import Base.Prelude.

Definition url := string.

Definition url_exec : url := "/cosmos.authz.v1beta1.MsgExec"%string.
Definition url_grant : url := "/cosmos.authz.v1beta1.MsgGrant"%string.
Definition url_eth : url := "/ethermint.evm.v1.MsgEthereumTx"%string.
Definition url_vest_create : url := "/cosmos.vesting.v1beta1.MsgCreateVestingAccount"%string.
Definition url_vest_perm : url := "/cosmos.vesting.v1beta1.MsgCreatePermanentLockedAccount"%string.
Definition url_vest_periodic : url := "/cosmos.vesting.v1beta1.MsgCreatePeriodicVestingAccount"%string.

Definition opt_eth : url := "/ethermint.evm.v1.ExtensionOptionsEthereumTx"%string.
Definition opt_web3 : url := "/ethermint.types.v1.ExtensionOptionsWeb3Tx"%string.

(** The list passed to NewAuthzLimiterDecorator in newCosmosAnteHandler
    (re-read from ante.go by the source enumerator on every run). *)
Definition disabled_types : list url :=
  [url_eth; url_vest_create; url_vest_perm; url_vest_periodic].

(** The list of NewVestingAccountDecorator in vesting.go (also re-read). *)
Definition vesting_types : list url :=
  [url_vest_create; url_vest_perm; url_vest_periodic].

(** * Messages *)

Inductive msg :=
| Plain (u : url)          (* any message that is neither MsgExec nor MsgGrant *)
| Exec (ms : list msg)     (* authz.MsgExec{Msgs} *)
| Grant (target : url).    (* authz.MsgGrant; target = authorization.MsgTypeURL() *)

Definition msg_url (m : msg) : url :=
  match m with Plain u => u | Exec _ => url_exec | Grant _ => url_grant end.

(* a [Plain] never carries the URL of the two authz messages (Go decides the
   constructor from the type URL) *)
Definition plain_wf (m : msg) : Prop :=
  match m with Plain u => u <> url_exec /\ u <> url_grant | _ => True end.

(* isDisabled *)
Definition is_disabled (dis : list url) (u : url) : bool := existsb (String.eqb u) dis.

(** checkForDisabledMsg, one iteration of its loop body ([true] = no error).
    The three [case]s of the Go [switch] in their order: the first fires on
    any message whose own URL is disabled when [searchOnlyInAuthzMsgs] is
    off; otherwise a MsgGrant is judged by its authorisation's URL and a
    MsgExec by the recursive call with the flag off. *)
Fixpoint check_msg (dis : list url) (only_authz : bool) (m : msg) {struct m} : bool :=
  if negb only_authz && is_disabled dis (msg_url m) then false
  else match m with
       | Plain _ => true
       | Grant t => negb (is_disabled dis t)
       | Exec ms => forallb (check_msg dis false) ms
       end.

(* checkForDisabledMsg(msgs, flag): the loop returns at the first error *)
Definition check_disabled (dis : list url) (only_authz : bool) (msgs : list msg) : bool :=
  forallb (check_msg dis only_authz) msgs.

(** Everything that occurs strictly inside a message (at any depth). *)
Fixpoint descendants (m : msg) : list msg :=
  match m with
  | Exec ms => flat_map (fun x => x :: descendants x) ms
  | _ => []
  end.

(* [sub m' m]: m' occurs inside an Exec of m, at any depth *)
Inductive sub : msg -> msg -> Prop :=
| sub_here : forall m ms, In m ms -> sub m (Exec ms)
| sub_deeper : forall m m' ms, In m' ms -> sub m m' -> sub m (Exec ms).

Fixpoint depth (m : msg) : nat :=
  match m with
  | Exec ms => S (fold_right (fun x acc => Nat.max (depth x) acc) O ms)
  | _ => O
  end.

(** * Transactions, modes, configuration *)

Inductive mode := CheckTx | ReCheckTx | Simulate | DeliverTx.

(* ctx.IsCheckTx(): baseapp runs CheckTx, ReCheckTx and Simulate on the check state *)
Definition is_check_tx (md : mode) : bool :=
  match md with DeliverTx => false | _ => true end.
(* the [simulate] argument of the ante handler *)
Definition simulate_flag (md : mode) : bool :=
  match md with Simulate => true | _ => false end.

Record tx := mkTx {
  t_msgs : list msg;
  t_opts : list url;       (* type URLs of body.extension_options *)
  t_signers : list nat     (* sigTx.GetSigners() *)
}.

Record config := mkCfg {
  c_fetchers : bool;        (* len(options.AddressFetchers) > 0, i.e. MempoolEnableAuth *)
  c_authorised : list nat   (* union of what the fetchers return *)
}.

(* the verdicts of the decorators that are not Kava's: those before the gates
   (set-up, extension-option check; on the Ethereum path set-up, mempool fee,
   ValidateBasic, signature verification) and those after them *)
Record oracle := mkOracle { o_pre : bool; o_post : bool }.

Inductive reason :=
| RExtMany      (* more than one extension option *)
| RExtUnknown   (* one unsupported extension option *)
| REthMsg       (* RejectMessagesDecorator *)
| RMempool      (* AuthenticatedMempoolDecorator *)
| RVesting      (* VestingAccountDecorator *)
| RAuthz        (* AuthzLimiterDecorator *)
| RRest         (* an SDK / ibc decorator (oracle) *)
| REthPath.     (* anything on the Ethereum path *)

Inductive path := PCosmos | PWeb3 | PEth.

Inductive verdict := Accept (p : path) | Reject (r : reason).

(** * The decorators *)

Definition is_eth_msg (m : msg) : bool :=
  match m with Plain u => String.eqb u url_eth | _ => false end.

(* evmante.RejectMessagesDecorator: type assertion on every top-level message *)
Definition reject_messages (t : tx) : option reason :=
  if existsb is_eth_msg (t_msgs t) then Some REthMsg else None.

Definition common_addresses_exist (a b : list nat) : bool :=
  existsb (fun x => existsb (Nat.eqb x) b) a.

(* AuthenticatedMempoolDecorator.AnteHandle *)
Definition authenticated_mempool (cfg : config) (md : mode) (t : tx) : option reason :=
  if is_check_tx md && negb (simulate_flag md) then
    if common_addresses_exist (t_signers t) (c_authorised cfg) then None else Some RMempool
  else None.

(* VestingAccountDecorator.AnteHandle: top-level messages only *)
Definition vesting_decorator (t : tx) : option reason :=
  if existsb (fun m => is_disabled vesting_types (msg_url m)) (t_msgs t) then Some RVesting else None.

(* AuthzLimiterDecorator.AnteHandle: checkForDisabledMsg(tx.GetMsgs(), true) *)
Definition authz_limiter (t : tx) : option reason :=
  if check_disabled disabled_types true (t_msgs t) then None else Some RAuthz.

(** The decorator chain of newCosmosAnteHandler as a table: (condition, decorator)
    in source order.  The source enumerator compares [chain_names] with what it
    reads from ante.go. *)
Inductive decorator :=
| DRejectMessages | DSetUpContext | DExtensionOptions | DAuthenticatedMempool
| DEvmMinGasFilter | DVestingAccount | DAuthzLimiter
| DValidateBasic | DTxTimeoutHeight | DValidateMemo | DConsumeGasForTxSize
| DDeductFee | DSetPubKey | DValidateSigCount | DSigGasConsume | DSigVerification
| DIncrementSequence | DRedundantRelay
(* newEthAnteHandler *)
| DEthSetUpContext | DEthMempoolFee | DEthValidateBasic | DEthSigVerification
| DEthAccountVerification | DCanTransfer | DEthGasConsume
| DEthIncrementSenderSequence | DEthEmitEvent.

Inductive cond := Always | IfNotEIP712 | IfFetchers.

Definition chain_table : list (cond * decorator) :=
  [ (Always, DRejectMessages); (Always, DSetUpContext);
    (IfNotEIP712, DExtensionOptions);
    (IfFetchers, DAuthenticatedMempool);
    (Always, DEvmMinGasFilter); (Always, DVestingAccount); (Always, DAuthzLimiter);
    (Always, DValidateBasic); (Always, DTxTimeoutHeight); (Always, DValidateMemo);
    (Always, DConsumeGasForTxSize); (Always, DDeductFee); (Always, DSetPubKey);
    (Always, DValidateSigCount); (Always, DSigGasConsume); (Always, DSigVerification);
    (Always, DIncrementSequence); (Always, DRedundantRelay) ].

Definition cond_holds (c : cond) (eip712 fetchers : bool) : bool :=
  match c with Always => true | IfNotEIP712 => negb eip712 | IfFetchers => fetchers end.

Definition cosmos_chain (eip712 fetchers : bool) : list decorator :=
  map snd (filter (fun e => cond_holds (fst e) eip712 fetchers) chain_table).

(** The decorator chain of newEthAnteHandler, same representation. *)
Definition eth_chain_table : list (cond * decorator) :=
  [ (Always, DEthSetUpContext); (Always, DEthMempoolFee); (Always, DEthValidateBasic);
    (Always, DEthSigVerification);
    (IfFetchers, DAuthenticatedMempool);
    (Always, DEthAccountVerification); (Always, DCanTransfer); (Always, DEthGasConsume);
    (Always, DEthIncrementSenderSequence); (Always, DEthEmitEvent) ].

Definition eth_chain (fetchers : bool) : list decorator :=
  map snd (filter (fun e => cond_holds (fst e) false fetchers) eth_chain_table).

(* one decorator: [None] = it calls next.  [o_pre] is charged to the first
   foreign decorator of the cosmos chain (SetUpContext) and, on the Ethereum
   path, to EthSigVerificationDecorator, which is also where the model places
   the type assertion *evmtypes.MsgEthereumTx that every message-walking
   Ethereum decorator makes (this one in every mode); [o_post] is charged to
   the last decorator of each chain. *)
Definition run_decorator (d : decorator) (cfg : config) (md : mode) (t : tx) (o : oracle) : option reason :=
  match d with
  | DRejectMessages => reject_messages t
  | DSetUpContext => if o_pre o then None else Some RRest
  | DAuthenticatedMempool => authenticated_mempool cfg md t
  | DVestingAccount => vesting_decorator t
  | DAuthzLimiter => authz_limiter t
  | DRedundantRelay => if o_post o then None else Some RRest
  | DEthSigVerification => if forallb is_eth_msg (t_msgs t) && o_pre o then None else Some REthPath
  | DEthEmitEvent => if o_post o then None else Some REthPath
  | _ => None
  end.

(* sdk.ChainAnteDecorators: the first rejection wins *)
Fixpoint run_chain (ds : list decorator) (cfg : config) (md : mode) (t : tx) (o : oracle) : option reason :=
  match ds with
  | [] => None
  | d :: r => match run_decorator d cfg md t o with
              | Some e => Some e
              | None => run_chain r cfg md t o
              end
  end.

Definition cosmos_handler (eip712 : bool) (cfg : config) (md : mode) (t : tx) (o : oracle) : verdict :=
  match run_chain (cosmos_chain eip712 (c_fetchers cfg)) cfg md t o with
  | Some e => Reject e
  | None => Accept (if eip712 then PWeb3 else PCosmos)
  end.

Definition eth_handler (cfg : config) (md : mode) (t : tx) (o : oracle) : verdict :=
  match run_chain (eth_chain (c_fetchers cfg)) cfg md t o with
  | Some e => Reject e
  | None => Accept PEth
  end.

(** NewAnteHandler: routing on the extension options. *)
Definition ante (cfg : config) (md : mode) (t : tx) (o : oracle) : verdict :=
  match t_opts t with
  | _ :: _ :: _ => Reject RExtMany
  | [u] =>
      if String.eqb u opt_eth then eth_handler cfg md t o
      else if String.eqb u opt_web3 then cosmos_handler true cfg md t o
      else Reject RExtUnknown
  | [] => cosmos_handler false cfg md t o
  end.

(** * Tables compared with the source *)

Definition decorator_name (d : decorator) : string :=
  match d with
  | DRejectMessages => "evmante.RejectMessagesDecorator"
  | DSetUpContext => "authante.NewSetUpContextDecorator"
  | DExtensionOptions => "authante.NewExtensionOptionsDecorator"
  | DAuthenticatedMempool => "NewAuthenticatedMempoolDecorator"
  | DEvmMinGasFilter => "NewEvmMinGasFilter"
  | DVestingAccount => "NewVestingAccountDecorator"
  | DAuthzLimiter => "NewAuthzLimiterDecorator"
  | DValidateBasic => "authante.NewValidateBasicDecorator"
  | DTxTimeoutHeight => "authante.NewTxTimeoutHeightDecorator"
  | DValidateMemo => "authante.NewValidateMemoDecorator"
  | DConsumeGasForTxSize => "authante.NewConsumeGasForTxSizeDecorator"
  | DDeductFee => "authante.NewDeductFeeDecorator"
  | DSetPubKey => "authante.NewSetPubKeyDecorator"
  | DValidateSigCount => "authante.NewValidateSigCountDecorator"
  | DSigGasConsume => "authante.NewSigGasConsumeDecorator"
  | DSigVerification => "sigVerification=authante.NewSigVerificationDecorator|[options.isEIP712]evmante.NewLegacyEip712SigVerificationDecorator"
  | DIncrementSequence => "authante.NewIncrementSequenceDecorator"
  | DRedundantRelay => "ibcante.NewRedundantRelayDecorator"
  | DEthSetUpContext => "evmante.NewEthSetUpContextDecorator"
  | DEthMempoolFee => "evmante.NewEthMempoolFeeDecorator"
  | DEthValidateBasic => "evmante.NewEthValidateBasicDecorator"
  | DEthSigVerification => "evmante.NewEthSigVerificationDecorator"
  | DEthAccountVerification => "evmante.NewEthAccountVerificationDecorator"
  | DCanTransfer => "evmante.NewCanTransferDecorator"
  | DEthGasConsume => "evmante.NewEthGasConsumeDecorator"
  | DEthIncrementSenderSequence => "evmante.NewEthIncrementSenderSequenceDecorator"
  | DEthEmitEvent => "evmante.NewEthEmitEventDecorator"
  end%string.

Definition cond_prefix (c : cond) : string :=
  match c with
  | Always => ""
  | IfNotEIP712 => "[!options.isEIP712]"
  | IfFetchers => "[len(options.AddressFetchers) > 0]"
  end%string.

Definition chain_names : list string :=
  map (fun e => (cond_prefix (fst e) ++ decorator_name (snd e))%string) chain_table.

Definition eth_chain_names : list string :=
  map (fun e => (cond_prefix (fst e) ++ decorator_name (snd e))%string) eth_chain_table.

(* the router's cases: (extension-option URL, handler) in source order *)
Definition router_names : list string :=
  [ "/ethermint.evm.v1.ExtensionOptionsEthereumTx=>newEthAnteHandler";
    "/ethermint.types.v1.ExtensionOptionsWeb3Tx=>newCosmosAnteHandler" ]%string.

(** * Correspondence-check support *)

(* what the harness observes: accepted, or rejected with a coarse class
   (everything on the Ethereum path and everything the SDK decorators reject is
   [RRest]) *)
Inductive obs := OAccept | OReject (r : reason).

Definition obs_of (v : verdict) : obs :=
  match v with
  | Accept _ => OAccept
  | Reject REthPath => OReject RRest
  | Reject r => OReject r
  end.

Definition reason_eqb (a b : reason) : bool :=
  match a, b with
  | RExtMany, RExtMany | RExtUnknown, RExtUnknown | REthMsg, REthMsg | RMempool, RMempool
  | RVesting, RVesting | RAuthz, RAuthz | RRest, RRest | REthPath, REthPath => true
  | _, _ => false
  end.

Definition obs_eqb (a b : obs) : bool :=
  match a, b with
  | OAccept, OAccept => true
  | OReject r, OReject r' => reason_eqb r r'
  | _, _ => false
  end.

Fixpoint list_eqb {A} (eqb : A -> A -> bool) (l1 l2 : list A) : bool :=
  match l1, l2 with
  | [], [] => true
  | x :: r1, y :: r2 => eqb x y && list_eqb eqb r1 r2
  | _, _ => false
  end.

(* boolean scan written independently of [check_msg]: a blocked URL among the
   descendants of a top-level message, or as the target of any grant *)
Definition blocked_inside_b (dis : list url) (m : msg) : bool :=
  existsb (fun d => is_disabled dis (msg_url d)) (descendants m)
  || existsb (fun d => match d with Grant t => is_disabled dis t | _ => false end) (m :: descendants m).

Definition contains_eth_b (m : msg) : bool := existsb is_eth_msg (m :: descendants m).

(* boolean form of the property on one evaluation (by theorem never false) *)
Definition inv_b (cfg : config) (md : mode) (t : tx) (o : oracle) : bool :=
  match ante cfg md t o with
  | Reject _ => true
  | Accept p =>
      negb (existsb (blocked_inside_b disabled_types) (t_msgs t))
      && negb (existsb (fun m => is_disabled vesting_types (msg_url m)) (t_msgs t))
      && (negb (existsb contains_eth_b (t_msgs t))
          || match p with PEth => list_eqb String.eqb (t_opts t) [opt_eth] | _ => false end)
      && (negb (c_fetchers cfg) || negb (is_check_tx md && negb (simulate_flag md))
          || common_addresses_exist (t_signers t) (c_authorised cfg))
  end.

(* the harness's abstraction of a real tx never yields a [Plain] with the URL of
   MsgExec or MsgGrant (see [plain_wf]); checked on every recorded tx *)
Fixpoint msg_wf_b (m : msg) : bool :=
  match m with
  | Plain u => negb (String.eqb u url_exec) && negb (String.eqb u url_grant)
  | Grant _ => true
  | Exec ms => forallb msg_wf_b ms
  end.

Record step := mkStep {
  s_mode : mode;
  s_tx : tx;
  s_oracle : oracle;
  s_obs : obs
}.

(* AuthzLimiterDecorator driven in isolation (NewAuthzLimiterDecorator with an
   arbitrary disabled list, a pass-through next handler): accepted or not *)
Record unit_case := mkUnit {
  u_dis : list url;
  u_msgs : list msg;
  u_ok : bool
}.

Record history := mkHist {
  h_cfg : config;
  (* tables read from /repo/app/ante by the enumerator on this run *)
  h_src_chain : list string;
  h_src_eth_chain : list string;
  h_src_router : list string;
  h_src_disabled : list url;
  h_src_vesting : list url;
  h_steps : list step;
  h_units : list unit_case
}.

Definition tables_ok (h : history) : bool :=
  list_eqb String.eqb (h_src_chain h) chain_names
  && list_eqb String.eqb (h_src_eth_chain h) eth_chain_names
  && list_eqb String.eqb (h_src_router h) router_names
  && list_eqb String.eqb (h_src_disabled h) disabled_types
  && list_eqb String.eqb (h_src_vesting h) vesting_types.

Fixpoint first_mismatch (cfg : config) (ss : list step) (i : nat) : option nat :=
  match ss with
  | [] => None
  | s :: r =>
      if obs_eqb (obs_of (ante cfg (s_mode s) (s_tx s) (s_oracle s))) (s_obs s)
         && inv_b cfg (s_mode s) (s_tx s) (s_oracle s)
         && forallb msg_wf_b (t_msgs (s_tx s))
      then first_mismatch cfg r (S i)
      else Some i
  end.

Fixpoint first_unit_mismatch (us : list unit_case) (i : nat) : option nat :=
  match us with
  | [] => None
  | u :: r =>
      if Bool.eqb (check_disabled (u_dis u) true (u_msgs u)) (u_ok u) && forallb msg_wf_b (u_msgs u)
      then first_unit_mismatch r (S i)
      else Some i
  end.

(* steps first, then the unit cases (numbered after the steps) *)
Definition check_history (h : history) : option nat :=
  if tables_ok h then
    match first_mismatch (h_cfg h) (h_steps h) 0 with
    | Some k => Some k
    | None => first_unit_mismatch (h_units h) (length (h_steps h))
    end
  else Some 0%nat.

Fixpoint mismatches_from (i : nat) (hs : list history) : list (nat * nat) :=
  match hs with
  | [] => []
  | h :: r =>
      match check_history h with
      | None => mismatches_from (S i) r
      | Some k => (i, k) :: mismatches_from (S i) r
      end
  end.
Definition mismatches := mismatches_from 0.
