(* Model of x/auction: keeper/auctions.go (Start*Auction, PlaceBid and its four
   routines, CloseAuction, Payout*, CloseExpiredAuctions), keeper/keeper.go
   (SetAuction / DeleteAuction and the by-end-time index), abci.go (BeginBlocker),
   types/auctions.go (constructors, GetModuleAccountCoins, IsReversePhase,
   WeightedAddresses.Validate), over an abstract x/bank.  Definitions only.

   Conventions.  Addresses and denoms are small indexes.  Times are Unix
   seconds (the model is unit-agnostic).  Every operation carries the block time
   of the context it runs in.  A bid routine is "validate, then a list of bank
   calls in the order of the source, then the updated record"; the bank calls
   are executed one after the other and the first failure decides Err / Panic.

   splitIntIntoWeightedBuckets sorts with the unstable sort.Slice: the parts it
   returns are passed into the reverse collateral bid as an oracle value
   ([parts], recorded from the implementation); the side-condition the theorems
   need is [split_ok (lot - new lot) weights parts] (Model/Split.v), checked on
   every recorded value by [check_history]. *)
From Kava Require Import Base.Prelude Base.Dec Model.Split.
Local Open Scope Z_scope.

(* types.DistantFuture = 9000-01-01T00:00:00Z *)
Definition DISTANT_FUTURE : Z := 221845392000.

Inductive kind := KSurplus | KDebt | KColl.

Record auction := mkAuc {
  a_id : Z;
  a_kind : kind;
  a_init : nat;            (* initiator module account *)
  a_lot_d : nat; a_lot : Z;
  a_bidder : nat;
  a_bid_d : nat; a_bid : Z;
  a_has : bool;            (* HasReceivedBids *)
  a_end : Z; a_maxend : Z;
  a_debt_d : nat; a_debt : Z;   (* CorrespondingDebt (debt and collateral auctions) *)
  a_maxbid : Z;                 (* MaxBid, in the bid denom (collateral auctions) *)
  a_raddrs : list nat;          (* LotReturns.Addresses *)
  a_rw : list Z                 (* LotReturns.Weights *)
}.

Record env := mkEnv {
  amod : nat;                  (* the auction module account *)
  nobody : nat;                (* the empty address (Bidder = nil) *)
  is_module : nat -> bool;
  minter : nat -> bool;
  burner : nat -> bool;
  blocked : nat -> bool;       (* bank BlockedAddr *)
  max_dur : Z; fwd_dur : Z; rev_dur : Z;      (* Params durations *)
  inc_s : Z; inc_d : Z; inc_c : Z             (* Params increments (LegacyDec mantissas) *)
}.

Definition bank := nat -> nat -> Z.            (* address, denom *)

Record state := mkState {
  bal : bank;
  aucs : list auction;         (* the auction store, in key (= id) order *)
  idx : list (Z * Z);          (* the by-time index: keys (end time, id), in key order *)
  next_id : Z
}.

(** * x/bank (modelled, not verified) *)

Inductive xfer :=
| XSend (f t d : nat) (x : Z)      (* SendCoinsFromAccountToModule / SendCoinsFromModuleToModule of NewCoins(x d) *)
| XSendAcc (f t d : nat) (x : Z)   (* SendCoinsFromModuleToAccount: blocked-recipient check first *)
| XMint (m d : nat) (x : Z)
| XBurn (m d : nat) (x : Z).

Definition move (b : bank) (f t d : nat) (x : Z) : bank :=
  let b1 := upd2 b f d (b f d - x) in
  upd2 b1 t d (b1 t d + x).

(* sdk.NewCoins panics on a negative amount and drops a zero amount; sending
   the empty coins is a successful no-op; otherwise insufficient funds is an error *)
Definition exec1 (e : env) (b : bank) (xf : xfer) : outcome bank unit :=
  match xf with
  | XSend f t d x =>
      if x <? 0 then Panic else if x =? 0 then Ok b tt
      else if b f d <? x then Err
      else if Nat.eqb t (nobody e) then Panic    (* setBalance under the empty address: "nil key on Store" *)
      else Ok (move b f t d x) tt
  | XSendAcc f t d x =>
      if x <? 0 then Panic else if blocked e t then Err else if x =? 0 then Ok b tt
      else if b f d <? x then Err
      else if Nat.eqb t (nobody e) then Panic
      else Ok (move b f t d x) tt
  | XMint m d x =>
      if x <? 0 then Panic else if negb (minter e m) then Panic
      else Ok (upd2 b m d (b m d + x)) tt
  | XBurn m d x =>
      if x <? 0 then Panic else if negb (burner e m) then Panic
      else if x =? 0 then Ok b tt
      else if b m d <? x then Err else Ok (upd2 b m d (b m d - x)) tt
  end.

Fixpoint exec (e : env) (b : bank) (xs : list xfer) : outcome bank unit :=
  match xs with
  | [] => Ok b tt
  | xf :: r =>
      match exec1 e b xf with
      | Ok b1 _ => exec e b1 r
      | Err => Err
      | Panic => Panic
      end
  end.

(** * the stores *)

Fixpoint afind (id : Z) (l : list auction) : option auction :=
  match l with
  | [] => None
  | a :: r => if a_id a =? id then Some a else afind id r
  end.

(* store.Set under key id (the store is ordered by key) *)
Fixpoint aput (a : auction) (l : list auction) : list auction :=
  match l with
  | [] => [a]
  | h :: r =>
      if a_id h =? a_id a then a :: r
      else if a_id a <? a_id h then a :: l
      else h :: aput a r
  end.

Fixpoint adel (id : Z) (l : list auction) : list auction :=
  match l with
  | [] => []
  | h :: r => if a_id h =? id then r else h :: adel id r
  end.

Definition key_eqb (k1 k2 : Z * Z) : bool := (fst k1 =? fst k2) && (snd k1 =? snd k2).
(* byte order of sdk.FormatTimeBytes(end) ++ bigendian(id) *)
Definition key_ltb (k1 k2 : Z * Z) : bool :=
  (fst k1 <? fst k2) || ((fst k1 =? fst k2) && (snd k1 <? snd k2)).

Fixpoint idx_insert (k : Z * Z) (l : list (Z * Z)) : list (Z * Z) :=
  match l with
  | [] => [k]
  | h :: r =>
      if key_eqb k h then l
      else if key_ltb k h then k :: l
      else h :: idx_insert k r
  end.

Fixpoint idx_remove (k : Z * Z) (l : list (Z * Z)) : list (Z * Z) :=
  match l with
  | [] => []
  | h :: r => if key_eqb k h then r else h :: idx_remove k r
  end.

Definition akey (a : auction) : Z * Z := (a_end a, a_id a).

(* keeper.SetAuction: drop the index entry of the stored record, store, insert *)
Definition set_auction (s : state) (b : bank) (a : auction) : state :=
  let i1 := match afind (a_id a) (aucs s) with
            | Some old => idx_remove (akey old) (idx s)
            | None => idx s
            end in
  mkState b (aput a (aucs s)) (idx_insert (akey a) i1) (next_id s).

(* keeper.DeleteAuction *)
Definition delete_auction (s : state) (b : bank) (id : Z) : state :=
  let i1 := match afind id (aucs s) with
            | Some old => idx_remove (akey old) (idx s)
            | None => idx s
            end in
  mkState b (adel id (aucs s)) i1 (next_id s).

(* keeper.StoreNewAuction *)
Definition store_new (s : state) (b : bank) (a : auction) : state :=
  let s1 := set_auction s b a in
  mkState (bal s1) (aucs s1) (idx s1) (next_id s + 1).

(** * bids *)

(* max(1, NewDecFromInt(v).Mul(inc).RoundInt()) *)
Definition min_inc (inc v : Z) : Z :=
  Z.max 1 (dec_round_int (dec_mul (dec_of_int v) inc)).

(* common tail of the four routines: bidder, (first bid) max end time, end time *)
Definition touch (e : env) (t dur : Z) (a : auction) (bidder : nat) (lot bid debt : Z) : auction :=
  let maxend := if a_has a then a_maxend a else t + max_dur e in
  mkAuc (a_id a) (a_kind a) (a_init a) (a_lot_d a) lot bidder (a_bid_d a) bid true
        (Z.min (t + dur) maxend) maxend (a_debt_d a) debt (a_maxbid a) (a_raddrs a) (a_rw a).

(* "New bidder pays back old bidder" of the forward routines *)
Definition refund_fwd (e : env) (a : auction) (bidder : nat) : list xfer :=
  if negb (Nat.eqb bidder (a_bidder a)) && negb (a_bid a =? 0)
  then [XSend bidder (amod e) (a_bid_d a) (a_bid a); XSendAcc (amod e) (a_bidder a) (a_bid_d a) (a_bid a)]
  else [].

(* PlaceBidSurplus *)
Definition bid_surplus (e : env) (t : Z) (a : auction) (bidder d : nat) (x : Z)
  : outcome (auction * list xfer) unit :=
  if negb (Nat.eqb d (a_bid_d a)) then Err else
  if x <? a_bid a + min_inc (inc_s e) (a_bid a) then Err else
  Ok (touch e t (fwd_dur e) a bidder (a_lot a) x (a_debt a),
      refund_fwd e a bidder
      ++ [XSend bidder (a_init a) (a_bid_d a) (x - a_bid a);
          XBurn (a_init a) (a_bid_d a) (x - a_bid a)]) tt.

(* PlaceForwardBidCollateral *)
Definition bid_coll_fwd (e : env) (t : Z) (a : auction) (bidder d : nat) (x : Z)
  : outcome (auction * list xfer) unit :=
  if negb (Nat.eqb d (a_bid_d a)) then Err else
  if x <? Z.min (a_bid a + min_inc (inc_c e) (a_bid a)) (a_maxbid a) then Err else
  if a_maxbid a <? x then Err else
  let incr := x - a_bid a in
  let ret := Z.min incr (a_debt a) in
  let has_debt := 0 <? a_debt a in
  Ok (touch e t (if x =? a_maxbid a then rev_dur e else fwd_dur e) a bidder (a_lot a) x
            (if has_debt then a_debt a - ret else a_debt a),
      refund_fwd e a bidder
      ++ [XSend bidder (a_init a) (a_bid_d a) incr]
      ++ (if has_debt then [XSend (amod e) (a_init a) (a_debt_d a) ret] else [])) tt.

(* the payouts of the reverse phase: zero parts are skipped *)
Fixpoint payouts (e : env) (d : nat) (addrs : list nat) (parts : list Z) : list xfer :=
  match addrs, parts with
  | ad :: ra, p :: rp =>
      (if 0 <? p then [XSendAcc (amod e) ad d p] else []) ++ payouts e d ra rp
  | _, _ => []
  end.

(* PlaceReverseBidCollateral; [parts] is the result of
   splitCoinIntoWeightedBuckets(Lot - lot, Weights), see the header *)
Definition bid_coll_rev (e : env) (t : Z) (a : auction) (bidder d : nat) (y : Z) (parts : list Z)
  : outcome (auction * list xfer) unit :=
  if negb (Nat.eqb d (a_lot_d a)) then Err else
  if a_lot a - min_inc (inc_c e) (a_lot a) <? y then Err else
  if y <? 0 then Err else
  Ok (touch e t (rev_dur e) a bidder y (a_bid a) (a_debt a),
      (if negb (Nat.eqb bidder (a_bidder a))
       then [XSend bidder (amod e) (a_bid_d a) (a_bid a); XSendAcc (amod e) (a_bidder a) (a_bid_d a) (a_bid a)]
       else [])
      ++ payouts e (a_lot_d a) (a_raddrs a) parts) tt.

(* PlaceBidDebt *)
Definition bid_debt (e : env) (t : Z) (a : auction) (bidder d : nat) (y : Z)
  : outcome (auction * list xfer) unit :=
  if negb (Nat.eqb d (a_lot_d a)) then Err else
  if a_lot a - min_inc (inc_d e) (a_lot a) <? y then Err else
  if y <? 0 then Err else
  let first := Nat.eqb (a_bidder a) (a_init a) in
  let ret := Z.min (a_bid a) (a_debt a) in
  Ok (touch e t (fwd_dur e) a bidder y (a_bid a) (if first then a_debt a - ret else a_debt a),
      (if negb (Nat.eqb bidder (a_bidder a))
       then [XSend bidder (amod e) (a_bid_d a) (a_bid a);
             (if first then XSend (amod e) (a_init a) (a_bid_d a) (a_bid a)
              else XSendAcc (amod e) (a_bidder a) (a_bid_d a) (a_bid a))]
       else [])
      ++ (if first then [XSend (amod e) (a_init a) (a_debt_d a) ret] else [])) tt.

(* CollateralAuction.IsReversePhase *)
Definition is_reverse (a : auction) : bool := a_bid a =? a_maxbid a.

(* the dispatch of PlaceBid *)
Definition bid_routine (e : env) (t : Z) (a : auction) (bidder d : nat) (x : Z) (parts : list Z)
  : outcome (auction * list xfer) unit :=
  match a_kind a with
  | KSurplus => bid_surplus e t a bidder d x
  | KDebt => bid_debt e t a bidder d x
  | KColl => if is_reverse a then bid_coll_rev e t a bidder d x parts
             else bid_coll_fwd e t a bidder d x
  end.

(* PlaceBid *)
Definition place_bid (e : env) (s : state) (t id : Z) (bidder d : nat) (x : Z) (parts : list Z)
  : outcome state unit :=
  match afind id (aucs s) with
  | None => Err
  | Some a =>
      if a_end a <? t then Err else          (* ctx.BlockTime().After(EndTime) *)
      match bid_routine e t a bidder d x parts with
      | Err => Err
      | Panic => Panic
      | Ok (a', xs) _ =>
          match exec e (bal s) xs with
          | Err => Err
          | Panic => Panic
          | Ok b' _ => Ok (set_auction s b' a') tt
          end
      end
  end.

(** * close *)

Definition debt_back (e : env) (a : auction) : list xfer :=
  if 0 <? a_debt a then [XSend (amod e) (a_init a) (a_debt_d a) (a_debt a)] else [].

(* PayoutSurplusAuction / PayoutDebtAuction / PayoutCollateralAuction *)
Definition payout (e : env) (a : auction) : list xfer :=
  match a_kind a with
  | KSurplus => [XSendAcc (amod e) (a_bidder a) (a_lot_d a) (a_lot a)]
  | KDebt => [XMint (a_init a) (a_lot_d a) (a_lot a);
              XSendAcc (a_init a) (a_bidder a) (a_lot_d a) (a_lot a)] ++ debt_back e a
  | KColl => [XSendAcc (amod e) (a_bidder a) (a_lot_d a) (a_lot a)] ++ debt_back e a
  end.

(* CloseAuction *)
Definition close (e : env) (s : state) (t id : Z) : outcome state unit :=
  match afind id (aucs s) with
  | None => Err
  | Some a =>
      if t <? a_end a then Err else          (* ctx.BlockTime().Before(EndTime) *)
      match exec e (bal s) (payout e a) with
      | Err => Err
      | Panic => Panic
      | Ok b' _ => Ok (delete_auction s b' id) tt
      end
  end.

(* IterateAuctionsByTime(ctx.BlockTime()): the ids of the index entries whose
   end time is not after t, in index order *)
Definition expired (t : Z) (l : list (Z * Z)) : list Z :=
  map snd (filter (fun k => fst k <=? t) l).

(* CloseExpiredAuctions + BeginBlocker: ErrAuctionNotFound is ignored, any
   other error stops the iteration and the begin blocker panics *)
Fixpoint close_all (e : env) (s : state) (t : Z) (ids : list Z) : outcome state unit :=
  match ids with
  | [] => Ok s tt
  | id :: r =>
      match afind id (aucs s) with
      | None => close_all e s t r
      | Some _ =>
          match close e s t id with
          | Ok s' _ => close_all e s' t r
          | _ => Panic
          end
      end
  end.

Definition begin_block (e : env) (s : state) (t : Z) : outcome state unit :=
  close_all e s t (expired t (idx s)).

(** * start *)

(* WeightedAddresses.Validate *)
Definition weights_valid (e : env) (addrs : list nat) (ws : list Z) : bool :=
  (match ws with [] => false | _ => true end)
  && Nat.eqb (length addrs) (length ws)
  && forallb (fun ad => negb (Nat.eqb ad (nobody e))) addrs
  && forallb (fun w => 0 <=? w) ws
  && (0 <? zsum ws).

Definition start (e : env) (s : state) (seller : nat) (a : auction) (xs : list xfer) : outcome state unit :=
  if negb (is_module e seller) then Panic else   (* module account does not exist *)
  match exec e (bal s) xs with
  | Err => Err
  | Panic => Panic
  | Ok b' _ => Ok (store_new s b' a) tt
  end.

Inductive op :=
| StartSurplus (seller lot_d : nat) (lot : Z) (bid_d : nat)
| StartDebt (buyer bid_d : nat) (bid : Z) (lot_d : nat) (lot : Z) (debt_d : nat) (debt : Z)
| StartColl (seller lot_d : nat) (lot : Z) (bid_d : nat) (maxbid : Z)
            (raddrs : list nat) (rws : list Z) (debt_d : nat) (debt : Z)
| PlaceBid (t id : Z) (bidder d : nat) (x : Z) (parts : list Z)
| Close (t id : Z)
| BeginBlock (t : Z).

Definition step (e : env) (s : state) (o : op) : outcome state unit :=
  match o with
  | StartSurplus seller ld lot bd =>
      start e s seller
        (mkAuc (next_id s) KSurplus seller ld lot (nobody e) bd 0 false
               DISTANT_FUTURE DISTANT_FUTURE 0%nat 0 0 [] [])
        [XSend seller (amod e) ld lot]
  | StartDebt buyer bd bid ld lot dd debt =>
      if negb (is_module e buyer) then Panic else
      if negb (minter e buyer) then Panic else
      start e s buyer
        (mkAuc (next_id s) KDebt buyer ld lot buyer bd bid false
               DISTANT_FUTURE DISTANT_FUTURE dd debt 0 [] [])
        [XSend buyer (amod e) dd debt]
  | StartColl seller ld lot bd maxbid raddrs rws dd debt =>
      if negb (weights_valid e raddrs rws) then Err else
      start e s seller
        (mkAuc (next_id s) KColl seller ld lot (nobody e) bd 0 false
               DISTANT_FUTURE DISTANT_FUTURE dd debt maxbid raddrs rws)
        [XSend seller (amod e) ld lot; XSend seller (amod e) dd debt]
  | PlaceBid t id bidder d x parts => place_bid e s t id bidder d x parts
  | Close t id => close e s t id
  | BeginBlock t => begin_block e s t
  end.

(* a failed operation leaves the state it started from *)
Definition step' (e : env) (s : state) (o : op) : state :=
  match step e s o with Ok s' _ => s' | _ => s end.

Definition run (e : env) (s : state) (ops : list op) : state :=
  fold_left (step' e) ops s.

(** * what the auction module account must hold *)

Definition coin_at (d d' : nat) (x : Z) : Z := if Nat.eqb d d' then x else 0.

(* GetModuleAccountCoins, amount of denom d *)
Definition held1 (d : nat) (a : auction) : Z :=
  match a_kind a with
  | KSurplus => coin_at d (a_lot_d a) (a_lot a)
  | KDebt => coin_at d (a_debt_d a) (a_debt a)
  | KColl => coin_at d (a_lot_d a) (a_lot a) + coin_at d (a_debt_d a) (a_debt a)
  end.

Definition held (d : nat) (l : list auction) : Z := zsum (map (held1 d) l).

(** * guards: what the callers of the keeper guarantee, and the oracle side-condition *)

(* Start*Auction is called by other keepers (cdp, hard) with their own module
   account as initiator, valid coins, and depositors as return addresses; a
   bidder is a message signer, never the auction module account.  A reverse
   collateral bid carries the split computed by the implementation. *)
Definition op_okb (e : env) (s : state) (o : op) : bool :=
  match o with
  | StartSurplus seller _ _ _ => negb (Nat.eqb seller (amod e))
  | StartDebt buyer _ bid _ lot _ _ => negb (Nat.eqb buyer (amod e)) && (0 <=? bid) && (0 <=? lot)
  | StartColl seller _ _ _ maxbid raddrs _ _ _ =>
      negb (Nat.eqb seller (amod e)) && (0 <=? maxbid)
      && forallb (fun ad => negb (Nat.eqb ad (amod e))) raddrs
  | PlaceBid _ id bidder _ x parts =>
      negb (Nat.eqb bidder (amod e))
      && match afind id (aucs s) with
         | Some a =>
             match a_kind a with
             | KColl => if is_reverse a then split_ok (a_lot a - x) (a_rw a) parts else true
             | _ => true
             end
         | None => true
         end
  | Close _ _ | BeginBlock _ => true
  end.

(** * boolean invariant, evaluated on every model state of the correspondence run *)

Definition auc_okb (e : env) (a : auction) : bool :=
  (a_end a <=? a_maxend a) && (0 <=? a_lot a) && (0 <=? a_bid a) && (0 <=? a_debt a)
  && negb (Nat.eqb (a_init a) (amod e)) && negb (Nat.eqb (a_bidder a) (amod e))
  && match a_kind a with
     | KColl => (a_bid a <=? a_maxbid a)
                && Nat.eqb (length (a_raddrs a)) (length (a_rw a))
                && forallb (fun w => 0 <=? w) (a_rw a) && (0 <? zsum (a_rw a))
                && forallb (fun ad => negb (Nat.eqb ad (amod e))) (a_raddrs a)
     | _ => true
     end.

Fixpoint ids_increasing (lo : Z) (l : list auction) : bool :=
  match l with
  | [] => true
  | a :: r => (lo <? a_id a) && ids_increasing (a_id a) r
  end.

Fixpoint keys_eqb (l1 l2 : list (Z * Z)) : bool :=
  match l1, l2 with
  | [], [] => true
  | x :: r1, y :: r2 => key_eqb x y && keys_eqb r1 r2
  | _, _ => false
  end.

Definition inv_b (e : env) (denoms : list nat) (s : state) : bool :=
  forallb (fun d => bal s (amod e) d =? held d (aucs s)) denoms
  && keys_eqb (idx s) (fold_right idx_insert [] (map akey (aucs s)))
  && forallb (auc_okb e) (aucs s)
  && ids_increasing (-1) (aucs s)
  && forallb (fun a => a_id a <? next_id s) (aucs s).

(** * Correspondence-check support: observations and comparison *)

Inductive rclass := ROk | RErr | RPanic.
Definition rclass_eqb (a b : rclass) : bool :=
  match a, b with ROk, ROk | RErr, RErr | RPanic, RPanic => true | _, _ => false end.
Definition class_of {S O} (r : outcome S O) : rclass :=
  match r with Ok _ _ => ROk | Err => RErr | Panic => RPanic end.

(* what the harness records after each operation: the result class and the
   changes of the implementation's observable state relative to the previous
   observation (balances), the auctions stored or changed and the ids deleted,
   the complete raw by-time index, and the next id.  The checker keeps a shadow
   copy of the implementation's state, applies the recorded changes and
   compares the full projections of model state and shadow state. *)
Record obs := mkObs {
  o_class : rclass;
  o_dbal : list (nat * nat * Z);   (* (account, denom, new balance) *)
  o_set : list auction;            (* auctions new or changed *)
  o_del : list Z;                  (* ids no longer stored *)
  o_idx : list (Z * Z);            (* raw index, complete *)
  o_next : Z
}.

Definition kind_eqb (a b : kind) : bool :=
  match a, b with KSurplus, KSurplus | KDebt, KDebt | KColl, KColl => true | _, _ => false end.

Fixpoint list_eqb {A} (eqb : A -> A -> bool) (l1 l2 : list A) : bool :=
  match l1, l2 with
  | [], [] => true
  | x :: r1, y :: r2 => eqb x y && list_eqb eqb r1 r2
  | _, _ => false
  end.

(* the fields a kind does not have (debt of a surplus auction, max bid and
   returns of surplus and debt auctions) are written by the harness as the
   model initialises them (0, []) *)
Definition auction_eqb (a b : auction) : bool :=
  (a_id a =? a_id b) && kind_eqb (a_kind a) (a_kind b) && Nat.eqb (a_init a) (a_init b)
  && Nat.eqb (a_lot_d a) (a_lot_d b) && (a_lot a =? a_lot b)
  && Nat.eqb (a_bidder a) (a_bidder b)
  && Nat.eqb (a_bid_d a) (a_bid_d b) && (a_bid a =? a_bid b)
  && Bool.eqb (a_has a) (a_has b)
  && (a_end a =? a_end b) && (a_maxend a =? a_maxend b)
  && Nat.eqb (a_debt_d a) (a_debt_d b) && (a_debt a =? a_debt b)
  && (a_maxbid a =? a_maxbid b)
  && list_eqb Nat.eqb (a_raddrs a) (a_raddrs b) && list_eqb Z.eqb (a_rw a) (a_rw b).

Record cfg := mkCfg {
  c_nacc : nat;                (* accounts 0 .. c_nacc-1 are compared *)
  c_denoms : list nat          (* denoms compared *)
}.

Definition proj_eqb (c : cfg) (s sh : state) : bool :=
  forallb (fun a => forallb (fun d => bal s a d =? bal sh a d) (c_denoms c)) (seq 0 (c_nacc c))
  && list_eqb auction_eqb (aucs s) (aucs sh)
  && keys_eqb (idx s) (idx sh)
  && (next_id s =? next_id sh).

Definition apply_obs (sh : state) (o : obs) : state :=
  let b := fold_left (fun f p => upd2 f (fst (fst p)) (snd (fst p)) (snd p)) (o_dbal o) (bal sh) in
  let l1 := fold_left (fun l id => adel id l) (o_del o) (aucs sh) in
  let l2 := fold_left (fun l a => aput a l) (o_set o) l1 in
  mkState b l2 (o_idx o) (o_next o).

(* first step index (from 0) at which model and implementation differ, at which
   the model invariant evaluates to false, or at which a successful operation
   does not satisfy the guard / oracle side-condition *)
Fixpoint first_mismatch (e : env) (c : cfg) (s sh : state) (h : list (op * obs)) (i : nat) : option nat :=
  match h with
  | [] => None
  | (o, ob) :: r =>
      let res := step e s o in
      let s' := match res with Ok s1 _ => s1 | _ => s end in
      let sh' := apply_obs sh ob in
      if rclass_eqb (class_of res) (o_class ob)
         && proj_eqb c s' sh'
         && inv_b e (c_denoms c) s'
         && (match res with Ok _ _ => op_okb e s o | _ => true end)
      then first_mismatch e c s' sh' r (S i)
      else Some i
  end.

(* list-based construction of environments and states from harness data *)
Definition nthZ (l : list Z) (i : nat) : Z := nth i l 0.
Definition nthB (l : list bool) (i : nat) : bool := nth i l false.

Definition mk_env (am nb : nat) (ism mint burn blk : list bool) (durs incs : list Z) : env :=
  mkEnv am nb (nthB ism) (nthB mint) (nthB burn) (nthB blk)
        (nthZ durs 0) (nthZ durs 1) (nthZ durs 2) (nthZ incs 0) (nthZ incs 1) (nthZ incs 2).

Definition mk_state (bals : list (list Z)) (l : list auction) (ix : list (Z * Z)) (nx : Z) : state :=
  mkState (fun a d => nthZ (nth a bals []) d) l ix nx.

Record history := mkHist {
  h_env : env;
  h_cfg : cfg;
  h_init : state;
  h_steps : list (op * obs)
}.

Definition check_history (h : history) : option nat :=
  if inv_b (h_env h) (c_denoms (h_cfg h)) (h_init h)
  then first_mismatch (h_env h) (h_cfg h) (h_init h) (h_init h) (h_steps h) 0
  else Some 0%nat.

Fixpoint mismatches_from (i : nat) (hs : list history) : list (nat * nat) :=
  match hs with
  | [] => []
  | h :: r =>
      match check_history h with
      | None => mismatches_from (S i) r
      | Some k => (i, k) :: mismatches_from (S i) r
      end
  end.
Definition mismatches := mismatches_from 0.

(** * The message level: MsgPlaceBid (types/msg.go ValidateBasic, keeper/msg_server.go) *)

(* ValidateBasic: the auction id is not zero and the amount is a valid coin
   (a valid denom, which the denoms of the model are, and a non-negative
   amount).  The msg server then calls keeper.PlaceBid with the same arguments
   (AccAddressFromBech32 cannot fail for the addresses of the model). *)
Definition bid_validate_basic (id x : Z) : bool := negb (id =? 0) && (0 <=? x).

(* ValidateBasic also refuses an empty bidder address ("bidder address cannot be
   empty"); the keeper itself does not look at the address before moving coins. *)
Definition msg_place_bid (e : env) (s : state) (t id : Z) (bidder d : nat) (x : Z) (parts : list Z)
  : outcome state unit :=
  if Nat.eqb bidder (nobody e) then Err
  else if bid_validate_basic id x then place_bid e s t id bidder d x parts else Err.
