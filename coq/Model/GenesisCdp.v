(* x/cdp/genesis.go (ExportGenesis, InitGenesis) and x/cdp/types/genesis.go
   (GenesisState.Validate with CDP.Validate, Deposit.Validate,
   GenesisAccumulationTime.Validate, GenesisTotalPrincipal.Validate) over the
   state of Model/Cdp.v.  Definitions only.

   Params, DebtDenom and GovDenom are constants of a history (part of [env]):
   Params.Validate is a predicate on the environment, it is not modelled (the
   harness evaluates the real gs.Validate()).

   ExportGenesis WRITES: it calls SynchronizeInterest on every stored cdp while
   iterating the cdp store, so the exported cdps are the synchronised ones and
   the exporting context ends in the synchronised state ([export_genesis]
   returns that state next to the genesis).  It panics when a collateral type
   has no previous accrual time.

   InitGenesis re-derives what the genesis file does not carry: the
   price-feed status flags (from the current prices), the owner index and the
   collateral-ratio index (from every cdp's collateral and total principal
   including fees).  An interest factor that was not stored is exported as 1.0
   and is stored by the import. *)
From Coq Require Import Sorted.
From Kava Require Import Base.Prelude Base.Dec Model.Cdp.
Local Open Scope Z_scope.

Record genesis := mkGen {
  g_cdps : list cdp;                 (* CDPs, in cdp-store order (type, id) *)
  g_deps : list (nat * nat * Z);     (* Deposits (cdp id, depositor, amount): per exported cdp, depositor order *)
  g_start : nat;                     (* StartingCdpID *)
  g_accs : list (nat * Z * Z);       (* PreviousAccumulationTimes (type, time, interest factor), CollateralParams order *)
  g_tprins : list (nat * Z)          (* TotalPrincipals (type, amount), CollateralParams order *)
}.

Definition typed_cps (e : env) : list (nat * cparam) := combine (seq 0 (ntypes e)) (cps e).

(* IterateAllCdps: the cdp store in key order (collateral type, id) *)
Definition cdps_of_type (s : state) (t : nat) : list cdp :=
  flat_map (fun id => match cdps s t id with Some c => [c] | None => [] end) (seq 0 (nextid s)).
Definition all_cdps (e : env) (s : state) : list cdp :=
  flat_map (cdps_of_type s) (seq 0 (ntypes e)).

(** * ExportGenesis *)

(* the callback of IterateAllCdps: SynchronizeInterest (a failure of
   UpdateCdpAndCollateralRatioIndex panics), then IterateDeposits of that cdp *)
Fixpoint export_cdps (e : env) (s : state) (l : list cdp)
  : outcome state (list cdp * list (nat * nat * Z)) :=
  match l with
  | [] => Ok s ([], [])
  | c :: r =>
      match get_cp e (c_type c) with
      | None => Panic
      | Some cp =>
          match sync_interest e s cp c with
          | Ok s1 c1 =>
              let ds := map (fun d : nat * Z => (c_id c, fst d, snd d)) (dep_list e s1 (c_id c)) in
              match export_cdps e s1 r with
              | Ok s2 (cs, dd) => Ok s2 (c1 :: cs, ds ++ dd)
              | Err => Err
              | Panic => Panic
              end
          | _ => Panic
          end
      end
  end.

(* the loop over params.CollateralParams: None = "expected previous accrual time to be set" *)
Fixpoint export_types (s : state) (ts : list nat) : option (list (nat * Z * Z) * list (nat * Z)) :=
  match ts with
  | [] => Some ([], [])
  | t :: r =>
      match ptime s t with
      | None => None
      | Some p =>
          match export_types s r with
          | None => None
          | Some (accs, tps) =>
              Some ((t, p, match ifac s t with Some f => f | None => PREC end) :: accs, (t, tprin s t) :: tps)
          end
      end
  end.

Definition export_genesis (e : env) (s : state) : outcome state genesis :=
  match export_cdps e s (all_cdps e s) with
  | Ok s1 (cs, dd) =>
      match export_types s1 (seq 0 (ntypes e)) with
      | Some (accs, tps) => Ok s1 (mkGen cs dd (nextid s1) accs tps)
      | None => Panic
      end
  | _ => Panic
  end.

(** * GenesisState.Validate *)

(* time.Time.Unix() of a nanosecond count *)
Definition unix (t : Z) : Z := t / NS.

(* CDP.Validate: id, coins (an sdk.Coin is valid when its amount is not negative), FeesUpdated.Unix() > 0;
   owner and type are never empty for the model's indexes *)
Definition cdp_valid (c : cdp) : bool :=
  negb (Nat.eqb (c_id c) 0) && (0 <=? c_coll c) && (0 <=? c_prin c) && (0 <=? c_fees c) && (0 <? unix (c_upd c)).

(* Deposit.Validate *)
Definition dep_valid (d : nat * nat * Z) : bool := negb (Nat.eqb (fst (fst d)) 0) && (0 <=? snd d).

Definition validate_genesis (g : genesis) : bool :=
  forallb cdp_valid (g_cdps g)
  && forallb dep_valid (g_deps g)
  && forallb (fun x : nat * Z * Z => PREC <=? snd x) (g_accs g)     (* interest factor >= 1.0 *)
  && forallb (fun x : nat * Z => 0 <=? snd x) (g_tprins g).          (* total principal not negative *)

(** * InitGenesis *)

(* the state of a context whose cdp store is empty: bank, price feed, auction
   module and the block header are what they are *)
Definition wipe (s : state) : state :=
  mkSt (fun _ _ => None) (fun _ _ => None) (fun _ => []) (fun _ => []) (fun _ => 0)
       (fun _ => None) (fun _ => None) 0%nat (fun _ => false)
       (price s) (bal s) (sup s) (aucs s) (now s) (height s).

(* per collateral parameter: both markets must be in the price feed's params
   (panic otherwise); UpdatePricefeedStatus for the spot, then the liquidation market *)
Definition init_market (e : env) (s : state) (cp : cparam) : outcome state unit :=
  if negb (Nat.ltb (cp_spot cp) (nmarkets e)) then Panic else
  let s1 := fst (update_status s (cp_spot cp)) in
  if negb (Nat.ltb (cp_liqm cp) (nmarkets e)) then Panic else
  Ok (fst (update_status s1 (cp_liqm cp))) tt.

(* SetInterestFactor; SetPreviousAccrualTime only when Unix() > 0 *)
Definition init_acc (s : state) (x : nat * Z * Z) : state :=
  let '(t, p, f) := x in
  let s1 := set_ifac s (upd (ifac s) t (Some f)) in
  if 0 <? unix p then set_ptime s1 (upd (ptime s1) t (Some p)) else s1.

Definition init_tprin (s : state) (x : nat * Z) : state := set_tprin s (upd (tprin s) (fst x) (snd x)).

(* SetCDP (fails for an unknown collateral type), IndexCdpByOwner,
   IndexCdpByCollateralRatio with CalculateCollateralToDebtRatio(collateral, type, GetTotalPrincipal()) *)
Definition init_cdp (e : env) (start : nat) (s : state) (c : cdp) : outcome state unit :=
  if Nat.eqb (c_id c) start then Panic else
  match get_cp e (c_type c) with
  | None => Panic
  | Some cp =>
      Ok (ridx_ins (oidx_add (put_cdp s c) (c_owner c) (c_id c)) (c_type c) (cdp_ratio e cp c) (c_id c)) tt
  end.

Definition init_dep (s : state) (d : nat * nat * Z) : state := put_dep s (fst (fst d)) (snd (fst d)) (snd d).

(* [s0] is the state the import starts from (empty cdp store) *)
Definition init_genesis (e : env) (s0 : state) (g : genesis) : outcome state unit :=
  if negb (validate_genesis g) then Panic else
  match ofold (init_market e) s0 (cps e) with
  | Ok s1 _ =>
      let s2 := fold_left init_acc (g_accs g) s1 in
      let s3 := fold_left init_tprin (g_tprins g) s2 in
      match ofold (init_cdp e (g_start g)) s3 (g_cdps g) with
      | Ok s4 _ => Ok (fold_left init_dep (g_deps g) (set_nextid s4 (g_start g))) tt
      | _ => Panic
      end
  | _ => Panic
  end.

(** * What the round-trip theorems are about *)

(* strict key order of the collateral-ratio index *)
Definition ent_lt (a b : Z * nat) : Prop := ent_ltb a b = true.

(* both indexes are kept in strict key order (IndexCdpByOwner sorts, the ratio index is a store prefix) *)
Definition idx_sorted (s : state) : Prop :=
  (forall o, StronglySorted Nat.lt (oidx s o)) /\ (forall t, StronglySorted ent_lt (ridx s t)).

(* value ranges that execution maintains and GenesisState.Validate asks for:
   ids start at 1; principal and fees are not negative; times are after the first
   second of the epoch; interest factors are at least 1.0, a type with a cdp has a
   global factor and the cdp's factor is a past value of it; total principal is not negative *)
Definition vals_ok (s : state) : Prop :=
  (forall t, cdps s t 0%nat = None) /\
  (forall t id c, cdps s t id = Some c ->
     0 <= c_prin c /\ 0 <= c_fees c /\ NS <= c_upd c /\ PREC <= c_ifac c /\
     (exists f, ifac s t = Some f /\ c_ifac c <= f)) /\
  (forall t f, ifac s t = Some f -> PREC <= f) /\
  (forall t p, ptime s t = Some p -> NS <= p) /\
  (forall t, 0 <= tprin s t) /\
  NS <= now s.

(* ExportGenesis panics for a collateral type without a previous accrual time *)
Definition ptimes_set (e : env) (s : state) : Prop := forall t, (t < ntypes e)%nat -> ptime s t <> None.

(* every collateral parameter names markets of the price feed *)
Definition markets_ok (e : env) : Prop :=
  forall cp, In cp (cps e) -> (cp_spot cp < nmarkets e)%nat /\ (cp_liqm cp < nmarkets e)%nat.

Definition is_market (e : env) (m : nat) : bool :=
  existsb (fun cp => Nat.eqb (cp_spot cp) m || Nat.eqb (cp_liqm cp) m) (cps e).

(* the state an import is expected to produce from the exporting context's
   final state: an interest factor that was not stored reads 1.0 afterwards, the
   status flag of every market a collateral uses is the validity of its current
   price (flags of other markets are not written) *)
Definition norm (e : env) (s : state) : state :=
  set_mstat (set_ifac s (fun t => if Nat.ltb t (ntypes e)
                                  then Some (match ifac s t with Some f => f | None => PREC end)
                                  else ifac s t))
            (fun m => if is_market e m then negb (price s m =? 0) else mstat s m).

(* equality of everything the module's observation looks at (function-valued
   components extensionally, on the ranges of the environment) *)
Definition st_equiv (e : env) (s s' : state) : Prop :=
  (forall t id, cdps s' t id = cdps s t id) /\
  (forall id u, deps s' id u = deps s id u) /\
  (forall o, oidx s' o = oidx s o) /\
  (forall t, (t < ntypes e)%nat -> ridx s' t = ridx s t) /\
  (forall t, (t < ntypes e)%nat -> tprin s' t = tprin s t /\ ifac s' t = ifac s t /\ ptime s' t = ptime s t) /\
  nextid s' = nextid s /\
  (forall m, is_market e m = true -> mstat s' m = mstat s m) /\
  price s' = price s /\ bal s' = bal s /\ sup s' = sup s /\ aucs s' = aucs s /\
  now s' = now s /\ height s' = height s.

(** * The wrapper machine of the correspondence check: ordinary operations and
      the in-place re-import (export, empty the cdp store, import) *)

Definition reimport (e : env) (s : state) : outcome state unit :=
  match export_genesis e s with
  | Ok s1 g => init_genesis e (wipe s1) g
  | _ => Panic
  end.

(* operations of the wrapper machine: an ordinary operation, the in-place re-import, and a probe: a
   (perturbed) genesis on which the implementation's GenesisState.Validate and InitGenesis were run in a
   discarded context, with their verdicts; a probe leaves the state as it is *)
Inductive gop :=
| GOp (o : op)
| GReimport
| GProbe (g : genesis) (valid : bool) (cls : rclass).

Definition gstep (e : env) (s : state) (o : gop) : outcome state unit :=
  match o with
  | GOp o1 => step e s o1
  | GReimport => reimport e s
  | GProbe _ _ _ => Ok s tt
  end.

(* the model's verdicts on a probed genesis: Validate, and InitGenesis started from the empty cdp store *)
Definition probe_ok (e : env) (s : state) (o : gop) : bool :=
  match o with
  | GProbe g valid cls =>
      Bool.eqb (validate_genesis g) valid && rclass_eqb (class_of (init_genesis e (wipe s) g)) cls
  | _ => true
  end.

Fixpoint gfirst_mismatch (e : env) (u0 : Z) (s : state) (sh : snap) (h : list (gop * obs)) (i : nat) : option nat :=
  match h with
  | [] => None
  | (o, ob) :: r =>
      let res := gstep e (set_aucs s []) o in
      let s' := match res with Ok s1 _ => s1 | _ => set_aucs s [] end in
      let sh' := apply_obs sh ob in
      if rclass_eqb (class_of res) (o_class ob) && snap_eqb (project e s') sh' && inv_b e u0 s' && probe_ok e s o
      then gfirst_mismatch e u0 s' sh' r (S i)
      else Some i
  end.

Record ghistory := mkGHist {
  gh_env : env;
  gh_usdx0 : Z;
  gh_init : state;
  gh_steps : list (gop * obs)
}.

Definition gcheck_history (h : ghistory) : option nat :=
  if inv_b (gh_env h) (gh_usdx0 h) (gh_init h)
  then gfirst_mismatch (gh_env h) (gh_usdx0 h) (gh_init h) (project (gh_env h) (gh_init h)) (gh_steps h) 0
  else Some 0%nat.

Fixpoint gmismatches_from (i : nat) (hs : list ghistory) : list (nat * nat) :=
  match hs with
  | [] => []
  | h :: r =>
      match gcheck_history h with
      | None => gmismatches_from (S i) r
      | Some k => (i, k) :: gmismatches_from (S i) r
      end
  end.
Definition gmismatches := gmismatches_from 0.
