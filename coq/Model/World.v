(* C02: block processing as a state machine.  A block is a begin-block input
   (time, prices …) followed by transactions; a transaction that fails (Err or a
   panic recovered by baseapp) leaves the state it started from; a Panic in the
   begin blocker halts the chain. *)
From Kava Require Import Base.Prelude.

Section Machine.
  Context {S B O : Type}.
  Variable begin_block : S -> B -> outcome S unit.
  Variable tx : S -> O -> outcome S unit.

  Definition tx' (s : S) (o : O) : S :=
    match tx s o with Ok s' _ => s' | _ => s end.

  (* None = the chain halted *)
  Definition run_block (s : S) (blk : B * list O) : option S :=
    match begin_block s (fst blk) with
    | Ok s1 _ => Some (fold_left tx' (snd blk) s1)
    | _ => None
    end.

  Fixpoint run_blocks (s : S) (blks : list (B * list O)) : option S :=
    match blks with
    | [] => Some s
    | b :: r => match run_block s b with Some s' => run_blocks s' r | None => None end
    end.
End Machine.

(* two modules side by side (each block input and each transaction addresses both or one) *)
Section Product.
  Context {S1 S2 B O1 O2 : Type}.
  Variable bb1 : S1 -> B -> outcome S1 unit.
  Variable bb2 : S2 -> B -> outcome S2 unit.
  Variable tx1 : S1 -> O1 -> outcome S1 unit.
  Variable tx2 : S2 -> O2 -> outcome S2 unit.

  Definition bb_prod (s : S1 * S2) (b : B) : outcome (S1 * S2) unit :=
    match bb1 (fst s) b with
    | Ok s1 _ => match bb2 (snd s) b with Ok s2 _ => Ok (s1, s2) tt | Err => Err | Panic => Panic end
    | Err => Err
    | Panic => Panic
    end.

  Definition tx_prod (s : S1 * S2) (o : O1 + O2) : outcome (S1 * S2) unit :=
    match o with
    | inl o1 => match tx1 (fst s) o1 with Ok s1 _ => Ok (s1, snd s) tt | Err => Err | Panic => Panic end
    | inr o2 => match tx2 (snd s) o2 with Ok s2 _ => Ok (fst s, s2) tt | Err => Err | Panic => Panic end
    end.
End Product.
