(* The x/savings SupportedDenoms parameter as part of a C12 history.

   x/savings keeper/deposit.go:  Deposit -> ValidateDeposit -> IsDenomSupported(denom) for every coin:
   a derivative coin is accepted only while "bkava" (liquidtypes.DefaultDerivativeDenom) is listed
   in SupportedDenoms.  The parameter is written by governance (Keeper.SetParams) at any time.
   Nothing else in x/savings reads it: Withdraw does not, GetDeposit does not.  A deposit made
   while the denom was listed STAYS in the store and stays withdrawable after the denom is removed.
   x/earn's savings strategy deposits through the same Keeper.Deposit (strategy_savings.go), so an
   earn deposit of a derivative is refused as well while the denom is not listed; earn withdrawals
   go through savings Withdraw and are not affected.

   app/tally_handler.go addBkavaFromSavings reads the voter's deposit with svk.GetDeposit and counts
   every coin whose denom IsDerivativeDenom: it does NOT consult the parameter.  Hence in this model
   the tally is [Model.Liquid.step] on the [state] component alone; the flag only gates [Stash].

   [sop] wraps [mop] (no constructor is added to [op] or [mop]); the state of a history is the
   pair (state, listed).  Definitions only, plus the correspondence-check support. *)
From Kava Require Import Base.Prelude Base.Dec Model.Staking Model.Tally Model.Liquid Model.TallyTie Model.LiquidMsg.
Local Open Scope Z_scope.

Inductive sop :=
| SMsg (m : mop)
| SSetListed (b : bool).   (* savings Keeper.SetParams: "bkava" is (b = true) / is not in SupportedDenoms *)

(* the operations that call savings Keeper.Deposit with a derivative coin *)
Definition deposits_to_savings (m : mop) : bool :=
  match m with MPlain (Stash _ _ _ _) => true | _ => false end.

Definition sstep (e : env) (s : state) (l : bool) (o : sop) : outcome (state * bool) output :=
  match o with
  | SSetListed b => Ok (s, b) ONone
  | SMsg m =>
      if deposits_to_savings m && negb l then Err else
      match mstep e s m with
      | Ok s' x => Ok (s', l) x
      | Err => Err
      | Panic => Panic
      end
  end.

Definition sstep' (e : env) (sl : state * bool) (o : sop) : state * bool :=
  match sstep e (fst sl) (snd sl) o with Ok sl' _ => sl' | _ => sl end.

Definition srun (e : env) (sl : state * bool) (os : list sop) : state * bool := fold_left (sstep' e) os sl.

(** * Correspondence-check support (as Model/LiquidMsg.v first_mismatch3, over [sop]) *)

Definition sstep_rec := (sop * obs * option tally_in)%type.

Definition stin_ok (e : env) (s : state) (o : sop) (ti : option tally_in) : bool :=
  match o, ti with
  | SMsg m, _ => mtin_ok e s m ti
  | SSetListed _, None => true
  | SSetListed _, Some _ => false
  end.

Fixpoint first_mismatch4 (e : env) (s sh : state) (l : bool) (h : list sstep_rec) (i : nat) : option nat :=
  match h with
  | [] => None
  | (o, ob, ti) :: r =>
      let res := sstep e s l o in
      let s' := match res with Ok sl _ => fst sl | _ => s end in
      let l' := match res with Ok sl _ => snd sl | _ => l end in
      let out := match res with Ok _ x => x | _ => ONone end in
      let sh' := apply_obs sh ob in
      if rclass_eqb (class_of res) (o_class ob)
         && output_eqb out (o_out ob)
         && state_eqb e s' sh'
         && inv_b e s'
         && stin_ok e s o ti
      then first_mismatch4 e s' sh' l' r (S i)
      else Some i
  end.

Record history4 := mkHist4 {
  h4_env : env;
  h4_init : state;
  h4_listed : bool;           (* "bkava" in the savings SupportedDenoms at the start of the history *)
  h4_steps : list sstep_rec
}.

Definition check_history4 (h : history4) : option nat :=
  if inv_b (h4_env h) (h4_init h)
  then first_mismatch4 (h4_env h) (h4_init h) (h4_init h) (h4_listed h) (h4_steps h) 0
  else Some 0%nat.

Fixpoint mismatches4_from (i : nat) (hs : list history4) : list (nat * nat) :=
  match hs with
  | [] => []
  | h :: r =>
      match check_history4 h with
      | None => mismatches4_from (S i) r
      | Some k => (i, k) :: mismatches4_from (S i) r
      end
  end.
Definition mismatches4 := mismatches4_from 0.
