(* Differential check of Base/Dec.v against cosmossdk.io/math: each case is
   (operation code, a, b, result observed from the Go library). *)
From Kava Require Import Base.Prelude Base.Dec.
Local Open Scope Z_scope.

Definition dec_eval (op : nat) (a b : Z) : Z :=
  match op with
  | 0%nat => dec_mul a b
  | 1%nat => dec_mul_trunc a b
  | 2%nat => dec_mul_roundup a b
  | 3%nat => dec_quo a b
  | 4%nat => dec_quo_trunc a b
  | 5%nat => dec_quo_roundup a b
  | 6%nat => dec_quo_int a b
  | 7%nat => dec_round_int a
  | 8%nat => dec_trunc_int a
  | 9%nat => dec_ceil a
  | 10%nat => dec_mul_int a b
  | 11%nat => rel_pow a b PREC
  | _ => 0
  end.

Fixpoint dec_mismatches_from (i : nat) (cs : list (nat * Z * Z * Z)) : list (nat * nat) :=
  match cs with
  | [] => []
  | (op, a, b, r) :: rest =>
      if dec_eval op a b =? r then dec_mismatches_from (S i) rest
      else (i, op) :: dec_mismatches_from (S i) rest
  end.
Definition dec_mismatches := dec_mismatches_from 0.
