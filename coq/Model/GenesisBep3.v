(* x/bep3/genesis.go (ExportGenesis, InitGenesis) and types/genesis.go
   (GenesisState.Validate with AtomicSwap.Validate and AssetSupply.Validate)
   over the state of Model/Bep3.v.  Definitions only.

   Params are constants of a history (part of [env]); Params.Validate is a
   predicate on the environment and is not modelled (the harness evaluates the
   real gs.Validate()).

   ExportGenesis writes nothing: it reads all swaps (swap-store order), all
   asset supplies and the previous block time.  Swap ids are hashes, abstract in
   the model, so the store order of the swaps is an input of the export
   ([order], recorded from the implementation by the harness; the theorems hold
   for every order that lists each stored id once).  Asset supplies exist for
   the denoms of the asset parameters (they are created by genesis and only ever
   rewritten).

   InitGenesis validates, stores the previous block time and the supplies, then
   for every swap: checks that its asset is supported AND active (panic
   otherwise), stores it, and rebuilds the index its status calls for (Open: by
   expiry height; Completed: long-term storage by closed block + 86400; Expired:
   none) while summing incoming / outgoing amounts of the swaps that are not
   completed; finally every stored supply's incoming / outgoing counters must
   equal those sums and current, incoming, incoming + current and outgoing must
   not exceed the asset's supply limit (panic otherwise). *)
From Kava Require Import Base.Prelude Model.Bep3.

Record genesis := mkGen {
  g_swaps : list swap;               (* AtomicSwaps *)
  g_sups : list (nat * supply);      (* Supplies, by denom *)
  g_prev : Z                         (* PreviousBlockTime *)
}.

Definition swaps_in_order (order : list id) (l : list (id * swap)) : list swap :=
  flat_map (fun i => match lookup i l with Some w => [w] | None => [] end) order.

Definition export_genesis (e : env) (order : list id) (s : state) : genesis :=
  mkGen (swaps_in_order order (s_swaps s))
        (map (fun a => (a_denom a, s_sup s (a_denom a))) (e_assets e))
        (s_prev s).

(** * GenesisState.Validate *)

(* AtomicSwap.Validate: one positive coin; ExpireHeight, Timestamp not 0; a
   completed swap has a ClosedBlock; hash length, addresses, status and
   direction are always well-formed for the model's records *)
Definition swap_valid (w : swap) : bool :=
  (0 <? sw_amt w) && negb (sw_expire w =? 0) && negb (sw_ts w =? 0)
  && negb (status_eqb (sw_status w) Completed && (sw_closed w =? 0)).

(* AssetSupply.Validate: the four coins are valid (amounts not negative) *)
Definition sup_valid (sp : supply) : bool :=
  (0 <=? sp_inc sp) && (0 <=? sp_out sp) && (0 <=? sp_cur sp) && (0 <=? sp_tl sp).

Fixpoint validate_swaps (seen : list id) (l : list swap) : bool :=
  match l with
  | [] => true
  | w :: r => negb (existsb (id_eqb (sw_id w)) seen) && swap_valid w && validate_swaps (sw_id w :: seen) r
  end.

Fixpoint validate_sups (seen : list nat) (l : list (nat * supply)) : bool :=
  match l with
  | [] => true
  | (d, sp) :: r => sup_valid sp && negb (existsb (Nat.eqb d) seen) && validate_sups (d :: seen) r
  end.

Definition validate_genesis (g : genesis) : bool := validate_swaps [] (g_swaps g) && validate_sups [] (g_sups g).

(** * InitGenesis *)

(* the state of a context whose bep3 store is empty (clock, bank and the ghost
   fields are what they are) *)
Definition wipe (s : state) : state :=
  mkState (s_height s) (s_time s) 0 [] [] [] (fun _ => zero_sup) (s_bal s) (s_bsup s) (g_next s) (g_log s).

(* one swap of the loop: ValidateLiveAsset, SetAtomicSwap, the index for its status *)
Definition init_swap (e : env) (s : state) (w : swap) : option state :=
  match find_asset (sw_denom w) (e_assets e) with
  | None => None
  | Some a =>
      if negb (a_active a) then None else
      let i := sw_id w in
      let sw := set_swap i w (s_swaps s) in
      Some (match sw_status w with
            | Open => set_tables s sw (ix_add (sw_expire w, i) (s_byblock s)) (s_longterm s)
            | Expired => set_tables s sw (s_byblock s) (s_longterm s)
            | Completed => set_tables s sw (s_byblock s) (ix_add (sw_closed w + LONGTERM, i) (s_longterm s))
            end)
  end.

Fixpoint init_swaps (e : env) (s : state) (l : list swap) : option state :=
  match l with
  | [] => Some s
  | w :: r => match init_swap e s w with Some s1 => init_swaps e s1 r | None => None end
  end.

(* incomingSupplies / outgoingSupplies .AmountOf(denom) *)
Definition live_sum (d : nat) (dir : direction) (l : list swap) : Z := zsum (map (wt d dir) l).

(* the closing loop over the stored supplies *)
Definition sup_check (e : env) (l : list swap) (x : nat * supply) : bool :=
  let (d, sp) := x in
  (sp_inc sp =? live_sum d Incoming l) && (sp_out sp =? live_sum d Outgoing l)
  && match find_asset d (e_assets e) with
     | None => false
     | Some a =>
         negb (a_limit a <? sp_cur sp) && negb (a_limit a <? sp_inc sp)
         && negb (a_limit a <? sp_inc sp + sp_cur sp) && negb (a_limit a <? sp_out sp)
     end.

Definition init_genesis (e : env) (s0 : state) (g : genesis) : outcome state unit :=
  if negb (validate_genesis g) then Panic else
  let s1 := set_prev s0 (g_prev g) in
  let s2 := fold_left (fun s (x : nat * supply) => set_sup s (fst x) (snd x)) (g_sups g) s1 in
  match init_swaps e s2 (g_swaps g) with
  | None => Panic
  | Some s3 => if forallb (sup_check e (g_swaps g)) (g_sups g) then Ok s3 tt else Panic
  end.

(** * What the round trip needs beyond C13's invariant *)

(* expiry height and timestamp are not 0, a completed swap has a closed block,
   and the swap's asset is active (the parameters do not change in a history) *)
Definition gen_ok (e : env) (w : swap) : Prop :=
  sw_expire w <> 0 /\ sw_ts w <> 0 /\ (sw_status w = Completed -> sw_closed w <> 0) /\
  exists a, find_asset (sw_denom w) (e_assets e) = Some a /\ a_active a = true.
Definition XInv (e : env) (s : state) : Prop := forall i w, lookup i (s_swaps s) = Some w -> gen_ok e w.

Definition gen_okb (e : env) (w : swap) : bool :=
  negb (sw_expire w =? 0) && negb (sw_ts w =? 0)
  && negb (status_eqb (sw_status w) Completed && (sw_closed w =? 0))
  && match find_asset (sw_denom w) (e_assets e) with Some a => a_active a | None => false end.

(* creates carry a timestamp and do not wrap the expiry height to 0 *)
Definition op_gen_ok (s : state) (o : op) : Prop :=
  match o with
  | Create _ ts span _ _ _ _ _ => ts <> 0 /\ (s_height s + span) mod U64 <> 0
  | _ => True
  end.

(* [order] lists every stored swap id exactly once *)
Definition order_ok (order : list id) (s : state) : bool :=
  Nat.eqb (length order) (length (s_swaps s)) && nodup_b id_eqb order
  && forallb (fun i => match lookup i (s_swaps s) with Some _ => true | None => false end) order.

(* equality of everything the module's observation looks at: the swap table as a
   finite map, the two indexes as sets (both kept without repetition) *)
Definition st_equiv (e : env) (s s' : state) : Prop :=
  (forall i, lookup i (s_swaps s') = lookup i (s_swaps s)) /\
  NoDup (map fst (s_swaps s')) /\ length (s_swaps s') = length (s_swaps s) /\
  NoDup (s_byblock s') /\ (forall x, In x (s_byblock s') <-> In x (s_byblock s)) /\
  NoDup (s_longterm s') /\ (forall x, In x (s_longterm s') <-> In x (s_longterm s)) /\
  (forall a, In a (e_assets e) -> s_sup s' (a_denom a) = s_sup s (a_denom a)) /\
  s_prev s' = s_prev s /\ s_bal s' = s_bal s /\ s_bsup s' = s_bsup s /\
  s_height s' = s_height s /\ s_time s' = s_time s /\ g_next s' = g_next s /\ g_log s' = g_log s.

(** * The wrapper machine of the correspondence check *)

Definition reimport (e : env) (order : list id) (s : state) : outcome state unit :=
  init_genesis e (wipe s) (export_genesis e order s).

(* operations of the wrapper machine: an ordinary operation, the in-place re-import, and a probe: a
   (perturbed) genesis on which the implementation's GenesisState.Validate and InitGenesis were run in a
   discarded context, with their verdicts; a probe leaves the state as it is *)
Inductive gop :=
| GOp (o : op)
| GReimport (order : list id)
| GProbe (g : genesis) (valid : bool) (cls : rclass).

Definition gstep (e : env) (s : state) (o : gop) : outcome state unit :=
  match o with
  | GOp o1 => step e s o1
  | GReimport order => reimport e order s
  | GProbe _ _ _ => Ok s tt
  end.

Definition probe_ok (e : env) (s : state) (o : gop) : bool :=
  match o with
  | GProbe g valid cls =>
      Bool.eqb (validate_genesis g) valid && rclass_eqb (class_of (init_genesis e (wipe s) g)) cls
  | _ => true
  end.

Fixpoint gfirst_mismatch (e : env) (s sh : state) (h : list (gop * obs)) (i : nat) : option nat :=
  match h with
  | [] => None
  | (o, ob) :: r =>
      let res := gstep e s o in
      let s' := match res with Ok s1 _ => s1 | _ => s end in
      let sh' := apply_obs sh ob in
      if rclass_eqb (class_of res) (o_class ob) && state_eqb e s' sh' && inv_b e s'
         && forallb (fun p => gen_okb e (snd p)) (s_swaps s')
         && match o with GOp o1 => op_ok_b e s o1 | GReimport order => order_ok order s | GProbe _ _ _ => true end
         && probe_ok e s o
      then gfirst_mismatch e s' sh' r (S i)
      else Some i
  end.

Record ghistory := mkGHist {
  gh_env : env;
  gh_init : state;
  gh_steps : list (gop * obs)
}.

Definition gcheck_history (h : ghistory) : option nat :=
  if inv_b (gh_env h) (gh_init h) && env_wf_b (gh_env h)
  then gfirst_mismatch (gh_env h) (gh_init h) (gh_init h) (gh_steps h) 0
  else Some 0%nat.

Fixpoint gmismatches_from (i : nat) (hs : list ghistory) : list (nat * nat) :=
  match hs with
  | [] => []
  | h :: r =>
      match gcheck_history h with
      | None => gmismatches_from (S i) r
      | Some k => (i, k) :: gmismatches_from (S i) r
      end
  end.
Definition gmismatches := gmismatches_from 0.
