(* x/auction/genesis.go (ExportGenesis, InitGenesis) and types/genesis.go
   (GenesisState.Validate with ValidateAuction and the per-kind Validate) over
   the state of Model/Auction.v.  Definitions only.

   Params are constants of a history (part of [env]); Params.Validate is a
   predicate on the environment and is not modelled (the harness evaluates the
   real gs.Validate()).  Times are Unix seconds, as in Model/Auction.v.

   ExportGenesis reads the next id and iterates the auction store in key (= id)
   order; it writes nothing.  InitGenesis validates, sets the next id, stores
   every auction with keeper.SetAuction (which rebuilds the by-end-time index
   entry by entry) and then compares the module account's balance with the sum
   of GetModuleAccountCoins over the genesis auctions, panicking on any
   difference. *)
From Kava Require Import Base.Prelude Base.Dec Model.Split Model.Auction.
Local Open Scope Z_scope.

Record genesis := mkGen {
  g_next : Z;                 (* NextAuctionId *)
  g_aucs : list auction       (* Auctions, in store (id) order *)
}.

Definition export_genesis (s : state) : genesis := mkGen (next_id s) (aucs s).

(** * GenesisState.Validate *)

(* ValidateAuction plus the kind's own checks: coins are valid when their amount
   is not negative; EndTime.Unix() > 0 and MaxEndTime.Unix() > 0; not EndTime
   after MaxEndTime; a collateral auction's LotReturns must validate *)
Definition auc_valid (e : env) (a : auction) : bool :=
  (0 <=? a_lot a) && (0 <=? a_bid a) && (0 <? a_end a) && (0 <? a_maxend a) && (a_end a <=? a_maxend a)
  && match a_kind a with
     | KSurplus => true
     | KDebt => 0 <=? a_debt a
     | KColl => (0 <=? a_debt a) && (0 <=? a_maxbid a) && weights_valid e (a_raddrs a) (a_rw a)
     end.

(* the loop of Validate: each auction valid, no id seen before, id below the next id *)
Fixpoint validate_aucs (e : env) (next : Z) (seen : list Z) (l : list auction) : bool :=
  match l with
  | [] => true
  | a :: r =>
      auc_valid e a && negb (existsb (Z.eqb (a_id a)) seen) && (a_id a <? next)
      && validate_aucs e next (a_id a :: seen) r
  end.

Definition validate_genesis (e : env) (g : genesis) : bool := validate_aucs e (g_next g) [] (g_aucs g).

(** * InitGenesis *)

(* [b] is the bank the import runs on (x/bank is imported by its own genesis);
   [denoms] are the denoms in circulation: the comparison of the module account's
   coins with the auctions' coins is a comparison in every denom *)
Definition init_genesis (e : env) (denoms : list nat) (b : bank) (g : genesis) : outcome state unit :=
  if negb (validate_genesis e g) then Panic else
  let s1 := fold_left (fun s a => set_auction s (bal s) a) (g_aucs g) (mkState b [] [] (g_next g)) in
  if forallb (fun d => b (amod e) d =? held d (g_aucs g)) denoms then Ok s1 tt else Panic.

(** * What the round trip needs beyond C06's invariant *)

(* end times are after the epoch's first second; a collateral auction's return
   addresses and weights are the ones StartCollateralAuction accepted *)
Definition gen_ok (e : env) (a : auction) : Prop :=
  0 < a_end a /\ (a_kind a = KColl -> weights_valid e (a_raddrs a) (a_rw a) = true).
Definition XInv (e : env) (s : state) : Prop := Forall (gen_ok e) (aucs s).

Definition gen_okb (e : env) (a : auction) : bool :=
  (0 <? a_end a) && match a_kind a with KColl => weights_valid e (a_raddrs a) (a_rw a) | _ => true end.

(* bids are placed at block times after the epoch's first second; durations are not negative *)
Definition op_time_ok (o : op) : Prop := match o with PlaceBid t _ _ _ _ _ => 0 < t | _ => True end.
Definition durs_ok (e : env) : Prop := 0 <= max_dur e /\ 0 <= fwd_dur e /\ 0 <= rev_dur e.

(** * The wrapper machine of the correspondence check *)

Definition reimport (e : env) (denoms : list nat) (s : state) : outcome state unit :=
  init_genesis e denoms (bal s) (export_genesis s).

(* operations of the wrapper machine: an ordinary operation, the in-place re-import, and a probe: a
   (perturbed) genesis on which the implementation's GenesisState.Validate and InitGenesis (on every
   probed genesis, also those Validate refuses) were run in a discarded context, with their verdicts;
   a probe leaves the state as it is *)
(* [bd]: the bank side of a probe - before InitGenesis ran, the auction module account's balance was
   changed by these (denom, amount) pairs (coins minted to it / sent away from it on the discarded
   branch): InitGenesis compares the module account's balance with the genesis auctions' coins *)
Definition adj_bank (b : bank) (a : nat) (bd : list (nat * Z)) : bank :=
  fun x d => if Nat.eqb x a
             then b x d + zsum (map (fun p => if Nat.eqb (fst p) d then snd p else 0) bd)
             else b x d.

Inductive gop :=
| GOp (o : op)
| GReimport
| GProbe (g : genesis) (bd : list (nat * Z)) (valid : bool) (cls : rclass).

Definition gstep (e : env) (denoms : list nat) (s : state) (o : gop) : outcome state unit :=
  match o with
  | GOp o1 => step e s o1
  | GReimport => reimport e denoms s
  | GProbe _ _ _ _ => Ok s tt
  end.

Definition probe_ok (e : env) (denoms : list nat) (s : state) (o : gop) : bool :=
  match o with
  | GProbe g bd valid cls =>
      Bool.eqb (validate_genesis e g) valid
      && rclass_eqb (class_of (init_genesis e denoms (adj_bank (bal s) (amod e) bd) g)) cls
  | _ => true
  end.

Fixpoint gfirst_mismatch (e : env) (c : cfg) (s sh : state) (h : list (gop * obs)) (i : nat) : option nat :=
  match h with
  | [] => None
  | (o, ob) :: r =>
      let res := gstep e (c_denoms c) s o in
      let s' := match res with Ok s1 _ => s1 | _ => s end in
      let sh' := apply_obs sh ob in
      if rclass_eqb (class_of res) (o_class ob)
         && proj_eqb c s' sh'
         && inv_b e (c_denoms c) s'
         && forallb (gen_okb e) (aucs s')
         && (match res, o with Ok _ _, GOp o1 => op_okb e s o1 | _, _ => true end)
         && probe_ok e (c_denoms c) s o
      then gfirst_mismatch e c s' sh' r (S i)
      else Some i
  end.

Record ghistory := mkGHist {
  gh_env : env;
  gh_cfg : cfg;
  gh_init : state;
  gh_steps : list (gop * obs)
}.

Definition gcheck_history (h : ghistory) : option nat :=
  if inv_b (gh_env h) (c_denoms (gh_cfg h)) (gh_init h)
  then gfirst_mismatch (gh_env h) (gh_cfg h) (gh_init h) (gh_init h) (gh_steps h) 0
  else Some 0%nat.

Fixpoint gmismatches_from (i : nat) (hs : list ghistory) : list (nat * nat) :=
  match hs with
  | [] => []
  | h :: r =>
      match gcheck_history h with
      | None => gmismatches_from (S i) r
      | Some k => (i, k) :: gmismatches_from (S i) r
      end
  end.
Definition gmismatches := gmismatches_from 0.
