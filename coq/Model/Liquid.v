(* Model of x/liquid/keeper: staking.go (TransferDelegation, fastUndelegate,
   delegateFromAccount), derivative.go (MintDerivative, BurnDerivative,
   CalculateDerivativeSharesFromTokens) as reached through msg_server.go, plus
   the operations of a history (staking messages, slash / jail, end blocker,
   bank send and savings / earn custody of derivative coins, governance tally)
   and, at the bottom, the correspondence-check support.  Definitions only. *)
From Kava Require Import Base.Prelude Base.Dec Model.Staking Model.Tally.
Local Open Scope Z_scope.

(* staking.go isBelowMinSelfDelegation (DelegatorShares <> 0 checked by the caller) *)
Definition below_min_self (v : validator) (sh : Z) : bool :=
  dec_trunc_int (tokens_from_shares v sh) <? v_minself v.

(* staking.go TransferDelegation; the output is the shares received.
   The tokens pass through the bank accounts of both parties
   (UndelegateCoinsFromModuleToAccount, SendCoins, DelegateCoinsFromAccountToModule)
   and leave every balance as it was; no account of a history has locked coins. *)
Definition transfer_delegation (e : env) (s : state) (i from to : nat) (sh : Z) : outcome state Z :=
  if redel s from i then Err else
  if sh <? 0 then Err else
  if sh =? 0 then Err else
  match del s from i with
  | None => Err
  | Some d =>
    let v := vals s i in
    if negb (v_exists v) then Err else
    if Nat.eqb from (oper e i) && (v_shares v =? 0) then Panic else
    if Nat.eqb from (oper e i) && below_min_self v (d - sh) then Err else
    match unbond e s from i sh with        (* fastUndelegate *)
    | Err => Err
    | Panic => Panic
    | Ok s1 issued =>
      (* shares worth less than one token unbond nothing: nothing is re-delegated *)
      if issued =? 0 then Ok s1 0 else
      if negb (v_exists (vals s1 i)) then Err else     (* delegateFromAccount: validator gone *)
      delegate s1 to i issued false
    end
  end.

(* derivative.go CalculateDerivativeSharesFromTokens + MintDerivative *)
Definition mint (e : env) (s : state) (a i : nat) (amt : Z) : outcome state Z :=
  if amt <=? 0 then Err else
  match validate_unbond_amount s a i amt with
  | None => Err
  | Some sh =>
    match transfer_delegation e s i a (liq e) sh with
    | Err => Err
    | Panic => Panic
    | Ok s1 recv =>
      (* only what the module account received is minted; nothing to mint is an error *)
      let minted := Z.min (dec_trunc_int sh) (dec_trunc_int recv) in
      if minted <=? 0 then Err else
      Ok (set_dsup (set_dbal s1 a i (dbal s1 a i + minted)) i (dsup s1 i + minted)) minted
    end
  end.

(* derivative.go BurnDerivative; the output is the shares received *)
Definition burn (e : env) (s : state) (a i : nat) (amt : Z) : outcome state Z :=
  if amt <=? 0 then Err else
  if dbal s a i <? amt then Err else
  let s1 := set_dsup (set_dbal s a i (dbal s a i - amt)) i (dsup s i - amt) in
  transfer_delegation e s1 i (liq e) a (dec_of_int amt).

(* bank MsgSend of a derivative denom between accounts (app.go loadBlockedMaccAddrs
   lets the liquid module account receive coins) *)
Definition send_deriv (e : env) (s : state) (a b i : nat) (amt : Z) : outcome state unit :=
  if amt <=? 0 then Err else
  if dbal s a i <? amt then Err else
  let s1 := set_dbal s a i (dbal s a i - amt) in
  Ok (set_dbal s1 b i (dbal s1 b i + amt)) tt.

(* custody: savings Deposit / Withdraw and earn (savings strategy) Deposit / Withdraw
   of one derivative coin.  Savings withdrawals are capped at the deposit.  Earn
   withdrawals are exercised only for the whole holding (a partial withdrawal goes
   through earn's dust rule, which is C11's subject, not modelled here; the
   harness refuses it before the keeper is called). *)
Inductive place := PSav | PEarn.

Definition stash (s : state) (p : place) (a i : nat) (amt : Z) : outcome state unit :=
  if amt <=? 0 then Err else
  if negb (v_exists (vals s i)) then Err else       (* IsDerivativeDenom *)
  if dbal s a i <? amt then Err else
  let s1 := set_dbal s a i (dbal s a i - amt) in
  match p with
  | PSav => Ok (set_sav s1 a i (sav s1 a i + amt)) tt
  | PEarn => Ok (set_ern s1 a i (ern s1 a i + amt)) tt
  end.

Definition unstash (s : state) (p : place) (a i : nat) (amt : Z) : outcome state unit :=
  if amt <=? 0 then Err else
  match p with
  | PSav =>
      if sav s a i <=? 0 then Err else
      let w := Z.min amt (sav s a i) in
      Ok (set_dbal (set_sav s a i (sav s a i - w)) a i (dbal s a i + w)) tt
  | PEarn =>
      if negb (ern s a i =? amt) then Err else
      Ok (set_dbal (set_ern s a i 0) a i (dbal s a i + amt)) tt
  end.

Inductive op :=
| Delegate (a i : nat) (amt : Z)
| Undelegate (a i : nat) (amt : Z)
| Redelegate (a src dst : nat) (amt : Z)
| Slash (i : nat) (power factor : Z)
| Jail (i : nat)
| Unjail (i : nat)
| EndBlock (mature : bool)
| Mint (a i : nat) (amt : Z)
| Burn (a i : nat) (amt : Z)
| SendD (a b i : nat) (amt : Z)
| Stash (p : place) (a i : nat) (amt : Z)
| Unstash (p : place) (a i : nat) (amt : Z)
| Tally (votes : list vote).

(* what an operation returns besides the state *)
Inductive output :=
| ONone
| OShares (x : Z)                 (* Mint: derivative minted; Burn: shares received *)
| OTally (t : tally_out).

Definition lift {A} (f : A -> output) (r : outcome state A) : outcome state output :=
  match r with Ok s x => Ok s (f x) | Err => Err | Panic => Panic end.

Definition acc_ok (e : env) (a : nat) : bool := Nat.ltb a (nacc e).
Definition user_ok (e : env) (a : nat) : bool := Nat.ltb a (nacc e) && negb (Nat.eqb a (liq e)).
Definition val_ok (e : env) (i : nat) : bool := Nat.ltb i (nval e).

Definition step (e : env) (s : state) (o : op) : outcome state output :=
  match o with
  | Delegate a i amt =>
      if user_ok e a && val_ok e i then lift (fun _ => ONone) (msg_delegate s a i amt) else Err
  | Undelegate a i amt =>
      if user_ok e a && val_ok e i then lift (fun _ => ONone) (undelegate e s a i amt) else Err
  | Redelegate a src dst amt =>
      if user_ok e a && val_ok e src && val_ok e dst then lift (fun _ => ONone) (redelegate e s a src dst amt) else Err
  | Slash i power factor =>
      if val_ok e i then lift (fun _ => ONone) (slash s i power factor) else Err
  | Jail i => if val_ok e i then lift (fun _ => ONone) (jail s i) else Err
  | Unjail i => if val_ok e i then lift (fun _ => ONone) (unjail e s i) else Err
  | EndBlock m => Ok (end_block s m) ONone
  | Mint a i amt =>
      if user_ok e a && val_ok e i then lift OShares (mint e s a i amt) else Err
  | Burn a i amt =>
      if user_ok e a && val_ok e i then lift OShares (burn e s a i amt) else Err
  | SendD a b i amt =>
      if user_ok e a && acc_ok e b && val_ok e i then lift (fun _ => ONone) (send_deriv e s a b i amt) else Err
  | Stash p a i amt =>
      if user_ok e a && val_ok e i then lift (fun _ => ONone) (stash s p a i amt) else Err
  | Unstash p a i amt =>
      if user_ok e a && val_ok e i then lift (fun _ => ONone) (unstash s p a i amt) else Err
  | Tally votes =>
      match tally e s votes with Some t => Ok s (OTally t) | None => Panic end
  end.

(* a failed operation leaves the state it started from *)
Definition step' (e : env) (s : state) (o : op) : state :=
  match step e s o with Ok s' _ => s' | _ => s end.

Definition run (e : env) (s : state) (ops : list op) : state := fold_left (step' e) ops s.

(** * Correspondence-check support: observations and comparison *)

Inductive rclass := ROk | RErr | RPanic.
Definition rclass_eqb (a b : rclass) : bool :=
  match a, b with ROk, ROk | RErr, RErr | RPanic, RPanic => true | _, _ => false end.
Definition class_of {S O} (r : outcome S O) : rclass :=
  match r with Ok _ _ => ROk | Err => RErr | Panic => RPanic end.

(* what the harness records after each operation: result class, the output,
   and the changes of the implementation's observable state relative to the
   previous observation *)
Record obs := mkObs {
  o_class : rclass;
  o_out : output;
  o_vals : list (nat * validator);            (* changed validator records *)
  o_dels : list (nat * nat * option Z);       (* changed delegations *)
  o_bal : list (nat * Z);                     (* changed ukava balances *)
  o_dbal : list (nat * nat * Z);              (* changed wallet derivative balances *)
  o_sav : list (nat * nat * Z);
  o_ern : list (nat * nat * Z);
  o_dsup : list (nat * Z);
  o_redel : list (nat * nat * bool);
  o_ubd : list (nat * Z)
}.

Definition app1 {A} (f : nat -> A) (l : list (nat * A)) : nat -> A :=
  fold_left (fun f p => upd f (fst p) (snd p)) l f.
Definition app2 {A} (f : nat -> nat -> A) (l : list (nat * nat * A)) : nat -> nat -> A :=
  fold_left (fun f p => upd2 f (fst (fst p)) (snd (fst p)) (snd p)) l f.

Definition apply_obs (sh : state) (o : obs) : state :=
  mkState (app1 (vals sh) (o_vals o)) (app2 (del sh) (o_dels o)) (app1 (bal sh) (o_bal o))
          (app2 (dbal sh) (o_dbal o)) (app2 (sav sh) (o_sav o)) (app2 (ern sh) (o_ern o))
          (app1 (dsup sh) (o_dsup o)) (app2 (redel sh) (o_redel o)) (app1 (ubd sh) (o_ubd o)).

Definition opt_eqb (a b : option Z) : bool :=
  match a, b with Some x, Some y => x =? y | None, None => true | _, _ => false end.

(* a removed validator is compared on its existence flag only *)
Definition val_eqb (a b : validator) : bool :=
  Bool.eqb (v_exists a) (v_exists b) &&
  (negb (v_exists a) ||
   ((v_tokens a =? v_tokens b) && (v_shares a =? v_shares b) && vstatus_eqb (v_status a) (v_status b)
    && Bool.eqb (v_jailed a) (v_jailed b) && (v_minself a =? v_minself b))).

Definition state_eqb (e : env) (s t : state) : bool :=
  let accs := seq 0 (nacc e) in
  let vs := seq 0 (nval e) in
  forallb (fun i => val_eqb (vals s i) (vals t i) && (dsup s i =? dsup t i)) vs &&
  forallb (fun a => (bal s a =? bal t a) && (ubd s a =? ubd t a) &&
    forallb (fun i => opt_eqb (del s a i) (del t a i) && (dbal s a i =? dbal t a i) &&
                      (sav s a i =? sav t a i) && (ern s a i =? ern t a i) &&
                      Bool.eqb (redel s a i) (redel t a i)) vs) accs.

Definition tally_out_eqb (a b : tally_out) : bool :=
  (r_yes a =? r_yes b) && (r_abstain a =? r_abstain b) && (r_no a =? r_no b) && (r_veto a =? r_veto b)
  && Bool.eqb (r_passes a) (r_passes b) && Bool.eqb (r_burn a) (r_burn b).

Definition output_eqb (a b : output) : bool :=
  match a, b with
  | ONone, ONone => true
  | OShares x, OShares y => x =? y
  | OTally x, OTally y => tally_out_eqb x y
  | _, _ => false
  end.

(* boolean form of the model invariant (evaluated on every model state during
   the correspondence run; by theorem it cannot be false): non-negative
   amounts, DelegatorShares = sum of the delegations, derivative supply = sum
   of all holdings *)
Definition inv_b (e : env) (s : state) : bool :=
  forallb (fun i =>
    let v := vals s i in
    (0 <=? v_tokens v) && (0 <=? v_shares v) &&
    (negb (v_exists v) || (v_shares v =? sumN (nacc e) (fun a => dshares s a i))) &&
    (dsup s i =? sumN (nacc e) (fun a => held s a i))) (seq 0 (nval e)) &&
  forallb (fun a => (0 <=? bal s a) && (0 <=? ubd s a) &&
    forallb (fun i => (0 <=? dshares s a i) && (0 <=? dbal s a i) && (0 <=? sav s a i) && (0 <=? ern s a i))
            (seq 0 (nval e))) (seq 0 (nacc e)).

Fixpoint first_mismatch (e : env) (s sh : state) (h : list (op * obs)) (i : nat) : option nat :=
  match h with
  | [] => None
  | (o, ob) :: r =>
      let res := step e s o in
      let s' := match res with Ok s1 _ => s1 | _ => s end in
      let out := match res with Ok _ x => x | _ => ONone end in
      let sh' := apply_obs sh ob in
      if rclass_eqb (class_of res) (o_class ob)
         && output_eqb out (o_out ob)
         && state_eqb e s' sh'
         && inv_b e s'
      then first_mismatch e s' sh' r (S i)
      else Some i
  end.

(* list-based construction of environments and states from harness data *)
Definition nthZ (l : list Z) (i : nat) : Z := nth i l 0.
Definition nthN (l : list nat) (i : nat) : nat := nth i l 0%nat.

Definition no_val : validator := mkVal false 0 0 Unbonded false 0.

Definition mk_env (na nv lq : nat) (opers : list nat) (q t v : Z) (bq bv : bool) : env :=
  mkEnv na nv lq (nthN opers) q t v bq bv.

(* initial state: validators, delegations (delegator, validator, shares), ukava balances *)
Definition mk_state (vs : list validator) (ds : list (nat * nat * option Z)) (bals : list Z) : state :=
  mkState (fun i => nth i vs no_val) (app2 (fun _ _ => None) ds) (nthZ bals)
          (fun _ _ => 0) (fun _ _ => 0) (fun _ _ => 0) (fun _ => 0) (fun _ _ => false) (fun _ => 0).

Record history := mkHist {
  h_env : env;
  h_init : state;
  h_steps : list (op * obs)
}.

Definition check_history (h : history) : option nat :=
  if inv_b (h_env h) (h_init h)
  then first_mismatch (h_env h) (h_init h) (h_init h) (h_steps h) 0
  else Some 0%nat.

Fixpoint mismatches_from (i : nat) (hs : list history) : list (nat * nat) :=
  match hs with
  | [] => []
  | h :: r =>
      match check_history h with
      | None => mismatches_from (S i) r
      | Some k => (i, k) :: mismatches_from (S i) r
      end
  end.
Definition mismatches := mismatches_from 0.
