(* x/swap/genesis.go (ExportGenesis, InitGenesis) and types/genesis.go, types/state.go,
   types/params.go (GenesisState.Validate and what it calls) over the keeper state of
   Model/Swap.v.  Definitions only. *)
From Kava Require Import Base.Prelude Base.Dec Model.Swap.
Local Open Scope Z_scope.

(* PoolRecord: pool id (tokenA, tokenB), the denoms of ReservesA / ReservesB, amounts, total shares *)
Record gpool := mkGP { gp_x : nat; gp_y : nat; gp_da : nat; gp_db : nat; gp_ra : Z; gp_rb : Z; gp_sh : Z }.
(* ShareRecord: depositor, pool id, shares owned *)
Record gshare := mkGS { gs_who : nat; gs_x : nat; gs_y : nat; gs_sh : Z }.

Record genesis := mkGen {
  g_allowed : list (nat * nat);     (* Params.AllowedPools *)
  g_fee : Z;                        (* Params.SwapFee *)
  g_pools : list gpool;
  g_shares : list gshare
}.

(** * ExportGenesis: GetParams, GetAllPools, GetAllDepositorShares (listed here by identifier
    numbers; the stores list them by pool-id string and by address) *)

Definition export_pools (e : env) (s : kstate) : list gpool :=
  flat_map (fun x => flat_map (fun y =>
    match k_pool s x y with
    | Some p => [mkGP x y x y (ra p) (rb p) (sh p)]
    | None => []
    end) (seq 0 (nden e))) (seq 0 (nden e)).

Definition export_shares (e : env) (s : kstate) : list gshare :=
  flat_map (fun a => flat_map (fun x => flat_map (fun y =>
    if k_sh s a x y =? 0 then [] else [mkGS a x y (k_sh s a x y)])
    (seq 0 (nden e))) (seq 0 (nden e))) (seq 0 (S (nusers e))).

Definition export_genesis (e : env) (s : kstate) : genesis :=
  mkGen (allowed e) (swap_fee e) (export_pools e s) (export_shares e s).

(** * GenesisState.Validate *)

(* AllowedPool.Validate: tokenA before tokenB (not equal); AllowedPools.Validate: no duplicates *)
Fixpoint nodup_pairs (seen : list (nat * nat)) (l : list (nat * nat)) : bool :=
  match l with
  | [] => true
  | (a, b) :: r => negb (existsb (fun p => Nat.eqb (fst p) a && Nat.eqb (snd p) b) seen) && nodup_pairs ((a, b) :: seen) r
  end.

(* validateSwapFee: not negative, below MaxSwapFee = 1.0 *)
Definition params_valid (al : list (nat * nat)) (fee : Z) : bool :=
  forallb (fun p => Nat.ltb (fst p) (snd p)) al && nodup_pairs [] al && fee_ok fee.

(* PoolRecord.Validate: id tokens in order and different, id matches the reserve denoms,
   both reserves and the total shares positive *)
Definition gpool_valid (p : gpool) : bool :=
  Nat.ltb (gp_x p) (gp_y p) && Nat.eqb (gp_da p) (gp_x p) && Nat.eqb (gp_db p) (gp_y p)
  && (0 <? gp_ra p) && (0 <? gp_rb p) && (0 <? gp_sh p).

(* ShareRecord.Validate: id tokens in order and different, shares positive *)
Definition gshare_valid (r : gshare) : bool := Nat.ltb (gs_x r) (gs_y r) && (0 <? gs_sh r).

Definition nodup_pools (l : list gpool) : bool := nodup_pairs [] (map (fun p => (gp_x p, gp_y p)) l).

Fixpoint nodup_shares (seen : list (nat * nat * nat)) (l : list gshare) : bool :=
  match l with
  | [] => true
  | r :: rest =>
      negb (existsb (fun k => Nat.eqb (fst (fst k)) (gs_who r) && Nat.eqb (snd (fst k)) (gs_x r) && Nat.eqb (snd k) (gs_y r)) seen)
      && nodup_shares ((gs_who r, gs_x r, gs_y r) :: seen) rest
  end.

(* totalShares[poolID] (zero for an id without pool record; the last record wins) and the sum
   of the shares owned in that pool *)
Definition total_of (l : list gpool) (x y : nat) : Z :=
  fold_left (fun acc p => if Nat.eqb (gp_x p) x && Nat.eqb (gp_y p) y then gp_sh p else acc) l 0.
Definition owned_of (l : list gshare) (x y : nat) : Z :=
  zsum (map (fun r => if Nat.eqb (gs_x r) x && Nat.eqb (gs_y r) y then gs_sh r else 0) l).

Definition totals_match (g : genesis) : bool :=
  forallb (fun p => total_of (g_pools g) (gp_x p) (gp_y p) =? owned_of (g_shares g) (gp_x p) (gp_y p)) (g_pools g)
  && forallb (fun r => total_of (g_pools g) (gs_x r) (gs_y r) =? owned_of (g_shares g) (gs_x r) (gs_y r)) (g_shares g).

Definition validate_genesis (g : genesis) : bool :=
  params_valid (g_allowed g) (g_fee g)
  && forallb gpool_valid (g_pools g) && nodup_pools (g_pools g)
  && forallb gshare_valid (g_shares g) && nodup_shares [] (g_shares g)
  && totals_match g.

(** * InitGenesis *)

(* [s0] supplies the bank balances (x/bank's own genesis).  SetPool and SetDepositorShares
   validate each record again and panic on an invalid one: after GenesisState.Validate they
   cannot.  The parameters are constants of the model's environment. *)
Definition init_genesis (e : env) (s0 : kstate) (g : genesis) : outcome kstate (list Z) :=
  if negb (validate_genesis g) then Panic else
  if negb (forallb gpool_valid (g_pools g) && forallb gshare_valid (g_shares g)) then Panic else
  Ok (mkK (k_bal s0)
          (fold_left (fun f p => upd2 f (gp_x p) (gp_y p) (Some (mkPool (gp_ra p) (gp_rb p) (gp_sh p)))) (g_pools g) (fun _ _ => None))
          (fold_left (fun f r => upd3 f (gs_who r) (gs_x r) (gs_y r) (gs_sh r)) (g_shares g) (fun _ _ _ => 0))) [].

(** * The wrapper machine *)

Inductive gop :=
| GOp (o : op)
| GReimport
| GProbe (g : genesis).

Definition reimport (e : env) (s : kstate) : outcome kstate (list Z) := init_genesis e s (export_genesis e s).

Definition rcode (r : rclass) : Z := match r with ROk => 0 | RErr => 1 | RPanic => 2 end.

(* both verdicts on a probed genesis state: GenesisState.Validate, and the class of InitGenesis, which
   the implementation runs on every probed state (also those Validate refuses) on an emptied store *)
Definition probe (e : env) (s : kstate) (g : genesis) : list Z :=
  [(if validate_genesis g then 1 else 0); rcode (class_of (init_genesis e s g))].

Definition gstep (e : env) (s : kstate) (o : gop) : outcome kstate (list Z) :=
  match o with
  | GOp x => step e s x
  | GReimport => reimport e s
  | GProbe g => Ok s (probe e s g)
  end.

Definition gstep' (e : env) (s : kstate) (o : gop) : kstate :=
  match gstep e s o with Ok s' _ => s' | _ => s end.
Definition grun (e : env) (s : kstate) (ops : list gop) : kstate := fold_left (gstep' e) ops s.

(** * Correspondence-check support *)

Definition gpool_eqb (a b : gpool) : bool :=
  Nat.eqb (gp_x a) (gp_x b) && Nat.eqb (gp_y a) (gp_y b) && Nat.eqb (gp_da a) (gp_da b) && Nat.eqb (gp_db a) (gp_db b)
  && (gp_ra a =? gp_ra b) && (gp_rb a =? gp_rb b) && (gp_sh a =? gp_sh b).
Definition gshare_eqb (a b : gshare) : bool :=
  Nat.eqb (gs_who a) (gs_who b) && Nat.eqb (gs_x a) (gs_x b) && Nat.eqb (gs_y a) (gs_y b) && (gs_sh a =? gs_sh b).
Definition genesis_eqb (a b : genesis) : bool :=
  list_eqb (fun p q => Nat.eqb (fst p) (fst q) && Nat.eqb (snd p) (snd q)) (g_allowed a) (g_allowed b)
  && (g_fee a =? g_fee b) && list_eqb gpool_eqb (g_pools a) (g_pools b) && list_eqb gshare_eqb (g_shares a) (g_shares b).

(* step observation; for a re-import also the genesis state the real ExportGenesis produced
   (records sorted by identifier numbers); for a probe the two verdicts.  Deleted records are
   expressible in [obs] (None / 0), so a re-import needs no full snapshot. *)
Inductive gobs :=
| ObsStep (o : obs)
| ObsReimport (o : obs) (g : genesis)
| ObsProbe (v : list Z).

Definition no_change : obs := mkObs ROk [] [] [].

Definition out_of (r : outcome kstate (list Z)) : list Z := match r with Ok _ o => o | _ => [] end.

Fixpoint gfirst_mismatch (e : env) (s shd : kstate) (h : list (gop * gobs)) (i : nat) : option nat :=
  match h with
  | [] => None
  | (o, gb) :: r =>
      let res := gstep e s o in
      let s' := match res with Ok s1 _ => s1 | _ => s end in
      let ob := match gb with ObsStep x => x | ObsReimport x _ => x | ObsProbe _ => no_change end in
      let shd' := apply_obs shd ob in
      let extra := match o, gb with
                   | GOp _, ObsStep _ => true
                   | GReimport, ObsReimport _ g => genesis_eqb (export_genesis e s) g
                   | GProbe _, ObsProbe v => list_eqb Z.eqb (out_of res) v
                   | _, _ => false
                   end in
      if extra
         && rclass_eqb (class_of res) (o_class ob)
         && proj_eqb (project e s') (project e shd')
         && inv_b e s'
      then gfirst_mismatch e s' shd' r (S i)
      else Some i
  end.

Record ghistory := mkGHist { gh_env : env; gh_init : kstate; gh_steps : list (gop * gobs) }.

Definition gcheck_history (h : ghistory) : option nat :=
  if inv_b (gh_env h) (gh_init h)
  then gfirst_mismatch (gh_env h) (gh_init h) (gh_init h) (gh_steps h) 0
  else Some 0%nat.

Fixpoint gmismatches_from (i : nat) (hs : list ghistory) : list (nat * nat) :=
  match hs with
  | [] => []
  | h :: r =>
      match gcheck_history h with
      | None => gmismatches_from (S i) r
      | Some k => (i, k) :: gmismatches_from (S i) r
      end
  end.
Definition gmismatches := gmismatches_from 0.
