(* x/swap with the swap fee as STATE: the fee is a module parameter (params subspace "swap", key
   SwapFee) that governance changes in the middle of a history with a parameter-change proposal
   (x/params proposal handler -> Subspace.Update -> validateSwapFee), and every swap reads it at the
   time it executes (keeper.GetSwapFee -> GetParams -> the subspace).

   Model/Swap.v keeps the fee in [env]; this file wraps it: the state carries the current fee and a
   step runs the step of Model/Swap.v under the environment whose fee is the current one, so a
   history is a sequence of segments of constant fee and every theorem of Model/Swap.v applies to
   each segment (Proofs/SwapGov.v).  Definitions only, plus correspondence-check support. *)
From Kava Require Import Base.Prelude Base.Dec Model.Swap.
Local Open Scope Z_scope.

Definition with_fee (e : env) (f : Z) : env := mkEnv (nusers e) (nden e) (allowed e) f.

Record vstate := mkV {
  v_fee : Z;          (* params.SwapFee mantissa, as stored in the params subspace *)
  v_k : kstate
}.

Inductive vop :=
| VKeeper (o : op)              (* a direct keeper call *)
| VTx (t : Z) (m : msg)         (* a swap message in a transaction at block time t (Unix seconds) *)
| VSetFee (f : Z).              (* parameter-change proposal: subspace swap, key SwapFee, value mantissa f *)

(* the environment a step runs under *)
Definition cur_env (e : env) (s : vstate) : env := with_fee e (v_fee s).

Definition lift_k (fee : Z) (r : outcome kstate (list Z)) : outcome vstate (list Z) :=
  match r with Ok k outs => Ok (mkV fee k) outs | Err => Err | Panic => Panic end.

(* types/params.go validateSwapFee: not nil, not negative, below MaxSwapFee = 1 (Subspace.Update
   runs the validator registered in ParamSetPairs and stores nothing when it fails) *)
Definition vstep (e : env) (s : vstate) (g : vop) : outcome vstate (list Z) :=
  match g with
  | VKeeper o => lift_k (v_fee s) (step (cur_env e s) (v_k s) o)
  | VTx t m => lift_k (v_fee s) (tx_step (cur_env e s) t (v_k s) m)
  | VSetFee f => if fee_ok f then Ok (mkV f (v_k s)) [] else Err
  end.

Definition vstep' (e : env) (s : vstate) (g : vop) : vstate :=
  match vstep e s g with Ok s' _ => s' | _ => s end.

Definition vrun (e : env) (s : vstate) (gs : list vop) : vstate := fold_left (vstep' e) gs s.

(* A keeper that memoised the fee at its first use and never looked at the parameter again (the
   memo is cleared by Keeper.SetParams only, which a parameter-change proposal does not call): the
   state carries the memo next to the parameter.  Not the model of /repo; used to show that a swap
   after a fee change then keeps less than the configured fee (Proofs/SwapGov.v). *)
Record mstate := mkM { m_memo : option Z; m_v : vstate }.
Definition memo_fee (s : mstate) : Z := match m_memo s with Some f => f | None => v_fee (m_v s) end.
Definition is_swap_op (o : op) : bool := match o with SwapIn _ _ _ _ _ _ | SwapOut _ _ _ _ _ _ => true | _ => false end.
Definition mstep_memo (e : env) (s : mstate) (g : vop) : outcome mstate (list Z) :=
  match g with
  | VKeeper o =>
      match step (with_fee e (memo_fee s)) (v_k (m_v s)) o with
      | Ok k outs => Ok (mkM (if is_swap_op o then Some (memo_fee s) else m_memo s) (mkV (v_fee (m_v s)) k)) outs
      | Err => Err | Panic => Panic
      end
  | VTx _ _ => Err
  | VSetFee f => if fee_ok f then Ok (mkM (m_memo s) (mkV f (v_k (m_v s)))) [] else Err
  end.

(** * Correspondence-check support: after every step the harness also records the fee it reads back
    from the keeper's GetParams *)
Definition vstep_rec := (vop * obs * Z)%type.

Fixpoint first_mismatch_v (e : env) (s : vstate) (shd : kstate) (h : list vstep_rec) (i : nat) : option nat :=
  match h with
  | [] => None
  | (g, ob, fee) :: r =>
      let res := vstep e s g in
      let s' := match res with Ok s1 _ => s1 | _ => s end in
      let shd' := apply_obs shd ob in
      if rclass_eqb (class_of res) (o_class ob)
         && proj_eqb (project e (v_k s')) (project e shd')
         && inv_b e (v_k s')
         && (v_fee s' =? fee)
      then first_mismatch_v e s' shd' r (S i)
      else Some i
  end.

Record vhistory := mkVH { vh_env : env; vh_init : kstate; vh_steps : list vstep_rec }.

Definition check_vhistory (h : vhistory) : option nat :=
  if inv_b (vh_env h) (vh_init h)
  then first_mismatch_v (vh_env h) (mkV (swap_fee (vh_env h)) (vh_init h)) (vh_init h) (vh_steps h) 0
  else Some 0%nat.

Fixpoint vmismatches_from (i : nat) (hs : list vhistory) : list (nat * nat) :=
  match hs with
  | [] => []
  | h :: r =>
      match check_vhistory h with
      | None => vmismatches_from (S i) r
      | Some k => (i, k) :: vmismatches_from (S i) r
      end
  end.
Definition mismatches_v := vmismatches_from 0.
