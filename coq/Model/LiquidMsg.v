(* The message level of x/liquid: a MsgMintDerivative / MsgBurnDerivative carries a validator
   address AND a coin whose denom the sender chooses freely (types/msg.go ValidateBasic only checks
   that the coin is valid and positive).  Model/Liquid.v's [Mint a i amt] / [Burn a i amt] are the
   messages every ordinary client builds: the coin's denom is the bond denom (mint) or the
   derivative denom of the SAME validator (burn).  Here the denom is a field of its own.

   keeper/derivative.go:
     MintDerivative:  amount.Denom != bondDenom                          -> ErrInvalidDenom
     BurnDerivative:  amount.Denom != GetLiquidStakingTokenDenom(valAddr) -> ErrInvalidDenom
   GetLiquidStakingTokenDenom(v) = "bkava-" + v.String() is injective in the validator address, so
   the derivative denoms are indexed by the validators: [DDeriv d] is the derivative of validator d.

   [mop] wraps [op] (no constructor is added to [op]); definitions only, plus the
   correspondence-check support over wrapped operations. *)
From Kava Require Import Base.Prelude Base.Dec Model.Staking Model.Tally Model.Liquid Model.TallyTie.
Local Open Scope Z_scope.

Inductive denom :=
| DBond                  (* the staking bond denom (ukava) *)
| DDeriv (d : nat).      (* the liquid staking derivative of validator d *)

Inductive mop :=
| MPlain (o : op)
| MMintMsg (a v : nat) (dn : denom) (amt : Z)      (* MsgMintDerivative{Sender a, Validator v, Amount amt dn} *)
| MBurnMsg (a v : nat) (dn : denom) (amt : Z).     (* MsgBurnDerivative{Sender a, Validator v, Amount amt dn} *)

Definition denom_is_bond (dn : denom) : bool := match dn with DBond => true | DDeriv _ => false end.
Definition denom_is_deriv_of (dn : denom) (v : nat) : bool :=
  match dn with DBond => false | DDeriv d => Nat.eqb d v end.

Definition mstep (e : env) (s : state) (m : mop) : outcome state output :=
  match m with
  | MPlain o => step e s o
  | MMintMsg a v dn amt => if denom_is_bond dn then step e s (Mint a v amt) else Err
  | MBurnMsg a v dn amt => if denom_is_deriv_of dn v then step e s (Burn a v amt) else Err
  end.

Definition mstep' (e : env) (s : state) (m : mop) : state :=
  match mstep e s m with Ok s' _ => s' | _ => s end.

Definition mrun (e : env) (s : state) (ms : list mop) : state := fold_left (mstep' e) ms s.

(* What BurnDerivative would do if it only asked for SOME derivative denom of an existing validator
   (k.IsDerivativeDenom) instead of the derivative of the validator named in the message: the coins
   of validator d are burned, the shares are taken from the module's delegation to validator v.
   Not part of the model of /repo: used only to show that the denom comparison is what the backing
   theorem needs (Proofs/LiquidMsg.v loose_burn_breaks_backing). *)
Definition burn_loose (e : env) (s : state) (a d v : nat) (amt : Z) : outcome state Z :=
  if amt <=? 0 then Err else
  if negb (v_exists (vals s d)) then Err else
  if dbal s a d <? amt then Err else
  let s1 := set_dsup (set_dbal s a d (dbal s a d - amt)) d (dsup s d - amt) in
  transfer_delegation e s1 v (liq e) a (dec_of_int amt).

(** * Correspondence-check support (as Model/TallyTie.v first_mismatch2, over wrapped operations) *)

Definition mstep_rec := (mop * obs * option tally_in)%type.

Definition mtin_ok (e : env) (s : state) (m : mop) (ti : option tally_in) : bool :=
  match m, ti with
  | MPlain o, _ => tin_ok e s o ti
  | _, None => true
  | _, Some _ => false
  end.

Fixpoint first_mismatch3 (e : env) (s sh : state) (h : list mstep_rec) (i : nat) : option nat :=
  match h with
  | [] => None
  | (m, ob, ti) :: r =>
      let res := mstep e s m in
      let s' := match res with Ok s1 _ => s1 | _ => s end in
      let out := match res with Ok _ x => x | _ => ONone end in
      let sh' := apply_obs sh ob in
      if rclass_eqb (class_of res) (o_class ob)
         && output_eqb out (o_out ob)
         && state_eqb e s' sh'
         && inv_b e s'
         && mtin_ok e s m ti
      then first_mismatch3 e s' sh' r (S i)
      else Some i
  end.

Record history3 := mkHist3 {
  h3_env : env;
  h3_init : state;
  h3_steps : list mstep_rec
}.

Definition check_history3 (h : history3) : option nat :=
  if inv_b (h3_env h) (h3_init h)
  then first_mismatch3 (h3_env h) (h3_init h) (h3_init h) (h3_steps h) 0
  else Some 0%nat.

Fixpoint mismatches3_from (i : nat) (hs : list history3) : list (nat * nat) :=
  match hs with
  | [] => []
  | h :: r =>
      match check_history3 h with
      | None => mismatches3_from (S i) r
      | Some k => (i, k) :: mismatches3_from (S i) r
      end
  end.
Definition mismatches3 := mismatches3_from 0.
