(* Model of x/incentive/keeper/payout.go (SendTimeLockedCoinsToAccount,
   SendTimeLockedCoinsToPeriodicVestingAccount, SendTimeLockedCoinsToBaseAccount,
   addCoinsToVestingSchedule, GetPeriodLength) over the SDK's periodic vesting
   account (x/auth/vesting/types: GetVestedCoins, GetVestingCoins, LockedCoins,
   LockedCoinsFromVesting) and an abstract x/bank (balances, LockedCoins,
   SpendableCoins, SendCoins, SendCoinsFromModuleToAccount).
   Definitions only; proofs are in Proofs/Vesting.v.

   Coins.  An [sdk.Coins] value that is stored (period amounts, original
   vesting, delegated vesting, balances) is a denom-indexed vector [amt = nat -> Z]
   (absent denom = 0); all SDK operations used on them (Add, Sub, Min,
   AmountOf) act denom by denom, so every definition below takes the denom as
   a parameter and every theorem is stated for an arbitrary denom.  An
   [sdk.Coins] value that is an *argument* of an operation is a list of
   (denom, amount) pairs, because validity (sorted, no duplicates, positive) is
   checked by the bank.

   Time is Unix seconds as Z; int64 overflow is not modelled. *)
From Kava Require Import Base.Prelude.

Definition amt := nat -> Z.
Definition azero : amt := fun _ => 0.
Definition aadd (a b : amt) : amt := fun d => a d + b d.

Definition coins := list (nat * Z).

(* sdk.Coins.IsValid: strictly increasing denoms, all amounts positive
   (the empty list is valid). *)
Fixpoint coins_valid_from (lo : option nat) (c : coins) : bool :=
  match c with
  | [] => true
  | (d, x) :: r =>
      (0 <? x) && (match lo with None => true | Some p => Nat.ltb p d end)
      && coins_valid_from (Some d) r
  end.
Definition coins_valid (c : coins) := coins_valid_from None c.

Fixpoint amount_of (d : nat) (c : coins) : Z :=
  match c with
  | [] => 0
  | (d', x) :: r => if Nat.eqb d' d then x else amount_of d r
  end.
Definition to_amt (c : coins) : amt := fun d => amount_of d c.

(** * x/auth/vesting: PeriodicVestingAccount (modelled, not verified) *)

Definition period := (Z * amt)%type.          (* (Length, Amount) *)

Record pva := mkPva {
  p_start : Z;                   (* StartTime *)
  p_end : Z;                     (* EndTime *)
  p_ov : amt;                    (* OriginalVesting *)
  p_dv : amt;                    (* DelegatedVesting *)
  p_periods : list period        (* VestingPeriods *)
}.

(* the loop of GetVestedCoins; x = blockTime - currentPeriodStartTime *)
Fixpoint vested_loop (x : Z) (ps : list period) (d : nat) : Z :=
  match ps with
  | [] => 0
  | (l, a) :: r => if x <? l then 0 else a d + vested_loop (x - l) r d
  end.

(* PeriodicVestingAccount.GetVestedCoins *)
Definition get_vested (a : pva) (t : Z) (d : nat) : Z :=
  if t <=? p_start a then 0
  else if p_end a <=? t then p_ov a d
  else vested_loop (t - p_start a) (p_periods a) d.

(* PeriodicVestingAccount.GetVestingCoins = OriginalVesting.Sub(vested).
   Totalisation: the Go code panics when the result would be negative in some
   denom; the model returns the negative number.  [vesting_nonneg] in the
   proofs shows that this does not happen for well-formed accounts. *)
Definition get_vesting (a : pva) (t : Z) (d : nat) : Z := p_ov a d - get_vested a t d.

(* BaseVestingAccount.LockedCoinsFromVesting: vesting - min(vesting, DelegatedVesting) *)
Definition locked_from_vesting (a : pva) (v : Z) (d : nat) : Z := v - Z.min v (p_dv a d).

(* PeriodicVestingAccount.LockedCoins *)
Definition pva_locked (a : pva) (t : Z) (d : nat) : Z :=
  locked_from_vesting a (get_vesting a t d) d.

(** * x/incentive/keeper/payout.go *)

Fixpoint total_len (ps : list period) : Z :=
  match ps with [] => 0 | p :: r => fst p + total_len r end.
Fixpoint sum_amt (ps : list period) (d : nat) : Z :=
  match ps with [] => 0 | p :: r => snd p d + sum_amt r d end.

(* "edge case two": the first period absorbs the time between now and the old start *)
Definition shift_first (delta : Z) (ps : list period) : list period :=
  match ps with
  | [] => []
  | (l, a) :: r => (l + delta, a) :: r
  end.

(* the insertion loop of addCoinsToVestingSchedule.  [cnt] is lengthCounter
   before the current period is added; the periods already appended to
   newPeriods are exactly the unchanged earlier ones, so
   GetTotalVestingPeriodLength(newPeriods) = cnt in the split branch.
   When the loop runs off the end of the list nothing is inserted (as in the code). *)
Fixpoint insert_period (target : Z) (c : amt) (cnt : Z) (ps : list period) : list period :=
  match ps with
  | [] => []
  | (l, a) :: r =>
      let cnt' := cnt + l in
      if cnt' <? target then (l, a) :: insert_period target c cnt' r
      else if cnt' =? target then (l, aadd a c) :: r
      else (target - cnt, c) :: (l - (target - cnt), a) :: r
  end.

(* addCoinsToVestingSchedule *)
Definition add_coins (now len : Z) (c : amt) (a : pva) : pva :=
  let ov' := aadd (p_ov a) c in
  if p_end a <? now then
    (* edge case one: the schedule has ended *)
    mkPva (p_start a) (now + len) ov' (p_dv a) (p_periods a ++ [(now - p_end a + len, c)])
  else
    let before := now <? p_start a in
    let st := if before then now else p_start a in
    let ps := if before then shift_first (p_start a - now) (p_periods a) else p_periods a in
    let remaining := p_end a - now in
    let elapsed := now - st in
    if remaining <? len then
      mkPva st (now + len) ov' (p_dv a) (ps ++ [(len - remaining, c)])
    else
      mkPva st (p_end a) ov' (p_dv a) (insert_period (elapsed + len) c 0 ps).

(* SendTimeLockedCoinsToBaseAccount: the new periodic vesting account *)
Definition new_pva (now len : Z) (c : amt) : pva :=
  mkPva now (now + len) c azero [(len, c)].

(** ** GetPeriodLength: the payday rule on the civil (proleptic Gregorian, UTC) calendar *)

(* days since 1970-01-01 of a civil date (month 1..12) *)
Definition days_from_civil (y m d : Z) : Z :=
  let y' := if m <=? 2 then y - 1 else y in
  let era := y' / 400 in
  let yoe := y' - era * 400 in
  let mp := if 2 <? m then m - 3 else m + 9 in
  let doy := (153 * mp + 2) / 5 + d - 1 in
  let doe := yoe * 365 + yoe / 4 - yoe / 100 + doy in
  era * 146097 + doe - 719468.

(* civil date (year, month, day) of a day number *)
Definition civil_from_days (z : Z) : Z * Z * Z :=
  let z' := z + 719468 in
  let era := z' / 146097 in
  let doe := z' - era * 146097 in
  let yoe := (doe - doe / 1460 + doe / 36524 - doe / 146096) / 365 in
  let y := yoe + era * 400 in
  let doy := doe - (365 * yoe + yoe / 4 - yoe / 100) in
  let mp := (5 * doy + 2) / 153 in
  let d := doy - (153 * mp + 2) / 5 + 1 in
  let m := if mp <? 10 then mp + 3 else mp - 9 in
  (if m <=? 2 then y + 1 else y, m, d).

Definition DAY : Z := 86400.
Definition PAY_SECS : Z := 14 * 3600.          (* PaymentHour = 14 *)

(* GetPeriodLength(blockTime, monthsLockup); None = panic (negative lockup).
   time.Date(y, m, payDay, 14,0,0,0, UTC).AddDate(0, k, 0) normalises the month
   number m-1+k into a year carry and a month (floor division), the day (1 or
   15) never overflows a month. *)
Definition get_period_length (now months : Z) : option Z :=
  if months <? 0 then None
  else if months =? 0 then Some 0
  else
    let days := now / DAY in
    let sod := now mod DAY in
    let '(y, m, d) := civil_from_days days in
    let early := (d <? 15) || ((d =? 15) && (sod / 3600 <? 14)) in
    let payday := if early then 15 else 1 in
    let off := if early then 0 else 1 in
    let mi := 12 * y + (m - 1) + months + off in
    Some (days_from_civil (mi / 12) (mi mod 12 + 1) payday * DAY + PAY_SECS - now).

(** * State machine *)

Inductive akind :=
| KNone                        (* no account stored under the address *)
| KBase
| KPeriodic (a : pva)
| KContinuous
| KModule
| KOther.                      (* any other account type (delayed vesting, ...) *)

Record env := mkEnv {
  nacc : nat;                    (* accounts are 0 .. nacc-1 *)
  nden : nat;                    (* tracked denoms are 0 .. nden-1 *)
  macc : nat;                    (* the incentive payout module account (types.IncentiveMacc = kavadist) *)
  sink : nat;                    (* a base account receiving the [Spend] transfers *)
  blocked : nat -> bool          (* bank BlockedAddr *)
}.

Record state := mkState {
  kind : nat -> akind;
  bal : nat -> nat -> Z          (* x/bank balance: address, denom *)
}.

Definition set_kind (s : state) (a : nat) (k : akind) : state :=
  mkState (upd (kind s) a k) (bal s).
Definition set_bal (s : state) (a d : nat) (v : Z) : state :=
  mkState (kind s) (upd2 (bal s) a d v).

(** ** x/bank (modelled, not verified) *)

(* LockedCoins(ctx at time t, addr).  Continuous and other vesting kinds are
   never senders in the histories and their locked amounts are not modelled. *)
Definition locked (s : state) (a : nat) (t : Z) (d : nat) : Z :=
  match kind s a with
  | KPeriodic p => pva_locked p t d
  | _ => 0
  end.

(* SpendableCoins(ctx at time t, addr): total.SafeSub(locked); empty when any denom would be negative *)
Definition solvent (e : env) (s : state) (a : nat) (t : Z) : bool :=
  forallb (fun d => locked s a t d <=? bal s a d) (seq 0 (nden e)).
Definition spendable (e : env) (s : state) (a : nat) (t : Z) (d : nat) : Z :=
  if solvent e s a t then bal s a d - locked s a t d else 0.

(* subUnlockedCoins, one coin *)
Definition bsub1 (s : state) (t : Z) (a d : nat) (x : Z) : option state :=
  if (locked s a t d <=? bal s a d) && (x <=? bal s a d - locked s a t d)
  then Some (set_bal s a d (bal s a d - x)) else None.
Fixpoint bsub (s : state) (t : Z) (a : nat) (c : coins) : option state :=
  match c with
  | [] => Some s
  | (d, x) :: r => match bsub1 s t a d x with Some s' => bsub s' t a r | None => None end
  end.
Fixpoint badd (s : state) (a : nat) (c : coins) : state :=
  match c with
  | [] => s
  | (d, x) :: r => badd (set_bal s a d (bal s a d + x)) a r
  end.
(* SendCoins at block time t *)
Definition bsend (s : state) (t : Z) (f to : nat) (c : coins) : option state :=
  if negb (coins_valid c) then None else
  match bsub s t f c with Some s1 => Some (badd s1 to c) | None => None end.
(* SendCoinsFromModuleToAccount *)
Definition m2a (e : env) (s : state) (t : Z) (r : nat) (c : coins) : option state :=
  if blocked e r then None else bsend s t (macc e) r c.

(** ** SendTimeLockedCoinsToAccount *)

(* maccCoins.IsAllGTE(amt) for valid amt (invalid amt is refused by the bank in every branch) *)
Definition macc_covers (e : env) (s : state) (c : coins) : bool :=
  forallb (fun p => snd p <=? bal s (macc e) (fst p)) c.

Definition send_time_locked (e : env) (s : state) (now : Z) (r : nat) (c : coins) (len : Z)
  : outcome state unit :=
  if negb (coins_valid c) then Err else
  if negb (macc_covers e s c) then Err else
  match kind s r with
  | KNone => Err
  | k =>
    if len =? 0 then
      match m2a e s now r c with Some s1 => Ok s1 tt | None => Err end
    else
      match k with
      | KPeriodic p =>
          match m2a e s now r c with
          | Some s1 => Ok (set_kind s1 r (KPeriodic (add_coins now len (to_amt c) p))) tt
          | None => Err
          end
      | KBase =>
          match m2a e s now r c with
          | Some s1 => Ok (set_kind s1 r (KPeriodic (new_pva now len (to_amt c)))) tt
          | None => Err
          end
      | _ => Err
      end
  end.

Inductive op :=
| SendLocked (now : Z) (r : nat) (c : coins) (len : Z)   (* SendTimeLockedCoinsToAccount(IncentiveMacc, r, c, len) at block time now *)
| Claim (now : Z) (r : nat) (c : coins) (months : Z)     (* claim.go: length := GetPeriodLength(now, months); then SendTimeLocked... *)
| Spend (now : Z) (a : nat) (c : coins)                  (* bank SendCoins(a, sink, c) at block time now *)
| PLen (now months : Z).                                 (* GetPeriodLength alone (pure) *)

Definition in_range (e : env) (a : nat) : bool := Nat.ltb a (nacc e).

Definition step (e : env) (s : state) (o : op) : outcome state unit :=
  match o with
  | SendLocked now r c len =>
      if in_range e r then send_time_locked e s now r c len else Err
  | Claim now r c months =>
      if negb (in_range e r) then Err else
      match get_period_length now months with
      | None => Panic
      | Some len => send_time_locked e s now r c len
      end
  | Spend now a c =>
      if negb (in_range e a) then Err else
      match kind s a with
      | KBase | KPeriodic _ | KModule =>
          match bsend s now a (sink e) c with Some s1 => Ok s1 tt | None => Err end
      | _ => Err     (* not modelled; never generated *)
      end
  | PLen now months =>
      match get_period_length now months with None => Panic | Some _ => Ok s tt end
  end.

(* a failed operation leaves the state it started from *)
Definition step' (e : env) (s : state) (o : op) : state :=
  match step e s o with Ok s' _ => s' | _ => s end.

Definition run (e : env) (s : state) (ops : list op) : state :=
  fold_left (step' e) ops s.

(* the lock-up length an operation uses (what the theorems' guard [0 <= len] is about) *)
Definition op_len (o : op) : option Z :=
  match o with
  | SendLocked _ _ _ len => Some len
  | Claim now _ _ months => get_period_length now months
  | _ => Some 0
  end.
Definition op_ok (o : op) : bool :=
  match op_len o with Some l => 0 <=? l | None => true end.

(** * Correspondence-check support: observations and comparison *)

Inductive rclass := ROk | RErr | RPanic.
Definition rclass_eqb (a b : rclass) : bool :=
  match a, b with ROk, ROk | RErr, RErr | RPanic, RPanic => true | _, _ => false end.
Definition class_of {S O} (r : outcome S O) : rclass :=
  match r with Ok _ _ => ROk | Err => RErr | Panic => RPanic end.

(* the observable projection of one account, as the harness reads it from the
   account store and the bank: kind tag (0 none, 1 base, 2 periodic vesting,
   3 continuous vesting, 4 module, 5 other), StartTime, EndTime, OriginalVesting,
   DelegatedVesting, VestingPeriods, balances — coin vectors over the tracked denoms *)
Record asnap := mkSnap {
  sn_kind : Z;
  sn_start : Z;
  sn_end : Z;
  sn_ov : list Z;
  sn_dv : list Z;
  sn_periods : list (Z * list Z);
  sn_bal : list Z
}.

Definition vec (n : nat) (f : nat -> Z) : list Z := map f (seq 0 n).
Definition nthZ (l : list Z) (i : nat) : Z := nth i l 0.

Definition snap_of (e : env) (s : state) (a : nat) : asnap :=
  let n := nden e in
  let b := vec n (bal s a) in
  match kind s a with
  | KNone => mkSnap 0 0 0 [] [] [] b
  | KBase => mkSnap 1 0 0 [] [] [] b
  | KPeriodic p =>
      mkSnap 2 (p_start p) (p_end p) (vec n (p_ov p)) (vec n (p_dv p))
             (map (fun q => (fst q, vec n (snd q))) (p_periods p)) b
  | KContinuous => mkSnap 3 0 0 [] [] [] b
  | KModule => mkSnap 4 0 0 [] [] [] b
  | KOther => mkSnap 5 0 0 [] [] [] b
  end.

Definition kind_of_snap (x : asnap) : akind :=
  match sn_kind x with
  | 1 => KBase
  | 2 => KPeriodic (mkPva (sn_start x) (sn_end x) (nthZ (sn_ov x)) (nthZ (sn_dv x))
                          (map (fun q => (fst q, nthZ (snd q))) (sn_periods x)))
  | 3 => KContinuous
  | 4 => KModule
  | 5 => KOther
  | _ => KNone
  end.

Definition snap0 : asnap := mkSnap 0 0 0 [] [] [] [].

Definition mk_state (l : list asnap) : state :=
  mkState (fun a => kind_of_snap (nth a l snap0)) (fun a d => nthZ (sn_bal (nth a l snap0)) d).

Definition nthB (l : list bool) (i : nat) : bool := nth i l false.
Definition mk_env (n nd m sk : nat) (blk : list bool) : env := mkEnv n nd m sk (nthB blk).

Fixpoint list_eqb {A} (eqb : A -> A -> bool) (l1 l2 : list A) : bool :=
  match l1, l2 with
  | [], [] => true
  | x :: r1, y :: r2 => eqb x y && list_eqb eqb r1 r2
  | _, _ => false
  end.

Definition zl_eqb := list_eqb Z.eqb.
Definition per_eqb (p q : Z * list Z) : bool := (fst p =? fst q) && zl_eqb (snd p) (snd q).
Definition snap_eqb (x y : asnap) : bool :=
  (sn_kind x =? sn_kind y) && (sn_start x =? sn_start y) && (sn_end x =? sn_end y)
  && zl_eqb (sn_ov x) (sn_ov y) && zl_eqb (sn_dv x) (sn_dv y)
  && list_eqb per_eqb (sn_periods x) (sn_periods y) && zl_eqb (sn_bal x) (sn_bal y).

(* a probe: bank LockedCoins and SpendableCoins of an account evaluated with a
   context whose block time is t, on the state after the operation *)
Record probe := mkProbe { pr_acc : nat; pr_t : Z; pr_locked : list Z; pr_spend : list Z }.

(* what the harness records after each operation: the result class, the
   projections of the accounts that changed (relative to the previous
   observation), probes of the affected account, and for Claim / PLen the value
   GetPeriodLength returned (0 otherwise). *)
Record obs := mkObs {
  o_class : rclass;
  o_acc : list (nat * asnap);
  o_probes : list probe;
  o_len : Z
}.

Fixpoint replace_nth {A} (n : nat) (l : list A) (x : A) : list A :=
  match l, n with
  | [], _ => []
  | _ :: r, O => x :: r
  | y :: r, S k => y :: replace_nth k r x
  end.

Definition apply_obs (sh : list asnap) (o : obs) : list asnap :=
  fold_left (fun l p => replace_nth (fst p) l (snd p)) (o_acc o) sh.

Definition project (e : env) (s : state) : list asnap := map (snap_of e s) (seq 0 (nacc e)).

Definition probe_ok (e : env) (s : state) (p : probe) : bool :=
  zl_eqb (vec (nden e) (locked s (pr_acc p) (pr_t p))) (pr_locked p)
  && zl_eqb (vec (nden e) (spendable e s (pr_acc p) (pr_t p))) (pr_spend p).

Definition len_ok (o : op) (ob : obs) : bool :=
  match o with
  | Claim now _ _ months | PLen now months =>
      match get_period_length now months with
      | Some l => o_len ob =? l
      | None => true
      end
  | _ => true
  end.

(* boolean form of the schedule invariant of one periodic vesting account:
   what PeriodicVestingAccount.Validate checks (start < end is implied here by
   a non-empty list of positive lengths summing to end - start; amounts sum to
   OriginalVesting) plus positive lengths and non-negative amounts *)
Definition pva_wf_b (n : nat) (p : pva) : bool :=
  negb (match p_periods p with [] => true | _ => false end)
  && forallb (fun q => 0 <? fst q) (p_periods p)
  && (total_len (p_periods p) =? p_end p - p_start p)
  && forallb (fun d => (sum_amt (p_periods p) d =? p_ov p d)
                       && forallb (fun q => 0 <=? snd q d) (p_periods p)
                       && (0 <=? p_dv p d)) (seq 0 n).

Definition inv_b (e : env) (s : state) : bool :=
  forallb (fun a =>
     match kind s a with KPeriodic p => pva_wf_b (nden e) p | _ => true end
     && forallb (fun d => 0 <=? bal s a d) (seq 0 (nden e))) (seq 0 (nacc e)).

(* first step index (from 0) at which model and implementation differ, or at
   which the model invariant evaluates to false.  [g] says that the invariant is
   expected to hold: it starts as the history's [h_wf] flag (false for the
   malformed stream, whose initial accounts are not well formed) and is
   dropped after an operation outside the theorems' guard (negative length). *)
Fixpoint first_mismatch (e : env) (s : state) (sh : list asnap) (g : bool)
         (h : list (op * obs)) (i : nat) : option nat :=
  match h with
  | [] => None
  | (o, ob) :: r =>
      let res := step e s o in
      let s' := match res with Ok s1 _ => s1 | _ => s end in
      let sh' := apply_obs sh ob in
      let g' := g && op_ok o in
      if rclass_eqb (class_of res) (o_class ob)
         && list_eqb snap_eqb (project e s') sh'
         && forallb (probe_ok e s') (o_probes ob)
         && len_ok o ob
         && (negb g' || inv_b e s')
      then first_mismatch e s' sh' g' r (S i)
      else Some i
  end.

Record history := mkHist {
  h_env : env;
  h_wf : bool;
  h_init : list asnap;
  h_steps : list (op * obs)
}.

Definition check_history (h : history) : option nat :=
  let s := mk_state (h_init h) in
  if list_eqb snap_eqb (project (h_env h) s) (h_init h)
     && (negb (h_wf h) || inv_b (h_env h) s)
  then first_mismatch (h_env h) s (h_init h) (h_wf h) (h_steps h) 0
  else Some 0%nat.

Fixpoint mismatches_from (i : nat) (hs : list history) : list (nat * nat) :=
  match hs with
  | [] => []
  | h :: r =>
      match check_history h with
      | None => mismatches_from (S i) r
      | Some k => (i, k) :: mismatches_from (S i) r
      end
  end.
Definition mismatches := mismatches_from 0.

(* GetPeriodLength sweep (separate case files of the driver): pairs
   ((now, months), value returned by the implementation); positions that differ *)
Fixpoint plen_mismatches_from (i : nat) (l : list (Z * Z * Z)) : list (nat * nat) :=
  match l with
  | [] => []
  | (now, months, v) :: r =>
      match get_period_length now months with
      | Some x => if x =? v then plen_mismatches_from (S i) r else (i, 0%nat) :: plen_mismatches_from (S i) r
      | None => (i, 0%nat) :: plen_mismatches_from (S i) r
      end
  end.
Definition plen_mismatches := plen_mismatches_from 0.
