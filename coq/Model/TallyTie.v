(* Correspondence support for the fold of app/tally_handler.go: besides the result of a tally
   (Model/Liquid.v [OTally]) the harness records, at every tally of a history, the INPUTS the
   handler reads through the keepers:
     - the validators IterateBondedValidatorsByPower yields, with BondedTokens and DelegatorShares,
     - TotalBondedTokens,
     - per voter: IterateDelegations, and the derivative coins getAddrBkava finds in the wallet
       (GetAllBalances filtered by IsDerivativeDenom), in the savings deposit and in the earn
       vault shares (ConvertToAssets),
     - totalVotingPower re-computed with the SDK's LegacyDec on exactly these inputs by the
       handler's formulas (the handler does not return it).
   The model run checks every one of them against the model state ([curr], [total_bonded],
   [del], [dbal] / [sav] / [ern] with the validator-exists filter) and requires
   totalVotingPower = [t_total (tally_acc ...)] exactly, 18 decimals.  Definitions only. *)
From Kava Require Import Base.Prelude Base.Dec Model.Staking Model.Tally Model.Liquid.
Local Open Scope Z_scope.

Record voter_in := mkVI {
  vi_voter : nat;
  vi_dels : list (nat * Z);      (* IterateDelegations: validator, shares; sorted by validator *)
  vi_wallet : list (nat * Z);    (* derivative coins: validator, amount (> 0); sorted *)
  vi_savings : list (nat * Z);
  vi_earn : list (nat * Z)
}.

Record tally_in := mkTI {
  ti_curr : list (nat * (Z * Z));  (* validator, (BondedTokens, DelegatorShares); sorted by validator *)
  ti_bonded : Z;
  ti_voters : list voter_in;       (* in the order of the votes of the operation *)
  ti_total : Z
}.

Definition pairZ_eqb (a b : nat * Z) : bool := Nat.eqb (fst a) (fst b) && (snd a =? snd b).
Definition pairZZ_eqb (a b : nat * (Z * Z)) : bool :=
  Nat.eqb (fst a) (fst b) && (fst (snd a) =? fst (snd b)) && (snd (snd a) =? snd (snd b)).

Fixpoint list_eqb {A} (eqb : A -> A -> bool) (l1 l2 : list A) : bool :=
  match l1, l2 with
  | [], [] => true
  | a :: r1, b :: r2 => eqb a b && list_eqb eqb r1 r2
  | _, _ => false
  end.

(* what the model state says the handler reads *)
Definition model_curr (e : env) (s : state) : list (nat * (Z * Z)) :=
  map (fun i => (i, (v_tokens (vals s i), v_shares (vals s i)))) (filter (curr s) (seq 0 (nval e))).

Definition model_dels (e : env) (s : state) (a : nat) : list (nat * Z) :=
  flat_map (fun i => match del s a i with Some d => [(i, d)] | None => [] end) (seq 0 (nval e)).

(* IsDerivativeDenom: the validator of the denom exists *)
Definition model_coins (e : env) (s : state) (f : nat -> nat -> Z) (a : nat) : list (nat * Z) :=
  flat_map (fun i => if v_exists (vals s i) && (0 <? f a i) then [(i, f a i)] else []) (seq 0 (nval e)).

Definition voter_in_ok (e : env) (s : state) (vt : vote) (vi : voter_in) : bool :=
  Nat.eqb (fst vt) (vi_voter vi) &&
  list_eqb pairZ_eqb (model_dels e s (fst vt)) (vi_dels vi) &&
  list_eqb pairZ_eqb (model_coins e s (dbal s) (fst vt)) (vi_wallet vi) &&
  list_eqb pairZ_eqb (model_coins e s (sav s) (fst vt)) (vi_savings vi) &&
  list_eqb pairZ_eqb (model_coins e s (ern s) (fst vt)) (vi_earn vi).

Fixpoint voters_ok (e : env) (s : state) (votes : list vote) (vis : list voter_in) : bool :=
  match votes, vis with
  | [], [] => true
  | vt :: r1, vi :: r2 => voter_in_ok e s vt vi && voters_ok e s r1 r2
  | _, _ => false
  end.

Definition tally_in_ok (e : env) (s : state) (votes : list vote) (ti : tally_in) : bool :=
  list_eqb pairZZ_eqb (model_curr e s) (ti_curr ti) &&
  (total_bonded e s =? ti_bonded ti) &&
  voters_ok e s votes (ti_voters ti) &&
  (t_total (tally_acc e s votes) =? ti_total ti).

(* a step of a recorded history: operation, observation, and the tally inputs when the
   operation is a tally that the implementation executed *)
Definition step_rec := (op * obs * option tally_in)%type.

Definition tin_ok (e : env) (s : state) (o : op) (ti : option tally_in) : bool :=
  match o, ti with
  | Tally votes, Some t => tally_in_ok e s votes t
  | _, None => true
  | _, Some _ => false
  end.

Fixpoint first_mismatch2 (e : env) (s sh : state) (h : list step_rec) (i : nat) : option nat :=
  match h with
  | [] => None
  | (o, ob, ti) :: r =>
      let res := step e s o in
      let s' := match res with Ok s1 _ => s1 | _ => s end in
      let out := match res with Ok _ x => x | _ => ONone end in
      let sh' := apply_obs sh ob in
      if rclass_eqb (class_of res) (o_class ob)
         && output_eqb out (o_out ob)
         && state_eqb e s' sh'
         && inv_b e s'
         && tin_ok e s o ti
      then first_mismatch2 e s' sh' r (S i)
      else Some i
  end.

Record history2 := mkHist2 {
  h2_env : env;
  h2_init : state;
  h2_steps : list step_rec
}.

Definition check_history2 (h : history2) : option nat :=
  if inv_b (h2_env h) (h2_init h)
  then first_mismatch2 (h2_env h) (h2_init h) (h2_init h) (h2_steps h) 0
  else Some 0%nat.

Fixpoint mismatches2_from (i : nat) (hs : list history2) : list (nat * nat) :=
  match hs with
  | [] => []
  | h :: r =>
      match check_history2 h with
      | None => mismatches2_from (S i) r
      | Some k => (i, k) :: mismatches2_from (S i) r
      end
  end.
Definition mismatches2 := mismatches2_from 0.
