(* Model of x/bep3: keeper/swap.go (CreateAtomicSwap, ClaimAtomicSwap,
   RefundAtomicSwap, UpdateExpiredAtomicSwaps,
   DeleteClosedAtomicSwapsFromLongtermStorage), keeper/asset.go (the six
   supply counters' increment/decrement functions, UpdateTimeBasedSupplyLimits),
   keeper/keeper.go (swap store, by-block index, long-term storage index, asset
   supplies, previous block time), abci.go (BeginBlocker), over an abstract
   x/bank (balances, supply, blocked addresses).

   Hashes are abstract: [e_hash secret timestamp] stands for
   CalculateRandomHash; a swap id is the triple (random-number hash, sender,
   sender-on-the-other-chain) that CalculateSwapID hashes.  Nothing about
   [e_hash] is assumed.

   The fields [sw_serial], [g_next] and [g_log] are ghost state: they are
   written but never read by the operations; they name swap *instances* (an id
   can be re-used after its record has been deleted) and log every payout.

   Definitions only. *)
From Kava Require Import Base.Prelude.

(** * Identifiers and records *)

Definition id := (nat * nat * nat)%type.    (* hash, sender, sender other chain *)
Definition id_eqb (a b : id) : bool :=
  let '(a1, a2, a3) := a in let '(b1, b2, b3) := b in
  Nat.eqb a1 b1 && Nat.eqb a2 b2 && Nat.eqb a3 b3.

Inductive status := Open | Completed | Expired.
Inductive direction := Incoming | Outgoing.

Definition status_eqb (a b : status) : bool :=
  match a, b with Open, Open | Completed, Completed | Expired, Expired => true | _, _ => false end.
Definition dir_eqb (a b : direction) : bool :=
  match a, b with Incoming, Incoming | Outgoing, Outgoing => true | _, _ => false end.

Record swap := mkSwap {
  sw_denom : nat;
  sw_amt : Z;
  sw_hash : nat;             (* RandomNumberHash *)
  sw_expire : Z;             (* ExpireHeight (uint64) *)
  sw_ts : Z;                 (* Timestamp *)
  sw_sender : nat;
  sw_recip : nat;
  sw_soc : nat;              (* SenderOtherChain (lower-cased) *)
  sw_closed : Z;             (* ClosedBlock *)
  sw_status : status;
  sw_cross : bool;
  sw_dir : direction;
  sw_serial : nat            (* ghost: instance number *)
}.

Definition sw_id (w : swap) : id := (sw_hash w, sw_sender w, sw_soc w).

Definition with_status (w : swap) (st : status) (closed : Z) : swap :=
  mkSwap (sw_denom w) (sw_amt w) (sw_hash w) (sw_expire w) (sw_ts w) (sw_sender w) (sw_recip w)
         (sw_soc w) closed st (sw_cross w) (sw_dir w) (sw_serial w).

(* AssetSupply *)
Record supply := mkSup {
  sp_inc : Z;       (* IncomingSupply *)
  sp_out : Z;       (* OutgoingSupply *)
  sp_cur : Z;       (* CurrentSupply *)
  sp_tl : Z;        (* TimeLimitedCurrentSupply *)
  sp_elapsed : Z    (* TimeElapsed, ns *)
}.

(* AssetParam *)
Record asset := mkAsset {
  a_denom : nat;
  a_limit : Z;          (* SupplyLimit.Limit *)
  a_tlimited : bool;    (* SupplyLimit.TimeLimited *)
  a_period : Z;         (* SupplyLimit.TimePeriod, ns *)
  a_tlimit : Z;         (* SupplyLimit.TimeBasedLimit *)
  a_active : bool;
  a_deputy : nat;
  a_fee : Z;            (* FixedFee *)
  a_min : Z;            (* MinSwapAmount *)
  a_max : Z;            (* MaxSwapAmount *)
  a_minlock : Z;        (* MinBlockLock *)
  a_maxlock : Z         (* MaxBlockLock *)
}.

Inductive paykind := ClaimIn | ClaimOut | RefundIn | RefundOut.
Definition paykind_eqb (a b : paykind) : bool :=
  match a, b with
  | ClaimIn, ClaimIn | ClaimOut, ClaimOut | RefundIn, RefundIn | RefundOut, RefundOut => true
  | _, _ => false
  end.

(* ghost: one entry per closing of a swap instance *)
Record pay := mkPay {
  p_serial : nat;
  p_kind : paykind;
  p_denom : nat;
  p_amt : Z;
  p_to : nat        (* who received coins (ClaimIn: recipient, RefundOut: sender); otherwise the module *)
}.

Record env := {
  e_nacc : nat;                 (* accounts are 0 .. e_nacc-1 *)
  e_nden : nat;                 (* denoms are 0 .. e_nden-1 *)
  e_mod : nat;                  (* the bep3 module account *)
  e_macc : nat -> bool;         (* keeper.Maccs: module account addresses *)
  e_blocked : nat -> bool;      (* bank BlockedAddr *)
  e_assets : list asset;        (* Params.AssetParams *)
  e_hash : nat -> Z -> nat;     (* CalculateRandomHash(secret, timestamp), abstract *)
  e_cur0 : nat -> Z;            (* ghost: current supply per denom when the ghost log was empty *)
  e_bsup0 : nat -> Z            (* ghost: bank supply per denom when the ghost log was empty *)
}.

Record state := mkState {
  s_height : Z;                       (* ctx.BlockHeight() *)
  s_time : Z;                         (* ctx.BlockTime(), ns since the epoch *)
  s_prev : Z;                         (* PreviousBlockTime, ns *)
  s_swaps : list (id * swap);         (* AtomicSwapKeyPrefix *)
  s_byblock : list (Z * id);          (* AtomicSwapByBlockPrefix: (expire height, id) *)
  s_longterm : list (Z * id);         (* AtomicSwapLongtermStoragePrefix: (deletion height, id) *)
  s_sup : nat -> supply;              (* AssetSupplyPrefix, by denom *)
  s_bal : nat -> nat -> Z;            (* x/bank balance: address, denom *)
  s_bsup : nat -> Z;                  (* x/bank supply by denom *)
  g_next : nat;                       (* ghost: next instance number *)
  g_log : list pay                    (* ghost: payout log, newest first *)
}.

Definition U64 : Z := 18446744073709551616.
Definition LONGTERM : Z := 86400.              (* DefaultLongtermStorageDuration *)
Definition SEC : Z := 1000000000.

(** * Finite maps as lists *)

Fixpoint lookup (i : id) (l : list (id * swap)) : option swap :=
  match l with
  | [] => None
  | (j, w) :: r => if id_eqb i j then Some w else lookup i r
  end.

(* store.Set *)
Fixpoint set_swap (i : id) (v : swap) (l : list (id * swap)) : list (id * swap) :=
  match l with
  | [] => [(i, v)]
  | (j, w) :: r => if id_eqb i j then (i, v) :: r else (j, w) :: set_swap i v r
  end.

(* store.Delete *)
Fixpoint del_swap (i : id) (l : list (id * swap)) : list (id * swap) :=
  match l with
  | [] => []
  | (j, w) :: r => if id_eqb i j then r else (j, w) :: del_swap i r
  end.

Definition ent_eqb (a b : Z * id) : bool := (fst a =? fst b) && id_eqb (snd a) (snd b).

Definition ix_mem (x : Z * id) (l : list (Z * id)) : bool := existsb (ent_eqb x) l.
Definition ix_add (x : Z * id) (l : list (Z * id)) : list (Z * id) :=
  if ix_mem x l then l else x :: l.
Definition ix_del (x : Z * id) (l : list (Z * id)) : list (Z * id) :=
  filter (fun y => negb (ent_eqb x y)) l.

Fixpoint find_asset (d : nat) (l : list asset) : option asset :=
  match l with
  | [] => None
  | a :: r => if Nat.eqb (a_denom a) d then Some a else find_asset d r
  end.

(** * State setters *)

Definition set_sup (s : state) (d : nat) (v : supply) : state :=
  mkState (s_height s) (s_time s) (s_prev s) (s_swaps s) (s_byblock s) (s_longterm s)
          (upd (s_sup s) d v) (s_bal s) (s_bsup s) (g_next s) (g_log s).

Definition set_bal (s : state) (a d : nat) (v : Z) : state :=
  mkState (s_height s) (s_time s) (s_prev s) (s_swaps s) (s_byblock s) (s_longterm s)
          (s_sup s) (upd2 (s_bal s) a d v) (s_bsup s) (g_next s) (g_log s).

Definition set_bsup (s : state) (d : nat) (v : Z) : state :=
  mkState (s_height s) (s_time s) (s_prev s) (s_swaps s) (s_byblock s) (s_longterm s)
          (s_sup s) (s_bal s) (upd (s_bsup s) d v) (g_next s) (g_log s).

Definition set_tables (s : state) (sw : list (id * swap)) (bb lt : list (Z * id)) : state :=
  mkState (s_height s) (s_time s) (s_prev s) sw bb lt
          (s_sup s) (s_bal s) (s_bsup s) (g_next s) (g_log s).

Definition set_ghost (s : state) (n : nat) (l : list pay) : state :=
  mkState (s_height s) (s_time s) (s_prev s) (s_swaps s) (s_byblock s) (s_longterm s)
          (s_sup s) (s_bal s) (s_bsup s) n l.

Definition set_clock (s : state) (h t : Z) : state :=
  mkState h t (s_prev s) (s_swaps s) (s_byblock s) (s_longterm s)
          (s_sup s) (s_bal s) (s_bsup s) (g_next s) (g_log s).

Definition set_prev (s : state) (p : Z) : state :=
  mkState (s_height s) (s_time s) p (s_swaps s) (s_byblock s) (s_longterm s)
          (s_sup s) (s_bal s) (s_bsup s) (g_next s) (g_log s).

(** * x/bank (modelled, not verified); accounts are plain (no vesting locks) *)

(* subUnlockedCoins + addCoins for one coin *)
Definition bank_send (s : state) (f t d : nat) (x : Z) : option state :=
  if (0 <? x) && (x <=? s_bal s f d) then
    let s1 := set_bal s f d (s_bal s f d - x) in
    Some (set_bal s1 t d (s_bal s1 t d + x))
  else None.

Definition bank_mint (s : state) (m d : nat) (x : Z) : state :=
  set_bsup (set_bal s m d (s_bal s m d + x)) d (s_bsup s d + x).

Definition bank_burn (s : state) (m d : nat) (x : Z) : option state :=
  if (0 <? x) && (x <=? s_bal s m d) then
    Some (set_bsup (set_bal s m d (s_bal s m d - x)) d (s_bsup s d - x))
  else None.

(* SendCoinsFromModuleToAccount: blocked recipients are refused *)
Definition bank_m2a (e : env) (s : state) (t d : nat) (x : Z) : option state :=
  if e_blocked e t then None else bank_send s (e_mod e) t d x.

(** * keeper/asset.go *)

Definition inc_incoming (a : asset) (sp : supply) (x : Z) : option supply :=
  if a_limit a <? sp_cur sp + sp_inc sp + x then None else
  if a_tlimited a && (a_tlimit a <? sp_tl sp + sp_inc sp + x) then None else
  Some (mkSup (sp_inc sp + x) (sp_out sp) (sp_cur sp) (sp_tl sp) (sp_elapsed sp)).

Definition dec_incoming (sp : supply) (x : Z) : option supply :=
  if sp_inc sp - x <? 0 then None else
  Some (mkSup (sp_inc sp - x) (sp_out sp) (sp_cur sp) (sp_tl sp) (sp_elapsed sp)).

Definition inc_outgoing (sp : supply) (x : Z) : option supply :=
  if sp_cur sp <? sp_out sp + x then None else
  Some (mkSup (sp_inc sp) (sp_out sp + x) (sp_cur sp) (sp_tl sp) (sp_elapsed sp)).

Definition dec_outgoing (sp : supply) (x : Z) : option supply :=
  if sp_out sp - x <? 0 then None else
  Some (mkSup (sp_inc sp) (sp_out sp - x) (sp_cur sp) (sp_tl sp) (sp_elapsed sp)).

Definition inc_current (a : asset) (sp : supply) (x : Z) : option supply :=
  if a_limit a <? sp_cur sp + x then None else
  if a_tlimited a then
    if a_tlimit a <? sp_tl sp + x then None else
    Some (mkSup (sp_inc sp) (sp_out sp) (sp_cur sp + x) (sp_tl sp + x) (sp_elapsed sp))
  else
    Some (mkSup (sp_inc sp) (sp_out sp) (sp_cur sp + x) (sp_tl sp) (sp_elapsed sp)).

Definition dec_current (sp : supply) (x : Z) : option supply :=
  if sp_cur sp - x <? 0 then None else
  Some (mkSup (sp_inc sp) (sp_out sp) (sp_cur sp - x) (sp_tl sp) (sp_elapsed sp)).

(* one asset of UpdateTimeBasedSupplyLimits *)
Definition tick_supply (a : asset) (sp : supply) (dt : Z) : supply :=
  let ne := sp_elapsed sp + dt in
  if a_tlimited a && (ne <? a_period a)
  then mkSup (sp_inc sp) (sp_out sp) (sp_cur sp) (sp_tl sp) ne
  else mkSup (sp_inc sp) (sp_out sp) (sp_cur sp) 0 0.

Definition update_time_limits (e : env) (s : state) : state :=
  match e_assets e with
  | [] => s
  | _ =>
    let dt := s_time s - s_prev s in
    let s1 := fold_left (fun st a => set_sup st (a_denom a) (tick_supply a (s_sup st (a_denom a)) dt))
                        (e_assets e) s in
    set_prev s1 (s_time s)
  end.

(** * keeper/swap.go *)

Definition create (e : env) (s : state) (h : nat) (ts span : Z) (sender recip soc : nat)
                  (coins : list (nat * Z)) (cross : bool) : outcome state unit :=
  let i : id := (h, sender, soc) in
  match lookup i (s_swaps s) with Some _ => Err | None =>
  if e_macc e recip then Err else
  match coins with
  | [(d, x)] =>
    match find_asset d (e_assets e) with None => Err | Some a =>
    if negb (a_active a) then Err else
    if (x <? a_min a) || (a_max a <? x) then Err else
    if (ts <? (s_time s - 900 * SEC) / SEC) || ((s_time s + 1800 * SEC) / SEC <=? ts) then Err else
    (* the expiry height must not wrap around uint64 (fix of x/bep3/keeper/swap.go) *)
    if U64 - 1 - s_height s <? span then Err else
    let dirr :=
      if Nat.eqb sender (a_deputy a)
      then (if Nat.eqb recip (a_deputy a) then None else Some Incoming)
      else (if Nat.eqb recip (a_deputy a) then Some Outgoing else None) in
    match dirr with None => Err | Some dir =>
    let funded : option state :=
      match dir with
      | Incoming =>
          match inc_incoming a (s_sup s d) x with
          | None => None
          | Some sp => Some (set_sup s d sp)
          end
      | Outgoing =>
          if (span <? a_minlock a) || (a_maxlock a <? span) then None else
          if x <=? a_fee a + a_min a then None else
          match inc_outgoing (s_sup s d) x with
          | None => None
          | Some sp => bank_send (set_sup s d sp) sender (e_mod e) d x
          end
      end in
    match funded with None => Err | Some s1 =>
    let expire := (s_height s + span) mod U64 in
    let w := mkSwap d x h expire ts sender recip soc 0 Open cross dir (g_next s) in
    let s2 := set_tables s1 (set_swap i w (s_swaps s1)) (ix_add (expire, i) (s_byblock s1)) (s_longterm s1) in
    Ok (set_ghost s2 (S (g_next s2)) (g_log s2)) tt
    end end end
  | _ => Err
  end end.

Definition close_swap (s : state) (i : id) (w : swap) (k : paykind) (to : nat) (drop_byblock : bool) : state :=
  let w' := with_status w Completed (s_height s) in
  let bb := if drop_byblock then ix_del (sw_expire w, i) (s_byblock s) else s_byblock s in
  let s1 := set_tables s (set_swap i w' (s_swaps s)) bb (ix_add (s_height s + LONGTERM, i) (s_longterm s)) in
  set_ghost s1 (g_next s1) (mkPay (sw_serial w) k (sw_denom w) (sw_amt w) to :: g_log s1).

Definition claim (e : env) (s : state) (from : nat) (i : id) (secret : nat) : outcome state unit :=
  match lookup i (s_swaps s) with None => Err | Some w =>
  if negb (status_eqb (sw_status w) Open) then Err else
  (* CalculateSwapID(CalculateRandomHash(secret, timestamp), sender, senderOtherChain) = swap id *)
  if negb (id_eqb (e_hash e secret (sw_ts w), sw_sender w, sw_soc w) (sw_id w)) then Err else
  let d := sw_denom w in
  let x := sw_amt w in
  match sw_dir w with
  | Incoming =>
      match dec_incoming (s_sup s d) x with None => Err | Some sp1 =>
      match find_asset d (e_assets e) with None => Err | Some a =>
      match inc_current a sp1 x with None => Err | Some sp2 =>
      let s1 := bank_mint (set_sup s d sp2) (e_mod e) d x in
      match bank_m2a e s1 (sw_recip w) d x with None => Err | Some s2 =>
      Ok (close_swap s2 i w ClaimIn (sw_recip w) true) tt
      end end end end
  | Outgoing =>
      match dec_outgoing (s_sup s d) x with None => Err | Some sp1 =>
      match dec_current sp1 x with None => Err | Some sp2 =>
      match bank_burn (set_sup s d sp2) (e_mod e) d x with None => Err | Some s1 =>
      Ok (close_swap s1 i w ClaimOut (e_mod e) true) tt
      end end end
  end end.

Definition refund (e : env) (s : state) (from : nat) (i : id) : outcome state unit :=
  match lookup i (s_swaps s) with None => Err | Some w =>
  if negb (status_eqb (sw_status w) Expired) then Err else
  let d := sw_denom w in
  let x := sw_amt w in
  match sw_dir w with
  | Incoming =>
      match dec_incoming (s_sup s d) x with None => Err | Some sp1 =>
      Ok (close_swap (set_sup s d sp1) i w RefundIn (e_mod e) false) tt
      end
  | Outgoing =>
      match dec_outgoing (s_sup s d) x with None => Err | Some sp1 =>
      match bank_m2a e (set_sup s d sp1) (sw_sender w) d x with None => Err | Some s1 =>
      Ok (close_swap s1 i w RefundOut (sw_sender w) false) tt
      end end
  end end.

(* the callback of UpdateExpiredAtomicSwaps: note that the status of the swap
   found through the index is not inspected *)
Definition expire_one (s : state) (x : Z * id) : state :=
  match lookup (snd x) (s_swaps s) with
  | None => s
  | Some w =>
      let w' := with_status w Expired (sw_closed w) in
      set_tables s (set_swap (snd x) w' (s_swaps s)) (ix_del (sw_expire w, snd x) (s_byblock s)) (s_longterm s)
  end.

Definition update_expired (s : state) : state :=
  fold_left expire_one (filter (fun x => fst x <=? s_height s) (s_byblock s)) s.

(* the callback of DeleteClosedAtomicSwapsFromLongtermStorage *)
Definition delete_one (s : state) (x : Z * id) : state :=
  match lookup (snd x) (s_swaps s) with
  | None => s
  | Some w =>
      set_tables s (del_swap (snd x) (s_swaps s)) (s_byblock s)
                 (ix_del (sw_closed w + LONGTERM, snd x) (s_longterm s))
  end.

Definition delete_closed (s : state) : state :=
  fold_left delete_one (filter (fun x => fst x <=? s_height s) (s_longterm s)) s.

(* abci.go BeginBlocker at a new height and time *)
Definition begin_block (e : env) (s : state) (h t : Z) : state :=
  delete_closed (update_expired (update_time_limits e (set_clock s h t))).

Inductive op :=
| Create (h : nat) (ts span : Z) (sender recip soc : nat) (coins : list (nat * Z)) (cross : bool)
| Claim (from : nat) (i : id) (secret : nat)
| Refund (from : nat) (i : id)
| BeginBlock (h t : Z).

Definition step (e : env) (s : state) (o : op) : outcome state unit :=
  match o with
  | Create h ts span sender recip soc coins cross => create e s h ts span sender recip soc coins cross
  | Claim from i secret => claim e s from i secret
  | Refund from i => refund e s from i
  | BeginBlock h t => Ok (begin_block e s h t) tt
  end.

(* a failed operation leaves the state it started from *)
Definition step' (e : env) (s : state) (o : op) : state :=
  match step e s o with Ok s' _ => s' | _ => s end.

Definition run (e : env) (s : state) (ops : list op) : state :=
  fold_left (step' e) ops s.

(** * Sums over the swap table and over the ghost log *)

Definition live (w : swap) : bool := negb (status_eqb (sw_status w) Completed).

(* the amount of [w] if it is a not-yet-closed swap of denom [d] and direction [dir] *)
Definition wt (d : nat) (dir : direction) (w : swap) : Z :=
  if Nat.eqb (sw_denom w) d && dir_eqb (sw_dir w) dir && live w then sw_amt w else 0.

Definition ssum (f : swap -> Z) (l : list (id * swap)) : Z :=
  fold_right (fun p acc => f (snd p) + acc) 0 l.

Definition lsum (k : paykind) (d : nat) (l : list pay) : Z :=
  fold_right (fun p acc => (if paykind_eqb (p_kind p) k && Nat.eqb (p_denom p) d then p_amt p else 0) + acc) 0 l.

(** * Boolean form of the invariant, evaluated on every model state of the
      correspondence run (by theorem it cannot be false) *)

Fixpoint nodup_b {A} (eqb : A -> A -> bool) (l : list A) : bool :=
  match l with
  | [] => true
  | x :: r => negb (existsb (eqb x) r) && nodup_b eqb r
  end.

Definition swap_wf_b (e : env) (s : state) (p : id * swap) : bool :=
  let '(i, w) := p in
  id_eqb i (sw_id w) && (0 <? sw_amt w) && Nat.ltb (sw_serial w) (g_next s)
  && match find_asset (sw_denom w) (e_assets e) with
     | None => false
     | Some a =>
         match sw_dir w with
         | Incoming => Nat.eqb (sw_sender w) (a_deputy a)
         | Outgoing => negb (Nat.eqb (sw_sender w) (a_deputy a)) && Nat.eqb (sw_recip w) (a_deputy a)
         end
     end
  && match sw_status w with
     | Open => ix_mem (sw_expire w, i) (s_byblock s)
     | Completed => ix_mem (sw_closed w + LONGTERM, i) (s_longterm s)
                    && existsb (fun q => Nat.eqb (p_serial q) (sw_serial w)) (g_log s)
     | Expired => true
     end
  && match sw_status w with
     | Completed => true
     | _ => negb (existsb (fun q => Nat.eqb (p_serial q) (sw_serial w)) (g_log s))
     end.

Definition inv_b (e : env) (s : state) : bool :=
  nodup_b id_eqb (map fst (s_swaps s))
  && nodup_b Nat.eqb (map (fun p => sw_serial (snd p)) (s_swaps s))
  && nodup_b Nat.eqb (map p_serial (g_log s))
  && nodup_b ent_eqb (s_byblock s) && nodup_b ent_eqb (s_longterm s)
  && forallb (swap_wf_b e s) (s_swaps s)
  && forallb (fun x => match lookup (snd x) (s_swaps s) with
                       | Some w => status_eqb (sw_status w) Open && (sw_expire w =? fst x)
                       | None => false end) (s_byblock s)
  && forallb (fun x => match lookup (snd x) (s_swaps s) with
                       | Some w => status_eqb (sw_status w) Completed && (sw_closed w + LONGTERM =? fst x)
                       | None => false end) (s_longterm s)
  && forallb (fun q => Nat.ltb (p_serial q) (g_next s)) (g_log s)
  && forallb (fun d =>
        let sp := s_sup s d in
        (sp_inc sp =? ssum (wt d Incoming) (s_swaps s))
        && (sp_out sp =? ssum (wt d Outgoing) (s_swaps s))
        && (s_bal s (e_mod e) d =? sp_out sp)
        && (sp_out sp <=? sp_cur sp) && (0 <=? sp_tl sp)
        && (sp_cur sp =? e_cur0 e d + lsum ClaimIn d (g_log s) - lsum ClaimOut d (g_log s))
        && (s_bsup s d =? e_bsup0 e d + lsum ClaimIn d (g_log s) - lsum ClaimOut d (g_log s))
        && match find_asset d (e_assets e) with
           | None => true
           | Some a => (sp_cur sp + sp_inc sp <=? a_limit a)
                       && (negb (a_tlimited a) || (sp_tl sp + sp_inc sp <=? a_tlimit a))
           end) (seq 0 (e_nden e)).

(** * Correspondence-check support: observations and comparison *)

Inductive rclass := ROk | RErr | RPanic.
Definition rclass_eqb (a b : rclass) : bool :=
  match a, b with ROk, ROk | RErr, RErr | RPanic, RPanic => true | _, _ => false end.
Definition class_of {S O} (r : outcome S O) : rclass :=
  match r with Ok _ _ => ROk | Err => RErr | Panic => RPanic end.

(* What the harness records after each operation: the result class and the
   changes of the implementation's observable state relative to the previous
   observation: swap records read from the store (Some = written, None =
   deleted), raw entries of the two index prefixes that appeared/disappeared,
   asset supply records, bank balances and bank supplies that changed, and the
   stored previous block time.  The checker keeps a shadow copy of the
   implementation's state, applies the changes and compares the full projections
   of model state and shadow state. *)
Record obs := mkObs {
  o_class : rclass;
  o_swaps : list (id * option swap);
  o_bb_add : list (Z * id);
  o_bb_del : list (Z * id);
  o_lt_add : list (Z * id);
  o_lt_del : list (Z * id);
  o_sup : list (nat * supply);
  o_bal : list (nat * nat * Z);
  o_bsup : list (nat * Z);
  o_prev : Z
}.

Definition apply_obs (sh : state) (o : obs) : state :=
  let sw := fold_left (fun l p => match snd p with
                                  | Some w => set_swap (fst p) w l
                                  | None => del_swap (fst p) l end) (o_swaps o) (s_swaps sh) in
  let bb := fold_left (fun l x => ix_add x l) (o_bb_add o)
              (fold_left (fun l x => ix_del x l) (o_bb_del o) (s_byblock sh)) in
  let lt := fold_left (fun l x => ix_add x l) (o_lt_add o)
              (fold_left (fun l x => ix_del x l) (o_lt_del o) (s_longterm sh)) in
  let su := fold_left (fun f p => upd f (fst p) (snd p)) (o_sup o) (s_sup sh) in
  let b := fold_left (fun f p => upd2 f (fst (fst p)) (snd (fst p)) (snd p)) (o_bal o) (s_bal sh) in
  let bs := fold_left (fun f p => upd f (fst p) (snd p)) (o_bsup o) (s_bsup sh) in
  mkState (s_height sh) (s_time sh) (o_prev o) sw bb lt su b bs (g_next sh) (g_log sh).

(* swap records are compared without the ghost instance number *)
Definition swap_eqb (a b : swap) : bool :=
  Nat.eqb (sw_denom a) (sw_denom b) && (sw_amt a =? sw_amt b) && Nat.eqb (sw_hash a) (sw_hash b)
  && (sw_expire a =? sw_expire b) && (sw_ts a =? sw_ts b) && Nat.eqb (sw_sender a) (sw_sender b)
  && Nat.eqb (sw_recip a) (sw_recip b) && Nat.eqb (sw_soc a) (sw_soc b)
  && (sw_closed a =? sw_closed b) && status_eqb (sw_status a) (sw_status b)
  && Bool.eqb (sw_cross a) (sw_cross b) && dir_eqb (sw_dir a) (sw_dir b).

Definition sup_eqb (a b : supply) : bool :=
  (sp_inc a =? sp_inc b) && (sp_out a =? sp_out b) && (sp_cur a =? sp_cur b)
  && (sp_tl a =? sp_tl b) && (sp_elapsed a =? sp_elapsed b).

Definition swaps_eqb (l1 l2 : list (id * swap)) : bool :=
  Nat.eqb (length l1) (length l2)
  && forallb (fun p => match lookup (fst p) l2 with Some w => swap_eqb (snd p) w | None => false end) l1.

Definition ix_eqb (l1 l2 : list (Z * id)) : bool :=
  Nat.eqb (length l1) (length l2) && forallb (fun x => ix_mem x l2) l1.

Definition state_eqb (e : env) (s sh : state) : bool :=
  swaps_eqb (s_swaps s) (s_swaps sh)
  && ix_eqb (s_byblock s) (s_byblock sh) && ix_eqb (s_longterm s) (s_longterm sh)
  && (s_prev s =? s_prev sh)
  && forallb (fun d => sup_eqb (s_sup s d) (s_sup sh d) && (s_bsup s d =? s_bsup sh d)) (seq 0 (e_nden e))
  && forallb (fun a => forallb (fun d => s_bal s a d =? s_bal sh a d) (seq 0 (e_nden e))) (seq 0 (e_nacc e)).

(* the hypotheses of the theorems, checked on every recorded history: valid asset parameters and
   the module account among the module accounts ([env_wf]); the module account never signs a
   create and block heights do not decrease ([op_ok], [op_mono]) *)
Definition env_wf_b (e : env) : bool :=
  e_macc e (e_mod e) && forallb (fun a => 1 <=? a_min a) (e_assets e).

Definition op_ok_b (e : env) (s : state) (o : op) : bool :=
  match o with
  | Create _ _ _ sender _ _ _ _ => negb (Nat.eqb sender (e_mod e))
  | BeginBlock h _ => s_height s <=? h
  | _ => true
  end.

(* first step index (from 0) at which model and implementation differ, at which the model
   invariant evaluates to false, or at which a hypothesis of the theorems does not hold *)
Fixpoint first_mismatch (e : env) (s sh : state) (h : list (op * obs)) (i : nat) : option nat :=
  match h with
  | [] => None
  | (o, ob) :: r =>
      let res := step e s o in
      let s' := match res with Ok s1 _ => s1 | _ => s end in
      let sh' := apply_obs sh ob in
      if rclass_eqb (class_of res) (o_class ob) && state_eqb e s' sh' && inv_b e s' && op_ok_b e s o
      then first_mismatch e s' sh' r (S i)
      else Some i
  end.

(* list-based construction of environments and states from harness data *)
Definition nthZ (l : list Z) (i : nat) : Z := nth i l 0.
Definition nthB (l : list bool) (i : nat) : bool := nth i l false.

Fixpoint hash_table (t : list (nat * Z * nat)) (secret : nat) (ts : Z) : nat :=
  match t with
  | [] => 0%nat
  | (s0, t0, h) :: r => if Nat.eqb s0 secret && (t0 =? ts) then h else hash_table r secret ts
  end.

Definition zero_sup : supply := mkSup 0 0 0 0 0.

Definition mk_env (nacc nden md : nat) (macc blocked : list bool) (assets : list asset)
                  (hashes : list (nat * Z * nat)) (cur0 bsup0 : list Z) : env :=
  {| e_nacc := nacc; e_nden := nden; e_mod := md; e_macc := nthB macc; e_blocked := nthB blocked;
     e_assets := assets; e_hash := hash_table hashes; e_cur0 := nthZ cur0; e_bsup0 := nthZ bsup0 |}.

Definition mk_state (height time prev : Z) (sups : list supply) (bals : list (list Z)) (bsups : list Z) : state :=
  mkState height time prev [] [] [] (fun d => nth d sups zero_sup)
          (fun a d => nthZ (nth a bals []) d) (nthZ bsups) 0 [].

Record history := mkHist {
  h_env : env;
  h_init : state;
  h_steps : list (op * obs)
}.

Definition check_history (h : history) : option nat :=
  if inv_b (h_env h) (h_init h) && env_wf_b (h_env h)
  then first_mismatch (h_env h) (h_init h) (h_init h) (h_steps h) 0
  else Some 0%nat.

Fixpoint mismatches_from (i : nat) (hs : list history) : list (nat * nat) :=
  match hs with
  | [] => []
  | h :: r =>
      match check_history h with
      | None => mismatches_from (S i) r
      | Some k => (i, k) :: mismatches_from (S i) r
      end
  end.
Definition mismatches := mismatches_from 0.

(** * The message level (types/msg.go ValidateBasic, keeper/msg_server.go) *)

(* ValidateBasic of MsgCreateAtomicSwap, as far as the model's data goes:
   timestamp positive, height span positive, amount a non-empty valid coin set
   (for the single coin the keeper insists on: a positive amount; any other
   length is refused by the keeper whatever ValidateBasic says).  Address
   well-formedness, the 32-byte length of hash / swap id / random number and the
   other-chain address lengths hold by construction of the model's indexes (the
   driver only forms 32-byte values and short addresses at the message level).
   MsgClaimAtomicSwap / MsgRefundAtomicSwap have only such format rules. *)
Definition msg_validate_basic (o : op) : bool :=
  match o with
  | Create _ ts span _ _ _ coins _ =>
      (0 <? ts) && (0 <? span) && (match coins with [(_, x)] => 0 <? x | _ => true end)
  | _ => true
  end.

(* the msg server calls the keeper with crossChain = true *)
Definition as_msg (o : op) : op :=
  match o with
  | Create h ts span sender recip soc coins _ => Create h ts span sender recip soc coins true
  | _ => o
  end.

Definition msg_step (e : env) (s : state) (o : op) : outcome state unit :=
  if msg_validate_basic o then step e s (as_msg o) else Err.

Definition msg_step' (e : env) (s : state) (o : op) : state :=
  match msg_step e s o with Ok s' _ => s' | _ => s end.

(** ** histories in which each operation is either a keeper call (false) or a message (true) *)
Record mhistory := mkMHist {
  mh_env : env;
  mh_init : state;
  mh_steps : list (bool * op * obs)
}.

Fixpoint first_mismatch_m (e : env) (s sh : state) (h : list (bool * op * obs)) (i : nat) : option nat :=
  match h with
  | [] => None
  | (m, o, ob) :: r =>
      let res := if m then msg_step e s o else step e s o in
      let s' := match res with Ok s1 _ => s1 | _ => s end in
      let sh' := apply_obs sh ob in
      if rclass_eqb (class_of res) (o_class ob) && state_eqb e s' sh' && inv_b e s' && op_ok_b e s o
      then first_mismatch_m e s' sh' r (S i)
      else Some i
  end.

Definition check_mhistory (h : mhistory) : option nat :=
  if inv_b (mh_env h) (mh_init h) && env_wf_b (mh_env h)
  then first_mismatch_m (mh_env h) (mh_init h) (mh_init h) (mh_steps h) 0
  else Some 0%nat.

Fixpoint mmismatches_from (i : nat) (hs : list mhistory) : list (nat * nat) :=
  match hs with
  | [] => []
  | h :: r =>
      match check_mhistory h with
      | None => mmismatches_from (S i) r
      | Some k => (i, k) :: mmismatches_from (S i) r
      end
  end.
Definition mismatches_m := mmismatches_from 0.
