(* Model of app/tally_handler.go (TallyHandler.Tally, getAddrBkava and its three
   sources) and of x/liquid/keeper/derivative.go GetStakedTokensForDerivatives,
   over the state of Model/Staking.v.  Definitions only. *)
From Kava Require Import Base.Prelude Base.Dec Model.Staking.
Local Open Scope Z_scope.

(* a vote: voter account and weighted options; options are numbered
   0 = Yes, 1 = Abstain, 2 = No, 3 = NoWithVeto; weights are LegacyDec mantissas *)
Definition vote := (nat * list (nat * Z))%type.

(* getAddrBkava: wallet + savings + earn, summed per derivative denom *)
Definition held (s : state) (a i : nat) : Z := dbal s a i + sav s a i + ern s a i.

(* currValidators: IterateBondedValidatorsByPower walks the power index (which
   holds no jailed validator) and keeps those with status Bonded *)
Definition curr (s : state) (i : nat) : bool :=
  let v := vals s i in v_exists v && vstatus_eqb (v_status v) Bonded && negb (v_jailed v).

(* liquid keeper GetStakedTokensForDerivatives for one coin (validator exists) *)
Definition derivative_value (v : validator) (amt : Z) : Z :=
  dec_trunc_int (tokens_from_shares_trunc v (dec_of_int amt)).

(* the voting power of one delegation: shares.MulInt(BondedTokens).Quo(DelegatorShares) *)
Definition delegation_power (v : validator) (d : Z) : Z := dec_quo (d * v_tokens v) (v_shares v).

Record acc := mkAcc {
  t_res : nat -> Z;     (* results per option (Dec mantissas) *)
  t_total : Z;          (* totalVotingPower *)
  t_ded : nat -> Z;     (* DelegatorDeductions per validator *)
  t_panic : bool
}.

Definition add_power (r : nat -> Z) (opts : list (nat * Z)) (vp : Z) : nat -> Z :=
  fold_left (fun f o => upd f (fst o) (f (fst o) + dec_mul vp (snd o))) opts r.

(* the delegations of one voter (IterateDelegations) *)
Definition tally_dels (e : env) (s : state) (a : nat) (opts : list (nat * Z)) (t : acc) : acc :=
  fold_left (fun t i =>
    match del s a i with
    | Some d =>
        if curr s i then
          let v := vals s i in
          if v_shares v =? 0 then mkAcc (t_res t) (t_total t) (t_ded t) true else
          let vp := delegation_power v d in
          mkAcc (add_power (t_res t) opts vp) (t_total t + vp) (upd (t_ded t) i (t_ded t i + d)) (t_panic t)
        else t
    | None => t
    end) (seq 0 (nval e)) t.

(* the derivatives of one voter *)
Definition tally_bkava (e : env) (s : state) (a : nat) (opts : list (nat * Z)) (t : acc) : acc :=
  fold_left (fun t i =>
    let h := held s a i in
    let v := vals s i in
    (* a derivative carries power only while its validator is in the bonded set *)
    if (0 <? h) && v_exists v && curr s i then
      if v_shares v =? 0 then mkAcc (t_res t) (t_total t) (t_ded t) true else
      let vp := dec_of_int (derivative_value v h) in
      mkAcc (add_power (t_res t) opts vp) (t_total t + vp) (upd (t_ded t) i (t_ded t i + dec_of_int h)) (t_panic t)
    else t) (seq 0 (nval e)) t.

Definition tally_votes (e : env) (s : state) (votes : list vote) (t : acc) : acc :=
  fold_left (fun t vt => tally_bkava e s (fst vt) (snd vt) (tally_dels e s (fst vt) (snd vt) t)) votes t.

(* the vote of an account, if any (one vote per voter in the gov store) *)
Fixpoint vote_of (votes : list vote) (a : nat) : option (list (nat * Z)) :=
  match votes with
  | [] => None
  | (b, o) :: r => if Nat.eqb a b then Some o else vote_of r a
  end.

(* second pass: validators that voted get their remaining shares *)
Definition validator_power (v : validator) (ded : Z) : Z :=
  dec_quo ((v_shares v - ded) * v_tokens v) (v_shares v).

Definition tally_validators (e : env) (s : state) (votes : list vote) (t : acc) : acc :=
  fold_left (fun t i =>
    if curr s i then
      match vote_of votes (oper e i) with
      | Some ((_ :: _) as opts) =>
          let v := vals s i in
          if v_shares v =? 0 then mkAcc (t_res t) (t_total t) (t_ded t) true else
          let vp := validator_power v (t_ded t i) in
          mkAcc (add_power (t_res t) opts vp) (t_total t + vp) (t_ded t) (t_panic t)
      | _ => t
      end
    else t) (seq 0 (nval e)) t.

(* TotalBondedTokens: balance of the bonded pool = tokens of the Bonded validators *)
Definition total_bonded (e : env) (s : state) : Z :=
  sumN (nval e) (fun i => let v := vals s i in
                          if v_exists v && vstatus_eqb (v_status v) Bonded then v_tokens v else 0).

Record tally_out := mkTally {
  r_yes : Z; r_abstain : Z; r_no : Z; r_veto : Z;   (* TallyResult (truncated) *)
  r_passes : bool; r_burn : bool
}.

Definition tally_acc (e : env) (s : state) (votes : list vote) : acc :=
  tally_validators e s votes
    (tally_votes e s votes (mkAcc (fun _ => 0) 0 (fun _ => 0) false)).

(* None = panic (a LegacyDec division by zero) *)
Definition tally (e : env) (s : state) (votes : list vote) : option tally_out :=
  let t := tally_acc e s votes in
  if t_panic t then None else
  let res := t_res t in
  let out := mkTally (dec_trunc_int (res 0%nat)) (dec_trunc_int (res 1%nat))
                     (dec_trunc_int (res 2%nat)) (dec_trunc_int (res 3%nat)) in
  let tb := total_bonded e s in
  if tb =? 0 then Some (out false false) else
  let percent := dec_quo (t_total t) (dec_of_int tb) in
  if percent <? e_quorum e then Some (out false (e_burn_quorum e)) else
  if t_total t - res 1%nat =? 0 then Some (out false false) else
  if t_total t =? 0 then None else
  if e_veto e <? dec_quo (res 3%nat) (t_total t) then Some (out false (e_burn_veto e)) else
  if e_threshold e <? dec_quo (res 0%nat) (t_total t - res 1%nat) then Some (out true false)
  else Some (out false false).

(* total of the four counted results *)
Definition counted (o : tally_out) : Z := r_yes o + r_abstain o + r_no o + r_veto o.
