(* C08: arithmetic probes of the four interest computations of x/hard — SyncBorrowInterest,
   loadSyncedBorrow (GetSyncedBorrow), SyncSupplyInterest, loadSyncedDeposit (GetSyncedDeposit) —
   on one coin with a chosen stored amount, user index and global factor.  Histories reach the
   rounding corners of these formulas (amount*factor/index landing exactly on an integer while
   amount/index does not terminate) with negligible probability; the driver therefore also calls
   the four keeper functions directly on crafted records and this file compares what they
   returned with the model's [bor_interest] / [sup_interest], the very definitions that
   [sync_bor_coin], [load_coin], [sync_sup_coin] and [load_coin_sup] of Model/Hard.v use. *)
From Coq Require Import ZArith List Bool.
From Kava Require Import Base.Prelude Base.Dec Model.Hard.
Import ListNotations.
Open Scope Z_scope.

Record probe := mkProbe {
  p_a : Z;        (* stored amount of the coin *)
  p_uf : Z;       (* the user's index for the denom (mantissa, 18 decimals) *)
  p_f : Z;        (* the global interest factor (mantissa) *)
  p_sync_b : Z;   (* borrow amount after SyncBorrowInterest *)
  p_view_b : Z;   (* amount reported by GetSyncedBorrow before the sync *)
  p_sync_s : Z;   (* deposit amount after SyncSupplyInterest *)
  p_view_s : Z    (* amount reported by GetSyncedDeposit before the sync *)
}.

(* what the model's sync / load functions give for a one-coin record with an index entry *)
Definition model_sync_b (p : probe) : Z := p_a p + bor_interest (p_a p) (p_f p) (p_uf p).
Definition model_view_b (p : probe) : Z := p_a p + bor_interest (p_a p) (p_f p) (p_uf p).
Definition model_sync_s (p : probe) : Z :=
  let i := sup_interest (p_a p) (p_f p) (p_uf p) in p_a p + (if 0 <? i then i else 0).
Definition model_view_s (p : probe) : Z := p_a p + sup_interest (p_a p) (p_f p) (p_uf p).

Definition probe_ok (p : probe) : bool :=
  (p_sync_b p =? model_sync_b p) && (p_view_b p =? model_view_b p) &&
  (p_sync_s p =? model_sync_s p) && (p_view_s p =? model_view_s p).

Fixpoint arith_from (i : nat) (l : list probe) : list (nat * nat) :=
  match l with
  | [] => []
  | p :: r => if probe_ok p then arith_from (S i) r else (i, 0%nat) :: arith_from (S i) r
  end.
Definition arith_mismatches (l : list probe) : list (nat * nat) := arith_from 0 l.
