(* Model of the x/incentive reward machine for one reward source (swap: pools;
   the same machine serves every source whose claim is "reward coins + one set
   of reward indexes per collateral type"):

     abci.go BeginBlocker -> keeper/rewards_swap.go AccumulateSwapRewards
                           -> types/accumulator.go (Model/Accumulator.v)
     keeper/hooks.go AfterPoolDepositCreated  -> InitializeSwapReward
                     BeforePoolDepositModified -> SynchronizeSwapReward
     keeper/rewards_borrow.go CalculateRewards / CalculateSingleReward
     keeper/rewards_swap.go GetSynchronizedSwapClaim
     keeper/claim.go ClaimSwapReward (+ payout.go balance check)

   Abstraction: a RewardIndexes slice is a total function reward denom -> factor
   (an absent entry is factor 0; "global indexes not found" is the all-zero
   function: the code then skips the sync, which leaves the all-zero user
   indexes as they are).  Source shares and totals are Dec mantissas (swap:
   shares * 10^18).  The model receives from the source module only
   (user, pool, new shares, new total) and block times.

   The last nine fields of the state are history variables: they are only
   read to update themselves and never influence the other fields.

   Besides the hook protocol (Change) the machine has
     Revalue  a user's source shares move WITHOUT a hook call for that user
              (staking: a third party's delegation to a slashed validator moves the
              exchange rate of everybody's delegation shares; x/cdp and x/hard of
              this tree call the hook before they synchronise interest, so their
              messages need no revalue),
     SetTotal the source total moves without a user position changing (interest),
     BkAcc    accumulateBkavaEarnRewards for one bkava vault (proportional rate,
              forwarded staking rewards),
   and, one level up (xstep), SetParams: the reward periods and the claim end
   are replaced (governance / committee parameter change).
   Definitions only. *)
From Kava Require Import Base.Prelude Base.Dec Model.Accumulator.
Local Open Scope Z_scope.

Record env := mkEnv {
  nusers : nat;
  npools : nat;
  ndenoms : nat;                      (* reward denoms 0 .. ndenoms-1 *)
  periods : nat -> option period;     (* params.SwapRewardPeriods by pool *)
  claim_end : Z;                      (* params.ClaimEnd, nanoseconds *)
  exact_total : bool                  (* the source guarantees total = sum of user shares (swap) *)
}.

Record state := mkState {
  now : Z;                            (* block time, nanoseconds *)
  g_time : nat -> option Z;           (* PreviousSwapRewardAccrualTime by pool *)
  g_idx : nat -> nat -> Z;            (* global reward indexes: pool, reward denom *)
  tot : nat -> Z;                     (* total source shares by pool (Dec mantissa) *)
  sh : nat -> nat -> Z;               (* source shares: user, pool (Dec mantissa) *)
  has_claim : nat -> bool;            (* a claim object exists for the user *)
  u_idx : nat -> nat -> nat -> Z;     (* claim.RewardIndexes: user, pool, reward denom *)
  rew : nat -> nat -> Z;              (* claim.Reward: user, reward denom *)
  macc : nat -> Z;                    (* balance of the incentive module account (kavadist) *)
  bal : nat -> nat -> Z;              (* bank balance of the users in the reward denoms *)
  (* ---- history variables (units of integral/due: index mantissa * share mantissa = 10^36) *)
  integral : nat -> nat -> Z;         (* sum over accumulations of  index increment * user's shares at that time *)
  due : nat -> nat -> Z;              (* sum over the user's synchronisations of (global - user index) * shares, unrounded *)
  nsync : nat -> nat -> Z;            (* number of CalculateSingleReward roundings applied to the user's claim in that denom *)
  claimed : nat -> nat -> Z;          (* reward removed from the claim by claims *)
  emitted : nat -> Z;                 (* sum over accumulations of rate * whole seconds (when there were shares) *)
  accslack : nat -> Z;                (* sum over those accumulations of the total source shares *)
  drift : nat -> nat -> Z;            (* user, denom: sum over the user's revalues of (global - user index) * (new - old shares) *)
  overshare : nat -> Z;               (* denom: sum over accumulations of index increment * max(0, sum of user shares - total) *)
  emitted_x : nat -> Z                (* denom, Dec mantissa: rewards of the bkava accumulations (proportional per-second rewards + staking rewards) *)
}.

(** * BeginBlocker *)

(* duration the accumulation of pool p at block time t counts; None = panic *)
Definition pool_dur (e : env) (st : state) (t : Z) (p : nat) : option Z :=
  match periods e p with
  | None => Some 0
  | Some pd =>
      elapsed_within (match g_time st p with Some x => x | None => t end) t (p_start pd) (p_end pd)
  end.

Definition pool_val (f : Z -> Z -> Z -> Z) (e : env) (st : state) (t : Z) (p d : nat) : Z :=
  match periods e p with
  | None => 0
  | Some pd =>
      match pool_dur e st t p with
      | Some dur => f (p_rate pd d) (tot st p) dur
      | None => 0
      end
  end.

Definition pool_inc := pool_val new_reward.        (* increment of the global index *)
Definition pool_emit := pool_val emitted_of.       (* reward counted as emitted *)
Definition pool_slack := pool_val (fun rate T dur => if (0 <? emitted_of rate T dur) then T else 0).

(* the side-condition of the over-distribution bound: sum of the users' shares <= total *)
Definition shares_sum (e : env) (st : state) (p : nat) : Z := sumN (nusers e) (fun u => sh st u p).

(* by how much the users' shares exceed the total the accumulation divides by *)
Definition excess (e : env) (st : state) (p : nat) : Z := Z.max 0 (shares_sum e st p - tot st p).

Definition block (e : env) (st : state) (t : Z) : outcome state unit :=
  if t <? now st then Err else
  if existsb (fun p => match pool_dur e st t p with None => true | Some _ => false end) (seq 0 (npools e))
  then Panic else
  Ok (mkState t
        (fun p => match periods e p with
                  | Some pd => Some (Z.min (p_end pd) t)
                  | None => g_time st p end)
        (fun p d => g_idx st p d + pool_inc e st t p d)
        (tot st) (sh st) (has_claim st) (u_idx st) (rew st) (macc st) (bal st)
        (fun u d => integral st u d + sumN (npools e) (fun p => pool_inc e st t p d * sh st u p))
        (due st) (nsync st) (claimed st)
        (fun d => emitted st d + sumN (npools e) (fun p => pool_emit e st t p d))
        (fun d => accslack st d + sumN (npools e) (fun p => pool_slack e st t p d))
        (drift st)
        (fun d => overshare st d + sumN (npools e) (fun p => pool_inc e st t p d * excess e st p))
        (emitted_x st)) tt.

(** * Synchronisation *)

(* CalculateSingleReward: newIndex.Sub(oldIndex).Mul(sourceShares).RoundInt() *)
Definition sync_reward (dI s : Z) : Z := dec_round_int (dec_mul dI s).

(* CalculateSingleReward returns an error (the caller panics) when the global
   index is below the user's *)
Definition sync_ok (e : env) (st : state) (u p : nat) : bool :=
  forallb (fun d => u_idx st u p d <=? g_idx st p d) (seq 0 (ndenoms e)).

(* synchronizeSwapReward for pool p with the given shares *)
Definition sync_pool (st : state) (u p : nat) (s : Z) : state :=
  mkState (now st) (g_time st) (g_idx st) (tot st) (sh st) (has_claim st)
    (fun u' p' d => if Nat.eqb u' u && Nat.eqb p' p then g_idx st p d else u_idx st u' p' d)
    (fun u' d => if Nat.eqb u' u
                 then rew st u d + sync_reward (g_idx st p d - u_idx st u p d) s
                 else rew st u' d)
    (macc st) (bal st)
    (integral st)
    (fun u' d => if Nat.eqb u' u
                 then due st u d + (g_idx st p d - u_idx st u p d) * s
                 else due st u' d)
    (fun u' d => if Nat.eqb u' u then nsync st u d + 1 else nsync st u' d)
    (claimed st) (emitted st) (accslack st) (drift st) (overshare st) (emitted_x st).

(* InitializeSwapReward: create the claim if needed, indexes := global *)
Definition init_claim (st : state) (u p : nat) : state :=
  mkState (now st) (g_time st) (g_idx st) (tot st) (sh st)
    (fun u' => if Nat.eqb u' u then true else has_claim st u')
    (fun u' p' d => if Nat.eqb u' u && Nat.eqb p' p then g_idx st p d else u_idx st u' p' d)
    (rew st) (macc st) (bal st)
    (integral st) (due st) (nsync st) (claimed st) (emitted st) (accslack st) (drift st) (overshare st) (emitted_x st).

(* GetSynchronizedSwapClaim: every pool with the user's current shares *)
Definition sync_all (e : env) (st : state) (u : nat) : state :=
  mkState (now st) (g_time st) (g_idx st) (tot st) (sh st) (has_claim st)
    (fun u' p d => if Nat.eqb u' u && Nat.ltb p (npools e) then g_idx st p d else u_idx st u' p d)
    (fun u' d => if Nat.eqb u' u
                 then rew st u d + sumN (npools e) (fun p => sync_reward (g_idx st p d - u_idx st u p d) (sh st u p))
                 else rew st u' d)
    (macc st) (bal st)
    (integral st)
    (fun u' d => if Nat.eqb u' u
                 then due st u d + sumN (npools e) (fun p => (g_idx st p d - u_idx st u p d) * sh st u p)
                 else due st u' d)
    (fun u' d => if Nat.eqb u' u then nsync st u d + Z.of_nat (npools e) else nsync st u' d)
    (claimed st) (emitted st) (accslack st) (drift st) (overshare st) (emitted_x st).

(* what GetSynchronizedSwapClaim reports as the user's reward *)
Definition pending (e : env) (st : state) (u d : nat) : Z :=
  rew st u d + sumN (npools e) (fun p => sync_reward (g_idx st p d - u_idx st u p d) (sh st u p)).

(** * A change of a source position (the hooks of the source module) *)

Definition set_shares (st : state) (u p : nat) (s T : Z) : state :=
  mkState (now st) (g_time st) (g_idx st)
    (fun p' => if Nat.eqb p' p then T else tot st p')
    (fun u' p' => if Nat.eqb u' u && Nat.eqb p' p then s else sh st u' p')
    (has_claim st) (u_idx st) (rew st) (macc st) (bal st)
    (integral st) (due st) (nsync st) (claimed st) (emitted st) (accslack st) (drift st) (overshare st) (emitted_x st).

Definition in_range (e : env) (u p : nat) : bool := Nat.ltb u (nusers e) && Nat.ltb p (npools e).

(* x/swap Deposit / Withdraw as seen by the incentive module: no share record
   (old shares 0) -> AfterPoolDepositCreated; otherwise BeforePoolDepositModified
   with the shares owned before the change; then the source stores the new
   shares and total. *)
Definition change (e : env) (st : state) (u p : nat) (s' T' : Z) : outcome state unit :=
  if negb (in_range e u p) then Err else
  if (s' <? 0) || (T' <? 0) then Err else
  let old := sh st u p in
  if old =? 0 then Ok (set_shares (init_claim st u p) u p s' T') tt
  else if has_claim st u then
    if sync_ok e st u p then Ok (set_shares (sync_pool st u p old) u p s' T') tt else Panic
  else Ok (set_shares st u p s' T') tt.

(* the source's total moves without a user position changing (interest accrual
   in the normalised-amount sources; not used by swap) *)
Definition set_total (e : env) (st : state) (p : nat) (T' : Z) : outcome state unit :=
  if negb (Nat.ltb p (npools e)) || (T' <? 0) then Err else
  Ok (mkState (now st) (g_time st) (g_idx st)
        (fun p' => if Nat.eqb p' p then T' else tot st p')
        (sh st) (has_claim st) (u_idx st) (rew st) (macc st) (bal st)
        (integral st) (due st) (nsync st) (claimed st) (emitted st) (accslack st) (drift st) (overshare st) (emitted_x st)) tt.

(** * Revalue: a user's source shares move without a hook call for that user

   Nothing is synchronised: the claim keeps its indexes, so the next
   synchronisation multiplies the whole index difference accrued since the
   user's previous synchronisation by the NEW shares.  The history variable
   [drift] records by how much that changes the user's entitlement. *)
Definition revalue (e : env) (st : state) (u p : nat) (s' : Z) : outcome state unit :=
  if negb (in_range e u p) then Err else
  if s' <? 0 then Err else
  if negb (has_claim st u) && negb (s' =? 0) then Err else
  Ok (mkState (now st) (g_time st) (g_idx st) (tot st)
        (fun u' p' => if Nat.eqb u' u && Nat.eqb p' p then s' else sh st u' p')
        (has_claim st) (u_idx st) (rew st) (macc st) (bal st)
        (integral st) (due st) (nsync st) (claimed st) (emitted st) (accslack st)
        (fun u' d => if Nat.eqb u' u
                     then drift st u d + (g_idx st p d - u_idx st u p d) * (s' - sh st u p)
                     else drift st u' d)
        (overshare st) (emitted_x st)) tt.

(** * accumulateBkavaEarnRewards for one bkava vault (pool p)

   The bkava reward period of the params is shared by every bkava-<validator>
   vault, so it is not an entry of the period table ([periods e p = None]: the
   ordinary accumulation skips the pool); the operation carries it, together
   with what the keeper reads from x/liquid and x/distribution: the value v of
   the vault's derivative denom, the value V of all derivative denoms, and the
   staking rewards collected for the vault's validator (they are moved to the
   incentive module account whether or not the vault has shares). *)
Definition period_ok (nd : nat) (pd : period) : bool :=
  (p_start pd <=? p_end pd) && forallb (fun d => 0 <=? p_rate pd d) (seq 0 nd).

Definition bk_rw (e : env) (st : state) (p : nat) (pd : period) (v V : Z) (stk : nat -> Z) (dur : Z) (d : nat) : Z :=
  if Nat.ltb d (ndenoms e) then bk_rewards (bk_rate (p_rate pd d) v V) dur (stk d) else 0.

Definition bk_acc (e : env) (st : state) (p : nat) (pd : period) (v V : Z) (stk : nat -> Z) : outcome state unit :=
  if negb (Nat.ltb p (npools e)) then Err else
  match periods e p with
  | Some _ => Err
  | None =>
    if negb (period_ok (ndenoms e) pd) || (v <? 0) || (V <? v)
       || existsb (fun d => stk d <? 0) (seq 0 (ndenoms e)) then Err else
    match elapsed_within (match g_time st p with Some x => x | None => now st end) (now st) (p_start pd) (p_end pd) with
    | None => Panic
    | Some dur =>
      let rw := bk_rw e st p pd v V stk dur in
      let inc := fun d => bk_increment (rw d) (tot st p) in
      Ok (mkState (now st)
            (fun p' => if Nat.eqb p' p then Some (Z.min (p_end pd) (now st)) else g_time st p')
            (fun p' d => if Nat.eqb p' p then g_idx st p d + inc d else g_idx st p' d)
            (tot st) (sh st) (has_claim st) (u_idx st) (rew st)
            (fun d => macc st d + (if Nat.ltb d (ndenoms e) then stk d else 0))
            (bal st)
            (fun u d => integral st u d + inc d * sh st u p)
            (due st) (nsync st) (claimed st) (emitted st)
            (fun d => accslack st d + (if 0 <? bk_emitted (rw d) (tot st p) then tot st p else 0))
            (drift st)
            (fun d => overshare st d + inc d * excess e st p)
            (fun d => emitted_x st d + bk_emitted (rw d) (tot st p))) tt
    end
  end.

(** * Claim *)

(* ClaimSwapReward(owner, owner, denom d, multiplier); m = the multiplier's
   factor, None when the denom has no multiplier of that name *)
Definition claim (e : env) (st : state) (u d : nat) (m : option Z) : outcome state unit :=
  match m with
  | None => Err
  | Some m =>
    if negb (Nat.ltb u (nusers e) && Nat.ltb d (ndenoms e)) then Err else
    if claim_end e <? now st then Err else
    if negb (has_claim st u) then Err else
    if negb (forallb (sync_ok e st u) (seq 0 (npools e))) then Panic else
    let st1 := sync_all e st u in
    let amt := rew st1 u d in
    let pay := dec_round_int (dec_mul (dec_of_int amt) m) in
    if pay <? 0 then Panic else
    if pay =? 0 then Err else
    if macc st d <? pay then Err else
    Ok (mkState (now st1) (g_time st1) (g_idx st1) (tot st1) (sh st1) (has_claim st1) (u_idx st1)
          (fun u' d' => if Nat.eqb u' u && Nat.eqb d' d then 0 else rew st1 u' d')
          (fun d' => if Nat.eqb d' d then macc st d - pay else macc st d')
          (fun u' d' => if Nat.eqb u' u && Nat.eqb d' d then bal st u d + pay else bal st u' d')
          (integral st1) (due st1) (nsync st1)
          (fun u' d' => if Nat.eqb u' u && Nat.eqb d' d then claimed st u d + amt else claimed st u' d')
          (emitted st1) (accslack st1) (drift st1) (overshare st1) (emitted_x st1)) tt
  end.

Inductive op :=
| Block (t : Z)                              (* next block: BeginBlocker at time t *)
| Change (u p : nat) (s' T' : Z)             (* source position of u in pool p becomes s', pool total T' *)
| SetTotal (p : nat) (T' : Z)
| Claim (u d : nat) (m : option Z)
| Other (ok : bool)                          (* a source-module message that changes no position (trade), or a refused one *)
| Revalue (u p : nat) (s' : Z)               (* u's shares in pool p become s' without a hook call *)
| BkAcc (p : nat) (pd : period) (v V : Z) (stk : list Z).  (* bkava vault p accumulates under period pd *)

Definition step (e : env) (st : state) (o : op) : outcome state unit :=
  match o with
  | Block t => block e st t
  | Change u p s' T' => change e st u p s' T'
  | SetTotal p T' => set_total e st p T'
  | Claim u d m => claim e st u d m
  | Other ok => if ok then Ok st tt else Err
  | Revalue u p s' => revalue e st u p s'
  | BkAcc p pd v V stk => bk_acc e st p pd v V (fun d => nth d stk 0)
  end.

Definition step' (e : env) (st : state) (o : op) : state :=
  match step e st o with Ok s' _ => s' | _ => st end.

Definition run (e : env) (st : state) (ops : list op) : state := fold_left (step' e) ops st.

Definition init (t0 : Z) (m0 : nat -> Z) (gt0 : nat -> option Z) (tot0 : nat -> Z) : state :=
  mkState t0 gt0 (fun _ _ => 0) tot0 (fun _ _ => 0) (fun _ => false)
    (fun _ _ _ => 0) (fun _ _ => 0) m0 (fun _ _ => 0)
    (fun _ _ => 0) (fun _ _ => 0) (fun _ _ => 0) (fun _ _ => 0) (fun _ => 0) (fun _ => 0)
    (fun _ _ => 0) (fun _ => 0) (fun _ => 0).

(* unsynchronised entitlement of u in reward denom d, exact (units 10^36) *)
Definition phi (e : env) (st : state) (u d : nat) : Z :=
  sumN (npools e) (fun p => (g_idx st p d - u_idx st u p d) * sh st u p).


(** * Correspondence-check support *)

Inductive rclass := ROk | RErr | RPanic.
Definition rclass_eqb (a b : rclass) : bool :=
  match a, b with ROk, ROk | RErr, RErr | RPanic, RPanic => true | _, _ => false end.
Definition class_of {S O} (r : outcome S O) : rclass :=
  match r with Ok _ _ => ROk | Err => RErr | Panic => RPanic end.

Definition b2z (b : bool) : Z := if b then 1 else 0.
Definition optz (o : option Z) : Z := match o with Some x => x | None => -1 end.

Definition synced (e : env) (st : state) (u d : nat) : Z :=
  if has_claim st u then pending e st u d else 0.

(* the flat projection compared with the implementation, in this order:
   now; per pool: accrual time (-1 = none), total, global index per denom;
   per user: claim exists, per pool (shares, user index per denom -- shown as 0
             while the user has no shares in the pool: the index is then irrelevant,
             every re-creation of the position overwrites it, and the sources differ in
             whether they keep, refresh or delete it),
             stored reward per denom, synchronised reward per denom, bank balance per denom;
   module account balance per denom *)
Definition project (e : env) (st : state) : list Z :=
  let ds := seq 0 (ndenoms e) in
  let ps := seq 0 (npools e) in
  [now st]
  ++ flat_map (fun p => [optz (g_time st p); tot st p] ++ map (g_idx st p) ds) ps
  ++ flat_map (fun u =>
        [b2z (has_claim st u)]
        ++ flat_map (fun p => sh st u p :: map (fun d => if sh st u p =? 0 then 0 else u_idx st u p d) ds) ps
        ++ map (rew st u) ds
        ++ map (synced e st u) ds
        ++ map (bal st u) ds) (seq 0 (nusers e))
  ++ map (macc st) ds.

Fixpoint list_eqb {A} (eqb : A -> A -> bool) (l1 l2 : list A) : bool :=
  match l1, l2 with
  | [], [] => true
  | x :: r1, y :: r2 => eqb x y && list_eqb eqb r1 r2
  | _, _ => false
  end.

Fixpoint set_nth (l : list Z) (i : nat) (v : Z) : list Z :=
  match l, i with
  | [], _ => []
  | _ :: r, O => v :: r
  | x :: r, S k => x :: set_nth r k v
  end.

(* an observation: result class and the slots of the implementation's flat
   projection that changed, with their new values *)
Record obs := mkObs { o_class : rclass; o_changes : list (nat * Z) }.

Definition apply_obs (shadow : list Z) (o : obs) : list Z :=
  fold_left (fun l c => set_nth l (fst c) (snd c)) (o_changes o) shadow.

(* boolean invariant evaluated on every model state of the correspondence run:
   index coherence, signs, the exactness identity  due + phi = integral + drift,
   the rounding bound on credited rewards, total = sum of shares for the
   exact-total sources, and the emission bound with its explicit slack *)
Definition inv_b (e : env) (st : state) : bool :=
  let us := seq 0 (nusers e) in
  let ps := seq 0 (npools e) in
  let ds := seq 0 (ndenoms e) in
  forallb (fun u =>
    forallb (fun p => (0 <=? sh st u p)
                      && (if has_claim st u then true else sh st u p =? 0)
                      && forallb (fun d => (0 <=? u_idx st u p d) && (u_idx st u p d <=? g_idx st p d)) ds) ps
    && forallb (fun d =>
         (0 <=? rew st u d)
         && (due st u d + phi e st u d =? integral st u d + drift st u d)
         && (2 * Z.abs ((rew st u d + claimed st u d) * PREC * PREC - due st u d)
               <=? nsync st u d * (PREC * PREC + PREC))) ds) us
  && forallb (fun p => if exact_total e then shares_sum e st p =? tot st p else true) ps
  && forallb (fun d => (0 <=? macc st d) && (0 <=? overshare st d)
        && (2 * sumN (nusers e) (fun u => integral st u d)
              <=? 2 * emitted st d * PREC * PREC + 2 * emitted_x st d * PREC + accslack st d
                  + 2 * overshare st d)) ds.

(* The state's fields are closures over the previous state; evaluating them
   after n steps walks n closures.  The checker therefore re-tabulates the
   state after every step (same values on all in-range indexes, which is all
   the model ever reads; out-of-range indexes read as 0 / None / false). *)
Definition tab1 {A} (dflt : A) (n : nat) (f : nat -> A) : nat -> A :=
  let l := map f (seq 0 n) in fun i => nth i l dflt.
Definition tab2 (n m : nat) (f : nat -> nat -> Z) : nat -> nat -> Z :=
  let l := map (fun i => map (f i) (seq 0 m)) (seq 0 n) in fun i j => nth j (nth i l []) 0.
Definition tab3 (n m k : nat) (f : nat -> nat -> nat -> Z) : nat -> nat -> nat -> Z :=
  let l := map (fun i => map (fun j => map (f i j) (seq 0 k)) (seq 0 m)) (seq 0 n) in
  fun i j x => nth x (nth j (nth i l []) []) 0.

Definition retab (e : env) (st : state) : state :=
  let nu := nusers e in let np := npools e in let nd := ndenoms e in
  mkState (now st) (tab1 None np (g_time st)) (tab2 np nd (g_idx st)) (tab1 0 np (tot st))
    (tab2 nu np (sh st)) (tab1 false nu (has_claim st)) (tab3 nu np nd (u_idx st))
    (tab2 nu nd (rew st)) (tab1 0 nd (macc st)) (tab2 nu nd (bal st))
    (tab2 nu nd (integral st)) (tab2 nu nd (due st)) (tab2 nu nd (nsync st)) (tab2 nu nd (claimed st))
    (tab1 0 nd (emitted st)) (tab1 0 nd (accslack st))
    (tab2 nu nd (drift st)) (tab1 0 nd (overshare st)) (tab1 0 nd (emitted_x st)).

(** * Parameter changes: the reward periods and the claim end are part of the
       module's params; governance / a committee replaces them between blocks *)

Definition nthZ (l : list Z) (i : nat) : Z := nth i l 0.

Definition mk_period (start stop : Z) (rates : list Z) : period := mkPeriod start stop (nthZ rates).

(* a period as the params carry it: start, end, rates per reward denom *)
Definition raw_period : Type := (Z * Z * list Z)%type.

(* MultiRewardPeriod.Validate / RewardPeriod.Validate: start <= end, valid (non-negative) coins *)
Definition raw_ok (r : raw_period) : bool :=
  let '(a, b, rates) := r in (a <=? b) && forallb (fun x => 0 <=? x) rates.

Definition of_raw (r : raw_period) : period := let '(a, b, rates) := r in mk_period a b rates.

Definition with_params (e : env) (pds : list (option raw_period)) (cend : Z) : env :=
  mkEnv (nusers e) (npools e) (ndenoms e)
        (fun p => match nth p pds None with Some r => Some (of_raw r) | None => None end)
        cend (exact_total e).

Record xstate := mkX { x_env : env; x_st : state }.

Inductive xop :=
| O (o : op)
| SetParams (pds : list (option raw_period)) (cend : Z).

Definition xstep (xs : xstate) (o : xop) : outcome xstate unit :=
  match o with
  | O o => match step (x_env xs) (x_st xs) o with
           | Ok s' _ => Ok (mkX (x_env xs) s') tt
           | Err => Err
           | Panic => Panic
           end
  | SetParams pds cend =>
      if forallb (fun r => match r with Some r => raw_ok r | None => true end) pds
      then Ok (mkX (with_params (x_env xs) pds cend) (x_st xs)) tt
      else Err
  end.

Definition xstep' (xs : xstate) (o : xop) : xstate :=
  match xstep xs o with Ok s' _ => s' | _ => xs end.

Definition xrun (xs : xstate) (ops : list xop) : xstate := fold_left xstep' ops xs.

(* one step of the implementation can be several operations of the machine (a
   hard message synchronises every denom of the deposit; a block first moves the
   totals by accrued interest, a cdp block first synchronises the riskiest cdps; an
   earn block accumulates every bkava vault): the operations run in sequence, all or
   nothing; the state is re-tabulated after every operation *)
Fixpoint xstep_list (xs : xstate) (os : list xop) : outcome xstate unit :=
  match os with
  | [] => Ok xs tt
  | o :: r =>
      match xstep xs o with
      | Ok xs1 _ => xstep_list (mkX (x_env xs1) (retab (x_env xs1) (x_st xs1))) r
      | Err => Err
      | Panic => Panic
      end
  end.

Fixpoint first_mismatch (xs : xstate) (shadow : list Z) (h : list (list xop * obs)) (i : nat) : option nat :=
  match h with
  | [] => None
  | (os, ob) :: r =>
      let res := xstep_list xs os in
      let xs1 := match res with Ok s1 _ => s1 | _ => xs end in
      let e := x_env xs1 in
      let s' := retab e (x_st xs1) in
      let shadow' := apply_obs shadow ob in
      if rclass_eqb (class_of res) (o_class ob)
         && list_eqb Z.eqb (project e s') shadow'
         && inv_b e s'
      then first_mismatch (mkX e s') shadow' r (S i)
      else Some i
  end.

(* list-based construction of environments from harness data *)

Definition mk_env (nu np nd : nat) (pds : list (option period)) (cend : Z) (exact : bool) : env :=
  mkEnv nu np nd (fun p => nth p pds None) cend exact.

Record history := mkHist {
  h_env : env;
  h_t0 : Z;
  h_macc : list Z;
  h_gtime : list Z;                (* accrual times at the start (the test app runs one begin block at genesis), -1 = none *)
  h_tot : list Z;                  (* source totals at the start (delegator: the genesis validator's stake) *)
  h_init : list Z;                 (* the implementation's flat projection before the first operation *)
  h_steps : list (list xop * obs)
}.

Definition check_history (h : history) : option nat :=
  let s0 := init (h_t0 h) (nthZ (h_macc h))
                 (fun p => let x := nth p (h_gtime h) (-1) in if x <? 0 then None else Some x)
                 (nthZ (h_tot h)) in
  if inv_b (h_env h) s0 && list_eqb Z.eqb (project (h_env h) s0) (h_init h)
  then first_mismatch (mkX (h_env h) s0) (h_init h) (h_steps h) 0
  else Some 0%nat.

Fixpoint mismatches_from (i : nat) (hs : list history) : list (nat * nat) :=
  match hs with
  | [] => []
  | h :: r =>
      match check_history h with
      | None => mismatches_from (S i) r
      | Some k => (i, k) :: mismatches_from (S i) r
      end
  end.
Definition mismatches := mismatches_from 0.
