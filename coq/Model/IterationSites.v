(* C01: the places in Kava's own state-machine code (non-test, non-generated
   files of x/ and app/) that consult something which is not a function of
   state and block, as found by tools/sites on the current source, each with
   the class that decides which lemma of Proofs/Iteration.v covers it.
   The check compares this table with the enumerator's output on every run.

   classes:
   1  range over a map whose body is a commutative-associative accumulation
      (Dec/Int addition, andb / orb, insertion into another map or set)      -> fold_perm_invariant
   2  collect the entries of a map (or a slice of distinct keys) and sort them
      with a strict total order                                              -> sorted_perm_unique
   3  sort.Slice with a total preorder whose ties are equal values           -> sorted_perm_unique (antisymmetric)
   4  query-only / API-server code (outside app hash, tx results, block events)
   5  test helper (app/test_common.go)
   6  time.Now used only as an argument of a telemetry call
   7  client-side randomness (not reachable from keepers / abci / ante)
   8  unstable sort with observable ties, deterministic for a fixed Go toolchain
      (assumption on the toolchain, not proved; C06's theorems hold for every tie-breaking)
   9  anything else: NOT covered (must not occur)
   10 field of a struct that lives as long as the process and is reachable from block
      execution (App, keepers, ante decorators, msg/query servers, hooks, handlers, AppModule):
      wiring fixed at construction (store keys, codecs, param subspaces, references to other
      keepers, routers, hooks, authority/name strings, permission tables copied from app.go) —
      never written while blocks execute; an added field (e.g. an in-memory cache that is not
      rolled back with a failed transaction and is empty after a restart) is a NEW ROW
   11 package-level map: a lookup table filled by its initialiser and only read afterwards
   12 time.Unix(...): the value carries the process-local zone; at every listed site it is
      either canonicalised to UTC (tmtime.Canonical / .UTC()) or only compared / converted
      back with .Unix(), so no zone-dependent bytes reach a store, an event or a result
   13 time.Time.MarshalBinary of a store value: the encoding contains the zone offset; at every
      listed site the argument is the header time (UTC, canonical) or a value derived from it
      by Add — never a time built with time.Unix / time.Now / time.Date(…, time.Local)
      (classes 12-13 are exercised by the C01 driver's child process running in UTC+05:45) *)
From Coq Require Import List String.
Import ListNotations.
Open Scope string_scope.

Definition sites : list (string * nat) := [
  ("x/hard/keeper/liquidation.go|removeDuplicates|sort.Strings|res", 2%nat);
  ("x/hard/types/liquidation.go|ValuationMap.GetSortedKeys|sort.Strings|keys", 2%nat);
  ("x/incentive/keeper/rewards_earn.go|Keeper.accumulateEarnBkavaRewards|sort.Strings|sortedBkavaVaultsDenoms", 2%nat);
  ("app/app.go|*App.ModuleAccountAddrs|maprange|mAccPerms", 1%nat);
  ("app/app.go|*App.loadBlockedMaccAddrs|maprange|modAccAddrs", 1%nat);
  ("app/app.go|GetMaccPerms|maprange|mAccPerms", 1%nat);
  ("app/app.go|RegisterAPIRouteRewrites|maprange|routeMap", 4%nat);
  ("app/tally_handler.go|TallyHandler.Tally|maprange|currValidators", 1%nat);
  ("app/tally_handler.go|bkavaByDenom.toCoins|maprange|bkavaMap", 2%nat);
  ("app/test_common.go|GeneratePrivKeyAddressPairs|rand.NewSource|", 5%nat);
  ("app/test_common.go|GeneratePrivKeyAddressPairs|rand.New|", 5%nat);
  ("app/test_common.go|RandomAddress|rand.Read|", 5%nat);
  ("app/test_common.go|TestApp.InitializeFromGenesisStatesWithTimeAndChainIDAndHeight|maprange|state", 5%nat);
  ("x/auction/abci.go|BeginBlocker|time.Now||telemetry", 6%nat);
  ("x/auction/keeper/math.go|splitIntIntoWeightedBuckets|sort.Slice|quotients", 8%nat);
  ("x/bep3/abci.go|BeginBlocker|time.Now||telemetry", 6%nat);
  ("x/bep3/types/hash.go|GenerateSecureRandomNumber|rand.Read|", 7%nat);
  ("x/cdp/abci.go|BeginBlocker|time.Now||telemetry", 6%nat);
  ("x/cdp/keeper/cdp.go|Keeper.IndexCdpByOwner|sort.Slice|cdpIDs", 2%nat);
  ("x/cdp/keeper/grpc_query.go|QueryServer.TotalCollateral|maprange|denomCollateralTypes", 4%nat);
  ("x/cdp/keeper/grpc_query.go|QueryServer.TotalCollateral|maprange|denomCollateralTypes#2", 4%nat);
  ("x/cdp/keeper/grpc_query.go|QueryServer.TotalCollateral|sort.Slice|collateralTypes", 4%nat);
  ("x/cdp/keeper/grpc_query.go|QueryServer.TotalCollateral|sort.Slice|totalCollaterals", 4%nat);
  ("x/committee/abci.go|BeginBlocker|time.Now||telemetry", 6%nat);
  ("x/committee/types/permissions.go|validateParamChangesAreAllowed|maprange|current", 1%nat);
  ("x/community/abci.go|BeginBlocker|time.Now||telemetry", 6%nat);
  ("x/earn/keeper/grpc_query.go|queryServer.Vaults|maprange|visitedMap", 4%nat);
  ("x/earn/keeper/invariants.go|VaultSharesInvariant|maprange|totalShares", 1%nat);
  ("x/earn/types/share.go|VaultShares.Sort|sort.Sort|shares", 2%nat);
  ("x/hard/abci.go|BeginBlocker|time.Now||telemetry", 6%nat);
  ("x/hard/keeper/grpc_query.go|queryServer.InterestFactors|maprange|interestFactorMap", 4%nat);
  ("x/hard/keeper/liquidation.go|removeDuplicates|maprange|check", 2%nat);
  ("x/hard/types/liquidation.go|ValuationMap.GetSortedKeys|maprange|m.Usd", 2%nat);
  ("x/hard/types/liquidation.go|ValuationMap.Sum|maprange|m.Usd", 1%nat);
  ("x/incentive/abci.go|BeginBlocker|time.Now||telemetry", 6%nat);
  ("x/incentive/keeper/rewards_earn.go|Keeper.accumulateEarnBkavaRewards|maprange|bkavaVaultsDenoms", 2%nat);
  ("x/incentive/types/multipliers.go|NewSelectionsFromMap|maprange|selectionMap", 2%nat);
  ("x/incentive/types/multipliers.go|NewSelectionsFromMap|sort.Slice|selections", 2%nat);
  ("x/issuance/abci.go|BeginBlocker|time.Now||telemetry", 6%nat);
  ("x/kavadist/abci.go|BeginBlocker|time.Now||telemetry", 6%nat);
  ("x/pricefeed/abci.go|EndBlocker|time.Now||telemetry", 6%nat);
  ("x/pricefeed/keeper/keeper.go|Keeper.CalculateMedianPrice|sort.Slice|prices", 3%nat);
  ("x/swap/keeper/invariants.go|PoolSharesInvariant|maprange|totalShares", 1%nat);
  ("x/swap/types/genesis.go|GenesisState.Validate|maprange|totalShares", 1%nat);
  ("app/ante/authorized.go|AuthenticatedMempoolDecorator|field|addressFetchers []AddressFetcher", 10%nat);
  ("app/ante/authz.go|AuthzLimiterDecorator|field|disabledMsgTypes []string", 10%nat);
  ("app/ante/vesting.go|VestingAccountDecorator|field|disabledMsgTypeUrls []string", 10%nat);
  ("app/app.go|<package>|pkgvar|ModuleBasics module.BasicManager", 11%nat);
  ("app/app.go|<package>|pkgvar|mAccPerms map[string][]string", 11%nat);
  ("app/app.go|App|field|(embedded) *baseapp.BaseApp", 10%nat);
  ("app/app.go|App|field|ScopedIBCKeeper capabilitykeeper.ScopedKeeper", 10%nat);
  ("app/app.go|App|field|ScopedTransferKeeper capabilitykeeper.ScopedKeeper", 10%nat);
  ("app/app.go|App|field|accountKeeper authkeeper.AccountKeeper", 10%nat);
  ("app/app.go|App|field|appCodec codec.Codec", 10%nat);
  ("app/app.go|App|field|auctionKeeper auctionkeeper.Keeper", 10%nat);
  ("app/app.go|App|field|authzKeeper authzkeeper.Keeper", 10%nat);
  ("app/app.go|App|field|bankKeeper bankkeeper.Keeper", 10%nat);
  ("app/app.go|App|field|bep3Keeper bep3keeper.Keeper", 10%nat);
  ("app/app.go|App|field|capabilityKeeper *capabilitykeeper.Keeper", 10%nat);
  ("app/app.go|App|field|cdpKeeper cdpkeeper.Keeper", 10%nat);
  ("app/app.go|App|field|committeeKeeper committeekeeper.Keeper", 10%nat);
  ("app/app.go|App|field|communityKeeper communitykeeper.Keeper", 10%nat);
  ("app/app.go|App|field|configurator module.Configurator", 10%nat);
  ("app/app.go|App|field|consensusParamsKeeper consensusparamkeeper.Keeper", 10%nat);
  ("app/app.go|App|field|crisisKeeper crisiskeeper.Keeper", 10%nat);
  ("app/app.go|App|field|distrKeeper distrkeeper.Keeper", 10%nat);
  ("app/app.go|App|field|earnKeeper earnkeeper.Keeper", 10%nat);
  ("app/app.go|App|field|evidenceKeeper evidencekeeper.Keeper", 10%nat);
  ("app/app.go|App|field|evmKeeper *evmkeeper.Keeper", 10%nat);
  ("app/app.go|App|field|evmutilKeeper evmutilkeeper.Keeper", 10%nat);
  ("app/app.go|App|field|feeMarketKeeper feemarketkeeper.Keeper", 10%nat);
  ("app/app.go|App|field|govKeeper govkeeper.Keeper", 10%nat);
  ("app/app.go|App|field|hardKeeper hardkeeper.Keeper", 10%nat);
  ("app/app.go|App|field|ibcKeeper *ibckeeper.Keeper", 10%nat);
  ("app/app.go|App|field|incentiveKeeper incentivekeeper.Keeper", 10%nat);
  ("app/app.go|App|field|interfaceRegistry types.InterfaceRegistry", 10%nat);
  ("app/app.go|App|field|issuanceKeeper issuancekeeper.Keeper", 10%nat);
  ("app/app.go|App|field|kavadistKeeper kavadistkeeper.Keeper", 10%nat);
  ("app/app.go|App|field|keys map[string]*storetypes.KVStoreKey", 10%nat);
  ("app/app.go|App|field|legacyAmino *codec.LegacyAmino", 10%nat);
  ("app/app.go|App|field|liquidKeeper liquidkeeper.Keeper", 10%nat);
  ("app/app.go|App|field|memKeys map[string]*storetypes.MemoryStoreKey", 10%nat);
  ("app/app.go|App|field|mintKeeper mintkeeper.Keeper", 10%nat);
  ("app/app.go|App|field|mm *module.Manager", 10%nat);
  ("app/app.go|App|field|packetForwardKeeper *packetforwardkeeper.Keeper", 10%nat);
  ("app/app.go|App|field|paramsKeeper paramskeeper.Keeper", 10%nat);
  ("app/app.go|App|field|precisebankKeeper precisebankkeeper.Keeper", 10%nat);
  ("app/app.go|App|field|pricefeedKeeper pricefeedkeeper.Keeper", 10%nat);
  ("app/app.go|App|field|routerKeeper routerkeeper.Keeper", 10%nat);
  ("app/app.go|App|field|savingsKeeper savingskeeper.Keeper", 10%nat);
  ("app/app.go|App|field|slashingKeeper slashingkeeper.Keeper", 10%nat);
  ("app/app.go|App|field|sm *module.SimulationManager", 10%nat);
  ("app/app.go|App|field|stakingKeeper *stakingkeeper.Keeper", 10%nat);
  ("app/app.go|App|field|swapKeeper swapkeeper.Keeper", 10%nat);
  ("app/app.go|App|field|tkeys map[string]*storetypes.TransientStoreKey", 10%nat);
  ("app/app.go|App|field|transferKeeper ibctransferkeeper.Keeper", 10%nat);
  ("app/app.go|App|field|upgradeKeeper upgradekeeper.Keeper", 10%nat);
  ("app/tally_handler.go|TallyHandler|field|bk bankkeeper.Keeper", 10%nat);
  ("app/tally_handler.go|TallyHandler|field|ek earnkeeper.Keeper", 10%nat);
  ("app/tally_handler.go|TallyHandler|field|gk govkeeper.Keeper", 10%nat);
  ("app/tally_handler.go|TallyHandler|field|lk liquidkeeper.Keeper", 10%nat);
  ("app/tally_handler.go|TallyHandler|field|stk stakingkeeper.Keeper", 10%nat);
  ("app/tally_handler.go|TallyHandler|field|svk savingskeeper.Keeper", 10%nat);
  ("app/test_common.go|genesisStateWithValSet|time.Unix|time.Unix(0, 0)", 5%nat);
  ("x/auction/keeper/grpc_query.go|queryServer|field|keeper Keeper", 10%nat);
  ("x/auction/keeper/keeper.go|Keeper|field|accountKeeper types.AccountKeeper", 10%nat);
  ("x/auction/keeper/keeper.go|Keeper|field|bankKeeper types.BankKeeper", 10%nat);
  ("x/auction/keeper/keeper.go|Keeper|field|cdc codec.Codec", 10%nat);
  ("x/auction/keeper/keeper.go|Keeper|field|paramSubspace paramtypes.Subspace", 10%nat);
  ("x/auction/keeper/keeper.go|Keeper|field|storeKey storetypes.StoreKey", 10%nat);
  ("x/auction/keeper/msg_server.go|msgServer|field|keeper Keeper", 10%nat);
  ("x/auction/module.go|AppModule|field|(embedded) AppModuleBasic", 10%nat);
  ("x/auction/module.go|AppModule|field|accountKeeper types.AccountKeeper", 10%nat);
  ("x/auction/module.go|AppModule|field|bankKeeper types.BankKeeper", 10%nat);
  ("x/auction/module.go|AppModule|field|keeper keeper.Keeper", 10%nat);
  ("x/bep3/keeper/grpc_query.go|queryServer|field|keeper Keeper", 10%nat);
  ("x/bep3/keeper/keeper.go|Keeper.SetPreviousBlockTime|time.Time.MarshalBinary|blockTime.MarshalBinary()", 13%nat);
  ("x/bep3/keeper/keeper.go|Keeper|field|Maccs map[string]bool", 10%nat);
  ("x/bep3/keeper/keeper.go|Keeper|field|accountKeeper types.AccountKeeper", 10%nat);
  ("x/bep3/keeper/keeper.go|Keeper|field|bankKeeper types.BankKeeper", 10%nat);
  ("x/bep3/keeper/keeper.go|Keeper|field|cdc codec.Codec", 10%nat);
  ("x/bep3/keeper/keeper.go|Keeper|field|key storetypes.StoreKey", 10%nat);
  ("x/bep3/keeper/keeper.go|Keeper|field|paramSubspace paramtypes.Subspace", 10%nat);
  ("x/bep3/keeper/msg_server.go|msgServer|field|keeper Keeper", 10%nat);
  ("x/bep3/keeper/swap.go|Keeper.CreateAtomicSwap|time.Unix|time.Unix(timestamp, 0)", 12%nat);
  ("x/bep3/module.go|AppModule|field|(embedded) AppModuleBasic", 10%nat);
  ("x/bep3/module.go|AppModule|field|accountKeeper types.AccountKeeper", 10%nat);
  ("x/bep3/module.go|AppModule|field|bankKeeper types.BankKeeper", 10%nat);
  ("x/bep3/module.go|AppModule|field|keeper keeper.Keeper", 10%nat);
  ("x/bep3/types/params.go|<file>|time.Unix|time.Unix(1, 0)", 12%nat);
  ("x/cdp/keeper/grpc_query.go|QueryServer|field|keeper Keeper", 10%nat);
  ("x/cdp/keeper/keeper.go|Keeper.SetPreviousAccrualTime|time.Time.MarshalBinary|previousAccrualTime.MarshalBinary()", 13%nat);
  ("x/cdp/keeper/keeper.go|Keeper|field|accountKeeper types.AccountKeeper", 10%nat);
  ("x/cdp/keeper/keeper.go|Keeper|field|auctionKeeper types.AuctionKeeper", 10%nat);
  ("x/cdp/keeper/keeper.go|Keeper|field|bankKeeper types.BankKeeper", 10%nat);
  ("x/cdp/keeper/keeper.go|Keeper|field|cdc codec.Codec", 10%nat);
  ("x/cdp/keeper/keeper.go|Keeper|field|hooks types.CDPHooks", 10%nat);
  ("x/cdp/keeper/keeper.go|Keeper|field|key storetypes.StoreKey", 10%nat);
  ("x/cdp/keeper/keeper.go|Keeper|field|maccPerms map[string][]string", 10%nat);
  ("x/cdp/keeper/keeper.go|Keeper|field|paramSubspace paramtypes.Subspace", 10%nat);
  ("x/cdp/keeper/keeper.go|Keeper|field|pricefeedKeeper types.PricefeedKeeper", 10%nat);
  ("x/cdp/keeper/msg_server.go|msgServer|field|keeper Keeper", 10%nat);
  ("x/cdp/module.go|AppModule|field|(embedded) AppModuleBasic", 10%nat);
  ("x/cdp/module.go|AppModule|field|accountKeeper types.AccountKeeper", 10%nat);
  ("x/cdp/module.go|AppModule|field|bankKeeper types.BankKeeper", 10%nat);
  ("x/cdp/module.go|AppModule|field|keeper keeper.Keeper", 10%nat);
  ("x/cdp/module.go|AppModule|field|pricefeedKeeper types.PricefeedKeeper", 10%nat);
  ("x/committee/keeper/grpc_query.go|queryServer|field|keeper Keeper", 10%nat);
  ("x/committee/keeper/keeper.go|Keeper|field|accountKeeper types.AccountKeeper", 10%nat);
  ("x/committee/keeper/keeper.go|Keeper|field|bankKeeper types.BankKeeper", 10%nat);
  ("x/committee/keeper/keeper.go|Keeper|field|cdc codec.Codec", 10%nat);
  ("x/committee/keeper/keeper.go|Keeper|field|paramKeeper types.ParamKeeper", 10%nat);
  ("x/committee/keeper/keeper.go|Keeper|field|router govv1beta1.Router", 10%nat);
  ("x/committee/keeper/keeper.go|Keeper|field|storeKey storetypes.StoreKey", 10%nat);
  ("x/committee/keeper/msg_server.go|msgServer|field|keeper Keeper", 10%nat);
  ("x/committee/module.go|AppModule|field|(embedded) AppModuleBasic", 10%nat);
  ("x/committee/module.go|AppModule|field|accountKeeper types.AccountKeeper", 10%nat);
  ("x/committee/module.go|AppModule|field|keeper keeper.Keeper", 10%nat);
  ("x/committee/types/proposal.go|<package>|pkgvar|toString map[types.ProposalOutcome]string", 11%nat);
  ("x/community/keeper/grpc_query.go|queryServer|field|keeper Keeper", 10%nat);
  ("x/community/keeper/keeper.go|Keeper|field|accountKeeper types.AccountKeeper", 10%nat);
  ("x/community/keeper/keeper.go|Keeper|field|authority sdk.AccAddress", 10%nat);
  ("x/community/keeper/keeper.go|Keeper|field|bankKeeper types.BankKeeper", 10%nat);
  ("x/community/keeper/keeper.go|Keeper|field|cdc codec.Codec", 10%nat);
  ("x/community/keeper/keeper.go|Keeper|field|cdpKeeper types.CdpKeeper", 10%nat);
  ("x/community/keeper/keeper.go|Keeper|field|distrKeeper types.DistributionKeeper", 10%nat);
  ("x/community/keeper/keeper.go|Keeper|field|hardKeeper types.HardKeeper", 10%nat);
  ("x/community/keeper/keeper.go|Keeper|field|kavadistKeeper types.KavadistKeeper", 10%nat);
  ("x/community/keeper/keeper.go|Keeper|field|key storetypes.StoreKey", 10%nat);
  ("x/community/keeper/keeper.go|Keeper|field|legacyCommunityPoolAddress sdk.AccAddress", 10%nat);
  ("x/community/keeper/keeper.go|Keeper|field|mintKeeper types.MintKeeper", 10%nat);
  ("x/community/keeper/keeper.go|Keeper|field|moduleAddress sdk.AccAddress", 10%nat);
  ("x/community/keeper/keeper.go|Keeper|field|stakingKeeper types.StakingKeeper", 10%nat);
  ("x/community/keeper/msg_server.go|msgServer|field|keeper Keeper", 10%nat);
  ("x/community/module.go|AppModule|field|(embedded) AppModuleBasic", 10%nat);
  ("x/community/module.go|AppModule|field|accountKeeper types.AccountKeeper", 10%nat);
  ("x/community/module.go|AppModule|field|keeper keeper.Keeper", 10%nat);
  ("x/earn/keeper/grpc_query.go|queryServer|field|keeper Keeper", 10%nat);
  ("x/earn/keeper/keeper.go|Keeper|field|accountKeeper types.AccountKeeper", 10%nat);
  ("x/earn/keeper/keeper.go|Keeper|field|bankKeeper types.BankKeeper", 10%nat);
  ("x/earn/keeper/keeper.go|Keeper|field|cdc codec.Codec", 10%nat);
  ("x/earn/keeper/keeper.go|Keeper|field|distKeeper types.DistributionKeeper", 10%nat);
  ("x/earn/keeper/keeper.go|Keeper|field|hardKeeper types.HardKeeper", 10%nat);
  ("x/earn/keeper/keeper.go|Keeper|field|hooks types.EarnHooks", 10%nat);
  ("x/earn/keeper/keeper.go|Keeper|field|key storetypes.StoreKey", 10%nat);
  ("x/earn/keeper/keeper.go|Keeper|field|liquidKeeper types.LiquidKeeper", 10%nat);
  ("x/earn/keeper/keeper.go|Keeper|field|paramSubspace paramtypes.Subspace", 10%nat);
  ("x/earn/keeper/keeper.go|Keeper|field|savingsKeeper types.SavingsKeeper", 10%nat);
  ("x/earn/keeper/msg_server.go|msgServer|field|keeper Keeper", 10%nat);
  ("x/earn/module.go|AppModule|field|(embedded) AppModuleBasic", 10%nat);
  ("x/earn/module.go|AppModule|field|accountKeeper authkeeper.AccountKeeper", 10%nat);
  ("x/earn/module.go|AppModule|field|bankKeeper types.BankKeeper", 10%nat);
  ("x/earn/module.go|AppModule|field|keeper keeper.Keeper", 10%nat);
  ("x/evmutil/keeper/conversion_evm_native_bep3.go|<package>|pkgvar|bep3Denoms map[string]bool", 11%nat);
  ("x/evmutil/keeper/grpc_query.go|queryServer|field|keeper Keeper", 10%nat);
  ("x/evmutil/keeper/keeper.go|Keeper|field|accountKeeper types.AccountKeeper", 10%nat);
  ("x/evmutil/keeper/keeper.go|Keeper|field|bankKeeper types.BankKeeper", 10%nat);
  ("x/evmutil/keeper/keeper.go|Keeper|field|cdc codec.Codec", 10%nat);
  ("x/evmutil/keeper/keeper.go|Keeper|field|evmKeeper types.EvmKeeper", 10%nat);
  ("x/evmutil/keeper/keeper.go|Keeper|field|paramSubspace paramtypes.Subspace", 10%nat);
  ("x/evmutil/keeper/keeper.go|Keeper|field|storeKey storetypes.StoreKey", 10%nat);
  ("x/evmutil/keeper/msg_server.go|msgServer|field|keeper Keeper", 10%nat);
  ("x/evmutil/module.go|AppModule|field|(embedded) AppModuleBasic", 10%nat);
  ("x/evmutil/module.go|AppModule|field|accountKeeer types.AccountKeeper", 10%nat);
  ("x/evmutil/module.go|AppModule|field|bankKeeper types.BankKeeper", 10%nat);
  ("x/evmutil/module.go|AppModule|field|keeper keeper.Keeper", 10%nat);
  ("x/hard/keeper/grpc_query.go|queryServer|field|accountKeeper types.AccountKeeper", 10%nat);
  ("x/hard/keeper/grpc_query.go|queryServer|field|bankKeeper types.BankKeeper", 10%nat);
  ("x/hard/keeper/grpc_query.go|queryServer|field|keeper Keeper", 10%nat);
  ("x/hard/keeper/keeper.go|Keeper.SetPreviousAccrualTime|time.Time.MarshalBinary|previousAccrualTime.MarshalBinary()", 13%nat);
  ("x/hard/keeper/keeper.go|Keeper|field|accountKeeper types.AccountKeeper", 10%nat);
  ("x/hard/keeper/keeper.go|Keeper|field|auctionKeeper types.AuctionKeeper", 10%nat);
  ("x/hard/keeper/keeper.go|Keeper|field|bankKeeper types.BankKeeper", 10%nat);
  ("x/hard/keeper/keeper.go|Keeper|field|cdc codec.Codec", 10%nat);
  ("x/hard/keeper/keeper.go|Keeper|field|hooks types.HARDHooks", 10%nat);
  ("x/hard/keeper/keeper.go|Keeper|field|key storetypes.StoreKey", 10%nat);
  ("x/hard/keeper/keeper.go|Keeper|field|paramSubspace paramtypes.Subspace", 10%nat);
  ("x/hard/keeper/keeper.go|Keeper|field|pricefeedKeeper types.PricefeedKeeper", 10%nat);
  ("x/hard/keeper/msg_server.go|msgServer|field|keeper Keeper", 10%nat);
  ("x/hard/module.go|AppModule|field|(embedded) AppModuleBasic", 10%nat);
  ("x/hard/module.go|AppModule|field|accountKeeper types.AccountKeeper", 10%nat);
  ("x/hard/module.go|AppModule|field|bankKeeper types.BankKeeper", 10%nat);
  ("x/hard/module.go|AppModule|field|keeper keeper.Keeper", 10%nat);
  ("x/hard/module.go|AppModule|field|pricefeedKeeper types.PricefeedKeeper", 10%nat);
  ("x/incentive/keeper/grpc_query.go|queryServer|field|keeper Keeper", 10%nat);
  ("x/incentive/keeper/hooks.go|Hooks|field|k Keeper", 10%nat);
  ("x/incentive/keeper/keeper.go|Keeper.SetEarnRewardAccrualTime|time.Time.MarshalBinary|blockTime.MarshalBinary()", 13%nat);
  ("x/incentive/keeper/keeper.go|Keeper.SetPreviousDelegatorRewardAccrualTime|time.Time.MarshalBinary|blockTime.MarshalBinary()", 13%nat);
  ("x/incentive/keeper/keeper.go|Keeper.SetPreviousHardBorrowRewardAccrualTime|time.Time.MarshalBinary|blockTime.MarshalBinary()", 13%nat);
  ("x/incentive/keeper/keeper.go|Keeper.SetPreviousHardSupplyRewardAccrualTime|time.Time.MarshalBinary|blockTime.MarshalBinary()", 13%nat);
  ("x/incentive/keeper/keeper.go|Keeper.SetPreviousUSDXMintingAccrualTime|time.Time.MarshalBinary|blockTime.MarshalBinary()", 13%nat);
  ("x/incentive/keeper/keeper.go|Keeper.SetSavingsRewardAccrualTime|time.Time.MarshalBinary|blockTime.MarshalBinary()", 13%nat);
  ("x/incentive/keeper/keeper.go|Keeper.SetSwapRewardAccrualTime|time.Time.MarshalBinary|blockTime.MarshalBinary()", 13%nat);
  ("x/incentive/keeper/keeper.go|Keeper|field|accountKeeper types.AccountKeeper", 10%nat);
  ("x/incentive/keeper/keeper.go|Keeper|field|bankKeeper types.BankKeeper", 10%nat);
  ("x/incentive/keeper/keeper.go|Keeper|field|cdc codec.Codec", 10%nat);
  ("x/incentive/keeper/keeper.go|Keeper|field|cdpKeeper types.CdpKeeper", 10%nat);
  ("x/incentive/keeper/keeper.go|Keeper|field|distrKeeper types.DistrKeeper", 10%nat);
  ("x/incentive/keeper/keeper.go|Keeper|field|earnKeeper types.EarnKeeper", 10%nat);
  ("x/incentive/keeper/keeper.go|Keeper|field|hardKeeper types.HardKeeper", 10%nat);
  ("x/incentive/keeper/keeper.go|Keeper|field|key storetypes.StoreKey", 10%nat);
  ("x/incentive/keeper/keeper.go|Keeper|field|liquidKeeper types.LiquidKeeper", 10%nat);
  ("x/incentive/keeper/keeper.go|Keeper|field|mintKeeper types.MintKeeper", 10%nat);
  ("x/incentive/keeper/keeper.go|Keeper|field|paramSubspace types.ParamSubspace", 10%nat);
  ("x/incentive/keeper/keeper.go|Keeper|field|pricefeedKeeper types.PricefeedKeeper", 10%nat);
  ("x/incentive/keeper/keeper.go|Keeper|field|savingsKeeper types.SavingsKeeper", 10%nat);
  ("x/incentive/keeper/keeper.go|Keeper|field|stakingKeeper types.StakingKeeper", 10%nat);
  ("x/incentive/keeper/keeper.go|Keeper|field|swapKeeper types.SwapKeeper", 10%nat);
  ("x/incentive/keeper/msg_server.go|msgServer|field|keeper Keeper", 10%nat);
  ("x/incentive/module.go|AppModule|field|(embedded) AppModuleBasic", 10%nat);
  ("x/incentive/module.go|AppModule|field|accountKeeper types.AccountKeeper", 10%nat);
  ("x/incentive/module.go|AppModule|field|bankKeeper types.BankKeeper", 10%nat);
  ("x/incentive/module.go|AppModule|field|cdpKeeper types.CdpKeeper", 10%nat);
  ("x/incentive/module.go|AppModule|field|keeper keeper.Keeper", 10%nat);
  ("x/incentive/types/params.go|<file>|time.Unix|time.Unix(1, 0)", 12%nat);
  ("x/issuance/keeper/gprc_query.go|queryServer|field|keeper Keeper", 10%nat);
  ("x/issuance/keeper/keeper.go|Keeper.SetPreviousBlockTime|time.Time.MarshalBinary|blockTime.MarshalBinary()", 13%nat);
  ("x/issuance/keeper/keeper.go|Keeper|field|accountKeeper types.AccountKeeper", 10%nat);
  ("x/issuance/keeper/keeper.go|Keeper|field|bankKeeper types.BankKeeper", 10%nat);
  ("x/issuance/keeper/keeper.go|Keeper|field|cdc codec.Codec", 10%nat);
  ("x/issuance/keeper/keeper.go|Keeper|field|key storetypes.StoreKey", 10%nat);
  ("x/issuance/keeper/keeper.go|Keeper|field|paramSubspace paramtypes.Subspace", 10%nat);
  ("x/issuance/keeper/msg_server.go|msgServer|field|keeper Keeper", 10%nat);
  ("x/issuance/module.go|AppModule|field|(embedded) AppModuleBasic", 10%nat);
  ("x/issuance/module.go|AppModule|field|accountKeeper types.AccountKeeper", 10%nat);
  ("x/issuance/module.go|AppModule|field|bankKeeper types.BankKeeper", 10%nat);
  ("x/issuance/module.go|AppModule|field|keeper keeper.Keeper", 10%nat);
  ("x/kavadist/keeper/grpc_query.go|queryServer|field|keeper Keeper", 10%nat);
  ("x/kavadist/keeper/keeper.go|Keeper.SetPreviousBlockTime|time.Time.MarshalBinary|blockTime.MarshalBinary()", 13%nat);
  ("x/kavadist/keeper/keeper.go|Keeper|field|accountKeeper types.AccountKeeper", 10%nat);
  ("x/kavadist/keeper/keeper.go|Keeper|field|bankKeeper types.BankKeeper", 10%nat);
  ("x/kavadist/keeper/keeper.go|Keeper|field|blacklistedAddrs map[string]bool", 10%nat);
  ("x/kavadist/keeper/keeper.go|Keeper|field|cdc codec.BinaryCodec", 10%nat);
  ("x/kavadist/keeper/keeper.go|Keeper|field|distKeeper types.DistKeeper", 10%nat);
  ("x/kavadist/keeper/keeper.go|Keeper|field|key storetypes.StoreKey", 10%nat);
  ("x/kavadist/keeper/keeper.go|Keeper|field|paramSubspace paramtypes.Subspace", 10%nat);
  ("x/kavadist/module.go|AppModule|field|(embedded) AppModuleBasic", 10%nat);
  ("x/kavadist/module.go|AppModule|field|accountKeeper types.AccountKeeper", 10%nat);
  ("x/kavadist/module.go|AppModule|field|keeper keeper.Keeper", 10%nat);
  ("x/kavadist/types/params.go|<file>|time.Unix|time.Unix(1, 0)", 12%nat);
  ("x/kavadist/types/params.go|validateInfraParams|time.Unix|time.Unix(0, 0)", 12%nat);
  ("x/kavadist/types/params.go|validatePeriodsParams|time.Unix|time.Unix(0, 0)", 12%nat);
  ("x/liquid/keeper/grpc_query.go|queryServer|field|keeper Keeper", 10%nat);
  ("x/liquid/keeper/keeper.go|Keeper|field|accountKeeper types.AccountKeeper", 10%nat);
  ("x/liquid/keeper/keeper.go|Keeper|field|bankKeeper types.BankKeeper", 10%nat);
  ("x/liquid/keeper/keeper.go|Keeper|field|cdc codec.Codec", 10%nat);
  ("x/liquid/keeper/keeper.go|Keeper|field|derivativeDenom string", 10%nat);
  ("x/liquid/keeper/keeper.go|Keeper|field|distributionKeeper types.DistributionKeeper", 10%nat);
  ("x/liquid/keeper/keeper.go|Keeper|field|stakingKeeper types.StakingKeeper", 10%nat);
  ("x/liquid/keeper/msg_server.go|msgServer|field|keeper Keeper", 10%nat);
  ("x/liquid/module.go|AppModule|field|(embedded) AppModuleBasic", 10%nat);
  ("x/liquid/module.go|AppModule|field|keeper keeper.Keeper", 10%nat);
  ("x/metrics/module.go|AppModule|field|(embedded) AppModuleBasic", 10%nat);
  ("x/metrics/module.go|AppModule|field|metrics *types.Metrics", 10%nat);
  ("x/precisebank/keeper/grpc_query.go|queryServer|field|keeper Keeper", 10%nat);
  ("x/precisebank/keeper/keeper.go|Keeper|field|ak types.AccountKeeper", 10%nat);
  ("x/precisebank/keeper/keeper.go|Keeper|field|bk types.BankKeeper", 10%nat);
  ("x/precisebank/keeper/keeper.go|Keeper|field|cdc codec.BinaryCodec", 10%nat);
  ("x/precisebank/keeper/keeper.go|Keeper|field|storeKey storetypes.StoreKey", 10%nat);
  ("x/precisebank/module.go|AppModule|field|(embedded) AppModuleBasic", 10%nat);
  ("x/precisebank/module.go|AppModule|field|accountKeeper types.AccountKeeper", 10%nat);
  ("x/precisebank/module.go|AppModule|field|bankKeeper types.BankKeeper", 10%nat);
  ("x/precisebank/module.go|AppModule|field|keeper keeper.Keeper", 10%nat);
  ("x/pricefeed/keeper/grpc_query.go|queryServer|field|keeper Keeper", 10%nat);
  ("x/pricefeed/keeper/keeper.go|Keeper|field|cdc codec.Codec", 10%nat);
  ("x/pricefeed/keeper/keeper.go|Keeper|field|key storetypes.StoreKey", 10%nat);
  ("x/pricefeed/keeper/keeper.go|Keeper|field|paramSubspace paramtypes.Subspace", 10%nat);
  ("x/pricefeed/keeper/msg_server.go|msgServer|field|keeper Keeper", 10%nat);
  ("x/pricefeed/module.go|AppModule|field|(embedded) AppModuleBasic", 10%nat);
  ("x/pricefeed/module.go|AppModule|field|accountKeeper sdkkeeper.AccountKeeper", 10%nat);
  ("x/pricefeed/module.go|AppModule|field|keeper keeper.Keeper", 10%nat);
  ("x/router/keeper/keeper.go|Keeper|field|earnKeeper types.EarnKeeper", 10%nat);
  ("x/router/keeper/keeper.go|Keeper|field|liquidKeeper types.LiquidKeeper", 10%nat);
  ("x/router/keeper/keeper.go|Keeper|field|stakingKeeper types.StakingKeeper", 10%nat);
  ("x/router/keeper/msg_server.go|msgServer|field|keeper Keeper", 10%nat);
  ("x/router/module.go|AppModule|field|(embedded) AppModuleBasic", 10%nat);
  ("x/router/module.go|AppModule|field|keeper keeper.Keeper", 10%nat);
  ("x/savings/keeper/grpc_query.go|queryServer|field|keeper Keeper", 10%nat);
  ("x/savings/keeper/keeper.go|Keeper|field|accountKeeper types.AccountKeeper", 10%nat);
  ("x/savings/keeper/keeper.go|Keeper|field|bankKeeper types.BankKeeper", 10%nat);
  ("x/savings/keeper/keeper.go|Keeper|field|cdc codec.Codec", 10%nat);
  ("x/savings/keeper/keeper.go|Keeper|field|hooks types.SavingsHooks", 10%nat);
  ("x/savings/keeper/keeper.go|Keeper|field|key storetypes.StoreKey", 10%nat);
  ("x/savings/keeper/keeper.go|Keeper|field|liquidKeeper types.LiquidKeeper", 10%nat);
  ("x/savings/keeper/keeper.go|Keeper|field|paramSubspace paramtypes.Subspace", 10%nat);
  ("x/savings/keeper/msg_server.go|msgServer|field|keeper Keeper", 10%nat);
  ("x/savings/module.go|AppModule|field|(embedded) AppModuleBasic", 10%nat);
  ("x/savings/module.go|AppModule|field|accountKeeper authkeeper.AccountKeeper", 10%nat);
  ("x/savings/module.go|AppModule|field|bankKeeper types.BankKeeper", 10%nat);
  ("x/savings/module.go|AppModule|field|keeper keeper.Keeper", 10%nat);
  ("x/swap/keeper/grpc_query.go|queryServer|field|keeper Keeper", 10%nat);
  ("x/swap/keeper/keeper.go|Keeper|field|accountKeeper types.AccountKeeper", 10%nat);
  ("x/swap/keeper/keeper.go|Keeper|field|bankKeeper types.BankKeeper", 10%nat);
  ("x/swap/keeper/keeper.go|Keeper|field|cdc codec.Codec", 10%nat);
  ("x/swap/keeper/keeper.go|Keeper|field|hooks types.SwapHooks", 10%nat);
  ("x/swap/keeper/keeper.go|Keeper|field|key storetypes.StoreKey", 10%nat);
  ("x/swap/keeper/keeper.go|Keeper|field|paramSubspace paramtypes.Subspace", 10%nat);
  ("x/swap/keeper/msg_server.go|msgServer|field|keeper Keeper", 10%nat);
  ("x/swap/module.go|AppModule|field|(embedded) AppModuleBasic", 10%nat);
  ("x/swap/module.go|AppModule|field|accountKeeper types.AccountKeeper", 10%nat);
  ("x/swap/module.go|AppModule|field|keeper keeper.Keeper", 10%nat);
  ("x/swap/types/msg.go|MsgDeposit.GetDeadline|time.Unix|time.Unix(msg.Deadline, 0)", 12%nat);
  ("x/swap/types/msg.go|MsgSwapExactForTokens.GetDeadline|time.Unix|time.Unix(msg.Deadline, 0)", 12%nat);
  ("x/swap/types/msg.go|MsgSwapForExactTokens.GetDeadline|time.Unix|time.Unix(msg.Deadline, 0)", 12%nat);
  ("x/swap/types/msg.go|MsgWithdraw.GetDeadline|time.Unix|time.Unix(msg.Deadline, 0)", 12%nat);
  ("x/validator-vesting/keeper/grpc_query.go|queryServer|field|bk types.BankKeeper", 10%nat);
  ("x/validator-vesting/module.go|AppModule|field|(embedded) AppModuleBasic", 10%nat);
  ("x/validator-vesting/module.go|AppModule|field|bankKeeper types.BankKeeper", 10%nat)
].

Definition class_covered (c : nat) : bool :=
  match c with
  | 1 | 2 | 3 | 4 | 5 | 6 | 7 | 8 | 10 | 11 | 12 | 13 => true
  | _ => false
  end%nat.

Definition all_sites_covered : bool := forallb (fun s => class_covered (snd s)) sites.
