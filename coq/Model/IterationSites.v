(* C01: the places in Kava's own state-machine code (non-test, non-generated
   files of x/ and app/) that consult something which is not a function of
   state and block, as found by tools/sites on the current source, each with
   the class that decides which lemma of Proofs/Iteration.v covers it.
   The check compares this table with the enumerator's output on every run.

   classes:
   1  range over a map whose body is a commutative-associative accumulation
      (Dec/Int addition, andb / orb, insertion into another map or set)      -> fold_perm_invariant
   2  collect the entries of a map (or a slice of distinct keys) and sort them
      with a strict total order                                              -> sorted_perm_unique
   3  sort.Slice with a total preorder whose ties are equal values           -> sorted_perm_unique (antisymmetric)
   4  query-only / API-server code (outside app hash, tx results, block events)
   5  test helper (app/test_common.go)
   6  time.Now used only as an argument of a telemetry call
   7  client-side randomness (not reachable from keepers / abci / ante)
   8  unstable sort with observable ties, deterministic for a fixed Go toolchain
      (assumption on the toolchain, not proved; C06's theorems hold for every tie-breaking)
   9  anything else: NOT covered (must not occur) *)
From Coq Require Import List String.
Import ListNotations.
Open Scope string_scope.

Definition sites : list (string * nat) := [
  ("x/hard/keeper/liquidation.go|removeDuplicates|sort.Strings|res", 2%nat);
  ("x/hard/types/liquidation.go|ValuationMap.GetSortedKeys|sort.Strings|keys", 2%nat);
  ("x/incentive/keeper/rewards_earn.go|Keeper.accumulateEarnBkavaRewards|sort.Strings|sortedBkavaVaultsDenoms", 2%nat);
  ("app/app.go|*App.ModuleAccountAddrs|maprange|mAccPerms", 1%nat);
  ("app/app.go|*App.loadBlockedMaccAddrs|maprange|modAccAddrs", 1%nat);
  ("app/app.go|GetMaccPerms|maprange|mAccPerms", 1%nat);
  ("app/app.go|RegisterAPIRouteRewrites|maprange|routeMap", 4%nat);
  ("app/tally_handler.go|TallyHandler.Tally|maprange|currValidators", 1%nat);
  ("app/tally_handler.go|bkavaByDenom.toCoins|maprange|bkavaMap", 2%nat);
  ("app/test_common.go|GeneratePrivKeyAddressPairs|rand.NewSource|", 5%nat);
  ("app/test_common.go|GeneratePrivKeyAddressPairs|rand.New|", 5%nat);
  ("app/test_common.go|RandomAddress|rand.Read|", 5%nat);
  ("app/test_common.go|TestApp.InitializeFromGenesisStatesWithTimeAndChainIDAndHeight|maprange|state", 5%nat);
  ("x/auction/abci.go|BeginBlocker|time.Now||telemetry", 6%nat);
  ("x/auction/keeper/math.go|splitIntIntoWeightedBuckets|sort.Slice|quotients", 8%nat);
  ("x/bep3/abci.go|BeginBlocker|time.Now||telemetry", 6%nat);
  ("x/bep3/types/hash.go|GenerateSecureRandomNumber|rand.Read|", 7%nat);
  ("x/cdp/abci.go|BeginBlocker|time.Now||telemetry", 6%nat);
  ("x/cdp/keeper/cdp.go|Keeper.IndexCdpByOwner|sort.Slice|cdpIDs", 2%nat);
  ("x/cdp/keeper/grpc_query.go|QueryServer.TotalCollateral|maprange|denomCollateralTypes", 4%nat);
  ("x/cdp/keeper/grpc_query.go|QueryServer.TotalCollateral|maprange|denomCollateralTypes#2", 4%nat);
  ("x/cdp/keeper/grpc_query.go|QueryServer.TotalCollateral|sort.Slice|collateralTypes", 4%nat);
  ("x/cdp/keeper/grpc_query.go|QueryServer.TotalCollateral|sort.Slice|totalCollaterals", 4%nat);
  ("x/committee/abci.go|BeginBlocker|time.Now||telemetry", 6%nat);
  ("x/committee/types/permissions.go|validateParamChangesAreAllowed|maprange|current", 1%nat);
  ("x/community/abci.go|BeginBlocker|time.Now||telemetry", 6%nat);
  ("x/earn/keeper/grpc_query.go|queryServer.Vaults|maprange|visitedMap", 4%nat);
  ("x/earn/keeper/invariants.go|VaultSharesInvariant|maprange|totalShares", 1%nat);
  ("x/earn/types/share.go|VaultShares.Sort|sort.Sort|shares", 2%nat);
  ("x/hard/abci.go|BeginBlocker|time.Now||telemetry", 6%nat);
  ("x/hard/keeper/grpc_query.go|queryServer.InterestFactors|maprange|interestFactorMap", 4%nat);
  ("x/hard/keeper/liquidation.go|removeDuplicates|maprange|check", 2%nat);
  ("x/hard/types/liquidation.go|ValuationMap.GetSortedKeys|maprange|m.Usd", 2%nat);
  ("x/hard/types/liquidation.go|ValuationMap.Sum|maprange|m.Usd", 1%nat);
  ("x/incentive/abci.go|BeginBlocker|time.Now||telemetry", 6%nat);
  ("x/incentive/keeper/rewards_earn.go|Keeper.accumulateEarnBkavaRewards|maprange|bkavaVaultsDenoms", 2%nat);
  ("x/incentive/types/multipliers.go|NewSelectionsFromMap|maprange|selectionMap", 2%nat);
  ("x/incentive/types/multipliers.go|NewSelectionsFromMap|sort.Slice|selections", 2%nat);
  ("x/issuance/abci.go|BeginBlocker|time.Now||telemetry", 6%nat);
  ("x/kavadist/abci.go|BeginBlocker|time.Now||telemetry", 6%nat);
  ("x/pricefeed/abci.go|EndBlocker|time.Now||telemetry", 6%nat);
  ("x/pricefeed/keeper/keeper.go|Keeper.CalculateMedianPrice|sort.Slice|prices", 3%nat);
  ("x/swap/keeper/invariants.go|PoolSharesInvariant|maprange|totalShares", 1%nat);
  ("x/swap/types/genesis.go|GenesisState.Validate|maprange|totalShares", 1%nat)
].

Definition class_covered (c : nat) : bool :=
  match c with
  | 1 | 2 | 3 | 4 | 5 | 6 | 7 | 8 => true
  | _ => false
  end%nat.

Definition all_sites_covered : bool := forallb (fun s => class_covered (snd s)) sites.
