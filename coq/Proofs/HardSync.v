(* The interest sync inside the handlers (SyncSupplyInterest / SyncBorrowInterest) against the
   query-level loadSyncedDeposit / loadSyncedBorrow: the queries succeed on states satisfying the
   invariant (borrow side: global factors up to 10^18; deposit side: always), and on both sides the
   handler's sync computes exactly what the query reports (the deposit side since fix 6c61e7a5b,
   which made loadSyncedDeposit round Mul-then-Quo like SyncSupplyInterest). *)
From Kava Require Import Base.Prelude Base.Dec Model.Hard Proofs.Hard Proofs.HardInv.
Local Open Scope Z_scope.

Lemma quot_gt_neg x : - PREC < x -> 0 <= Z.quot x PREC.
Proof.
  intros H. pose proof PREC_pos. destruct (Z_lt_le_dec x 0) as [Hn|Hp].
  - rewrite <- (Z.opp_involutive x), Z.quot_opp_l by lia. rewrite Z.quot_small by lia. lia.
  - apply Z.quot_pos; lia.
Qed.

(* storedAmount.Quo(userFactor).Mul(globalFactor) - storedAmount never truncates to a negative
   amount when 1 <= userFactor <= globalFactor <= 10^18 *)
Lemma bor_interest_nonneg a f uf :
  0 <= a -> PREC <= uf -> uf <= f -> f <= PREC * PREC -> 0 <= bor_interest a f uf.
Proof.
  intros Ha Hu Hf Hb. unfold bor_interest, dec_trunc_int. apply quot_gt_neg.
  assert (H5 : 5 <= PREC) by (unfold PREC; lia).
  pose proof (dec_quo_bounds (dec_of_int a) uf) as Hq. cbn zeta in Hq.
  assert (Ha' : 0 <= dec_of_int a) by (unfold dec_of_int; nia).
  specialize (Hq Ha' ltac:(lia)).
  pose proof (dec_mul_bounds (dec_quo (dec_of_int a) uf) f) as Hm.
  pose proof (dec_quo_nonneg (dec_of_int a) uf Ha' ltac:(lia)) as Hq0.
  set (q := dec_quo (dec_of_int a) uf) in *. set (m := dec_mul q f) in *.
  unfold dec_of_int in *.
  pose proof (Z.div_mod (a * PREC * PREC * PREC) uf ltac:(lia)) as Hdm.
  pose proof (Z.mod_pos_bound (a * PREC * PREC * PREC) uf ltac:(lia)) as Hmb.
  assert (Ht0 : 0 <= a * PREC * PREC * PREC / uf) by (apply Z.div_pos; nia).
  set (t := a * PREC * PREC * PREC / uf) in *.
  set (rm := (a * PREC * PREC * PREC) mod uf) in *.
  clearbody q m t rm. generalize dependent PREC. intros P Hu Hb H5 Ha' Hq Hm Hdm.
  (* 2qP >= 2t - P, so 2qPf >= 2tf - Pf >= 2 t uf - Pf > 2aP^3 - 2uf - Pf *)
  assert (A1 : 2 * q * P * f >= 2 * t * f - P * f) by nia.
  assert (A2 : t * f >= t * uf) by nia.
  assert (A3 : 2 * q * P * f > 2 * (a * P * P * P) - 2 * uf - P * f) by nia.
  assert (A4 : 2 * uf + P * f <= 2 * (P * P) + P * (P * P)) by nia.
  assert (A5 : (2 * m * P + P) * P >= 2 * q * f * P) by nia.
  nia.
Qed.

(* storedAmount.Mul(globalFactor).Quo(userFactor) - storedAmount is never negative when
   0 < userFactor <= globalFactor (no upper bound needed: the product is exact) *)
Lemma sup_interest_nonneg a f uf : 0 <= a -> 0 < uf -> uf <= f -> 0 <= sup_interest a f uf.
Proof.
  intros Ha Hu Hf. unfold sup_interest, dec_trunc_int. pose proof PREC_pos as Hp.
  apply Z.quot_pos; [|lia].
  assert (E : dec_mul (dec_of_int a) f = a * f).
  { unfold dec_mul, dec_of_int. replace (a * PREC * f) with ((a * f) * PREC) by ring. apply chop_round_exact. nia. }
  rewrite E. unfold dec_quo, dec_of_int.
  assert (a * PREC <= chop_round (Z.quot (a * f * PREC * PREC) uf)); [|lia].
  rewrite <- (chop_round_exact (a * PREC)) at 1 by nia.
  apply chop_round_mono_nonneg. split; [nia|].
  apply Z.quot_le_lower_bound; [lia|]. nia.
Qed.

(* a record synced at the current global factor earns nothing (supply-side formula) *)
Lemma sup_interest_self a F : 0 <= a -> 0 < F -> sup_interest a F F = 0.
Proof.
  intros Ha HF. unfold sup_interest, dec_trunc_int. pose proof PREC_pos as Hp.
  assert (E : dec_mul (dec_of_int a) F = a * F).
  { unfold dec_mul, dec_of_int. replace (a * PREC * F) with ((a * F) * PREC) by ring. apply chop_round_exact. nia. }
  rewrite E. unfold dec_quo, dec_of_int.
  replace (a * F * PREC * PREC) with ((a * PREC * PREC) * F) by ring.
  rewrite Z.quot_mul by lia. rewrite chop_round_exact by nia.
  rewrite Z.sub_diag. apply Z.quot_0_l. lia.
Qed.

Lemma load_fold_ok_f intf gf r l :
  (forall d, 0 <= amt r d) ->
  (forall d f uf, gf d = Some f -> In (d, uf) (idx r) -> uf <> 0 /\ 0 <= intf (amt r d) f uf) ->
  forall tot : coins, (forall d, 0 <= tot d) ->
  exists tot' : coins, fold_left (load_coin_f intf gf r) l (ret tot) = Ok tot' tt /\ forall d, 0 <= tot' d.
Proof.
  intros Ha Hi. induction l as [|d l IH]; intros tot Ht; cbn [fold_left].
  - exists tot. split; [reflexivity|assumption].
  - assert (K : exists t1, load_coin_f intf gf r (ret tot) d = Ok t1 tt /\ forall x, 0 <= t1 x).
    { unfold load_coin_f. cbn [bind ret].
      destruct (gf d) as [f|] eqn:Eg; [|exists tot; split; [reflexivity|assumption]].
      destruct (idx_get d (idx r)) as [uf|] eqn:Ei; [|exists tot; split; [reflexivity|assumption]].
      apply idx_get_in in Ei. destruct (Hi d f uf Eg Ei) as [U0 Hnn].
      destruct (Z.eqb_spec uf 0); [contradiction|].
      destruct (Z.ltb_spec (intf (amt r d) f uf) 0); [lia|].
      eexists. split; [reflexivity|]. intros x. unfold upd. destruct (Nat.eqb x d); [lia|apply Ht]. }
    destruct K as (t1 & E1 & H1). rewrite E1. apply IH, H1.
Qed.

Lemma load_synced_f_ok intf n gf r :
  (forall d, 0 <= amt r d) ->
  (forall d f uf, gf d = Some f -> In (d, uf) (idx r) -> uf <> 0 /\ 0 <= intf (amt r d) f uf) ->
  exists c, load_synced_f intf n gf r = Ok c tt /\ forall d, amt r d <= c d.
Proof.
  intros Ha Hi. unfold load_synced_f.
  destruct (load_fold_ok_f intf gf r (denoms n (amt r)) Ha Hi czero ltac:(intros d; unfold czero; lia)) as (tot & E & Ht).
  exists (cadd (amt r) tot). split; [|intros d; unfold cadd; specialize (Ht d); lia].
  rewrite E. reflexivity.
Qed.

(* loadSyncedBorrow *)
Lemma load_synced_ok n gf r :
  fac_ge1 gf -> (forall d F, gf d = Some F -> F <= PREC * PREC) -> rec_sound n gf r ->
  exists c, load_synced n gf r = Ok c tt /\ forall d, amt r d <= c d.
Proof.
  intros Hge Hb (Ha & _ & He). rewrite load_synced_is_f. apply load_synced_f_ok; [exact Ha|].
  intros d f uf Eg Hin. destruct (He d uf Hin) as (U1 & F & HF & U2). rewrite Eg in HF. inversion HF; subst F.
  pose proof PREC_pos. split; [lia|]. apply bor_interest_nonneg; auto. eapply Hb; eauto.
Qed.

(* loadSyncedDeposit: no bound on the factors is needed *)
Lemma load_synced_sup_ok n gf r :
  rec_sound n gf r -> exists c, load_synced_sup n gf r = Ok c tt /\ forall d, amt r d <= c d.
Proof.
  intros (Ha & _ & He). apply load_synced_f_ok; [exact Ha|].
  intros d f uf Eg Hin. destruct (He d uf Hin) as (U1 & F & HF & U2). rewrite Eg in HF. inversion HF; subst F.
  pose proof PREC_pos. split; [lia|]. apply sup_interest_nonneg; [apply Ha|lia|lia].
Qed.

(* GetSyncedDeposit / GetSyncedBorrow do not panic and report at least the stored amount *)
Theorem synced_queries_ok e s u :
  HInv e s ->
  (forall r, dep s u = Some r -> exists c, synced_deposit e s u = Some (Ok c tt) /\ forall d, amt r d <= c d) /\
  ((forall d F, bfac s d = Some F -> F <= PREC * PREC) ->
   forall r, bor s u = Some r -> exists c, synced_borrow e s u = Some (Ok c tt) /\ forall d, amt r d <= c d).
Proof.
  intros I. split; [intros r Er|intros Bb r Er].
  - unfold synced_deposit. rewrite Er.
    destruct (load_synced_sup_ok (nd e) (sfac s) r (hi_dep _ _ I u r Er)) as (c & E & L).
    exists c. rewrite E. split; [reflexivity|assumption].
  - unfold synced_borrow. rewrite Er.
    destruct (load_synced_ok (nd e) (bfac s) r (hi_bfac _ _ I) Bb (hi_bor _ _ I u r Er)) as (c & E & L).
    exists c. rewrite E. split; [reflexivity|assumption].
Qed.

(** ** borrow side: the handler's sync computes exactly what GetSyncedBorrow reports *)
Lemma sync_bor_fold_agrees bf r l : NoDup l ->
  (forall d, In d l -> idx_get d (idx r) <> None) -> entries_sound bf (idx r) ->
  forall tot ix x,
  (forall d, In d l -> idx_get d ix = idx_get d (idx r)) ->
  fold_left (sync_bor_coin bf (amt r)) l (ret (tot, ix)) = Ok x tt ->
  fold_left (load_coin bf r) l (ret tot) = Ok (fst x) tt.
Proof.
  intros Hnd. induction Hnd as [|d l Hnin Hnd IH]; intros Hc He tot ix x Hix H; cbn [fold_left] in H |- *.
  - apply ret_ok in H. subst x. reflexivity.
  - destruct (sync_bor_coin bf (amt r) (ret (tot, ix)) d) as [[t1 ix1] []| |] eqn:G.
    2,3: exfalso; eapply (fold_not_ok _ _ l _ (sync_bor_coin_bind bf (amt r))); [|exact H]; discriminate.
    assert (K : load_coin bf r (ret tot) d = Ok t1 tt /\ ix1 = idx_set d (fac0 bf d) ix).
    { unfold sync_bor_coin in G. unfold load_coin. cbn [bind ret] in G |- *.
      rewrite (Hix d (or_introl eq_refl)) in G.
      destruct (idx_get d (idx r)) as [uf|] eqn:Ei; [|exfalso; apply (Hc d (or_introl eq_refl)); exact Ei].
      pose proof (idx_get_in _ _ _ Ei) as Hin. destruct (He d uf Hin) as (_ & F & HF & _).
      assert (HF0 : fac0 bf d = F) by (unfold fac0; rewrite HF; reflexivity).
      rewrite HF0 in G. rewrite HF.
      destruct (uf =? 0); [discriminate|].
      destruct (bor_interest (amt r d) F uf <? 0); [discriminate|].
      apply ret_ok in G. inversion G; subst t1 ix1. rewrite HF0. split; reflexivity. }
    destruct K as [K1 ->]. rewrite K1.
    apply (IH (fun d' Hd' => Hc d' (or_intror Hd')) He t1 (idx_set d (fac0 bf d) ix) x); [|exact H].
    intros d' Hd'. rewrite idx_get_set_other by (intros ->; contradiction). apply Hix. right; exact Hd'.
Qed.

Lemma sync_bor_rec_agrees n bf r r' : rec_sound n bf r -> sync_bor_rec n bf r = Ok r' tt ->
  load_synced n bf r = Ok (amt r') tt.
Proof.
  intros (Ha & Hc & He) H. unfold sync_bor_rec in H. inv_bind H as x E. apply ret_ok in H. subst r'.
  unfold load_synced.
  rewrite (sync_bor_fold_agrees bf r (denoms n (amt r)) (denoms_nodup n (amt r))
             (fun d Hd => Hc d (proj1 (denoms_lt _ _ _ Hd)) (proj2 (denoms_lt _ _ _ Hd))) He czero (idx r) x (fun d _ => eq_refl) E).
  reflexivity.
Qed.

(* repayments never exceed the debt GetSyncedBorrow reports *)
Theorem repay_capped_by_query e s a o c s' : HInv e s -> step e s (Repay a o c) = Ok s' tt ->
  exists q, synced_borrow e s o = Some (Ok q tt) /\
    forall d, bal s' a d = bal s a d - capped e (of_list c) q d /\
              bal s' (hacc e) d = bal s (hacc e) d + capped e (of_list c) q d /\
              0 <= capped e (of_list c) q d <= q d.
Proof.
  intros I H. destruct (repay_capped_inv _ _ _ _ _ _ I H) as (s2 & r & H1 & H2 & H3). cbn zeta in H3.
  destruct H3 as (H3 & H4 & _).
  unfold sync_borrow in H1. destruct (bor s o) as [r0|] eqn:Er0.
  - inv_bind H1 as r' E1. apply ret_ok in H1. subst s2. cbn in H2. unfold upd in H2. rewrite Nat.eqb_refl in H2.
    inversion H2; subst r'.
    exists (amt r). unfold synced_borrow. rewrite Er0, (sync_bor_rec_agrees _ _ _ _ (hi_bor _ _ I o r0 Er0) E1).
    split; [reflexivity|]. intros d. destruct (H3 d) as [A B]. split; [exact A|]. split; [exact B|apply H4].
  - apply ret_ok in H1. subst s2. congruence.
Qed.

(** ** deposit side: the handler's sync computes exactly what GetSyncedDeposit reports
       (SyncSupplyInterest skips a zero interest, loadSyncedDeposit adds a zero coin: the same
       amounts; a negative interest cannot occur below the global factor) *)
Lemma sync_sup_fold_agrees sf r l : NoDup l ->
  (forall d, 0 <= amt r d) ->
  (forall d, In d l -> idx_get d (idx r) <> None) -> entries_sound sf (idx r) ->
  forall (tot tq : coins) ix x,
  (forall d, In d l -> idx_get d ix = idx_get d (idx r)) ->
  (forall d, tq d = tot d) -> (forall d, In d l -> tot d = 0) ->
  fold_left (sync_sup_coin sf (amt r)) l (ret (tot, ix)) = Ok x tt ->
  exists cq : coins, fold_left (load_coin_sup sf r) l (ret tq) = Ok cq tt /\ forall d, cq d = fst x d.
Proof.
  intros Hnd Ha. induction Hnd as [|d l Hnin Hnd IH]; intros Hc He tot tq ix x Hix Hq Hz H; cbn [fold_left] in H |- *.
  - apply ret_ok in H. subst x. exists tq. split; [reflexivity|exact Hq].
  - destruct (sync_sup_coin sf (amt r) (ret (tot, ix)) d) as [[t1 ix1] []| |] eqn:G.
    2,3: exfalso; eapply (fold_not_ok _ _ l _ (sync_sup_coin_bind sf (amt r))); [|exact H]; discriminate.
    assert (K : exists tq1 : coins, load_coin_sup sf r (ret tq) d = Ok tq1 tt /\ (forall x0, tq1 x0 = t1 x0) /\
                ix1 = idx_set d (fac0 sf d) ix /\ (forall d', d' <> d -> t1 d' = tot d')).
    { unfold sync_sup_coin in G. unfold load_coin_sup, load_coin_f. cbn [bind ret] in G |- *.
      rewrite (Hix d (or_introl eq_refl)) in G.
      destruct (idx_get d (idx r)) as [uf|] eqn:Ei; [|exfalso; apply (Hc d (or_introl eq_refl)); exact Ei].
      pose proof (idx_get_in _ _ _ Ei) as Hin. destruct (He d uf Hin) as (U1 & F & HF & U2).
      assert (HF0 : fac0 sf d = F) by (unfold fac0; rewrite HF; reflexivity).
      rewrite HF0 in G. rewrite HF. pose proof PREC_pos as Hp.
      destruct (Z.eqb_spec uf 0); [lia|].
      pose proof (sup_interest_nonneg (amt r d) F uf (Ha d) ltac:(lia) U2) as Hi.
      destruct (Z.ltb_spec (sup_interest (amt r d) F uf) 0); [lia|].
      apply ret_ok in G. eexists. split; [reflexivity|].
      destruct (Z.ltb_spec 0 (sup_interest (amt r d) F uf)) as [Hpos|Hle]; inversion G; subst t1 ix1; rewrite HF0.
      - split; [|split; [reflexivity|]].
        + intros x0. unfold upd. destruct (Nat.eqb x0 d); [reflexivity|apply Hq].
        + intros d' Hd'. unfold upd. destruct (Nat.eqb_spec d' d); [contradiction|reflexivity].
      - split; [|split; [reflexivity|reflexivity]].
        intros x0. unfold upd. destruct (Nat.eqb_spec x0 d) as [->|]; [|apply Hq].
        rewrite (Hz d (or_introl eq_refl)). lia. }
    destruct K as (tq1 & K1 & K2 & -> & K4). rewrite K1.
    apply (IH (fun d' Hd' => Hc d' (or_intror Hd')) He t1 tq1 (idx_set d (fac0 sf d) ix) x); [|exact K2| |exact H].
    + intros d' Hd'. rewrite idx_get_set_other by (intros ->; contradiction). apply Hix. right; exact Hd'.
    + intros d' Hd'. rewrite K4 by (intros ->; contradiction). apply Hz. right; exact Hd'.
Qed.

Lemma sync_sup_rec_agrees n sf r r' : rec_sound n sf r -> sync_sup_rec n sf r = Ok r' tt ->
  exists c, load_synced_sup n sf r = Ok c tt /\ forall d, c d = amt r' d.
Proof.
  intros (Ha & Hc & He) H. unfold sync_sup_rec in H. inv_bind H as x E. apply ret_ok in H. subst r'.
  destruct (sync_sup_fold_agrees sf r (denoms n (amt r)) (denoms_nodup n (amt r)) Ha
             (fun d Hd => Hc d (proj1 (denoms_lt _ _ _ Hd)) (proj2 (denoms_lt _ _ _ Hd))) He
             czero czero (idx r) x (fun d _ => eq_refl) (fun d => eq_refl) (fun d _ => eq_refl) E) as (cq & Eq & Hq).
  exists (cadd (amt r) cq). split.
  - unfold load_synced_sup, load_synced_f. change (load_coin_f sup_interest) with load_coin_sup. rewrite Eq. reflexivity.
  - intros d. cbn [amt]. unfold cadd. rewrite Hq. reflexivity.
Qed.

Lemma capped_ext e c (a b : coins) d : a d = b d -> capped e c a d = capped e c b d.
Proof. intros H. unfold capped. rewrite H. reflexivity. Qed.

(* withdrawals never exceed the deposit GetSyncedDeposit reports *)
Theorem withdraw_capped_by_query e s u c s' : HInv e s -> step e s (Withdraw u c) = Ok s' tt ->
  exists q, synced_deposit e s u = Some (Ok q tt) /\
    forall d, bal s' u d = bal s u d + capped e (of_list c) q d /\
              bal s' (hacc e) d = bal s (hacc e) d - capped e (of_list c) q d /\
              0 <= capped e (of_list c) q d <= q d.
Proof.
  intros I H. destruct (withdraw_capped_inv _ _ _ _ _ I H) as (s2 & r & H1 & H2 & H3). cbn zeta in H3.
  destruct H3 as (H3 & H4 & _).
  unfold sync_position in H1. inv_bind H1 as s1 E1.
  pose proof (sync_borrow_inv _ _ _ _ E1 I) as I1.
  destruct (sync_borrow_frame _ _ _ _ E1) as (_ & _ & B3 & B4 & _).
  unfold sync_supply in H1. destruct (dep s1 u) as [r0|] eqn:Er0.
  - inv_bind H1 as r' E2. apply ret_ok in H1. subst s2. cbn in H2. unfold upd in H2. rewrite Nat.eqb_refl in H2.
    inversion H2; subst r'.
    destruct (sync_sup_rec_agrees _ _ _ _ (hi_dep _ _ I1 u r0 Er0) E2) as (q & Eq & Hq).
    exists q. unfold synced_deposit. rewrite <- B3, <- B4, Er0, Eq. split; [reflexivity|].
    intros d. rewrite (capped_ext e (of_list c) q (amt r) d (Hq d)), (Hq d).
    destruct (H3 d) as [A B]. split; [exact A|]. split; [exact B|apply H4].
  - apply ret_ok in H1. subst s2. congruence.
Qed.
