(* Lemmas about Model/LiquidMsg.v: the message level of x/liquid (the coin's denom is a field of the
   message, independent of the validator address). *)
From Kava Require Import Base.Prelude Base.Dec Model.Staking Model.Tally Model.Liquid Model.TallyTie Model.LiquidMsg.
From Kava Require Import Proofs.Liquid.
Local Open Scope Z_scope.

(** * a wrapped operation is refused or is an operation of Model/Liquid.v *)
Lemma mstep_cases e s m :
  mstep e s m = Err \/ exists o, mstep e s m = step e s o.
Proof.
  destruct m as [o|a v dn amt|a v dn amt]; cbn [mstep].
  - right. now exists o.
  - destruct (denom_is_bond dn); [right; now exists (Mint a v amt)|now left].
  - destruct (denom_is_deriv_of dn v); [right; now exists (Burn a v amt)|now left].
Qed.

Lemma mstep'_cases e s m : mstep' e s m = s \/ exists o, mstep' e s m = step' e s o.
Proof.
  unfold mstep', step'. destruct (mstep_cases e s m) as [E|(o & E)]; rewrite E; [now left|right; now exists o].
Qed.

(** * burn: the denom must be the derivative of the validator named in the message *)
Theorem burn_msg_other_denom_refused e s a v dn amt :
  dn <> DDeriv v -> mstep e s (MBurnMsg a v dn amt) = Err.
Proof.
  intros H. cbn [mstep]. destruct dn as [|d]; cbn [denom_is_deriv_of]; [reflexivity|].
  destruct (Nat.eqb_spec d v) as [->|]; [congruence|reflexivity].
Qed.

Theorem burn_msg_other_validator_changes_nothing e s a d v amt :
  d <> v -> mstep' e s (MBurnMsg a v (DDeriv d) amt) = s.
Proof.
  intros H. unfold mstep'. rewrite burn_msg_other_denom_refused; [reflexivity|congruence].
Qed.

Theorem burn_msg_same_validator e s a v amt :
  mstep e s (MBurnMsg a v (DDeriv v) amt) = step e s (Burn a v amt).
Proof. cbn [mstep denom_is_deriv_of]. now rewrite Nat.eqb_refl. Qed.

(* a successful burn message took the coins of the validator whose delegation pays the shares *)
Theorem burn_msg_ok_denom e s a v dn amt s' out :
  mstep e s (MBurnMsg a v dn amt) = Ok s' out -> dn = DDeriv v /\ step e s (Burn a v amt) = Ok s' out.
Proof.
  cbn [mstep]. destruct dn as [|d]; cbn [denom_is_deriv_of]; [discriminate|].
  destruct (Nat.eqb_spec d v) as [->|]; [now split|discriminate].
Qed.

(** * mint: the coin must be of the bond denom *)
Theorem mint_msg_derivative_denom_refused e s a v d amt :
  mstep e s (MMintMsg a v (DDeriv d) amt) = Err.
Proof. reflexivity. Qed.

Theorem mint_msg_bond_denom e s a v amt :
  mstep e s (MMintMsg a v DBond amt) = step e s (Mint a v amt).
Proof. reflexivity. Qed.

(** * invariant and backing for every history of messages *)
Theorem mstep_inv e s m s' out : env_wf e -> Inv e s -> mstep e s m = Ok s' out -> Inv e s'.
Proof.
  intros Hwf HI H. destruct (mstep_cases e s m) as [E|(o & E)]; rewrite E in H; [discriminate|].
  eapply step_inv; eauto.
Qed.

Theorem mrun_inv e ms : forall s, env_wf e -> Inv e s -> Inv e (mrun e s ms).
Proof.
  induction ms as [|m r IH]; intros s Hwf HI; [exact HI|]. cbn [mrun fold_left]. apply IH; auto.
  destruct (mstep'_cases e s m) as [E|(o & E)]; rewrite E; [exact HI|now apply step'_inv].
Qed.

Theorem mstep_backed e s m s' out : backed_all e s -> mstep e s m = Ok s' out -> backed_all e s'.
Proof.
  intros HB H. destruct (mstep_cases e s m) as [E|(o & E)]; rewrite E in H; [discriminate|].
  eapply step_backed; eauto.
Qed.

Theorem mrun_backed e ms : forall s, backed_all e s -> backed_all e (mrun e s ms).
Proof.
  induction ms as [|m r IH]; intros s HB; [exact HB|]. cbn [mrun fold_left]. apply IH.
  unfold mstep'. destruct (mstep e s m) as [s' out| |] eqn:E; auto. eapply mstep_backed; eauto.
Qed.

(* plain histories are histories of messages *)
Lemma mrun_plain e ops : forall s, mrun e s (map MPlain ops) = run e s ops.
Proof. induction ops as [|o r IH]; intros s; [reflexivity|]. cbn [map mrun run fold_left]. apply IH. Qed.

(** * the comparison is needed: a burn that accepted the derivative of ANY existing validator
    breaks backing (two validators at exchange rate one, both with minted derivatives; the holder
    of validator 0's derivative names validator 1) *)
Definition lm_env : env :=
  mk_env 5%nat 2%nat 4%nat [2%nat; 3%nat] 334000000000000000 500000000000000000 334000000000000000 true true.
Definition lm_init : state :=
  mk_state
    [mkVal true 3000000 (3000000 * PREC) Bonded false 1; mkVal true 3000000 (3000000 * PREC) Bonded false 1]
    [(0%nat, 0%nat, Some (2000000 * PREC)); (2%nat, 0%nat, Some (1000000 * PREC));
     (1%nat, 1%nat, Some (2000000 * PREC)); (3%nat, 1%nat, Some (1000000 * PREC))]
    [0; 0; 0; 0; 0].
Definition lm_minted : state := run lm_env lm_init [Mint 0%nat 0%nat 1000000; Mint 1%nat 1%nat 1000000].

Lemma lm_minted_backed : backed_all lm_env lm_minted.
Proof. intros i. destruct i as [|[|k]]; vm_compute; discriminate. Qed.

Theorem loose_burn_breaks_backing :
  exists e s a d v amt s' x,
    backed_all e s /\ d <> v /\ 0 < dsup s d /\ 0 < dsup s v /\
    burn_loose e s a d v amt = Ok s' x /\
    (* validator v's derivative is no longer backed *)
    dshares s' (liq e) v < dsup s' v * PREC /\
    (* while the model of the code refuses the message and changes nothing *)
    mstep' e s (MBurnMsg a v (DDeriv d) amt) = s.
Proof.
  exists lm_env, lm_minted, 0%nat, 0%nat, 1%nat, 400000.
  destruct (burn_loose lm_env lm_minted 0%nat 0%nat 1%nat 400000) as [s' x| |] eqn:E; try (vm_compute in E; discriminate).
  exists s', x. split; [exact lm_minted_backed|]. split; [discriminate|].
  split; [vm_compute; reflexivity|]. split; [vm_compute; reflexivity|]. split; [reflexivity|].
  split.
  - assert (Hs : match burn_loose lm_env lm_minted 0%nat 0%nat 1%nat 400000 with
                 | Ok t _ => (dshares t (liq lm_env) 1%nat <? dsup t 1%nat * PREC) = true | _ => False end)
      by (vm_compute; reflexivity).
    rewrite E in Hs. now apply Z.ltb_lt.
  - apply burn_msg_other_validator_changes_nothing. discriminate.
Qed.
