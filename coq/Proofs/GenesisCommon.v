(* Lemmas shared by the genesis round-trip proofs (C14a): a strictly sorted
   list is determined by its elements, so an index rebuilt by insertion from
   the exported records equals the stored index as soon as both hold the same
   entries. *)
From Coq Require Import List Sorted Permutation Arith ZArith Lia Bool.
Import ListNotations.

Section SortedExt.
  Context {A : Type} (lt : A -> A -> Prop).
  Hypothesis lt_irrefl : forall x, ~ lt x x.
  Hypothesis lt_trans : forall x y z, lt x y -> lt y z -> lt x z.

  Lemma ssorted_head_notin a l : StronglySorted lt (a :: l) -> ~ In a l.
  Proof.
    intros H Hin. apply StronglySorted_inv in H. destruct H as [_ H].
    rewrite Forall_forall in H. exact (lt_irrefl a (H a Hin)).
  Qed.

  Lemma ssorted_ext : forall l1 l2,
    StronglySorted lt l1 -> StronglySorted lt l2 -> (forall x, In x l1 <-> In x l2) -> l1 = l2.
  Proof.
    induction l1 as [|a r1 IH]; intros [|b r2] H1 H2 Hm.
    - reflexivity.
    - exfalso. apply (proj2 (Hm b)). left; reflexivity.
    - exfalso. apply (proj1 (Hm a)). left; reflexivity.
    - pose proof (StronglySorted_inv H1) as [S1 F1]. pose proof (StronglySorted_inv H2) as [S2 F2].
      rewrite Forall_forall in F1, F2.
      assert (Hab : a = b).
      { destruct (proj1 (Hm a) (or_introl eq_refl)) as [E|Ha]; [symmetry; exact E|].
        destruct (proj2 (Hm b) (or_introl eq_refl)) as [E|Hb]; [exact E|].
        exfalso. apply (lt_irrefl a). eapply lt_trans; [apply F1, Hb|apply F2, Ha]. }
      subst b. f_equal. apply IH; try assumption.
      intros x. split; intros Hx.
      + destruct (proj1 (Hm x) (or_intror Hx)) as [E|Hx']; [|exact Hx'].
        subst x. exfalso. exact (ssorted_head_notin _ _ H1 Hx).
      + destruct (proj2 (Hm x) (or_intror Hx)) as [E|Hx']; [|exact Hx'].
        subst x. exfalso. exact (ssorted_head_notin _ _ H2 Hx).
  Qed.

  Lemma ssorted_nodup : forall l, StronglySorted lt l -> NoDup l.
  Proof.
    induction l as [|a r IH]; intros H; constructor.
    - eapply ssorted_head_notin; eassumption.
    - apply IH. apply StronglySorted_inv in H. tauto.
  Qed.

  Lemma ssorted_filter f : forall l, StronglySorted lt l -> StronglySorted lt (filter f l).
  Proof.
    induction l as [|a r IH]; intros H; cbn; [constructor|].
    apply StronglySorted_inv in H. destruct H as [S F].
    destruct (f a); [|apply IH, S]. constructor; [apply IH, S|].
    rewrite Forall_forall in *. intros x Hx. apply filter_In in Hx. apply F. tauto.
  Qed.
End SortedExt.

(* fold_left of a function that only rewrites points of a map *)
Lemma fold_left_inv {A B} (P : A -> Prop) (f : A -> B -> A) :
  (forall a b, P a -> P (f a b)) -> forall l a, P a -> P (fold_left f l a).
Proof. intros Hf. induction l as [|b r IH]; intros a Ha; cbn; [exact Ha|]. apply IH, Hf, Ha. Qed.

(** * Folds that write points of a finite map: the last write of a key wins *)
From Kava Require Import Base.Prelude.

Lemma fold_upd2_hit {A B} (ka kd : A -> nat) (val : A -> B) : forall l m0 a d v,
  (forall x, In x l -> ka x = a -> kd x = d -> val x = v) ->
  (exists x, In x l /\ ka x = a /\ kd x = d) ->
  fold_left (fun m x => upd2 m (ka x) (kd x) (val x)) l m0 a d = v.
Proof.
  induction l as [|x r IH] using rev_ind; intros m0 a d v Hv (y & Hy & Ka & Kd); [destruct Hy|].
  rewrite fold_left_app. cbn [fold_left]. unfold upd2 at 1.
  destruct (Nat.eqb_spec a (ka x)) as [Ea|Na]; [destruct (Nat.eqb_spec d (kd x)) as [Ed|Nd]|]; cbn [andb].
  - apply Hv; [apply in_or_app; right; left; reflexivity|auto|auto].
  - apply IH; [intros z Hz; apply Hv, in_or_app; left; exact Hz|].
    apply in_app_or in Hy. destruct Hy as [Hy|[<-|[]]]; [exists y; auto|congruence].
  - apply IH; [intros z Hz; apply Hv, in_or_app; left; exact Hz|].
    apply in_app_or in Hy. destruct Hy as [Hy|[<-|[]]]; [exists y; auto|congruence].
Qed.

Lemma fold_upd2_miss {A B} (ka kd : A -> nat) (val : A -> B) : forall l m0 a d,
  (forall x, In x l -> ~ (ka x = a /\ kd x = d)) ->
  fold_left (fun m x => upd2 m (ka x) (kd x) (val x)) l m0 a d = m0 a d.
Proof.
  induction l as [|x r IH] using rev_ind; intros m0 a d Hno; [reflexivity|].
  rewrite fold_left_app. cbn [fold_left]. unfold upd2 at 1.
  assert (Hx : ~ (ka x = a /\ kd x = d)) by (apply Hno, in_or_app; right; left; reflexivity).
  destruct (Nat.eqb_spec a (ka x)) as [Ea|Na]; [destruct (Nat.eqb_spec d (kd x)) as [Ed|Nd]|]; cbn [andb];
    try (exfalso; apply Hx; auto; fail);
    apply IH; intros z Hz; apply Hno, in_or_app; left; exact Hz.
Qed.

(* a fold over 0 .. n-1 writing one point per index *)
Lemma fold_upd_seq {A} (v : nat -> A) : forall n m0 k,
  fold_left (fun m t => upd m t (v t)) (seq 0 n) m0 k = if Nat.ltb k n then v k else m0 k.
Proof.
  induction n as [|n IH]; intros m0 k; [reflexivity|].
  rewrite seq_S, fold_left_app. cbn [fold_left Nat.add]. unfold upd at 1.
  destruct (Nat.eqb_spec k n) as [->|Nk].
  - replace (n <? S n)%nat with true by (symmetry; apply Nat.ltb_lt; lia). reflexivity.
  - rewrite IH. destruct (Nat.ltb_spec k n); destruct (Nat.ltb_spec k (S n)); try reflexivity; lia.
Qed.
