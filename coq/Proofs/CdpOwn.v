(* C04: the owner index lists every cdp exactly once, under its owner — every operation, every history. *)
From Kava Require Import Base.Prelude Base.Dec Model.Cdp Proofs.CdpRatio Proofs.Cdp Proofs.CdpInv Proofs.CdpInv2 Proofs.CdpInv3 Proofs.CdpCust.
Local Open Scope Z_scope.

Definition owner_of (s : state) (t id : nat) : option nat :=
  match cdps s t id with Some c => Some (c_owner c) | None => None end.

Definition OwnInv (s : state) : Prop :=
  forall o, NoDup (oidx s o) /\ forall id, In id (oidx s o) <-> exists t, owner_of s t id = Some o.

Lemma OwnInv_view s s' :
  (forall t id, owner_of s' t id = owner_of s t id) -> oidx s' = oidx s -> OwnInv s -> OwnInv s'.
Proof.
  intros Ho Hi H o. destruct (H o) as [A B]. rewrite Hi. split; [exact A|].
  intros id. rewrite B. split; intros (t & Ht); exists t; [rewrite Ho|rewrite <- Ho]; exact Ht.
Qed.

Lemma in_nat_ins x y l : In x (nat_ins y l) <-> x = y \/ In x l.
Proof.
  induction l as [|h tl IH]; cbn [nat_ins]; [cbn; intuition|].
  destruct (Nat.leb y h); cbn; [intuition|]. rewrite IH. intuition.
Qed.

Lemma nodup_nat_ins y l : ~ In y l -> NoDup l -> NoDup (nat_ins y l).
Proof.
  induction l as [|h tl IH]; intros Hn H; cbn [nat_ins]; [constructor; [intros []|constructor]|].
  inversion H as [|? ? Hh Ht]; subst.
  destruct (Nat.leb y h); [constructor; assumption|].
  constructor.
  - rewrite in_nat_ins. intros [->|Hin]; [apply Hn; left; reflexivity|contradiction].
  - apply IH; [intros Hin; apply Hn; right; assumption|assumption].
Qed.

(* a new cdp with a fresh id *)
Lemma OwnInv_new s s' T I o :
  OwnInv s -> (forall t, owner_of s t I = None) ->
  (forall t id, owner_of s' t id = if Nat.eqb t T && Nat.eqb id I then Some o else owner_of s t id) ->
  oidx s' = upd (oidx s) o (nat_ins I (oidx s o)) -> OwnInv s'.
Proof.
  intros H Hf Ho Hi o'. destruct (H o') as [A B]. rewrite Hi. unfold upd.
  destruct (Nat.eqb_spec o' o) as [->|Hne].
  - split.
    + apply nodup_nat_ins; [|exact A]. intros Hin. apply B in Hin. destruct Hin as (t & Ht). rewrite Hf in Ht. discriminate.
    + intros id. rewrite in_nat_ins, B. split.
      * intros [->|(t & Ht)]; [exists T; rewrite Ho, !Nat.eqb_refl; reflexivity|].
        exists t. rewrite Ho. destruct (Nat.eqb_spec id I) as [->|]; [rewrite Hf in Ht; discriminate|]. rewrite andb_false_r. exact Ht.
      * intros (t & Ht). rewrite Ho in Ht. destruct (Nat.eqb_spec id I) as [->|]; [left; reflexivity|].
        rewrite andb_false_r in Ht. right. exists t. exact Ht.
  - split; [exact A|]. intros id. rewrite B. split.
    + intros (t & Ht). exists t. rewrite Ho. destruct (Nat.eqb_spec id I) as [->|]; [rewrite Hf in Ht; discriminate|]. rewrite andb_false_r. exact Ht.
    + intros (t & Ht). rewrite Ho in Ht. destruct (Nat.eqb t T && Nat.eqb id I); [inversion Ht; congruence|]. exists t. exact Ht.
Qed.

(* a cdp is removed *)
Lemma OwnInv_remove s s' T I o :
  OwnInv s -> owner_of s T I = Some o -> (forall t, owner_of s t I <> None -> t = T) ->
  (forall t id, owner_of s' t id = if Nat.eqb t T && Nat.eqb id I then None else owner_of s t id) ->
  oidx s' = upd (oidx s) o (filter (fun x => negb (Nat.eqb x I)) (oidx s o)) -> OwnInv s'.
Proof.
  intros H Hst Hu Ho Hi o'. destruct (H o') as [A B]. rewrite Hi. unfold upd.
  destruct (Nat.eqb_spec o' o) as [->|Hne].
  - split; [apply NoDup_filter, A|].
    intros id. rewrite filter_In, B. split.
    + intros [(t & Ht) Hid]. exists t. rewrite Ho. destruct (Nat.eqb_spec id I); [discriminate|]. rewrite andb_false_r. exact Ht.
    + intros (t & Ht). rewrite Ho in Ht. destruct (Nat.eqb_spec id I) as [->|Hn].
      * destruct (Nat.eqb_spec t T) as [Et|Nt]; cbn [andb] in Ht; [discriminate|].
        exfalso. apply Nt, Hu. congruence.
      * rewrite andb_false_r in Ht. split; [exists t; exact Ht|]. destruct (Nat.eqb_spec id I); [contradiction|reflexivity].
  - split; [exact A|]. intros id. rewrite B. split.
    + intros (t & Ht). exists t. rewrite Ho. destruct (Nat.eqb_spec t T) as [->|]; [destruct (Nat.eqb_spec id I) as [->|]|]; cbn [andb]; try exact Ht.
      congruence.
    + intros (t & Ht). rewrite Ho in Ht. destruct (Nat.eqb t T && Nat.eqb id I); [discriminate|]. exists t. exact Ht.
Qed.

(** * Record rewrites keep the owner view *)
Lemma owner_of_cdps s s' : cdps s' = cdps s -> forall t id, owner_of s' t id = owner_of s t id.
Proof. intros H t id. unfold owner_of. rewrite H. reflexivity. Qed.

Lemma store_same_owner s s' c old :
  (forall t id, cdps s' t id = upd2 (cdps s) (c_type c) (c_id c) (Some c) t id) ->
  cdps s (c_type c) (c_id c) = Some old -> c_owner c = c_owner old ->
  forall t id, owner_of s' t id = owner_of s t id.
Proof.
  intros Hc Hold Ho t id. unfold owner_of. rewrite Hc. unfold upd2.
  destruct (Nat.eqb_spec t (c_type c)) as [->|]; [destruct (Nat.eqb_spec id (c_id c)) as [->|]|]; cbn [andb]; try reflexivity.
  rewrite Hold, Ho. reflexivity.
Qed.

Lemma update_cdp_own e s cp c r s' u old :
  update_cdp e s cp c r = Ok s' u -> cdps s (c_type c) (c_id c) = Some old -> c_owner c = c_owner old ->
  (forall t id, owner_of s' t id = owner_of s t id) /\ oidx s' = oidx s.
Proof.
  intros H Hold Ho. apply update_cdp_spec in H. destruct H as (old' & _ & ->). split; [|reflexivity].
  apply (store_same_owner _ _ c old); [intros t id; reflexivity|exact Hold|exact Ho].
Qed.

Lemma sync_interest_own e s cp c s1 c1 :
  cdps s (c_type c) (c_id c) = Some c -> sync_interest e s cp c = Ok s1 c1 ->
  (forall t id, owner_of s1 t id = owner_of s t id) /\ oidx s1 = oidx s.
Proof.
  intros Hst H. pose proof (sync_interest_spec _ _ _ _ _ _ H) as ((_&_&_&_&_&Hoi&_) & _). split; [|exact Hoi].
  unfold sync_interest in H.
  destruct (ifac s (c_type c)) as [gf|].
  - destruct (ptime s (c_type c)) as [prev|]; [|inversion H; subst; reflexivity].
    destruct (_ && _); [inversion H; subst; reflexivity|].
    destruct (update_cdp _ _ _ _ _) as [s2 []| |] eqn:E; try discriminate. inversion H; subst.
    apply update_cdp_spec in E. destruct E as (old & _ & ->).
    destruct (new_interest gf (c_ifac c) (cdp_debt c) =? 0).
    + apply (store_same_owner _ _ (with_fees (with_fees c (c_fees c) prev (c_ifac c)) (c_fees c + new_interest gf (c_ifac c) (cdp_debt c)) prev gf) c); [|exact Hst|reflexivity].
      intros t id. cbn. unfold upd2. destruct (Nat.eqb t (c_type c) && Nat.eqb id (c_id c)); reflexivity.
    + apply (store_same_owner _ _ (with_fees c (c_fees c + new_interest gf (c_ifac c) (cdp_debt c)) prev gf) c); [|exact Hst|reflexivity].
      intros t id. reflexivity.
  - inversion H; subst. apply (store_same_owner _ _ (with_fees c (c_fees c) (now s) PREC) c); [|exact Hst|reflexivity]. intros t id. reflexivity.
Qed.

Lemma sync_owner e s cp c s1 c1 : sync_interest e s cp c = Ok s1 c1 -> c_owner c1 = c_owner c.
Proof. intros H. apply sync_interest_spec in H. destruct H as (_ & _ & _ & Ho & _). exact Ho. Qed.

(** * Operations that neither create nor remove a cdp *)
Lemma deposit_OwnInv e s o u t cd x s' v :
  IdxInv e s -> OwnInv s -> deposit e s o u t cd x = Ok s' v -> OwnInv s'.
Proof.
  intros HI HO. unfold deposit. destruct (0 <? x); [|discriminate]. cbn [negb].
  destruct (validate_collateral e s t cd) as [cp|] eqn:Ev; [|discriminate].
  apply validate_collateral_ok in Ev. destruct Ev as (Hcp & _).
  destruct (find_cdp e s o t) as [c0|] eqn:Ef; [|discriminate].
  destruct (find_cdp_stored' _ _ _ _ _ _ HI Ef Hcp) as [Ht Hst].
  destruct (bal s u cd <? x); [discriminate|].
  destruct (sync_interest e s cp c0) as [s1 c| |] eqn:Es; try discriminate.
  destruct (sync_interest_own _ _ _ _ _ _ Hst Es) as [O1 I1].
  apply sync_interest_IdxInv in Es; try assumption; [|rewrite Ht; assumption]. destruct Es as (_ & Hst1).
  destruct (b_send s1 u (CDPM e) cd x) as [s2|] eqn:Eb; [|discriminate].
  intros H. pose proof (b_send_frame _ _ _ _ _ _ Eb) as (F1 & _ & F3 & _).
  eapply (update_cdp_own _ _ _ _ _ _ _ c) in H; [|cbn; rewrite F1; exact Hst1|reflexivity].
  destruct H as [O2 I2]. apply (OwnInv_view s); [|cbn in I2; congruence|exact HO].
  intros t0 id. rewrite O2. rewrite <- O1. apply owner_of_cdps. cbn. exact F1.
Qed.

Lemma withdraw_OwnInv e s o u t cd x s' v :
  IdxInv e s -> OwnInv s -> withdraw e s o u t cd x = Ok s' v -> OwnInv s'.
Proof.
  intros HI HO. unfold withdraw. destruct (0 <? x); [|discriminate]. cbn [negb].
  destruct (validate_collateral e s t cd) as [cp|] eqn:Ev; [|discriminate].
  apply validate_collateral_ok in Ev. destruct Ev as (Hcp & _).
  destruct (find_cdp e s o t) as [c0|] eqn:Ef; [|discriminate].
  destruct (find_cdp_stored' _ _ _ _ _ _ HI Ef Hcp) as [Ht Hst].
  destruct (deps s (c_id c0) u) as [a|]; [|discriminate].
  destruct (a <? x); [discriminate|].
  destruct (sync_interest e s cp c0) as [s1 c| |] eqn:Es; try discriminate.
  destruct (sync_interest_own _ _ _ _ _ _ Hst Es) as [O1 I1].
  apply sync_interest_IdxInv in Es; try assumption; [|rewrite Ht; assumption]. destruct Es as (_ & Hst1).
  destruct (c_coll c <? x); [discriminate|].
  destruct (ratio_gate _ _ _ _ _ _) as [[] []| |]; try discriminate.
  destruct (b_send _ _ _ _ _) as [s2|] eqn:Eb; [|discriminate].
  destruct (update_cdp _ _ _ _ _) as [s3 []| |] eqn:Eu; try discriminate.
  intros H. pose proof (b_send_frame _ _ _ _ _ _ Eb) as (F1 & _ & F3 & _).
  eapply (update_cdp_own _ _ _ _ _ _ _ c) in Eu; [|rewrite F1; exact Hst1|reflexivity].
  destruct Eu as [O2 I2].
  assert (Q : cdps s' = cdps s3 /\ oidx s' = oidx s3) by (inversion H; subst; destruct (a - x =? 0); split; reflexivity).
  destruct Q as [Q1 Q2]. apply (OwnInv_view s); [|congruence|exact HO].
  intros t0 id. rewrite (owner_of_cdps _ _ Q1), O2, <- O1. apply owner_of_cdps, F1.
Qed.

Lemma draw_OwnInv e s o t pd x s' v :
  IdxInv e s -> OwnInv s -> draw e s o t pd x = Ok s' v -> OwnInv s'.
Proof.
  intros HI HO. unfold draw. destruct (0 <? x); [|discriminate]. cbn [negb].
  destruct (find_cdp e s o t) as [c0|] eqn:Ef; [|discriminate].
  destruct (get_cp e t) as [cp|] eqn:Hcp; [|discriminate].
  destruct (find_cdp_stored' _ _ _ _ _ _ HI Ef Hcp) as [Ht Hst].
  destruct (mstat s (cp_spot cp) && mstat s (cp_liqm cp)) eqn:Em; [|discriminate]. cbn [negb].
  destruct (Nat.eqb pd (d_usdx e)); [|discriminate]. cbn [negb].
  destruct (debt_limit_ok e s t cp x); [|discriminate]. cbn [negb].
  destruct (sync_interest e s cp c0) as [s1 c| |] eqn:Es; try discriminate.
  destruct (sync_interest_own _ _ _ _ _ _ Hst Es) as [O1 I1].
  apply sync_interest_IdxInv in Es; try assumption; [|rewrite Ht; assumption]. destruct Es as (_ & Hst1).
  destruct (ratio_gate _ _ _ _ _ _) as [[] []| |]; try discriminate.
  destruct (b_send _ _ _ _ _) as [s3|] eqn:Eb; [|discriminate].
  intros H.
  assert (F1 : cdps (b_mint s3 (CDPM e) (d_debt e) x) = cdps s1 /\ oidx (b_mint s3 (CDPM e) (d_debt e) x) = oidx s1).
  { rewrite (bank_only_cdps _ _ (b_mint_frame _ _ _ _)), (bank_only_cdps _ _ (b_send_frame _ _ _ _ _ _ Eb)), (bank_only_cdps _ _ (b_mint_frame _ _ _ _)).
    rewrite (bank_only_oidx _ _ (b_mint_frame _ _ _ _)), (bank_only_oidx _ _ (b_send_frame _ _ _ _ _ _ Eb)), (bank_only_oidx _ _ (b_mint_frame _ _ _ _)). auto. }
  destruct F1 as [F1 F3].
  eapply (update_cdp_own _ _ _ _ _ _ _ c) in H; [|cbn; rewrite F1; exact Hst1|reflexivity].
  destruct H as [O2 I2]. apply (OwnInv_view s); [|cbn in I2; congruence|exact HO].
  intros t0 id. rewrite O2, <- O1. apply owner_of_cdps. cbn. exact F1.
Qed.

(** * Creation, close, seizure *)
Lemma create_OwnInv e s o t cd coll pd prin s' v :
  IdxInv e s -> OwnInv s -> create e s o t cd coll pd prin = Ok s' v -> OwnInv s'.
Proof.
  intros (_ & _ & Hi) HO. unfold create. destruct (_ && _); [|discriminate]. cbn [negb].
  destruct (validate_collateral e s t cd) as [cp|]; [|discriminate].
  destruct (bal s o cd <? coll); [discriminate|].
  destruct (find_cdp e s o t); [discriminate|].
  destruct (Nat.eqb pd (d_usdx e)); [|discriminate]. cbn [negb].
  destruct (prin <? dp_floor e); [discriminate|].
  destruct (debt_limit_ok e s t cp prin); [|discriminate]. cbn [negb].
  destruct (ratio_gate e s cp coll prin 0) as [[] []| |]; try discriminate.
  set (s0 := match ifac s t with Some _ => s | None => set_ifac s (upd (ifac s) t (Some PREC)) end).
  destruct (b_send s0 o (CDPM e) cd coll) as [s1|] eqn:Eb1; [|discriminate].
  destruct (b_send (b_mint s1 _ _ _) _ _ _ _) as [s3|] eqn:Eb3; [|discriminate].
  intros H; inversion H; subst; clear H.
  assert (E0 : cdps s0 = cdps s /\ oidx s0 = oidx s) by (unfold s0; destruct (ifac s t); split; reflexivity).
  destruct E0 as (E01 & E02).
  pose proof (b_send_frame _ _ _ _ _ _ Eb1) as (F1 & _ & F3 & _).
  pose proof (b_mint_frame s1 (CDPM e) (d_usdx e) prin) as (G1 & _ & G3 & _).
  pose proof (b_send_frame _ _ _ _ _ _ Eb3) as (K1 & _ & K3 & _).
  pose proof (b_mint_frame s3 (CDPM e) (d_debt e) prin) as (L1 & _ & L3 & _).
  apply (OwnInv_new s _ t (nextid s) o HO).
  - intros t0. unfold owner_of. destruct (cdps s t0 (nextid s)) as [c|] eqn:E; [|reflexivity]. apply Hi in E. lia.
  - intros t0 id. unfold owner_of. cbn. rewrite L1, K1, G1, F1, E01. unfold upd2. destruct (_ && _); reflexivity.
  - cbn. rewrite L3, K3, G3, F3, E02. reflexivity.
Qed.

Lemma seize_OwnInv e s cp c s' u :
  CustInv e s -> OwnInv s -> cdps s (c_type c) (c_id c) = Some c -> seize e s cp c = Ok s' u -> OwnInv s'.
Proof.
  intros (_ & P2 & _) HO Hst H. apply seize_stores in H. destruct H as (A & _ & C & _).
  apply (OwnInv_remove s s' (c_type c) (c_id c) (c_owner c) HO).
  - unfold owner_of. rewrite Hst. reflexivity.
  - intros t Ht. apply (P2 t (c_type c) (c_id c)).
    + unfold has. unfold owner_of in Ht. destruct (cdps s t (c_id c)); [reflexivity|contradiction].
    + unfold has. rewrite Hst. reflexivity.
  - intros t id. unfold owner_of. rewrite A. unfold upd2. destruct (_ && _); reflexivity.
  - exact C.
Qed.

Lemma payout_reward_OwnInv e s cp k c s2 c1 :
  OwnInv s -> cdps s (c_type c) (c_id c) = Some c -> payout_reward e s cp k c = Ok s2 c1 -> OwnInv s2.
Proof.
  intros HO Hst. unfold payout_reward.
  destruct (first_dep_ge _ _) as [[w a]|]; [|intros H; inversion H; subst; exact HO].
  destruct (b_send _ _ _ _ _) as [s1|] eqn:Eb; [|discriminate].
  destruct (c_coll c <? _); [discriminate|].
  destruct (update_cdp _ _ _ _ _) as [s3 []| |] eqn:Eu; try discriminate.
  intros H; inversion H; subst.
  pose proof (b_send_frame _ _ _ _ _ _ Eb) as (F1 & _ & F3 & _). cbn in F1, F3.
  eapply (update_cdp_own _ _ _ _ _ _ _ c) in Eu; [|rewrite F1; exact Hst|reflexivity].
  destruct Eu as [O2 I2]. apply (OwnInv_view s); [|congruence|exact HO].
  intros t0 id. rewrite O2. apply owner_of_cdps, F1.
Qed.

Lemma keeper_liquidate_OwnInv e s k o t s' v :
  env_wf e -> params_ok e -> IdxInv e s -> CustInv e s -> OwnInv s -> (k < nusers e)%nat ->
  keeper_liquidate e s k o t = Ok s' v -> OwnInv s'.
Proof.
  intros Hwf Hpar HI HC HO Hk. unfold keeper_liquidate.
  destruct (find_cdp e s o t) as [c0|] eqn:Ef; [|discriminate].
  destruct (get_cp e t) as [cp|] eqn:Hcp; [|discriminate].
  destruct (find_cdp_stored' _ _ _ _ _ _ HI Ef Hcp) as [Ht Hst].
  destruct (sync_interest e s cp c0) as [s1 c| |] eqn:Es; try discriminate.
  pose proof (sync_interest_spec _ _ _ _ _ _ Es) as (_ & Hid & Hty & _).
  destruct (sync_interest_own _ _ _ _ _ _ Hst Es) as [O1 I1].
  pose proof (sync_interest_CustInv _ _ _ _ _ _ HC Hst Es) as HC1.
  apply sync_interest_IdxInv in Es; try assumption; [|rewrite Ht; assumption].
  destruct Es as (HI1 & Hst1).
  assert (HO1 : OwnInv s1) by (apply (OwnInv_view s); assumption).
  destruct (ratio_at _ _ _ _ _ _) as [[] r| |]; try discriminate.
  destruct (cp_liq cp <=? r); [discriminate|].
  destruct (payout_reward e s1 cp k c) as [s2 c1| |] eqn:Ep; try discriminate.
  assert (Hcpc : get_cp e (c_type c) = Some cp) by (rewrite Hty, Ht; exact Hcp).
  pose proof (payout_reward_CustInv _ _ _ _ _ _ _ Hpar HC1 Hk Hcpc Hst1 Ep) as HC2.
  pose proof (payout_reward_OwnInv _ _ _ _ _ _ _ HO1 Hst1 Ep) as HO2.
  apply payout_reward_IdxInv in Ep; try assumption. destruct Ep as (HI2 & Hst2 & Hty2).
  intros H. eapply seize_OwnInv; [exact HC2|exact HO2|exact Hst2|exact H].
Qed.

Lemma repay_OwnInv e s o t pd x s' v :
  env_wf e -> IdxInv e s -> CustInv e s -> OwnInv s -> (o < nusers e)%nat -> repay e s o t pd x = Ok s' v -> OwnInv s'.
Proof.
  intros Hwf HI HC HO Ho. unfold repay. destruct (0 <? x); [|discriminate]. cbn [negb].
  destruct (find_cdp e s o t) as [c0|] eqn:Ef; [|discriminate].
  destruct (get_cp e t) as [cp|] eqn:Hcp; [|discriminate].
  destruct (find_cdp_stored' _ _ _ _ _ _ HI Ef Hcp) as [Ht Hst].
  destruct (Nat.eqb pd (d_usdx e)); [|discriminate]. cbn [negb].
  destruct (bal s o pd <? x); [discriminate|].
  destruct (sync_interest e s cp c0) as [s1 c| |] eqn:Es; try discriminate.
  destruct (sync_interest_own _ _ _ _ _ _ Hst Es) as [O1 I1].
  pose proof (sync_interest_CustInv _ _ _ _ _ _ HC Hst Es) as HC1.
  apply sync_interest_IdxInv in Es; try assumption; [|rewrite Ht; assumption]. destruct Es as (HI1 & Hst1).
  assert (HO1 : OwnInv s1) by (apply (OwnInv_view s); assumption).
  destruct (calc_payment (cdp_debt c) (c_fees c) x) as [fp pp].
  destruct (_ && _); [discriminate|].
  destruct (b_send s1 o (CDPM e) (d_usdx e) (fp + pp)) as [s2|] eqn:E2; [|discriminate].
  destruct (b_burn s2 _ _ _) as [s3|] eqn:E3; [|discriminate].
  destruct (b_burn s3 _ _ _) as [s4|] eqn:E4; [|discriminate].
  set (c1 := with_fees (with_prin c (c_prin c - pp)) (c_fees c - fp) (c_upd c) (c_ifac c)).
  set (s5 := set_tprin s4 _).
  pose proof (b_send_frame _ _ _ _ _ _ E2) as (F1 & _ & F3 & _).
  pose proof (b_burn_frame _ _ _ _ _ E3) as (G1 & _ & G3 & _).
  pose proof (b_burn_frame _ _ _ _ _ E4) as (K1 & _ & K3 & _).
  assert (C5 : cdps s5 = cdps s1) by (unfold s5; cbn; congruence).
  assert (I5 : oidx s5 = oidx s1) by (unfold s5; cbn; congruence).
  destruct ((c_prin c1 =? 0) && (c_fees c1 =? 0)).
  - destruct (return_collateral e s5 cp c1) as [s6 []| |] eqn:E6; try discriminate.
    destruct (get_cdp e _ _ _) as [old|]; [|discriminate].
    intros H; injection H as Hs'; subst s'.
    apply return_collateral_spec in E6.
    2:{ intros w a Hd. assert (D5 : deps s5 = deps s1).
        { unfold s5. cbn. rewrite (bank_only_deps _ _ (b_burn_frame _ _ _ _ _ E4)), (bank_only_deps _ _ (b_burn_frame _ _ _ _ _ E3)),
            (bank_only_deps _ _ (b_send_frame _ _ _ _ _ _ E2)). reflexivity. }
        rewrite D5 in Hd. destruct HC1 as (_ & _ & P3 & _). destruct (P3 _ _ _ Hd) as (A & _). exact A. }
    destruct E6 as (R1 & R2 & _).
    destruct HC1 as (_ & P2 & _).
    apply (OwnInv_remove s1 _ (c_type c) (c_id c) (c_owner c) HO1).
    + unfold owner_of. rewrite Hst1. reflexivity.
    + intros t0 Ht0. apply (P2 t0 (c_type c) (c_id c)).
      * unfold has. unfold owner_of in Ht0. destruct (cdps s1 t0 (c_id c)); [reflexivity|contradiction].
      * unfold has. rewrite Hst1. reflexivity.
    + intros t0 id. unfold owner_of. cbn. rewrite R1, C5. unfold upd2. destruct (_ && _); reflexivity.
    + cbn. rewrite R2, I5. reflexivity.
  - intros H. eapply (update_cdp_own _ _ _ _ _ _ _ c) in H; [|rewrite C5; exact Hst1|reflexivity].
    destruct H as [O2 I2]. apply (OwnInv_view s1); [|congruence|exact HO1].
    intros t0 id. rewrite O2. apply owner_of_cdps, C5.
Qed.

(** * Begin blocker *)
Lemma sync_risky_one_OwnInv e cp t gf prev s id s' u :
  IdxInv e s -> OwnInv s -> sync_risky_one e cp t gf prev s id = Ok s' u -> OwnInv s'.
Proof.
  intros (Hk & _) HO H. unfold sync_risky_one in H.
  destruct (cdps s t id) as [c|] eqn:Hst; [|discriminate].
  destruct (Hk _ _ _ Hst) as [Ht Hid]. subst t id.
  destruct (_ && _); [inversion H; subst; exact HO|].
  inversion H; subst; clear H.
  destruct (new_interest gf (c_ifac c) (cdp_debt c) =? 0).
  - apply (OwnInv_view s); [|reflexivity|exact HO].
    apply (store_same_owner _ _ (with_fees (with_fees c (c_fees c) prev (c_ifac c)) (c_fees c + new_interest gf (c_ifac c) (cdp_debt c)) prev gf) c); [|exact Hst|reflexivity].
    intros t id. cbn. unfold upd2. destruct (Nat.eqb t (c_type c) && Nat.eqb id (c_id c)); reflexivity.
  - apply (OwnInv_view s); [|reflexivity|exact HO].
    apply (store_same_owner _ _ (with_fees c (c_fees c + new_interest gf (c_ifac c) (cdp_debt c)) prev gf) c); [|exact Hst|reflexivity].
    intros t id. reflexivity.
Qed.

Definition Inv3 (e : env) (s : state) : Prop := IdxInv e s /\ CustInv e s /\ OwnInv s.

Lemma sync_risky_Inv3 e s t cp s' u :
  Inv3 e s -> get_cp e t = Some cp -> sync_risky e s t cp = Ok s' u -> Inv3 e s'.
Proof.
  intros HI Hcp. unfold sync_risky. destruct (ptime s t) as [prev|]; [|discriminate].
  destruct (ifac s t) as [gf|].
  - intros H. eapply (ofold_inv (Inv3 e)); [|exact HI|exact H].
    intros s0 x s1 u0 (A & B & C) H1.
    split; [eapply sync_risky_one_IdxInv; eassumption|split; [eapply sync_risky_one_CustInv; eassumption|eapply sync_risky_one_OwnInv; eassumption]].
  - destruct (map snd _); [intros H; inversion H; subst; exact HI|discriminate].
Qed.

Lemma seize_fold_Inv3 e cp t p : forall l s s' u,
  env_wf e -> get_cp e t = Some cp ->
  ofold (liq_step e cp p) s l = Ok s' u ->
  Inv3 e s ->
  (forall c, In (Some c) l -> c_type c = t /\ cdps s t (c_id c) = Some c) ->
  NoDup (map (fun o : option cdp => match o with Some c => c_id c | None => O end) l) ->
  Inv3 e s'.
Proof.
  induction l as [|o tl IH]; intros s s' u Hwf Hcp H HI Hst Hnd; cbn [ofold] in H.
  - inversion H; subst. exact HI.
  - destruct o as [c|]; [|discriminate]. unfold liq_step in H at 1.
    cbn [map] in Hnd. apply NoDup_cons_iff in Hnd. destruct Hnd as [Hni Hnt].
    destruct (confirm_below e cp p c);
      [|cbv beta iota in H; eapply IH; [exact Hwf|exact Hcp|exact H|exact HI|intros c' Hin; apply Hst; right; exact Hin|exact Hnt]].
    destruct (seize e s cp c) as [s1 []| |] eqn:E; try discriminate.
    destruct (Hst c (or_introl eq_refl)) as [Hty Hc].
    pose proof (seize_stores _ _ _ _ _ _ E) as (A & _).
    destruct HI as (HI & HC & HO).
    assert (I1 : Inv3 e s1).
    { split; [|split].
      - eapply seize_IdxInv; [exact HI| | |exact E]; rewrite Hty; assumption.
      - eapply seize_CustInv; [exact Hwf|exact HC| | |exact E]; rewrite Hty; assumption.
      - eapply seize_OwnInv; [exact HC|exact HO| |exact E]. rewrite Hty. exact Hc. }
    eapply IH; [exact Hwf|exact Hcp|exact H|exact I1| |exact Hnt].
    intros c' Hin. destruct (Hst c' (or_intror Hin)) as [Hty' Hc']. split; [exact Hty'|].
    rewrite A. unfold upd2. rewrite Hty, Nat.eqb_refl. cbn [andb].
    destruct (Nat.eqb_spec (c_id c') (c_id c)) as [Heq|]; [|exact Hc'].
    exfalso. apply Hni. apply in_map_iff. exists (Some c'). split; [exact Heq|exact Hin].
Qed.

Lemma liquidate_cdps_Inv3 e s t cp s' u :
  env_wf e -> Inv3 e s -> get_cp e t = Some cp -> liquidate_cdps e s t cp = Ok s' u -> Inv3 e s'.
Proof.
  intros Hwf HI3 Hcp. unfold liquidate_cdps.
  destruct (price s (cp_liqm cp) =? 0); [intros H; inversion H; subst; exact HI3|].
  set (ents := idx_below _ _ _).
  destruct (existsb _ _) eqn:Ex; [discriminate|].
  intros H. pose proof HI3 as ((Hk & Hr & Hi) & HC & HO). destruct (Hr t cp Hcp) as [Hnd Hin].
  eapply (seize_fold_Inv3 e cp t (price s (cp_liqm cp))); [exact Hwf|exact Hcp|exact H|exact HI3| |].
  - intros c Hc. apply in_map_iff in Hc. destruct Hc as (x & Hx & _).
    unfold get_cdp in Hx. rewrite Hcp in Hx. destruct (Hk _ _ _ Hx) as [Hty Hid]. split; [exact Hty|].
    rewrite Hid. exact Hx.
  - assert (Hids : NoDup (map snd ents)).
    { destruct (idx_below_prefix (rkey (liq_cut (price s (cp_liqm cp)) (cp_liq cp))) (scan_count cp) (ridx s t)) as (rest & Hrest).
      fold ents in Hrest.
      assert (H0 : NoDup (map snd (ridx s t))).
      { apply nodup_map_snd; [exact Hnd|]. intros a a' b H1 H2. apply Hin in H1. apply Hin in H2.
        destruct H1 as (c1 & G1 & ->). destruct H2 as (c2 & G2 & ->). congruence. }
      rewrite Hrest, map_app in H0. eapply nodup_app_l. exact H0. }
    rewrite map_map.
    assert (Heq : map (fun x : Z * nat => match get_cdp e s t (snd x) with Some c => c_id c | None => O end) ents = map snd ents).
    { apply map_ext_in. intros x Hx. destruct (get_cdp e s t (snd x)) as [c|] eqn:Eg.
      - unfold get_cdp in Eg. rewrite Hcp in Eg. destruct (Hk _ _ _ Eg) as [_ Hid]. exact Hid.
      - exfalso. assert (existsb (fun o : option cdp => match o with None => true | Some _ => false end)
            (map (fun x0 : Z * nat => get_cdp e s t (snd x0)) ents) = true).
        { apply existsb_exists. exists None. split; [|reflexivity]. rewrite <- Eg.
          apply (in_map (fun x0 : Z * nat => get_cdp e s t (snd x0))) in Hx. exact Hx. }
        congruence. }
    rewrite Heq. exact Hids.
Qed.

Lemma begin_type_Inv3 e skip s t cp s' u :
  env_wf e -> Inv3 e s -> get_cp e t = Some cp -> begin_type e skip s (t, cp) = Ok s' u -> Inv3 e s'.
Proof.
  intros Hwf (HI & HC & HO) Hcp H.
  destruct (begin_type_Inv2 e skip s t cp s' u Hwf (conj HI HC) Hcp H) as [A B]. split; [exact A|split; [exact B|]].
  revert H. unfold begin_type, update_status.
  destruct (negb (negb (price s (cp_spot cp) =? 0))).
  { intros H; inversion H; subst. apply (OwnInv_view s); [intros; reflexivity|reflexivity|exact HO]. }
  cbn [set_mstat price].
  destruct (negb (negb (price s (cp_liqm cp) =? 0))).
  { intros H; inversion H; subst. apply (OwnInv_view s); [intros; reflexivity|reflexivity|exact HO]. }
  set (s2 := set_mstat _ _).
  pose proof (accumulate_interest_stores e s2 t cp) as (A1 & A2 & A3 & A4 & A5).
  assert (HI2 : IdxInv e s2) by (apply (IdxInv_frame e s); [reflexivity..|exact HI]).
  assert (HC2 : CustInv e s2) by (apply (CustInv_view e s); try assumption; try reflexivity; intros; split; reflexivity).
  assert (I3 : Inv3 e (accumulate_interest e s2 t cp)).
  { split; [apply (IdxInv_frame e s2); assumption|split; [apply accumulate_interest_CustInv; assumption|]].
    apply (OwnInv_view s); [apply owner_of_cdps; rewrite A1; reflexivity|rewrite A4; reflexivity|exact HO]. }
  destruct skip; [intros H; inversion H; subst; exact (proj2 (proj2 I3))|].
  destruct (sync_risky _ _ _ _) as [s4 []| |] eqn:E4; try discriminate.
  destruct (liquidate_cdps e s4 t cp) as [s5 []| |] eqn:E5; try discriminate.
  intros H; inversion H; subst.
  assert (I4 : Inv3 e s4) by (eapply sync_risky_Inv3; [exact I3|exact Hcp|exact E4]).
  destruct (liquidate_cdps_Inv3 _ _ _ _ _ _ Hwf I4 Hcp E5) as (_ & _ & R). exact R.
Qed.

Lemma begin_block_Inv3 e s s' u : env_wf e -> Inv3 e s -> begin_block e s = Ok s' u -> Inv3 e s'.
Proof.
  intros Hwf HI3 H. pose proof HI3 as (HI & HC & HO).
  destruct (begin_block_Inv2 e s s' u Hwf (conj HI HC) H) as [A B]. split; [exact A|split; [exact B|]].
  revert H. unfold begin_block.
  destruct (ofold _ s _) as [s1 []| |] eqn:E; try discriminate.
  destruct (run_auctions e s1) as [s2 []| |] eqn:Er; try discriminate.
  intros H; inversion H; subst.
  apply run_auctions_stores in Er. destruct Er as (A1 & A2 & A3 & A4 & A5).
  assert (I1 : Inv3 e s1).
  { revert E. generalize (negb (Z.rem (height s) (interval e) =? 0)). intros skip E.
    assert (G : forall l s0 s3 u0,
      (forall t cp, In (t, cp) l -> get_cp e t = Some cp) ->
      Inv3 e s0 -> ofold (begin_type e skip) s0 l = Ok s3 u0 -> Inv3 e s3).
    { induction l as [|[t cp] tl IH]; intros s0 s3 u0 Hl H0 H1; cbn [ofold] in H1; [inversion H1; subst; exact H0|].
      destruct (begin_type e skip s0 (t, cp)) as [s4 []| |] eqn:E4; try discriminate.
      eapply IH; [intros t' cp' Hin; apply Hl; right; exact Hin| |exact H1].
      eapply begin_type_Inv3; [exact Hwf|exact H0|apply Hl; left; reflexivity|exact E4]. }
    eapply G; [|exact HI3|exact E].
    intros t cp Hin. unfold ntypes in Hin. apply combine_seq_nth in Hin. destruct Hin as [Hn _].
    unfold get_cp. rewrite Nat.sub_0_r in Hn. exact Hn. }
  apply (OwnInv_view s1); [apply owner_of_cdps, A1|exact A4|exact (proj2 (proj2 I1))].
Qed.

(** * Every operation, every history *)
Lemma step_Inv3 e s o s' u : env_wf e -> params_ok e -> Inv3 e s -> step e s o = Ok s' u -> Inv3 e s'.
Proof.
  intros Hwf Hpar (HI & HC & HO) E.
  destruct (step_Inv2 e s o s' u Hwf Hpar (conj HI HC) E) as [A B]. split; [exact A|split; [exact B|]].
  destruct o; cbn [step] in E; unfold user_ok in E.
  - destruct (Nat.ltb_spec o (nusers e)); [|discriminate]. exact (create_OwnInv _ _ _ _ _ _ _ _ _ _ HI HO E).
  - destruct (Nat.ltb_spec o (nusers e)); [|discriminate]. destruct (Nat.ltb_spec u0 (nusers e)); [|discriminate]. cbn [andb] in E. exact (deposit_OwnInv _ _ _ _ _ _ _ _ _ HI HO E).
  - destruct (Nat.ltb_spec o (nusers e)); [|discriminate]. destruct (Nat.ltb_spec u0 (nusers e)); [|discriminate]. cbn [andb] in E. exact (withdraw_OwnInv _ _ _ _ _ _ _ _ _ HI HO E).
  - destruct (Nat.ltb_spec o (nusers e)); [|discriminate]. exact (draw_OwnInv _ _ _ _ _ _ _ _ HI HO E).
  - destruct (Nat.ltb_spec o (nusers e)) as [Ho|]; [|discriminate]. exact (repay_OwnInv _ _ _ _ _ _ _ _ Hwf HI HC HO Ho E).
  - destruct (Nat.ltb_spec o (nusers e)); [|discriminate]. destruct (Nat.ltb_spec k (nusers e)) as [Hk|]; [|discriminate]. cbn [andb] in E. exact (keeper_liquidate_OwnInv _ _ _ _ _ _ _ Hwf Hpar HI HC HO Hk E).
  - assert (I0 : Inv3 e (set_clock (set_price s (fold_left (fun f (mp : nat * Z) => upd f (fst mp) (snd mp)) prices (price s))) (now s + dt) (height s + 1))).
    { split; [apply (IdxInv_frame e s); [reflexivity..|exact HI]|split].
      - apply (CustInv_view e s); try assumption; try reflexivity. intros; split; reflexivity.
      - apply (OwnInv_view s); [intros; reflexivity|reflexivity|exact HO]. }
    destruct (begin_block_Inv3 _ _ _ _ Hwf I0 E) as (_ & _ & R). exact R.
Qed.

Lemma run_Inv3 e ops : env_wf e -> params_ok e -> forall s, Inv3 e s -> Inv3 e (run e s ops).
Proof.
  intros Hwf Hpar. induction ops as [|o r IH]; intros s HI; [exact HI|]. cbn [run fold_left]. fold (run e (step' e s o) r).
  apply IH. unfold step'. destruct (step e s o) as [s1 []| |] eqn:E; [|exact HI|exact HI].
  eapply step_Inv3; eassumption.
Qed.

Lemma init_OwnInv bals sups prices status ifacs ptimes startid t h :
  OwnInv (mk_state bals sups prices status ifacs ptimes startid t h).
Proof.
  intros o. cbn. split; [constructor|]. intros id. split; [intros []|intros (t0 & H); discriminate].
Qed.
