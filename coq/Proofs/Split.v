(* Lemmas and proofs about Model/Split.v *)
From Kava Require Import Base.Prelude Model.Split.
Local Open Scope Z_scope.

(** * Generic list facts *)

Lemma zsum_cons : forall x l, zsum (x :: l) = x + zsum l.
Proof. reflexivity. Qed.

Lemma combine_fst_snd : forall (ws ps : list Z), length ps = length ws ->
  map fst (combine ws ps) = ws /\ map snd (combine ws ps) = ps.
Proof.
  induction ws as [|w ws IH]; intros [|p ps] Hlen; cbn in *; try discriminate; auto.
  injection Hlen as Hlen. destruct (IH ps Hlen) as [H1 H2]. rewrite H1, H2. auto.
Qed.

Lemma in_combine_snd : forall (ws ps : list Z) p, length ps = length ws ->
  In p ps -> exists w, In (w, p) (combine ws ps).
Proof.
  induction ws as [|w ws IH]; intros [|q ps] p Hlen Hin; cbn in *;
    try discriminate; try contradiction.
  injection Hlen as Hlen. destruct Hin as [->|Hin].
  - exists w. left; reflexivity.
  - destruct (IH ps p Hlen Hin) as [w' Hw']. exists w'. right; exact Hw'.
Qed.

Lemma in_combine_map : forall (A : Type) (f g : A -> Z) (l : list A) w p,
  In (w, p) (combine (map f l) (map g l)) ->
  exists it, In it l /\ w = f it /\ p = g it.
Proof.
  induction l as [|x l IH]; cbn [map combine]; intros w p H.
  - destruct H.
  - destruct H as [H|H].
    + injection H as <- <-. exists x. split; [left; reflexivity|split; reflexivity].
    + destruct (IH _ _ H) as (it & Hin & Hw & Hp).
      exists it. split; [right; exact Hin|split; assumption].
Qed.

Lemma in_combine_map_eq : forall (A : Type) (f g : A -> Z) (l : list A) ws w p,
  map f l = ws -> In (w, p) (combine ws (map g l)) ->
  exists it, In it l /\ w = f it /\ p = g it.
Proof. intros A f g l ws w p <- H. apply in_combine_map. exact H. Qed.

(** * The checker and the specification *)

Lemma split_ok_spec : forall a ws ps, split_ok a ws ps = true <-> split_spec a ws ps.
Proof.
  intros a ws ps. unfold split_ok, split_spec. cbv zeta.
  rewrite !andb_true_iff, Nat.eqb_eq, Z.eqb_eq, !forallb_forall.
  split.
  - intros [[[H1 H2] H3] H4].
    split; [exact H1|]. split; [exact H2|]. split.
    + intros w p Hin. specialize (H3 _ Hin). cbn [fst snd] in H3.
      apply andb_true_iff in H3. destruct H3 as [Ha Hb].
      apply Z.leb_le in Ha. apply Z.leb_le in Hb. split; assumption.
    + intros w p w' p' Hin Hin' Hp Hp'.
      specialize (H4 _ Hin). rewrite forallb_forall in H4.
      specialize (H4 _ Hin'). cbn [fst snd] in H4.
      subst p p'. rewrite !Z.eqb_refl in H4. cbn [andb implb] in H4.
      apply Z.leb_le in H4. exact H4.
  - intros (H1 & H2 & H3 & H4).
    split; [split; [split|]|].
    + exact H1.
    + exact H2.
    + intros [w p] Hin. cbn [fst snd]. specialize (H3 _ _ Hin).
      apply andb_true_iff; split; apply Z.leb_le; lia.
    + intros [w p] Hin. apply forallb_forall. intros [w' p'] Hin'. cbn [fst snd].
      destruct (p =? sq a (zsum ws) w + 1) eqn:E1;
        destruct (p' =? sq a (zsum ws) w') eqn:E2; cbn [andb implb]; try reflexivity.
      apply Z.eqb_eq in E1. apply Z.eqb_eq in E2. apply Z.leb_le.
      apply (H4 w p w' p'); assumption.
Qed.

(** * Quotients and remainders *)

Lemma sq_sr_eq : forall a W w, W <> 0 -> W * sq a W w + sr a W w = a * w.
Proof. intros a W w HW. unfold sq, sr. symmetry. apply Z.div_mod. exact HW. Qed.

Lemma sr_bounds : forall a W w, 0 < W -> 0 <= sr a W w < W.
Proof. intros a W w HW. unfold sr. apply Z.mod_pos_bound. exact HW. Qed.

Lemma sum_sq_sr : forall a W ws, W <> 0 ->
  W * zsum (map (sq a W) ws) + zsum (map (sr a W) ws) = a * zsum ws.
Proof.
  intros a W ws HW. induction ws as [|w ws IH].
  - cbn. lia.
  - cbn [map]. rewrite !zsum_cons. pose proof (sq_sr_eq a W w HW) as E. lia.
Qed.

Lemma sr_sum_bounds : forall a W ws, 0 < W ->
  0 <= zsum (map (sr a W) ws) <= (W - 1) * Z.of_nat (length ws).
Proof.
  intros a W ws HW. induction ws as [|w ws IH].
  - cbn. lia.
  - cbn [map length]. rewrite zsum_cons, Nat2Z.inj_succ.
    pose proof (sr_bounds a W w HW) as B. lia.
Qed.

Lemma split_valid_inv : forall a ws, split_valid a ws = true ->
  0 <= a /\ ws <> [] /\ Forall (fun w => 0 <= w) ws /\ 0 < zsum ws.
Proof.
  unfold split_valid. intros a ws H. rewrite !andb_true_iff in H.
  destruct H as [[[H1 H2] H3] H4].
  apply Z.leb_le in H1. apply Z.ltb_lt in H4.
  split; [exact H1|]. split; [|split; [|exact H4]].
  - intros ->. discriminate.
  - apply Forall_forall. intros w Hw. rewrite forallb_forall in H3.
    apply Z.leb_le. apply H3. exact Hw.
Qed.

Lemma leftover_bounds : forall a ws, split_valid a ws = true ->
  0 <= leftover a ws < Z.of_nat (length ws).
Proof.
  intros a ws Hv. destruct (split_valid_inv _ _ Hv) as (Ha & Hne & Hws & HW).
  unfold leftover.
  assert (HW0 : zsum ws <> 0) by lia.
  pose proof (sum_sq_sr a (zsum ws) ws HW0) as E.
  pose proof (sr_sum_bounds a (zsum ws) ws HW) as B.
  assert (HL : 0 < Z.of_nat (length ws)).
  { destruct ws; [congruence|cbn [length]; lia]. }
  nia.
Qed.

(** * The algorithm *)

(* number of buckets that were given an extra unit *)
Definition cnt (l : list item) : Z :=
  zsum (map (fun it : item => if snd it then 1 else 0) l).

(* every picked bucket has a remainder at least that of every unpicked one *)
Definition ord (a W : Z) (l : list item) : Prop :=
  forall x y, In x l -> In y l -> snd x = true -> snd y = false ->
  sr a W (fst y) <= sr a W (fst x).

Lemma cnt_cons : forall w b l, cnt ((w, b) :: l) = (if b then 1 else 0) + cnt l.
Proof. reflexivity. Qed.

Lemma max_unpicked_none : forall a W l, max_unpicked a W l = None ->
  cnt l = Z.of_nat (length l).
Proof.
  induction l as [|[w b] l IH]; intros H.
  - reflexivity.
  - cbn [max_unpicked] in H. destruct b; [|discriminate].
    rewrite cnt_cons. cbn [length]. rewrite Nat2Z.inj_succ, IH by exact H. lia.
Qed.

Lemma max_unpicked_none_in : forall a W l, max_unpicked a W l = None ->
  forall w, ~ In (w, false) l.
Proof.
  induction l as [|[w b] l IH]; intros H w0 Hin.
  - destruct Hin.
  - cbn [max_unpicked] in H. destruct b; [|discriminate].
    destruct Hin as [Heq|Hin]; [discriminate|]. exact (IH H w0 Hin).
Qed.

Lemma max_unpicked_some : forall a W l m, max_unpicked a W l = Some m ->
  (exists w, In (w, false) l /\ sr a W w = m) /\
  (forall w, In (w, false) l -> sr a W w <= m).
Proof.
  induction l as [|[w b] l IH]; intros m H; cbn [max_unpicked] in H.
  - discriminate.
  - destruct b.
    + destruct (IH _ H) as [[w0 [Hin Heq]] Hmax]. split.
      * exists w0. split; [right; exact Hin|exact Heq].
      * intros w1 [Heq1|Hin1]; [discriminate|]. apply Hmax; exact Hin1.
    + destruct (max_unpicked a W l) as [v|] eqn:E.
      * injection H as <-.
        destruct (IH v eq_refl) as [[w0 [Hin Heq]] Hmax]. split.
        -- destruct (Z.max_spec (sr a W w) v) as [[Hlt Hm]|[Hle Hm]]; rewrite Hm.
           ++ exists w0. split; [right; exact Hin|exact Heq].
           ++ exists w. split; [left; reflexivity|reflexivity].
        -- intros w1 [Heq1|Hin1].
           ++ injection Heq1 as ->. lia.
           ++ specialize (Hmax _ Hin1). lia.
      * injection H as <-. split.
        -- exists w. split; [left; reflexivity|reflexivity].
        -- intros w1 [Heq1|Hin1].
           ++ injection Heq1 as ->. lia.
           ++ exfalso. exact (max_unpicked_none_in a W l E w1 Hin1).
Qed.

Lemma mark_first_props : forall a W m l,
  (exists w, In (w, false) l /\ sr a W w = m) ->
  map fst (mark_first a W m l) = map fst l /\
  cnt (mark_first a W m l) = cnt l + 1.
Proof.
  induction l as [|[w b] l IH]; intros [w0 [Hin Heq]].
  - destruct Hin.
  - cbn [mark_first]. destruct (negb b && (sr a W w =? m)) eqn:E.
    + apply andb_true_iff in E. destruct E as [Eb _].
      destruct b; [discriminate|]. split; [reflexivity|].
      rewrite !cnt_cons. lia.
    + destruct Hin as [Heq0|Hin].
      * injection Heq0 as -> ->. cbn [negb andb] in E.
        apply Z.eqb_neq in E. contradiction.
      * destruct (IH (ex_intro _ w0 (conj Hin Heq))) as [H1 H2]. split.
        -- cbn [map]. f_equal. exact H1.
        -- rewrite !cnt_cons, H2. lia.
Qed.

Lemma mark_first_in : forall a W m l x, In x (mark_first a W m l) ->
  In x l \/ (snd x = true /\ sr a W (fst x) = m).
Proof.
  induction l as [|[w b] l IH]; intros x Hin; cbn [mark_first] in Hin.
  - destruct Hin.
  - destruct (negb b && (sr a W w =? m)) eqn:E.
    + destruct Hin as [<-|Hin].
      * right. apply andb_true_iff in E. destruct E as [_ E].
        apply Z.eqb_eq in E. split; [reflexivity|exact E].
      * left; right; exact Hin.
    + destruct Hin as [<-|Hin].
      * left; left; reflexivity.
      * destruct (IH _ Hin) as [H|H]; [left; right; exact H|right; exact H].
Qed.

Lemma pick1_props : forall a W l, ord a W l -> cnt l < Z.of_nat (length l) ->
  map fst (pick1 a W l) = map fst l /\
  cnt (pick1 a W l) = cnt l + 1 /\
  ord a W (pick1 a W l).
Proof.
  intros a W l Hord Hlt. unfold pick1.
  destruct (max_unpicked a W l) as [m|] eqn:E.
  - destruct (max_unpicked_some _ _ _ _ E) as [Hex Hmax].
    destruct (mark_first_props a W m l Hex) as [H1 H2].
    split; [exact H1|]. split; [exact H2|].
    intros x y Hx Hy Sx Sy.
    apply mark_first_in in Hx. apply mark_first_in in Hy.
    destruct Hy as [Hy|[Sy' _]]; [|congruence].
    destruct Hx as [Hx|[_ Hx]].
    + apply (Hord x y); assumption.
    + rewrite Hx. apply Hmax. destruct y as [wy yb]. cbn [snd] in Sy. subst yb.
      exact Hy.
  - apply max_unpicked_none in E. lia.
Qed.

Lemma pickn_props : forall n a W l, ord a W l ->
  cnt l + Z.of_nat n <= Z.of_nat (length l) ->
  map fst (pickn n a W l) = map fst l /\
  cnt (pickn n a W l) = cnt l + Z.of_nat n /\
  ord a W (pickn n a W l).
Proof.
  induction n as [|n IH]; intros a W l Hord Hle; cbn [pickn].
  - split; [reflexivity|]. split; [lia|exact Hord].
  - assert (Hlt : cnt l < Z.of_nat (length l)) by lia.
    destruct (pick1_props a W l Hord Hlt) as (H1 & H2 & H3).
    assert (Hlen : length (pick1 a W l) = length l).
    { pose proof (f_equal (@length Z) H1) as HH. rewrite !map_length in HH. exact HH. }
    assert (Hle' : cnt (pick1 a W l) + Z.of_nat n <= Z.of_nat (length (pick1 a W l))).
    { rewrite Hlen. lia. }
    destruct (IH a W (pick1 a W l) H3 Hle') as (K1 & K2 & K3).
    split; [rewrite K1; exact H1|]. split; [lia|exact K3].
Qed.

Lemma init_props : forall a W ws,
  map fst (map (fun w : Z => (w, false)) ws) = ws /\
  cnt (map (fun w : Z => (w, false)) ws) = 0 /\
  ord a W (map (fun w : Z => (w, false)) ws).
Proof.
  intros a W ws. split; [|split].
  - induction ws as [|w ws IH]; [reflexivity|]. cbn [map fst]. f_equal. exact IH.
  - induction ws as [|w ws IH]; [reflexivity|]. cbn [map]. rewrite cnt_cons, IH. lia.
  - intros x y Hx _ Sx _. apply in_map_iff in Hx. destruct Hx as (w & <- & _).
    discriminate.
Qed.

Lemma zsum_part_of : forall a W l,
  zsum (map (part_of a W) l) = zsum (map (sq a W) (map fst l)) + cnt l.
Proof.
  induction l as [|[w b] l IH]; [reflexivity|].
  cbn [map]. rewrite cnt_cons, !zsum_cons, IH. unfold part_of. cbn [fst snd]. lia.
Qed.

Lemma split_correct : forall a ws, split_valid a ws = true -> split_spec a ws (split a ws).
Proof.
  intros a ws Hv. pose proof (leftover_bounds a ws Hv) as Hlo.
  unfold split_spec, split. cbv zeta.
  destruct (init_props a (zsum ws) ws) as (I1 & I2 & I3).
  remember (map (fun w : Z => (w, false)) ws) as l0 eqn:El0.
  assert (Hle : cnt l0 + Z.of_nat (Z.to_nat (leftover a ws)) <= Z.of_nat (length l0)).
  { rewrite I2. rewrite <- (map_length fst l0), I1. rewrite Z2Nat.id; lia. }
  destruct (pickn_props (Z.to_nat (leftover a ws)) a (zsum ws) l0 I3 Hle) as (P1 & P2 & P3).
  remember (pickn (Z.to_nat (leftover a ws)) a (zsum ws) l0) as l eqn:El.
  rewrite I1 in P1. rewrite I2, Z2Nat.id in P2 by lia.
  split; [|split; [|split]].
  - rewrite map_length. pose proof (f_equal (@length Z) P1) as HH.
    rewrite !map_length in HH. exact HH.
  - rewrite zsum_part_of, P1, P2. unfold leftover. lia.
  - intros w p Hin. apply (in_combine_map_eq _ _ _ _ _ _ _ P1) in Hin.
    destruct Hin as (it & _ & Hw & Hp). subst w p.
    unfold part_of. destruct (snd it); lia.
  - intros w p w' p' Hin Hin' Hp Hp'.
    apply (in_combine_map_eq _ _ _ _ _ _ _ P1) in Hin.
    apply (in_combine_map_eq _ _ _ _ _ _ _ P1) in Hin'.
    destruct Hin as (x & Hx & Hw & Hpx). destruct Hin' as (y & Hy & Hw' & Hpy).
    subst w p w' p'. apply (P3 x y Hx Hy).
    + unfold part_of in Hp. destruct (snd x); [reflexivity|lia].
    + unfold part_of in Hp'. destruct (snd y); [lia|reflexivity].
Qed.

Lemma split_ok_split : forall a ws, split_valid a ws = true -> split_ok a ws (split a ws) = true.
Proof. intros a ws Hv. apply split_ok_spec. apply split_correct. exact Hv. Qed.

(** * Consequences of the specification *)

Lemma split_spec_sum : forall a ws ps, split_spec a ws ps -> zsum ps = a.
Proof. intros a ws ps (_ & H & _). exact H. Qed.

Lemma split_spec_length : forall a ws ps, split_spec a ws ps -> length ps = length ws.
Proof. intros a ws ps (H & _). exact H. Qed.

Lemma split_spec_nonneg : forall a ws ps, split_valid a ws = true -> split_spec a ws ps ->
  Forall (fun p => 0 <= p) ps.
Proof.
  intros a ws ps Hv (H1 & H2 & H3 & H4).
  destruct (split_valid_inv _ _ Hv) as (Ha & Hne & Hws & HW).
  apply Forall_forall. intros p Hp.
  destruct (in_combine_snd ws ps p H1 Hp) as [w Hw].
  specialize (H3 _ _ Hw).
  assert (Hq : 0 <= sq a (zsum ws) w).
  { unfold sq. apply Z.div_pos; [|exact HW].
    apply Z.mul_nonneg_nonneg; [exact Ha|].
    rewrite Forall_forall in Hws. apply Hws. apply (in_combine_l _ _ _ _ Hw). }
  lia.
Qed.

(* the number of extra units E and the remainders, when every bucket without
   an extra unit has remainder 0 *)
Lemma extras_sum : forall a W (L : list (Z * Z)), 0 < W ->
  (forall x, In x L ->
     (snd x = sq a W (fst x) /\ sr a W (fst x) = 0) \/ snd x = sq a W (fst x) + 1) ->
  0 <= zsum (map snd L) - zsum (map (sq a W) (map fst L)) /\
  zsum (map (sr a W) (map fst L))
    <= (W - 1) * (zsum (map snd L) - zsum (map (sq a W) (map fst L))).
Proof.
  intros a W L HW. induction L as [|[w p] L IH]; intros H.
  - cbn. lia.
  - assert (HL : forall x, In x L ->
       (snd x = sq a W (fst x) /\ sr a W (fst x) = 0) \/ snd x = sq a W (fst x) + 1).
    { intros x Hx. apply H. right; exact Hx. }
    destruct (IH HL) as [IH1 IH2].
    pose proof (H (w, p) (or_introl eq_refl)) as Hh. cbn [fst snd] in Hh.
    pose proof (sr_bounds a W w HW) as B.
    cbn [map fst snd]. rewrite !zsum_cons.
    destruct Hh as [[-> Hr]| ->]; nia.
Qed.

Lemma extras_pos : forall a W (L : list (Z * Z)), 0 < W ->
  (forall x, In x L ->
     (snd x = sq a W (fst x) /\ sr a W (fst x) = 0) \/ snd x = sq a W (fst x) + 1) ->
  (exists x, In x L /\ snd x = sq a W (fst x) + 1) ->
  1 <= zsum (map snd L) - zsum (map (sq a W) (map fst L)).
Proof.
  intros a W L HW. induction L as [|[w p] L IH]; intros H [x [Hx Sx]].
  - destruct Hx.
  - assert (HL : forall x, In x L ->
       (snd x = sq a W (fst x) /\ sr a W (fst x) = 0) \/ snd x = sq a W (fst x) + 1).
    { intros z Hz. apply H. right; exact Hz. }
    destruct (extras_sum a W L HW HL) as [E0 _].
    pose proof (H (w, p) (or_introl eq_refl)) as Hh. cbn [fst snd] in Hh.
    cbn [map fst snd]. rewrite !zsum_cons.
    destruct Hx as [<-|Hx].
    + cbn [fst snd] in Sx. lia.
    + pose proof (IH HL (ex_intro _ x (conj Hx Sx))) as IH1.
      destruct Hh as [[-> _]| ->]; lia.
Qed.

Lemma split_spec_within_one : forall a ws ps, split_valid a ws = true -> split_spec a ws ps ->
  forall w p, In (w, p) (combine ws ps) ->
  - zsum ws < zsum ws * p - a * w < zsum ws.
Proof.
  intros a ws ps Hv (H1 & H2 & H3 & H4) w p Hin.
  destruct (split_valid_inv _ _ Hv) as (Ha & Hne & Hws & HW).
  assert (HW0 : zsum ws <> 0) by lia.
  pose proof (sq_sr_eq a (zsum ws) w HW0) as E.
  pose proof (sr_bounds a (zsum ws) w HW) as B.
  pose proof (H3 w p Hin) as Hp.
  destruct (Z.eq_dec p (sq a (zsum ws) w)) as [->|Hne1]; [lia|].
  assert (Hp1 : p = sq a (zsum ws) w + 1) by lia.
  destruct (Z.eq_dec (sr a (zsum ws) w) 0) as [Hz|Hnz]; [exfalso|subst p; lia].
  assert (HL : forall x, In x (combine ws ps) ->
     (snd x = sq a (zsum ws) (fst x) /\ sr a (zsum ws) (fst x) = 0) \/
     snd x = sq a (zsum ws) (fst x) + 1).
  { intros [w' p'] Hx. cbn [fst snd].
    pose proof (H3 w' p' Hx) as Hp'.
    destruct (Z.eq_dec p' (sq a (zsum ws) w')) as [Heq|Hneq]; [left|right; lia].
    split; [exact Heq|].
    pose proof (H4 w p w' p' Hin Hx Hp1 Heq) as Hle.
    pose proof (sr_bounds a (zsum ws) w' HW) as B'. lia. }
  destruct (extras_sum a (zsum ws) (combine ws ps) HW HL) as [_ S2].
  assert (Hex : exists x, In x (combine ws ps) /\ snd x = sq a (zsum ws) (fst x) + 1).
  { exists (w, p). split; [exact Hin|exact Hp1]. }
  pose proof (extras_pos a (zsum ws) (combine ws ps) HW HL Hex) as S1.
  destruct (combine_fst_snd ws ps H1) as [C1 C2].
  rewrite C1, C2 in S1, S2.
  pose proof (sum_sq_sr a (zsum ws) ws HW0) as S3.
  rewrite H2 in S1, S2. nia.
Qed.
