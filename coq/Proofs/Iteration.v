(* C01: Go's semantics for unordered iteration, and the lemmas that make each
   classified site order-insensitive.
   - `for k, v := range m` over a map visits the entries in SOME order: the
     body's effect must be the same for every permutation of the entries;
   - sort.Slice is not stable: it returns SOME permutation of its input that is
     sorted for the comparator. *)
From Coq Require Import List Permutation Sorting.Sorted ZArith Bool Lia.
From Kava Require Import Model.IterationSites.
Import ListNotations.

Section Fold.
  Context {A B : Type} (f : A -> B -> B).
  Hypothesis f_comm : forall x y b, f x (f y b) = f y (f x b).

  (* class 1: a commutative accumulation gives the same result for every visiting order *)
  Lemma fold_perm_invariant l l' b : Permutation l l' -> fold_right f b l = fold_right f b l'.
  Proof.
    intros H; induction H as [| x l l' _ IH | x y l | l l' l'' _ IH1 _ IH2]; cbn.
    - reflexivity.
    - now rewrite IH.
    - apply f_comm.
    - now rewrite IH1.
  Qed.
End Fold.

(* instances used by the sites of class 1 *)
Lemma sum_perm_invariant (l l' : list Z) : Permutation l l' ->
  fold_right Z.add 0%Z l = fold_right Z.add 0%Z l'.
Proof. apply fold_perm_invariant. intros; lia. Qed.

Lemma all_perm_invariant {A} (p : A -> bool) l l' : Permutation l l' ->
  fold_right (fun x b => p x && b) true l = fold_right (fun x b => p x && b) true l'.
Proof. apply fold_perm_invariant. intros x y b. destruct (p x), (p y), b; reflexivity. Qed.

Lemma any_perm_invariant {A} (p : A -> bool) l l' : Permutation l l' ->
  fold_right (fun x b => p x || b) false l = fold_right (fun x b => p x || b) false l'.
Proof. apply fold_perm_invariant. intros x y b. destruct (p x), (p y), b; reflexivity. Qed.

(* per-key accumulation into a results table (the tally): adding v to slot k commutes *)
Definition bump (kv : nat * Z) (t : nat -> Z) : nat -> Z :=
  fun k => if Nat.eqb k (fst kv) then (t k + snd kv)%Z else t k.
Lemma bump_table_perm_invariant l l' t k : Permutation l l' ->
  fold_right bump t l k = fold_right bump t l' k.
Proof.
  intros H. revert k. induction H as [| x l l' _ IH | x y l | l l' l'' _ IH1 _ IH2]; intros k; cbn.
  - reflexivity.
  - unfold bump at 1 3. rewrite IH. reflexivity.
  - unfold bump. destruct (Nat.eqb k (fst x)), (Nat.eqb k (fst y)); lia.
  - now rewrite IH1.
Qed.

Section Sorted.
  Context {A : Type} (le : A -> A -> Prop).
  Hypothesis le_antisym : forall x y, le x y -> le y x -> x = y.

  (* classes 2 and 3: two sorted arrangements of the same entries are the same list,
     whenever elements that compare equal both ways are equal.  For a strict total
     order on distinct keys (class 2) antisymmetry holds vacuously. *)
  Lemma sorted_perm_unique l : forall l',
    StronglySorted le l -> StronglySorted le l' -> Permutation l l' -> l = l'.
  Proof.
    induction l as [|a t IH]; intros l' Hs Hs' Hp.
    - apply Permutation_nil in Hp. now subst.
    - destruct l' as [|a' t']; [apply Permutation_sym, Permutation_nil in Hp; discriminate|].
      inversion Hs as [|? ? Hst Hall]; subst. inversion Hs' as [|? ? Hst' Hall']; subst.
      assert (Ea : a = a').
      { assert (In a (a' :: t')) as Hin by (eapply Permutation_in; [exact Hp|left; reflexivity]).
        assert (In a' (a :: t)) as Hin' by (eapply Permutation_in; [apply Permutation_sym; exact Hp|left; reflexivity]).
        destruct Hin as [->|Hin]; [reflexivity|].
        destruct Hin' as [->|Hin']; [reflexivity|].
        rewrite Forall_forall in Hall, Hall'.
        apply le_antisym; [apply Hall, Hin'|apply Hall', Hin]. }
      subst a'. f_equal. apply IH; auto. eapply Permutation_cons_inv; eauto.
  Qed.
End Sorted.

(* class 2 instance: distinct keys sorted by a strict order *)
Lemma sorted_keys_unique (l l' : list Z) :
  StronglySorted Z.lt l -> StronglySorted Z.lt l' -> Permutation l l' -> l = l'.
Proof. apply sorted_perm_unique. intros x y H1 H2. lia. Qed.

(* class 3 instance: prices sorted with <=, ties are equal values *)
Lemma sorted_prices_unique (l l' : list Z) :
  StronglySorted Z.le l -> StronglySorted Z.le l' -> Permutation l l' -> l = l'.
Proof. apply sorted_perm_unique. intros x y H1 H2. lia. Qed.

(* In the models every transition is a function of (state, block): replaying the
   same blocks from the same state gives the same state — trivially.  The content
   of C01 is that the iteration sites above do not break that for the Go code. *)
Lemma run_deterministic {S B} (step : S -> B -> S) (s : S) (bs : list B) :
  forall s1 s2, s1 = fold_left step bs s -> s2 = fold_left step bs s -> s1 = s2.
Proof. intros; congruence. Qed.

Lemma sites_all_covered : all_sites_covered = true.
Proof. vm_compute. reflexivity. Qed.
