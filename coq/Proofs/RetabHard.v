(* The correspondence checker of Model/Hard.v ([check_history] / [mismatches]) evaluates
   RE-TABULATED model states ([normalize] after every step, for vm_compute speed).  The
   property theorems are about the plain [step] / [run].  This file proves the two agree:

     - [steq e s s']: the states agree on every in-range index of every component
       (accounts < nacc e, users < nu e, denoms < nd e; a Deposit / Borrow record agrees when
       its amounts agree on the denoms < nd e and its index LIST is the same list);
     - [normalize_steq]: normalize e s ≈ s;
     - [step_steq]: every operation maps ≈ states to ≈ states with the same outcome class;
     - [project_steq], [inv_b_steq]: the compared view and the boolean invariant are equal
       on ≈ states;
     - [check_history_plain]: the same checker without [normalize], defined with [step] only;
       [check_history_retab_eq_plain], [mismatches_retab_eq_plain].

   What normalize drops: component values at out-of-range indexes (balances of accounts
   >= nacc e, amounts / factors / params of denoms >= nd e, records of users >= nu e).
   No operation, view or invariant reads them.  No functional extensionality is used. *)
From Kava Require Import Base.Prelude Base.Dec Model.Hard Proofs.RetabCommon.
Local Open Scope Z_scope.

(** * relations *)

Definition ureq (n : nat) (r r' : urec) : Prop := ext1 n (amt r) (amt r') /\ idx r = idx r'.
Definition oureq (n : nat) (o o' : option urec) : Prop :=
  match o, o' with
  | Some r, Some r' => ureq n r r'
  | None, None => True
  | _, _ => False
  end.

Record steq (e : env) (s s' : state) : Prop := mkSteq {
  q_bal : ext2 (nacc e) (nd e) (bal s) (bal s');
  q_price : ext1 (nd e) (price s) (price s');
  q_dep : forall u, (u < nu e)%nat -> oureq (nd e) (dep s u) (dep s' u);
  q_bor : forall u, (u < nu e)%nat -> oureq (nd e) (bor s u) (bor s' u);
  q_sfac : ext1 (nd e) (sfac s) (sfac s');
  q_bfac : ext1 (nd e) (bfac s) (bfac s');
  q_prev : ext1 (nd e) (prev s) (prev s');
  q_tsup : ext1 (nd e) (tsup s) (tsup s');
  q_tbor : ext1 (nd e) (tbor s) (tbor s');
  q_tres : ext1 (nd e) (tres s) (tres s');
  q_params : ext1 (nd e) (params s) (params s');
  q_mkts : ext1 (nd e) (mkts s) (mkts s')
}.

Lemma ureq_refl n r : ureq n r r.
Proof. split; [apply ext1_refl|reflexivity]. Qed.
Lemma oureq_refl n o : oureq n o o.
Proof. destruct o; cbn; [apply ureq_refl|exact I]. Qed.
Lemma ureq_trans n a b c : ureq n a b -> ureq n b c -> ureq n a c.
Proof. intros [A1 A2] [B1 B2]. split; [|congruence]. intros i Hi. rewrite A1, B1 by exact Hi. reflexivity. Qed.
Lemma oureq_trans n a b c : oureq n a b -> oureq n b c -> oureq n a c.
Proof. destruct a, b, c; cbn; try tauto. apply ureq_trans. Qed.

Lemma steq_refl e s : steq e s s.
Proof. constructor; try (intros ? ?; try intros ? ?; reflexivity); intros; apply oureq_refl. Qed.

Lemma steq_trans e s1 s2 s3 : steq e s1 s2 -> steq e s2 s3 -> steq e s1 s3.
Proof.
  intros A B. destruct A, B. constructor.
  all: try (intros i Hi; etransitivity; [match goal with H : ext1 _ _ _ |- _ => apply H; exact Hi end|];
            match goal with H : ext1 _ _ _ |- _ => apply H; exact Hi end).
  - intros i j Hi Hj. etransitivity; [apply q_bal0; assumption|apply q_bal1; assumption].
  - intros u Hu. eapply oureq_trans; [apply q_dep0, Hu|apply q_dep1, Hu].
  - intros u Hu. eapply oureq_trans; [apply q_bor0, Hu|apply q_bor1, Hu].
Qed.

(** * normalize e s ≈ s *)

Lemma tab_in n f d : (d < n)%nat -> tab n f d = f d.
Proof. intros H. unfold tab. apply nth_map_seq, H. Qed.
Lemma tab_o_in {A} n (f : nat -> option A) d : (d < n)%nat -> tab_o n f d = f d.
Proof. intros H. unfold tab_o. apply nth_map_seq, H. Qed.
Lemma tab_rec_ureq n o : oureq n (tab_rec n o) o.
Proof. destruct o as [r|]; cbn; [|exact I]. split; cbn; [|reflexivity]. intros d Hd. apply tab_in, Hd. Qed.

Theorem normalize_steq e s : steq e (normalize e s) s.
Proof.
  constructor; unfold normalize; cbv zeta; cbn [bal price dep bor sfac bfac prev tsup tbor tres params mkts].
  - intros a d Ha Hd.
    rewrite (nth_map_seq [] (nacc e) (fun a => map (bal s a) (seq 0 (nd e))) a Ha).
    apply nth_map_seq, Hd.
  - intros d Hd. apply tab_in, Hd.
  - intros u Hu. rewrite tab_o_in by exact Hu. apply tab_rec_ureq.
  - intros u Hu. rewrite tab_o_in by exact Hu. apply tab_rec_ureq.
  - intros d Hd. apply tab_o_in, Hd.
  - intros d Hd. apply tab_o_in, Hd.
  - intros d Hd. apply tab_o_in, Hd.
  - intros d Hd. apply tab_in, Hd.
  - intros d Hd. apply tab_in, Hd.
  - intros d Hd. apply tab_in, Hd.
  - intros d Hd. apply tab_o_in, Hd.
  - intros d Hd. apply tab_o_in, Hd.
Qed.

(** * outcomes *)

Lemma orel_class {S} (R : S -> S -> Prop) r r' : orel R r r' -> class_of r = class_of r'.
Proof. destruct r, r'; cbn; intros H; try reflexivity; contradiction. Qed.

Lemma bind_rel {A B} (RA : A -> A -> Prop) (RB : B -> B -> Prop) (r r' : res A) (k k' : A -> res B) :
  orel RA r r' -> (forall a a', RA a a' -> orel RB (k a) (k' a')) -> orel RB (bind r k) (bind r' k').
Proof. destruct r as [a []| |], r' as [a' []| |]; cbn; intros H K; try contradiction; try exact I. apply K, H. Qed.

(** * coins *)

Lemma denoms_ext n c c' : ext1 n c c' -> denoms n c = denoms n c'.
Proof.
  intros H. unfold denoms. apply filter_ext_in. intros d Hd. rewrite (H d (in_seq0 _ _ Hd)). reflexivity.
Qed.
Lemma denoms_lt n c d : In d (denoms n c) -> (d < n)%nat.
Proof. unfold denoms. intros H. apply filter_In in H. apply in_seq0, H. Qed.
Lemma cempty_ext n c c' : ext1 n c c' -> cempty n c = cempty n c'.
Proof. intros H. unfold cempty. apply forallb_seq_ext. intros d Hd. rewrite (H d Hd). reflexivity. Qed.
Lemma cany_neg_ext n c c' : ext1 n c c' -> cany_neg n c = cany_neg n c'.
Proof. intros H. unfold cany_neg. apply existsb_seq_ext. intros d Hd. rewrite (H d Hd). reflexivity. Qed.
Lemma coins_eqb_ext n a a' b b' : ext1 n a a' -> ext1 n b b' -> coins_eqb n a b = coins_eqb n a' b'.
Proof. intros H1 H2. unfold coins_eqb. apply forallb_seq_ext. intros d Hd. rewrite (H1 d Hd), (H2 d Hd). reflexivity. Qed.
Lemma cadd_ext n a a' b b' : ext1 n a a' -> ext1 n b b' -> ext1 n (cadd a b) (cadd a' b').
Proof. intros H1 H2 d Hd. unfold cadd. rewrite (H1 d Hd), (H2 d Hd). reflexivity. Qed.
Lemma csub_ext n a a' b b' : ext1 n a a' -> ext1 n b b' -> ext1 n (csub a b) (csub a' b').
Proof. intros H1 H2 d Hd. unfold csub. rewrite (H1 d Hd), (H2 d Hd). reflexivity. Qed.
Lemma dec_clamp_ext n a a' b b' : ext1 n a a' -> ext1 n b b' -> ext1 n (dec_clamp a b) (dec_clamp a' b').
Proof. intros H1 H2 d Hd. unfold dec_clamp. rewrite (H1 d Hd), (H2 d Hd). reflexivity. Qed.
Lemma capped_ext e a a' b b' : ext1 (nd e) a a' -> ext1 (nd e) b b' -> ext1 (nd e) (capped e a b) (capped e a' b').
Proof. intros H1 H2 d Hd. unfold capped. rewrite (H1 d Hd), (H2 d Hd). reflexivity. Qed.
Lemma subset_of_ext e a a' b b' : ext1 (nd e) a a' -> ext1 (nd e) b b' -> subset_of e a b = subset_of e a' b'.
Proof.
  intros H1 H2. unfold subset_of. rewrite (denoms_ext _ _ _ H1). apply forallb_ext_in.
  intros d Hd. rewrite (H2 d (denoms_lt _ _ _ Hd)). reflexivity.
Qed.
Lemma amt_of_ext n o o' : oureq n o o' -> ext1 n (amt_of o) (amt_of o').
Proof. destruct o, o'; cbn; try contradiction; [intros [H _]; exact H|intros _; apply ext1_refl]. Qed.
Lemma sum_over_ext l f g : (forall d, In d l -> f d = g d) -> sum_over l f = sum_over l g.
Proof. intros H. unfold sum_over. rewrite (map_ext_in f g l H). reflexivity. Qed.

(** * tactics *)

Ltac ir := first [assumption | lia | unfold hacc, aacc, nacc; lia | eapply denoms_lt; eassumption].
Ltac rw1 :=
  match goal with
  | Hx : ext1 _ ?f _ |- context [?f ?i] => rewrite (Hx i) by ir
  | Hx : ext2 _ _ ?f _ |- context [?f ?i ?j] => rewrite (Hx i j) by ir
  end.
Ltac rw := repeat rw1.
Ltac open Q :=
  let Q' := fresh "Q" in
  pose proof Q as Q';
  destruct Q' as [Qbal Qprice Qdep Qbor Qsfac Qbfac Qprev Qtsup Qtbor Qtres Qparams Qmkts].
Ltac ltb :=
  repeat match goal with
         | H : (_ && _)%bool = true |- _ => apply andb_prop in H; destruct H
         | H : Nat.ltb _ _ = true |- _ => apply Nat.ltb_lt in H
         end.
(* case analysis on two related optional records *)
Ltac orec H r r' Ha Hi :=
  match type of H with
  | oureq _ ?o ?o' =>
      destruct o as [r|], o' as [r'|]; cbn [oureq] in H; try contradiction;
      [destruct H as [Ha Hi]|]
  end.
Ltac fields :=
  constructor;
  cbn [bal price dep bor sfac bfac prev tsup tbor tres params mkts
       set_bal set_price set_dep set_bor set_sfac set_bfac set_prev set_tsup set_tbor set_tres set_params set_mkts move];
  try assumption.

Lemma upd_oureq n k (f f' : nat -> option urec) u v v' :
  (forall i, (i < k)%nat -> oureq n (f i) (f' i)) -> oureq n v v' ->
  forall i, (i < k)%nat -> oureq n (upd f u v i) (upd f' u v' i).
Proof. intros H Hv i Hi. unfold upd. destruct (Nat.eqb i u); [exact Hv|apply H, Hi]. Qed.

(** * bank, valuation *)

Section Cong.
Variables (e : env) (s s' : state).
Hypothesis Q : steq e s s'.

Lemma can_pay_eq f c c' : (f < nacc e)%nat -> ext1 (nd e) c c' -> can_pay (nd e) s f c = can_pay (nd e) s' f c'.
Proof. intros Hf Hc. open Q. unfold can_pay. apply forallb_seq_ext. intros d Hd. rw. reflexivity. Qed.

Lemma move_steq f t c c' : ext1 (nd e) c c' -> steq e (move s f t c) (move s' f t c').
Proof. intros Hc. open Q. fields. intros a d Ha Hd. rw. reflexivity. Qed.

Lemma bsend_steq f t c c' : (f < nacc e)%nat -> ext1 (nd e) c c' ->
  orel (steq e) (bsend (nd e) s f t c) (bsend (nd e) s' f t c').
Proof.
  intros Hf Hc. unfold bsend. rewrite (can_pay_eq f c c' Hf Hc).
  destruct (can_pay _ s' f c'); [|exact I]. cbn. apply move_steq, Hc.
Qed.

Lemma mkt_eq d : (d < nd e)%nat -> mkt e s d = mkt e s' d.
Proof. intros Hd. open Q. unfold mkt. rw. reflexivity. Qed.
Lemma usd_d_eq d a : (d < nd e)%nat -> usd_d e s d a = usd_d e s' d a.
Proof. intros Hd. unfold usd_d. rewrite (mkt_eq d Hd). reflexivity. Qed.
Lemma ltv_d_eq d : (d < nd e)%nat -> ltv_d s d = ltv_d s' d.
Proof. intros Hd. open Q. unfold ltv_d. rw. reflexivity. Qed.
Lemma cf_d_eq d : (d < nd e)%nat -> cf_d s d = cf_d s' d.
Proof. intros Hd. open Q. unfold cf_d. rw. reflexivity. Qed.
Lemma keeper_pct_eq d : (d < nd e)%nat -> keeper_pct s d = keeper_pct s' d.
Proof. intros Hd. open Q. unfold keeper_pct. rw. reflexivity. Qed.

Lemma all_priced_eq c c' : ext1 (nd e) c c' -> all_priced e s c = all_priced e s' c'.
Proof.
  intros Hc. unfold all_priced. rewrite (denoms_ext _ _ _ Hc). apply forallb_ext_in.
  intros d Hd. rewrite (mkt_eq d) by ir. reflexivity.
Qed.
Lemma value_of_eq c c' : ext1 (nd e) c c' -> value_of e s c = value_of e s' c'.
Proof.
  intros Hc. unfold value_of. rewrite (denoms_ext _ _ _ Hc). apply sum_over_ext.
  intros d Hd. rewrite (usd_d_eq d) by ir. rw. reflexivity.
Qed.
Lemma borrowable_of_eq c c' : ext1 (nd e) c c' -> borrowable_of e s c = borrowable_of e s' c'.
Proof.
  intros Hc. unfold borrowable_of. rewrite (denoms_ext _ _ _ Hc). apply sum_over_ext.
  intros d Hd. rewrite (usd_d_eq d), (ltv_d_eq d) by ir. rw. reflexivity.
Qed.
Lemma within_ltv_eq a a' b b' : ext1 (nd e) a a' -> ext1 (nd e) b b' ->
  within_ltv e s a b = within_ltv e s' a' b'.
Proof.
  intros Ha Hb. unfold within_ltv.
  rewrite (all_priced_eq a a' Ha), (all_priced_eq b b' Hb), (borrowable_of_eq a a' Ha), (value_of_eq b b' Hb).
  reflexivity.
Qed.

Lemma keeper_reward_ext dp dp' : ext1 (nd e) dp dp' -> ext1 (nd e) (keeper_reward s dp) (keeper_reward s' dp').
Proof. intros H d Hd. unfold keeper_reward. rewrite (keeper_pct_eq d Hd), (H d Hd). reflexivity. Qed.

Lemma dec_supplied_steq c c' : ext1 (nd e) c c' -> orel (steq e) (dec_supplied e s c) (dec_supplied e s' c').
Proof.
  intros Hc. open Q. unfold dec_supplied. rewrite (cempty_ext _ _ _ Qtsup).
  destruct (cempty _ _); [exact I|]. cbn. fields. apply dec_clamp_ext; assumption.
Qed.
Lemma dec_borrowed_steq c c' : ext1 (nd e) c c' -> orel (steq e) (dec_borrowed e s c) (dec_borrowed e s' c').
Proof.
  intros Hc. open Q. unfold dec_borrowed. rewrite (cempty_ext _ _ _ Qtbor).
  destruct (cempty _ _); [exact I|]. cbn. fields. apply dec_clamp_ext; assumption.
Qed.

End Cong.

(** * incentive hooks, interest synchronisation *)

Lemma hook_ok_eq n o o' : oureq n o o' -> hook_ok n o = hook_ok n o'.
Proof.
  intros H. orec H r r' Ha Hi; [|reflexivity]. cbn. rewrite (denoms_ext _ _ _ Ha), Hi. reflexivity.
Qed.

Definition cireq (n : nat) (x x' : coins * index) : Prop := ext1 n (fst x) (fst x') /\ snd x = snd x'.

Lemma sync_sup_coin_rel n sf sf' a a' acc acc' d :
  ext1 n sf sf' -> ext1 n a a' -> (d < n)%nat -> orel (cireq n) acc acc' ->
  orel (cireq n) (sync_sup_coin sf a acc d) (sync_sup_coin sf' a' acc' d).
Proof.
  intros Hsf Ha Hd H. unfold sync_sup_coin.
  destruct acc as [[tot ix] []| |], acc' as [[tot' ix'] []| |]; cbn in H |- *; try contradiction; try exact I.
  destruct H as [Ht Hi]; cbn in Ht, Hi; subst ix'. unfold fac0. rewrite (Hsf d Hd), (Ha d Hd).
  destruct (idx_get d ix) as [uf|]; cbn.
  - destruct (uf =? 0); cbn; [exact I|]. split; cbn; [|reflexivity].
    destruct (0 <? _); [apply upd_ext|]; exact Ht.
  - split; cbn; [exact Ht|reflexivity].
Qed.

Lemma sync_sup_rec_rel n sf sf' r r' : ext1 n sf sf' -> ureq n r r' ->
  orel (ureq n) (sync_sup_rec n sf r) (sync_sup_rec n sf' r').
Proof.
  intros Hsf [Ha Hi]. unfold sync_sup_rec. rewrite (denoms_ext _ _ _ Ha), Hi.
  apply (bind_rel (cireq n)).
  - apply (fold_left_rel (orel (cireq n))).
    + intros d acc acc' Hd Hacc. apply sync_sup_coin_rel; try assumption. eapply denoms_lt, Hd.
    + cbn. split; cbn; [apply ext1_refl|reflexivity].
  - intros x x' [Hx1 Hx2]. cbn. split; cbn; [apply cadd_ext; assumption|exact Hx2].
Qed.

Lemma sync_bor_coin_rel n bf bf' a a' acc acc' d :
  ext1 n bf bf' -> ext1 n a a' -> (d < n)%nat -> orel (cireq n) acc acc' ->
  orel (cireq n) (sync_bor_coin bf a acc d) (sync_bor_coin bf' a' acc' d).
Proof.
  intros Hbf Ha Hd H. unfold sync_bor_coin.
  destruct acc as [[tot ix] []| |], acc' as [[tot' ix'] []| |]; cbn in H |- *; try contradiction; try exact I.
  destruct H as [Ht Hi]; cbn in Ht, Hi; subst ix'. unfold fac0. rewrite (Hbf d Hd), (Ha d Hd).
  destruct (idx_get d ix) as [uf|]; cbn.
  - destruct (uf =? 0); cbn; [exact I|]. destruct (_ <? 0); cbn; [exact I|].
    split; cbn; [|reflexivity]. apply upd_ext; exact Ht.
  - split; cbn; [exact Ht|reflexivity].
Qed.

Lemma sync_bor_rec_rel n bf bf' r r' : ext1 n bf bf' -> ureq n r r' ->
  orel (ureq n) (sync_bor_rec n bf r) (sync_bor_rec n bf' r').
Proof.
  intros Hbf [Ha Hi]. unfold sync_bor_rec. rewrite (denoms_ext _ _ _ Ha), Hi.
  apply (bind_rel (cireq n)).
  - apply (fold_left_rel (orel (cireq n))).
    + intros d acc acc' Hd Hacc. apply sync_bor_coin_rel; try assumption. eapply denoms_lt, Hd.
    + cbn. split; cbn; [apply ext1_refl|reflexivity].
  - intros x x' [Hx1 Hx2]. cbn. split; cbn; [apply cadd_ext; assumption|exact Hx2].
Qed.

Lemma sync_supply_steq e s s' u : steq e s s' -> (u < nu e)%nat ->
  orel (steq e) (sync_supply e s u) (sync_supply e s' u).
Proof.
  intros Q Hu. open Q. unfold sync_supply. pose proof (Qdep u Hu) as H.
  orec H r r' Ha Hi; [|exact Q].
  apply (bind_rel (ureq (nd e))); [apply sync_sup_rec_rel; [assumption|split; assumption]|].
  intros x x' Hx. cbn. fields. apply upd_oureq; assumption.
Qed.

Lemma sync_borrow_steq e s s' u : steq e s s' -> (u < nu e)%nat ->
  orel (steq e) (sync_borrow e s u) (sync_borrow e s' u).
Proof.
  intros Q Hu. open Q. unfold sync_borrow. pose proof (Qbor u Hu) as H.
  orec H r r' Ha Hi; [|exact Q].
  apply (bind_rel (ureq (nd e))); [apply sync_bor_rec_rel; [assumption|split; assumption]|].
  intros x x' Hx. cbn. fields. apply upd_oureq; assumption.
Qed.

(* loadSyncedDeposit / loadSyncedBorrow *)
Lemma load_coin_f_rel intf n gf gf' r r' acc acc' d :
  ext1 n gf gf' -> ureq n r r' -> (d < n)%nat -> orel (ext1 n) acc acc' ->
  orel (ext1 n) (load_coin_f intf gf r acc d) (load_coin_f intf gf' r' acc' d).
Proof.
  intros Hgf [Ha Hi] Hd H. unfold load_coin_f.
  destruct acc as [tot []| |], acc' as [tot' []| |]; cbn in H |- *; try contradiction; try exact I.
  rewrite (Hgf d Hd), Hi, (Ha d Hd).
  destruct (gf' d) as [f|]; [|exact H]. destruct (idx_get d (idx r')) as [uf|]; [|exact H].
  destruct (uf =? 0); [exact I|]. destruct (_ <? 0); [exact I|]. cbn. apply upd_ext, H.
Qed.

Lemma load_synced_f_rel intf n gf gf' r r' : ext1 n gf gf' -> ureq n r r' ->
  orel (ext1 n) (load_synced_f intf n gf r) (load_synced_f intf n gf' r').
Proof.
  intros Hgf Hr. pose proof Hr as [Ha Hi]. unfold load_synced_f. rewrite (denoms_ext _ _ _ Ha).
  apply (bind_rel (ext1 n)).
  - apply (fold_left_rel (orel (ext1 n))).
    + intros d acc acc' Hd Hacc. apply load_coin_f_rel; try assumption. eapply denoms_lt, Hd.
    + cbn. apply ext1_refl.
  - intros x x' Hx. cbn. apply cadd_ext; assumption.
Qed.

Lemma load_coin_is_f gf r acc d : load_coin gf r acc d = load_coin_f bor_interest gf r acc d.
Proof. reflexivity. Qed.

Lemma load_synced_rel n gf gf' r r' : ext1 n gf gf' -> ureq n r r' ->
  orel (ext1 n) (load_synced n gf r) (load_synced n gf' r').
Proof. intros Hgf Hr. apply (load_synced_f_rel bor_interest n gf gf' r r' Hgf Hr). Qed.

(* relation on the optional results GetSyncedDeposit / GetSyncedBorrow report *)
Definition osrel (n : nat) (o o' : option (res coins)) : Prop :=
  match o, o' with
  | Some r, Some r' => orel (ext1 n) r r'
  | None, None => True
  | _, _ => False
  end.

Lemma synced_deposit_rel e s s' u : steq e s s' -> (u < nu e)%nat ->
  osrel (nd e) (synced_deposit e s u) (synced_deposit e s' u).
Proof.
  intros Q Hu. open Q. unfold synced_deposit. pose proof (Qdep u Hu) as H.
  orec H r r' Ha Hi; [|exact I]. cbn. apply load_synced_f_rel; [assumption|split; assumption].
Qed.
Lemma synced_borrow_rel e s s' u : steq e s s' -> (u < nu e)%nat ->
  osrel (nd e) (synced_borrow e s u) (synced_borrow e s' u).
Proof.
  intros Q Hu. open Q. unfold synced_borrow. pose proof (Qbor u Hu) as H.
  orec H r r' Ha Hi; [|exact I]. cbn. apply load_synced_rel; [assumption|split; assumption].
Qed.

Lemma sres_of_rel n o o' : osrel n o o' -> sres_of n o = sres_of n o'.
Proof.
  destruct o as [[c []| |]|], o' as [[c' []| |]|]; cbn; intros H; try contradiction; try reflexivity.
  unfold vec. rewrite (map_seq_ext n c c' H). reflexivity.
Qed.

(** * messages *)

Ltac reopen Q :=
  let Q' := fresh "Q" in
  pose proof Q as Q'; destruct Q' as [? ? ? ? ? ? ? ? ? ? ? ?].
Ltac gd :=
  match goal with
  | |- orel _ (bind (opt_err ?o) _) (bind (opt_err ?o) _) =>
      destruct o; cbn [opt_err bind ret]; [|exact I]
  | |- orel _ (bind (?g ?b) _) (bind (?g ?b) _) =>
      destruct b; cbn [err_unless panic_unless bind ret]; [|exact I]
  end.
(* rewrite the body of a forallb / existsb / filter whose function mentions state [s] *)
Ltac extb s :=
  repeat match goal with
  | |- context [forallb ?f ?l] =>
      match f with context [s] => erewrite (forallb_ext_in f _ l) by (intros; cbv beta; rw; reflexivity) end
  | |- context [existsb ?f ?l] =>
      match f with context [s] => erewrite (existsb_ext_in f _ l) by (intros; cbv beta; rw; reflexivity) end
  end.

Lemma is_some_eq n o o' : oureq n o o' ->
  (match o with Some _ => true | None => false end) = (match o' with Some _ => true | None => false end).
Proof. destruct o, o'; cbn; intros H; try contradiction; reflexivity. Qed.
Lemma idx_or_nil_eq n o o' : oureq n o o' ->
  (match o with Some r => idx r | None => [] end) = (match o' with Some r => idx r | None => [] end).
Proof. destruct o, o'; cbn; intros H; try contradiction; [apply H|reflexivity]. Qed.

Lemma init_facs_ext n mk mk' get get' cl :
  ext1 n mk mk' -> ext1 n get get' -> (forall d, In d cl -> (d < n)%nat) ->
  ext1 n (init_facs mk get cl) (init_facs mk' get' cl).
Proof.
  intros Hmk Hget Hcl. unfold init_facs. apply (fold_left_rel (ext1 n)); [|exact Hget].
  intros d f f' Hd Hf. rewrite (Hf d (Hcl d Hd)), (Hmk d (Hcl d Hd)).
  destruct (f' d); [exact Hf|]. destruct (mk' d); [apply upd_ext|]; exact Hf.
Qed.

Lemma set_idx_found_eq n gf gf' cl ix :
  ext1 n gf gf' -> (forall d, In d cl -> (d < n)%nat) -> set_idx_found gf cl ix = set_idx_found gf' cl ix.
Proof.
  intros Hgf Hcl. unfold set_idx_found. apply (fold_left_rel eq); [|reflexivity].
  intros d a a' Hd ->. rewrite (Hgf d (Hcl d Hd)). reflexivity.
Qed.

Lemma has_mkts_eq e s s' l : steq e s s' -> (forall d, In d l -> (d < nd e)%nat) ->
  forallb (fun d => match mkts s d with Some _ => true | None => false end) l
  = forallb (fun d => match mkts s' d with Some _ => true | None => false end) l.
Proof. intros Q Hl. open Q. apply forallb_ext_in. intros d Hd. rewrite (Qmkts d (Hl d Hd)). reflexivity. Qed.

(* the record stored after a change of amounts *)
Lemma newrec_oureq n a a' ix : ext1 n a a' ->
  oureq n (if cempty n a then None else Some (mkU a ix)) (if cempty n a' then None else Some (mkU a' ix)).
Proof.
  intros H. rewrite (cempty_ext _ _ _ H). destruct (cempty n a'); cbn; [exact I|]. split; [exact H|reflexivity].
Qed.

Lemma deposit_steq e s s' u c : steq e s s' -> (u < nu e)%nat ->
  orel (steq e) (deposit e s u c) (deposit e s' u c).
Proof.
  intros Q Hu. unfold deposit. cbv zeta.
  assert (Hcl : forall d, In d (denoms (nd e) c) -> (d < nd e)%nat) by (intros d Hd; eapply denoms_lt, Hd).
  assert (Q1 : steq e (set_sfac s (init_facs (mkts s) (sfac s) (denoms (nd e) c)))
                      (set_sfac s' (init_facs (mkts s') (sfac s') (denoms (nd e) c)))).
  { open Q. fields. apply init_facs_ext; assumption. }
  revert Q1. generalize (set_sfac s (init_facs (mkts s) (sfac s) (denoms (nd e) c))).
  generalize (set_sfac s' (init_facs (mkts s') (sfac s') (denoms (nd e) c))).
  intros t' t Q1. open Q1.
  rewrite (hook_ok_eq _ _ _ (Qdep u Hu)). gd.
  apply (bind_rel (steq e)); [apply sync_supply_steq; assumption|]. intros t2 t2' Q2.
  rewrite (has_mkts_eq e t2 t2' _ Q2 Hcl). gd.
  apply (bind_rel (steq e)); [apply bsend_steq; [exact Q2|ir|apply ext1_refl]|]. intros t3 t3' Q3.
  reopen Q3. cbn [ret orel].
  assert (Ha : ext1 (nd e) (cadd (amt_of (dep t3 u)) c) (cadd (amt_of (dep t3' u)) c))
    by (apply cadd_ext; [apply amt_of_ext, (q_dep _ _ _ Q3), Hu|apply ext1_refl]).
  fields.
  - apply upd_oureq; [assumption|].
    rewrite (set_idx_found_eq (nd e) (sfac t3) (sfac t3') _ _ (q_sfac _ _ _ Q3) Hcl), (idx_or_nil_eq _ _ _ (q_dep _ _ _ Q3 u Hu)).
    apply newrec_oureq, Ha.
  - apply cadd_ext; [assumption|apply ext1_refl].
Qed.

Lemma withdraw_steq e s s' u c : steq e s s' -> (u < nu e)%nat ->
  orel (steq e) (withdraw e s u c) (withdraw e s' u c).
Proof.
  intros Q Hu. unfold withdraw. open Q.
  rewrite (is_some_eq _ _ _ (Qdep u Hu)). gd.
  rewrite (hook_ok_eq _ _ _ (Qdep u Hu)). gd.
  rewrite (hook_ok_eq _ _ _ (Qbor u Hu)). gd.
  apply (bind_rel (steq e)); [apply sync_borrow_steq; assumption|]. intros t1 t1' Q1.
  apply (bind_rel (steq e)); [apply sync_supply_steq; assumption|]. intros t2 t2' Q2.
  reopen Q2. pose proof (q_dep _ _ _ Q2 u Hu) as H. orec H r r' Ha Hi; [|exact I].
  assert (Hamt : ext1 (nd e) (capped e c (amt r)) (capped e c (amt r')))
    by (apply capped_ext; [apply ext1_refl|exact Ha]).
  assert (Hprop : ext1 (nd e) (csub (amt r) (capped e c (amt r))) (csub (amt r') (capped e c (amt r'))))
    by (apply csub_ext; assumption).
  cbv zeta.
  rewrite (subset_of_ext e c c (amt r) (amt r') (ext1_refl _ _) Ha). gd.
  rewrite (cany_neg_ext _ _ _ Hprop). gd.
  rewrite (within_ltv_eq e t2 t2' Q2 _ _ _ _ Hprop (amt_of_ext _ _ _ (q_bor _ _ _ Q2 u Hu))). gd. gd.
  apply (bind_rel (steq e)); [apply bsend_steq; [exact Q2|ir|exact Hamt]|]. intros t3 t3' Q3.
  rewrite (denoms_ext _ _ _ Ha), Hi.
  rewrite (filter_ext_in (fun d => csub (amt r) (capped e c (amt r)) d =? 0)
                         (fun d => csub (amt r') (capped e c (amt r')) d =? 0) (denoms (nd e) (amt r')))
    by (intros d Hd; rewrite (Hprop d) by ir; reflexivity).
  gd.
  apply dec_supplied_steq; [|exact Hamt].
  reopen Q3. fields. apply upd_oureq; [assumption|]. apply newrec_oureq, Hprop.
Qed.

Lemma validate_borrow_eq e s s' u c : steq e s s' -> (u < nu e)%nat ->
  validate_borrow e s u c = validate_borrow e s' u c.
Proof.
  intros Q Hu. open Q. unfold validate_borrow. cbv zeta.
  assert (Hf : ext1 (nd e) (fun d => if c d =? 0 then 0 else bal s (hacc e) d - tres s d)
                           (fun d => if c d =? 0 then 0 else bal s' (hacc e) d - tres s' d))
    by (intros d Hd; cbv beta; rw; reflexivity).
  rewrite (cany_neg_ext _ _ _ Hf), (cempty_ext _ _ _ Hf).
  rewrite (all_priced_eq e s s' Q c c (ext1_refl _ _)), (value_of_eq e s s' Q c c (ext1_refl _ _)).
  extb s.
  pose proof (Qdep u Hu) as H. orec H r r' Ha Hi; [|reflexivity].
  rewrite (all_priced_eq e s s' Q _ _ Ha), (borrowable_of_eq e s s' Q _ _ Ha).
  pose proof (amt_of_ext _ _ _ (Qbor u Hu)) as Hb.
  rewrite (all_priced_eq e s s' Q _ _ Hb), (value_of_eq e s s' Q _ _ Hb).
  rewrite (within_ltv_eq e s s' Q _ _ _ _ Ha (cadd_ext _ _ _ _ _ Hb (ext1_refl _ c))).
  reflexivity.
Qed.

Lemma borrow_steq e s s' u c : steq e s s' -> (u < nu e)%nat ->
  orel (steq e) (borrow e s u c) (borrow e s' u c).
Proof.
  intros Q Hu. unfold borrow. cbv zeta.
  assert (Hcl : forall d, In d (denoms (nd e) c) -> (d < nd e)%nat) by (intros d Hd; eapply denoms_lt, Hd).
  assert (Q1 : steq e (set_bfac s (init_facs (mkts s) (bfac s) (denoms (nd e) c)))
                      (set_bfac s' (init_facs (mkts s') (bfac s') (denoms (nd e) c)))).
  { open Q. fields. apply init_facs_ext; assumption. }
  revert Q1. generalize (set_bfac s (init_facs (mkts s) (bfac s) (denoms (nd e) c))).
  generalize (set_bfac s' (init_facs (mkts s') (bfac s') (denoms (nd e) c))).
  intros t' t Q1. open Q1.
  rewrite (hook_ok_eq _ _ _ (Qdep u Hu)). gd.
  rewrite (hook_ok_eq _ _ _ (Qbor u Hu)). gd.
  apply (bind_rel (steq e)); [apply sync_supply_steq; assumption|]. intros t1 t1' Q2.
  apply (bind_rel (steq e)); [apply sync_borrow_steq; assumption|]. intros t2 t2' Q3.
  rewrite (validate_borrow_eq e t2 t2' u c Q3 Hu).
  destruct (validate_borrow e t2' u c) as [[] []| |]; cbn [bind]; [|exact I|exact I].
  apply (bind_rel (steq e)); [apply bsend_steq; [exact Q3|ir|apply ext1_refl]|]. intros t3 t3' Q4.
  reopen Q4. cbn [ret orel].
  assert (Ha : ext1 (nd e) (cadd (amt_of (bor t3 u)) c) (cadd (amt_of (bor t3' u)) c))
    by (apply cadd_ext; [apply amt_of_ext, (q_bor _ _ _ Q4), Hu|apply ext1_refl]).
  fields.
  - apply upd_oureq; [assumption|].
    rewrite (set_idx_found_eq (nd e) (bfac t3) (bfac t3') _ _ (q_bfac _ _ _ Q4) Hcl), (idx_or_nil_eq _ _ _ (q_bor _ _ _ Q4 u Hu)).
    apply newrec_oureq, Ha.
  - apply cadd_ext; [assumption|apply ext1_refl].
Qed.

Lemma repay_steq e s s' a b c : steq e s s' -> (a < nu e)%nat -> (b < nu e)%nat ->
  orel (steq e) (repay e s a b c) (repay e s' a b c).
Proof.
  intros Q Hu Hb. unfold repay. open Q.
  rewrite (is_some_eq _ _ _ (Qbor b Hb)). gd.
  rewrite (hook_ok_eq _ _ _ (Qbor b Hb)). gd.
  apply (bind_rel (steq e)); [apply sync_borrow_steq; assumption|]. intros t1 t1' Q1.
  reopen Q1. pose proof (q_bor _ _ _ Q1 b Hb) as H. orec H r r' Ha Hi; [|exact I].
  assert (Hpay : ext1 (nd e) (capped e c (amt r)) (capped e c (amt r')))
    by (apply capped_ext; [apply ext1_refl|exact Ha]).
  assert (Hnew : ext1 (nd e) (csub (amt r) (capped e c (amt r))) (csub (amt r') (capped e c (amt r'))))
    by (apply csub_ext; assumption).
  cbv zeta.
  rewrite (subset_of_ext e c c (amt r) (amt r') (ext1_refl _ _) Ha). gd.
  rewrite (all_priced_eq e t1 t1' Q1 _ _ Ha). gd.
  rewrite (can_pay_eq e t1 t1' Q1 a _ _ ltac:(ir) Hpay). gd.
  rewrite (value_of_eq e t1 t1' Q1 _ _ Ha), (value_of_eq e t1 t1' Q1 _ _ Hpay), (coins_eqb_ext _ _ _ _ _ Hpay Ha).
  gd.
  apply (bind_rel (steq e)); [apply bsend_steq; [exact Q1|ir|exact Hpay]|]. intros t2 t2' Q2.
  rewrite (denoms_ext _ _ _ Hpay), Hi.
  rewrite (filter_ext_in (fun d => capped e c (amt r) d =? amt r d)
                         (fun d => capped e c (amt r') d =? amt r' d) (denoms (nd e) (capped e c (amt r'))))
    by (intros d Hd; rewrite (Hpay d), (Ha d) by ir; reflexivity).
  gd.
  rewrite (cany_neg_ext _ _ _ Hnew). gd.
  apply dec_borrowed_steq; [|exact Hpay].
  reopen Q2. fields. apply upd_oureq; [assumption|]. apply newrec_oureq, Hnew.
Qed.

(** * liquidation *)

Definition areq (e : env) (a a' : astate) : Prop :=
  steq e (a_s a) (a_s a') /\ ext1 (nd e) (a_bv a) (a_bv a') /\ ext1 (nd e) (a_dv a) (a_dv a')
  /\ ext1 (nd e) (a_bor a) (a_bor a') /\ ext1 (nd e) (a_dep a) (a_dep a') /\ a_max a = a_max a'.

Definition t3rel (e : env) (x x' : state * coins * coins) : Prop :=
  steq e (fst (fst x)) (fst (fst x')) /\ ext1 (nd e) (snd (fst x)) (snd (fst x')) /\ ext1 (nd e) (snd x) (snd x').

Lemma start_auction_rel e a a' macc macc' bk dk lot0 bid :
  areq e a a' -> ext1 (nd e) macc macc' -> (bk < nd e)%nat -> (dk < nd e)%nat ->
  orel (t3rel e) (start_auction e a macc bk dk lot0 bid) (start_auction e a' macc' bk dk lot0 bid).
Proof.
  intros (Hs & Hbv & Hdv & Hbo & Hde & Hmx) Hm Hbk Hdk. unfold start_auction. cbv zeta.
  gd. gd. rewrite (Hm dk Hdk), (Hde dk Hdk). gd.
  apply (bind_rel (steq e)); [apply bsend_steq; [exact Hs|ir|apply ext1_refl]|]. intros t1 t1' Q1.
  apply (bind_rel (steq e)); [apply dec_supplied_steq; [exact Q1|apply ext1_refl]|]. intros t2 t2' Q2.
  apply (bind_rel (steq e)); [apply dec_borrowed_steq; [exact Q2|apply ext1_refl]|]. intros t3 t3' Q3.
  rewrite (csub_ext _ _ _ _ _ Hbo (ext1_refl _ (csingle bk bid)) bk Hbk). gd.
  cbn [ret orel]. split; [|split]; cbn [fst snd].
  - exact Q3.
  - apply csub_ext; [exact Hbo|apply ext1_refl].
  - destruct (macc' dk <? lot0); [apply upd_ext; exact Hde|apply csub_ext; [exact Hde|apply ext1_refl]].
Qed.

Lemma upd_same {A} (f : nat -> A) d v : upd f d v d = v.
Proof. unfold upd. rewrite Nat.eqb_refl. reflexivity. Qed.

Lemma areq_intro e t t' bv bv' dv dv' bo bo' de de' m :
  steq e t t' -> ext1 (nd e) bv bv' -> ext1 (nd e) dv dv' -> ext1 (nd e) bo bo' -> ext1 (nd e) de de' ->
  areq e (mkA t bv dv bo de m) (mkA t' bv' dv' bo' de' m).
Proof.
  intros. unfold areq. cbn [a_s a_bv a_dv a_bor a_dep a_max]. repeat (split; [assumption|]). reflexivity.
Qed.

Lemma auction_step_rel e ltv macc macc' bk acc acc' dk :
  ext1 (nd e) macc macc' -> (bk < nd e)%nat -> (dk < nd e)%nat -> orel (areq e) acc acc' ->
  orel (areq e) (auction_step e ltv macc bk acc dk) (auction_step e ltv macc' bk acc' dk).
Proof.
  intros Hm Hbk Hdk H. unfold auction_step. apply (bind_rel (areq e)); [exact H|].
  intros a a' Ha. pose proof Ha as (Hs & Hbv & Hdv & Hbo & Hde & Hmx). cbv zeta.
  rewrite Hmx, (Hdv dk Hdk). destruct (a_max a' =? 0); [exact Ha|].
  destruct (a_max a' <=? a_dv a' dk).
  - rewrite (cf_d_eq e _ _ Hs dk Hdk), (q_price _ _ _ Hs dk Hdk), (Hbo bk Hbk).
    destruct (dquo _ _) as [lotsize []| |]; cbn [bind]; try exact I.
    destruct (dec_trunc_int lotsize =? 0); [exact Ha|].
    apply (bind_rel (t3rel e)); [apply start_auction_rel; assumption|].
    intros [[t bo] de] [[t' bo'] de'] (H1 & H2 & H3); cbn [fst snd] in H1, H2, H3.
    cbn [ret orel]. apply areq_intro; try assumption; apply upd_ext; assumption.
  - rewrite (cf_d_eq e _ _ Hs bk Hbk), (q_price _ _ _ Hs bk Hbk), (Hde dk Hdk).
    destruct (dquo _ _) as [bidsize []| |]; cbn [bind]; try exact I.
    destruct ((dec_trunc_int bidsize =? 0) || (a_dep a' dk =? 0))%bool; [exact Ha|].
    apply (bind_rel (t3rel e)); [apply start_auction_rel; assumption|].
    intros [[t bo] de] [[t' bo'] de'] (H1 & H2 & H3); cbn [fst snd] in H1, H2, H3.
    rewrite (Hbv bk Hbk), !upd_same.
    destruct (dquo _ _) as [m []| |]; cbn [bind]; try exact I.
    cbn [ret orel]. apply areq_intro; try assumption; apply upd_ext; assumption.
Qed.

Lemma borrow_step_rel e ltv macc macc' dkeys acc acc' bk :
  ext1 (nd e) macc macc' -> (forall d, In d dkeys -> (d < nd e)%nat) -> (bk < nd e)%nat ->
  orel (areq e) acc acc' ->
  orel (areq e) (borrow_step e ltv macc dkeys acc bk) (borrow_step e ltv macc' dkeys acc' bk).
Proof.
  intros Hm Hdk Hbk H. unfold borrow_step. apply (bind_rel (areq e)); [exact H|].
  intros a a' (Hs & Hbv & Hdv & Hbo & Hde & Hmx). rewrite (Hbv bk Hbk).
  destruct (dquo _ _) as [m []| |]; cbn [bind]; try exact I.
  apply (fold_left_rel (orel (areq e))).
  - intros d x x' Hd Hx. apply auction_step_rel; try assumption. apply Hdk, Hd.
  - cbn [ret orel]. apply areq_intro; assumption.
Qed.

Lemma return_step_rel e b deps deps' acc acc' dk :
  ext1 (nd e) deps deps' -> (dk < nd e)%nat -> orel (steq e) acc acc' ->
  orel (steq e) (return_step e b deps acc dk) (return_step e b deps' acc' dk).
Proof.
  intros Hde Hdk H. unfold return_step. apply (bind_rel (steq e)); [exact H|].
  intros t t' Qt. rewrite (Hde dk Hdk). destruct (0 <? deps' dk); [|exact Qt].
  apply bsend_steq; [exact Qt|ir|apply ext1_refl].
Qed.

Lemma start_auctions_rel e s s' b bw bw' aucdep aucdep' dvals dvals' bvals bvals' ltv :
  steq e s s' -> ext1 (nd e) bw bw' -> ext1 (nd e) aucdep aucdep' ->
  ext1 (nd e) dvals dvals' -> ext1 (nd e) bvals bvals' ->
  orel (steq e) (start_auctions e s b bw aucdep dvals bvals ltv)
                (start_auctions e s' b bw' aucdep' dvals' bvals' ltv).
Proof.
  intros Q Hbw Hau Hdv Hbv. unfold start_auctions. cbv zeta.
  rewrite (denoms_ext _ _ _ Hbw), (denoms_ext _ _ _ Hau).
  assert (Hm : ext1 (nd e) (bal s (hacc e)) (bal s' (hacc e)))
    by (intros d Hd; apply (q_bal _ _ _ Q); ir).
  apply (bind_rel (areq e)).
  - apply (fold_left_rel (orel (areq e))).
    + intros bk x x' Hbk Hx. apply borrow_step_rel; try assumption.
      * intros d Hd. eapply denoms_lt, Hd.
      * eapply denoms_lt, Hbk.
    + cbn [ret orel]. apply areq_intro; assumption.
  - intros a a' (Hs & _ & _ & _ & Hde & _).
    apply (fold_left_rel (orel (steq e))).
    + intros dk x x' Hdk Hx. apply return_step_rel; try assumption. eapply denoms_lt, Hdk.
    + exact Hs.
Qed.

Lemma seize_steq e s s' k b dp dp' bw bw' :
  steq e s s' -> ext1 (nd e) dp dp' -> ext1 (nd e) bw bw' ->
  orel (steq e) (seize e s k b dp bw) (seize e s' k b dp' bw').
Proof.
  intros Q Hdp Hbw. unfold seize. cbv zeta.
  pose proof (keeper_reward_ext e s s' Q dp dp' Hdp) as Hrw.
  apply (bind_rel (steq e)).
  - rewrite (cempty_ext _ _ _ Hrw). destruct (cempty _ _); [exact Q|].
    apply (bind_rel (steq e)); [apply dec_supplied_steq; assumption|]. intros t t' Qt.
    apply bsend_steq; [exact Qt|ir|exact Hrw].
  - intros t t' Qt.
    assert (Hau : ext1 (nd e) (csub dp (keeper_reward s dp)) (csub dp' (keeper_reward s' dp')))
      by (apply csub_ext; assumption).
    rewrite (cany_neg_ext _ _ _ Hau). gd.
    assert (Hdv : ext1 (nd e)
              (fun d => if csub dp (keeper_reward s dp) d =? 0 then 0 else usd_d e t d (csub dp (keeper_reward s dp) d))
              (fun d => if csub dp' (keeper_reward s' dp') d =? 0 then 0 else usd_d e t' d (csub dp' (keeper_reward s' dp') d))).
    { intros d Hd. cbv beta. rewrite (Hau d Hd), (usd_d_eq e t t' Qt d _ Hd). reflexivity. }
    assert (Hbv : ext1 (nd e) (fun d => if bw d =? 0 then 0 else usd_d e t d (bw d))
                              (fun d => if bw' d =? 0 then 0 else usd_d e t' d (bw' d))).
    { intros d Hd. cbv beta. rewrite (Hbw d Hd), (usd_d_eq e t t' Qt d _ Hd). reflexivity. }
    rewrite (denoms_ext _ _ _ Hau), (denoms_ext _ _ _ Hbw).
    rewrite (sum_over_ext (denoms (nd e) (csub dp' (keeper_reward s' dp'))) _ _
               (fun d Hd => Hdv d (denoms_lt _ _ _ Hd))).
    rewrite (sum_over_ext (denoms (nd e) bw') _ _ (fun d Hd => Hbv d (denoms_lt _ _ _ Hd))).
    destruct (_ =? 0); [exact Qt|].
    apply start_auctions_rel; assumption.
Qed.

Lemma liquidate_steq e s s' k b : steq e s s' -> (k < nu e)%nat -> (b < nu e)%nat ->
  orel (steq e) (liquidate e s k b) (liquidate e s' k b).
Proof.
  intros Q Hk Hb. unfold liquidate. open Q.
  rewrite (is_some_eq _ _ _ (Qdep b Hb)). gd.
  rewrite (is_some_eq _ _ _ (Qbor b Hb)). gd.
  rewrite (hook_ok_eq _ _ _ (Qdep b Hb)). gd.
  rewrite (hook_ok_eq _ _ _ (Qbor b Hb)). gd.
  apply (bind_rel (steq e)); [apply sync_borrow_steq; assumption|]. intros t1 t1' Q1.
  apply (bind_rel (steq e)); [apply sync_supply_steq; assumption|]. intros t2 t2' Q2.
  pose proof (q_dep _ _ _ Q2 b Hb) as H1. pose proof (q_bor _ _ _ Q2 b Hb) as H2.
  orec H1 dp dp' Ha Hi; [|exact I]. orec H2 bw bw' Hc Hj; [|exact I].
  rewrite (within_ltv_eq e t2 t2' Q2 _ _ _ _ Ha Hc). gd. gd.
  apply (bind_rel (steq e)); [apply seize_steq; assumption|]. intros t3 t3' Q3.
  cbn [ret orel]. reopen Q3. fields; apply upd_oureq; try assumption; exact I.
Qed.

(** * interest accrual, begin blocker *)

Ltac fsolve :=
  repeat first [ assumption | apply ext1_refl | apply upd_ext | apply cadd_ext | apply csub_ext ].

Lemma accrue_steq e s s' d t f : steq e s s' -> (d < nd e)%nat ->
  orel (steq e) (accrue e s d t f) (accrue e s' d t f).
Proof.
  intros Q Hd. open Q. unfold accrue. cbv zeta.
  cbn [bal price dep bor sfac bfac prev tsup tbor tres params mkts
       set_bal set_price set_dep set_bor set_sfac set_bfac set_prev set_tsup set_tbor set_tres set_params set_mkts].
  rw. destruct (prev s' d) as [p|]; [|cbn [ret orel]; fields; fsolve].
  destruct (t - p =? 0); [exact Q|].
  destruct (tbor s' d =? 0); [cbn [ret orel]; fields; fsolve|].
  destruct (mkts s' d) as [m|]; [|exact I].
  destruct (borrow_rate _ _ _ _) as [apy []| |]; cbn [bind]; try exact I.
  gd. destruct (_ && _)%bool; [cbn [ret orel]; fields; fsolve|].
  gd. gd. gd. cbn [ret orel]. fields; fsolve.
Qed.

Lemma apply_param_market_rel e t fs acc acc' d : (d < nd e)%nat -> orel (steq e) acc acc' ->
  orel (steq e) (apply_param_market e t fs acc d) (apply_param_market e t fs acc' d).
Proof.
  intros Hd H. unfold apply_param_market. apply (bind_rel (steq e)); [exact H|].
  intros a a' Qa. open Qa. rw. destruct (params a' d) as [pm|]; [|exact Qa]. cbv zeta.
  destruct (mkts a' d) as [m|].
  - apply (bind_rel (steq e)); [apply accrue_steq; assumption|]. intros b b' Qb.
    cbn [ret orel]. destruct (market_eqb m pm); [exact Qb|]. reopen Qb. fields; fsolve.
  - apply (bind_rel (steq e)); [apply accrue_steq; [fields; fsolve|assumption]|]. intros b b' Qb.
    cbn [ret orel]. destruct (market_eqb pm pm); [exact Qb|]. reopen Qb. fields; fsolve.
Qed.

Lemma drop_removed_market_rel e t fs acc acc' d : (d < nd e)%nat -> orel (steq e) acc acc' ->
  orel (steq e) (drop_removed_market e t fs acc d) (drop_removed_market e t fs acc' d).
Proof.
  intros Hd H. unfold drop_removed_market. apply (bind_rel (steq e)); [exact H|].
  intros a a' Qa. open Qa. rw. destruct (mkts a' d) as [m|]; [|exact Qa].
  destruct (params a' d) as [pm|]; [exact Qa|].
  apply (bind_rel (steq e)); [apply accrue_steq; assumption|]. intros b b' Qb.
  cbn [ret orel]. reopen Qb. fields; fsolve.
Qed.

Lemma begin_block_steq e s s' t fs : steq e s s' ->
  orel (steq e) (begin_block e s t fs) (begin_block e s' t fs).
Proof.
  intros Q. unfold begin_block.
  assert (H : orel (steq e)
            (fold_left (drop_removed_market e t fs) (seq 0 (nd e))
               (fold_left (apply_param_market e t fs) (seq 0 (nd e)) (ret s)))
            (fold_left (drop_removed_market e t fs) (seq 0 (nd e))
               (fold_left (apply_param_market e t fs) (seq 0 (nd e)) (ret s')))).
  { apply (fold_left_rel (orel (steq e))).
    - intros d x x' Hd Hx. apply drop_removed_market_rel; [apply in_seq0, Hd|exact Hx].
    - apply (fold_left_rel (orel (steq e))).
      + intros d x x' Hd Hx. apply apply_param_market_rel; [apply in_seq0, Hd|exact Hx].
      + exact Q. }
  destruct (fold_left _ _ _) as [a []| |], (fold_left _ _ _) as [a' []| |]; cbn in H |- *;
    try contradiction; try exact I. exact H.
Qed.

(** * every operation *)

Theorem step_steq e s s' o : steq e s s' -> orel (steq e) (step e s o) (step e s' o).
Proof.
  intros Q. destruct o; cbn [step].
  - destruct (_ && _)%bool eqn:H; [|exact I]. ltb. apply deposit_steq; assumption.
  - destruct (_ && _)%bool eqn:H; [|exact I]. ltb. apply withdraw_steq; assumption.
  - destruct (_ && _)%bool eqn:H; [|exact I]. ltb. apply borrow_steq; assumption.
  - destruct (_ && _ && _)%bool eqn:H; [|exact I]. ltb. apply repay_steq; assumption.
  - destruct (_ && _)%bool eqn:H; [|exact I]. ltb. apply liquidate_steq; assumption.
  - destruct (_ && _)%bool eqn:H; [|exact I]. ltb. open Q. cbn [ret orel]. fields; fsolve.
  - destruct (_ && _ && _)%bool eqn:H; [|exact I]. ltb. apply bsend_steq; [exact Q|ir|apply ext1_refl].
  - apply begin_block_steq, Q.
  - open Q. cbn [ret orel]. fields; fsolve.
Qed.

Corollary step_class_steq e s s' o : steq e s s' -> class_of (step e s o) = class_of (step e s' o).
Proof. intros Q. apply (orel_class (steq e)), step_steq, Q. Qed.

Corollary step'_steq e s s' o : steq e s s' -> steq e (step' e s o) (step' e s' o).
Proof.
  intros Q. unfold step'. pose proof (step_steq e s s' o Q) as H.
  destruct (step e s o), (step e s' o); cbn in H; try contradiction; assumption.
Qed.

Corollary run_steq e ops : forall s s', steq e s s' -> steq e (run e s ops) (run e s' ops).
Proof.
  unfold run. induction ops as [|o ops IH]; intros s s' Q; cbn [fold_left]; [exact Q|].
  apply IH, step'_steq, Q.
Qed.

(** * the compared view and the boolean invariant *)

Lemma vrec_of_eq n o o' : oureq n o o' -> vrec_of n o = vrec_of n o'.
Proof.
  intros H. orec H r r' Ha Hi; [|reflexivity]. cbn. unfold vec. rewrite (map_seq_ext n _ _ Ha), Hi. reflexivity.
Qed.

Theorem project_steq e s s' : steq e s s' -> project e s = project e s'.
Proof.
  intros Q. open Q. unfold project. cbv zeta. f_equal.
  - apply map_seq_ext. intros a Ha. unfold vec. apply map_seq_ext. intros d Hd. apply Qbal; assumption.
  - apply map_seq_ext. intros u Hu. apply vrec_of_eq, Qdep, Hu.
  - apply map_seq_ext. intros u Hu. apply vrec_of_eq, Qbor, Hu.
  - apply map_seq_ext. intros u Hu. apply sres_of_rel, synced_deposit_rel; assumption.
  - apply map_seq_ext. intros u Hu. apply sres_of_rel, synced_borrow_rel; assumption.
  - apply map_seq_ext, Qsfac.
  - apply map_seq_ext, Qbfac.
  - apply map_seq_ext, Qprev.
  - apply map_seq_ext, Qtsup.
  - apply map_seq_ext, Qtbor.
  - apply map_seq_ext, Qtres.
  - apply map_seq_ext. intros d Hd. rewrite (Qmkts d Hd). reflexivity.
Qed.

Lemma rec_ok_eq n chk o o' : oureq n o o' -> rec_ok n chk o = rec_ok n chk o'.
Proof.
  intros H. orec H r r' Ha Hi; [|reflexivity]. cbn. rewrite (cempty_ext _ _ _ Ha), Hi.
  apply (f_equal2 andb); [|reflexivity]. apply forallb_seq_ext. intros d Hd. rewrite (Ha d Hd). reflexivity.
Qed.

Theorem inv_b_steq e s s' : steq e s s' -> inv_b e s = inv_b e s'.
Proof.
  intros Q. open Q. unfold inv_b. apply (f_equal2 andb); [apply (f_equal2 andb)|].
  - apply forallb_seq_ext. intros u Hu.
    rewrite (rec_ok_eq _ _ _ _ (Qdep u Hu)), (rec_ok_eq _ _ _ _ (Qbor u Hu)). reflexivity.
  - apply forallb_seq_ext. intros d Hd. rw. reflexivity.
  - apply forallb_seq_ext. intros a Ha. apply forallb_seq_ext. intros d Hd. rw. reflexivity.
Qed.

(** * the plain checker: no re-tabulation, [step] / [step'] only *)

Fixpoint first_mismatch_plain (e : env) (s : state) (sh : view) (h : list (op * obs)) (i : nat) : option nat :=
  match h with
  | [] => None
  | (o, ob) :: r =>
      let s' := step' e s o in
      let sh' := apply_obs sh ob in
      if oracle_ok o
         && rclass_eqb (class_of (step e s o)) (o_class ob)
         && view_eqb (project e s') sh'
         && inv_b e s'
      then first_mismatch_plain e s' sh' r (S i)
      else Some i
  end.

Definition check_history_plain (h : history) : option nat :=
  if inv_b (h_env h) (h_init h)
  then first_mismatch_plain (h_env h) (h_init h) (project (h_env h) (h_init h)) (h_steps h) 0
  else Some 0%nat.

Fixpoint mismatches_plain_from (i : nat) (hs : list history) : list (nat * nat) :=
  match hs with
  | [] => []
  | h :: r =>
      match check_history_plain h with
      | None => mismatches_plain_from (S i) r
      | Some k => (i, k) :: mismatches_plain_from (S i) r
      end
  end.
Definition mismatches_plain := mismatches_plain_from 0.

(* the states the plain checker visits are the plain run's *)
Lemma first_mismatch_plain_states e h : forall s sh i,
  first_mismatch_plain e s sh h i = None ->
  forall k, (k <= length h)%nat ->
    let st := run e s (map fst (firstn k h)) in
    inv_b e st = true /\ view_eqb (project e st) (fold_left apply_obs (map snd (firstn k h)) sh) = true
    \/ k = 0%nat.
Proof.
  induction h as [|[o ob] h IH]; intros s sh i H k Hk; cbn [length] in Hk.
  - right. lia.
  - destruct k as [|k]; [right; reflexivity|]. left. cbn [first_mismatch_plain] in H. cbv zeta in H.
    destruct (_ && _ && _ && _)%bool eqn:Hc; [|discriminate].
    apply andb_prop in Hc. destruct Hc as [Hc Hinv]. apply andb_prop in Hc. destruct Hc as [_ Hview].
    cbn [firstn map fst snd fold_left]. unfold run. cbn [fold_left].
    destruct (IH _ _ _ H k ltac:(lia)) as [HH | ->]; [exact HH|]. cbn. split; assumption.
Qed.

(** * the retabulated checker computes the plain one *)

Lemma first_mismatch_retab_eq_plain e h : forall s s' sh i, steq e s s' ->
  first_mismatch e s sh h i = first_mismatch_plain e s' sh h i.
Proof.
  induction h as [|[o ob] h IH]; intros s s' sh i Q; cbn [first_mismatch first_mismatch_plain]; [reflexivity|].
  cbv zeta.
  assert (Q1 : steq e (normalize e (match step e s o with Ok s1 _ => s1 | _ => s end)) (step' e s' o)).
  { eapply steq_trans; [apply normalize_steq|]. apply (step'_steq e s s' o Q). }
  rewrite (step_class_steq e s s' o Q), (project_steq _ _ _ Q1), (inv_b_steq _ _ _ Q1).
  destruct (_ && _ && _ && _)%bool; [|reflexivity].
  apply IH, Q1.
Qed.

Theorem check_history_retab_eq_plain h : check_history h = check_history_plain h.
Proof.
  unfold check_history, check_history_plain. destruct (inv_b _ _); [|reflexivity].
  apply first_mismatch_retab_eq_plain, steq_refl.
Qed.

Lemma mismatches_from_retab_eq_plain hs : forall i, mismatches_from i hs = mismatches_plain_from i hs.
Proof.
  induction hs as [|h hs IH]; intros i; cbn [mismatches_from mismatches_plain_from]; [reflexivity|].
  rewrite check_history_retab_eq_plain, !IH. reflexivity.
Qed.

Theorem mismatches_retab_eq_plain hs : mismatches hs = mismatches_plain hs.
Proof. apply mismatches_from_retab_eq_plain. Qed.

Corollary mismatches_nil_iff_plain hs :
  mismatches hs = [] <-> forall h, In h hs -> check_history_plain h = None.
Proof.
  rewrite mismatches_retab_eq_plain. unfold mismatches_plain. generalize 0%nat.
  induction hs as [|h hs IH]; intros i; cbn [mismatches_plain_from].
  - split; [intros _ h []|reflexivity].
  - destruct (check_history_plain h) eqn:E.
    + split; [discriminate|]. intros H. specialize (H h (or_introl eq_refl)). congruence.
    + rewrite IH. split.
      * intros H h' [<-|Hin]; [exact E|apply H, Hin].
      * intros H h' Hin. apply H. right. exact Hin.
Qed.
