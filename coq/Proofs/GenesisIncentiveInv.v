(* x/incentive genesis round trip, second part: the invariant of C09 AFTER an import, and the
   equality of the whole observable projection.

   Proofs/GenesisIncentive.v proves the component-wise identity of the store on the identifier
   universe; [Inv] (Proofs/Incentive.v) after the import needs more, because InitGenesis of an
   export rebuilds the store from the records of the universe only:
     - a user without a claim object must have no stored reward and no user indexes (the export
       has no record for him; after the import they read as zero),
     - nothing may live outside the universe: no claim of a user >= nusers, no global index and
       no stored reward in a reward denom >= ndenoms.
   [Tight] states exactly that (plus: times are not the zero time, which InitGenesis refuses).
   It is preserved by every operation of the machine (Block, Change, SetTotal, Claim, Other,
   Revalue, BkAcc, SetParams), by the re-tabulation of the checker and by the re-import itself,
   PROVIDED the reward periods only reward denoms of the universe and no period end / block
   time is the zero time ([env_adm], [op_adm], [xop_adm]: hypotheses on the HISTORY; Go's
   MultiRewardPeriod.Validate refuses zero start / end times, the model's [raw_ok] does not
   look at them). *)
From Kava Require Import Base.Prelude Base.Dec Model.Accumulator Model.Incentive Proofs.Incentive.
From Kava Require Import Model.GenesisIncentive Proofs.GenesisIncentive.
Require Import ZifyBool ZifyNat.
Local Open Scope Z_scope.

(** * The strengthening *)

Record Tight (e : env) (st : state) : Prop := mkTight {
  T_user : forall u, (nusers e <= u)%nat -> has_claim st u = false;
  T_rew : forall u, has_claim st u = false -> forall d, rew st u d = 0;
  T_uidx : forall u, has_claim st u = false -> forall p d, u_idx st u p d = 0;
  T_den : forall p d, (ndenoms e <= d)%nat -> g_idx st p d = 0;
  T_rewden : forall u d, (ndenoms e <= d)%nat -> rew st u d = 0;
  T_now : now st <> ZERO_T;
  T_time : forall p t, g_time st p = Some t -> t <> ZERO_T
}.

(* the reward periods of the params reward denoms of the universe only and do not end at the
   zero time *)
Definition env_adm (e : env) : Prop :=
  forall p pd, periods e p = Some pd ->
    p_end pd <> ZERO_T /\ forall d, (ndenoms e <= d)%nat -> p_rate pd d = 0.

Definition op_adm (o : op) : Prop :=
  match o with
  | Block t => t <> ZERO_T
  | BkAcc _ pd _ _ _ => p_end pd <> ZERO_T
  | _ => True
  end.

Definition raw_adm (nd : nat) (r : raw_period) : Prop :=
  let '(_, b, rates) := r in b <> ZERO_T /\ (length rates <= nd)%nat.

Definition xop_adm (nd : nat) (o : xop) : Prop :=
  match o with
  | O o => op_adm o
  | SetParams pds _ => forall r, In (Some r) pds -> raw_adm nd r
  end.

Lemma new_reward_zero_rate T dur : new_reward 0 T dur = 0.
Proof.
  unfold new_reward. destruct (T <=? 0); [reflexivity|]. cbv zeta. destruct (_ <=? 0); [reflexivity|].
  unfold index_increment, dec_mul, dec_of_int. cbn [Z.mul]. change (chop_round 0) with 0. apply dec_quo_zero.
Qed.

Lemma idx_out e st u p d : Inv e st -> Tight e st -> (ndenoms e <= d)%nat ->
  g_idx st p d = 0 /\ u_idx st u p d = 0.
Proof.
  intros I T Hd. pose proof (T_den e st T p d Hd) as G. pose proof (I_idx e st I u p d) as B. split; lia.
Qed.

(** * Every operation keeps it *)

Lemma block_tight e st t st' : env_adm e -> Tight e st -> t <> ZERO_T -> block e st t = Ok st' tt -> Tight e st'.
Proof.
  intros A [Tu Tr Ti Td Trd Tn Tt] Ht H. unfold block in H. destruct (t <? now st); [discriminate|].
  destruct (existsb _ _); [discriminate|]. inversion H; subst st'; clear H.
  constructor; sproj; [exact Tu|exact Tr|exact Ti| |exact Trd|exact Ht|].
  - intros p d Hd. rewrite (Td p d Hd). unfold pool_inc, pool_val. destruct (periods e p) as [pd|] eqn:Ep; [|reflexivity].
    destruct (pool_dur e st t p); [|reflexivity]. destruct (A p pd Ep) as [_ R]. rewrite (R d Hd), new_reward_zero_rate. reflexivity.
  - intros p x. destruct (periods e p) as [pd|] eqn:Ep; [|apply Tt].
    intros Hx. inversion Hx. destruct (A p pd Ep) as [E _]. lia.
Qed.

Lemma change_tight e st u p s' T' st' : Inv e st -> Tight e st -> change e st u p s' T' = Ok st' tt -> Tight e st'.
Proof.
  intros I T H. pose proof (idx_out e st u p) as IO. unfold change in H.
  destruct (in_range e u p) eqn:Er; cbn [negb] in H; [|discriminate].
  destruct (_ || _); [discriminate|].
  unfold in_range in Er. apply andb_prop in Er. destruct Er as [Hu _]. apply Nat.ltb_lt in Hu.
  destruct T as [Tu Tr Ti Td Trd Tn Tt].
  destruct (sh st u p =? 0).
  - inversion H; subst st'; clear H. unfold set_shares, init_claim.
    constructor; sproj; [| | |exact Td|exact Trd|exact Tn|exact Tt].
    + intros u' Hu'. destruct (Nat.eqb_spec u' u); [lia|]. apply Tu; exact Hu'.
    + intros u'. destruct (Nat.eqb_spec u' u); [discriminate|]. apply Tr.
    + intros u'. destruct (Nat.eqb_spec u' u); [discriminate|]. intros Hc p' d. cbn [andb]. apply Ti; exact Hc.
  - destruct (has_claim st u) eqn:Hc.
    + destruct (sync_ok e st u p); [|discriminate]. inversion H; subst st'; clear H. unfold set_shares, sync_pool.
      constructor; sproj; [exact Tu| | |exact Td| |exact Tn|exact Tt].
      * intros u' Hc' d. destruct (Nat.eqb_spec u' u) as [->|]; [congruence|]. apply Tr; exact Hc'.
      * intros u' Hc' p' d. destruct (Nat.eqb_spec u' u) as [->|]; [congruence|]. cbn [andb]. apply Ti; exact Hc'.
      * intros u' d Hd. destruct (Nat.eqb u' u); [|apply Trd; exact Hd]. rewrite (Trd u d Hd).
        destruct (IO d I (mkTight e st Tu Tr Ti Td Trd Tn Tt) Hd) as [G U]. rewrite G, U. change (0 - 0) with 0.
        rewrite sync_reward_zero. reflexivity.
    + inversion H; subst st'; clear H. unfold set_shares. constructor; sproj; assumption.
Qed.

Lemma set_total_tight e st p T' st' : Tight e st -> set_total e st p T' = Ok st' tt -> Tight e st'.
Proof.
  intros [Tu Tr Ti Td Trd Tn Tt] H. unfold set_total in H. destruct (_ || _); [discriminate|].
  inversion H; subst st'; clear H. constructor; sproj; assumption.
Qed.

Lemma revalue_tight e st u p s' st' : Tight e st -> revalue e st u p s' = Ok st' tt -> Tight e st'.
Proof.
  intros [Tu Tr Ti Td Trd Tn Tt] H. unfold revalue in H. destruct (negb _); [discriminate|].
  destruct (_ <? _); [discriminate|]. destruct (_ && _); [discriminate|].
  inversion H; subst st'; clear H. constructor; sproj; assumption.
Qed.

Lemma claim_tight e st u d m st' : Inv e st -> Tight e st -> claim e st u d m = Ok st' tt -> Tight e st'.
Proof.
  intros I T H. pose proof (fun p => idx_out e st u p) as IO. unfold claim in H. destruct m as [m|]; [|discriminate].
  destruct (negb _); [discriminate|]. destruct (_ <? _); [discriminate|].
  destruct (has_claim st u) eqn:Hc; cbn [negb] in H; [|discriminate]. destruct (negb _); [discriminate|].
  cbv zeta in H. destruct (_ <? 0); [discriminate|]. destruct (_ =? 0); [discriminate|]. destruct (_ <? _); [discriminate|].
  inversion H; subst st'; clear H. pose proof T as T0. destruct T as [Tu Tr Ti Td Trd Tn Tt].
  unfold sync_all. constructor; sproj; [exact Tu| | |exact Td| |exact Tn|exact Tt].
  - intros u' Hc' d'. destruct (Nat.eqb_spec u' u) as [->|]; [congruence|]. cbn [andb]. apply Tr; exact Hc'.
  - intros u' Hc' p' d'. destruct (Nat.eqb_spec u' u) as [->|]; [congruence|]. cbn [andb]. apply Ti; exact Hc'.
  - intros u' d' Hd. destruct (Nat.eqb u' u && Nat.eqb d' d); [reflexivity|].
    destruct (Nat.eqb u' u); [|apply Trd; exact Hd]. rewrite (Trd u d' Hd).
    rewrite sN_zero; [reflexivity|]. intros p _. destruct (IO p d' I T0 Hd) as [G U]. rewrite G, U. change (0 - 0) with 0.
    apply sync_reward_zero.
Qed.

Lemma bk_acc_tight e st p pd v V stk st' : Inv e st -> Tight e st -> p_end pd <> ZERO_T ->
  bk_acc e st p pd v V stk = Ok st' tt -> Tight e st'.
Proof.
  intros I T He H. destruct (bk_acc_ok _ _ _ _ _ _ _ _ I H) as [dur [Hp [Ep [Hd [Hrw [Hs ->]]]]]].
  cbv zeta. destruct T as [Tu Tr Ti Td Trd Tn Tt].
  constructor; sproj; [exact Tu|exact Tr|exact Ti| |exact Trd|exact Tn|].
  - intros p' d Hd'. rewrite !(Td _ d Hd'). destruct (Nat.eqb p' p); [|reflexivity].
    unfold bk_rw. destruct (Nat.ltb_spec d (ndenoms e)); [lia|]. unfold bk_increment.
    destruct (_ <=? 0); [reflexivity|]. rewrite dec_quo_zero. reflexivity.
  - intros p' x. destruct (Nat.eqb p' p); [|apply Tt]. intros Hx. inversion Hx. lia.
Qed.

Lemma step_tight e st o st' : env_adm e -> Inv e st -> Tight e st -> op_adm o ->
  step e st o = Ok st' tt -> Tight e st'.
Proof.
  intros A I T Ad H. destruct o as [t|u p s' T'|p T'|u d m|ok|u p s'|p pd v V stk]; cbn [step] in H; cbn [op_adm] in Ad.
  - eapply block_tight; eassumption.
  - eapply change_tight; eassumption.
  - eapply set_total_tight; eassumption.
  - eapply claim_tight; eassumption.
  - destruct ok; [inversion H; subst; exact T|discriminate].
  - eapply revalue_tight; eassumption.
  - eapply bk_acc_tight; eassumption.
Qed.

(** * Parameter changes *)

Lemma Tight_params e pds cend st : Tight e st -> Tight (with_params e pds cend) st.
Proof. intros T. constructor; apply T. Qed.

Lemma with_params_adm e pds cend : (forall r, In (Some r) pds -> raw_adm (ndenoms e) r) ->
  env_adm (with_params e pds cend).
Proof.
  intros F p pd E. cbn [with_params periods ndenoms] in *.
  destruct (nth p pds None) as [r|] eqn:En; [|discriminate]. inversion E; subst pd; clear E.
  assert (Hin : In (Some r) pds).
  { destruct (nth_in_or_default p pds None) as [Hin|Hd]; [rewrite En in Hin; exact Hin|congruence]. }
  specialize (F r Hin). destruct r as [[a b] rates]. cbn [raw_adm of_raw] in *. destruct F as [Fb Fl].
  unfold mk_period. cbn [p_end p_rate]. split; [exact Fb|]. intros d Hd. unfold nthZ. apply nth_overflow. lia.
Qed.

(* what holds along the histories: C09's invariants, the strengthening, admissible params *)
Record GInv (xs : xstate) : Prop := mkGInv {
  G_x : XInv xs;
  G_tight : Tight (x_env xs) (x_st xs);
  G_adm : env_adm (x_env xs)
}.

Lemma xstep_ginv xs o xs' : GInv xs -> xop_adm (ndenoms (x_env xs)) o -> xstep xs o = Ok xs' tt -> GInv xs'.
Proof.
  intros [X T A] Ad H. pose proof (xstep_inv xs o xs' X H) as X'. constructor; [exact X'| |].
  - destruct o as [o|pds cend]; cbn [xstep] in H.
    + destruct (step (x_env xs) (x_st xs) o) as [s' []| |] eqn:E; try discriminate.
      inversion H; subst xs'; clear H. cbn [x_env x_st]. eapply step_tight; try eassumption. apply X.
    + destruct (forallb _ pds); [|discriminate]. inversion H; subst xs'; clear H. cbn [x_env x_st].
      apply Tight_params. exact T.
  - destruct o as [o|pds cend]; cbn [xstep] in H.
    + destruct (step (x_env xs) (x_st xs) o) as [s' []| |]; try discriminate.
      inversion H; subst xs'; clear H. exact A.
    + destruct (forallb _ pds); [|discriminate]. inversion H; subst xs'; clear H. cbn [x_env].
      apply with_params_adm. exact Ad.
Qed.

Lemma xstep_ndenoms xs o xs' u : xstep xs o = Ok xs' u ->
  nusers (x_env xs') = nusers (x_env xs) /\ npools (x_env xs') = npools (x_env xs) /\ ndenoms (x_env xs') = ndenoms (x_env xs).
Proof.
  destruct o as [o|pds cend]; cbn [xstep].
  - destruct (step _ _ o); try discriminate. intros H; inversion H; subst. repeat split.
  - destruct (forallb _ pds); [|discriminate]. intros H; inversion H; subst. repeat split.
Qed.

(** * The re-import *)

(* InitGenesis touches the incentive store only: everything else, the history variables
   included, is the exported state's *)
Lemma reimport_rest e st st' : reimport e st = Ok st' tt ->
  integral st' = integral st /\ due st' = due st /\ nsync st' = nsync st /\ claimed st' = claimed st /\
  emitted st' = emitted st /\ accslack st' = accslack st /\ drift st' = drift st /\
  overshare st' = overshare st /\ emitted_x st' = emitted_x st.
Proof.
  unfold reimport, init_genesis. destruct (negb _); [discriminate|]. destruct (existsb _ _); [discriminate|].
  intros H. inversion H; subst st'. sproj. repeat split.
Qed.

Lemma Inv_nonneg e st : Inv e st -> Nonneg st.
Proof.
  intros I. constructor.
  - intros p d. pose proof (I_idx e st I 0%nat p d). lia.
  - intros u p d. pose proof (I_idx e st I u p d). lia.
  - apply (I_rew e st I).
Qed.

(* under the strengthening the imported store is the exported one on EVERY user and reward
   denom (and every pool of the universe) *)
Record Same (e : env) (st st' : state) : Prop := mkSame {
  S_now : now st' = now st;
  S_tot : tot st' = tot st;
  S_sh : sh st' = sh st;
  S_macc : macc st' = macc st;
  S_bal : bal st' = bal st;
  S_time : forall p, g_time st' p = if Nat.ltb p (npools e) then g_time st p else None;
  S_gidx : forall p d, g_idx st' p d = if Nat.ltb p (npools e) then g_idx st p d else 0;
  S_claim : forall u, has_claim st' u = has_claim st u;
  S_uidx : forall u p d, u_idx st' u p d = if Nat.ltb p (npools e) then u_idx st u p d else 0;
  S_rew : forall u d, rew st' u d = rew st u d
}.

Lemma reimport_same e st : Inv e st -> Tight e st ->
  validate_genesis (export_genesis e st) = true /\ exists st', reimport e st = Ok st' tt /\ Same e st st'.
Proof.
  intros I T. destruct (roundtrip e st (Inv_nonneg e st I) (T_time e st T)) as [V [st' [E (En & Et & Es & Em & Eb & Eg & Ei & Ec & Eu & Er)]]].
  split; [exact V|]. exists st'. split; [exact E|].
  assert (NC : forall u, Nat.ltb u (nusers e) && has_claim st u = has_claim st u).
  { intros u. destruct (Nat.ltb_spec u (nusers e)); [reflexivity|]. cbn [andb]. symmetry. apply (T_user e st T). lia. }
  constructor; try assumption.
  - intros p d. rewrite Ei. destruct (Nat.ltb p (npools e)); [|reflexivity]. cbn [andb].
    destruct (Nat.ltb_spec d (ndenoms e)); [reflexivity|]. symmetry. apply (T_den e st T). lia.
  - intros u. rewrite Ec. apply NC.
  - intros u p d. rewrite Eu, NC. destruct (has_claim st u) eqn:Hc; cbn [andb].
    + destruct (Nat.ltb p (npools e)); [|reflexivity]. cbn [andb].
      destruct (Nat.ltb_spec d (ndenoms e)); [reflexivity|]. symmetry. apply (idx_out e st u p d I T). lia.
    + rewrite (T_uidx e st T u Hc). destruct (Nat.ltb p (npools e)); reflexivity.
  - intros u d. rewrite Er, NC. destruct (has_claim st u) eqn:Hc; cbn [andb].
    + destruct (Nat.ltb_spec d (ndenoms e)); [reflexivity|]. symmetry. apply (T_rewden e st T). lia.
    + symmetry. apply (T_rew e st T u Hc).
Qed.

Lemma phi_same e st st' u d : Same e st st' -> phi e st' u d = phi e st u d.
Proof.
  intros S. unfold phi. apply sN_ext. intros p Hp. rewrite (S_gidx e st st' S), (S_uidx e st st' S), (S_sh e st st' S).
  apply Nat.ltb_lt in Hp. rewrite Hp. reflexivity.
Qed.

Lemma same_inv e st st' : Same e st st' -> reimport e st = Ok st' tt -> Inv e st -> Inv e st'.
Proof.
  intros S E I. destruct (reimport_rest e st st' E) as (Hi & Hd & Hn & Hc & _ & _ & Hdr & _ & _).
  constructor.
  - intros p x. rewrite (S_time e st st' S), (S_now e st st' S). destruct (Nat.ltb p (npools e)); [apply (I_time e st I)|discriminate].
  - intros u p d. rewrite (S_gidx e st st' S), (S_uidx e st st' S). destruct (Nat.ltb p (npools e)); [apply (I_idx e st I)|lia].
  - rewrite (S_sh e st st' S). apply (I_sh e st I).
  - rewrite (S_tot e st st' S). apply (I_tot e st I).
  - intros u. rewrite (S_claim e st st' S), (S_sh e st st' S). apply (I_noclaim e st I).
  - intros u d. rewrite (S_rew e st st' S). apply (I_rew e st I).
  - intros u d. rewrite (phi_same e st st' u d S), Hi, Hd, Hdr. apply (I_exact e st I).
  - intros u d. rewrite (S_rew e st st' S), Hc, Hd, Hn. apply (I_round e st I).
  - intros u d. rewrite Hn. apply (I_nsync e st I).
Qed.

Lemma same_tight e st st' : Same e st st' -> Tight e st -> Tight e st'.
Proof.
  intros S T. constructor.
  - intros u Hu. rewrite (S_claim e st st' S). apply (T_user e st T u Hu).
  - intros u. rewrite (S_claim e st st' S). intros Hc d. rewrite (S_rew e st st' S). apply (T_rew e st T u Hc).
  - intros u. rewrite (S_claim e st st' S). intros Hc p d. rewrite (S_uidx e st st' S), (T_uidx e st T u Hc).
    destruct (Nat.ltb p (npools e)); reflexivity.
  - intros p d Hd. rewrite (S_gidx e st st' S), (T_den e st T p d Hd). destruct (Nat.ltb p (npools e)); reflexivity.
  - intros u d Hd. rewrite (S_rew e st st' S). apply (T_rewden e st T u d Hd).
  - rewrite (S_now e st st' S). apply (T_now e st T).
  - intros p t. rewrite (S_time e st st' S). destruct (Nat.ltb p (npools e)); [apply (T_time e st T)|discriminate].
Qed.

Lemma same_over e st st' : reimport e st = Ok st' tt -> OverInv e st -> OverInv e st'.
Proof.
  intros E O. destruct (reimport_rest e st st' E) as (Hi & _ & _ & _ & He & Ha & _ & Ho & Hx).
  intros d. unfold OverInv in O. rewrite Hi, He, Ha, Ho, Hx. apply O.
Qed.

(** * The whole observable projection is the same *)

Lemma flat_map_ext_in {A B} (f g : A -> list B) l : (forall a, In a l -> f a = g a) -> flat_map f l = flat_map g l.
Proof.
  induction l as [|a r IH]; intros H; [reflexivity|]. cbn [flat_map]. rewrite (H a (or_introl eq_refl)), IH; [reflexivity|].
  intros x Hx. apply H. right; exact Hx.
Qed.

Lemma pending_same e st st' u d : Same e st st' -> pending e st' u d = pending e st u d.
Proof.
  intros S. unfold pending. rewrite (S_rew e st st' S). f_equal. apply sN_ext. intros p Hp.
  rewrite (S_gidx e st st' S), (S_uidx e st st' S), (S_sh e st st' S). apply Nat.ltb_lt in Hp. rewrite Hp. reflexivity.
Qed.

Lemma project_same e st st' : Same e st st' -> project e st' = project e st.
Proof.
  intros S. unfold project. cbv zeta. rewrite (S_now e st st' S), (S_macc e st st' S).
  apply (f_equal2 (@app Z)); [reflexivity|]. apply (f_equal2 (@app Z)).
  - apply flat_map_ext_in. intros p Hp. apply in_seq in Hp. assert (L : Nat.ltb p (npools e) = true) by (apply Nat.ltb_lt; lia).
    rewrite (S_time e st st' S), (S_tot e st st' S), L. apply (f_equal2 (@app Z)); [reflexivity|].
    apply map_ext. intros d. rewrite (S_gidx e st st' S), L. reflexivity.
  - apply (f_equal2 (@app Z)); [|reflexivity]. apply flat_map_ext_in. intros u _.
    rewrite (S_claim e st st' S). apply (f_equal2 (@app Z)); [reflexivity|]. apply (f_equal2 (@app Z)).
    + apply flat_map_ext_in. intros p Hp. apply in_seq in Hp. assert (L : Nat.ltb p (npools e) = true) by (apply Nat.ltb_lt; lia).
      rewrite (S_sh e st st' S). f_equal. apply map_ext. intros d. rewrite (S_uidx e st st' S), L. reflexivity.
    + apply (f_equal2 (@app Z)); [apply map_ext; intros d; apply (S_rew e st st' S)|].
      apply (f_equal2 (@app Z)); [|rewrite (S_bal e st st' S); reflexivity].
      apply map_ext. intros d. unfold synced. rewrite (S_claim e st st' S), (pending_same e st st' u d S). reflexivity.
Qed.

(** * Statements *)

(* the invariant of C09 holds again after the import, and so does the strengthening *)
Theorem imported_invariant e st st' : Inv e st -> Tight e st -> reimport e st = Ok st' tt ->
  Inv e st' /\ Tight e st'.
Proof.
  intros I T E. destruct (reimport_same e st I T) as [_ [s1 [E1 S]]]. rewrite E1 in E. injection E as <-.
  split; [eapply same_inv; eassumption|eapply same_tight; eassumption].
Qed.

Theorem roundtrip_observably_equal e st st' : Inv e st -> Tight e st -> reimport e st = Ok st' tt ->
  project e st' = project e st /\ forall u d, pending e st' u d = pending e st u d.
Proof.
  intros I T E. destruct (reimport_same e st I T) as [_ [s1 [E1 S]]]. rewrite E1 in E. injection E as <-.
  split; [apply project_same; exact S|intros u d; apply pending_same; exact S].
Qed.

(** * All histories: the operations of the machine, parameter changes and re-imports interleaved *)

Inductive gop :=
| GX (o : xop)
| GRe.

Definition gxstep (xs : xstate) (g : gop) : outcome xstate unit :=
  match g with
  | GX o => xstep xs o
  | GRe => match reimport (x_env xs) (x_st xs) with
           | Ok s' _ => Ok (mkX (x_env xs) s') tt
           | Err => Err
           | Panic => Panic
           end
  end.

Definition gxstep' (xs : xstate) (g : gop) : xstate := match gxstep xs g with Ok s' _ => s' | _ => xs end.
Definition gxrun (xs : xstate) (ops : list gop) : xstate := fold_left gxstep' ops xs.

Definition gop_adm (nd : nat) (g : gop) : Prop := match g with GX o => xop_adm nd o | GRe => True end.

Lemma gre_ginv xs : GInv xs ->
  exists st', reimport (x_env xs) (x_st xs) = Ok st' tt /\ GInv (mkX (x_env xs) st') /\
              project (x_env xs) st' = project (x_env xs) (x_st xs).
Proof.
  intros [[W I V] T A]. destruct (reimport_same _ _ I T) as [_ [st' [E S]]]. exists st'. split; [exact E|]. split.
  - constructor; cbn [x_env x_st]; [constructor; cbn [x_env x_st]| |exact A].
    + exact W.
    + eapply same_inv; eassumption.
    + eapply same_over; eassumption.
    + eapply same_tight; eassumption.
  - apply project_same. exact S.
Qed.

Lemma gxstep_ginv xs g xs' : GInv xs -> gop_adm (ndenoms (x_env xs)) g -> gxstep xs g = Ok xs' tt ->
  GInv xs' /\ ndenoms (x_env xs') = ndenoms (x_env xs).
Proof.
  intros G Ad H. destruct g as [o|]; cbn [gxstep gop_adm] in *.
  - split; [eapply xstep_ginv; eassumption|apply (xstep_ndenoms xs o xs' tt H)].
  - destruct (gre_ginv xs G) as [st' [E [G' _]]]. rewrite E in H. inversion H; subst xs'. split; [exact G'|reflexivity].
Qed.

Lemma gxrun_ginv ops : forall xs, GInv xs -> Forall (gop_adm (ndenoms (x_env xs))) ops ->
  GInv (gxrun xs ops) /\ ndenoms (x_env (gxrun xs ops)) = ndenoms (x_env xs).
Proof.
  induction ops as [|g ops IH]; intros xs G F; [split; [exact G|reflexivity]|].
  inversion F as [|? ? Hg Hr]; subst. cbn [gxrun fold_left]. fold (gxrun (gxstep' xs g) ops).
  assert (K : GInv (gxstep' xs g) /\ ndenoms (x_env (gxstep' xs g)) = ndenoms (x_env xs)).
  { unfold gxstep'. destruct (gxstep xs g) as [s' []| |] eqn:E; [|split; [exact G|reflexivity]..].
    apply (gxstep_ginv xs g s' G Hg E). }
  destruct K as [G' N]. rewrite <- N in Hr. destruct (IH _ G' Hr) as [G2 N2]. split; [exact G2|]. rewrite N2. exact N.
Qed.

Lemma init_tight e t0 m0 gt0 tot0 : t0 <> ZERO_T -> (forall p x, gt0 p = Some x -> x <> ZERO_T) ->
  Tight e (init t0 m0 gt0 tot0).
Proof. intros H0 Hg. unfold init. constructor; sproj; try (intros; reflexivity); assumption. Qed.

(* from every genesis of the machine, along every admissible history (re-imports included):
   the export validates, the import succeeds, C09's invariant and the emission bound hold
   on the imported state, and the whole projection compared with the implementation is equal *)
Theorem reimport_all_histories e t0 m0 gt0 tot0 ops :
  env_wf e -> env_adm e -> t0 <> ZERO_T ->
  (forall p x, gt0 p = Some x -> x <= t0 /\ x <> ZERO_T) -> (forall p, 0 <= tot0 p) ->
  Forall (gop_adm (ndenoms e)) ops ->
  let xs := gxrun (mkX e (init t0 m0 gt0 tot0)) ops in
  Inv (x_env xs) (x_st xs) /\
  validate_genesis (export_genesis (x_env xs) (x_st xs)) = true /\
  exists st', reimport (x_env xs) (x_st xs) = Ok st' tt /\
    Inv (x_env xs) st' /\ OverInv (x_env xs) st' /\
    project (x_env xs) st' = project (x_env xs) (x_st xs).
Proof.
  intros W A H0 Hg Ht F xs.
  assert (G0 : GInv (mkX e (init t0 m0 gt0 tot0))).
  { constructor; cbn [x_env x_st]; [apply xinit_inv; try assumption; intros p x Hx; apply (Hg p x Hx)| |exact A].
    apply init_tight; [exact H0|]. intros p x Hx. apply (Hg p x Hx). }
  destruct (gxrun_ginv ops _ G0 F) as [G _]. fold xs in G.
  split; [apply G|]. destruct G as [[W' I V] T A'].
  destruct (reimport_same _ _ I T) as [Vd [st' [E S]]]. split; [exact Vd|]. exists st'. split; [exact E|].
  split; [eapply same_inv; eassumption|]. split; [eapply same_over; eassumption|apply project_same; exact S].
Qed.

(** * The machine of the correspondence check: re-tabulation after every operation

   The checker (Model/Incentive.v xstep_list, Model/GenesisIncentive.v gapply / gfirst_mismatch)
   re-tabulates the state after every operation: same values inside the identifier universe,
   zero / none / false outside.  Everything above survives it, so the theorems hold for the
   very sequence of states the check compares with the implementation. *)

Lemma tab1_spec {A} (dflt : A) n f i : tab1 dflt n f i = if Nat.ltb i n then f i else dflt.
Proof.
  unfold tab1. destruct (Nat.ltb_spec i n) as [H|H].
  - rewrite (nth_indep _ dflt (f 0%nat)) by (rewrite map_length, seq_length; lia).
    rewrite map_nth, seq_nth by lia. reflexivity.
  - apply nth_overflow. rewrite map_length, seq_length. lia.
Qed.

Lemma tab2_spec n m f i j : tab2 n m f i j = if Nat.ltb i n && Nat.ltb j m then f i j else 0.
Proof.
  change (tab2 n m f i j) with (nth j (tab1 [] n (fun i => map (f i) (seq 0 m)) i) 0). rewrite tab1_spec.
  destruct (Nat.ltb i n); cbn [andb]; [|destruct j; reflexivity].
  change (nth j (map (f i) (seq 0 m)) 0) with (tab1 0 m (f i) j). apply tab1_spec.
Qed.

Lemma tab3_spec n m k f i j x :
  tab3 n m k f i j x = if Nat.ltb i n && (Nat.ltb j m && Nat.ltb x k) then f i j x else 0.
Proof.
  change (tab3 n m k f i j x) with (nth x (nth j (tab1 [] n (fun i => map (fun j => map (f i j) (seq 0 k)) (seq 0 m)) i) []) 0).
  rewrite tab1_spec. destruct (Nat.ltb i n); cbn [andb]; [|destruct j; destruct x; reflexivity].
  change (nth x (nth j (map (fun j => map (f i j) (seq 0 k)) (seq 0 m)) []) 0) with (tab2 m k (f i) j x). apply tab2_spec.
Qed.

Section Retab.
  Variables (e : env) (st : state).
  Let r := retab e st.
  Let nu := nusers e. Let np := npools e. Let nd := ndenoms e.

  Lemma rt_now : now r = now st. Proof. reflexivity. Qed.
  Lemma rt_time p : g_time r p = if Nat.ltb p np then g_time st p else None. Proof. apply tab1_spec. Qed.
  Lemma rt_gidx p d : g_idx r p d = if Nat.ltb p np && Nat.ltb d nd then g_idx st p d else 0. Proof. apply tab2_spec. Qed.
  Lemma rt_tot p : tot r p = if Nat.ltb p np then tot st p else 0. Proof. apply tab1_spec. Qed.
  Lemma rt_sh u p : sh r u p = if Nat.ltb u nu && Nat.ltb p np then sh st u p else 0. Proof. apply tab2_spec. Qed.
  Lemma rt_claim u : has_claim r u = if Nat.ltb u nu then has_claim st u else false. Proof. apply tab1_spec. Qed.
  Lemma rt_uidx u p d : u_idx r u p d = if Nat.ltb u nu && (Nat.ltb p np && Nat.ltb d nd) then u_idx st u p d else 0.
  Proof. apply tab3_spec. Qed.
  Lemma rt_rew u d : rew r u d = if Nat.ltb u nu && Nat.ltb d nd then rew st u d else 0. Proof. apply tab2_spec. Qed.
  Lemma rt_integral u d : integral r u d = if Nat.ltb u nu && Nat.ltb d nd then integral st u d else 0. Proof. apply tab2_spec. Qed.
  Lemma rt_due u d : due r u d = if Nat.ltb u nu && Nat.ltb d nd then due st u d else 0. Proof. apply tab2_spec. Qed.
  Lemma rt_nsync u d : nsync r u d = if Nat.ltb u nu && Nat.ltb d nd then nsync st u d else 0. Proof. apply tab2_spec. Qed.
  Lemma rt_claimed u d : claimed r u d = if Nat.ltb u nu && Nat.ltb d nd then claimed st u d else 0. Proof. apply tab2_spec. Qed.
  Lemma rt_drift u d : drift r u d = if Nat.ltb u nu && Nat.ltb d nd then drift st u d else 0. Proof. apply tab2_spec. Qed.
  Lemma rt_emitted d : emitted r d = if Nat.ltb d nd then emitted st d else 0. Proof. apply tab1_spec. Qed.
  Lemma rt_accslack d : accslack r d = if Nat.ltb d nd then accslack st d else 0. Proof. apply tab1_spec. Qed.
  Lemma rt_overshare d : overshare r d = if Nat.ltb d nd then overshare st d else 0. Proof. apply tab1_spec. Qed.
  Lemma rt_emitted_x d : emitted_x r d = if Nat.ltb d nd then emitted_x st d else 0. Proof. apply tab1_spec. Qed.

  Lemma retab_phi u d : phi e r u d = if Nat.ltb u nu && Nat.ltb d nd then phi e st u d else 0.
  Proof.
    unfold phi. destruct (Nat.ltb u nu && Nat.ltb d nd) eqn:C.
    - apply andb_prop in C. destruct C as [Cu Cd]. apply sN_ext. intros p Hp. apply Nat.ltb_lt in Hp.
      rewrite rt_gidx, rt_uidx, rt_sh. unfold np, nu, nd in *. rewrite Hp, Cu, Cd. reflexivity.
    - apply sN_zero. intros p _. rewrite rt_gidx, rt_uidx, rt_sh.
      destruct (Nat.ltb u nu); cbn [andb] in *; [|ring]. rewrite C. rewrite !andb_false_r. ring.
  Qed.

  Lemma retab_inv : Inv e st -> Inv e r.
  Proof.
    intros I. constructor.
    - intros p x. rewrite rt_time, rt_now. destruct (Nat.ltb p np); [apply (I_time e st I)|discriminate].
    - intros u p d. rewrite rt_gidx, rt_uidx. pose proof (I_idx e st I u p d).
      destruct (Nat.ltb u nu); destruct (Nat.ltb p np); destruct (Nat.ltb d nd); cbn [andb]; lia.
    - intros u p. rewrite rt_sh. pose proof (I_sh e st I u p). destruct (_ && _); lia.
    - intros p. rewrite rt_tot. pose proof (I_tot e st I p). destruct (Nat.ltb p np); lia.
    - intros u. rewrite rt_claim. intros Hc p. rewrite rt_sh. destruct (Nat.ltb u nu); cbn [andb]; [|reflexivity].
      rewrite (I_noclaim e st I u Hc p). destruct (Nat.ltb p np); reflexivity.
    - intros u d. rewrite rt_rew. pose proof (I_rew e st I u d). destruct (_ && _); lia.
    - intros u d. rewrite retab_phi, rt_due, rt_integral, rt_drift. destruct (_ && _); [apply (I_exact e st I)|reflexivity].
    - intros u d. rewrite rt_rew, rt_claimed, rt_due, rt_nsync. destruct (_ && _); [apply (I_round e st I)|cbn; lia].
    - intros u d. rewrite rt_nsync. pose proof (I_nsync e st I u d). destruct (_ && _); lia.
  Qed.

  Lemma retab_tight : Inv e st -> Tight e st -> Tight e r.
  Proof.
    intros I T. constructor.
    - intros u Hu. rewrite rt_claim. destruct (Nat.ltb_spec u nu); [unfold nu in *; lia|reflexivity].
    - intros u. rewrite rt_claim. intros Hc d. rewrite rt_rew. destruct (Nat.ltb u nu); cbn [andb]; [|reflexivity].
      rewrite (T_rew e st T u Hc). destruct (Nat.ltb d nd); reflexivity.
    - intros u. rewrite rt_claim. intros Hc p d. rewrite rt_uidx. destruct (Nat.ltb u nu); cbn [andb]; [|reflexivity].
      rewrite (T_uidx e st T u Hc). destruct (_ && _); reflexivity.
    - intros p d Hd. rewrite rt_gidx. destruct (Nat.ltb_spec d nd); [unfold nd in *; lia|]. rewrite andb_false_r. reflexivity.
    - intros u d Hd. rewrite rt_rew. destruct (Nat.ltb_spec d nd); [unfold nd in *; lia|]. rewrite andb_false_r. reflexivity.
    - rewrite rt_now. apply (T_now e st T).
    - intros p t. rewrite rt_time. destruct (Nat.ltb p np); [apply (T_time e st T)|discriminate].
  Qed.

  Lemma retab_over : OverInv e st -> OverInv e r.
  Proof.
    intros O d. destruct (O d) as [O0 O1]. rewrite rt_overshare, rt_emitted, rt_emitted_x, rt_accslack.
    destruct (Nat.ltb d nd) eqn:C.
    - split; [exact O0|]. rewrite (sN_ext (nusers e) _ (fun u => integral st u d)); [exact O1|].
      intros u Hu. rewrite rt_integral, C. apply Nat.ltb_lt in Hu. unfold nu. rewrite Hu. reflexivity.
    - split; [lia|]. rewrite sN_zero; [cbn; lia|]. intros u _. rewrite rt_integral, C, andb_false_r. reflexivity.
  Qed.
End Retab.

Lemma retab_ginv xs : GInv xs -> GInv (mkX (x_env xs) (retab (x_env xs) (x_st xs))).
Proof.
  intros [[W I V] T A]. constructor; cbn [x_env x_st]; [constructor; cbn [x_env x_st]| |exact A].
  - exact W.
  - apply retab_inv, I.
  - apply retab_over, V.
  - apply retab_tight; assumption.
Qed.

Lemma xstep_list_ginv os : forall xs xs', GInv xs -> Forall (xop_adm (ndenoms (x_env xs))) os ->
  xstep_list xs os = Ok xs' tt -> GInv xs' /\ ndenoms (x_env xs') = ndenoms (x_env xs).
Proof.
  induction os as [|o os IH]; intros xs xs' G F H; cbn [xstep_list] in H.
  - inversion H; subst. split; [exact G|reflexivity].
  - inversion F as [|? ? Ho Fr]; subst. destruct (xstep xs o) as [xs1 []| |] eqn:E; try discriminate.
    pose proof (xstep_ginv xs o xs1 G Ho E) as G1. destruct (xstep_ndenoms xs o xs1 tt E) as (_ & _ & N).
    rewrite <- N in Fr. destruct (IH _ _ (retab_ginv xs1 G1) Fr H) as [G' N']. split; [exact G'|]. cbn [x_env] in N'. congruence.
Qed.

Definition gstepk_adm (nd : nat) (k : gstepk) : Prop :=
  match k with GOps os => Forall (xop_adm nd) os | _ => True end.

(* one step of the checked machine, as gfirst_mismatch takes it *)
Definition gk_next (xs : xstate) (k : gstepk) : xstate :=
  let xs1 := match gapply xs k with Ok s1 _ => s1 | _ => xs end in
  mkX (x_env xs1) (retab (x_env xs1) (x_st xs1)).
Definition gk_run (xs : xstate) (ks : list gstepk) : xstate := fold_left gk_next ks xs.

Lemma gk_next_ginv xs k : GInv xs -> gstepk_adm (ndenoms (x_env xs)) k ->
  GInv (gk_next xs k) /\ ndenoms (x_env (gk_next xs k)) = ndenoms (x_env xs).
Proof.
  intros G Ad. unfold gk_next.
  assert (K : GInv (match gapply xs k with Ok s1 _ => s1 | _ => xs end) /\
              ndenoms (x_env (match gapply xs k with Ok s1 _ => s1 | _ => xs end)) = ndenoms (x_env xs)).
  { destruct k as [os| |g v]; cbn [gapply gstepk_adm] in *.
    - destruct (xstep_list xs os) as [xs1 []| |] eqn:E; [|split; [exact G|reflexivity]..].
      apply (xstep_list_ginv os xs xs1 G Ad E).
    - destruct (gre_ginv xs G) as [st' [E [G' _]]]. rewrite E. split; [exact G'|reflexivity].
    - split; [exact G|reflexivity]. }
  destruct K as [K N]. cbv zeta. split; [apply retab_ginv, K|exact N].
Qed.

Lemma gk_run_ginv ks : forall xs, GInv xs -> Forall (gstepk_adm (ndenoms (x_env xs))) ks -> GInv (gk_run xs ks).
Proof.
  induction ks as [|k ks IH]; intros xs G F; [exact G|]. inversion F as [|? ? Hk Fr]; subst.
  cbn [gk_run fold_left]. fold (gk_run (gk_next xs k) ks). destruct (gk_next_ginv xs k G Hk) as [G' N].
  apply IH; [exact G'|rewrite N; exact Fr].
Qed.

(* the histories of the correspondence check (operations, parameter changes, re-imports and
   probes, re-tabulated after every step): at every point the export validates, the import
   succeeds, the imported state satisfies C09's invariant and shows the same projection *)
Theorem reimport_all_checked_histories e t0 m0 gt0 tot0 ks :
  env_wf e -> env_adm e -> t0 <> ZERO_T ->
  (forall p x, gt0 p = Some x -> x <= t0 /\ x <> ZERO_T) -> (forall p, 0 <= tot0 p) ->
  Forall (gstepk_adm (ndenoms e)) ks ->
  let xs := gk_run (mkX e (init t0 m0 gt0 tot0)) ks in
  Inv (x_env xs) (x_st xs) /\
  exists xs', gapply xs GReimport = Ok xs' tt /\ x_env xs' = x_env xs /\
    Inv (x_env xs) (x_st xs') /\ OverInv (x_env xs) (x_st xs') /\
    project (x_env xs) (x_st xs') = project (x_env xs) (x_st xs).
Proof.
  intros W A H0 Hg Ht F xs.
  assert (G0 : GInv (mkX e (init t0 m0 gt0 tot0))).
  { constructor; cbn [x_env x_st]; [apply xinit_inv; try assumption; intros p x Hx; apply (Hg p x Hx)| |exact A].
    apply init_tight; [exact H0|]. intros p x Hx. apply (Hg p x Hx). }
  pose proof (gk_run_ginv ks _ G0 F) as G. fold xs in G. split; [apply G|].
  destruct (gre_ginv xs G) as [st' [E [G' P]]]. exists (mkX (x_env xs) st'). cbn [gapply]. rewrite E.
  split; [reflexivity|]. split; [reflexivity|]. cbn [x_st]. split; [apply G'|]. split; [apply G'|exact P].
Qed.

(** * Without [env_adm] the invariant after the import fails (closed witness)

   A reward period that rewards a denom OUTSIDE the reward-denom universe of the model (rate
   list longer than ndenoms): the global index of that denom grows, the export lists the
   universe only, after the import the index reads 0 while the history variable [integral]
   remembers the accrual.  This is a statement about the finite universe of the MODEL (the
   implementation has no denom outside "all denoms"), not a defect of x/incentive: the check
   always builds the universe from every denom of the params. *)
Definition wi_env : env := mk_env 1 1 1 [Some (mk_period 0 (1000 * NS) [0; 5])] (2000 * NS) false.
Definition wi_st : state :=
  run wi_env (init (10 * NS) (fun _ => 0) (fun _ => Some (10 * NS)) (fun _ => 0)) [Change 0 0 PREC PREC; Block (20 * NS)].
Definition wi_st' : state := match reimport wi_env wi_st with Ok s _ => s | _ => wi_st end.

Lemma wi_env_wf : env_wf wi_env.
Proof.
  constructor.
  - intros p pd E. destruct p as [|[|p]]; cbn in E; inversion E; subst; cbn; lia.
  - intros p pd d E. destruct p as [|[|p]]; cbn in E; inversion E; subst. cbn [mk_period p_rate nthZ].
    destruct d as [|[|[|d]]]; cbn; lia.
Qed.

Lemma outside_universe_breaks_imported_invariant :
  env_wf wi_env /\ Inv wi_env wi_st /\ reimport wi_env wi_st = Ok wi_st' tt /\ ~ Inv wi_env wi_st' /\ ~ env_adm wi_env.
Proof.
  split; [exact wi_env_wf|]. split.
  { apply run_inv; [exact wi_env_wf|]. apply init_inv; [|intros; lia]. intros p x E. inversion E; subst. unfold NS. lia. }
  split.
  { assert (C : class_of (reimport wi_env wi_st) = ROk) by (vm_compute; reflexivity).
    unfold wi_st'. destruct (reimport wi_env wi_st) as [s []| |]; try discriminate. reflexivity. }
  split.
  - intros J. pose proof (I_exact _ _ J 0%nat 1%nat) as X. vm_compute in X. discriminate X.
  - intros A. destruct (A 0%nat (mk_period 0 (1000 * NS) [0; 5]) eq_refl) as [_ R]. specialize (R 1%nat (le_n 1)). discriminate R.
Qed.
