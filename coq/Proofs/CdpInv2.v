(* C04: index coherence lifted to the remaining message-level operations
   (create, repay incl. close, keeper liquidation) and to seizure. *)
From Kava Require Import Base.Prelude Base.Dec Model.Cdp Proofs.CdpRatio Proofs.Cdp Proofs.CdpInv.
Local Open Scope Z_scope.

(* cdp ids are handed out from a counter: no record at or above the next id *)
Definition ids_ok (s : state) : Prop := forall t id c, cdps s t id = Some c -> (id < nextid s)%nat.

Definition IdxInv (e : env) (s : state) : Prop := key_ok s /\ ridx_ok e s /\ ids_ok s.

Lemma IdxInv_frame e s s' :
  cdps s' = cdps s -> ridx s' = ridx s -> nextid s' = nextid s -> IdxInv e s -> IdxInv e s'.
Proof.
  intros Hc Hr Hn (Hk & Hx & Hi). destruct (idx_frame e s s' Hc Hr (conj Hk Hx)) as [A B].
  split; [exact A|split; [exact B|]]. intros t id c H. rewrite Hn. rewrite Hc in H. eapply Hi, H.
Qed.

Lemma update_cdp_IdxInv e s cp c s' u :
  IdxInv e s -> get_cp e (c_type c) = Some cp ->
  update_cdp e s cp c (cdp_ratio e cp c) = Ok s' u -> IdxInv e s'.
Proof.
  intros (Hk & Hr & Hi) Hcp H. pose proof (update_cdp_idx _ _ _ _ _ _ Hk Hr Hcp H) as [A B].
  split; [exact A|split; [exact B|]].
  apply update_cdp_spec in H. destruct H as (old & Hg & ->). intros t id c' Hc. cbn in Hc |- *.
  unfold get_cdp in Hg. rewrite Hcp in Hg. unfold upd2 in Hc.
  destruct (Nat.eqb_spec t (c_type c)) as [->|]; [destruct (Nat.eqb_spec id (c_id c)) as [->|]|]; cbn [andb] in Hc.
  - eapply Hi, Hg.
  - eapply Hi, Hc.
  - eapply Hi, Hc.
Qed.

Lemma sync_interest_IdxInv e s cp c s1 c1 :
  IdxInv e s -> get_cp e (c_type c) = Some cp -> cdps s (c_type c) (c_id c) = Some c ->
  sync_interest e s cp c = Ok s1 c1 -> IdxInv e s1 /\ cdps s1 (c_type c1) (c_id c1) = Some c1.
Proof.
  intros (Hk & Hr & Hi) Hcp Hst H.
  pose proof (sync_interest_idx _ _ _ _ _ _ Hk Hr Hcp Hst H) as (A & B & C).
  pose proof (sync_interest_spec _ _ _ _ _ _ H) as (Henv & Hid & Hty & _).
  split; [|exact C]. split; [exact A|split; [exact B|]].
  (* ids: the synchronisation stores records only at the key of c *)
  destruct Henv as (_&_&_&_&_&_&_&Hn&_). intros t id c' Hc. rewrite Hn.
  unfold sync_interest in H.
  destruct (ifac s (c_type c)) as [gf|].
  - destruct (ptime s (c_type c)) as [prev|]; [|inversion H; subst; eapply Hi, Hc].
    destruct (_ && _); [inversion H; subst; eapply Hi, Hc|].
    destruct (update_cdp _ _ _ _ _) as [s2 []| |] eqn:E; try discriminate. inversion H; subst.
    apply update_cdp_spec in E. destruct E as (old & Hg & ->). cbn in Hc. unfold upd2 in Hc.
    destruct (new_interest gf (c_ifac c) (cdp_debt c) =? 0); cbn in Hc; unfold upd2 in Hc;
    repeat match type of Hc with context [Nat.eqb ?a ?b] => destruct (Nat.eqb_spec a b) end; cbn [andb] in Hc; subst;
    try (eapply Hi; eassumption).
  - inversion H; subst. cbn in Hc. unfold upd2 in Hc.
    repeat match type of Hc with context [Nat.eqb ?a ?b] => destruct (Nat.eqb_spec a b) end; cbn [andb] in Hc; subst;
    try (eapply Hi; eassumption).
Qed.

(* AddCdp *)
Lemma create_IdxInv e s o t cd coll pd prin s' v :
  IdxInv e s -> create e s o t cd coll pd prin = Ok s' v -> IdxInv e s'.
Proof.
  intros (Hk & Hr & Hi). unfold create. destruct (_ && _); [|discriminate]. cbn [negb].
  destruct (validate_collateral e s t cd) as [cp|] eqn:Ev; [|discriminate].
  apply validate_collateral_ok in Ev. destruct Ev as (Hcp & _).
  destruct (bal s o cd <? coll); [discriminate|].
  destruct (find_cdp e s o t); [discriminate|].
  destruct (Nat.eqb pd (d_usdx e)); [|discriminate]. cbn [negb].
  destruct (prin <? dp_floor e); [discriminate|].
  destruct (debt_limit_ok e s t cp prin); [|discriminate]. cbn [negb].
  destruct (ratio_gate e s cp coll prin 0) as [[] []| |]; try discriminate.
  destruct (b_send _ _ _ _ _) as [s1|] eqn:Eb1; [|discriminate].
  destruct (b_send (b_mint s1 _ _ _) _ _ _ _) as [s3|] eqn:Eb3; [|discriminate].
  intros H; inversion H; subst; clear H.
  set (c := mkCdp (nextid s) o t coll prin 0 (now s) match ifac s t with Some f => f | None => PREC end).
  set (s5 := set_tprin _ _).
  assert (Hc5 : cdps s5 = cdps s /\ ridx s5 = ridx s /\ nextid s5 = nextid s).
  { unfold s5. cbn.
    rewrite (bank_only_cdps _ _ (b_mint_frame _ _ _ _)), (bank_only_cdps _ _ (b_send_frame _ _ _ _ _ _ Eb3)),
      (bank_only_cdps _ _ (b_mint_frame _ _ _ _)), (bank_only_cdps _ _ (b_send_frame _ _ _ _ _ _ Eb1)).
    rewrite (bank_only_ridx _ _ (b_mint_frame _ _ _ _)), (bank_only_ridx _ _ (b_send_frame _ _ _ _ _ _ Eb3)),
      (bank_only_ridx _ _ (b_mint_frame _ _ _ _)), (bank_only_ridx _ _ (b_send_frame _ _ _ _ _ _ Eb1)).
    pose proof (b_mint_frame s3 (CDPM e) (d_debt e) prin) as (_&_&_&_&_&_&_&N1&_).
    pose proof (b_send_frame _ _ _ _ _ _ Eb3) as (_&_&_&_&_&_&_&N2&_).
    pose proof (b_mint_frame s1 (CDPM e) (d_usdx e) prin) as (_&_&_&_&_&_&_&N3&_).
    pose proof (b_send_frame _ _ _ _ _ _ Eb1) as (_&_&_&_&_&_&_&N4&_).
    rewrite N1, N2, N3, N4. destruct (ifac s t); repeat split. }
  destruct Hc5 as (C5 & R5 & N5).
  assert (I5 : IdxInv e s5) by (apply (IdxInv_frame e s); [assumption..|exact (conj Hk (conj Hr Hi))]).
  destruct I5 as (Hk5 & Hr5 & Hi5).
  assert (Hfresh : forall t0, cdps s5 t0 (c_id c) = None).
  { intros t0. destruct (cdps s5 t0 (c_id c)) as [c'|] eqn:E; [|reflexivity].
    apply Hi5 in E. rewrite N5 in E. unfold c in E. cbn [c_id] in E. lia. }
  destruct (insert_new_ok e s5 cp c Hk5 Hr5 Hcp Hfresh) as [A B].
  set (s6 := ridx_ins (put_cdp s5 c) (c_type c) (cdp_ratio e cp c) (c_id c)) in *.
  assert (I6 : key_ok s6 /\ ridx_ok e s6) by (split; assumption).
  split; [|split].
  - apply (idx_frame e s6); [reflexivity|reflexivity|exact I6].
  - apply (idx_frame e s6); [reflexivity|reflexivity|exact I6].
  - intros t0 id c' Hc. cbn in Hc |- *. unfold upd2 in Hc.
    destruct (Nat.eqb_spec t0 t); [destruct (Nat.eqb_spec id (nextid s))|]; cbn [andb] in Hc.
    + lia.
    + apply Hi5 in Hc. rewrite N5 in Hc. lia.
    + apply Hi5 in Hc. rewrite N5 in Hc. lia.
Qed.

Lemma bank_IdxInv e s s' : bank_only s s' -> IdxInv e s -> IdxInv e s'.
Proof.
  intros B. apply IdxInv_frame; [apply (bank_only_cdps _ _ B)|apply (bank_only_ridx _ _ B)|].
  destruct B as (_&_&_&_&_&_&_&N&_). exact N.
Qed.

Lemma find_cdp_stored' e s o t c cp :
  IdxInv e s -> find_cdp e s o t = Some c -> get_cp e t = Some cp ->
  c_type c = t /\ cdps s (c_type c) (c_id c) = Some c.
Proof. intros (Hk & _). apply find_cdp_stored, Hk. Qed.

Lemma deposit_IdxInv e s o u t cd x s' v :
  IdxInv e s -> deposit e s o u t cd x = Ok s' v -> IdxInv e s'.
Proof.
  intros HI. unfold deposit. destruct (0 <? x); [|discriminate]. cbn [negb].
  destruct (validate_collateral e s t cd) as [cp|] eqn:Ev; [|discriminate].
  apply validate_collateral_ok in Ev. destruct Ev as (Hcp & _).
  destruct (find_cdp e s o t) as [c0|] eqn:Ef; [|discriminate].
  destruct (find_cdp_stored' _ _ _ _ _ _ HI Ef Hcp) as [Ht Hst].
  destruct (bal s u cd <? x); [discriminate|].
  destruct (sync_interest e s cp c0) as [s1 c| |] eqn:Es; try discriminate.
  pose proof (sync_interest_spec _ _ _ _ _ _ Es) as (_ & Hid & Hty & _).
  apply sync_interest_IdxInv in Es; try assumption; [|rewrite Ht; assumption].
  destruct Es as (HI1 & Hst1).
  destruct (b_send s1 u (CDPM e) cd x) as [s2|] eqn:Eb; [|discriminate].
  intros H. apply update_cdp_IdxInv in H; [exact H| |cbn; rewrite Hty, Ht; exact Hcp].
  apply (IdxInv_frame e s2); [reflexivity..|]. eapply bank_IdxInv; [eapply b_send_frame; eassumption|exact HI1].
Qed.

Lemma draw_IdxInv e s o t pd x s' v :
  IdxInv e s -> draw e s o t pd x = Ok s' v -> IdxInv e s'.
Proof.
  intros HI. unfold draw. destruct (0 <? x); [|discriminate]. cbn [negb].
  destruct (find_cdp e s o t) as [c0|] eqn:Ef; [|discriminate].
  destruct (get_cp e t) as [cp|] eqn:Hcp; [|discriminate].
  destruct (find_cdp_stored' _ _ _ _ _ _ HI Ef Hcp) as [Ht Hst].
  destruct (mstat s (cp_spot cp) && mstat s (cp_liqm cp)) eqn:Em; [|discriminate]. cbn [negb].
  destruct (Nat.eqb pd (d_usdx e)); [|discriminate]. cbn [negb].
  destruct (debt_limit_ok e s t cp x); [|discriminate]. cbn [negb].
  destruct (sync_interest e s cp c0) as [s1 c| |] eqn:Es; try discriminate.
  pose proof (sync_interest_spec _ _ _ _ _ _ Es) as (_ & Hid & Hty & _).
  apply sync_interest_IdxInv in Es; try assumption; [|rewrite Ht; assumption].
  destruct Es as (HI1 & Hst1).
  destruct (ratio_gate _ _ _ _ _ _) as [[] []| |]; try discriminate.
  destruct (b_send _ _ _ _ _) as [s3|] eqn:Eb; [|discriminate].
  intros H. apply update_cdp_IdxInv in H; [exact H| |cbn; rewrite Hty, Ht; exact Hcp].
  apply (IdxInv_frame e (b_mint s3 (CDPM e) (d_debt e) x)); [reflexivity..|].
  eapply bank_IdxInv; [apply b_mint_frame|]. eapply bank_IdxInv; [eapply b_send_frame; eassumption|].
  eapply bank_IdxInv; [apply b_mint_frame|exact HI1].
Qed.

Lemma withdraw_IdxInv e s o u t cd x s' v :
  IdxInv e s -> withdraw e s o u t cd x = Ok s' v -> IdxInv e s'.
Proof.
  intros HI. unfold withdraw. destruct (0 <? x); [|discriminate]. cbn [negb].
  destruct (validate_collateral e s t cd) as [cp|] eqn:Ev; [|discriminate].
  apply validate_collateral_ok in Ev. destruct Ev as (Hcp & _).
  destruct (find_cdp e s o t) as [c0|] eqn:Ef; [|discriminate].
  destruct (find_cdp_stored' _ _ _ _ _ _ HI Ef Hcp) as [Ht Hst].
  destruct (deps s (c_id c0) u) as [a|]; [|discriminate].
  destruct (a <? x); [discriminate|].
  destruct (sync_interest e s cp c0) as [s1 c| |] eqn:Es; try discriminate.
  pose proof (sync_interest_spec _ _ _ _ _ _ Es) as (_ & Hid & Hty & _).
  apply sync_interest_IdxInv in Es; try assumption; [|rewrite Ht; assumption].
  destruct Es as (HI1 & Hst1).
  destruct (c_coll c <? x); [discriminate|].
  destruct (ratio_gate _ _ _ _ _ _) as [[] []| |]; try discriminate.
  destruct (b_send _ _ _ _ _) as [s2|] eqn:Eb; [|discriminate].
  destruct (update_cdp _ _ _ _ _) as [s3 []| |] eqn:Eu; try discriminate.
  intros H.
  assert (HI3 : IdxInv e s3).
  { apply update_cdp_IdxInv in Eu; [exact Eu| |cbn; rewrite Hty, Ht; exact Hcp].
    eapply bank_IdxInv; [eapply b_send_frame; eassumption|exact HI1]. }
  inversion H; subst. apply (IdxInv_frame e s3); [destruct (a - x =? 0); reflexivity..|exact HI3].
Qed.

(* removal (close / seizure) in IdxInv form *)
Lemma remove_IdxInv e s cp c :
  IdxInv e s -> get_cp e (c_type c) = Some cp -> cdps s (c_type c) (c_id c) = Some c ->
  IdxInv e (del_cdp (ridx_del s (c_type c) (cdp_ratio e cp c) (c_id c)) c).
Proof.
  intros (Hk & Hr & Hi) Hcp Hst. destruct (remove_ok e s cp c Hk Hr Hcp Hst) as [A B].
  split; [exact A|split; [exact B|]]. intros t id c' Hc. cbn in Hc |- *. unfold upd2 in Hc.
  destruct (_ && _); [discriminate|]. eapply Hi, Hc.
Qed.

(* RepayPrincipal, including the close of a fully repaid cdp *)
Lemma repay_IdxInv e s o t pd x s' v :
  IdxInv e s -> repay e s o t pd x = Ok s' v -> IdxInv e s'.
Proof.
  intros HI. unfold repay. destruct (0 <? x); [|discriminate]. cbn [negb].
  destruct (find_cdp e s o t) as [c0|] eqn:Ef; [|discriminate].
  destruct (get_cp e t) as [cp|] eqn:Hcp; [|discriminate].
  destruct (find_cdp_stored' _ _ _ _ _ _ HI Ef Hcp) as [Ht Hst].
  destruct (Nat.eqb pd (d_usdx e)); [|discriminate]. cbn [negb].
  destruct (bal s o pd <? x); [discriminate|].
  destruct (sync_interest e s cp c0) as [s1 c| |] eqn:Es; try discriminate.
  pose proof (sync_interest_spec _ _ _ _ _ _ Es) as (_ & Hid & Hty & _).
  apply sync_interest_IdxInv in Es; try assumption; [|rewrite Ht; assumption].
  destruct Es as (HI1 & Hst1).
  destruct (calc_payment (cdp_debt c) (c_fees c) x) as [fp pp].
  destruct (_ && _); [discriminate|].
  destruct (b_send s1 o (CDPM e) (d_usdx e) (fp + pp)) as [s2|] eqn:E2; [|discriminate].
  destruct (b_burn s2 _ _ _) as [s3|] eqn:E3; [|discriminate].
  destruct (b_burn s3 _ _ _) as [s4|] eqn:E4; [|discriminate].
  set (c1 := with_fees (with_prin c (c_prin c - pp)) (c_fees c - fp) (c_upd c) (c_ifac c)).
  set (s5 := set_tprin s4 _).
  assert (HI5 : IdxInv e s5 /\ cdps s5 = cdps s1).
  { split.
    - apply (IdxInv_frame e s4); [reflexivity..|].
      eapply bank_IdxInv; [eapply b_burn_frame; eassumption|]. eapply bank_IdxInv; [eapply b_burn_frame; eassumption|].
      eapply bank_IdxInv; [eapply b_send_frame; eassumption|exact HI1].
    - unfold s5. cbn. rewrite (bank_only_cdps _ _ (b_burn_frame _ _ _ _ _ E4)), (bank_only_cdps _ _ (b_burn_frame _ _ _ _ _ E3)),
        (bank_only_cdps _ _ (b_send_frame _ _ _ _ _ _ E2)). reflexivity. }
  destruct HI5 as [HI5 Hc5].
  destruct ((c_prin c1 =? 0) && (c_fees c1 =? 0)).
  - destruct (return_collateral e s5 cp c1) as [s6 []| |] eqn:E6; try discriminate.
    assert (F6 : cdps s6 = cdps s5 /\ ridx s6 = ridx s5 /\ nextid s6 = nextid s5).
    { unfold return_collateral in E6.
      eapply (ofold_inv (fun z => cdps z = cdps s5 /\ ridx z = ridx s5 /\ nextid z = nextid s5)); [|repeat split|exact E6].
      intros z d z' u0 (P1 & P2 & P3) Hz. destruct (b_send z _ _ _ _) as [z2|] eqn:Ez; [|discriminate].
      inversion Hz; subst. cbn.
      rewrite (bank_only_cdps _ _ (b_send_frame _ _ _ _ _ _ Ez)), (bank_only_ridx _ _ (b_send_frame _ _ _ _ _ _ Ez)).
      pose proof (b_send_frame _ _ _ _ _ _ Ez) as (_&_&_&_&_&_&_&N&_). rewrite N. auto. }
    destruct F6 as (F1 & F2 & F3).
    set (s7 := oidx_rm s6 (c_owner c1) (c_id c1)).
    assert (HI7 : IdxInv e s7) by (apply (IdxInv_frame e s5); [exact F1|exact F2|exact F3|exact HI5]).
    destruct (get_cdp e s7 (c_type c1) (c_id c1)) as [old|] eqn:Eg; [|discriminate].
    intros H; injection H as Hs'; subst s'.
    assert (Hty1 : c_type c1 = c_type c) by reflexivity. assert (Hid1 : c_id c1 = c_id c) by reflexivity.
    unfold get_cdp in Eg. rewrite Hty1, Hty, Ht, Hcp in Eg. rewrite <- Ht, <- Hty, <- Hty1 in Eg.
    destruct HI7 as (Hk7 & Hr7 & Hi7). destruct (Hk7 _ _ _ Eg) as [Eo1 Eo2].
    (* del_cdp uses the key of c1, which is the key of old *)
    replace (del_cdp (ridx_del s7 (c_type old) (cdp_ratio e cp old) (c_id old)) c1)
      with (del_cdp (ridx_del s7 (c_type old) (cdp_ratio e cp old) (c_id old)) old)
      by (unfold del_cdp; rewrite Eo1, Eo2; reflexivity).
    apply remove_IdxInv; [exact (conj Hk7 (conj Hr7 Hi7))| |].
    + rewrite Eo1, Hty1, Hty, Ht. exact Hcp.
    + rewrite Eo1, Eo2. exact Eg.
  - intros H. apply update_cdp_IdxInv in H; [exact H|exact HI5|]. cbn. rewrite Hty, Ht. exact Hcp.
Qed.
