(* C14 (component C14a), x/bep3: ExportGenesis / Validate / InitGenesis round trip
   over the model of Model/Bep3.v.  See Model/GenesisBep3.v. *)
From Coq Require Import Permutation.
From Kava Require Import Base.Prelude Model.Bep3 Proofs.Bep3 Model.GenesisBep3 Proofs.GenesisCommon.
Local Open Scope Z_scope.

(** * Sums and permutations *)

Lemma zsum_perm l1 l2 : Permutation l1 l2 -> zsum l1 = zsum l2.
Proof. unfold zsum. induction 1; cbn [fold_right]; lia. Qed.

Lemma ssum_as_zsum f l : ssum f l = zsum (map f (map snd l)).
Proof. unfold ssum, zsum. induction l as [|[i w] r IH]; cbn [fold_right map snd]; [reflexivity|]. rewrite IH. reflexivity. Qed.

(* the value stored under an id (a default for an absent id) *)
Definition val_of (l : list (id * swap)) (d : swap) (i : id) : swap := match lookup i l with Some w => w | None => d end.

Lemma values_by_keys l d : NoDup (map fst l) -> map snd l = map (val_of l d) (map fst l).
Proof.
  intros Hnd. rewrite map_map. apply map_ext_in. intros [i w] Hp. cbn [fst snd]. unfold val_of.
  rewrite (in_lookup i w l Hnd Hp). reflexivity.
Qed.

(** * The export lists every stored swap once *)

Lemma nodup_b_id l : nodup_b id_eqb l = true -> NoDup l.
Proof.
  induction l as [|x r IH]; cbn [nodup_b]; intros H; constructor.
  - apply andb_true_iff in H. destruct H as [H _]. apply negb_true_iff in H.
    intros Hin. assert (existsb (id_eqb x) r = true); [|congruence].
    apply existsb_exists. exists x. split; [exact Hin|apply id_eqb_refl].
  - apply IH. apply andb_true_iff in H. tauto.
Qed.

(* what [order_ok] says *)
Lemma order_ok_spec order s :
  order_ok order s = true ->
  length order = length (s_swaps s) /\ NoDup order /\ forall i, In i order -> lookup i (s_swaps s) <> None.
Proof.
  unfold order_ok. rewrite !andb_true_iff. intros [[A B] C]. split; [apply Nat.eqb_eq, A|]. split; [apply nodup_b_id, B|].
  rewrite forallb_forall in C. intros i Hi. specialize (C i Hi). destruct (lookup i (s_swaps s)); [discriminate|discriminate C].
Qed.

Lemma order_covers order (l : list (id * swap)) :
  NoDup (map fst l) -> length order = length l -> NoDup order -> (forall i, In i order -> lookup i l <> None) ->
  forall i, In i (map fst l) -> In i order.
Proof.
  intros Hk Hlen Hnd Hin. apply NoDup_length_incl; [exact Hnd|rewrite map_length; lia|].
  intros i Hi. specialize (Hin i Hi). destruct (lookup i l) eqn:E; [|congruence]. eapply lookup_some_in, E.
Qed.

Lemma swaps_in_order_map order l d :
  (forall i, In i order -> lookup i l <> None) -> swaps_in_order order l = map (val_of l d) order.
Proof.
  induction order as [|i r IH]; intros H; cbn [swaps_in_order flat_map map]; [reflexivity|].
  fold (swaps_in_order r l). rewrite IH by (intros j Hj; apply H; right; exact Hj).
  unfold val_of at 2. destruct (lookup i l) eqn:E; [reflexivity|]. exfalso. apply (H i); [left; reflexivity|exact E].
Qed.

Definition dummy : swap := mkSwap 0 0 0 0 0 0 0 0 0 Open false Incoming 0.

(* facts about the exported swap list, for a table whose records sit under their own ids *)
Lemma exported_swaps order (l : list (id * swap)) :
  NoDup (map fst l) -> (forall i w, lookup i l = Some w -> i = sw_id w) ->
  length order = length l -> NoDup order -> (forall i, In i order -> lookup i l <> None) ->
  let ex := swaps_in_order order l in
  map sw_id ex = order /\
  (forall w, In w ex <-> lookup (sw_id w) l = Some w) /\
  Permutation ex (map snd l).
Proof.
  intros Hk Hid Hlen Hnd Hin ex. unfold ex. rewrite (swaps_in_order_map order l dummy Hin).
  assert (Hcov := order_covers order l Hk Hlen Hnd Hin).
  split; [|split].
  - rewrite map_map. rewrite <- (map_id order) at 2. apply map_ext_in. intros i Hi. unfold val_of.
    destruct (lookup i l) eqn:E; [symmetry; apply Hid, E|]. exfalso. apply (Hin i Hi E).
  - intros w. rewrite in_map_iff. split.
    + intros (i & <- & Hi). unfold val_of. destruct (lookup i l) eqn:E; [|exfalso; apply (Hin i Hi E)].
      rewrite <- (Hid _ _ E). exact E.
    + intros E. exists (sw_id w). unfold val_of. rewrite E. split; [reflexivity|]. apply Hcov. eapply lookup_some_in, E.
  - rewrite (values_by_keys l dummy Hk). apply Permutation_map.
    apply NoDup_Permutation; [exact Hnd|exact Hk|]. intros i. split; [|apply Hcov].
    intros Hi. specialize (Hin i Hi). destruct (lookup i l) eqn:E; [|congruence]. eapply lookup_some_in, E.
Qed.

(** * The import loop *)

Lemma set_swap_new_length i v l : lookup i l = None -> length (set_swap i v l) = S (length l).
Proof.
  induction l as [|[j w] r IH]; cbn [set_swap lookup length]; [reflexivity|].
  destruct (id_eqb i j); [discriminate|]. intros H. cbn [length]. rewrite IH by exact H. reflexivity.
Qed.

Definition same_but_tables' (s s' : state) : Prop :=
  s_height s' = s_height s /\ s_time s' = s_time s /\ s_prev s' = s_prev s /\ s_sup s' = s_sup s /\
  s_bal s' = s_bal s /\ s_bsup s' = s_bsup s /\ g_next s' = g_next s /\ g_log s' = g_log s.

Definition find_sw (i : id) (l : list swap) : option swap := find (fun w => id_eqb i (sw_id w)) l.

Lemma init_swaps_spec e : forall l s,
  (forall w, In w l -> exists a, find_asset (sw_denom w) (e_assets e) = Some a /\ a_active a = true) ->
  NoDup (map sw_id l) -> (forall w, In w l -> lookup (sw_id w) (s_swaps s) = None) ->
  NoDup (map fst (s_swaps s)) -> NoDup (s_byblock s) -> NoDup (s_longterm s) ->
  exists s', init_swaps e s l = Some s' /\ same_but_tables' s s' /\
    (forall i, lookup i (s_swaps s') = match find_sw i l with Some w => Some w | None => lookup i (s_swaps s) end) /\
    NoDup (map fst (s_swaps s')) /\ length (s_swaps s') = (length (s_swaps s) + length l)%nat /\
    NoDup (s_byblock s') /\
    (forall x, In x (s_byblock s') <-> In x (s_byblock s) \/ exists w, In w l /\ sw_status w = Open /\ x = (sw_expire w, sw_id w)) /\
    NoDup (s_longterm s') /\
    (forall x, In x (s_longterm s') <-> In x (s_longterm s) \/ exists w, In w l /\ sw_status w = Completed /\ x = (sw_closed w + LONGTERM, sw_id w)).
Proof.
  induction l as [|w r IH]; intros s Hact Hnd Hfresh Hk Hb Hl.
  - exists s. cbn. split; [reflexivity|]. split; [repeat split|]. split; [reflexivity|]. split; [exact Hk|]. split; [lia|].
    split; [exact Hb|]. split; [intros x; split; [auto|intros [H|(w & [] & _)]; exact H]|].
    split; [exact Hl|]. intros x; split; [auto|intros [H|(w & [] & _)]; exact H].
  - cbn [map] in Hnd. inversion Hnd as [|? ? Hnotin Hnd']; subst.
    destruct (Hact w (or_introl eq_refl)) as (a & Ea & Eact).
    cbn [init_swaps]. unfold init_swap. rewrite Ea, Eact. cbn [negb].
    set (i := sw_id w).
    set (s1 := match sw_status w with
               | Open => set_tables s (set_swap i w (s_swaps s)) (ix_add (sw_expire w, i) (s_byblock s)) (s_longterm s)
               | Expired => set_tables s (set_swap i w (s_swaps s)) (s_byblock s) (s_longterm s)
               | Completed => set_tables s (set_swap i w (s_swaps s)) (s_byblock s) (ix_add (sw_closed w + LONGTERM, i) (s_longterm s))
               end).
    assert (S1 : s_swaps s1 = set_swap i w (s_swaps s)) by (unfold s1; destruct (sw_status w); reflexivity).
    assert (B1 : s_byblock s1 = match sw_status w with Open => ix_add (sw_expire w, i) (s_byblock s) | _ => s_byblock s end)
      by (unfold s1; destruct (sw_status w); reflexivity).
    assert (L1 : s_longterm s1 = match sw_status w with Completed => ix_add (sw_closed w + LONGTERM, i) (s_longterm s) | _ => s_longterm s end)
      by (unfold s1; destruct (sw_status w); reflexivity).
    assert (F1 : same_but_tables' s s1) by (unfold s1; destruct (sw_status w); repeat split).
    destruct (IH s1) as (s' & Hin & F & Hlk & Hk' & Hlen & Hb' & Hbb & Hl' & Hlt).
    + intros w' Hw'. apply Hact. right; exact Hw'.
    + exact Hnd'.
    + intros w' Hw'. rewrite S1, lookup_set. destruct (id_eqb_spec (sw_id w') i) as [E|_]; [|apply Hfresh; right; exact Hw'].
      exfalso. apply Hnotin. unfold i in E. rewrite <- E. apply in_map, Hw'.
    + rewrite S1. apply keys_set_nodup, Hk.
    + rewrite B1. destruct (sw_status w); try exact Hb. apply ix_add_nodup, Hb.
    + rewrite L1. destruct (sw_status w); try exact Hl. apply ix_add_nodup, Hl.
    + exists s'. split; [exact Hin|]. split.
      { destruct F as (f1&f2&f3&f4&f5&f6&f7&f8). destruct F1 as (g1&g2&g3&g4&g5&g6&g7&g8). repeat split; congruence. }
      split.
      { intros j. rewrite Hlk. unfold find_sw. cbn [find]. fold i.
        destruct (find (fun w0 => id_eqb j (sw_id w0)) r) as [w'|] eqn:Ef.
        - destruct (id_eqb_spec j i) as [->|_]; [|reflexivity].
          exfalso. apply find_some in Ef. destruct Ef as [Hw' E]. destruct (id_eqb_spec i (sw_id w')) as [E'|]; [|discriminate].
          apply Hnotin. unfold i in E'. rewrite E'. apply in_map, Hw'.
        - rewrite S1, lookup_set. destruct (id_eqb j i); reflexivity. }
      split; [exact Hk'|]. split.
      { rewrite Hlen, S1, set_swap_new_length by (apply Hfresh; left; reflexivity). cbn [length]. lia. }
      split; [exact Hb'|]. split.
      { intros x. rewrite Hbb, B1. destruct (sw_status w) eqn:Est.
        - rewrite ix_add_in. split.
          + intros [[->|H]|(w' & Hw' & R)]; [right; exists w; split; [left; reflexivity|auto]|auto|right; exists w'; split; [right; exact Hw'|exact R]].
          + intros [H|(w' & [<-|Hw'] & E1 & E2)]; [left; right; exact H|left; left; exact E2|right; exists w'; auto].
        - split.
          + intros [H|(w' & Hw' & R)]; [auto|right; exists w'; split; [right; exact Hw'|exact R]].
          + intros [H|(w' & [<-|Hw'] & E1 & E2)]; [auto|congruence|right; exists w'; auto].
        - split.
          + intros [H|(w' & Hw' & R)]; [auto|right; exists w'; split; [right; exact Hw'|exact R]].
          + intros [H|(w' & [<-|Hw'] & E1 & E2)]; [auto|congruence|right; exists w'; auto]. }
      split; [exact Hl'|].
      { intros x. rewrite Hlt, L1. destruct (sw_status w) eqn:Est.
        - split.
          + intros [H|(w' & Hw' & R)]; [auto|right; exists w'; split; [right; exact Hw'|exact R]].
          + intros [H|(w' & [<-|Hw'] & E1 & E2)]; [auto|congruence|right; exists w'; auto].
        - rewrite ix_add_in. split.
          + intros [[->|H]|(w' & Hw' & R)]; [right; exists w; split; [left; reflexivity|auto]|auto|right; exists w'; split; [right; exact Hw'|exact R]].
          + intros [H|(w' & [<-|Hw'] & E1 & E2)]; [left; right; exact H|left; left; exact E2|right; exists w'; auto].
        - split.
          + intros [H|(w' & Hw' & R)]; [auto|right; exists w'; split; [right; exact Hw'|exact R]].
          + intros [H|(w' & [<-|Hw'] & E1 & E2)]; [auto|congruence|right; exists w'; auto]. }
Qed.

(** * Validate *)

Lemma validate_swaps_ok : forall l seen,
  NoDup (map sw_id l) -> (forall w, In w l -> ~ In (sw_id w) seen) -> (forall w, In w l -> swap_valid w = true) ->
  validate_swaps seen l = true.
Proof.
  induction l as [|w r IH]; intros seen Hnd Hs Hv; cbn [validate_swaps]; [reflexivity|].
  cbn [map] in Hnd. inversion Hnd; subst.
  rewrite (Hv w (or_introl eq_refl)). replace (existsb (id_eqb (sw_id w)) seen) with false.
  - cbn [negb andb]. apply IH; [assumption| |intros w' H'; apply Hv; right; exact H'].
    intros w' Hw' [E|Hin]; [|apply (Hs w' (or_intror Hw') Hin)].
    match goal with H : ~ In (sw_id w) (map sw_id r) |- _ => apply H end. rewrite E. apply in_map, Hw'.
  - symmetry. apply not_true_iff_false. intros H. apply existsb_exists in H. destruct H as (x & Hx & E).
    destruct (id_eqb_spec (sw_id w) x); [subst|discriminate]. apply (Hs w (or_introl eq_refl) Hx).
Qed.

Lemma validate_sups_ok : forall (l : list (nat * supply)) seen,
  NoDup (map fst l) -> (forall x, In x l -> ~ In (fst x) seen) -> (forall x, In x l -> sup_valid (snd x) = true) ->
  validate_sups seen l = true.
Proof.
  induction l as [|[d sp] r IH]; intros seen Hnd Hs Hv; cbn [validate_sups]; [reflexivity|].
  cbn [map fst] in Hnd. inversion Hnd; subst.
  pose proof (Hv (d, sp) (or_introl eq_refl)) as Hv0. cbn [snd] in Hv0. rewrite Hv0. replace (existsb (Nat.eqb d) seen) with false.
  - cbn [negb andb]. apply IH; [assumption| |intros x H'; apply Hv; right; exact H'].
    intros x Hx [E|Hin]; [|apply (Hs x (or_intror Hx) Hin)].
    match goal with H : ~ In d (map fst r) |- _ => apply H end. rewrite E. apply in_map, Hx.
  - symmetry. apply not_true_iff_false. intros H. apply existsb_exists in H. destruct H as (x & Hx & E).
    apply Nat.eqb_eq in E. subst. apply (Hs (x, sp) (or_introl eq_refl) Hx).
Qed.

Lemma find_asset_in l : forall a, NoDup (map a_denom l) -> In a l -> find_asset (a_denom a) l = Some a.
Proof.
  induction l as [|b r IH]; intros a Hnd Hin; [destruct Hin|]. cbn [find_asset]. cbn [map] in Hnd. inversion Hnd; subst.
  destruct Hin as [->|Hin]; [rewrite Nat.eqb_refl; reflexivity|].
  destruct (Nat.eqb_spec (a_denom b) (a_denom a)) as [E|_]; [|apply IH; assumption].
  exfalso. match goal with H : ~ In (a_denom b) _ |- _ => apply H end. rewrite E. apply in_map, Hin.
Qed.

(* the sums InitGenesis computes over the genesis swaps are the sums over the swap table *)
Lemma live_sum_ssum d dir ex l : Permutation ex (map snd l) -> live_sum d dir ex = ssum (wt d dir) l.
Proof. intros P. unfold live_sum. rewrite ssum_as_zsum. apply zsum_perm, Permutation_map, P. Qed.

(* the supplies written by the import *)
Lemma sup_fold (f : nat -> supply) : forall (ds : list nat) s,
  let s' := fold_left (fun st (x : nat * supply) => set_sup st (fst x) (snd x)) (map (fun d => (d, f d)) ds) s in
  (forall d, s_sup s' d = if existsb (Nat.eqb d) ds then f d else s_sup s d) /\
  s_height s' = s_height s /\ s_time s' = s_time s /\ s_prev s' = s_prev s /\ s_swaps s' = s_swaps s /\
  s_byblock s' = s_byblock s /\ s_longterm s' = s_longterm s /\ s_bal s' = s_bal s /\ s_bsup s' = s_bsup s /\
  g_next s' = g_next s /\ g_log s' = g_log s.
Proof.
  induction ds as [|d0 r IH]; intros s; cbn [map fold_left existsb]; [repeat split|].
  specialize (IH (set_sup s d0 (f d0))). cbn zeta in IH. cbn [fst snd].
  destruct IH as (A & Rest). split; [|exact Rest].
  intros d. rewrite A. cbn [s_sup set_sup]. unfold upd.
  destruct (existsb (Nat.eqb d) r); [rewrite orb_true_r; reflexivity|]. rewrite orb_false_r.
  destruct (Nat.eqb d d0) eqn:E; [apply Nat.eqb_eq in E; subst; reflexivity|reflexivity].
Qed.

(** * The round trip *)

Definition assets_nodup (e : env) : Prop := NoDup (map a_denom (e_assets e)).

Theorem bep3_roundtrip_full e order s :
  assets_nodup e -> Inv e s -> XInv e s -> order_ok order s = true ->
  validate_genesis (export_genesis e order s) = true /\
  exists s', init_genesis e (wipe s) (export_genesis e order s) = Ok s' tt /\ st_equiv e s s' /\
             (forall d, ~ In d (map a_denom (e_assets e)) -> s_sup s' d = zero_sup).
Proof.
  intros Hnd [IT IC] HX Hord.
  destruct IT as [K R Sr BN B LN L GN GL GD].
  destruct (order_ok_spec order s Hord) as (Hlen & Hndo & Hino).
  assert (Hid : forall i w, lookup i (s_swaps s) = Some w -> i = sw_id w) by (intros i w H; apply (R i w H)).
  destruct (exported_swaps order (s_swaps s) K Hid Hlen Hndo Hino) as (Hids & Hmem & Hperm).
  set (ex := swaps_in_order order (s_swaps s)) in *.
  assert (Hpos : forall p, In p (s_swaps s) -> forall d dir, 0 <= wt d dir (snd p)).
  { intros [i w] Hp d dir. apply wt_nonneg. apply (R i w). apply in_lookup; assumption. }
  (* validation *)
  assert (Hval : validate_genesis (export_genesis e order s) = true).
  { unfold validate_genesis, export_genesis. cbn [g_swaps g_sups]. fold ex. apply andb_true_iff. split.
    - apply validate_swaps_ok; [rewrite Hids; exact Hndo|intros w _ []|].
      intros w Hw. apply Hmem in Hw. destruct (HX _ _ Hw) as (E1 & E2 & E3 & _). destruct (R _ _ Hw) as (_ & Hamt & _).
      unfold swap_valid. repeat (apply andb_true_iff; split).
      + apply Z.ltb_lt, Hamt.
      + apply negb_true_iff, Z.eqb_neq, E1.
      + apply negb_true_iff, Z.eqb_neq, E2.
      + apply negb_true_iff. destruct (status_eqb_spec (sw_status w) Completed) as [Ec|]; [|reflexivity].
        cbn [andb]. apply Z.eqb_neq, E3, Ec.
    - apply validate_sups_ok.
      + rewrite map_map. cbn [fst]. exact Hnd.
      + intros x _ [].
      + intros x Hx. apply in_map_iff in Hx. destruct Hx as (a & <- & _). cbn [snd].
        destruct (IC (a_denom a)) as (C1 & C2 & _ & C4 & C5 & _).
        pose proof (ssum_nonneg (wt (a_denom a) Incoming) (s_swaps s) (fun p Hp => Hpos p Hp _ _)).
        pose proof (ssum_nonneg (wt (a_denom a) Outgoing) (s_swaps s) (fun p Hp => Hpos p Hp _ _)).
        unfold sup_valid. repeat (apply andb_true_iff; split); apply Z.leb_le; lia. }
  split; [exact Hval|].
  unfold init_genesis. rewrite Hval. cbn [negb].
  change (g_prev (export_genesis e order s)) with (s_prev s).
  change (g_swaps (export_genesis e order s)) with ex.
  change (g_sups (export_genesis e order s)) with (map (fun a => (a_denom a, s_sup s (a_denom a))) (e_assets e)).
  (* supplies *)
  assert (Esup : map (fun a => (a_denom a, s_sup s (a_denom a))) (e_assets e)
                 = map (fun d => (d, s_sup s d)) (map a_denom (e_assets e))) by (rewrite map_map; reflexivity).
  rewrite Esup.
  pose proof (sup_fold (s_sup s) (map a_denom (e_assets e)) (set_prev (wipe s) (s_prev s))) as HS. cbn zeta in HS.
  set (s2 := fold_left _ _ (set_prev (wipe s) (s_prev s))) in *.
  destruct HS as (S0 & S1 & S2 & S3 & S4 & S5 & S6 & S7 & S8 & S9 & S10).
  (* swaps *)
  destruct (init_swaps_spec e ex s2) as (s3 & Hin & F & Hlk & Hk' & Hlen' & Hb' & Hbb & Hl' & Hlt).
  { intros w Hw. apply Hmem in Hw. destruct (HX _ _ Hw) as (_ & _ & _ & a & Ea & Eact). eauto. }
  { rewrite Hids. exact Hndo. }
  { intros w _. rewrite S4. reflexivity. }
  { rewrite S4. constructor. }
  { rewrite S5. constructor. }
  { rewrite S6. constructor. }
  rewrite Hin.
  (* closing checks *)
  replace (forallb (sup_check e ex) _) with true.
  2:{ symmetry. apply forallb_forall. intros x Hx. apply in_map_iff in Hx. destruct Hx as (d & <- & Hd).
      apply in_map_iff in Hd. destruct Hd as (a & <- & Ha).
      unfold sup_check. rewrite !(live_sum_ssum _ _ ex (s_swaps s) Hperm).
      destruct (IC (a_denom a)) as (C1 & C2 & _ & C4 & C5 & _ & _ & C8).
      rewrite (find_asset_in _ a Hnd Ha). destruct (C8 a (find_asset_in _ a Hnd Ha)) as [Lim _].
      pose proof (ssum_nonneg (wt (a_denom a) Incoming) (s_swaps s) (fun p Hp => Hpos p Hp _ _)).
      pose proof (ssum_nonneg (wt (a_denom a) Outgoing) (s_swaps s) (fun p Hp => Hpos p Hp _ _)).
      repeat (apply andb_true_iff; split); try (apply Z.eqb_eq; assumption); apply negb_true_iff, Z.ltb_ge; lia. }
  exists s3. split; [reflexivity|].
  destruct F as (f1&f2&f3&f4&f5&f6&f7&f8).
  assert (Lk : forall i, lookup i (s_swaps s3) = lookup i (s_swaps s)).
  { intros i. rewrite Hlk, S4. cbn [s_swaps wipe set_prev lookup]. unfold find_sw.
    destruct (find (fun w => id_eqb i (sw_id w)) ex) as [w|] eqn:Ef.
    - apply find_some in Ef. destruct Ef as [Hw E]. destruct (id_eqb_spec i (sw_id w)) as [->|]; [|discriminate].
      symmetry. apply Hmem, Hw.
    - destruct (lookup i (s_swaps s)) as [w|] eqn:El; [|reflexivity].
      exfalso. pose proof (find_none _ _ Ef w) as Hn. pose proof (Hid _ _ El) as Ei. rewrite Ei in El. apply Hmem in El.
      specialize (Hn El). cbn in Hn. rewrite Ei, id_eqb_refl in Hn. discriminate. }
  split.
  2:{ intros d Hd. rewrite f4, S0. replace (existsb _ _) with false; [reflexivity|].
      symmetry. apply not_true_iff_false. intros Hx. apply existsb_exists in Hx. destruct Hx as (x & Hx & E).
      apply Nat.eqb_eq in E. rewrite <- E in Hx. contradiction. }
  unfold st_equiv. repeat match goal with |- _ /\ _ => split end.
  - exact Lk.
  - exact Hk'.
  - rewrite Hlen', S4. cbn [s_swaps wipe set_prev length Nat.add].
    rewrite <- Hlen. pose proof (f_equal (@length id) Hids) as Hl2. rewrite map_length in Hl2. exact Hl2.
  - exact Hb'.
  - intros [h i]. rewrite Hbb, S5. cbn [s_byblock wipe set_prev In]. rewrite B. split.
    + intros [[]|(w & Hw & Eo & E)]. apply ent_eq_inv in E. destruct E as [-> ->]. exists w. split; [apply Hmem, Hw|auto].
    + intros (w & El & Eo & <-). right. exists w. rewrite (Hid _ _ El) in El |- *. split; [apply Hmem, El|auto].
  - exact Hl'.
  - intros [h i]. rewrite Hlt, S6. cbn [s_longterm wipe set_prev In]. rewrite L. split.
    + intros [[]|(w & Hw & Eo & E)]. apply ent_eq_inv in E. destruct E as [-> ->]. exists w. split; [apply Hmem, Hw|auto].
    + intros (w & El & Eo & <-). right. exists w. rewrite (Hid _ _ El) in El |- *. split; [apply Hmem, El|auto].
  - intros a Ha. rewrite f4, S0. replace (existsb _ _) with true; [reflexivity|].
    symmetry. apply existsb_exists. exists (a_denom a). split; [apply in_map, Ha|apply Nat.eqb_refl].
  - rewrite f3, S3. reflexivity.
  - rewrite f5, S7. reflexivity.
  - rewrite f6, S8. reflexivity.
  - rewrite f1, S1. reflexivity.
  - rewrite f2, S2. reflexivity.
  - rewrite f7, S9. reflexivity.
  - rewrite f8, S10. reflexivity.
Qed.

Theorem bep3_roundtrip e order s :
  assets_nodup e -> Inv e s -> XInv e s -> order_ok order s = true ->
  validate_genesis (export_genesis e order s) = true /\
  exists s', init_genesis e (wipe s) (export_genesis e order s) = Ok s' tt /\ st_equiv e s s'.
Proof.
  intros A B C D. destruct (bep3_roundtrip_full e order s A B C D) as (V & s' & H1 & H2 & _). eauto.
Qed.

(** * The imported state satisfies the invariant again *)

(* supply records exist for the asset denoms only (they are created by genesis) *)
Definition sup_support (e : env) (s : state) : Prop :=
  forall d, ~ In d (map a_denom (e_assets e)) -> s_sup s d = zero_sup.

Lemma ssum_perm f l1 l2 : Permutation l1 l2 -> ssum f l1 = ssum f l2.
Proof. intros P. rewrite !ssum_as_zsum. apply zsum_perm, Permutation_map, Permutation_map, P. Qed.

Lemma lookup_in i w l : lookup i l = Some w -> In (i, w) l.
Proof.
  induction l as [|[j u] r IH]; cbn [lookup]; [discriminate|].
  destruct (id_eqb_spec i j) as [->|]; [intros E; inversion E; left; reflexivity|intros E; right; apply IH, E].
Qed.

Lemma ssum_lookup_ext f l1 l2 :
  NoDup (map fst l1) -> NoDup (map fst l2) -> (forall i, lookup i l1 = lookup i l2) -> ssum f l1 = ssum f l2.
Proof.
  intros N1 N2 H. apply ssum_perm. apply NoDup_Permutation.
  - eapply NoDup_map_inv, N1.
  - eapply NoDup_map_inv, N2.
  - intros [i w]. split; intros Hin.
    + apply lookup_in. rewrite <- H. apply in_lookup; assumption.
    + apply lookup_in. rewrite H. apply in_lookup; assumption.
Qed.

Lemma find_asset_some_in d l a : find_asset d l = Some a -> In a l.
Proof.
  induction l as [|b r IH]; cbn [find_asset]; [discriminate|].
  destruct (Nat.eqb (a_denom b) d); [intros E; inversion E; left; reflexivity|intros E; right; apply IH, E].
Qed.

Theorem imported_inv e s s' :
  Inv e s -> sup_support e s -> st_equiv e s s' ->
  (forall d, ~ In d (map a_denom (e_assets e)) -> s_sup s' d = zero_sup) ->
  Inv e s' /\ sup_support e s' /\ (forall d, s_sup s' d = s_sup s d).
Proof.
  intros [IT IC] Hss (Lk & K' & _ & BN' & Bm & LN' & Lm & Sa & Ep & Eb & Ebs & Eh & Et & En & El) Hz.
  destruct IT as [K R Sr BN B LN L GN GL GD].
  assert (Hsup : forall d, s_sup s' d = s_sup s d).
  { intros d. destruct (in_dec Nat.eq_dec d (map a_denom (e_assets e))) as [Hin|Hn].
    - apply in_map_iff in Hin. destruct Hin as (a & <- & Ha). apply Sa, Ha.
    - rewrite (Hz d Hn), (Hss d Hn). reflexivity. }
  split; [|split; [exact Hz|exact Hsup]].
  split.
  - rewrite En, El. constructor.
    + exact K'.
    + intros i w. rewrite Lk. apply R.
    + intros i j w1 w2. rewrite !Lk. apply Sr.
    + exact BN'.
    + intros h i. rewrite Bm, B. split; intros (w & E1 & E2); exists w; [rewrite Lk|rewrite <- Lk]; auto.
    + exact LN'.
    + intros h i. rewrite Lm, L. split; intros (w & E1 & E2); exists w; [rewrite Lk|rewrite <- Lk]; auto.
    + exact GN.
    + exact GL.
    + intros i w. rewrite Lk. apply GD.
  - intros d. specialize (IC d). unfold cnt_ok in *.
    rewrite Hsup, Eb, Ebs, El.
    rewrite !(ssum_lookup_ext _ (s_swaps s') (s_swaps s) K' K Lk). exact IC.
Qed.

(** * The extra facts hold along every history *)

(* block heights are positive and block times are after 1970-01-01T00:15:01 (so that an accepted timestamp,
   not older than 15 minutes, is not 0) *)
Definition XInvH (e : env) (s : state) : Prop := XInv e s /\ 1 <= s_height s /\ 901 * SEC <= s_time s.

Definition op_gen_ok' (o : op) : Prop :=
  match o with
  | Create _ _ span _ _ _ _ _ => 0 <= span
  | BeginBlock h t => 1 <= h /\ 901 * SEC <= t
  | _ => True
  end.

Lemma update_time_limits_time e s : s_time (update_time_limits e s) = s_time s.
Proof.
  unfold update_time_limits. destruct (e_assets e) as [|a r]; [reflexivity|].
  pose proof (tick_fold_same (s_time s - s_prev s) (a :: r) s) as H. cbv zeta in H.
  destruct H as (_ & _ & B2 & _). cbn [s_time set_prev]. exact B2.
Qed.

Lemma begin_block_time e s h t : Inv e s -> s_time (begin_block e s h t) = t.
Proof.
  intros I. unfold begin_block.
  pose proof (set_clock_inv e s h t I) as I0.
  destruct (update_time_limits_same e (set_clock s h t)) as [SS _].
  pose proof (same_but_sup_inv e _ _ SS I0) as I1.
  destruct (update_expired_inv e _ I1) as [I2 (_ & B2 & _)].
  destruct (delete_closed_inv e _ I2) as [_ (_ & C2 & _)].
  rewrite C2, B2, update_time_limits_time. reflexivity.
Qed.

Lemma step_time e s o s' : Inv e s -> step e s o = Ok s' tt ->
  s_time s' = match o with BeginBlock _ t => t | _ => s_time s end.
Proof.
  intros I H.
  destruct o as [h ts span sender recip soc coins cross|from i secret|from i|h t]; cbn [step] in H.
  - apply create_shape in H.
    destruct H as (d & x & a & dir & sp & bal' & _ & _ & _ & _ & _ & _ & _ & _ & ->). reflexivity.
  - apply claim_shape in H. destruct H as (w & _ & _ & _ & H). cbv zeta in H.
    destruct H as [(_ & ? & ? & ? & _ & _ & _ & _ & _ & ->)|(_ & ? & ? & _ & _ & _ & ->)]; reflexivity.
  - apply refund_shape in H. destruct H as (w & _ & _ & H). cbv zeta in H.
    destruct H as [(_ & ? & _ & ->)|(_ & ? & _ & _ & _ & ->)]; reflexivity.
  - inversion H; subst. apply begin_block_time. exact I.
Qed.

Lemma gen_ok_with_status e w st c : gen_ok e w -> (st = Completed -> c <> 0) -> gen_ok e (with_status w st c).
Proof. intros (A & B & _ & D) Hc. unfold gen_ok, with_status. cbn. auto. Qed.

Theorem step_XInvH e s o s' :
  Inv e s -> XInvH e s -> op_gen_ok' o -> step e s o = Ok s' tt -> XInvH e s'.
Proof.
  intros I (HX & Hh & Ht) Hg H.
  pose proof (step_height e s o s' I H) as Eh. pose proof (step_time e s o s' I H) as Et.
  split; [|split].
  - destruct o as [h ts span sender recip soc coins cross|from i secret|from i|h t].
    + (* create: the new record has expiry height + span >= 1, an accepted timestamp, an active asset *)
      cbn [step] in H. pose proof (create_expiry_no_wrap _ _ _ _ _ _ _ _ _ _ _ H) as Hnw.
      apply create_shape in H. destruct H as (d & x & a & dir & sp & bal' & _ & _ & _ & Ea & Eact & _ & Hts & _ & ->).
      intros j w. cbn [s_swaps]. rewrite lookup_set. destruct (id_eqb j (h, sender, soc)); [|apply HX].
      intros E; inversion E; subst w. unfold gen_ok, new_swap. cbn [sw_expire sw_ts sw_status sw_closed sw_denom].
      cbn [op_gen_ok'] in Hg. split; [|split; [|split; [discriminate|exists a; auto]]].
      * rewrite Z.mod_small by (unfold U64 in *; lia). lia.
      * assert (1 <= (s_time s - 900 * SEC) / SEC); [|lia].
        apply Z.div_le_lower_bound; unfold SEC in *; lia.
    + intros j w Hl. pose proof (lifecycle e s _ s' I H j) as C. rewrite Hl in C. inversion C; subst; try discriminate.
      * apply HX with j. congruence.
      * apply gen_ok_with_status; [eapply HX; eauto|intros _; lia].
    + intros j w Hl. pose proof (lifecycle e s _ s' I H j) as C. rewrite Hl in C. inversion C; subst; try discriminate.
      * apply HX with j. congruence.
      * apply gen_ok_with_status; [eapply HX; eauto|intros _; lia].
    + intros j w Hl. pose proof (lifecycle e s _ s' I H j) as C. rewrite Hl in C. inversion C; subst; try discriminate.
      * apply HX with j. congruence.
      * apply gen_ok_with_status; [eapply HX; eauto|discriminate].
  - rewrite Eh. destruct o; cbn [op_gen_ok'] in Hg; lia.
  - rewrite Et. destruct o; cbn [op_gen_ok'] in Hg; lia.
Qed.

(* histories in which the module account never signs and blocks carry positive heights and times *)
Fixpoint ghist_ok (e : env) (ops : list op) : Prop :=
  match ops with
  | [] => True
  | o :: r => op_ok e o /\ op_gen_ok' o /\ ghist_ok e r
  end.

Theorem run_XInvH e ops : forall s, env_wf e -> ghist_ok e ops -> Inv e s -> XInvH e s ->
  Inv e (run e s ops) /\ XInvH e (run e s ops).
Proof.
  induction ops as [|o r IH]; intros s We Hh I HX; cbn [run fold_left]; [split; assumption|].
  destruct Hh as (Ho & Hg & Hr).
  apply IH; try assumption.
  - apply step'_inv; assumption.
  - unfold step'. destruct (step e s o) as [s' []| |] eqn:E; try exact HX.
    eapply step_XInvH; eassumption.
Qed.

(* every state reached by such a history exports a valid genesis that re-imports to the same state *)
Theorem bep3_roundtrip_reachable e ops s order :
  env_wf e -> assets_nodup e -> ghist_ok e ops -> Inv e s -> XInvH e s ->
  let s1 := run e s ops in
  order_ok order s1 = true ->
  validate_genesis (export_genesis e order s1) = true /\
  exists s', init_genesis e (wipe s1) (export_genesis e order s1) = Ok s' tt /\ st_equiv e s1 s'.
Proof.
  intros We Hnd Hh I HX s1 Ho. destruct (run_XInvH e ops s We Hh I HX) as [I1 (HX1 & _)].
  apply bep3_roundtrip; assumption.
Qed.

(* supply records are only ever written for asset denoms *)
Lemma asset_denom_in e d a : find_asset d (e_assets e) = Some a -> In d (map a_denom (e_assets e)).
Proof. intros H. rewrite <- (find_asset_denom _ _ _ H). apply in_map. eapply find_asset_some_in, H. Qed.

Lemma swap_denom_in e s i w : Inv e s -> lookup i (s_swaps s) = Some w -> In (sw_denom w) (map a_denom (e_assets e)).
Proof.
  intros [IT _] Hl. destruct (t_rec _ _ _ _ _ _ IT i w Hl) as (_ & _ & _ & _ & _ & a & Ea & _). eapply asset_denom_in, Ea.
Qed.

Theorem step_sup_support e s o s' :
  assets_nodup e -> Inv e s -> sup_support e s -> step e s o = Ok s' tt -> sup_support e s'.
Proof.
  intros Hnd I Hs H d Hd.
  destruct o as [h ts span sender recip soc coins cross|from i secret|from i|h t]; cbn [step] in H.
  - apply create_shape in H. destruct H as (d0 & x & a & dir & sp & bal' & _ & _ & _ & Ea & _ & _ & _ & _ & ->).
    cbn [s_sup]. rewrite upd_at. destruct (Nat.eqb_spec d d0) as [->|]; [|apply Hs, Hd].
    exfalso. apply Hd. eapply asset_denom_in, Ea.
  - destruct (claim_supply _ _ _ _ _ _ H) as (w & Hl & Hoth & _). cbv zeta in Hoth.
    rewrite Hoth; [apply Hs, Hd|]. intros ->. apply Hd. eapply swap_denom_in; eassumption.
  - apply refund_shape in H. destruct H as (w & Hl & _ & H). cbv zeta in H.
    assert (Hw : d <> sw_denom w) by (intros ->; apply Hd; eapply swap_denom_in; eassumption).
    destruct H as [(_ & sp1 & _ & ->)|(_ & sp1 & _ & _ & _ & ->)]; unfold closed_state; cbn [s_sup]; rewrite upd_at;
      (destruct (Nat.eqb_spec d (sw_denom w)); [contradiction|apply Hs, Hd]).
  - inversion H; subst s'. destruct (e_assets e) as [|a0 r0] eqn:Eas.
    + (* no assets: the supplies are not ticked *)
      unfold begin_block.
      pose proof (set_clock_inv e s h t I) as I0.
      assert (Eu : update_time_limits e (set_clock s h t) = set_clock s h t) by (unfold update_time_limits; rewrite Eas; reflexivity).
      rewrite Eu. destruct (update_expired_inv e _ I0) as [I2 (_ & _ & _ & B4 & _)].
      destruct (delete_closed_inv e _ I2) as [_ (_ & _ & _ & C4 & _)]. rewrite C4, B4. cbn [s_sup set_clock]. apply Hs.
      rewrite Eas. exact Hd.
    + destruct (begin_block_supply e s h t d I Hnd ltac:(rewrite Eas; discriminate)) as [_ E]. rewrite E.
      destruct (find_asset d (e_assets e)) as [a|] eqn:Ea; [|apply Hs; rewrite Eas; exact Hd].
      exfalso. apply Hd. rewrite <- Eas. eapply asset_denom_in, Ea.
Qed.

(* the whole round trip with the invariants on the imported state *)
Theorem bep3_roundtrip_inv e order s :
  assets_nodup e -> Inv e s -> XInv e s -> sup_support e s -> order_ok order s = true ->
  exists s', init_genesis e (wipe s) (export_genesis e order s) = Ok s' tt /\ st_equiv e s s' /\
             (forall d, s_sup s' d = s_sup s d) /\ Inv e s' /\ XInv e s' /\ sup_support e s'.
Proof.
  intros A I X S O. destruct (bep3_roundtrip_full e order s A I X O) as (_ & s' & H1 & H2 & H3).
  destruct (imported_inv e s s' I S H2 H3) as (I' & S' & E').
  exists s'. split; [exact H1|]. split; [exact H2|]. split; [exact E'|]. split; [exact I'|]. split; [|exact S'].
  intros i w. destruct H2 as (Lk & _). rewrite Lk. apply X.
Qed.

Theorem run_all e ops : forall s, env_wf e -> assets_nodup e -> ghist_ok e ops ->
  Inv e s -> XInvH e s -> sup_support e s ->
  Inv e (run e s ops) /\ XInvH e (run e s ops) /\ sup_support e (run e s ops).
Proof.
  induction ops as [|o r IH]; intros s We Hnd Hh I HX HS; cbn [run fold_left]; [auto|].
  destruct Hh as (Ho & Hg & Hr).
  apply IH; try assumption.
  - apply step'_inv; assumption.
  - unfold step'. destruct (step e s o) as [s' []| |] eqn:E; try exact HX. eapply step_XInvH; eassumption.
  - unfold step'. destruct (step e s o) as [s' []| |] eqn:E; try exact HS. eapply step_sup_support; eassumption.
Qed.
