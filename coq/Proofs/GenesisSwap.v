(* Round trip of the x/swap genesis state (Model/GenesisSwap.v). *)
From Kava Require Import Base.Prelude Base.Dec Model.Swap Proofs.Swap Model.GenesisSwap.
Require Import ZifyBool ZifyNat.
Local Open Scope Z_scope.

(** * generic list facts *)

Lemma NoDup_app_intro {A} (l1 l2 : list A) :
  NoDup l1 -> NoDup l2 -> (forall x, In x l1 -> ~ In x l2) -> NoDup (l1 ++ l2).
Proof.
  induction l1 as [|a r IH]; intros N1 N2 D; [exact N2|]. cbn. inversion N1 as [|? ? Ha Nr]; subst.
  constructor.
  - rewrite in_app_iff. intros [H|H]; [contradiction|]. apply (D a); [left; reflexivity|exact H].
  - apply IH; [exact Nr|exact N2|]. intros x Hx. apply D. right; exact Hx.
Qed.

Lemma nodup_flat_map {B} (f : nat -> list B) (tag : B -> nat) : forall l, NoDup l ->
  (forall i b, In b (f i) -> tag b = i) -> (forall i, NoDup (f i)) -> NoDup (flat_map f l).
Proof.
  induction l as [|i r IH]; intros ND T N; [constructor|]. inversion ND as [|? ? Hi Nr]; subst. cbn [flat_map].
  apply NoDup_app_intro; [apply N|apply IH; assumption|].
  intros b Hb Hr. apply in_flat_map in Hr. destruct Hr as [j [Hj Hbj]]. rewrite <- (T i b Hb), (T j b Hbj) in Hi. contradiction.
Qed.

Lemma nodup_map_on {A B} (key : A -> B) : forall l, NoDup l ->
  (forall a b, In a l -> In b l -> key a = key b -> a = b) -> NoDup (map key l).
Proof.
  induction l as [|a r IH]; intros ND Inj; [constructor|]. inversion ND as [|? ? Ha Nr]; subst. cbn [map]. constructor.
  - intros H. apply in_map_iff in H. destruct H as [b [Eb Hb]]. rewrite (Inj b a (or_intror Hb) (or_introl eq_refl) Eb) in Hb. contradiction.
  - apply IH; [exact Nr|]. intros x y Hx Hy. apply Inj; right; assumption.
Qed.

Lemma flat_map_ext_in' {A B} (f g : A -> list B) : forall l, (forall a, In a l -> f a = g a) -> flat_map f l = flat_map g l.
Proof.
  induction l as [|a r IH]; intros H; [reflexivity|]. cbn [flat_map]. rewrite (H a (or_introl eq_refl)), IH; [reflexivity|].
  intros b Hb. apply H. right; exact Hb.
Qed.

Lemma zsum_app l1 l2 : zsum (l1 ++ l2) = zsum l1 + zsum l2.
Proof. induction l1 as [|x r IH]; cbn; [reflexivity|]. unfold zsum in *. cbn. lia. Qed.

Lemma sumN_single n x (g : nat -> Z) : (x < n)%nat -> sumN n (fun i => if Nat.eqb i x then g i else 0) = g x.
Proof.
  induction n as [|n IH]; intros H; [lia|]. cbn [sumN]. destruct (Nat.eqb_spec n x) as [->|Hne].
  - rewrite sumN_zero; [lia|]. intros i Hi. destruct (Nat.eqb_spec i x); [lia|reflexivity].
  - rewrite IH by lia. lia.
Qed.

(** * membership in the exported lists *)

Definition pcell (s : kstate) (x y : nat) : list gpool :=
  match k_pool s x y with Some p => [mkGP x y x y (ra p) (rb p) (sh p)] | None => [] end.
Definition scell (s : kstate) (a x y : nat) : list gshare :=
  if k_sh s a x y =? 0 then [] else [mkGS a x y (k_sh s a x y)].

Lemma export_pools_eq e s : export_pools e s = flat_map (fun x => flat_map (pcell s x) (seq 0 (nden e))) (seq 0 (nden e)).
Proof. reflexivity. Qed.
Lemma export_shares_eq e s : export_shares e s =
  flat_map (fun a => flat_map (fun x => flat_map (scell s a x) (seq 0 (nden e))) (seq 0 (nden e))) (seq 0 (S (nusers e))).
Proof. reflexivity. Qed.

Lemma in_export_pools e s p : In p (export_pools e s) <->
  exists x y q, (x < nden e)%nat /\ (y < nden e)%nat /\ k_pool s x y = Some q /\ p = mkGP x y x y (ra q) (rb q) (sh q).
Proof.
  rewrite export_pools_eq, in_flat_map. split.
  - intros [x [Hx H]]. apply in_flat_map in H. destruct H as [y [Hy H]]. apply in_seq in Hx, Hy. unfold pcell in H.
    destruct (k_pool s x y) as [q|] eqn:E; [|contradiction]. destruct H as [<-|[]]. exists x, y, q. repeat split; try lia; auto.
  - intros [x [y [q [Hx [Hy [E ->]]]]]]. exists x. split; [apply in_seq; lia|]. apply in_flat_map. exists y. split; [apply in_seq; lia|].
    unfold pcell. rewrite E. left; reflexivity.
Qed.

Lemma in_export_shares e s r : In r (export_shares e s) <->
  exists a x y, (a < S (nusers e))%nat /\ (x < nden e)%nat /\ (y < nden e)%nat /\ k_sh s a x y <> 0 /\ r = mkGS a x y (k_sh s a x y).
Proof.
  rewrite export_shares_eq, in_flat_map. split.
  - intros [a [Ha H]]. apply in_flat_map in H. destruct H as [x [Hx H]]. apply in_flat_map in H. destruct H as [y [Hy H]].
    apply in_seq in Ha, Hx, Hy. unfold scell in H. destruct (Z.eqb_spec (k_sh s a x y) 0); [contradiction|]. destruct H as [<-|[]].
    exists a, x, y. repeat split; try lia; auto.
  - intros [a [x [y [Ha [Hx [Hy [Hn ->]]]]]]]. exists a. split; [apply in_seq; lia|]. apply in_flat_map. exists x. split; [apply in_seq; lia|].
    apply in_flat_map. exists y. split; [apply in_seq; lia|]. unfold scell. destruct (Z.eqb_spec (k_sh s a x y) 0); [contradiction|]. left; reflexivity.
Qed.

Lemma nodup_export_pools e s : NoDup (export_pools e s).
Proof.
  rewrite export_pools_eq. apply (nodup_flat_map _ gp_x); [apply seq_NoDup| |].
  - intros x p H. apply in_flat_map in H. destruct H as [y [_ H]]. unfold pcell in H. destruct (k_pool s x y); [|contradiction]. destruct H as [<-|[]]. reflexivity.
  - intros x. apply (nodup_flat_map _ gp_y); [apply seq_NoDup| |].
    + intros y p H. unfold pcell in H. destruct (k_pool s x y); [|contradiction]. destruct H as [<-|[]]. reflexivity.
    + intros y. unfold pcell. destruct (k_pool s x y); [constructor; [intros []|constructor]|constructor].
Qed.

Lemma nodup_export_shares e s : NoDup (export_shares e s).
Proof.
  rewrite export_shares_eq. apply (nodup_flat_map _ gs_who); [apply seq_NoDup| |].
  - intros a r H. apply in_flat_map in H. destruct H as [x [_ H]]. apply in_flat_map in H. destruct H as [y [_ H]].
    unfold scell in H. destruct (_ =? 0); [contradiction|]. destruct H as [<-|[]]. reflexivity.
  - intros a. apply (nodup_flat_map _ gs_x); [apply seq_NoDup| |].
    + intros x r H. apply in_flat_map in H. destruct H as [y [_ H]]. unfold scell in H. destruct (_ =? 0); [contradiction|]. destruct H as [<-|[]]. reflexivity.
    + intros x. apply (nodup_flat_map _ gs_y); [apply seq_NoDup| |].
      * intros y r H. unfold scell in H. destruct (_ =? 0); [contradiction|]. destruct H as [<-|[]]. reflexivity.
      * intros y. unfold scell. destruct (_ =? 0); [constructor|constructor; [intros []|constructor]].
Qed.

Definition pkey (p : gpool) : nat * nat := (gp_x p, gp_y p).
Definition skey (r : gshare) : nat * nat * nat := (gs_who r, gs_x r, gs_y r).

Lemma nodup_pool_keys e s : NoDup (map pkey (export_pools e s)).
Proof.
  apply nodup_map_on; [apply nodup_export_pools|]. intros a b Ha Hb K.
  apply in_export_pools in Ha, Hb. destruct Ha as [x [y [q [_ [_ [E ->]]]]]]. destruct Hb as [x' [y' [q' [_ [_ [E' ->]]]]]].
  unfold pkey in K. cbn in K. injection K as <- <-. rewrite E in E'. injection E' as <-. reflexivity.
Qed.

Lemma nodup_share_keys e s : NoDup (map skey (export_shares e s)).
Proof.
  apply nodup_map_on; [apply nodup_export_shares|]. intros a b Ha Hb K.
  apply in_export_shares in Ha, Hb. destruct Ha as [u [x [y [_ [_ [_ [_ ->]]]]]]]. destruct Hb as [u' [x' [y' [_ [_ [_ [_ ->]]]]]]].
  unfold skey in K. cbn in K. injection K as <- <- <-. reflexivity.
Qed.

(** * the boolean duplicate checks *)

Lemma nodup_pairs_spec : forall l seen, NoDup l -> (forall p, In p l -> ~ In p seen) -> nodup_pairs seen l = true.
Proof.
  induction l as [|[a b] r IH]; intros seen ND Hd; [reflexivity|]. cbn [nodup_pairs]. inversion ND as [|? ? Hn ND']; subst.
  assert (E : existsb (fun p => Nat.eqb (fst p) a && Nat.eqb (snd p) b) seen = false).
  { destruct (existsb _ seen) eqn:X; [|reflexivity]. apply existsb_exists in X. destruct X as [[a' b'] [Hy Ey]]. cbn in Ey.
    apply andb_true_iff in Ey. destruct Ey as [E1 E2]. apply Nat.eqb_eq in E1, E2. subst. exfalso. apply (Hd (a, b)); [left; reflexivity|exact Hy]. }
  rewrite E. cbn [negb andb]. apply IH; [exact ND'|]. intros p Hp [<-|Hs]; [contradiction|]. apply (Hd p); [right; exact Hp|exact Hs].
Qed.

Lemma nodup_shares_spec : forall l seen, NoDup (map skey l) -> (forall k, In k (map skey l) -> ~ In k seen) -> nodup_shares seen l = true.
Proof.
  induction l as [|r rest IH]; intros seen ND Hd; [reflexivity|]. cbn [nodup_shares]. cbn [map] in ND, Hd. inversion ND as [|? ? Hn ND']; subst.
  assert (E : existsb (fun k => Nat.eqb (fst (fst k)) (gs_who r) && Nat.eqb (snd (fst k)) (gs_x r) && Nat.eqb (snd k) (gs_y r)) seen = false).
  { destruct (existsb _ seen) eqn:X; [|reflexivity]. apply existsb_exists in X. destruct X as [[[a x] y] [Hy Ey]]. cbn in Ey.
    apply andb_true_iff in Ey. destruct Ey as [Ey E3]. apply andb_true_iff in Ey. destruct Ey as [E1 E2]. apply Nat.eqb_eq in E1, E2, E3. subst.
    exfalso. apply (Hd (skey r)); [left; reflexivity|exact Hy]. }
  rewrite E. cbn [negb andb]. apply IH; [exact ND'|]. intros k Hk [<-|Hs]; [contradiction|]. apply (Hd k); [right; exact Hk|exact Hs].
Qed.

(** * totals *)

Definition tstep (x y : nat) (acc : Z) (p : gpool) : Z := if Nat.eqb (gp_x p) x && Nat.eqb (gp_y p) y then gp_sh p else acc.

Lemma total_of_none x y : forall l acc, (forall p, In p l -> pkey p <> (x, y)) -> fold_left (tstep x y) l acc = acc.
Proof.
  induction l as [|p r IH]; intros acc H; [reflexivity|]. cbn [fold_left]. rewrite IH by (intros q Hq; apply H; right; exact Hq).
  unfold tstep. destruct (Nat.eqb_spec (gp_x p) x); [|reflexivity]. destruct (Nat.eqb_spec (gp_y p) y); [|reflexivity].
  exfalso. apply (H p (or_introl eq_refl)). unfold pkey. congruence.
Qed.

Lemma total_of_in : forall l acc p, NoDup (map pkey l) -> In p l -> fold_left (tstep (gp_x p) (gp_y p)) l acc = gp_sh p.
Proof.
  induction l as [|q r IH]; intros acc p ND Hin; [contradiction|]. cbn [map] in ND. inversion ND as [|? ? Hn ND']; subst. cbn [fold_left].
  destruct Hin as [->|Hin].
  - rewrite total_of_none.
    + unfold tstep. rewrite !Nat.eqb_refl. reflexivity.
    + intros q Hq E. apply Hn. apply in_map_iff. exists q. split; [exact E|exact Hq].
  - apply IH; assumption.
Qed.

Lemma total_of_export e s x y : (x < nden e)%nat -> (y < nden e)%nat ->
  total_of (export_pools e s) x y = pool_shares (k_pool s x y).
Proof.
  intros Hx Hy. unfold total_of. change (fun acc p => if Nat.eqb (gp_x p) x && Nat.eqb (gp_y p) y then gp_sh p else acc) with (tstep x y).
  destruct (k_pool s x y) as [q|] eqn:E; cbn [pool_shares].
  - assert (Hin : In (mkGP x y x y (ra q) (rb q) (sh q)) (export_pools e s)) by (apply in_export_pools; exists x, y, q; auto).
    apply (total_of_in _ 0 _ (nodup_pool_keys e s) Hin).
  - apply total_of_none. intros p Hp K. apply in_export_pools in Hp. destruct Hp as [x' [y' [q [_ [_ [E' ->]]]]]].
    unfold pkey in K. cbn in K. injection K as -> ->. congruence.
Qed.

Lemma owned_app l1 l2 x y : owned_of (l1 ++ l2) x y = owned_of l1 x y + owned_of l2 x y.
Proof. unfold owned_of. rewrite map_app, zsum_app. reflexivity. Qed.

Lemma owned_flat_map (f : nat -> list gshare) x y : forall n,
  owned_of (flat_map f (seq 0 n)) x y = sumN n (fun i => owned_of (f i) x y).
Proof.
  induction n as [|n IH]; [reflexivity|]. rewrite seq_S, flat_map_app, owned_app, IH. cbn [sumN flat_map plus]. rewrite app_nil_r. reflexivity.
Qed.

Lemma owned_export e s x y : (x < nden e)%nat -> (y < nden e)%nat ->
  owned_of (export_shares e s) x y = sumN (S (nusers e)) (fun a => k_sh s a x y).
Proof.
  intros Hx Hy. rewrite export_shares_eq, owned_flat_map. apply sumN_ext. intros a _.
  rewrite owned_flat_map. rewrite (sumN_ext _ _ (fun x' => if Nat.eqb x' x then k_sh s a x' y else 0)).
  - apply (sumN_single (nden e) x (fun x' => k_sh s a x' y) Hx).
  - intros x' _. rewrite owned_flat_map. rewrite (sumN_ext _ _ (fun y' => if Nat.eqb y' y then (if Nat.eqb x' x then k_sh s a x' y' else 0) else 0)).
    + rewrite (sumN_single (nden e) y (fun y' => if Nat.eqb x' x then k_sh s a x' y' else 0) Hy). reflexivity.
    + intros y' _. unfold scell, owned_of. destruct (Z.eqb_spec (k_sh s a x' y') 0) as [Z0|NZ]; cbn [map zsum fold_right gs_x gs_y gs_sh].
      * destruct (Nat.eqb y' y), (Nat.eqb x' x); lia.
      * destruct (Nat.eqb x' x), (Nat.eqb y' y); cbn [andb]; lia.
Qed.

(** * Validation of the export passes *)

Definition PValid (e : env) : Prop := params_valid (allowed e) (swap_fee e) = true.

Lemma shares_pos e s a x y : Inv e s -> k_sh s a x y <> 0 -> 0 < k_sh s a x y.
Proof. intros (_ & _ & _ & I4) H. specialize (I4 a x y). lia. Qed.

Lemma export_validates e s : Inv e s -> PValid e -> validate_genesis (export_genesis e s) = true.
Proof.
  intros I PV. pose proof I as (I1 & I2 & I3 & I4). unfold validate_genesis. cbn [g_allowed g_fee g_pools g_shares export_genesis].
  unfold PValid in PV. rewrite PV. cbn [andb].
  assert (V1 : forallb gpool_valid (export_pools e s) = true).
  { apply forallb_forall. intros p Hp. apply in_export_pools in Hp. destruct Hp as [x [y [q [_ [_ [E ->]]]]]].
    destruct (I3 x y q E) as [[W1 [W2 W3]] Hxy]. unfold gpool_valid. cbn [gp_x gp_y gp_da gp_db gp_ra gp_rb gp_sh]. rewrite !Nat.eqb_refl.
    assert (L : Nat.ltb x y = true) by (apply Nat.ltb_lt; exact Hxy). rewrite L. cbn [andb].
    assert (A1 : (0 <? ra q) = true) by lia. assert (A2 : (0 <? rb q) = true) by lia. assert (A3 : (0 <? sh q) = true) by lia.
    rewrite A1, A2, A3. reflexivity. }
  assert (V2 : nodup_pools (export_pools e s) = true).
  { unfold nodup_pools. apply nodup_pairs_spec; [apply nodup_pool_keys|intros p _ []]. }
  assert (V3 : forallb gshare_valid (export_shares e s) = true).
  { apply forallb_forall. intros r Hr. apply in_export_shares in Hr. destruct Hr as [a [x [y [Ha [Hx [Hy [Hn ->]]]]]]].
    unfold gshare_valid. cbn [gs_x gs_y gs_sh]. pose proof (shares_pos e s a x y I Hn) as P.
    (* the pool exists: its total is the sum of non-negative shares, one of them positive *)
    assert (Hp : 0 < pool_shares (k_pool s x y)).
    { rewrite (I2 x y Hx Hy). clear - I4 P Ha. revert Ha. generalize (S (nusers e)). intros n Ha.
      assert (G : forall n, (forall i, 0 <= k_sh s i x y) -> 0 <= sumN n (fun a0 => k_sh s a0 x y)).
      { induction n0 as [|k IH]; intros H; cbn [sumN]; [lia|]. specialize (IH H). specialize (H k). lia. }
      induction n as [|n IH]; [lia|]. cbn [sumN]. destruct (Nat.eq_dec a n) as [->|Hne].
      - pose proof (G n (fun i => I4 i x y)). lia.
      - assert (a < n)%nat by lia. specialize (IH H). specialize (I4 n x y). lia. }
    destruct (k_pool s x y) as [q|] eqn:E; [|cbn in Hp; lia]. destruct (I3 x y q E) as [_ Hxy].
    assert (L : Nat.ltb x y = true) by (apply Nat.ltb_lt; exact Hxy). rewrite L. cbn [andb]. apply Z.ltb_lt. exact P. }
  assert (V4 : nodup_shares [] (export_shares e s) = true).
  { apply nodup_shares_spec; [apply nodup_share_keys|intros k _ []]. }
  rewrite V1, V2, V3, V4. cbn [andb]. unfold totals_match. cbn [g_pools g_shares]. apply andb_true_iff. split.
  - apply forallb_forall. intros p Hp. apply in_export_pools in Hp. destruct Hp as [x [y [q [Hx [Hy [E ->]]]]]]. cbn [gp_x gp_y g_pools g_shares export_genesis].
    rewrite total_of_export, owned_export by assumption. apply Z.eqb_eq. apply I2; assumption.
  - apply forallb_forall. intros r Hr. apply in_export_shares in Hr. destruct Hr as [a [x [y [Ha [Hx [Hy [Hn ->]]]]]]]. cbn [gs_x gs_y g_pools g_shares export_genesis].
    rewrite total_of_export, owned_export by assumption. apply Z.eqb_eq. apply I2; assumption.
Qed.

(** * InitGenesis of the export *)

Lemma fold_pools_notin : forall (l : list gpool) f x y, (forall p, In p l -> pkey p <> (x, y)) ->
  fold_left (fun f p => upd2 f (gp_x p) (gp_y p) (Some (mkPool (gp_ra p) (gp_rb p) (gp_sh p)))) l f x y = f x y.
Proof.
  induction l as [|p r IH]; intros f x y H; [reflexivity|]. cbn [fold_left]. rewrite IH by (intros q Hq; apply H; right; exact Hq).
  unfold upd2. destruct (Nat.eqb_spec x (gp_x p)); [|reflexivity]. destruct (Nat.eqb_spec y (gp_y p)); [|reflexivity].
  exfalso. apply (H p (or_introl eq_refl)). unfold pkey. congruence.
Qed.

Lemma fold_pools_in : forall (l : list gpool) f p, NoDup (map pkey l) -> In p l ->
  fold_left (fun f p => upd2 f (gp_x p) (gp_y p) (Some (mkPool (gp_ra p) (gp_rb p) (gp_sh p)))) l f (gp_x p) (gp_y p)
  = Some (mkPool (gp_ra p) (gp_rb p) (gp_sh p)).
Proof.
  induction l as [|q r IH]; intros f p ND Hin; [contradiction|]. cbn [map] in ND. inversion ND as [|? ? Hn ND']; subst. cbn [fold_left].
  destruct Hin as [->|Hin]; [|apply IH; assumption].
  rewrite fold_pools_notin.
  - unfold upd2. rewrite !Nat.eqb_refl. reflexivity.
  - intros q Hq E. apply Hn. apply in_map_iff. exists q. split; [exact E|exact Hq].
Qed.

Lemma fold_shares_notin : forall (l : list gshare) f a x y, (forall r, In r l -> skey r <> (a, x, y)) ->
  fold_left (fun f r => upd3 f (gs_who r) (gs_x r) (gs_y r) (gs_sh r)) l f a x y = f a x y.
Proof.
  induction l as [|p r IH]; intros f a x y H; [reflexivity|]. cbn [fold_left]. rewrite IH by (intros q Hq; apply H; right; exact Hq).
  unfold upd3. destruct (Nat.eqb_spec a (gs_who p)); [|reflexivity]. destruct (Nat.eqb_spec x (gs_x p)); [|reflexivity].
  destruct (Nat.eqb_spec y (gs_y p)); [|reflexivity]. exfalso. apply (H p (or_introl eq_refl)). unfold skey. congruence.
Qed.

Lemma fold_shares_in : forall (l : list gshare) f r, NoDup (map skey l) -> In r l ->
  fold_left (fun f r => upd3 f (gs_who r) (gs_x r) (gs_y r) (gs_sh r)) l f (gs_who r) (gs_x r) (gs_y r) = gs_sh r.
Proof.
  induction l as [|q rest IH]; intros f r ND Hin; [contradiction|]. cbn [map] in ND. inversion ND as [|? ? Hn ND']; subst. cbn [fold_left].
  destruct Hin as [->|Hin]; [|apply IH; assumption].
  rewrite fold_shares_notin.
  - unfold upd3. rewrite !Nat.eqb_refl. reflexivity.
  - intros q Hq E. apply Hn. apply in_map_iff. exists q. split; [exact E|exact Hq].
Qed.

(* the records of the identifier universe, nothing else *)
Definition pools_of (e : env) (s : kstate) (x y : nat) : option pool :=
  if Nat.ltb x (nden e) && Nat.ltb y (nden e) then k_pool s x y else None.
Definition shares_of (e : env) (s : kstate) (a x y : nat) : Z :=
  if Nat.ltb a (S (nusers e)) && Nat.ltb x (nden e) && Nat.ltb y (nden e) then k_sh s a x y else 0.

Lemma validate_parts g : validate_genesis g = true ->
  forallb gpool_valid (g_pools g) = true /\ forallb gshare_valid (g_shares g) = true.
Proof.
  unfold validate_genesis. intros V. repeat (apply andb_true_iff in V; destruct V as [V ?]). split; assumption.
Qed.

Theorem roundtrip e s : Inv e s -> PValid e ->
  validate_genesis (export_genesis e s) = true /\
  exists s', reimport e s = Ok s' [] /\
    k_bal s' = k_bal s /\
    (forall x y, k_pool s' x y = pools_of e s x y) /\
    (forall a x y, k_sh s' a x y = shares_of e s a x y).
Proof.
  intros I PV. pose proof (export_validates e s I PV) as V. split; [exact V|].
  unfold reimport, init_genesis. rewrite V. cbn [negb].
  destruct (validate_parts _ V) as [V1 V3]. rewrite V1, V3. cbn [andb negb g_pools g_shares export_genesis].
  eexists. split; [reflexivity|]. cbn [k_bal k_pool k_sh]. split; [reflexivity|]. split.
  - intros x y. unfold pools_of. destruct (Nat.ltb_spec x (nden e)) as [Hx|Hx]; cbn [andb].
    + destruct (Nat.ltb_spec y (nden e)) as [Hy|Hy].
      * destruct (k_pool s x y) as [q|] eqn:E.
        -- assert (Hin : In (mkGP x y x y (ra q) (rb q) (sh q)) (export_pools e s)) by (apply in_export_pools; exists x, y, q; auto).
           pose proof (fold_pools_in _ (fun _ _ => None) _ (nodup_pool_keys e s) Hin) as F. cbn [gp_x gp_y gp_ra gp_rb gp_sh] in F.
           rewrite F. destruct q; reflexivity.
        -- apply fold_pools_notin. intros p Hp K. apply in_export_pools in Hp. destruct Hp as [x' [y' [q [_ [_ [E' ->]]]]]].
           unfold pkey in K. cbn in K. injection K as -> ->. congruence.
      * apply fold_pools_notin. intros p Hp K. apply in_export_pools in Hp. destruct Hp as [x' [y' [q [_ [Hy' [_ ->]]]]]].
        unfold pkey in K. cbn in K. injection K as -> ->. lia.
    + apply fold_pools_notin. intros p Hp K. apply in_export_pools in Hp. destruct Hp as [x' [y' [q [Hx' [_ [_ ->]]]]]].
      unfold pkey in K. cbn in K. injection K as -> ->. lia.
  - intros a x y. unfold shares_of.
    destruct (Nat.ltb_spec a (S (nusers e))) as [Ha|Ha]; cbn [andb];
    [destruct (Nat.ltb_spec x (nden e)) as [Hx|Hx]; cbn [andb]; [destruct (Nat.ltb_spec y (nden e)) as [Hy|Hy]|]|].
    + destruct (Z.eq_dec (k_sh s a x y) 0) as [Z0|NZ].
      * rewrite Z0. apply fold_shares_notin. intros r Hr K. apply in_export_shares in Hr.
        destruct Hr as [a' [x' [y' [_ [_ [_ [Hn ->]]]]]]]. unfold skey in K. cbn in K. injection K as -> -> ->. contradiction.
      * assert (Hin : In (mkGS a x y (k_sh s a x y)) (export_shares e s)) by (apply in_export_shares; exists a, x, y; auto).
        apply (fold_shares_in _ (fun _ _ _ => 0) _ (nodup_share_keys e s) Hin).
    + apply fold_shares_notin. intros r Hr K. apply in_export_shares in Hr. destruct Hr as [a' [x' [y' [_ [_ [Hy' [_ ->]]]]]]].
      unfold skey in K. cbn in K. injection K as -> -> ->. lia.
    + apply fold_shares_notin. intros r Hr K. apply in_export_shares in Hr. destruct Hr as [a' [x' [y' [_ [Hx' [_ [_ ->]]]]]]].
      unfold skey in K. cbn in K. injection K as -> -> ->. lia.
    + apply fold_shares_notin. intros r Hr K. apply in_export_shares in Hr. destruct Hr as [a' [x' [y' [Ha' [_ [_ [_ ->]]]]]]].
      unfold skey in K. cbn in K. injection K as -> -> ->. lia.
Qed.

(* everything the correspondence check observes (balances, pool records and share records of
   the identifier universe) is identical *)
Theorem roundtrip_observably_equal e s s' out : Inv e s -> PValid e -> reimport e s = Ok s' out -> project e s' = project e s.
Proof.
  intros I PV E. destruct (roundtrip e s I PV) as [_ [s1 [E1 [B [P SH]]]]]. rewrite E1 in E. injection E as <- _.
  unfold project. rewrite B. f_equal. f_equal.
  - apply flat_map_ext_in'. intros x Hx. apply map_ext_in. intros y Hy. apply in_seq in Hx, Hy. rewrite P. unfold pools_of.
    destruct (Nat.ltb_spec x (nden e)); [|lia]. destruct (Nat.ltb_spec y (nden e)); [|lia]. reflexivity.
  - apply flat_map_ext_in'. intros a Ha. apply map_ext_in. intros x Hx. apply map_ext_in. intros y Hy. apply in_seq in Ha, Hx, Hy.
    rewrite SH. unfold shares_of. destruct (Nat.ltb_spec a (S (nusers e))); [|lia]. destruct (Nat.ltb_spec x (nden e)); [|lia].
    destruct (Nat.ltb_spec y (nden e)); [|lia]. reflexivity.
Qed.

(* the invariant holds again *)
Theorem reimport_inv e s s' out : Inv e s -> PValid e -> reimport e s = Ok s' out -> Inv e s'.
Proof.
  intros I PV E. destruct (roundtrip e s I PV) as [_ [s1 [E1 [B [P SH]]]]]. rewrite E1 in E. injection E as <- _.
  destruct I as (I1 & I2 & I3 & I4). split; [|split; [|split]].
  - intros d Hd. rewrite B, (I1 d Hd). unfold sum2. apply sumN_ext. intros x Hx. apply sumN_ext. intros y Hy.
    unfold res_in. rewrite P. unfold pools_of. destruct (Nat.ltb_spec x (nden e)); [|lia]. destruct (Nat.ltb_spec y (nden e)); [|lia]. reflexivity.
  - intros x y Hx Hy. rewrite P. unfold pools_of. destruct (Nat.ltb_spec x (nden e)); [|lia]. destruct (Nat.ltb_spec y (nden e)); [|lia]. cbn [andb].
    rewrite (I2 x y Hx Hy). apply sumN_ext. intros a Ha. rewrite SH. unfold shares_of.
    destruct (Nat.ltb_spec a (S (nusers e))); [|lia]. destruct (Nat.ltb_spec x (nden e)); [|lia]. destruct (Nat.ltb_spec y (nden e)); [|lia]. reflexivity.
  - intros x y p H. rewrite P in H. unfold pools_of in H. destruct (_ && _); [|discriminate]. apply (I3 x y p H).
  - intros a x y. rewrite SH. unfold shares_of. destruct (_ && _); [apply I4|lia].
Qed.

(** * all reachable states *)

Lemma gstep_inv e s x s' out : PValid e -> Inv e s -> gstep e s x = Ok s' out -> Inv e s'.
Proof.
  intros PV I E. destruct x as [o| |g]; cbn [gstep] in E.
  - pose proof (run_inv e [o] s I) as R. cbn [run fold_left] in R. unfold step' in R. rewrite E in R. exact R.
  - eapply reimport_inv; eassumption.
  - injection E as <- _. exact I.
Qed.

Lemma grun_inv e : PValid e -> forall ops s, Inv e s -> Inv e (grun e s ops).
Proof.
  intros PV. induction ops as [|x r IH]; intros s I; [exact I|]. cbn [grun fold_left]. apply IH.
  unfold gstep'. destruct (gstep e s x) eqn:E; [eapply gstep_inv; eassumption|exact I|exact I].
Qed.

Theorem reimport_all_histories e s0 ops : PValid e -> Inv e s0 ->
  validate_genesis (export_genesis e (grun e s0 ops)) = true /\
  exists s', gstep e (grun e s0 ops) GReimport = Ok s' [] /\ project e s' = project e (grun e s0 ops) /\ Inv e s'.
Proof.
  intros PV I. pose proof (grun_inv e PV ops s0 I) as G. destruct (roundtrip e _ G PV) as [V [s' [E _]]].
  split; [exact V|]. exists s'. split; [exact E|]. split; [eapply roundtrip_observably_equal; eassumption|eapply reimport_inv; eassumption].
Qed.
