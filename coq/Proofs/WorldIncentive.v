(* C02 instance: x/incentive (the reward-per-share machine of Model/Incentive.v, one instance per
   reward source).  Begin blocker = Model.Incentive.block (abci.go BeginBlocker: accumulate the
   global reward indexes of every pool up to the block time); the Go accumulator panics on an
   elapsed-time computation that fails, which the model keeps as a Panic branch.
   Operations: a change of a user's source shares (hook: synchronise, then update), a change of a
   pool total, MsgClaim*, and source messages that change no position.
   x/incentive registers no invariant; the invariant is Proofs.Incentive.Inv (C09): accrual times
   are not after the clock, global indexes dominate user indexes, shares and totals non-negative,
   the history variables of the integral identity.
   Block guard: the block time does not run backwards ([now s <= t]; CometBFT guarantees BFT time is
   monotone).  No guard on operations.  [env_wf]: reward periods start before they end, rates are
   non-negative (Params.Validate). *)
From Coq Require Import String.
From Kava Require Import Base.Prelude Model.World Model.WorldG Proofs.WorldG.
From Kava Require Import Base.Dec Model.Accumulator Model.Incentive Proofs.Incentive.
Local Open Scope string_scope.

(* the block hook is not a transaction *)
Definition incentive_tx (e : env) (s : state) (o : op) : outcome state unit :=
  match o with Block _ => Err | _ => step e s o end.

Definition incentive_M (e : env) : module :=
  mkModule ["incentive"] state Z op
           (block e) (incentive_tx e) no_blocker
           (Inv e) (fun s t => now s <= t) (fun _ _ => True).

Lemma incentive_M_ok e : env_wf e -> module_ok (incentive_M e).
Proof.
  intros Hwf. constructor; cbn [m_S m_B m_O m_bb m_tx m_eb m_Inv m_goodB m_goodT incentive_M].
  - intros s t HI Ht. pose proof (block_no_panic e s t Hwf HI) as NP.
    destruct (block e s t) as [s1 []| |] eqn:E.
    + exists s1. split; [reflexivity|]. eapply block_inv; eauto.
    + exfalso. unfold block in E. destruct (Z.ltb_spec t (now s)); [lia|].
      destruct (existsb _ _); discriminate.
    + congruence.
  - intros s o s' u HI _ E. destruct u. unfold incentive_tx in E.
    destruct o; try discriminate; eapply step_inv; eauto.
  - intros s b HI. exists s. split; [reflexivity|exact HI].
Qed.

(** * non-vacuity (the witness of C09): two users in one pool, rate 1000/s; shares 1:3 for 100 s, a position
      change, another 50 s, then a claim with factor 0.5 *)
Definition inc_e0 : env := mk_env 2 1 1 [Some (mk_period 0 1000000000000 [1000])] 1000000000000 true.
Definition inc_s0 : state := init 0 (fun _ => 1000000) (fun _ => Some 0) (fun _ => 0).
Definition inc_blks : list (Z * list op) :=
  [(0, [Change 0 0 (1 * PREC) (1 * PREC); Change 1 0 (3 * PREC) (4 * PREC)]);
   (100000000000, [Change 1 0 (1 * PREC) (2 * PREC)]);
   (150000000000, [Claim 0 0 (Some (PREC / 2))])].

Example incentive_nonvacuous :
  env_wf inc_e0 /\ m_Inv (incentive_M inc_e0) inc_s0 /\ good_blocks (incentive_M inc_e0) inc_s0 inc_blks /\
  match run_blocksG (incentive_M inc_e0) inc_s0 inc_blks with
  | Some st => pending inc_e0 st 1%nat 0%nat = 75000 + 25000 /\ bal st 0%nat 0%nat = 25000 /\
               claimed st 0%nat 0%nat = 50000 /\ macc st 0%nat = 1000000 - 25000 /\ emitted st 0%nat = 150000
  | None => False
  end.
Proof.
  split; [|split; [|split]].
  - constructor.
    + intros p pd H. unfold inc_e0, mk_env in H. cbn in H. destruct p as [|[|p]]; inversion H; subst; cbn; lia.
    + intros p pd d H. unfold inc_e0, mk_env in H. cbn in H. destruct p as [|[|p]]; inversion H; subst.
      unfold mk_period, p_rate, nthZ. destruct d as [|[|d]]; cbn; lia.
  - apply init_inv; [intros p x H; inversion H; lia|intros; lia].
  - apply (good_blocks_b_ok (incentive_M inc_e0) (fun (s : state) (t : Z) => Z.leb (now s) t) (fun _ _ => true)).
    + intros s t H. apply Z.leb_le. exact H.
    + intros; exact I.
    + vm_compute. reflexivity.
  - vm_compute. repeat split; reflexivity.
Qed.
Print Assumptions incentive_M_ok.
