(* C02 instance: x/earn (Model/Earn.v; no begin or end blocker).  The earn model is built over the
   savings model (one model file drives both in C11), so the savings state and its invariant ride
   along; x/savings has its own component (Proofs/WorldSavings.v) at its own place in the order.
   Operations: MsgDeposit/MsgWithdraw of both modules, and the environment of earn's hard strategy
   (interest accruing in hard, third parties borrowing from hard, a bank transfer to the earn account).
   Invariant = Proofs.Earn.Inv:
     SInv (savings):  balances >= 0; deposit records >= 0 (0 = no record)   — savings "deposits"
                      savings module balance = sum of deposit records, per denom — savings "solvency"
     earn:            hard position values >= 0 (model of x/hard; needed by the proofs)
                      every vault record has total shares > 0                — earn "vault-records"
                      account share records >= 0 (0 = no record)            — earn "share-records"
                      vault total shares = sum of account shares, per denom — earn "vault-shares"
   Guard: none on operations ([is_user] is checked by the step itself: module accounts sign nothing);
   [env_wf]: the three module accounts are distinct accounts. *)
From Coq Require Import String.
From Kava Require Import Base.Prelude Model.World Model.WorldG Proofs.WorldG.
From Kava Require Import Base.Dec Model.Savings Model.Earn Proofs.Savings Proofs.Earn.
Local Open Scope string_scope.

Definition earn_M (e : env) : module :=
  mkModule ["earn"] state unit op no_blocker (fun s o => forget (step e s o)) no_blocker
           (Inv e) (fun _ _ => True) (fun _ _ => True).

Lemma earn_M_ok e : env_wf e -> module_ok (earn_M e).
Proof.
  intros Hwf. apply no_blockers_ok. intros s o s' u HI _ E.
  apply forget_ok in E. destruct E as (out & E). eapply step_inv; eauto.
Qed.

(** * non-vacuity (the start state of C11): accounts 0..2 users, 3 earn, 4 savings, 5 hard; a block with
      deposits, accrual in hard, a partial withdrawal and savings operations runs *)
Definition earn_e0 : env :=
  mk_env 6 4 3 5 [0;1;2;3]%nat [true;true;true;false] [0;2;2;1]%nat
         [[true;true;true;true;true;true];[true;true;false;false;false;false];[true;true;true;true;true;true];[true;true;true;true;true;true]]
         [true;false;false;true].
Definition earn_s0 : state :=
  mkE (mkS (fun a _ => if Nat.ltb a 3 then 1000 else 0) (fun _ _ => 0)) (fun _ => 0) (fun _ => None) (fun _ _ => 0).

Example earn_nonvacuous :
  env_wf earn_e0 /\ m_Inv (earn_M earn_e0) earn_s0 /\
  match run_blocksG (earn_M earn_e0) earn_s0
          [(tt, [EDeposit 0 3 100 1; Accrue 3 150; EDeposit 1 3 30 1]);
           (tt, [EWithdraw 0 3 75 1; SDeposit 2 [(0%nat, 5)]; SWithdraw 2 [(0%nat, 9)]])] with
  | Some s => value_of earn_e0 s 0 3 = 75 /\ value_of earn_e0 s 1 3 = 30 /\ total_value earn_e0 s 3 = Some 105
  | None => False
  end.
Proof.
  split; [unfold env_wf; cbn; repeat split; try lia; discriminate|]. split.
  - unfold earn_M, m_Inv, Inv, SInv, earn_s0, tot. cbn [sv bal sdep hval vrec shr].
    repeat split; intros; try lia; try discriminate. destruct (Nat.ltb a 3); lia.
  - vm_compute. repeat split; reflexivity.
Qed.
Print Assumptions earn_M_ok.
