(* C04: "the per-collateral total principal equals the sum of CDP debt up to interest rounding",
   over all histories.

   drift s t = tprin s t - ssum s t, where ssum is the sum over the stored cdps of the type of the debt
   (principal + accumulated fees) brought up to the type's current global interest factor exactly as
   CalculateNewInterest / SynchronizeInterest compute it.

   Result: along every history whose blocks advance the clock,
       | drift | * 10^18  <=  (global interest factor) * N
   where N (a history variable computed from the operation list, [ghostN]) grows only at blocks in which
   AccumulateInterest changed the factor of the type, by  (number of stored cdps of the type) + 1
   (+ (4 * stored debt + N) / 10^18, which is 0 below 10^17 units of debt). *)
From Kava Require Import Base.Prelude Base.Dec Model.Cdp Proofs.CdpRatio Proofs.Cdp Proofs.CdpInv Proofs.CdpInv2
  Proofs.CdpInv3 Proofs.CdpCust Proofs.CdpOwn Proofs.CdpTotalA Proofs.CdpTotalI Proofs.CdpTotalB.
Local Open Scope Z_scope.

(** * The begin blocker as a whole *)
Lemma run_auctions_pv e s s' u : run_auctions e s = Ok s' u -> pv_eq s s'.
Proof.
  unfold run_auctions.
  assert (Tail : forall s2,
    match (if debt_thr e <=? bal s2 (LIQM e) (d_debt e)
           then match b_send s2 (LIQM e) (AUCM e) (d_debt e) (debt_lot e) with
                | None => None
                | Some s3 => Some (set_aucs s3 (aucs s3 ++ [mkAuc 1 (d_gov e) (debt_lot e * 100) (debt_lot e) (debt_lot e) 0]))
                end
           else Some s2) with
    | None => Err
    | Some s4 =>
        let surplus := bal s4 (LIQM e) (d_usdx e) in
        if surplus <? sur_thr e then Ok s4 tt else
        let lot := Z.min (sur_lot e) surplus in
        match b_send s4 (LIQM e) (AUCM e) (d_usdx e) lot with
        | None => Err
        | Some s5 => Ok (set_aucs s5 (aucs s5 ++ [mkAuc 2 (d_usdx e) lot 0 0 0])) tt
        end
    end = Ok s' u -> pv_eq s2 s').
  { intros s2. 
    assert (T2 : forall s4, pv_eq s2 s4 ->
       (let surplus := bal s4 (LIQM e) (d_usdx e) in
        if surplus <? sur_thr e then Ok s4 tt else
        let lot := Z.min (sur_lot e) surplus in
        match b_send s4 (LIQM e) (AUCM e) (d_usdx e) lot with
        | None => Err
        | Some s5 => Ok (set_aucs s5 (aucs s5 ++ [mkAuc 2 (d_usdx e) lot 0 0 0])) tt
        end) = Ok s' u -> pv_eq s2 s').
    { intros s4 P4. cbv zeta. destruct (bal s4 _ _ <? sur_thr e); [intros H; inversion H; subst; exact P4|].
      destruct (b_send s4 _ _ _ _) as [s5|] eqn:E5; [|discriminate]. intros H; inversion H; subst.
      eapply pv_trans; [exact P4|]. eapply pv_trans; [apply bank_pv; eapply b_send_frame; exact E5|]. repeat split. }
    destruct (debt_thr e <=? bal s2 (LIQM e) (d_debt e)).
    - destruct (b_send s2 _ _ _ _) as [s3|] eqn:E3; [|discriminate]. apply T2.
      eapply pv_trans; [apply bank_pv; eapply b_send_frame; exact E3|]. repeat split.
    - apply T2, pv_refl. }
  destruct (Z.min _ _ =? 0); [apply Tail|].
  destruct (b_burn s _ _ _) as [s1|] eqn:E1; [|discriminate].
  destruct (b_burn s1 _ _ _) as [s2|] eqn:E2; [|discriminate].
  intros H. eapply pv_trans; [|apply Tail, H]. eapply pv_trans; apply bank_pv; eapply b_burn_frame; eassumption.
Qed.

Lemma map_fst_combine_seq {A} (l : list A) : forall k, map fst (combine (seq k (length l)) l) = seq k (length l).
Proof. induction l as [|x r IH]; intros k; cbn; [reflexivity|]. rewrite IH. reflexivity. Qed.

Lemma pv_tview s s' t : pv_eq s s' -> tview_eq s s' t.
Proof. intros (a&b&c&d&f&g&h). repeat split; try congruence. unfold gfac. rewrite d. reflexivity. Qed.

Lemma pv_PInv s s' : pv_eq s s' -> PInv s -> PInv s'.
Proof.
  intros (a&b&c&d&f&g&h) (HF & HT & HR). split; [|split].
  - intros t id c0 Hc. rewrite a in Hc. pose proof (HF _ _ _ Hc) as Hok. unfold cdp_ok, gfac in *. rewrite d, f, g. exact Hok.
  - intros t. unfold gfac. rewrite d, f, g. apply HT.
  - apply (RS_eq s); assumption.
Qed.

Definition in_range (e : env) (s s' : state) : Prop :=
  forall t id c, cdps s t id = Some c -> to_base (debt_at (gfac s' t) c) (dp_cf e) < MAXS.

Lemma block_eff e s dt prices s' u :
  env_wf e -> fees_ok e -> Inv3 e s -> PInv s -> 0 < dt -> step e s (Block dt prices) = Ok s' u ->
  in_range e s s' ->
  PInv s' /\ forall t N, 0 <= N -> DInv s t N -> DInv s' t (N + bump s s' t N).
Proof.
  intros Hwf Hfees HI3 HP Hdt H Hrange. cbn [step] in H.
  set (sb := set_clock (set_price s _) (now s + dt) (height s + 1)) in *.
  pose proof HI3 as (HI & HC & HO). pose proof HP as (HF & HT & HR).
  assert (I0 : Inv3 e sb).
  { split; [apply (IdxInv_frame e s); [reflexivity..|exact HI]|split].
    - apply (CustInv_view e s); try assumption; try reflexivity. intros; split; reflexivity.
    - apply (OwnInv_view s); [intros; reflexivity|reflexivity|exact HO]. }
  assert (P0 : PInv sb).
  { split; [|split].
    - intros t id c Hc. pose proof (HF t id c Hc) as (x1&x2&x3&x4&x5). unfold cdp_ok.
      change (gfac sb t) with (gfac s t). change (ptime sb t) with (ptime s t). change (now sb) with (now s + dt).
      split; [exact x1|split; [exact x2|split; [exact x3|split; [lia|exact x5]]]].
    - intros t. change (gfac sb t) with (gfac s t). change (ptime sb t) with (ptime s t). change (now sb) with (now s + dt).
      split; [apply HT|]. intros p Hp. pose proof (proj2 (HT t) p Hp). lia.
    - exact HR. }
  assert (U0 : forall t, upd_lt sb t).
  { intros t id c Hc. pose proof (HF t id c Hc) as (_&_&_&x4&_). change (now sb) with (now s + dt). lia. }
  assert (V0 : forall t, tview_eq s sb t -> False \/ True) by (intros; right; exact I).
  unfold begin_block in H.
  set (skip := negb (Z.rem (height sb) (interval e) =? 0)) in *.
  set (l := combine (seq 0 (ntypes e)) (cps e)) in *.
  destruct (ofold (begin_type e skip) sb l) as [s1 []| |] eqn:E1; try discriminate.
  destruct (run_auctions e s1) as [s2 []| |] eqn:E2; try discriminate.
  inversion H; subst s'; clear H.
  apply run_auctions_pv in E2.
  assert (Hfst : map fst l = seq 0 (ntypes e)) by (unfold l, ntypes; apply map_fst_combine_seq).
  assert (Hl : forall t cp, In (t, cp) l -> get_cp e t = Some cp).
  { intros t cp Hin. unfold l, ntypes in Hin. apply combine_seq_nth in Hin. destruct Hin as [Hn _].
    unfold get_cp. rewrite Nat.sub_0_r in Hn. exact Hn. }
  assert (G12 : forall t, gfac s2 t = gfac s1 t) by (intros t; destruct (pv_tview s1 s2 t E2) as (_&_&g&_); exact g).
  destruct (types_fold e skip l sb s1 tt Hwf Hfees) as (HP1 & N1 & I1 & V1 & D1); try assumption.
  { rewrite Hfst. apply seq_NoDup. }
  { intros t _. apply U0. }
  { intros t _ id c Hc. rewrite <- G12. apply (Hrange t id c). exact Hc. }
  split; [eapply pv_PInv; eassumption|].
  intros t N HN HD.
  assert (HDb : DInv sb t N) by exact HD.
  assert (Eb : bump s s2 t N = bump sb s1 t N).
  { unfold bump, bump_of. rewrite G12. reflexivity. }
  rewrite Eb. eapply tview_DInv; [apply pv_tview, E2|].
  destruct (in_dec Nat.eq_dec t (map fst l)) as [Hin|Hnin].
  - apply D1; assumption.
  - pose proof (V1 t Hnin) as V. unfold bump. destruct V as (a&b&g&r). rewrite g, Z.eqb_refl, Z.add_0_r.
    eapply tview_DInv; [|exact HDb]. destruct r as (r1&r2&r3). repeat split; assumption.
Qed.

(** * Every operation *)
Definition op_pos (o : op) : Prop := match o with Block dt _ => 0 < dt | _ => True end.

Lemma bump_same s s' t N : (forall t0, gfac s' t0 = gfac s t0) -> bump s s' t N = 0.
Proof. intros g. unfold bump. rewrite g, Z.eqb_refl. reflexivity. Qed.

Lemma step_eff e s o s' u :
  env_wf e -> fees_ok e -> Inv3 e s -> PInv s -> op_pos o -> step e s o = Ok s' u -> in_range e s s' ->
  PInv s' /\ forall t N, 0 <= N -> DInv s t N -> DInv s' t (N + bump s s' t N).
Proof.
  intros Hwf Hfees HI3 HP Hpos E Hrange. pose proof HI3 as (HI & _).
  assert (Fin : OpEff s s' -> PInv s' /\ forall t N, 0 <= N -> DInv s t N -> DInv s' t (N + bump s s' t N)).
  { intros Ef. pose proof Ef as (HP' & (g & _) & _). split; [exact HP'|]. intros t N HN HD.
    rewrite (bump_same s s' t N g), Z.add_0_r. eapply DInv_OpEff; eassumption. }
  destruct o; cbn [step] in E; unfold user_ok in E.
  - destruct (Nat.ltb o (nusers e)); [|discriminate]. apply Fin. eapply create_eff; eassumption.
  - destruct (Nat.ltb o (nusers e) && Nat.ltb u0 (nusers e)); [|discriminate]. apply Fin. eapply deposit_eff; eassumption.
  - destruct (Nat.ltb o (nusers e) && Nat.ltb u0 (nusers e)); [|discriminate]. apply Fin. eapply withdraw_eff; eassumption.
  - destruct (Nat.ltb o (nusers e)); [|discriminate]. apply Fin. eapply draw_eff; eassumption.
  - destruct (Nat.ltb o (nusers e)); [|discriminate]. apply Fin. eapply repay_eff; eassumption.
  - destruct (Nat.ltb o (nusers e) && Nat.ltb k (nusers e)); [|discriminate]. apply Fin. eapply keeper_liquidate_eff; eassumption.
  - eapply block_eff; eassumption.
Qed.

(** * Every history *)
(* what the history must satisfy: blocks advance the clock, and no cdp's debt, brought up to the interest
   factor an operation leaves behind, reaches 10^18 units of the stable coin in base units (the largest
   sortable decimal of the ratio index) *)
Fixpoint hist_ok (e : env) (s : state) (ops : list op) : Prop :=
  match ops with
  | [] => True
  | o :: r => op_pos o /\ in_range e s (step' e s o) /\ hist_ok e (step' e s o) r
  end.

(* the count of roundings: a history variable (a function of the initial state and the operation list) *)
Fixpoint ghostN (e : env) (s : state) (ops : list op) (t : nat) (N : Z) : Z :=
  match ops with
  | [] => N
  | o :: r => ghostN e (step' e s o) r t (N + bump s (step' e s o) t N)
  end.

Lemma bump_nonneg s s' t N : FInv s -> 0 <= N -> 0 <= bump s s' t N.
Proof. intros HF HN. unfold bump. destruct (_ =? _); [lia|apply bump_of_nonneg; assumption]. Qed.

Theorem total_principal_bound e : env_wf e -> params_ok e -> fees_ok e ->
  forall ops s, Inv3 e s -> PInv s -> hist_ok e s ops ->
  forall t N, 0 <= N -> DInv s t N ->
  PInv (run e s ops) /\ DInv (run e s ops) t (ghostN e s ops t N).
Proof.
  intros Hwf Hpar Hfees. induction ops as [|o r IH]; intros s HI3 HP Hok t N HN HD; [split; assumption|].
  cbn [run fold_left ghostN]. fold (run e (step' e s o) r). destruct Hok as (Hpos & Hrange & Hok).
  assert (Hb : 0 <= bump s (step' e s o) t N) by (apply bump_nonneg; [exact (proj1 HP)|exact HN]).
  revert Hrange Hok Hb. unfold step'. destruct (step e s o) as [s1 []| |] eqn:E; intros Hrange Hok Hb.
  - destruct (step_eff e s o s1 tt Hwf Hfees HI3 HP Hpos E Hrange) as (HP1 & D1).
    apply IH; [eapply step_Inv3; eassumption|exact HP1|exact Hok|lia|apply D1; assumption].
  - rewrite (bump_same s s t N) by reflexivity. rewrite Z.add_0_r. apply IH; assumption.
  - rewrite (bump_same s s t N) by reflexivity. rewrite Z.add_0_r. apply IH; assumption.
Qed.

(* the same with an absolute value *)
Corollary total_principal_bound_abs e : env_wf e -> params_ok e -> fees_ok e ->
  forall ops s, Inv3 e s -> PInv s -> hist_ok e s ops ->
  forall t N, 0 <= N -> Z.abs (tprin s t - ssum s t) * PREC <= gfac s t * N ->
  let s' := run e s ops in
  Z.abs (tprin s' t - ssum s' t) * PREC <= gfac s' t * ghostN e s ops t N.
Proof.
  intros Hwf Hpar Hfees ops s HI3 HP Hok t N HN H0 s'.
  assert (Ab : forall x, Z.abs (x * PREC) = Z.abs x * PREC) by (intros x; rewrite Z.abs_mul; reflexivity).
  assert (HD : DInv s t N) by (unfold DInv, drift; pose proof (Ab (tprin s t - ssum s t)); lia).
  destruct (total_principal_bound e Hwf Hpar Hfees ops s HI3 HP Hok t N HN HD) as (_ & D).
  fold s' in D. unfold DInv, drift in D. pose proof (Ab (tprin s' t - ssum s' t)). lia.
Qed.

(* no accumulation, no drift: while the interest factor of a type stays what it was, the count does not move *)
Lemma ghostN_nil e s t N : ghostN e s [] t N = N. Proof. reflexivity. Qed.

(* genesis: no cdps, no total principal, factors at one or unset *)
Lemma init_PInv bals sups prices status ifacs ptimes startid t h :
  (forall i, match nthO ifacs i with Some g => PREC <= g | None => True end) ->
  (forall i p, nthO ptimes i = Some p -> p <= t) ->
  PInv (mk_state bals sups prices status ifacs ptimes startid t h).
Proof.
  intros Hg Hp. split; [|split].
  - intros t0 id c Hc. discriminate.
  - intros t0. split.
    + unfold gfac. cbn. specialize (Hg t0). destruct (nthO ifacs t0); [exact Hg|lia].
    + intros p E. cbn in E. apply (Hp t0 p E).
  - intros t0. cbn. constructor.
Qed.

Lemma init_DInv bals sups prices status ifacs ptimes startid t h t0 :
  DInv (mk_state bals sups prices status ifacs ptimes startid t h) t0 0.
Proof.
  unfold DInv, drift, ssum. cbn. rewrite sumN_zero by (intros; reflexivity). lia.
Qed.

(** * A boolean form of [hist_ok] (to discharge it on closed histories by computation) *)
Definition op_pos_b (o : op) : bool := match o with Block dt _ => 0 <? dt | _ => true end.
Definition in_range_b (e : env) (s s' : state) : bool :=
  forallb (fun t => forallb (fun id =>
     match cdps s t id with
     | Some c => to_base (debt_at (gfac s' t) c) (dp_cf e) <? MAXS
     | None => true
     end) (seq 0 (nextid s))) (seq 0 (ntypes e)).
Fixpoint hist_ok_b (e : env) (s : state) (ops : list op) : bool :=
  match ops with
  | [] => true
  | o :: r => let s' := step' e s o in op_pos_b o && in_range_b e s s' && hist_ok_b e s' r
  end.

Lemma in_range_b_sound e s s' : Inv3 e s -> in_range_b e s s' = true -> in_range e s s'.
Proof.
  intros ((_ & _ & Hi) & (A & _) & _) H t id c Hc. unfold in_range_b in H. rewrite forallb_forall in H.
  assert (Hh : has s t id = true) by (unfold has; rewrite Hc; reflexivity).
  destruct (A t id Hh) as (_ & Hcp & Hlt).
  assert (Ht : (t < ntypes e)%nat) by (destruct (get_cp e t) as [cp|] eqn:E; [eapply get_cp_lt; exact E|contradiction]).
  specialize (H t ltac:(apply in_seq; lia)). rewrite forallb_forall in H.
  specialize (H id ltac:(apply in_seq; lia)). rewrite Hc in H. apply Z.ltb_lt in H. exact H.
Qed.

Lemma hist_ok_b_sound e : env_wf e -> params_ok e ->
  forall ops s, Inv3 e s -> hist_ok_b e s ops = true -> hist_ok e s ops.
Proof.
  intros Hwf Hpar. induction ops as [|o r IH]; intros s HI H; [exact I|].
  cbn [hist_ok_b] in H. cbv zeta in H. apply andb_true_iff in H. destruct H as [H H3].
  apply andb_true_iff in H. destruct H as [H1 H2]. cbn [hist_ok]. split; [|split].
  - destruct o; cbn in *; try exact I. apply Z.ltb_lt. exact H1.
  - apply in_range_b_sound; assumption.
  - apply IH; [|exact H3]. apply (run_Inv3 e [o] Hwf Hpar s HI).
Qed.

(** * Statements used by Properties/C04.v *)
Lemma total_principal_PInv e : env_wf e -> params_ok e -> fees_ok e ->
  forall ops s, Inv3 e s -> PInv s -> hist_ok e s ops -> PInv (run e s ops).
Proof.
  intros Hwf Hpar Hfees ops s HI HP Hok.
  assert (HD : DInv s 0 (Z.abs (drift s 0 * PREC))).
  { unfold DInv. pose proof (proj1 (proj1 (proj2 HP) 0%nat)) as Hg. pose proof PREC_pos.
    set (x := drift s 0 * PREC). pose proof (Z.abs_nonneg x).
    assert (1 * Z.abs x <= gfac s 0 * Z.abs x) by (apply Z.mul_le_mono_nonneg_r; lia). lia. }
  exact (proj1 (total_principal_bound e Hwf Hpar Hfees ops s HI HP Hok 0%nat _ (Z.abs_nonneg _) HD)).
Qed.

Lemma message_ops_keep_drift e s o s' u :
  IdxInv e s -> PInv s -> step e s o = Ok s' u ->
  (forall dt prices, o <> Block dt prices) ->
  (forall t, gfac s' t = gfac s t) /\
  forall t, Z.abs (tprin s' t - ssum s' t) <= Z.abs (tprin s t - ssum s t).
Proof.
  intros HI HP E Hnb.
  assert (Ef : OpEff s s').
  { destruct o; cbn [step] in E; unfold user_ok in E.
    - destruct (Nat.ltb o (nusers e)); [|discriminate]. eapply create_eff; eassumption.
    - destruct (Nat.ltb o (nusers e) && Nat.ltb u0 (nusers e)); [|discriminate]. eapply deposit_eff; eassumption.
    - destruct (Nat.ltb o (nusers e) && Nat.ltb u0 (nusers e)); [|discriminate]. eapply withdraw_eff; eassumption.
    - destruct (Nat.ltb o (nusers e)); [|discriminate]. eapply draw_eff; eassumption.
    - destruct (Nat.ltb o (nusers e)); [|discriminate]. eapply repay_eff; eassumption.
    - destruct (Nat.ltb o (nusers e) && Nat.ltb k (nusers e)); [|discriminate]. eapply keeper_liquidate_eff; eassumption.
    - exfalso. eapply Hnb. reflexivity. }
  destruct Ef as (_ & (g & _) & D). split; [exact g|exact D].
Qed.

Lemma init_total_principal bals sups prices status ifacs ptimes startid t h :
  (forall i, match nthO ifacs i with Some g => PREC <= g | None => True end) ->
  (forall i p, nthO ptimes i = Some p -> p <= t) ->
  let s := mk_state bals sups prices status ifacs ptimes startid t h in
  PInv s /\ forall t0, Z.abs (tprin s t0 - ssum s t0) * PREC <= gfac s t0 * 0.
Proof.
  intros Hg Hp s. split; [apply init_PInv; assumption|].
  intros t0. pose proof (init_DInv bals sups prices status ifacs ptimes startid t h t0) as D.
  unfold DInv, drift in D. fold s in D. assert (E : (tprin s t0 - ssum s t0) * PREC = 0) by lia.
  apply Z.mul_eq_0 in E. destruct E as [E|E]; [rewrite E; cbn; lia|discriminate].
Qed.
