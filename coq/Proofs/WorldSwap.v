(* C02 instance: x/swap (no begin or end blocker; AppModule.BeginBlock/EndBlock are empty).
   Operations: the four messages and a bank send to the module account.
   Invariant = Proofs.Swap.Inv, whose conjuncts are the model form of the four
   invariants x/swap registers with the crisis keeper (x/swap/keeper/invariants.go):
     1. module balance = sum of all pools' reserves, per denom   — "pool-reserves"
     2. pool total shares = sum of depositor shares, per pool     — "pool-shares"
     3. every stored pool has reserves and shares >= 1, denoms sorted — "pool-records" (PoolRecord.Validate)
     4. share records are non-negative (0 = no record)            — "share-records" (ShareRecord.Validate)
   No guard on blocks or operations. *)
From Coq Require Import String.
From Kava Require Import Base.Prelude Model.World Model.WorldG Proofs.WorldG.
From Kava Require Import Base.Dec Model.Swap Proofs.Swap.
Local Open Scope string_scope.

Definition swap_M (e : env) : module :=
  mkModule ["swap"] kstate unit op no_blocker (fun s o => forget (step e s o)) no_blocker
           (Inv e) (fun _ _ => True) (fun _ _ => True).

Lemma swap_M_ok e : module_ok (swap_M e).
Proof.
  apply no_blockers_ok. intros s o s' u HI _ E.
  apply forget_ok in E. destruct E as (outs & E). eapply step_inv; eauto.
Qed.

(** * non-vacuity: genesis satisfies the invariant; two blocks of deposits and swaps run and the pools exist *)
Definition swap_e0 : env := mkEnv 3 3 [(0%nat, 2%nat); (1%nat, 2%nat)] 3000000000000000.
Definition swap_s0 : kstate :=
  mk_state [[1000000; 1000000; 1000000]; [1000000; 1000000; 1000000]; [500; 500; 500]; [0; 0; 0]].

Example swap_nonvacuous :
  m_Inv (swap_M swap_e0) swap_s0 /\
  match run_blocksG (swap_M swap_e0) swap_s0
          [(tt, [Deposit 0 2 400000 0 100000 0; Deposit 1 1 70000 2 50000 1000000000000000000]);
           (tt, [SwapIn 1 0 1000 2 3900 10000000000000000; Withdraw 0 100 2 1 0 1])] with
  | Some s => k_bal s (macc swap_e0) 0%nat = 100000 + 1000 - 50 /\ (exists p, k_pool s 1%nat 2%nat = Some p)
  | None => False
  end.
Proof.
  split.
  - apply inv_init. intros d Hd. unfold swap_e0, nden in Hd. unfold swap_s0, mk_state, macc, swap_e0. cbn.
    destruct d as [|[|[|d]]]; try reflexivity. lia.
  - vm_compute. split; [reflexivity|eexists; reflexivity].
Qed.
Print Assumptions swap_M_ok.
