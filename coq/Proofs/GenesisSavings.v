(* Round trip of the x/savings genesis state (Model/GenesisSavings.v). *)
From Kava Require Import Base.Prelude Base.Dec Model.Savings Proofs.Savings Model.Earn Proofs.Earn Model.GenesisSavings.
Require Import ZifyBool ZifyNat.
Local Open Scope Z_scope.

(* the denoms of the environment are listed in (strictly) ascending order, as sdk.Coins are *)
Fixpoint ascending_from (lo : option nat) (l : list nat) : bool :=
  match l with
  | [] => true
  | d :: r => (match lo with None => true | Some p => Nat.ltb p d end) && ascending_from (Some d) r
  end.
Definition ascending (l : list nat) : bool := ascending_from None l.

Lemma ascending_from_bound : forall l lo d, ascending_from lo l = true -> In d l ->
  match lo with Some p => (p < d)%nat | None => True end.
Proof.
  induction l as [|x r IH]; intros lo d H Hin; [contradiction|]. cbn [ascending_from] in H. apply andb_true_iff in H. destruct H as [H1 H2].
  destruct Hin as [->|Hin].
  - destruct lo; [apply Nat.ltb_lt; exact H1|exact I].
  - specialize (IH (Some x) d H2 Hin). cbn in IH. destruct lo as [p|]; [apply Nat.ltb_lt in H1; lia|exact I].
Qed.

Lemma ascending_nodup : forall l lo, ascending_from lo l = true -> NoDup l.
Proof.
  induction l as [|x r IH]; intros lo H; [constructor|]. cbn [ascending_from] in H. apply andb_true_iff in H. destruct H as [_ H2].
  constructor; [|eapply IH; exact H2]. intros Hin. pose proof (ascending_from_bound r (Some x) x H2 Hin) as B. cbn in B. lia.
Qed.

Lemma nodup_nats_spec : forall l seen, NoDup l -> (forall x, In x l -> ~ In x seen) -> nodup_nats seen l = true.
Proof.
  induction l as [|x r IH]; intros seen ND Hd; [reflexivity|]. cbn [nodup_nats]. inversion ND as [|? ? Hn ND']; subst.
  assert (E : existsb (Nat.eqb x) seen = false).
  { destruct (existsb _ seen) eqn:X; [|reflexivity]. apply existsb_exists in X. destruct X as [y [Hy Ey]]. apply Nat.eqb_eq in Ey. subst y.
    exfalso. apply (Hd x); [left; reflexivity|exact Hy]. }
  rewrite E. cbn [negb andb]. apply IH; [exact ND'|]. intros y Hy [<-|Hs]; [contradiction|]. apply (Hd y); [right; exact Hy|exact Hs].
Qed.

(** * the exported coins of one depositor *)

Definition cell (s : sstate) (a d : nat) : coins := if sdep s a d =? 0 then [] else [(d, sdep s a d)].

Lemma dep_coins_valid_from (s : sstate) (a : nat) : (forall d, 0 <= sdep s a d) -> forall l lo, ascending_from lo l = true ->
  coins_valid_from lo (flat_map (cell s a) l) = true.
Proof.
  intros P. induction l as [|d r IH]; intros lo H; [reflexivity|]. cbn [ascending_from] in H. apply andb_true_iff in H. destruct H as [H1 H2].
  cbn [flat_map]. unfold cell at 1. destruct (Z.eqb_spec (sdep s a d) 0) as [Z0|NZ]; cbn [app].
  - apply IH. destruct r as [|x r']; [reflexivity|]. cbn [ascending_from] in *. apply andb_true_iff in H2. destruct H2 as [H3 H4].
    rewrite H4, andb_true_r. destruct lo as [p|]; [|reflexivity]. apply Nat.ltb_lt in H1, H3. apply Nat.ltb_lt. lia.
  - cbn [coins_valid_from]. rewrite (IH (Some d) H2), andb_true_r. specialize (P d).
    assert (E : (0 <? sdep s a d) = true) by lia. rewrite E. cbn [andb]. exact H1.
Qed.

Lemma find_dep_coins (s : sstate) (a : nat) : forall l d, NoDup l ->
  match find (fun p => Nat.eqb (fst p) d) (flat_map (cell s a) l) with Some p => snd p | None => 0 end =
  if existsb (Nat.eqb d) l then sdep s a d else 0.
Proof.
  induction l as [|x r IH]; intros d ND; [reflexivity|]. inversion ND as [|? ? Hx Nr]; subst. cbn [flat_map existsb].
  unfold cell at 1. destruct (Z.eqb_spec (sdep s a x) 0) as [Z0|NZ]; cbn [app find fst].
  - rewrite (IH d Nr). destruct (Nat.eqb_spec d x) as [->|]; cbn [orb]; [|reflexivity].
    destruct (existsb (Nat.eqb x) r); [reflexivity|symmetry; exact Z0].
  - rewrite Nat.eqb_sym. destruct (Nat.eqb_spec d x) as [->|]; cbn [orb snd]; [reflexivity|apply IH; exact Nr].
Qed.

Lemma existsb_in d l : existsb (Nat.eqb d) l = true <-> In d l.
Proof.
  rewrite existsb_exists. split; [intros [y [Hy E]]; apply Nat.eqb_eq in E; subst; exact Hy|intros H; exists d; split; [exact H|apply Nat.eqb_refl]].
Qed.

(** * Validation of the export passes *)

Lemma export_validates e s : (forall a d, 0 <= sdep s a d) -> ascending (denoms e) = true ->
  validate_genesis (export_genesis e s) = true.
Proof.
  intros P A. unfold validate_genesis. cbn [g_supported g_deposits export_genesis].
  pose proof (ascending_nodup _ _ A) as ND. repeat (apply andb_true_iff; split).
  - apply nodup_nats_spec; [apply NoDup_filter; exact ND|intros x _ []].
  - apply forallb_forall. intros [a c] Hin. apply in_flat_map in Hin. destruct Hin as [a' [_ H]].
    destruct (sdep_found e s a'); [|contradiction]. destruct H as [E|[]]. injection E as <- <-. cbn [snd].
    apply (dep_coins_valid_from s a' (P a') (denoms e) None A).
  - apply nodup_nats_spec; [|intros x _ []].
    assert (G : forall l, NoDup l -> NoDup (map fst (flat_map (fun a => if sdep_found e s a then [(a, dep_coins e s a)] else []) l))).
    { induction l as [|a r IH]; intros N; [constructor|]. inversion N as [|? ? Ha Nr]; subst. cbn [flat_map].
      destruct (sdep_found e s a); cbn [app map fst]; [|apply IH; exact Nr]. constructor; [|apply IH; exact Nr].
      intros H. apply in_map_iff in H. destruct H as [[a' c] [E H]]. cbn in E. subst a'. apply in_flat_map in H.
      destruct H as [b [Hb H]]. destruct (sdep_found e s b); [|contradiction]. destruct H as [E|[]]. injection E as -> _. contradiction. }
    apply G, seq_NoDup.
Qed.

(** * InitGenesis of the export *)

Definition dstep (f : nat -> nat -> Z) (p : nat * coins) : nat -> nat -> Z := set_deposit f (fst p) (snd p).

Lemma fold_deposits_notin : forall (l : list (nat * coins)) f a d, ~ In a (map fst l) -> fold_left dstep l f a d = f a d.
Proof.
  induction l as [|[b c] r IH]; intros f a d H; [reflexivity|]. cbn [fold_left]. rewrite IH by (intros X; apply H; right; exact X).
  unfold dstep, set_deposit. cbn [fst snd]. destruct (Nat.eqb_spec a b); [subst; exfalso; apply H; left; reflexivity|reflexivity].
Qed.

Lemma fold_deposits_in : forall (l : list (nat * coins)) f a c d, NoDup (map fst l) -> In (a, c) l ->
  fold_left dstep l f a d = match find (fun p => Nat.eqb (fst p) d) c with Some p => snd p | None => 0 end.
Proof.
  induction l as [|[b c'] r IH]; intros f a c d ND Hin; [contradiction|]. cbn [map fst] in ND. inversion ND as [|? ? Hn Nr]; subst. cbn [fold_left].
  destruct Hin as [E|Hin]; [|apply IH; assumption]. injection E as -> ->.
  rewrite fold_deposits_notin by exact Hn. unfold dstep, set_deposit. cbn [fst snd]. rewrite Nat.eqb_refl. reflexivity.
Qed.

Lemma export_deposit_keys e s : NoDup (map fst (g_deposits (export_genesis e s))).
Proof.
  cbn [g_deposits export_genesis]. generalize (seq_NoDup (nacc e) 0). generalize (seq 0 (nacc e)).
  induction l as [|a r IH]; intros N; [constructor|]. inversion N as [|? ? Ha Nr]; subst. cbn [flat_map].
  destruct (sdep_found e s a); cbn [app map fst]; [|apply IH; exact Nr]. constructor; [|apply IH; exact Nr].
  intros H. apply in_map_iff in H. destruct H as [[a' c] [E H]]. cbn in E. subst a'. apply in_flat_map in H.
  destruct H as [b [Hb H]]. destruct (sdep_found e s b); [|contradiction]. destruct H as [E|[]]. injection E as -> _. contradiction.
Qed.

(* the deposit table of the identifier universe, nothing else *)
Definition sdep_of (e : senv) (s : sstate) (a d : nat) : Z :=
  if Nat.ltb a (nacc e) && existsb (Nat.eqb d) (denoms e) then sdep s a d else 0.

Theorem roundtrip e s : (forall a d, 0 <= sdep s a d) -> ascending (denoms e) = true ->
  validate_genesis (export_genesis e s) = true /\
  exists s', sreimport e s = Ok s' tt /\ bal s' = bal s /\ forall a d, sdep s' a d = sdep_of e s a d.
Proof.
  intros P A. pose proof (export_validates e s P A) as V. split; [exact V|].
  unfold sreimport, init_genesis. rewrite V. cbn [negb]. eexists. split; [reflexivity|]. cbn [bal sdep]. split; [reflexivity|].
  intros a d. change (fun f p => set_deposit f (fst p) (snd p)) with dstep. unfold sdep_of.
  pose proof (ascending_nodup _ _ A) as ND.
  destruct (Nat.ltb_spec a (nacc e)) as [Ha|Ha]; cbn [andb].
  - destruct (sdep_found e s a) eqn:F.
    + assert (Hin : In (a, dep_coins e s a) (g_deposits (export_genesis e s))).
      { cbn [g_deposits export_genesis]. apply in_flat_map. exists a. split; [apply in_seq; lia|]. rewrite F. left; reflexivity. }
      rewrite (fold_deposits_in _ _ a _ d (export_deposit_keys e s) Hin). apply (find_dep_coins s a (denoms e) d ND).
    + rewrite fold_deposits_notin.
      * destruct (existsb (Nat.eqb d) (denoms e)) eqn:X; [|reflexivity]. apply existsb_in in X.
        unfold sdep_found in F. destruct (Z.eq_dec (sdep s a d) 0) as [Z0|NZ]; [symmetry; exact Z0|].
        exfalso. assert (T : existsb (fun d0 => negb (sdep s a d0 =? 0)) (denoms e) = true).
        { apply existsb_exists. exists d. split; [exact X|]. destruct (Z.eqb_spec (sdep s a d) 0); [contradiction|reflexivity]. }
        congruence.
      * intros H. apply in_map_iff in H. destruct H as [[a' c] [E H]]. cbn in E. subst a'. cbn [g_deposits export_genesis] in H.
        apply in_flat_map in H. destruct H as [b [_ H]]. destruct (sdep_found e s b) eqn:Fb; [|contradiction]. destruct H as [E|[]].
        injection E as -> _. congruence.
  - apply fold_deposits_notin. intros H. apply in_map_iff in H. destruct H as [[a' c] [E H]]. cbn in E. subst a'. cbn [g_deposits export_genesis] in H.
    apply in_flat_map in H. destruct H as [b [Hb H]]. apply in_seq in Hb. destruct (sdep_found e s b); [|contradiction]. destruct H as [E|[]].
    injection E as -> _. lia.
Qed.

(* every deposit lives inside the identifier universe of the environment *)
Definition closed (e : senv) (s : sstate) : Prop :=
  forall a d, sdep s a d <> 0 -> (a < nacc e)%nat /\ In d (denoms e).

Lemma sdep_of_closed e s a d : closed e s -> sdep_of e s a d = sdep s a d.
Proof.
  intros C. unfold sdep_of. destruct (Z.eq_dec (sdep s a d) 0) as [Z0|NZ]; [rewrite Z0; destruct (_ && _); reflexivity|].
  destruct (C a d NZ) as [Ha Hd]. destruct (Nat.ltb_spec a (nacc e)); [|lia]. apply existsb_in in Hd. rewrite Hd. reflexivity.
Qed.

(* with all deposits inside the universe the whole savings state is identical and the
   invariant (module balance = sum of the deposits, nothing negative) holds again *)
Theorem roundtrip_closed e s s' : SInv e s -> closed e s -> ascending (denoms e) = true -> sreimport e s = Ok s' tt ->
  bal s' = bal s /\ (forall a d, sdep s' a d = sdep s a d) /\ SInv e s' /\ closed e s'.
Proof.
  intros I C A E. pose proof I as (I1 & I2 & I3). destruct (roundtrip e s I2 A) as [_ [s1 [E1 [B S]]]]. rewrite E1 in E. injection E as <-.
  assert (Q : forall a d, sdep s1 a d = sdep s a d) by (intros a d; rewrite S; apply sdep_of_closed; exact C).
  split; [exact B|]. split; [exact Q|]. split.
  - split; [rewrite B; exact I1|]. split; [intros a d; rewrite Q; apply I2|].
    intros d. rewrite B, I3. apply sumN_ext. intros a _. symmetry. apply Q.
  - intros a d H. rewrite Q in H. apply C. exact H.
Qed.

(** * inside the earn + savings histories *)

Theorem reimport_all_histories e s0 ops : env_wf e -> Inv e s0 -> ascending (denoms (se e)) = true ->
  let s := run e s0 ops in
  validate_genesis (export_genesis (se e) (sv s)) = true /\
  exists s', gstep e s GReimport = Ok s' 0 /\ bal (sv s') = bal (sv s) /\
             (forall a d, sdep (sv s') a d = sdep_of (se e) (sv s) a d) /\
             hval s' = hval s /\ vrec s' = vrec s /\ shr s' = shr s.
Proof.
  intros W I A s. pose proof (run_inv e ops s0 W I) as [[_ [P _]] _]. fold s in P.
  destruct (roundtrip (se e) (sv s) P A) as [V [t [E [B S]]]]. split; [exact V|].
  exists (with_sv s t). cbn [gstep]. rewrite E. cbn [lift]. split; [reflexivity|]. cbn [sv with_sv hval vrec shr]. repeat split; assumption.
Qed.
