(* Pure arithmetic of the two liquidation-boundary formulations of x/cdp:
   the value ratio used by user actions and keeper liquidation
   (CalculateCollateralizationRatio) and the index cut 1/(price/liqRatio) used
   by the block-level liquidator (LiquidateCdps). *)
From Kava Require Import Base.Prelude Base.Dec Model.Cdp.
Local Open Scope Z_scope.

Lemma div_lt_succ a b : 0 < b -> a < (a / b + 1) * b.
Proof.
  intros Hb. pose proof (Z.div_mod a b ltac:(lia)). pose proof (Z.mod_pos_bound a b Hb). nia.
Qed.

Lemma div_mul_le a b : 0 < b -> a / b * b <= a.
Proof.
  intros Hb. pose proof (Z.div_mod a b ltac:(lia)). pose proof (Z.mod_pos_bound a b Hb). nia.
Qed.

(* the divisor of the cut: price/liqRatio, replaced by the smallest decimal when it rounds to zero *)
Definition cut_div (p liq : Z) : Z := if dec_quo p liq =? 0 then 1 else dec_quo p liq.

Lemma liq_cut_eq p liq : liq_cut p liq = dec_quo PREC (cut_div p liq).
Proof. reflexivity. Qed.

Lemma cut_div_pos p liq : 0 <= p -> 0 < liq -> 0 < cut_div p liq.
Proof.
  intros Hp Hl. unfold cut_div. pose proof (dec_quo_nonneg p liq Hp Hl).
  destruct (Z.eqb_spec (dec_quo p liq) 0); lia.
Qed.

(* [C] collateral and [D] debt in base units (mantissas).  A cdp whose index
   ratio C/D is below the cut satisfies  C*q < D*(1 + q*10^-36)  with
   q = price/liqRatio as computed by the code: up to 10^-36 the collateral,
   valued at q, does not cover the debt. *)
Lemma index_below_cut C D q :
  0 <= C -> 0 < D -> 0 < q ->
  dec_quo C D < dec_quo PREC q ->
  C * q * PREC * PREC < D * (PREC * PREC * PREC + q).
Proof.
  intros HC HD Hq Hlt.
  pose proof (dec_quo_bounds C D HC HD) as Br. cbv zeta in Br.
  pose proof (dec_quo_bounds PREC q ltac:(unfold PREC; lia) Hq) as BN. cbv zeta in BN.
  set (r := dec_quo C D) in *. set (N := dec_quo PREC q) in *.
  set (tr := C * PREC * PREC / D) in *. set (tN := PREC * PREC * PREC / q) in *.
  assert (Htr : tr <= tN) by (pose proof PREC_pos; nia).
  pose proof (div_lt_succ (C * PREC * PREC) D HD) as H1. fold tr in H1.
  pose proof (div_mul_le (PREC * PREC * PREC) q Hq) as H2. fold tN in H2.
  assert (H3 : C * PREC * PREC * q < (tr + 1) * D * q) by nia.
  assert (H4 : (tr + 1) * D * q <= (tN + 1) * D * q) by nia.
  nia.
Qed.

(* rounding of q = price/liqRatio: q*liq >= price - liq*(1/2 ulp + 10^-36) *)
Lemma cut_div_lower p liq :
  0 <= p -> 0 < liq ->
  2 * p * PREC * PREC < 2 * cut_div p liq * liq * PREC + liq * PREC + 2 * liq.
Proof.
  intros Hp Hl.
  pose proof (dec_quo_bounds p liq Hp Hl) as B. cbv zeta in B.
  pose proof (div_lt_succ (p * PREC * PREC) liq Hl) as H1.
  assert (Hq : dec_quo p liq <= cut_div p liq).
  { unfold cut_div. destruct (Z.eqb_spec (dec_quo p liq) 0); lia. }
  set (q0 := dec_quo p liq) in *. set (t := p * PREC * PREC / liq) in *.
  pose proof PREC_pos. nia.
Qed.

(* clipping of the sortable keys keeps strict order below the cut *)
Lemma rkey_lt r n : rkey r < rkey n -> r < n.
Proof. unfold rkey. lia. Qed.

(* The value ratio as computed for user actions is within rounding of the exact one. *)
Lemma coll_ratio_bounds coll cfc prin fees cfd p r :
  coll_ratio coll cfc prin fees cfd p = Some r -> coll <> 0 ->
  0 <= to_base coll cfc -> 0 <= p -> 0 < to_base prin cfd + to_base fees cfd ->
  let V := dec_mul (to_base coll cfc) p in
  let T := to_base prin cfd + to_base fees cfd in
  2 * (V * PREC * PREC / T) - PREC <= 2 * (r * PREC) <= 2 * (V * PREC * PREC / T) + PREC.
Proof.
  intros H Hc HC Hp HT. unfold coll_ratio in H.
  destruct (Z.eqb_spec coll 0); [contradiction|].
  destruct (Z.eqb_spec (to_base prin cfd + to_base fees cfd) 0); [lia|].
  inversion H; subst. cbv zeta.
  apply dec_quo_bounds; [apply dec_mul_nonneg; assumption|assumption].
Qed.

(** The full statement "seized by the block liquidator => value ratio below the
    liquidation ratio" is false: price 0.5, liquidation ratio 1.5, collateral
    30 000 000 and debt 10 000 000 (conversion factors 6/6). *)
Example boundary_witness :
  let C := to_base 30000000 6 in
  let D := to_base 10000000 6 in
  let p := 500000000000000000 in
  let liq := 1500000000000000000 in
  rkey (c2d_ratio 30000000 6 10000000 6) < rkey (liq_cut p liq) /\
  coll_ratio 30000000 6 10000000 0 6 p = Some liq.
Proof. vm_compute. split; reflexivity. Qed.
