(* Proofs about Model/Ante.v: the recursive authz scan closes every path to a
   disabled type (unbounded depth and width), the vesting decorator closes the
   top level, the extension-option router, the mempool gate. *)
From Coq Require Import String.
From Kava Require Import Base.Prelude Model.Ante.

(** * Induction principle for the rose tree *)

Section msg_induction.
  Variable P : msg -> Prop.
  Hypothesis Hplain : forall u, P (Plain u).
  Hypothesis Hgrant : forall t, P (Grant t).
  Hypothesis Hexec : forall ms, Forall P ms -> P (Exec ms).

  Fixpoint msg_ind' (m : msg) : P m :=
    match m with
    | Plain u => Hplain u
    | Grant t => Hgrant t
    | Exec ms =>
        Hexec ms ((fix go (l : list msg) : Forall P l :=
                     match l with
                     | [] => Forall_nil P
                     | x :: r => Forall_cons x (msg_ind' x) (go r)
                     end) ms)
    end.
End msg_induction.

(** * Basic facts *)

Lemma is_disabled_In : forall dis u, is_disabled dis u = true <-> In u dis.
Proof.
  intros dis u. unfold is_disabled. rewrite existsb_exists. split.
  - intros [x [Hin Heq]]. apply String.eqb_eq in Heq. subst. exact Hin.
  - intros Hin. exists u. split; [exact Hin | apply String.eqb_refl].
Qed.

Lemma is_disabled_false : forall dis u, is_disabled dis u = false <-> ~ In u dis.
Proof.
  intros dis u. rewrite <- is_disabled_In. destruct (is_disabled dis u); split; intro H;
    try reflexivity; try discriminate; try (intro H'; discriminate H').
  exfalso. apply H. reflexivity.
Qed.

Lemma descendants_exec : forall ms d,
  In d (descendants (Exec ms)) <-> exists x, In x ms /\ (d = x \/ In d (descendants x)).
Proof.
  intros ms d. cbn [descendants]. rewrite in_flat_map. split.
  - intros [x [Hx Hd]]. exists x. split; [exact Hx|]. destruct Hd as [Hd | Hd]; [left; symmetry; exact Hd | right; exact Hd].
  - intros [x [Hx Hd]]. exists x. split; [exact Hx|]. destruct Hd as [Hd | Hd]; [left; symmetry; exact Hd | right; exact Hd].
Qed.

(* the list of descendants is exactly the "occurs inside, at any depth" relation *)
Lemma sub_descendants : forall m' m, sub m' m <-> In m' (descendants m).
Proof.
  intros m' m. split.
  - intros Hs. induction Hs as [m0 ms Hin | m0 m1 ms Hin Hs IH].
    + apply descendants_exec. exists m0. split; [exact Hin | left; reflexivity].
    + apply descendants_exec. exists m1. split; [exact Hin | right; exact IH].
  - revert m'. induction m as [u | t | ms IH] using msg_ind'; intros m' Hin.
    + destruct Hin.
    + destruct Hin.
    + apply descendants_exec in Hin. destruct Hin as [x [Hx Hd]].
      destruct Hd as [Hd | Hd].
      * subst m'. apply sub_here. exact Hx.
      * apply sub_deeper with (m' := x); [exact Hx|].
        rewrite Forall_forall in IH. apply IH; assumption.
Qed.

(** * The recursive scan *)

(* nothing disabled strictly inside, and no grant (the message itself or any
   descendant) targets a disabled type *)
Definition clean (dis : list url) (m : msg) : Prop :=
  (forall d, In d (descendants m) -> ~ In (msg_url d) dis) /\
  (forall d t, In d (m :: descendants m) -> d = Grant t -> ~ In t dis).

Lemma clean_plain : forall dis u, clean dis (Plain u).
Proof.
  intros dis u. split.
  - intros d Hd. destruct Hd.
  - intros d t [Hd | Hd] He; [subst d; discriminate He | destruct Hd].
Qed.

Lemma clean_grant : forall dis t, clean dis (Grant t) <-> ~ In t dis.
Proof.
  intros dis t. split.
  - intros [_ Hg]. apply (Hg (Grant t) t); [left; reflexivity | reflexivity].
  - intros Hn. split.
    + intros d Hd. destruct Hd.
    + intros d t' [Hd | Hd] He; [| destruct Hd]. subst d. injection He as He. subst t'. exact Hn.
Qed.

Lemma clean_exec : forall dis ms,
  clean dis (Exec ms) <-> Forall (fun x => ~ In (msg_url x) dis /\ clean dis x) ms.
Proof.
  intros dis ms. rewrite Forall_forall. split.
  - intros [Hd Hg] x Hx. split; [| split].
    + apply Hd. apply descendants_exec. exists x. split; [exact Hx | left; reflexivity].
    + intros d Hin. apply Hd. apply descendants_exec. exists x. split; [exact Hx | right; exact Hin].
    + intros d t Hin He. apply (Hg d t); [| exact He]. right.
      apply descendants_exec. exists x. split; [exact Hx|].
      destruct Hin as [Hin | Hin]; [left; symmetry; exact Hin | right; exact Hin].
  - intros H. split.
    + intros d Hin. apply descendants_exec in Hin. destruct Hin as [x [Hx Hd]].
      destruct (H x Hx) as [Hu [Hc _]]. destruct Hd as [Hd | Hd]; [subst d; exact Hu | apply Hc; exact Hd].
    + intros d t Hin He. destruct Hin as [Hin | Hin]; [subst d; discriminate He|].
      apply descendants_exec in Hin. destruct Hin as [x [Hx Hd]].
      destruct (H x Hx) as [_ [_ Hg]]. apply (Hg d t); [| exact He].
      destruct Hd as [Hd | Hd]; [left; symmetry; exact Hd | right; exact Hd].
Qed.

(* exact characterisation of checkForDisabledMsg on one message, for every
   disabled list, either value of the flag, any depth and width *)
Lemma check_msg_spec : forall dis m only,
  check_msg dis only m = true <->
  ((only = false -> ~ In (msg_url m) dis) /\ clean dis m).
Proof.
  intros dis m. induction m as [u | t | ms IH] using msg_ind'; intros only.
  - cbn [check_msg msg_url]. destruct only; cbn [negb andb].
    + split; [intros _; split; [intros H; discriminate H | apply clean_plain] | reflexivity].
    + destruct (is_disabled dis u) eqn:E.
      * split; [intros H; discriminate H|]. intros [H _]. apply is_disabled_In in E. exfalso. apply H; [reflexivity | exact E].
      * apply is_disabled_false in E. split; [| reflexivity]. intros _. split; [intros _; exact E | apply clean_plain].
  - cbn [check_msg msg_url]. rewrite clean_grant.
    assert (Ht : negb (is_disabled dis t) = true <-> ~ In t dis).
    { rewrite negb_true_iff. apply is_disabled_false. }
    destruct only; cbn [negb andb].
    + rewrite Ht. split; [intros H; split; [intros H'; discriminate H' | exact H] | intros [_ H]; exact H].
    + destruct (is_disabled dis url_grant) eqn:E.
      * split; [intros H; discriminate H|]. intros [H _]. apply is_disabled_In in E. exfalso. apply H; [reflexivity | exact E].
      * apply is_disabled_false in E. rewrite Ht.
        split; [intros H; split; [intros _; exact E | exact H] | intros [_ H]; exact H].
  - cbn [check_msg msg_url]. rewrite clean_exec.
    assert (Hall : forallb (check_msg dis false) ms = true <->
                   Forall (fun x => ~ In (msg_url x) dis /\ clean dis x) ms).
    { rewrite forallb_forall, Forall_forall. rewrite Forall_forall in IH. split.
      - intros H x Hx. apply (IH x Hx false) in H; [| exact Hx]. destruct H as [H1 H2]. split; [apply H1; reflexivity | exact H2].
      - intros H x Hx. apply (IH x Hx false). destruct (H x Hx) as [H1 H2]. split; [intros _; exact H1 | exact H2]. }
    destruct only; cbn [negb andb].
    + rewrite Hall. split; [intros H; split; [intros H'; discriminate H' | exact H] | intros [_ H]; exact H].
    + destruct (is_disabled dis url_exec) eqn:E.
      * split; [intros H; discriminate H|]. intros [H _]. apply is_disabled_In in E. exfalso. apply H; [reflexivity | exact E].
      * apply is_disabled_false in E. rewrite Hall.
        split; [intros H; split; [intros _; exact E | exact H] | intros [_ H]; exact H].
Qed.

Lemma check_disabled_spec : forall dis only msgs,
  check_disabled dis only msgs = true <->
  forall top, In top msgs -> (only = false -> ~ In (msg_url top) dis) /\ clean dis top.
Proof.
  intros dis only msgs. unfold check_disabled. rewrite forallb_forall. split.
  - intros H top Hin. apply check_msg_spec. apply H. exact Hin.
  - intros H top Hin. apply check_msg_spec. apply H. exact Hin.
Qed.

(* [clean] restated with the inductive "inside, at any depth" relation *)
Lemma clean_sub : forall dis top,
  clean dis top <->
  ((forall m, sub m top -> ~ In (msg_url m) dis) /\
   (forall m tg, (m = top \/ sub m top) -> m = Grant tg -> ~ In tg dis)).
Proof.
  intros dis top. unfold clean. split; intros [H1 H2]; split.
  - intros m Hs. apply H1. apply sub_descendants. exact Hs.
  - intros m tg Hm He. apply (H2 m tg); [| exact He].
    destruct Hm as [Hm | Hm]; [left; symmetry; exact Hm | right; apply sub_descendants; exact Hm].
  - intros d Hd. apply H1. apply sub_descendants. exact Hd.
  - intros d t Hd He. apply (H2 d t); [| exact He].
    destruct Hd as [Hd | Hd]; [left; symmetry; exact Hd | right; apply sub_descendants; exact Hd].
Qed.

(* the independent boolean scan agrees with [clean] *)
Lemma blocked_inside_b_spec : forall dis m, blocked_inside_b dis m = false <-> clean dis m.
Proof.
  intros dis m. unfold blocked_inside_b, clean. rewrite orb_false_iff. split.
  - intros [Ha Hb]. split.
    + intros d Hd Hin. apply is_disabled_In in Hin.
      assert (Hex : existsb (fun d0 => is_disabled dis (msg_url d0)) (descendants m) = true).
      { apply existsb_exists. exists d. split; assumption. }
      rewrite Hex in Ha. discriminate Ha.
    + intros d t Hd He Hin. subst d. apply is_disabled_In in Hin.
      assert (Hex : existsb (fun d0 => match d0 with Grant t0 => is_disabled dis t0 | _ => false end) (m :: descendants m) = true).
      { apply existsb_exists. exists (Grant t). split; assumption. }
      rewrite Hex in Hb. discriminate Hb.
  - intros [H1 H2]. split.
    + destruct (existsb _ (descendants m)) eqn:E; [| reflexivity].
      apply existsb_exists in E. destruct E as [d [Hd Hin]]. apply is_disabled_In in Hin.
      exfalso. exact (H1 d Hd Hin).
    + destruct (existsb _ (m :: descendants m)) eqn:E; [| reflexivity].
      apply existsb_exists in E. destruct E as [d [Hd Hin]]. destruct d as [u | ms | t]; try discriminate Hin.
      apply is_disabled_In in Hin. exfalso. exact (H2 (Grant t) t Hd eq_refl Hin).
Qed.

(** * The two chains *)

Definition gate (cfg : config) (md : mode) (t : tx) : option reason :=
  if c_fetchers cfg then authenticated_mempool cfg md t else None.

Lemma cosmos_handler_spec : forall eip cfg md t o,
  cosmos_handler eip cfg md t o =
  match reject_messages t with Some e => Reject e | None =>
  if negb (o_pre o) then Reject RRest else
  match gate cfg md t with Some e => Reject e | None =>
  match vesting_decorator t with Some e => Reject e | None =>
  match authz_limiter t with Some e => Reject e | None =>
  if o_post o then Accept (if eip then PWeb3 else PCosmos) else Reject RRest
  end end end end.
Proof.
  intros eip cfg md t o. unfold cosmos_handler, gate.
  destruct eip, (c_fetchers cfg);
    cbv [cosmos_chain chain_table filter map cond_holds fst snd negb run_chain run_decorator];
    destruct (reject_messages t); try reflexivity;
    destruct (o_pre o); try reflexivity;
    try (destruct (authenticated_mempool cfg md t); try reflexivity);
    destruct (vesting_decorator t); try reflexivity;
    destruct (authz_limiter t); try reflexivity;
    destruct (o_post o); reflexivity.
Qed.

Lemma eth_handler_spec : forall cfg md t o,
  eth_handler cfg md t o =
  if forallb is_eth_msg (t_msgs t) && o_pre o then
    match gate cfg md t with Some e => Reject e | None =>
    if o_post o then Accept PEth else Reject REthPath end
  else Reject REthPath.
Proof.
  intros cfg md t o. unfold eth_handler, gate.
  destruct (c_fetchers cfg);
    cbv [eth_chain eth_chain_table filter map cond_holds fst snd negb run_chain run_decorator];
    destruct (forallb is_eth_msg (t_msgs t) && o_pre o); try reflexivity;
    try (destruct (authenticated_mempool cfg md t); try reflexivity);
    destruct (o_post o); reflexivity.
Qed.

Lemma common_addresses_spec : forall a b,
  common_addresses_exist a b = true <-> exists s, In s a /\ In s b.
Proof.
  intros a b. unfold common_addresses_exist. rewrite existsb_exists. split.
  - intros [x [Hx He]]. apply existsb_exists in He. destruct He as [y [Hy He]].
    apply Nat.eqb_eq in He. subst y. exists x. split; assumption.
  - intros [s [Ha Hb]]. exists s. split; [exact Ha|]. apply existsb_exists. exists s. split; [exact Hb | apply Nat.eqb_refl].
Qed.

Definition gate_active (md : mode) : bool := is_check_tx md && negb (simulate_flag md).

Lemma gate_active_modes : forall md, gate_active md = true <-> (md = CheckTx \/ md = ReCheckTx).
Proof.
  intros md. destruct md; cbn; split; intros H; try reflexivity; try discriminate H;
    try (left; reflexivity); try (right; reflexivity);
    destruct H as [H | H]; discriminate H.
Qed.

(* the AuthenticatedMempoolDecorator, when present, lets a tx through exactly when ... *)
Lemma gate_spec : forall cfg md t,
  gate cfg md t = None <->
  (c_fetchers cfg = true -> gate_active md = true ->
   exists s, In s (t_signers t) /\ In s (c_authorised cfg)).
Proof.
  intros cfg md t. unfold gate. destruct (c_fetchers cfg).
  - unfold authenticated_mempool. fold (gate_active md). destruct (gate_active md).
    + destruct (common_addresses_exist (t_signers t) (c_authorised cfg)) eqn:E.
      * split; [intros _ _ _; apply common_addresses_spec; exact E | reflexivity].
      * split; [intros H; discriminate H|]. intros H. specialize (H eq_refl eq_refl).
        apply common_addresses_spec in H. rewrite H in E. discriminate E.
    + split; [intros _ _ H; discriminate H | reflexivity].
  - split; [intros _ H; discriminate H | reflexivity].
Qed.

Lemma gate_reason : forall cfg md t e, gate cfg md t = Some e -> e = RMempool.
Proof.
  intros cfg md t e. unfold gate, authenticated_mempool.
  destruct (c_fetchers cfg); [| intros H; discriminate H].
  destruct (is_check_tx md && negb (simulate_flag md)); [| intros H; discriminate H].
  destruct (common_addresses_exist _ _); intros H; [discriminate H | injection H as H; symmetry; exact H].
Qed.

(* exact characterisation of acceptance on a cosmos path *)
Lemma cosmos_accept_iff : forall eip cfg md t o p,
  cosmos_handler eip cfg md t o = Accept p <->
  (p = (if eip then PWeb3 else PCosmos) /\ o_pre o = true /\ o_post o = true /\
   (forall top, In top (t_msgs t) -> top <> Plain url_eth) /\
   (c_fetchers cfg = true -> gate_active md = true ->
      exists s, In s (t_signers t) /\ In s (c_authorised cfg)) /\
   (forall top, In top (t_msgs t) -> ~ In (msg_url top) vesting_types) /\
   (forall top, In top (t_msgs t) -> clean disabled_types top)).
Proof.
  intros eip cfg md t o p. rewrite cosmos_handler_spec.
  assert (Hrm : reject_messages t = None <-> forall top, In top (t_msgs t) -> top <> Plain url_eth).
  { unfold reject_messages. destruct (existsb is_eth_msg (t_msgs t)) eqn:E.
    - split; [intros H; discriminate H|]. intros H. apply existsb_exists in E. destruct E as [x [Hx He]].
      destruct x as [u | ms | tg]; try discriminate He. apply String.eqb_eq in He. subst u. exfalso. exact (H _ Hx eq_refl).
    - split; [| reflexivity]. intros _ top Hin Heq. subst top.
      assert (Hex : existsb is_eth_msg (t_msgs t) = true).
      { apply existsb_exists. exists (Plain url_eth). split; [exact Hin | apply String.eqb_refl]. }
      rewrite Hex in E. discriminate E. }
  pose proof (gate_spec cfg md t) as Hmp.
  assert (Hvs : vesting_decorator t = None <-> forall top, In top (t_msgs t) -> ~ In (msg_url top) vesting_types).
  { unfold vesting_decorator. destruct (existsb (fun m => is_disabled vesting_types (msg_url m)) (t_msgs t)) eqn:E.
    - split; [intros H; discriminate H|]. intros H. apply existsb_exists in E. destruct E as [x [Hx He]].
      apply is_disabled_In in He. exfalso. exact (H x Hx He).
    - split; [| reflexivity]. intros _ top Hin Hv. apply is_disabled_In in Hv.
      assert (Hex : existsb (fun m => is_disabled vesting_types (msg_url m)) (t_msgs t) = true).
      { apply existsb_exists. exists top. split; assumption. }
      rewrite Hex in E. discriminate E. }
  assert (Haz : authz_limiter t = None <-> forall top, In top (t_msgs t) -> clean disabled_types top).
  { unfold authz_limiter. destruct (check_disabled disabled_types true (t_msgs t)) eqn:E.
    - split; [| reflexivity]. intros _ top Hin.
      apply (proj1 (check_disabled_spec _ _ _) E top Hin).
    - split; [intros H; discriminate H|]. intros H.
      assert (E' : check_disabled disabled_types true (t_msgs t) = true).
      { apply check_disabled_spec. intros top Hin. split; [intros H'; discriminate H' | apply H; exact Hin]. }
      rewrite E' in E. discriminate E. }
  destruct (reject_messages t) eqn:E1.
  { split; [intros H; discriminate H|]. intros [_ [_ [_ [H _]]]]. apply Hrm in H. discriminate H. }
  destruct (o_pre o) eqn:Epre; cbn [negb].
  2:{ split; [intros H; discriminate H | intros [_ [H _]]; discriminate H]. }
  destruct (gate cfg md t) eqn:E2.
  { split; [intros H; discriminate H|]. intros [_ [_ [_ [_ [H _]]]]]. apply Hmp in H. discriminate H. }
  destruct (vesting_decorator t) eqn:E3.
  { split; [intros H; discriminate H|]. intros [_ [_ [_ [_ [_ [H _]]]]]]. apply Hvs in H. discriminate H. }
  destruct (authz_limiter t) eqn:E4.
  { split; [intros H; discriminate H|]. intros [_ [_ [_ [_ [_ [_ H]]]]]]. apply Haz in H. discriminate H. }
  destruct (o_post o) eqn:Epost.
  - split.
    + intros H. injection H as H. subst p. split; [reflexivity|]. split; [reflexivity|]. split; [reflexivity|].
      split; [apply Hrm; reflexivity|]. split; [apply Hmp; reflexivity|].
      split; [apply Hvs; reflexivity | apply Haz; reflexivity].
    + intros [Hp _]. subst p. reflexivity.
  - split; [intros H; discriminate H | intros [_ [_ [H _]]]; discriminate H].
Qed.

Lemma eth_accept_iff : forall cfg md t o p,
  eth_handler cfg md t o = Accept p <->
  (p = PEth /\ o_pre o = true /\ o_post o = true /\
   (forall top, In top (t_msgs t) -> top = Plain url_eth) /\
   (c_fetchers cfg = true -> gate_active md = true ->
      exists s, In s (t_signers t) /\ In s (c_authorised cfg))).
Proof.
  intros cfg md t o p. rewrite eth_handler_spec.
  assert (Hall : forallb is_eth_msg (t_msgs t) = true <-> forall top, In top (t_msgs t) -> top = Plain url_eth).
  { rewrite forallb_forall. split.
    - intros H top Hin. specialize (H top Hin). destruct top as [u | ms | tg]; try discriminate H.
      apply String.eqb_eq in H. subst u. reflexivity.
    - intros H top Hin. rewrite (H top Hin). apply String.eqb_refl. }
  pose proof (gate_spec cfg md t) as Hmp.
  destruct (forallb is_eth_msg (t_msgs t)) eqn:E; cbn [andb].
  2:{ split; [intros H; discriminate H|]. intros [_ [_ [_ [H _]]]]. apply Hall in H. discriminate H. }
  destruct (o_pre o) eqn:Epre.
  2:{ split; [intros H; discriminate H | intros [_ [H _]]; discriminate H]. }
  destruct (gate cfg md t) eqn:E2.
  { split; [intros H; discriminate H|]. intros [_ [_ [_ [_ H]]]]. apply Hmp in H. discriminate H. }
  destruct (o_post o) eqn:Epost.
  - split.
    + intros H. injection H as H. subst p. split; [reflexivity|]. split; [reflexivity|]. split; [reflexivity|].
      split; [apply Hall; reflexivity | apply Hmp; reflexivity].
    + intros [Hp _]. subst p. reflexivity.
  - split; [intros H; discriminate H | intros [_ [_ [H _]]]; discriminate H].
Qed.

(* which handler ran, from the verdict *)
Lemma ante_accept_cases : forall cfg md t o p,
  ante cfg md t o = Accept p ->
  (t_opts t = [] /\ cosmos_handler false cfg md t o = Accept p /\ p = PCosmos) \/
  (t_opts t = [opt_web3] /\ cosmos_handler true cfg md t o = Accept p /\ p = PWeb3) \/
  (t_opts t = [opt_eth] /\ eth_handler cfg md t o = Accept p /\ p = PEth).
Proof.
  intros cfg md t o p H. unfold ante in H.
  destruct (t_opts t) as [| u [| u' r]] eqn:Eo.
  - left. split; [reflexivity|]. split; [exact H|].
    apply cosmos_accept_iff in H. destruct H as [Hp _]. exact Hp.
  - destruct (String.eqb u opt_eth) eqn:E1.
    + apply String.eqb_eq in E1. subst u. right. right. split; [reflexivity|]. split; [exact H|].
      apply eth_accept_iff in H. destruct H as [Hp _]. exact Hp.
    + destruct (String.eqb u opt_web3) eqn:E2.
      * apply String.eqb_eq in E2. subst u. right. left. split; [reflexivity|]. split; [exact H|].
        apply cosmos_accept_iff in H. destruct H as [Hp _]. exact Hp.
      * discriminate H.
  - discriminate H.
Qed.

Lemma url_eth_disabled : In url_eth disabled_types.
Proof. left. reflexivity. Qed.

Lemma vesting_in_disabled : forall u, In u vesting_types -> In u disabled_types.
Proof. intros u H. right. exact H. Qed.

Lemma url_eth_not_vesting : ~ In url_eth vesting_types.
Proof.
  intros H. apply is_disabled_In in H. vm_compute in H. discriminate H.
Qed.

(** * no_blocked_inside *)

Theorem no_blocked_inside : forall cfg md t o p,
  ante cfg md t o = Accept p ->
  forall top, In top (t_msgs t) ->
    (forall m, sub m top -> ~ In (msg_url m) disabled_types) /\
    (forall m tg, (m = top \/ sub m top) -> m = Grant tg -> ~ In tg disabled_types).
Proof.
  intros cfg md t o p H top Hin. apply clean_sub.
  destruct (ante_accept_cases _ _ _ _ _ H) as [[_ [Hc _]] | [[_ [Hc _]] | [_ [He _]]]].
  - apply cosmos_accept_iff in Hc. destruct Hc as [_ [_ [_ [_ [_ [_ Hcl]]]]]]. apply Hcl. exact Hin.
  - apply cosmos_accept_iff in Hc. destruct Hc as [_ [_ [_ [_ [_ [_ Hcl]]]]]]. apply Hcl. exact Hin.
  - apply eth_accept_iff in He. destruct He as [_ [_ [_ [Hall _]]]]. rewrite (Hall top Hin). apply clean_plain.
Qed.

(* the same, spelled out for the four concrete types *)
Corollary no_eth_or_vesting_inside : forall cfg md t o p,
  ante cfg md t o = Accept p ->
  forall top m, In top (t_msgs t) -> sub m top ->
    msg_url m <> url_eth /\ msg_url m <> url_vest_create /\
    msg_url m <> url_vest_perm /\ msg_url m <> url_vest_periodic /\
    (forall tg, m = Grant tg ->
       tg <> url_eth /\ tg <> url_vest_create /\ tg <> url_vest_perm /\ tg <> url_vest_periodic).
Proof.
  intros cfg md t o p H top m Hin Hs.
  destruct (no_blocked_inside _ _ _ _ _ H top Hin) as [H1 H2].
  specialize (H1 m Hs).
  assert (Hg : forall tg, m = Grant tg -> ~ In tg disabled_types).
  { intros tg He. apply (H2 m tg); [right; exact Hs | exact He]. }
  assert (Hall : forall u, ~ In u disabled_types ->
            u <> url_eth /\ u <> url_vest_create /\ u <> url_vest_perm /\ u <> url_vest_periodic).
  { intros u Hn. unfold disabled_types in Hn. cbn [In] in Hn.
    repeat split; intros He; apply Hn; subst u; tauto. }
  destruct (Hall _ H1) as [Ha [Hb [Hc Hd]]].
  split; [exact Ha|]. split; [exact Hb|]. split; [exact Hc|]. split; [exact Hd|].
  intros tg He. apply Hall. apply Hg. exact He.
Qed.

(** * vesting_top_level *)

Theorem vesting_top_level : forall cfg md t o p,
  ante cfg md t o = Accept p ->
  forall top, In top (t_msgs t) -> ~ In (msg_url top) vesting_types.
Proof.
  intros cfg md t o p H top Hin.
  destruct (ante_accept_cases _ _ _ _ _ H) as [[_ [Hc _]] | [[_ [Hc _]] | [_ [He _]]]].
  - apply cosmos_accept_iff in Hc. destruct Hc as [_ [_ [_ [_ [_ [Hv _]]]]]]. apply Hv. exact Hin.
  - apply cosmos_accept_iff in Hc. destruct Hc as [_ [_ [_ [_ [_ [Hv _]]]]]]. apply Hv. exact Hin.
  - apply eth_accept_iff in He. destruct He as [_ [_ [_ [Hall _]]]]. rewrite (Hall top Hin). exact url_eth_not_vesting.
Qed.

(** * eth_only_on_eth_path *)

Definition contains_eth (t : tx) : Prop :=
  exists top, In top (t_msgs t) /\ (top = Plain url_eth \/ sub (Plain url_eth) top).

Theorem eth_only_on_eth_path : forall cfg md t o p,
  ante cfg md t o = Accept p -> contains_eth t ->
  p = PEth /\ t_opts t = [opt_eth].
Proof.
  intros cfg md t o p H [top [Hin Hc]].
  destruct (ante_accept_cases _ _ _ _ _ H) as [[_ [Hh _]] | [[_ [Hh _]] | [Ho [_ Hp]]]].
  - exfalso. apply cosmos_accept_iff in Hh. destruct Hh as [_ [_ [_ [Hne [_ [_ Hcl]]]]]].
    destruct Hc as [Hc | Hc]; [exact (Hne top Hin Hc)|].
    apply sub_descendants in Hc. destruct (Hcl top Hin) as [Hd _].
    exact (Hd _ Hc url_eth_disabled).
  - exfalso. apply cosmos_accept_iff in Hh. destruct Hh as [_ [_ [_ [Hne [_ [_ Hcl]]]]]].
    destruct Hc as [Hc | Hc]; [exact (Hne top Hin Hc)|].
    apply sub_descendants in Hc. destruct (Hcl top Hin) as [Hd _].
    exact (Hd _ Hc url_eth_disabled).
  - split; assumption.
Qed.

Theorem eth_path_only_eth_msgs : forall cfg md t o,
  ante cfg md t o = Accept PEth ->
  t_opts t = [opt_eth] /\ forall top, In top (t_msgs t) -> top = Plain url_eth.
Proof.
  intros cfg md t o H.
  destruct (ante_accept_cases _ _ _ _ _ H) as [[_ [_ Hp]] | [[_ [_ Hp]] | [Ho [He _]]]]; try discriminate Hp.
  split; [exact Ho|]. apply eth_accept_iff in He. destruct He as [_ [_ [_ [Hall _]]]]. exact Hall.
Qed.

Theorem no_options_rejects_eth : forall cfg md t o,
  t_opts t = [] -> contains_eth t -> exists r, ante cfg md t o = Reject r.
Proof.
  intros cfg md t o Ho Hc. destruct (ante cfg md t o) as [p | r] eqn:E.
  - destruct (eth_only_on_eth_path _ _ _ _ _ E Hc) as [_ Ho']. rewrite Ho in Ho'. discriminate Ho'.
  - exists r. reflexivity.
Qed.

Theorem several_options_rejected : forall cfg md t o,
  (2 <= length (t_opts t))%nat -> ante cfg md t o = Reject RExtMany.
Proof.
  intros cfg md t o Hl. unfold ante. destruct (t_opts t) as [| u [| u' r]]; cbn in Hl; try lia. reflexivity.
Qed.

Theorem unknown_option_rejected : forall cfg md t o u,
  t_opts t = [u] -> u <> opt_eth -> u <> opt_web3 -> ante cfg md t o = Reject RExtUnknown.
Proof.
  intros cfg md t o u Ho H1 H2. unfold ante. rewrite Ho.
  apply String.eqb_neq in H1. apply String.eqb_neq in H2. rewrite H1, H2. reflexivity.
Qed.

(** * mempool_gate *)

(* on every path: with fetchers configured, CheckTx / ReCheckTx accept only
   transactions with an authorised signer *)
Theorem mempool_gate : forall cfg md t o p,
  c_fetchers cfg = true -> (md = CheckTx \/ md = ReCheckTx) ->
  ante cfg md t o = Accept p ->
  exists s, In s (t_signers t) /\ In s (c_authorised cfg).
Proof.
  intros cfg md t o p Hf Hmd H. apply gate_active_modes in Hmd.
  destruct (ante_accept_cases _ _ _ _ _ H) as [[_ [Hc _]] | [[_ [Hc _]] | [_ [He _]]]].
  - apply cosmos_accept_iff in Hc. destruct Hc as [_ [_ [_ [_ [Hg _]]]]]. exact (Hg Hf Hmd).
  - apply cosmos_accept_iff in Hc. destruct Hc as [_ [_ [_ [_ [Hg _]]]]]. exact (Hg Hf Hmd).
  - apply eth_accept_iff in He. destruct He as [_ [_ [_ [_ Hg]]]]. exact (Hg Hf Hmd).
Qed.

Lemma gate_inactive : forall cfg md t, (md = DeliverTx \/ md = Simulate) -> gate cfg md t = None.
Proof.
  intros cfg md t Hmd. unfold gate, authenticated_mempool.
  destruct Hmd; subst md; cbn [is_check_tx simulate_flag negb andb]; destruct (c_fetchers cfg); reflexivity.
Qed.

(* block execution and simulation do not depend on the mempool configuration *)
Theorem gate_inactive_unaffected : forall cfg cfg' md t o,
  (md = DeliverTx \/ md = Simulate) -> ante cfg md t o = ante cfg' md t o.
Proof.
  intros cfg cfg' md t o Hmd. unfold ante.
  assert (Hc : forall eip, cosmos_handler eip cfg md t o = cosmos_handler eip cfg' md t o).
  { intros eip. rewrite !cosmos_handler_spec, !(gate_inactive _ _ _ Hmd). reflexivity. }
  assert (He : eth_handler cfg md t o = eth_handler cfg' md t o).
  { rewrite !eth_handler_spec, !(gate_inactive _ _ _ Hmd). reflexivity. }
  destruct (t_opts t) as [| u [| u' r]]; [apply Hc | | reflexivity].
  destruct (String.eqb u opt_eth); [exact He|]. destruct (String.eqb u opt_web3); [apply Hc | reflexivity].
Qed.

(* an authorised signer makes the gate transparent; no fetchers, no gate *)
Theorem gate_transparent : forall cfg md t o,
  (c_fetchers cfg = false \/ exists s, In s (t_signers t) /\ In s (c_authorised cfg)) ->
  ante cfg md t o = ante (mkCfg false []) md t o.
Proof.
  intros cfg md t o Hg. unfold ante.
  assert (Hgate : gate cfg md t = gate (mkCfg false []) md t).
  { transitivity (@None reason); [| reflexivity]. apply gate_spec. intros Hf _.
    destruct Hg as [Hg | Hg]; [rewrite Hg in Hf; discriminate Hf | exact Hg]. }
  assert (Hc : forall eip, cosmos_handler eip cfg md t o = cosmos_handler eip (mkCfg false []) md t o).
  { intros eip. rewrite !cosmos_handler_spec, Hgate. reflexivity. }
  assert (He : eth_handler cfg md t o = eth_handler (mkCfg false []) md t o).
  { rewrite !eth_handler_spec, Hgate. reflexivity. }
  destruct (t_opts t) as [| u [| u' r]]; [apply Hc | | reflexivity].
  destruct (String.eqb u opt_eth); [exact He|]. destruct (String.eqb u opt_web3); [apply Hc | reflexivity].
Qed.

(* an unauthorised tx is refused in CheckTx / ReCheckTx whatever its path *)
Theorem gate_rejects_unauthorised : forall cfg md t o,
  c_fetchers cfg = true -> (md = CheckTx \/ md = ReCheckTx) ->
  (forall s, In s (t_signers t) -> ~ In s (c_authorised cfg)) ->
  exists r, ante cfg md t o = Reject r.
Proof.
  intros cfg md t o Hf Hmd Hn. destruct (ante cfg md t o) as [p | r] eqn:E; [| exists r; reflexivity].
  exfalso. destruct (mempool_gate _ _ _ _ _ Hf Hmd E) as [s [Hs Ha]]. exact (Hn s Hs Ha).
Qed.

(** * Acceptance characterised (the gates reject nothing else) *)

Theorem cosmos_acceptance_characterised : forall cfg md msgs signers o,
  ante cfg md (mkTx msgs [] signers) o = Accept PCosmos <->
  (o_pre o = true /\ o_post o = true /\
   (forall top, In top msgs -> top <> Plain url_eth) /\
   (c_fetchers cfg = true -> (md = CheckTx \/ md = ReCheckTx) ->
      exists s, In s signers /\ In s (c_authorised cfg)) /\
   (forall top, In top msgs -> ~ In (msg_url top) vesting_types) /\
   (forall top, In top msgs ->
      (forall m, sub m top -> ~ In (msg_url m) disabled_types) /\
      (forall m tg, (m = top \/ sub m top) -> m = Grant tg -> ~ In tg disabled_types))).
Proof.
  intros cfg md msgs signers o. unfold ante. cbn [t_opts].
  rewrite cosmos_accept_iff. cbn [t_msgs t_signers]. split.
  - intros [_ [Hr [Hr' [H1 [H2 [H3 H4]]]]]]. split; [exact Hr|]. split; [exact Hr'|]. split; [exact H1|].
    split; [intros Hf Hmd; apply H2; [exact Hf | apply gate_active_modes; exact Hmd]|].
    split; [exact H3|]. intros top Hin. apply clean_sub. apply H4. exact Hin.
  - intros [Hr [Hr' [H1 [H2 [H3 H4]]]]]. split; [reflexivity|]. split; [exact Hr|]. split; [exact Hr'|]. split; [exact H1|].
    split; [intros Hf Hmd; apply H2; [exact Hf | apply gate_active_modes; exact Hmd]|].
    split; [exact H3|]. intros top Hin. apply clean_sub. apply H4. exact Hin.
Qed.

Theorem eth_acceptance_characterised : forall cfg md msgs signers o,
  ante cfg md (mkTx msgs [opt_eth] signers) o = Accept PEth <->
  (o_pre o = true /\ o_post o = true /\
   (forall top, In top msgs -> top = Plain url_eth) /\
   (c_fetchers cfg = true -> (md = CheckTx \/ md = ReCheckTx) ->
      exists s, In s signers /\ In s (c_authorised cfg))).
Proof.
  intros cfg md msgs signers o. unfold ante. cbn [t_opts]. rewrite String.eqb_refl.
  rewrite eth_accept_iff. cbn [t_msgs t_signers]. split.
  - intros [_ [Hr [Hr' [H1 H2]]]]. split; [exact Hr|]. split; [exact Hr'|]. split; [exact H1|].
    intros Hf Hmd. apply H2; [exact Hf | apply gate_active_modes; exact Hmd].
  - intros [Hr [Hr' [H1 H2]]]. split; [reflexivity|]. split; [exact Hr|]. split; [exact Hr'|]. split; [exact H1|].
    intros Hf Hmd. apply H2; [exact Hf | apply gate_active_modes; exact Hmd].
Qed.

(** * The boolean invariant of the correspondence run is a consequence *)

Lemma list_eqb_string_refl : forall l, list_eqb String.eqb l l = true.
Proof. induction l as [| x r IH]; cbn; [reflexivity | rewrite String.eqb_refl, IH; reflexivity]. Qed.

Theorem inv_b_holds : forall cfg md t o, inv_b cfg md t o = true.
Proof.
  intros cfg md t o. unfold inv_b. destruct (ante cfg md t o) as [p | r] eqn:E; [| reflexivity].
  assert (H1 : existsb (blocked_inside_b disabled_types) (t_msgs t) = false).
  { destruct (existsb (blocked_inside_b disabled_types) (t_msgs t)) eqn:Ex; [| reflexivity]. exfalso.
    apply existsb_exists in Ex. destruct Ex as [top [Hin Hb]].
    assert (Hc : clean disabled_types top).
    { apply clean_sub. exact (no_blocked_inside _ _ _ _ _ E top Hin). }
    apply blocked_inside_b_spec in Hc. rewrite Hc in Hb. discriminate Hb. }
  assert (H2 : existsb (fun m => is_disabled vesting_types (msg_url m)) (t_msgs t) = false).
  { destruct (existsb (fun m => is_disabled vesting_types (msg_url m)) (t_msgs t)) eqn:Ex; [| reflexivity]. exfalso.
    apply existsb_exists in Ex. destruct Ex as [top [Hin Hb]]. apply is_disabled_In in Hb.
    exact (vesting_top_level _ _ _ _ _ E top Hin Hb). }
  rewrite H1, H2. cbn [negb andb].
  assert (H3 : negb (existsb contains_eth_b (t_msgs t))
               || match p with PEth => list_eqb String.eqb (t_opts t) [opt_eth] | _ => false end = true).
  { destruct (existsb contains_eth_b (t_msgs t)) eqn:Ex; [| reflexivity]. cbn [negb orb].
    apply existsb_exists in Ex. destruct Ex as [top [Hin Hb]]. unfold contains_eth_b in Hb.
    apply existsb_exists in Hb. destruct Hb as [d [Hd He]].
    destruct d as [u | ms | tg]; try discriminate He. apply String.eqb_eq in He. subst u.
    assert (Hc : contains_eth t).
    { exists top. split; [exact Hin|]. destruct Hd as [Hd | Hd]; [left; exact Hd | right; apply sub_descendants; exact Hd]. }
    destruct (eth_only_on_eth_path _ _ _ _ _ E Hc) as [Hp Ho]. subst p. rewrite Ho. apply list_eqb_string_refl. }
  rewrite H3. cbn [andb].
  destruct (c_fetchers cfg) eqn:Ef; [| reflexivity]. cbn [negb orb].
  destruct (is_check_tx md && negb (simulate_flag md)) eqn:Eg; [| reflexivity]. cbn [negb orb].
  apply common_addresses_spec. apply (mempool_gate cfg md t o p Ef); [| exact E].
  apply gate_active_modes. exact Eg.
Qed.

(** * Unbounded depth: a witness family *)

(* a blocked message wrapped in n nested Execs *)
Fixpoint wrap (n : nat) (m : msg) : msg :=
  match n with O => m | S k => Exec [wrap k m] end.

Lemma wrap_sub : forall n m, sub m (wrap (S n) m).
Proof.
  induction n as [| n IH]; intros m.
  - cbn. apply sub_here. left. reflexivity.
  - change (wrap (S (S n)) m) with (Exec [wrap (S n) m]).
    apply sub_deeper with (m' := wrap (S n) m); [left; reflexivity | apply IH].
Qed.

Lemma depth_wrap : forall n u, depth (wrap n (Plain u)) = n.
Proof.
  induction n as [| n IH]; intros u; [reflexivity|].
  cbn [wrap depth fold_right]. rewrite IH. rewrite Nat.max_0_r. reflexivity.
Qed.

(* at every depth, and behind any siblings, a blocked type is refused *)
Theorem deep_blocked_rejected : forall cfg md n u before after others signers opts o,
  In u disabled_types ->
  exists r, ante cfg md (mkTx (before ++ wrap (S n) (Plain u) :: after ++ others) opts signers) o = Reject r.
Proof.
  intros cfg md n u before after others signers opts o Hu.
  destruct (ante cfg md _ o) as [p | r] eqn:E; [| exists r; reflexivity].
  exfalso.
  assert (Hin : In (wrap (S n) (Plain u)) (t_msgs (mkTx (before ++ wrap (S n) (Plain u) :: after ++ others) opts signers))).
  { cbn [t_msgs]. apply in_or_app. right. left. reflexivity. }
  destruct (no_blocked_inside _ _ _ _ _ E _ Hin) as [H1 _].
  exact (H1 (Plain u) (wrap_sub n (Plain u)) Hu).
Qed.
