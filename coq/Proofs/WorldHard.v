(* C02 instance: x/hard (Model/Hard.v).

   Begin blocker: abci.go BeginBlocker -> keeper.ApplyInterestRateUpdates (keeper/interest.go) =
   Model.Hard.begin_block: for every money market of the params (add it to the store when missing,
   AccrueInterest under the stored market, copy a changed market into the store), then for every
   stored market that left the params (AccrueInterest once more, delete).  An error of
   AccrueInterest is turned into a panic by ApplyInterestRateUpdates, which halts the chain.
   The block input is (block time, per-denom borrow interest factors): the factor
   CalculateBorrowInterestFactor(APYToSPY(1 + borrowRateApy), elapsed) of the interval is an oracle
   value of the model (Model/Hard.v [accrue]); a negative value encodes the error return of APYToSPY.
   x/hard has no end blocker.

   Operations ([op] of Model/Hard.v without the block hook): MsgDeposit, MsgWithdraw, MsgBorrow,
   MsgRepay, MsgLiquidate, a pricefeed price change (SetPrice), a plain bank transfer to the module
   account (Donate), and a governance change of the money markets (SetParams).

   x/hard registers NO invariant with the crisis keeper (module.go: RegisterInvariants is empty; there
   is no keeper/invariants.go).  The invariant [hard_Inv] is therefore made of what the no-panic proof
   of the begin blocker needs, plus two sanity conjuncts of the same kind:
     1. mk_wf (mkts s)    every money market in the store has 0 <= ReserveFactor <= 1
                          - needed by the no-panic proof (reserves share of the interest is within
                            [0, interest], so neither sdk.NewCoin panics);
     2. mk_wf (params s)  the same for the money markets of the params
                          - needed by the no-panic proof (the begin blocker copies them into the store);
     3. 0 <= tbor s d     total borrowed coins are not negative (sdk.Coins never holds a negative amount)
                          - needed by the no-panic proof (accrued interest f*b - b >= 0 when f >= 1);
     4. 0 <= tsup s d     total supplied coins are not negative  - not needed for no-panic; sdk.Coins;
     5. 0 <= tres s d     total reserves are not negative         - not needed for no-panic; sdk.Coins.
   All five are preserved by every operation and by the begin blocker (proved below: no operation
   touches the stores of 1-2 except SetParams/the begin blocker; totals change by adding non-negative
   coins, by the clamped Decrement*Coins, or by the accrual, whose three amounts are checked
   non-negative by the model's sdk.NewCoin panics before they are added).

   Guards.
   - block guard [hard_goodB e b]: every oracle factor of the block is >= 1
       forall d < nd e, PREC <= nthZ (snd b) d.
     Discharged by: the factor is RelativePow(round(spy*1e18), elapsed) with spy = APYToSPY(1 + apy),
     apy = CalculateBorrowRate(...) >= 0 for validated interest-rate models (all four parameters
     non-negative, utilisation in [0,1]), so spy >= 1 and the factor >= 1 - PROVIDED APYToSPY does
     not return an error.  The C08 driver computes the factor with the implementation's own functions
     and checks this side condition on every executed begin block ([oracle_ok] of Model/Hard.v accepts
     the error marker -1, this guard does not).  See [hard_begin_block_refuted] below for what
     happens without the guard.  The block time is unconstrained (no monotonicity needed: AccrueInterest
     only tests elapsed = 0).
     (The guard is asked for every denom of the universe; only denoms with a market in the params or
     in the store are ever consulted.)
   - operation guard [hard_goodT o]: for SetParams ps the new money markets have a reserve factor
     in [0,1]: mk_wf (fun d => nth d ps None).  Discharged by Params.Validate -> MoneyMarkets.Validate
     -> MoneyMarket.Validate ("reserve factor must be between 0.0-1.0"), which the param-change
     proposal handler / k.SetParams' paramSubspace.SetParamSet runs (validateMoneyMarketParams).
     No guard on the other operations (message well-formedness, Msg*.ValidateBasic, is the model's own
     [msg_ok] test inside [step]).
   - no hypothesis on the environment.

   REFUTED without the block guard: [hard_begin_block_refuted] - with an oracle factor < 0 (= APYToSPY
   returned an error) the begin blocker panics from a state satisfying the invariant. *)
From Coq Require Import String.
From Kava Require Import Base.Prelude Model.World Model.WorldG Proofs.WorldG.
From Kava Require Import Base.Dec Model.Hard Proofs.Hard.
Local Open Scope Z_scope.

(** * the invariant *)
Definition tots (s : state) : Prop :=
  (forall x, 0 <= tbor s x) /\ (forall x, 0 <= tsup s x) /\ (forall x, 0 <= tres s x).

Definition hard_Inv (s : state) : Prop := mk_wf (mkts s) /\ mk_wf (params s) /\ tots s.

(* what an operation other than SetParams does to the parts of the state the invariant reads:
   both market stores are untouched and non-negative totals stay non-negative *)
Definition keeps (s s' : state) : Prop :=
  mkts s' = mkts s /\ params s' = params s /\ (tots s -> tots s').

Lemma keeps_refl s : keeps s s.
Proof. split; [reflexivity|]. split; [reflexivity|]. auto. Qed.
Lemma keeps_trans a b c : keeps a b -> keeps b c -> keeps a c.
Proof. intros (A1 & A2 & A3) (B1 & B2 & B3). split; [congruence|]. split; [congruence|]. auto. Qed.
Lemma keeps_eq s s' :
  mkts s' = mkts s -> params s' = params s -> tbor s' = tbor s -> tsup s' = tsup s -> tres s' = tres s ->
  keeps s s'.
Proof.
  intros H1 H2 H3 H4 H5. split; [exact H1|]. split; [exact H2|]. unfold tots. rewrite H3, H4, H5. auto.
Qed.
Lemma keeps_inv s s' : hard_Inv s -> keeps s s' -> hard_Inv s'.
Proof. intros (W1 & W2 & T) (K1 & K2 & K3). unfold hard_Inv. rewrite K1, K2. auto. Qed.

(** * frame lemmas *)
(* Decrement{Supplied,Borrowed}Coins: the clamped subtraction never produces a negative total *)
Lemma dec_clamp_nonneg t c : (forall x, 0 <= t x) -> forall x, 0 <= dec_clamp t c x.
Proof.
  intros H x. unfold dec_clamp. specialize (H x).
  destruct (Z.ltb_spec (t x) (c x)); [destruct (Z.ltb_spec 0 (t x)); lia|lia].
Qed.

Lemma bsend_keeps n s f t c s' : bsend n s f t c = Ok s' tt -> keeps s s'.
Proof. intros H. apply bsend_ok in H. destruct H as [_ ->]. apply keeps_eq; reflexivity. Qed.

Lemma dec_supplied_keeps e s c s' : dec_supplied e s c = Ok s' tt -> keeps s s'.
Proof.
  intros H. apply dec_supplied_ok in H. subst s'. split; [reflexivity|]. split; [reflexivity|].
  intros (T1 & T2 & T3). split; [exact T1|]. split; [|exact T3]. exact (dec_clamp_nonneg _ c T2).
Qed.

Lemma dec_borrowed_keeps e s c s' : dec_borrowed e s c = Ok s' tt -> keeps s s'.
Proof.
  intros H. apply dec_borrowed_ok in H. subst s'. split; [reflexivity|]. split; [reflexivity|].
  intros (T1 & T2 & T3). split; [|split; [exact T2|exact T3]]. exact (dec_clamp_nonneg _ c T1).
Qed.

Lemma sync_supply_keeps e s u s' : sync_supply e s u = Ok s' tt -> keeps s s'.
Proof.
  unfold sync_supply. destruct (dep s u) as [r|]; intros H.
  - inv_bind0 H. apply ret_ok in H. subst s'. apply keeps_eq; reflexivity.
  - apply ret_ok in H. subst s'. apply keeps_refl.
Qed.

Lemma sync_borrow_keeps e s u s' : sync_borrow e s u = Ok s' tt -> keeps s s'.
Proof.
  unfold sync_borrow. destruct (bor s u) as [r|]; intros H.
  - inv_bind0 H. apply ret_ok in H. subst s'. apply keeps_eq; reflexivity.
  - apply ret_ok in H. subst s'. apply keeps_refl.
Qed.

(** ** liquidation: SeizeDeposits / StartAuctions only send coins and decrement totals *)
Lemma start_auction_keeps e a macc bk dk lot bid s' b' d' :
  start_auction e a macc bk dk lot bid = Ok (s', b', d') tt -> keeps (a_s a) s'.
Proof.
  unfold start_auction. intros H.
  inv_bind H as u1 G1. inv_bind H as u2 G2. inv_bind H as u3 G3.
  inv_bind H as s1 E1. inv_bind H as s2 E2. inv_bind H as s3 E3. inv_bind H as u4 G4.
  apply ret_ok in H. inversion H; subst.
  eapply keeps_trans; [eapply bsend_keeps; eauto|].
  eapply keeps_trans; [eapply dec_supplied_keeps; eauto|]. eapply dec_borrowed_keeps; eauto.
Qed.

Lemma auction_body_keeps e ltv macc bk a dk a' :
  auction_body e ltv macc bk a dk = Ok a' tt -> keeps (a_s a) (a_s a').
Proof.
  unfold auction_body, auction_step. cbn [bind ret]. intros H.
  destruct (a_max a =? 0); [apply ret_ok in H; subst; apply keeps_refl|].
  destruct (a_max a <=? a_dv a dk).
  - inv_bind H as ls E1. destruct (dec_trunc_int ls =? 0); [apply ret_ok in H; subst; apply keeps_refl|].
    inv_bind H as x E2. destruct x as [[s1 b1] d1]. apply ret_ok in H. subst a'. cbn [a_s].
    eapply start_auction_keeps; eauto.
  - inv_bind H as bs E1.
    destruct ((dec_trunc_int bs =? 0) || (a_dep a dk =? 0)); [apply ret_ok in H; subst; apply keeps_refl|].
    inv_bind H as x E2. destruct x as [[s1 b1] d1]. inv_bind H as m E3. apply ret_ok in H. subst a'. cbn [a_s].
    eapply start_auction_keeps; eauto.
Qed.

Lemma borrow_body_keeps e ltv macc dkeys a bk a' :
  borrow_body e ltv macc dkeys a bk = Ok a' tt -> keeps (a_s a) (a_s a').
Proof.
  unfold borrow_body, borrow_step. cbn [bind ret]. intros H. inv_bind H as m E1.
  refine (fold_bind_inv (fun x => keeps (a_s a) (a_s x)) _ _ dkeys
            (auction_step_bind e ltv macc bk) _ _ _ H _).
  - intros a1 b a2 P G. eapply keeps_trans; [exact P|]. eapply auction_body_keeps; eauto.
  - cbn [a_s]. apply keeps_refl.
Qed.

Lemma return_body_keeps e b deps s dk s' : return_body e b deps s dk = Ok s' tt -> keeps s s'.
Proof.
  unfold return_body, return_step. cbn [bind ret]. destruct (0 <? deps dk); intros H.
  - eapply bsend_keeps; eauto.
  - apply ret_ok in H. subst. apply keeps_refl.
Qed.

Lemma start_auctions_keeps e s b bw aucdep dvals bvals ltv s' :
  start_auctions e s b bw aucdep dvals bvals ltv = Ok s' tt -> keeps s s'.
Proof.
  unfold start_auctions. intros H. inv_bind H as a E1.
  assert (A : keeps s (a_s a)).
  { refine (fold_bind_inv (fun x => keeps s (a_s x)) _ _ _ (borrow_step_bind e ltv (bal s (hacc e)) _) _ _ _ E1 _).
    - intros a1 bk a2 P G. eapply keeps_trans; [exact P|]. eapply borrow_body_keeps; eauto.
    - cbn [a_s]. apply keeps_refl. }
  refine (fold_bind_inv (fun x => keeps s x) _ _ _ (return_step_bind e b (a_dep a)) _ _ _ H A).
  intros s1 dk s2 P G. eapply keeps_trans; [exact P|]. eapply return_body_keeps; eauto.
Qed.

Lemma seize_keeps e s k b dp bw s' : seize e s k b dp bw = Ok s' tt -> keeps s s'.
Proof.
  unfold seize. intros H. inv_bind H as s1 E1. inv_bind H as u1 G1.
  assert (A : keeps s s1).
  { destruct (cempty (nd e) (keeper_reward s dp)); [apply ret_ok in E1; subst; apply keeps_refl|].
    inv_bind E1 as s0 E0. eapply keeps_trans; [eapply dec_supplied_keeps; eauto|eapply bsend_keeps; eauto]. }
  match type of H with (if ?c then _ else _) = _ => destruct c end.
  - apply ret_ok in H. subst. exact A.
  - eapply keeps_trans; [exact A|]. eapply start_auctions_keeps; eauto.
Qed.

(** ** the five messages *)
Lemma msg_ok_nonneg e c : msg_ok e c = true -> forall d, 0 <= of_list c d.
Proof.
  unfold msg_ok. intros H. apply andb_prop in H. destruct H as [H _].
  apply andb_prop in H. destruct H as [H _]. apply of_list_nonneg, H.
Qed.

Lemma deposit_keeps e s u c s' : (forall d, 0 <= c d) -> deposit e s u c = Ok s' tt -> keeps s s'.
Proof.
  intros Hc. unfold deposit. intros H.
  inv_bind H as u1 G1. inv_bind H as s1 E1. inv_bind H as u2 G2. inv_bind H as s2 E2. apply ret_ok in H.
  apply sync_supply_keeps in E1. apply bsend_keeps in E2.
  assert (K : keeps s s2).
  { eapply keeps_trans; [|exact E2]. eapply keeps_trans; [|exact E1]. apply keeps_eq; reflexivity. }
  subst s'. destruct K as (K1 & K2 & K3). split; [exact K1|]. split; [exact K2|].
  intros T. destruct (K3 T) as (T1 & T2 & T3). split; [exact T1|]. split; [|exact T3].
  intros x. cbn [tsup set_tsup set_dep]. unfold cadd. specialize (T2 x). specialize (Hc x). lia.
Qed.

Lemma withdraw_keeps e s u c s' : withdraw e s u c = Ok s' tt -> keeps s s'.
Proof.
  unfold withdraw. intros H.
  inv_bind H as u1 G1. inv_bind H as u2 G2. inv_bind H as u3 G3. inv_bind H as s1 E2. inv_bind H as s2 E3.
  destruct (dep s2 u) as [r|] eqn:Er; [|discriminate].
  inv_bind H as u4 G4. inv_bind H as u5 G5. inv_bind H as w E6. inv_bind H as u6 E7.
  inv_bind H as s3 E8. inv_bind H as ix E9.
  apply dec_supplied_keeps in H. apply bsend_keeps in E8.
  apply sync_borrow_keeps in E2. apply sync_supply_keeps in E3.
  eapply keeps_trans; [exact E2|]. eapply keeps_trans; [exact E3|]. eapply keeps_trans; [exact E8|].
  eapply keeps_trans; [|exact H]. apply keeps_eq; reflexivity.
Qed.

Lemma borrow_keeps e s u c s' : (forall d, 0 <= c d) -> borrow e s u c = Ok s' tt -> keeps s s'.
Proof.
  intros Hc. unfold borrow. intros H.
  inv_bind H as u1 G1. inv_bind H as u2 G2. inv_bind H as s1 E1. inv_bind H as s2 E2.
  inv_bind H as u3 G3. inv_bind H as s3 E3. apply ret_ok in H.
  apply sync_supply_keeps in E1. apply sync_borrow_keeps in E2. apply bsend_keeps in E3.
  assert (K : keeps s s3).
  { eapply keeps_trans; [|exact E3]. eapply keeps_trans; [|exact E2]. eapply keeps_trans; [|exact E1].
    apply keeps_eq; reflexivity. }
  subst s'. destruct K as (K1 & K2 & K3). split; [exact K1|]. split; [exact K2|].
  intros T. destruct (K3 T) as (T1 & T2 & T3). split; [|split; [exact T2|exact T3]].
  intros x. cbn [tbor set_tbor set_bor]. unfold cadd. specialize (T1 x). specialize (Hc x). lia.
Qed.

Lemma repay_keeps e s a o c s' : repay e s a o c = Ok s' tt -> keeps s s'.
Proof.
  unfold repay. intros H.
  inv_bind H as u1 G1. inv_bind H as u2 G2. inv_bind H as s2 E2.
  destruct (bor s2 o) as [r|] eqn:Er; [|discriminate].
  inv_bind H as u3 G3. inv_bind H as u4 G4. inv_bind H as u5 G5. inv_bind H as u6 G6.
  inv_bind H as s3 E3. inv_bind H as ix E4. inv_bind H as u7 G7.
  apply dec_borrowed_keeps in H. apply bsend_keeps in E3. apply sync_borrow_keeps in E2.
  eapply keeps_trans; [exact E2|]. eapply keeps_trans; [exact E3|].
  eapply keeps_trans; [|exact H]. apply keeps_eq; reflexivity.
Qed.

Lemma liquidate_keeps e s k b s' : liquidate e s k b = Ok s' tt -> keeps s s'.
Proof.
  unfold liquidate. intros H.
  inv_bind H as u1 G1. inv_bind H as u2 G2. inv_bind H as u3 G3. inv_bind H as u4 G4.
  inv_bind H as s1 E1. inv_bind H as s2 E2.
  destruct (dep s2 b) as [dp|] eqn:Ed; [|discriminate].
  destruct (bor s2 b) as [bw|] eqn:Eb; [|discriminate].
  inv_bind H as w E3. inv_bind H as u5 G5. inv_bind H as s3 E4. apply ret_ok in H. subst s'.
  apply sync_borrow_keeps in E1. apply sync_supply_keeps in E2. apply seize_keeps in E4.
  eapply keeps_trans; [exact E1|]. eapply keeps_trans; [exact E2|]. eapply keeps_trans; [exact E4|].
  apply keeps_eq; reflexivity.
Qed.

(** * the begin blocker *)
(* AccrueInterest: the three amounts added to the totals have passed the sdk.NewCoin checks *)
Lemma accrue_tots e s d t f s' : accrue e s d t f = Ok s' tt -> tots s -> tots s'.
Proof.
  unfold accrue. intros H T.
  destruct (prev s d) as [p|]; [|apply ret_ok in H; subst; exact T].
  destruct (t - p =? 0); [apply ret_ok in H; subst; exact T|].
  destruct (tbor s d =? 0); [apply ret_ok in H; subst; exact T|].
  cbn [mkts set_sfac set_bfac] in H. destruct (mkts s d) as [m|]; [|discriminate].
  inv_bind H as apy E1. inv_bind H as u1 G1.
  match type of H with (if ?c then _ else _) = _ => destruct c end.
  - apply ret_ok in H. subst s'. exact T.
  - inv_bind H as u2 G2. inv_bind H as u3 G3. inv_bind H as u4 G4. apply ret_ok in H. subst s'.
    apply panic_unless_ok in G2, G3, G4. apply Z.leb_le in G2, G3, G4.
    destruct T as (T1 & T2 & T3).
    unfold tots.
    cbn [bal price dep bor sfac bfac prev tsup tbor tres params mkts
         set_prev set_tres set_tsup set_tbor set_sfac set_bfac] in G2, G3, G4 |- *.
    unfold cadd, csingle.
    split; [|split]; intros x; [specialize (T1 x)|specialize (T2 x)|specialize (T3 x)];
      destruct (Nat.eqb x d); lia.
Qed.

(* Proofs.Hard.begin_block_no_panic, with the post-state *)
Lemma begin_block_total e s t fs :
  bb_ok s -> (forall d, (d < nd e)%nat -> PREC <= nthZ fs d) ->
  exists s', begin_block e s t fs = Ok s' tt /\ bb_ok s'.
Proof.
  intros B0 Hf. unfold begin_block.
  assert (Hq : forall b, In b (seq 0 (nd e)) -> PREC <= nthZ fs b) by (intros b Hin; apply in_seq in Hin; apply Hf; lia).
  destruct (fold_no_panic _ _ (fun d => PREC <= nthZ fs d) (seq 0 (nd e)) (apply_param_market_bind e t fs)
              (fun s0 b Hb0 Hs0 => apply_param_market_no_panic e t fs s0 b Hs0 Hb0) Hq s B0) as (s1 & E1 & B1).
  rewrite E1.
  destruct (fold_no_panic _ _ (fun d => PREC <= nthZ fs d) (seq 0 (nd e)) (drop_removed_market_bind e t fs)
              (fun s0 b Hb0 Hs0 => drop_removed_market_no_panic e t fs s0 b Hs0 Hb0) Hq s1 B1) as (s2 & E2 & B2).
  unfold ret in E2. rewrite E2. eexists; split; [reflexivity|exact B2].
Qed.

(** * the component *)
Definition hard_goodB (e : env) (b : Z * list Z) : Prop :=
  forall d, (d < nd e)%nat -> PREC <= nthZ (snd b) d.

Definition hard_goodT (o : op) : Prop :=
  match o with
  | SetParams ps => mk_wf (fun d => nth d ps None)
  | _ => True
  end.

(* the block hook is not a transaction *)
Definition hard_tx (e : env) (s : state) (o : op) : outcome state unit :=
  match o with BeginBlock _ _ => Err | _ => step e s o end.

Definition hard_M (e : env) : module :=
  mkModule ["hard"%string] state (Z * list Z) op
           (fun s b => begin_block e s (fst b) (snd b)) (hard_tx e) no_blocker
           hard_Inv (fun _ b => hard_goodB e b) (fun _ o => hard_goodT o).

Lemma hard_bb_ok e s b : hard_Inv s -> hard_goodB e b ->
  exists s', begin_block e s (fst b) (snd b) = Ok s' tt /\ hard_Inv s'.
Proof.
  intros (W1 & W2 & T1 & T2 & T3) GB.
  destruct (begin_block_total e s (fst b) (snd b) (conj W1 (conj W2 T1)) GB) as (s' & E & (V1 & V2 & _)).
  exists s'. split; [exact E|]. split; [exact V1|]. split; [exact V2|].
  refine (begin_block_inv tots e s (fst b) (snd b) s' _ _ E (conj T1 (conj T2 T3))).
  - intros s0 d s1 _ A P. eapply accrue_tots; eauto.
  - intros s0 m P. exact P.
Qed.

Lemma hard_tx_ok e s o s' : hard_Inv s -> hard_goodT o -> hard_tx e s o = Ok s' tt -> hard_Inv s'.
Proof.
  intros HI G E.
  destruct o as [u c|u c|u c|a b c|k b|d p|u d x|t fs|ps]; unfold hard_tx, step in E.
  - destruct (Nat.ltb u (nu e) && msg_ok e c) eqn:C; [|discriminate].
    apply andb_prop in C. destruct C as [_ C].
    eapply keeps_inv; [exact HI|]. eapply deposit_keeps; [|exact E]. apply (msg_ok_nonneg e), C.
  - destruct (Nat.ltb u (nu e) && msg_ok e c); [|discriminate].
    eapply keeps_inv; [exact HI|]. eapply withdraw_keeps; exact E.
  - destruct (Nat.ltb u (nu e) && msg_ok e c) eqn:C; [|discriminate].
    apply andb_prop in C. destruct C as [_ C].
    eapply keeps_inv; [exact HI|]. eapply borrow_keeps; [|exact E]. apply (msg_ok_nonneg e), C.
  - destruct (Nat.ltb a (nu e) && Nat.ltb b (nu e) && msg_ok e c); [|discriminate].
    eapply keeps_inv; [exact HI|]. eapply repay_keeps; exact E.
  - destruct (Nat.ltb k (nu e) && Nat.ltb b (nu e)); [|discriminate].
    eapply keeps_inv; [exact HI|]. eapply liquidate_keeps; exact E.
  - destruct (Nat.ltb d (nd e) && (0 <=? p)); [|discriminate].
    apply ret_ok in E. subst s'. eapply keeps_inv; [exact HI|]. apply keeps_eq; reflexivity.
  - destruct (Nat.ltb u (nu e) && Nat.ltb d (nd e) && (0 <=? x)); [|discriminate].
    eapply keeps_inv; [exact HI|]. eapply bsend_keeps; exact E.
  - discriminate.
  - apply ret_ok in E. subst s'. destruct HI as (W1 & W2 & T).
    split; [exact W1|]. split; [exact G|exact T].
Qed.

Lemma hard_M_ok e : module_ok (hard_M e).
Proof.
  constructor; cbn [m_S m_B m_O m_bb m_tx m_eb m_Inv m_goodB m_goodT hard_M].
  - intros s b HI GB. exact (hard_bb_ok e s b HI GB).
  - intros s o s' u HI G E. destruct u. exact (hard_tx_ok e s o s' HI G E).
  - intros s b HI. exists s. split; [reflexivity|exact HI].
Qed.

(** * the guards do not depend on the state: list form of [good_blocks] *)
Lemma good_txs_hard e os : Forall hard_goodT os -> forall s, good_txs (hard_M e) s os.
Proof.
  induction 1 as [|o os Ho _ IH]; intros s; cbn [good_txs]; [exact I|].
  split; [intros _ _ _; exact Ho|apply IH].
Qed.

Definition hard_good_block (e : env) (blk : (Z * list Z) * list op) : Prop :=
  hard_goodB e (fst blk) /\ Forall hard_goodT (snd blk).

Lemma good_blocks_hard e blks : Forall (hard_good_block e) blks -> forall s, good_blocks (hard_M e) s blks.
Proof.
  induction 1 as [|blk r [HB HT] _ IH]; intros s; cbn [good_blocks]; [exact I|].
  split; [exact HB|]. split; [intros s1 _; apply good_txs_hard, HT|intros s2 _; apply IH].
Qed.

(* x/hard never halts the chain and keeps its invariant at every height, for every sequence of
   blocks whose oracle factors are >= 1 and whose parameter changes are valid *)
Theorem hard_never_halts e blks s :
  hard_Inv s -> Forall (hard_good_block e) blks ->
  exists s', run_blocksG (hard_M e) s blks = Some s' /\ hard_Inv s'.
Proof.
  intros HI G. exact (module_never_halts _ (hard_M_ok e) blks s HI (good_blocks_hard e blks G s)).
Qed.

(** * decidable forms of the guards (for closed inputs) *)
Definition mk_wf_b (l : list (option market)) : bool :=
  forallb (fun o => match o with
                    | Some m => (0 <=? m_reserve m) && (m_reserve m <=? PREC)
                    | None => true end) l.

Lemma mk_wf_nthO l : mk_wf_b l = true -> mk_wf (nthO l).
Proof.
  unfold mk_wf_b, mk_wf, nthO. intros H d m E.
  assert (HIn : In (Some m) l).
  { destruct (nth_in_or_default d l None) as [X|X]; [rewrite E in X; exact X|rewrite E in X; discriminate]. }
  rewrite forallb_forall in H. specialize (H _ HIn). cbv beta iota in H.
  apply andb_prop in H. destruct H as [A B]. apply Z.leb_le in A, B. lia.
Qed.

Lemma hard_goodT_setparams ps : mk_wf_b ps = true -> hard_goodT (SetParams ps).
Proof. intros H. exact (mk_wf_nthO ps H). Qed.

Definition hard_goodB_b (e : env) (b : Z * list Z) : bool :=
  forallb (fun d => PREC <=? nthZ (snd b) d) (seq 0 (nd e)).

Lemma hard_goodB_b_ok e b : hard_goodB_b e b = true -> hard_goodB e b.
Proof.
  unfold hard_goodB_b, hard_goodB. rewrite forallb_forall. intros H d Hd.
  apply Z.leb_le, H, in_seq. lia.
Qed.

(** * without the block guard the begin blocker can halt the chain *)
(* One money market, one unit borrowed, one second elapsed, and the oracle reports an APYToSPY error
   (factor -1): AccrueInterest returns the error and ApplyInterestRateUpdates panics.
   On the Go side the error is produced by sdk.Dec.ApproxRoot inside APYToSPY when 1 + borrowRateApy is
   large (keeper/interest.go: "any APY 179 or greater will cause an out-of-bounds error"); the
   interest-rate model's BaseMultiplier and JumpMultiplier have no upper bound in
   InterestRateModel.Validate, so such a rate is reachable with parameters that validation accepts
   Checked on the real functions: NewInterestRateModel(0.05, 1000, 0.8, 5).Validate() = nil;
   CalculateBorrowRate(that model, cash 100, borrows 900, reserves 0) = 800.55;
   APYToSPY(1 + 800.55) = error "out of bounds" (already APYToSPY(178) errors, APYToSPY(100) does not). *)
Definition rf_env : env := mkEnv 1 1 0.
Definition rf_mkt : market := mkMarket 1 0 false 0 0 0 0 0 0 0.
Definition rf_mm : nat -> option market := fun d => match d with O => Some rf_mkt | _ => None end.
Definition rf_s : state :=
  mkState (fun _ _ => 0) (fun _ => 0) (fun _ => None) (fun _ => None) (fun _ => None) (fun _ => None)
          (fun d => match d with O => Some 0 | _ => None end)
          czero (fun d => match d with O => 1 | _ => 0 end) czero rf_mm rf_mm.

Lemma rf_s_inv : hard_Inv rf_s.
Proof.
  assert (W : mk_wf rf_mm).
  { intros d m. destruct d; cbn [rf_mm]; intros E; [|discriminate].
    inversion E; subst m. cbn [rf_mkt m_reserve]. unfold PREC. lia. }
  split; [exact W|]. split; [exact W|].
  split; [|split]; intros x; cbn [rf_s tbor tsup tres]; unfold czero; [destruct x|..]; lia.
Qed.

Lemma hard_begin_block_refuted :
  exists e s b, hard_Inv s /\ m_bb (hard_M e) s b = Panic.
Proof. exists rf_env, rf_s, (1, [-1]). split; [exact rf_s_inv|]. vm_compute. reflexivity. Qed.

(** * non-vacuity *)
(* environment and initial state of the first witness history of Properties/C08.v (wa_env, wa_init):
   five denoms (four with a money market), four users *)
Definition hw_env : env := mk_env 5 4 10000000000000000000.
Definition hw_mms : list (option market) :=
  [Some (mkMarket 100000000 800000000000000000 false 0 25000000000000000 10000000000000000 50000000000000000 2000000000000000000 800000000000000000 500000000000000000);
   Some (mkMarket 100000000 600000000000000000 false 0 25000000000000000 0 50000000000000000 100000000000000000 800000000000000000 5000000000000000000);
   Some (mkMarket 1000000 600000000000000000 false 0 500000000000000000 50000000000000000 800000000000000000 2000000000000000000 800000000000000000 10000000000000000000);
   Some (mkMarket 1000000000000000000 750000000000000000 false 0 50000000000000000 0 500000000000000000 1000000000000000000 800000000000000000 5000000000000000000);
   None].
Definition hw_init : state :=
  mk_state [[100000000000000000; 100000000000000000; 1000000000000000; 1000000000000000000000000000; 1000000000000000];
            [100000000000000000; 100000000000000000; 1000000000000000; 1000000000000000000000000000; 1000000000000000];
            [100000000000000000; 100000000000000000; 1000000000000000; 1000000000000000000000000000; 1000000000000000];
            [4000000000; 4000000000; 40000000; 40000000000000000000; 40000000]; [0;0;0;0;0]; [0;0;0;0;0]]
           [1083581890000704538815; 1712000000391949144; 333333333333333333; 1746000000000245087390; 0]
           [Some 1704067200; Some 1704067200; Some 1704067200; Some 1704067200; None]
           hw_mms.

(* governance halves the reserve factor of denom 2 and removes the market of denom 1 *)
Definition hw_mms2 : list (option market) :=
  [Some (mkMarket 100000000 800000000000000000 false 0 25000000000000000 10000000000000000 50000000000000000 2000000000000000000 800000000000000000 500000000000000000);
   None;
   Some (mkMarket 1000000 600000000000000000 false 0 250000000000000000 50000000000000000 800000000000000000 2000000000000000000 800000000000000000 10000000000000000000);
   Some (mkMarket 1000000000000000000 750000000000000000 false 0 50000000000000000 0 500000000000000000 1000000000000000000 800000000000000000 5000000000000000000);
   None].

(* the history wa_prefix ++ [wa_block] of Properties/C08.v cut into blocks (the recorded oracle
   factors, completed with 1.0 for the denom without a market), followed by a parameter change and
   the block that applies it *)
Definition hw_blocks : list ((Z * list Z) * list op) :=
  [ ((1704067200, [PREC; PREC; PREC; PREC; PREC]),
     [Deposit 0%nat [(2%nat, 3864000000)];
      Deposit 1%nat [(0%nat, 149319586)];
      Deposit 2%nat [(0%nat, 9228651)];
      Borrow 2%nat [(2%nat, 63000000)];
      Borrow 1%nat [(2%nat, 3279000000)]]);
    ((1752710400, [PREC; PREC; 8646183524487635464; PREC; PREC]),
     [Liquidate 0%nat 1%nat]);
    ((1752796800, [PREC; PREC; 1004630961015383585; PREC; PREC]),
     [SetParams hw_mms2]);
    ((1752796806, [PREC; PREC; 1000000050000000000; PREC; PREC]),
     []) ].

Lemma hw_init_inv : hard_Inv hw_init.
Proof.
  assert (W : mk_wf (nthO hw_mms)) by (apply mk_wf_nthO; vm_compute; reflexivity).
  split; [exact W|]. split; [exact W|].
  split; [|split]; intros x; cbn [hw_init mk_state tbor tsup tres]; unfold czero; lia.
Qed.

Lemma hw_blocks_good : Forall (hard_good_block hw_env) hw_blocks.
Proof.
  repeat (apply Forall_cons; [split; [apply hard_goodB_b_ok; vm_compute; reflexivity|]|]);
    try apply Forall_nil.
  - repeat (apply Forall_cons; [exact I|]). apply Forall_nil.
  - repeat (apply Forall_cons; [exact I|]). apply Forall_nil.
  - apply Forall_cons; [apply hard_goodT_setparams; vm_compute; reflexivity|apply Forall_nil].
Qed.

(* the four blocks execute (every begin blocker completes), the invariant holds at the end;
   interest has accrued on denom 2 in the second, third and fourth block (after the first block the
   totals of denom 2 are 3342000000 borrowed / 0 reserves / 3864000000 supplied; the liquidation of the
   second block takes the debt down to 544709562, the last two accruals bring it to 547232117), the
   borrower has been liquidated, and the last begin blocker has copied the new markets into the store *)
Example hard_nonvacuous :
  hard_Inv hw_init /\ good_blocks (hard_M hw_env) hw_init hw_blocks /\
  match run_blocksG (hard_M hw_env) hw_init hw_blocks with
  | Some s' =>
      hard_Inv s' /\
      (tbor s' 2%nat =? 547232117) && (tres s' 2%nat =? 12778033946) && (tsup s' 2%nat =? 16642033947)
      && (match bor s' 1%nat with None => true | Some _ => false end)
      && (match mkts s' 1%nat with None => true | Some _ => false end)
      && (match mkts s' 2%nat with Some m => m_reserve m =? 250000000000000000 | None => false end) = true
  | None => False
  end.
Proof.
  pose proof hw_init_inv as I0.
  pose proof (good_blocks_hard hw_env hw_blocks hw_blocks_good hw_init) as G.
  split; [exact I0|]. split; [exact G|].
  destruct (module_never_halts _ (hard_M_ok hw_env) hw_blocks hw_init I0 G) as (s' & E & I').
  assert (X : match run_blocksG (hard_M hw_env) hw_init hw_blocks with
              | Some s' =>
                  (tbor s' 2%nat =? 547232117) && (tres s' 2%nat =? 12778033946) && (tsup s' 2%nat =? 16642033947)
                  && (match bor s' 1%nat with None => true | Some _ => false end)
                  && (match mkts s' 1%nat with None => true | Some _ => false end)
                  && (match mkts s' 2%nat with Some m => m_reserve m =? 250000000000000000 | None => false end)
              | None => false
              end = true) by (vm_compute; reflexivity).
  rewrite E in X |- *. split; [exact I'|exact X].
Qed.

Print Assumptions hard_M_ok.
Print Assumptions hard_never_halts.
Print Assumptions hard_begin_block_refuted.
Print Assumptions hard_nonvacuous.
