From Kava Require Import Base.Prelude Model.World.

Section Machine.
  Context {S B O : Type}.
  Variable begin_block : S -> B -> outcome S unit.
  Variable tx : S -> O -> outcome S unit.
  Variable Inv : S -> Prop.
  (* from a state satisfying the invariant the begin blocker completes and re-establishes it *)
  Hypothesis bb_ok : forall s b, Inv s -> exists s', begin_block s b = Ok s' tt /\ Inv s'.
  (* accepted transactions preserve the invariant *)
  Hypothesis tx_ok : forall s o s' u, Inv s -> tx s o = Ok s' u -> Inv s'.

  Lemma txs_inv os : forall s, Inv s -> Inv (fold_left (tx' tx) os s).
  Proof.
    induction os as [|o os IH]; intros s H; cbn [fold_left]; [exact H|].
    apply IH. unfold tx'. destruct (tx s o) as [s' u| |] eqn:E; auto. eapply tx_ok; eauto.
  Qed.

  Lemma block_no_halt s blk : Inv s -> exists s', run_block begin_block tx s blk = Some s' /\ Inv s'.
  Proof.
    intros H. unfold run_block. destruct (bb_ok s (fst blk) H) as (s1 & E & H1). rewrite E.
    eexists; split; [reflexivity|]. apply txs_inv; exact H1.
  Qed.

  Theorem blocks_no_halt blks : forall s, Inv s ->
    exists s', run_blocks begin_block tx s blks = Some s' /\ Inv s'.
  Proof.
    induction blks as [|b r IH]; intros s H; cbn [run_blocks].
    - eexists; split; [reflexivity|exact H].
    - destruct (block_no_halt s b H) as (s1 & E & H1). rewrite E. apply IH; exact H1.
  Qed.
End Machine.

Section Product.
  Context {S1 S2 B O1 O2 : Type}.
  Variable bb1 : S1 -> B -> outcome S1 unit.
  Variable bb2 : S2 -> B -> outcome S2 unit.
  Variable tx1 : S1 -> O1 -> outcome S1 unit.
  Variable tx2 : S2 -> O2 -> outcome S2 unit.
  Variable Inv1 : S1 -> Prop.
  Variable Inv2 : S2 -> Prop.
  Hypothesis bb1_ok : forall s b, Inv1 s -> exists s', bb1 s b = Ok s' tt /\ Inv1 s'.
  Hypothesis bb2_ok : forall s b, Inv2 s -> exists s', bb2 s b = Ok s' tt /\ Inv2 s'.
  Hypothesis tx1_ok : forall s o s' u, Inv1 s -> tx1 s o = Ok s' u -> Inv1 s'.
  Hypothesis tx2_ok : forall s o s' u, Inv2 s -> tx2 s o = Ok s' u -> Inv2 s'.

  Definition InvP (s : S1 * S2) : Prop := Inv1 (fst s) /\ Inv2 (snd s).

  Lemma bb_prod_ok s b : InvP s -> exists s', bb_prod bb1 bb2 s b = Ok s' tt /\ InvP s'.
  Proof.
    intros [H1 H2]. unfold bb_prod.
    destruct (bb1_ok _ b H1) as (s1 & E1 & I1). destruct (bb2_ok _ b H2) as (s2 & E2 & I2).
    rewrite E1, E2. eexists; split; [reflexivity|]. split; assumption.
  Qed.

  Lemma tx_prod_ok s o s' u : InvP s -> tx_prod tx1 tx2 s o = Ok s' u -> InvP s'.
  Proof.
    intros [H1 H2]. unfold tx_prod. destruct o as [o1|o2].
    - destruct (tx1 (fst s) o1) as [s1 u1| |] eqn:E; try discriminate.
      intros H; injection H as <- _. split; cbn; [eapply tx1_ok; eauto|exact H2].
    - destruct (tx2 (snd s) o2) as [s2 u2| |] eqn:E; try discriminate.
      intros H; injection H as <- _. split; cbn; [exact H1|eapply tx2_ok; eauto].
  Qed.

  Theorem product_no_halt blks s : InvP s ->
    exists s', run_blocks (bb_prod bb1 bb2) (tx_prod tx1 tx2) s blks = Some s' /\ InvP s'.
  Proof.
    apply blocks_no_halt.
    - intros s0 b H. apply bb_prod_ok; exact H.
    - intros s0 o s1 u H E. eapply tx_prod_ok; eauto.
  Qed.
End Product.
