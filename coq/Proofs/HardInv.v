(* The state invariant of Model/Hard.v and its preservation by every operation: index soundness
   of every stored deposit and borrow with respect to the global interest factors, factors >= 1,
   non-negative amounts and totals.  Lemmas only; the property theorems are in Properties/C08.v. *)
From Kava Require Import Base.Prelude Base.Dec Model.Hard Proofs.Hard.
Local Open Scope Z_scope.

(** ** index lists *)
Lemma idx_get_in d l x : idx_get d l = Some x -> In (d, x) l.
Proof.
  induction l as [|[d' y] l IH]; cbn; [discriminate|].
  destruct (Nat.eqb_spec d' d) as [->|Hne]; intros H.
  - inversion H; subst. left; reflexivity.
  - right. apply IH, H.
Qed.

Lemma idx_set_in d v l p : In p (idx_set d v l) -> p = (d, v) \/ In p l.
Proof.
  induction l as [|[d' y] l IH]; cbn.
  - intros [<-|[]]. left; reflexivity.
  - destruct (Nat.eqb_spec d' d) as [->|Hne]; cbn.
    + intros [<-|H]; [left; reflexivity|right; right; exact H].
    + intros [<-|H]; [right; left; reflexivity|]. destruct (IH H) as [->|H']; [left; reflexivity|right; right; exact H'].
Qed.

Lemma idx_get_set_same d v l : idx_get d (idx_set d v l) = Some v.
Proof.
  induction l as [|[d' y] l IH]; cbn.
  - rewrite Nat.eqb_refl. reflexivity.
  - destruct (Nat.eqb_spec d' d) as [->|Hne]; cbn.
    + rewrite Nat.eqb_refl. reflexivity.
    + destruct (Nat.eqb_spec d' d); [contradiction|exact IH].
Qed.

Lemma idx_get_set_other d d' v l : d' <> d -> idx_get d' (idx_set d v l) = idx_get d' l.
Proof.
  intros Hd. induction l as [|[d0 y] l IH]; cbn.
  - destruct (Nat.eqb_spec d d'); [congruence|reflexivity].
  - destruct (Nat.eqb_spec d0 d) as [->|Hne]; cbn.
    + destruct (Nat.eqb_spec d d'); [congruence|reflexivity].
    + destruct (Nat.eqb_spec d0 d'); [reflexivity|exact IH].
Qed.

Lemma idx_get_set_some d d' v l : idx_get d' l <> None -> idx_get d' (idx_set d v l) <> None.
Proof.
  intros H. destruct (Nat.eq_dec d' d) as [->|Hne].
  - rewrite idx_get_set_same. discriminate.
  - rewrite idx_get_set_other by assumption. exact H.
Qed.

Lemma idx_remove_in d l l' p : idx_remove d l = Some l' -> In p l' -> In p l.
Proof.
  revert l'. induction l as [|[d' y] l IH]; cbn; intros l' H; [discriminate|].
  destruct (Nat.eqb_spec d' d) as [->|Hne].
  - inversion H; subst. intros Hin. right; exact Hin.
  - destruct (idx_remove d l) as [r'|]; [|discriminate]. inversion H; subst.
    intros [<-|Hin]; [left; reflexivity|right; apply (IH r' eq_refl Hin)].
Qed.

Lemma idx_get_remove_other d d' l l' : idx_remove d l = Some l' -> d' <> d -> idx_get d' l' = idx_get d' l.
Proof.
  revert l'. induction l as [|[d0 y] l IH]; cbn; intros l' H Hd; [discriminate|].
  destruct (Nat.eqb_spec d0 d) as [->|Hne].
  - inversion H; subst. destruct (Nat.eqb_spec d d'); [congruence|reflexivity].
  - destruct (idx_remove d l) as [r'|]; [|discriminate]. inversion H; subst. cbn.
    destruct (Nat.eqb_spec d0 d'); [reflexivity|apply IH; [reflexivity|assumption]].
Qed.

Lemma remove_idxs_spec ds : forall ix ix', remove_idxs ds ix = Some ix' ->
  (forall p, In p ix' -> In p ix) /\ (forall d, ~ In d ds -> idx_get d ix' = idx_get d ix).
Proof.
  unfold remove_idxs. induction ds as [|d ds IH]; cbn [fold_left]; intros ix ix' H.
  - inversion H; subst. split; auto.
  - destruct (idx_remove d ix) as [ix1|] eqn:E.
    + destruct (IH _ _ H) as [A B]. split.
      * intros p Hp. eapply idx_remove_in; eauto.
      * intros d' Hd'. rewrite B by (intros Hx; apply Hd'; right; exact Hx).
        eapply idx_get_remove_other; eauto. intros ->. apply Hd'. left; reflexivity.
    + exfalso. clear -H. induction ds as [|d0 ds IH]; cbn in H; [discriminate|auto].
Qed.

(** ** the invariant *)
Definition fac_ge1 (gf : nat -> option Z) : Prop := forall d f, gf d = Some f -> PREC <= f.

(* every index entry of a record is at least one and at most the global factor of its denom (which
   exists); every coin of the record has an index entry; amounts are non-negative *)
Definition entries_sound (gf : nat -> option Z) (ix : index) : Prop :=
  forall d uf, In (d, uf) ix -> PREC <= uf /\ exists F, gf d = Some F /\ uf <= F.

Definition rec_sound (n : nat) (gf : nat -> option Z) (r : urec) : Prop :=
  (forall d, 0 <= amt r d) /\
  (forall d, (d < n)%nat -> amt r d <> 0 -> idx_get d (idx r) <> None) /\
  entries_sound gf (idx r).

Definition recs_sound (n : nat) (gf : nat -> option Z) (tbl : nat -> option urec) : Prop :=
  forall u r, tbl u = Some r -> rec_sound n gf r.

Record HInv (e : env) (s : state) : Prop := mkHInv {
  hi_sfac : fac_ge1 (sfac s);
  hi_bfac : fac_ge1 (bfac s);
  hi_dep : recs_sound (nd e) (sfac s) (dep s);
  hi_bor : recs_sound (nd e) (bfac s) (bor s);
  hi_tsup : forall d, 0 <= tsup s d;
  hi_tbor : forall d, 0 <= tbor s d;
  hi_tres : forall d, 0 <= tres s d
}.

Lemma fac_ge1_nonneg gf : fac_ge1 gf -> fac_nonneg gf.
Proof. intros H d f E. specialize (H d f E). unfold PREC in H. lia. Qed.

Lemma entries_sound_mono gf gf' ix : fac_mono gf gf' -> entries_sound gf ix -> entries_sound gf' ix.
Proof.
  intros M H d uf Hin. destruct (H d uf Hin) as (H1 & F & HF & Hle).
  destruct (M d F HF) as (F' & HF' & Hle'). split; [assumption|]. exists F'. split; [assumption|lia].
Qed.

Lemma rec_sound_mono n gf gf' r : fac_mono gf gf' -> rec_sound n gf r -> rec_sound n gf' r.
Proof. intros M (A & B & C). split; [assumption|]. split; [assumption|]. eapply entries_sound_mono; eauto. Qed.

Lemma recs_sound_mono n gf gf' tbl : fac_mono gf gf' -> recs_sound n gf tbl -> recs_sound n gf' tbl.
Proof. intros M H u r E. eapply rec_sound_mono; eauto. Qed.

(* the hypotheses of the conditional theorems of Proofs/Hard.v follow from the invariant *)
Lemma rec_sound_idx_sound n gf r : rec_sound n gf r -> idx_sound gf r.
Proof.
  intros (_ & _ & C) d uf E. apply idx_get_in in E. destruct (C d uf E) as (H1 & F & HF & _).
  split; [unfold PREC in H1; lia|congruence].
Qed.

Lemma recs_sound_upd n gf tbl u o :
  recs_sound n gf tbl -> (forall r, o = Some r -> rec_sound n gf r) -> recs_sound n gf (upd tbl u o).
Proof.
  intros H Ho v r. unfold upd. destruct (Nat.eqb v u); [apply Ho|apply H].
Qed.

(* the invariant depends on the state only through seven components *)
Lemma HInv_ext e s s' :
  sfac s' = sfac s -> bfac s' = bfac s -> dep s' = dep s -> bor s' = bor s ->
  tsup s' = tsup s -> tbor s' = tbor s -> tres s' = tres s -> HInv e s -> HInv e s'.
Proof.
  intros E1 E2 E3 E4 E5 E6 E7 [H1 H2 H3 H4 H5 H6 H7].
  constructor; rewrite ?E1, ?E2, ?E3, ?E4, ?E5, ?E6, ?E7; assumption.
Qed.

(** ** interest sync of one record *)
Definition sync_acc_ok (gf : nat -> option Z) (r : urec) (x : coins * index) : Prop :=
  (forall d, 0 <= fst x d) /\
  (forall d, idx_get d (idx r) <> None -> idx_get d (snd x) <> None) /\
  entries_sound gf (snd x).

(* common shape of one step of SyncSupplyInterest / SyncBorrowInterest *)
Definition sync_step_shape (gf : nat -> option Z) (g : coins * index -> nat -> res (coins * index)) : Prop :=
  forall tot ix d tot' ix', g (tot, ix) d = Ok (tot', ix') tt ->
    ix' = idx_set d (fac0 gf d) ix /\
    (tot' = tot \/ exists i, 0 <= i /\ tot' = upd tot d i).

Lemma sync_sup_coin_bind sf a acc d :
  sync_sup_coin sf a acc d = bind acc (fun x => sync_sup_coin sf a (ret x) d).
Proof. destruct acc as [x []| |]; reflexivity. Qed.
Lemma sync_bor_coin_bind bf a acc d :
  sync_bor_coin bf a acc d = bind acc (fun x => sync_bor_coin bf a (ret x) d).
Proof. destruct acc as [x []| |]; reflexivity. Qed.

Lemma sync_sup_coin_shape sf a : sync_step_shape sf (fun x d => sync_sup_coin sf a (ret x) d).
Proof.
  intros tot ix d tot' ix'. unfold sync_sup_coin. cbn [bind ret].
  destruct (idx_get d ix) as [uf|].
  - destruct (uf =? 0); [discriminate|]. intros H. apply ret_ok in H. inversion H; subst.
    split; [reflexivity|]. destruct (Z.ltb_spec 0 (sup_interest (a d) (fac0 sf d) uf)) as [Hpos|Hneg].
    + right. eexists. split; [|reflexivity]. lia.
    + left; reflexivity.
  - intros H. apply ret_ok in H. inversion H; subst. split; [reflexivity|left; reflexivity].
Qed.

Lemma sync_bor_coin_shape bf a : sync_step_shape bf (fun x d => sync_bor_coin bf a (ret x) d).
Proof.
  intros tot ix d tot' ix'. unfold sync_bor_coin. cbn [bind ret].
  destruct (idx_get d ix) as [uf|].
  - destruct (uf =? 0); [discriminate|].
    destruct (Z.ltb_spec (bor_interest (a d) (fac0 bf d) uf) 0) as [Hneg|Hpos]; [discriminate|].
    intros H. apply ret_ok in H. inversion H; subst.
    split; [reflexivity|]. right. eexists. split; [|reflexivity]. lia.
  - intros H. apply ret_ok in H. inversion H; subst. split; [reflexivity|left; reflexivity].
Qed.

Lemma sync_fold_sound n gf r (f : res (coins * index) -> nat -> res (coins * index)) g :
  (forall acc b, f acc b = bind acc (fun a => g a b)) ->
  sync_step_shape gf g ->
  fac_ge1 gf -> rec_sound n gf r ->
  forall x, fold_left f (denoms n (amt r)) (ret (czero, idx r)) = Ok x tt ->
  sync_acc_ok gf r x /\ (forall d, amt r d = 0 -> fst x d = 0).
Proof.
  intros Hf Hg Hge (Ha & Hc & He) x H.
  refine (fold_bind_inv_in (fun x => sync_acc_ok gf r x /\ (forall d, amt r d = 0 -> fst x d = 0))
            f g _ Hf _ _ _ H _).
  - intros [tot ix] d [tot' ix'] Hin ((P1 & P2 & P3) & P4) G. cbn [fst snd] in *.
    apply denoms_lt in Hin. destruct Hin as [Hd Hnz].
    destruct (Hg _ _ _ _ _ G) as [-> Ht].
    assert (Hix : idx_get d ix <> None) by (apply P2, Hc; assumption).
    unfold sync_acc_ok. cbn [fst snd].
    split; [split; [|split]|].
    + intros d'. destruct Ht as [->|(i & Hi & ->)]; [apply P1|]. unfold upd. destruct (Nat.eqb d' d); [lia|apply P1].
    + intros d' Hd'. apply idx_get_set_some, P2, Hd'.
    + intros d' uf Hin. apply idx_set_in in Hin. destruct Hin as [Heq|Hin]; [|apply P3, Hin].
      inversion Heq; subst d' uf. destruct (idx_get d ix) as [uf0|] eqn:Ei; [|congruence].
      apply idx_get_in in Ei. destruct (P3 _ _ Ei) as (_ & F & HF & _).
      unfold fac0. rewrite HF. split; [eapply Hge; eauto|]. exists F. split; [reflexivity|lia].
    + intros d' Hz. destruct Ht as [->|(i & Hi & ->)]; [apply P4, Hz|]. unfold upd.
      destruct (Nat.eqb_spec d' d) as [->|]; [contradiction|apply P4, Hz].
  - unfold sync_acc_ok. cbn [fst snd]. split; [split; [|split]|].
    + intros d. unfold czero. lia.
    + auto.
    + exact He.
    + intros d _. reflexivity.
Qed.

Lemma sync_result_sound n gf r x :
  rec_sound n gf r -> sync_acc_ok gf r x -> (forall d, amt r d = 0 -> fst x d = 0) ->
  rec_sound n gf (mkU (cadd (amt r) (fst x)) (snd x)) /\ forall d, amt r d <= cadd (amt r) (fst x) d.
Proof.
  intros (Ha & Hc & He) (P1 & P2 & P3) P4. split; [split; [|split]|]; cbn [amt idx].
  - intros d. unfold cadd. specialize (Ha d). specialize (P1 d). lia.
  - intros d Hd Hnz. apply P2, Hc; [assumption|]. intros Hz. apply Hnz. unfold cadd. rewrite Hz, (P4 d Hz). reflexivity.
  - exact P3.
  - intros d. unfold cadd. specialize (P1 d). lia.
Qed.

Lemma sync_sup_rec_sound n sf r r' : sync_sup_rec n sf r = Ok r' tt ->
  fac_ge1 sf -> rec_sound n sf r -> rec_sound n sf r' /\ forall d, amt r d <= amt r' d.
Proof.
  unfold sync_sup_rec. intros H Hge Hr. inv_bind H as x E. apply ret_ok in H. subst r'.
  destruct (sync_fold_sound n sf r _ _ (sync_sup_coin_bind sf (amt r)) (sync_sup_coin_shape sf (amt r)) Hge Hr x E) as [A B].
  apply sync_result_sound; assumption.
Qed.

Lemma sync_bor_rec_sound n bf r r' : sync_bor_rec n bf r = Ok r' tt ->
  fac_ge1 bf -> rec_sound n bf r -> rec_sound n bf r' /\ forall d, amt r d <= amt r' d.
Proof.
  unfold sync_bor_rec. intros H Hge Hr. inv_bind H as x E. apply ret_ok in H. subst r'.
  destruct (sync_fold_sound n bf r _ _ (sync_bor_coin_bind bf (amt r)) (sync_bor_coin_shape bf (amt r)) Hge Hr x E) as [A B].
  apply sync_result_sound; assumption.
Qed.

Lemma sync_supply_inv e s u s' : sync_supply e s u = Ok s' tt -> HInv e s -> HInv e s'.
Proof.
  unfold sync_supply. intros H I. destruct (dep s u) as [r|] eqn:E.
  - inv_bind H as r' E1. apply ret_ok in H. subst s'. destruct I as [H1 H2 H3 H4 H5 H6 H7].
    constructor; cbn; try assumption.
    apply recs_sound_upd; [assumption|]. intros r0 Hr0. inversion Hr0; subst r0.
    eapply sync_sup_rec_sound; eauto.
  - apply ret_ok in H. subst. exact I.
Qed.

Lemma sync_borrow_inv e s u s' : sync_borrow e s u = Ok s' tt -> HInv e s -> HInv e s'.
Proof.
  unfold sync_borrow. intros H I. destruct (bor s u) as [r|] eqn:E.
  - inv_bind H as r' E1. apply ret_ok in H. subst s'. destruct I as [H1 H2 H3 H4 H5 H6 H7].
    constructor; cbn; try assumption.
    apply recs_sound_upd; [assumption|]. intros r0 Hr0. inversion Hr0; subst r0.
    eapply sync_bor_rec_sound; eauto.
  - apply ret_ok in H. subst. exact I.
Qed.

(** ** Deposit / Borrow: global factors of new denoms, index entries of the added coins *)
Definition init_step (mk : nat -> option market) (f : nat -> option Z) (d : nat) : nat -> option Z :=
  match f d, mk d with None, Some _ => upd f d (Some PREC) | _, _ => f end.

Lemma fac_mono_some a b d : fac_mono a b -> a d <> None -> b d <> None.
Proof. intros M H. destruct (a d) as [f|] eqn:E; [|congruence]. destruct (M d f E) as (f' & E' & _). congruence. Qed.

Lemma init_step_spec mk f d :
  fac_mono f (init_step mk f d) /\
  (forall d' x, init_step mk f d d' = Some x -> f d' = Some x \/ x = PREC) /\
  (mk d <> None -> init_step mk f d d <> None).
Proof.
  unfold init_step. destruct (f d) as [y|] eqn:Ef.
  - split; [apply fac_mono_refl|]. split; [auto|]. intros _. congruence.
  - destruct (mk d) as [m|].
    + split; [|split].
      * intros d' x E. exists x. split; [|lia]. unfold upd. destruct (Nat.eqb_spec d' d); [congruence|assumption].
      * intros d' x. unfold upd. destruct (Nat.eqb d' d); [intros H; inversion H; auto|auto].
      * intros _. unfold upd. rewrite Nat.eqb_refl. discriminate.
    + split; [apply fac_mono_refl|]. split; [auto|]. intros H. congruence.
Qed.

Lemma init_facs_spec mk cl : forall get,
  fac_mono get (init_facs mk get cl) /\
  (forall d x, init_facs mk get cl d = Some x -> get d = Some x \/ x = PREC) /\
  (forall d, In d cl -> mk d <> None -> init_facs mk get cl d <> None).
Proof.
  unfold init_facs. induction cl as [|d cl IH]; intros get; cbn [fold_left].
  - split; [apply fac_mono_refl|]. split; [auto|]. intros d [].
  - change (match get d with Some _ => get | None => match mk d with Some _ => upd get d (Some PREC) | None => get end end)
      with (init_step mk get d).
    destruct (init_step_spec mk get d) as (A1 & A2 & A3). destruct (IH (init_step mk get d)) as (B1 & B2 & B3).
    split; [eapply fac_mono_trans; eauto|]. split.
    + intros d' x E. destruct (B2 d' x E) as [E' | ->]; [apply A2, E'|right; reflexivity].
    + intros d' [<-|Hin] Hm; [|apply B3; assumption]. eapply fac_mono_some; [exact B1|apply A3, Hm].
Qed.

Lemma init_facs_ge1 mk cl get : fac_ge1 get -> fac_ge1 (init_facs mk get cl).
Proof.
  intros H d x E. destruct (init_facs_spec mk cl get) as (_ & A & _).
  destruct (A d x E) as [E' | ->]; [eapply H; eauto|lia].
Qed.

Lemma set_idx_found_spec gf cl : forall ix,
  (forall p, In p (set_idx_found gf cl ix) -> In p ix \/ exists d f, p = (d, f) /\ gf d = Some f) /\
  (forall d, idx_get d ix <> None -> idx_get d (set_idx_found gf cl ix) <> None) /\
  (forall d, In d cl -> gf d <> None -> idx_get d (set_idx_found gf cl ix) <> None).
Proof.
  unfold set_idx_found. induction cl as [|d cl IH]; intros ix; cbn [fold_left].
  - split; [auto|]. split; [auto|]. intros d [].
  - destruct (IH (match gf d with Some f => idx_set d f ix | None => ix end)) as (B1 & B2 & B3).
    split; [|split].
    + intros p Hp. destruct (B1 p Hp) as [Hin|Hex]; [|right; exact Hex].
      destruct (gf d) as [f|] eqn:E; [|left; exact Hin].
      apply idx_set_in in Hin. destruct Hin as [->|Hin]; [right; eauto|left; exact Hin].
    + intros d' Hd'. apply B2. destruct (gf d); [apply idx_get_set_some, Hd'|exact Hd'].
    + intros d' [<-|Hin] Hg; [|apply B3; assumption].
      apply B2. destruct (gf d) as [f|]; [|congruence]. rewrite idx_get_set_same. discriminate.
Qed.

Lemma add_coins_sound n gf (o : option urec) c :
  fac_ge1 gf -> (forall r, o = Some r -> rec_sound n gf r) -> (forall d, 0 <= c d) ->
  (forall d, In d (denoms n c) -> gf d <> None) ->
  rec_sound n gf (mkU (cadd (amt_of o) c)
                      (set_idx_found gf (denoms n c) (match o with Some r => idx r | None => [] end))).
Proof.
  intros Hge Ho Hc Hg.
  set (r0 := match o with Some r => r | None => mkU czero [] end).
  assert (R0 : rec_sound n gf r0).
  { unfold r0. destruct o as [r|]; [apply Ho; reflexivity|]. split; [intros d; unfold czero; cbn; lia|].
    split; [intros d _ H; exfalso; apply H; reflexivity|intros d uf []]. }
  assert (E1 : amt_of o = amt r0) by (unfold r0; destruct o; reflexivity).
  assert (E2 : match o with Some r => idx r | None => [] end = idx r0) by (unfold r0; destruct o; reflexivity).
  rewrite E1, E2. destruct R0 as (Ra & Rc & Re).
  destruct (set_idx_found_spec gf (denoms n c) (idx r0)) as (S1 & S2 & S3).
  split; [|split]; cbn [amt idx].
  - intros d. unfold cadd. specialize (Ra d). specialize (Hc d). lia.
  - intros d Hd Hnz. destruct (Z.eq_dec (c d) 0) as [Hz|Hnz'].
    + apply S2, Rc; [assumption|]. unfold cadd in Hnz. lia.
    + apply S3; [|apply Hg]; apply denoms_in; assumption.
  - intros d uf Hin. destruct (S1 _ Hin) as [Hin'|(d' & f & Heq & Hf)]; [apply Re, Hin'|].
    inversion Heq; subst d' f. split; [eapply Hge; eauto|]. exists uf. split; [assumption|lia].
Qed.

(* Withdraw / Repay: coins taken out of a record, index entries of emptied denoms removed *)
Lemma sub_coins_sound n gf r pay ds ix :
  rec_sound n gf r -> (forall d, 0 <= pay d <= amt r d) ->
  remove_idxs ds (idx r) = Some ix -> (forall d, In d ds -> amt r d - pay d = 0) ->
  rec_sound n gf (mkU (csub (amt r) pay) ix).
Proof.
  intros (Ra & Rc & Re) Hp Hrm Hds. destruct (remove_idxs_spec _ _ _ Hrm) as [S1 S2].
  split; [|split]; cbn [amt idx].
  - intros d. unfold csub. specialize (Hp d). lia.
  - intros d Hd Hnz. unfold csub in Hnz. rewrite S2.
    + apply Rc; [assumption|]. specialize (Hp d). lia.
    + intros Hin. apply Hnz, Hds, Hin.
  - intros d uf Hin. apply Re, S1, Hin.
Qed.

Lemma capped_bounds e c a d : 0 <= a d -> 0 <= c d -> 0 <= capped e c a d <= a d.
Proof.
  intros Ha Hc. unfold capped. destruct (Z.eqb_spec (c d) 0); [lia|]. destruct (Z.ltb_spec (a d) (c d)); lia.
Qed.

Lemma stored_sound n gf (a : coins) ix :
  rec_sound n gf (mkU a ix) -> forall r, (if cempty n a then None else Some (mkU a ix)) = Some r -> rec_sound n gf r.
Proof. intros H r. destruct (cempty n a); [discriminate|]. intros E. inversion E; subst. exact H. Qed.

Lemma dec_clamp_nonneg t c : (forall d, 0 <= t d) -> forall d, 0 <= dec_clamp t c d.
Proof.
  intros H d. unfold dec_clamp. specialize (H d).
  destruct (Z.ltb_spec (t d) (c d)); [destruct (Z.ltb_spec 0 (t d)); lia|lia].
Qed.

Lemma all_priced_mkts e s c d : all_priced e s c = true -> In d (denoms (nd e) c) -> mkts s d <> None.
Proof.
  unfold all_priced. rewrite forallb_forall. intros H Hin. specialize (H d Hin). unfold mkt in H.
  destruct (mkts s d); [discriminate|discriminate].
Qed.

(** ** the message handlers preserve the invariant *)
Lemma deposit_inv e s u c s' : deposit e s u c = Ok s' tt -> (forall d, 0 <= c d) -> HInv e s ->
  HInv e s' /\ fac_mono (sfac s) (sfac s') /\ bfac s' = bfac s /\
  (forall v, v <> u -> dep s' v = dep s v) /\ bor s' = bor s /\ mkts s' = mkts s /\ params s' = params s.
Proof.
  unfold deposit. intros H Hc I.
  set (cl := denoms (nd e) c) in *.
  set (s0 := set_sfac s (init_facs (mkts s) (sfac s) cl)) in *.
  destruct (init_facs_spec (mkts s) cl (sfac s)) as (F1 & F2 & F3).
  assert (I0 : HInv e s0).
  { destruct I as [H1 H2 H3 H4 H5 H6 H7]. constructor; cbn; try assumption.
    - apply init_facs_ge1, H1.
    - eapply recs_sound_mono; eauto. }
  inv_bind H as u1 G1. inv_bind H as s1 E1. inv_bind H as u2 G2. inv_bind H as s2 E2. apply ret_ok in H.
  pose proof (sync_supply_inv _ _ _ _ E1 I0) as I1.
  destruct (sync_supply_frame _ _ _ _ E1) as (_ & [_ Sm] & S3 & S4 & S5 & _ & _ & _ & _ & S10 & _).
  apply err_unless_ok in G2. rewrite forallb_forall in G2.
  apply bsend_ok in E2. destruct E2 as [_ ->].
  assert (Hg : forall d, In d cl -> sfac s1 d <> None).
  { intros d Hd. rewrite S4. cbn. apply F3; [assumption|]. specialize (G2 d Hd). rewrite Sm in G2. cbn in G2.
    destruct (mkts s d); [discriminate|discriminate]. }
  subst s'. cbn.
  split; [|split; [rewrite S4; exact F1|split; [rewrite S5; reflexivity|split; [|split; [rewrite S3; reflexivity|split; [rewrite Sm; reflexivity|]]]]]].
  - destruct I1 as [H1 H2 H3 H4 H5 H6 H7]. constructor; cbn; try assumption.
    + apply recs_sound_upd; [assumption|]. apply stored_sound.
      apply add_coins_sound; [assumption| |assumption|exact Hg]. intros r Hr. eapply H3; eauto.
    + intros d. unfold cadd. specialize (H5 d). specialize (Hc d). lia.
  - intros v Hv. unfold upd. destruct (Nat.eqb_spec v u); [contradiction|]. apply S10, Hv.
  - destruct (sync_supply_frame _ _ _ _ E1) as (_ & _ & _). 
    clear -E1. unfold sync_supply in E1. destruct (dep s0 u); [inv_bind E1 as r' Er; apply ret_ok in E1; subst; reflexivity|apply ret_ok in E1; subst; reflexivity].
Qed.

Lemma sync_supply_params e s u s' : sync_supply e s u = Ok s' tt -> params s' = params s.
Proof.
  unfold sync_supply. intros H. destruct (dep s u); [inv_bind H as r' Er|]; apply ret_ok in H; subst; reflexivity.
Qed.
Lemma sync_borrow_params e s u s' : sync_borrow e s u = Ok s' tt -> params s' = params s.
Proof.
  unfold sync_borrow. intros H. destruct (bor s u); [inv_bind H as r' Er|]; apply ret_ok in H; subst; reflexivity.
Qed.

Lemma withdraw_inv e s u c s' : withdraw e s u c = Ok s' tt -> (forall d, 0 <= c d) -> HInv e s ->
  HInv e s' /\ sfac s' = sfac s /\ bfac s' = bfac s /\ mkts s' = mkts s /\ params s' = params s.
Proof.
  unfold withdraw. intros H Hc I.
  inv_bind H as u1 G1. inv_bind H as u2 G2. inv_bind H as u3 G3. inv_bind H as s1 E2. inv_bind H as s2 E3.
  destruct (dep s2 u) as [r|] eqn:Er; [|discriminate].
  inv_bind H as u4 G4. inv_bind H as u5 G5. inv_bind H as w E6. inv_bind H as u6 E7.
  inv_bind H as s3 E8. inv_bind H as ix E9.
  apply dec_supplied_ok in H. apply opt_err_ok in E9. apply bsend_ok in E8. destruct E8 as [_ ->].
  pose proof (sync_supply_inv _ _ _ _ E3 (sync_borrow_inv _ _ _ _ E2 I)) as I2.
  destruct (sync_borrow_frame _ _ _ _ E2) as (_ & [_ Bm] & _ & B4 & B5 & _).
  destruct (sync_supply_frame _ _ _ _ E3) as (_ & [_ Sm] & _ & S4 & S5 & _).
  pose proof (sync_borrow_params _ _ _ _ E2) as Bp. pose proof (sync_supply_params _ _ _ _ E3) as Sp.
  subst s'. cbn.
  split; [|split; [congruence|split; [congruence|split; congruence]]].
  destruct I2 as [H1 H2 H3 H4 H5 H6 H7]. constructor; cbn; try assumption.
  - apply recs_sound_upd; [assumption|]. apply stored_sound.
    pose proof (H3 u r Er) as Rr.
    eapply sub_coins_sound; [exact Rr| |exact E9|].
    + intros d. apply capped_bounds; [apply Rr|apply Hc].
    + intros d Hin. apply filter_In in Hin. destruct Hin as [_ Hz]. apply Z.eqb_eq in Hz. exact Hz.
  - apply dec_clamp_nonneg, H5.
Qed.

Lemma borrow_inv e s u c s' : borrow e s u c = Ok s' tt -> (forall d, 0 <= c d) -> HInv e s ->
  HInv e s' /\ sfac s' = sfac s /\ fac_mono (bfac s) (bfac s') /\ mkts s' = mkts s /\ params s' = params s.
Proof.
  unfold borrow. intros H Hc I.
  set (cl := denoms (nd e) c) in *.
  set (s0 := set_bfac s (init_facs (mkts s) (bfac s) cl)) in *.
  destruct (init_facs_spec (mkts s) cl (bfac s)) as (F1 & F2 & F3).
  assert (I0 : HInv e s0).
  { destruct I as [H1 H2 H3 H4 H5 H6 H7]. constructor; cbn; try assumption.
    - apply init_facs_ge1, H2.
    - eapply recs_sound_mono; eauto. }
  inv_bind H as u1 G1. inv_bind H as u2 G2. inv_bind H as s1 E1. inv_bind H as s2 E2.
  inv_bind H as u3 G3. inv_bind H as s3 E3. apply ret_ok in H.
  pose proof (sync_borrow_inv _ _ _ _ E2 (sync_supply_inv _ _ _ _ E1 I0)) as I2.
  destruct (sync_supply_frame _ _ _ _ E1) as (_ & [_ Sm] & _ & S4 & S5 & _).
  destruct (sync_borrow_frame _ _ _ _ E2) as (_ & [_ Bm] & _ & B4 & B5 & _).
  pose proof (sync_supply_params _ _ _ _ E1) as Sp. pose proof (sync_borrow_params _ _ _ _ E2) as Bp.
  apply validate_borrow_ok in G3. destruct G3 as (dp & _ & P1 & _).
  apply bsend_ok in E3. destruct E3 as [_ ->].
  assert (Hg : forall d, In d cl -> bfac s2 d <> None).
  { intros d Hd. rewrite B5, S5. cbn. apply F3; [assumption|].
    pose proof (all_priced_mkts _ _ _ _ P1 Hd) as Hm. rewrite Bm, Sm in Hm. exact Hm. }
  subst s'. cbn.
  split; [|split; [rewrite B4, S4; reflexivity|split; [rewrite B5, S5; exact F1|split; [rewrite Bm, Sm; reflexivity|rewrite Bp, Sp; reflexivity]]]].
  destruct I2 as [H1 H2 H3 H4 H5 H6 H7]. constructor; cbn; try assumption.
  - apply recs_sound_upd; [assumption|]. apply stored_sound.
    apply add_coins_sound; [assumption| |assumption|exact Hg]. intros r Hr. eapply H4; eauto.
  - intros d. unfold cadd. specialize (H6 d). specialize (Hc d). lia.
Qed.

Lemma repay_inv e s a o c s' : repay e s a o c = Ok s' tt -> (forall d, 0 <= c d) -> HInv e s ->
  HInv e s' /\ sfac s' = sfac s /\ bfac s' = bfac s /\ mkts s' = mkts s /\ params s' = params s.
Proof.
  unfold repay. intros H Hc I.
  inv_bind H as u1 G1. inv_bind H as u2 G2. inv_bind H as s2 E2.
  destruct (bor s2 o) as [r|] eqn:Er; [|discriminate].
  inv_bind H as u3 G3. inv_bind H as u4 G4. inv_bind H as u5 G5. inv_bind H as u6 G6.
  inv_bind H as s3 E3. inv_bind H as ix E4. inv_bind H as u7 G7.
  apply dec_borrowed_ok in H. apply opt_err_ok in E4. apply bsend_ok in E3. destruct E3 as [_ ->].
  pose proof (sync_borrow_inv _ _ _ _ E2 I) as I2.
  destruct (sync_borrow_frame _ _ _ _ E2) as (_ & [_ Bm] & _ & B4 & B5 & _).
  pose proof (sync_borrow_params _ _ _ _ E2) as Bp.
  subst s'. cbn.
  split; [|split; [congruence|split; [congruence|split; congruence]]].
  destruct I2 as [H1 H2 H3 H4 H5 H6 H7]. constructor; cbn; try assumption.
  - apply recs_sound_upd; [assumption|]. apply stored_sound.
    pose proof (H4 o r Er) as Rr.
    eapply sub_coins_sound; [exact Rr| |exact E4|].
    + intros d. apply capped_bounds; [apply Rr|apply Hc].
    + intros d Hin. apply filter_In in Hin. destruct Hin as [_ Hz]. apply Z.eqb_eq in Hz. lia.
  - apply dec_clamp_nonneg, H6.
Qed.

(** ** liquidation: any predicate kept by bank sends and by the two total decrements is kept by
       SeizeDeposits / StartAuctions *)
Section SeizePres.
  Variable P : state -> Prop.
  Hypothesis Pb : forall n s f t c s', bsend n s f t c = Ok s' tt -> P s -> P s'.
  Hypothesis Ps : forall e s c s', dec_supplied e s c = Ok s' tt -> P s -> P s'.
  Hypothesis Pr : forall e s c s', dec_borrowed e s c = Ok s' tt -> P s -> P s'.

  Lemma start_auction_pres e a macc bk dk lot bid s' b' d' :
    start_auction e a macc bk dk lot bid = Ok (s', b', d') tt -> P (a_s a) -> P s'.
  Proof.
    unfold start_auction. intros H P0.
    inv_bind H as u1 G1. inv_bind H as u2 G2. inv_bind H as u3 G3.
    inv_bind H as s1 E1. inv_bind H as s2 E2. inv_bind H as s3 E3. inv_bind H as u4 G4.
    apply ret_ok in H. inversion H; subst. eauto.
  Qed.

  Lemma auction_body_pres e ltv macc bk a dk a' :
    auction_body e ltv macc bk a dk = Ok a' tt -> P (a_s a) -> P (a_s a').
  Proof.
    unfold auction_body, auction_step. cbn [bind ret]. intros H P0.
    destruct (a_max a =? 0); [apply ret_ok in H; subst; exact P0|].
    destruct (a_max a <=? a_dv a dk).
    - inv_bind H as ls E1. destruct (dec_trunc_int ls =? 0); [apply ret_ok in H; subst; exact P0|].
      inv_bind H as x E2. destruct x as [[s1 b1] d1]. apply ret_ok in H. subst a'. cbn.
      eapply start_auction_pres; eauto.
    - inv_bind H as bs E1.
      destruct ((dec_trunc_int bs =? 0) || (a_dep a dk =? 0)); [apply ret_ok in H; subst; exact P0|].
      inv_bind H as x E2. destruct x as [[s1 b1] d1]. inv_bind H as m E3. apply ret_ok in H. subst a'. cbn.
      eapply start_auction_pres; eauto.
  Qed.

  Lemma borrow_body_pres e ltv macc dkeys a bk a' :
    borrow_body e ltv macc dkeys a bk = Ok a' tt -> P (a_s a) -> P (a_s a').
  Proof.
    unfold borrow_body, borrow_step. cbn [bind ret]. intros H P0. inv_bind H as m E1.
    refine (fold_bind_inv (fun x => P (a_s x)) _ _ dkeys (auction_step_bind e ltv macc bk) _ _ _ H _).
    - intros a1 b a2 Pa G. eapply auction_body_pres; eauto.
    - exact P0.
  Qed.

  Lemma start_auctions_pres e s b bw aucdep dvals bvals ltv s' :
    start_auctions e s b bw aucdep dvals bvals ltv = Ok s' tt -> P s -> P s'.
  Proof.
    unfold start_auctions. intros H P0. inv_bind H as a E1.
    assert (A : P (a_s a)).
    { refine (fold_bind_inv (fun x => P (a_s x)) _ _ _ (borrow_step_bind e ltv (bal s (hacc e)) _) _ _ _ E1 _).
      - intros a1 bk a2 Pa G. eapply borrow_body_pres; eauto.
      - exact P0. }
    refine (fold_bind_inv P _ _ _ (return_step_bind e b (a_dep a)) _ _ _ H A).
    intros s1 dk s2 P1 G. unfold return_body, return_step in G. cbn [bind ret] in G.
    destruct (0 <? a_dep a dk); [eauto|apply ret_ok in G; subst; exact P1].
  Qed.

  Lemma seize_pres e s k b dp bw s' : seize e s k b dp bw = Ok s' tt -> P s -> P s'.
  Proof.
    unfold seize. intros H P0. inv_bind H as s1 E1. inv_bind H as u1 G1.
    assert (A : P s1).
    { destruct (cempty (nd e) (keeper_reward s dp)); [apply ret_ok in E1; subst; exact P0|].
      inv_bind E1 as s0 E0. eauto. }
    match type of H with (if ?c then _ else _) = _ => destruct c end.
    - apply ret_ok in H. subst. exact A.
    - eapply start_auctions_pres; eauto.
  Qed.
End SeizePres.

Definition tot_nonneg (s : state) : Prop := (forall d, 0 <= tsup s d) /\ (forall d, 0 <= tbor s d).

Lemma seize_tot_nonneg e s k b dp bw s' : seize e s k b dp bw = Ok s' tt -> tot_nonneg s -> tot_nonneg s'.
Proof.
  apply (seize_pres tot_nonneg).
  - intros n s0 f t c s1 H P0. apply bsend_ok in H. destruct H as [_ ->]. exact P0.
  - intros e0 s0 c s1 H [P1 P2]. apply dec_supplied_ok in H. subst. split; cbn; [apply dec_clamp_nonneg, P1|exact P2].
  - intros e0 s0 c s1 H [P1 P2]. apply dec_borrowed_ok in H. subst. split; cbn; [exact P1|apply dec_clamp_nonneg, P2].
Qed.

Lemma liquidate_inv e s k b s' : liquidate e s k b = Ok s' tt -> HInv e s ->
  HInv e s' /\ sfac s' = sfac s /\ bfac s' = bfac s /\ mkts s' = mkts s /\ params s' = params s.
Proof.
  unfold liquidate. intros H I.
  inv_bind H as u1 G1. inv_bind H as u2 G2. inv_bind H as u3 G3. inv_bind H as u4 G4.
  inv_bind H as s1 E1. inv_bind H as s2 E2.
  destruct (dep s2 b) as [dp|] eqn:Ed; [|discriminate].
  destruct (bor s2 b) as [bw|] eqn:Eb; [|discriminate].
  inv_bind H as w E3. inv_bind H as u5 G5. inv_bind H as s3 E4. apply ret_ok in H.
  pose proof (sync_supply_inv _ _ _ _ E2 (sync_borrow_inv _ _ _ _ E1 I)) as I2.
  destruct (sync_borrow_frame _ _ _ _ E1) as (_ & [_ Bm] & _ & B4 & B5 & _).
  destruct (sync_supply_frame _ _ _ _ E2) as (_ & [_ Sm] & _ & S4 & S5 & _).
  pose proof (sync_borrow_params _ _ _ _ E1) as Bp. pose proof (sync_supply_params _ _ _ _ E2) as Sp.
  destruct (seize_store _ _ _ _ _ _ _ E4) as ([_ Zm] & Z2 & Z3 & Z4 & Z5 & _ & Z7 & Z8).
  destruct I2 as [H1 H2 H3 H4 H5 H6 H7].
  destruct (seize_tot_nonneg _ _ _ _ _ _ _ E4 (conj H5 H6)) as [T1 T2].
  subst s'. cbn.
  split; [|split; [congruence|split; [congruence|split; congruence]]].
  constructor; cbn; rewrite ?Z2, ?Z3, ?Z4, ?Z5, ?Z7; try assumption.
  - apply recs_sound_upd; [assumption|discriminate].
  - apply recs_sound_upd; [assumption|discriminate].
Qed.

(** ** interest accrual *)
(* the oracle factor is >= 1 whenever AccrueInterest gets as far as updating the indexes *)
Lemma interest_nonneg_inv f b : 0 <= f -> 0 < b -> 0 <= dec_trunc_int (dec_mul f (dec_of_int b)) - b -> PREC <= f.
Proof.
  intros Hf Hb Hi. unfold dec_trunc_int, dec_mul, dec_of_int in Hi.
  replace (f * (b * PREC)) with ((f * b) * PREC) in Hi by ring.
  rewrite chop_round_exact in Hi by nia.
  destruct (Z_lt_le_dec f PREC) as [Hlt|]; [|assumption]. exfalso.
  assert (Z.quot (f * b) PREC < b); [|lia].
  apply Z.quot_lt_upper_bound; [nia|unfold PREC; lia|nia].
Qed.

Lemma fac_mono_upd_default gf d x :
  fac_mono gf (upd gf d (Some (match gf d with Some y => y | None => x end))).
Proof.
  intros d' y E. unfold upd. destruct (Nat.eqb_spec d' d) as [->|].
  - rewrite E. exists y. split; [reflexivity|lia].
  - exists y. split; [assumption|lia].
Qed.

Lemma fac_ge1_upd gf d x : fac_ge1 gf -> PREC <= x -> fac_ge1 (upd gf d (Some x)).
Proof. intros H Hx d' y. unfold upd. destruct (Nat.eqb d' d); [intros E; inversion E; subst; assumption|apply H]. Qed.

Lemma fac_mono_upd_ge gf d x : (forall y, gf d = Some y -> y <= x) -> fac_mono gf (upd gf d (Some x)).
Proof.
  intros H d' y E. unfold upd. destruct (Nat.eqb_spec d' d) as [->|].
  - exists x. split; [reflexivity|apply H, E].
  - exists y. split; [assumption|lia].
Qed.

Lemma accrue_inv e s d t f s' : accrue e s d t f = Ok s' tt -> HInv e s ->
  HInv e s' /\ fac_mono (sfac s) (sfac s') /\ fac_mono (bfac s) (bfac s') /\ dep s' = dep s /\ bor s' = bor s.
Proof.
  unfold accrue. intros H I.
  assert (T0 : HInv e s /\ fac_mono (sfac s) (sfac s) /\ fac_mono (bfac s) (bfac s) /\ dep s = dep s /\ bor s = bor s)
    by (split; [exact I|repeat split; auto using fac_mono_refl]).
  assert (Tp : forall v, HInv e (set_prev s v) /\ fac_mono (sfac s) (sfac (set_prev s v)) /\
                         fac_mono (bfac s) (bfac (set_prev s v)) /\ dep (set_prev s v) = dep s /\ bor (set_prev s v) = bor s).
  { intros v. split; [eapply HInv_ext; [..|exact I]; reflexivity|]. cbn. repeat split; auto using fac_mono_refl. }
  destruct (prev s d) as [p|]; [|apply ret_ok in H; subst; apply Tp].
  destruct (t - p =? 0); [apply ret_ok in H; subst; exact T0|].
  destruct (Z.eqb_spec (tbor s d) 0) as [|Hb0]; [apply ret_ok in H; subst; apply Tp|].
  destruct I as [H1 H2 H3 H4 H5 H6 H7].
  set (bf := match bfac s d with Some x => x | None => PREC end) in *.
  set (sf := match sfac s d with Some x => x | None => PREC end) in *.
  assert (Hbf : PREC <= bf) by (unfold bf; destruct (bfac s d) eqn:E; [eapply H2; eauto|lia]).
  assert (Hsf : PREC <= sf) by (unfold sf; destruct (sfac s d) eqn:E; [eapply H1; eauto|lia]).
  pose proof (fac_mono_upd_default (bfac s) d PREC) as Mb. fold bf in Mb.
  pose proof (fac_mono_upd_default (sfac s) d PREC) as Ms. fold sf in Ms.
  set (s1 := set_sfac (set_bfac s (upd (bfac s) d (Some bf))) (upd (sfac s) d (Some sf))) in *.
  assert (I1 : HInv e s1).
  { constructor; cbn; try assumption.
    - apply fac_ge1_upd; assumption.
    - apply fac_ge1_upd; assumption.
    - eapply recs_sound_mono; eauto.
    - eapply recs_sound_mono; eauto. }
  cbn [mkts s1 set_sfac set_bfac] in H. destruct (mkts s d) as [m|]; [|discriminate].
  inv_bind H as apy E1. inv_bind H as u1 G1. apply err_unless_ok in G1. apply Z.leb_le in G1.
  match type of H with (if ?c then _ else _) = _ => destruct c end.
  - apply ret_ok in H. subst s'. split; [exact I1|]. cbn. split; [exact Ms|]. split; [exact Mb|]. split; reflexivity.
  - inv_bind H as u2 G2. inv_bind H as u3 G3. inv_bind H as u4 G4. apply ret_ok in H.
    apply panic_unless_ok in G2, G3, G4. apply Z.leb_le in G2, G3, G4.
    cbn [bal tbor tres s1 set_sfac set_bfac] in *.
    set (interest := dec_trunc_int (dec_mul f (dec_of_int (tbor s d))) - tbor s d) in *.
    set (rnew := dec_trunc_int (dec_mul (dec_of_int interest) (m_reserve m))) in *.
    assert (Hf : PREC <= f) by (apply (interest_nonneg_inv f (tbor s d)); [assumption|specialize (H6 d); lia|exact G2]).
    pose proof (supply_factor_ge_one (interest - rnew) (bal s (hacc e) d) (tbor s d) (tres s d) G3) as Hsfn.
    pose proof PREC_pos as Hpp.
    assert (B1 : bf <= dec_mul bf f) by (apply dec_mul_ge_one; lia).
    assert (B2 : sf <= dec_mul sf (supply_factor (dec_of_int (interest - rnew)) (dec_of_int (bal s (hacc e) d))
                                      (dec_of_int (tbor s d)) (dec_of_int (tres s d)))) by (apply dec_mul_ge_one; lia).
    assert (Mb2 : fac_mono (bfac s) (upd (upd (bfac s) d (Some bf)) d (Some (dec_mul bf f)))).
    { eapply fac_mono_trans; [exact Mb|]. apply fac_mono_upd_ge. intros y. unfold upd. rewrite Nat.eqb_refl. intros E; inversion E; subst; assumption. }
    assert (Ms2 : fac_mono (sfac s) (upd (upd (sfac s) d (Some sf)) d (Some (dec_mul sf (supply_factor (dec_of_int (interest - rnew)) (dec_of_int (bal s (hacc e) d))
                                      (dec_of_int (tbor s d)) (dec_of_int (tres s d))))))).
    { eapply fac_mono_trans; [exact Ms|]. apply fac_mono_upd_ge. intros y. unfold upd. rewrite Nat.eqb_refl. intros E; inversion E; subst; assumption. }
    subst s'. cbn. split; [|split; [exact Ms2|split; [exact Mb2|split; reflexivity]]].
    constructor; cbn.
    + apply fac_ge1_upd; [apply fac_ge1_upd; assumption|lia].
    + apply fac_ge1_upd; [apply fac_ge1_upd; assumption|lia].
    + eapply recs_sound_mono; eauto.
    + eapply recs_sound_mono; eauto.
    + intros x. unfold cadd. rewrite csingle_eq. specialize (H5 x). destruct (Nat.eqb x d); lia.
    + intros x. unfold cadd. rewrite csingle_eq. specialize (H6 x). destruct (Nat.eqb x d); lia.
    + intros x. unfold cadd. rewrite csingle_eq. specialize (H7 x). destruct (Nat.eqb x d); lia.
Qed.

Lemma begin_block_inv_full e s t fs s' : begin_block e s t fs = Ok s' tt -> HInv e s ->
  HInv e s' /\ fac_mono (sfac s) (sfac s') /\ fac_mono (bfac s) (bfac s') /\ dep s' = dep s /\ bor s' = bor s.
Proof.
  intros H I.
  refine (begin_block_inv (fun x => HInv e x /\ fac_mono (sfac s) (sfac x) /\ fac_mono (bfac s) (bfac x) /\
                                    dep x = dep s /\ bor x = bor s) e s t fs s' _ _ H _).
  - intros a d a2 Hd G (P0 & P1 & P2 & P3 & P4).
    destruct (accrue_inv _ _ _ _ _ _ G P0) as (Q0 & Q1 & Q2 & Q3 & Q4).
    split; [assumption|]. split; [eapply fac_mono_trans; eauto|]. split; [eapply fac_mono_trans; eauto|]. split; congruence.
  - intros s0 m (P0 & P). split; [|exact P]. eapply HInv_ext; [..|exact P0]; reflexivity.
  - split; [exact I|]. repeat split; auto using fac_mono_refl.
Qed.

(** ** every operation preserves the invariant *)
(* the users whose position an operation is addressed to *)
Definition targets (o : op) (u : nat) : Prop :=
  match o with
  | Deposit v _ | Withdraw v _ | Borrow v _ | Repay _ v _ | Liquidate _ v => u = v
  | _ => False
  end.

Lemma msg_ok_nonneg e c : msg_ok e c = true -> forall d, 0 <= of_list c d.
Proof.
  unfold msg_ok. intros H. apply andb_prop in H. destruct H as [H _]. apply andb_prop in H. destruct H as [H _].
  apply of_list_nonneg, H.
Qed.

Lemma step_inv e s o s' : step e s o = Ok s' tt -> HInv e s ->
  HInv e s' /\ fac_mono (sfac s) (sfac s') /\ fac_mono (bfac s) (bfac s') /\
  (forall u, ~ targets o u -> dep s' u = dep s u /\ bor s' u = bor s u).
Proof.
  destruct o as [u c|u c|u c|a b c|k b|d p|u d x|t fs|ps]; cbn [step targets]; intros H I.
  - destruct (Nat.ltb u (nu e) && msg_ok e c) eqn:G; [|discriminate]. apply andb_prop in G. destruct G as [_ G].
    destruct (deposit_inv _ _ _ _ _ H (msg_ok_nonneg _ _ G) I) as (Q0 & Q1 & Q2 & Q3 & Q4 & _).
    split; [assumption|]. split; [assumption|]. split; [rewrite Q2; apply fac_mono_refl|].
    intros v Hv. split; [apply Q3; congruence|rewrite Q4; reflexivity].
  - destruct (Nat.ltb u (nu e) && msg_ok e c) eqn:G; [|discriminate]. apply andb_prop in G. destruct G as [_ G].
    destruct (withdraw_inv _ _ _ _ _ H (msg_ok_nonneg _ _ G) I) as (Q0 & Q1 & Q2 & _).
    split; [assumption|]. split; [rewrite Q1; apply fac_mono_refl|]. split; [rewrite Q2; apply fac_mono_refl|].
    apply withdraw_spec in H. destruct H as (s2 & r & _ & _ & H). cbn zeta in H.
    destruct H as (_ & _ & _ & _ & X1 & X2 & _). intros v Hv. split; [apply X1|apply X2]; congruence.
  - destruct (Nat.ltb u (nu e) && msg_ok e c) eqn:G; [|discriminate]. apply andb_prop in G. destruct G as [_ G].
    destruct (borrow_inv _ _ _ _ _ H (msg_ok_nonneg _ _ G) I) as (Q0 & Q1 & Q2 & _).
    split; [assumption|]. split; [rewrite Q1; apply fac_mono_refl|]. split; [assumption|].
    apply borrow_spec in H. destruct H as (s2 & dp & _ & _ & _ & _ & _ & _ & _ & _ & _ & X & _).
    intros v Hv. apply X. congruence.
  - destruct (Nat.ltb a (nu e) && Nat.ltb b (nu e) && msg_ok e c) eqn:G; [|discriminate]. apply andb_prop in G. destruct G as [_ G].
    destruct (repay_inv _ _ _ _ _ _ H (msg_ok_nonneg _ _ G) I) as (Q0 & Q1 & Q2 & _).
    split; [assumption|]. split; [rewrite Q1; apply fac_mono_refl|]. split; [rewrite Q2; apply fac_mono_refl|].
    apply repay_spec in H. destruct H as (s2 & r & _ & _ & H). cbn zeta in H.
    destruct H as (_ & _ & _ & _ & X1 & X2). intros v Hv. rewrite X1. split; [reflexivity|apply X2; congruence].
  - destruct (Nat.ltb k (nu e) && Nat.ltb b (nu e)); [|discriminate].
    destruct (liquidate_inv _ _ _ _ _ H I) as (Q0 & Q1 & Q2 & _).
    split; [assumption|]. split; [rewrite Q1; apply fac_mono_refl|]. split; [rewrite Q2; apply fac_mono_refl|].
    apply liquidate_spec in H. destruct H as (s2 & dp & bw & s3 & _ & _ & _ & _ & _ & _ & _ & X & _).
    intros v Hv. apply X. congruence.
  - destruct (Nat.ltb d (nd e) && (0 <=? p)); [|discriminate]. apply ret_ok in H. subst s'.
    split; [eapply HInv_ext; [..|exact I]; reflexivity|]. cbn. repeat split; auto using fac_mono_refl.
  - destruct (Nat.ltb u (nu e) && Nat.ltb d (nd e) && (0 <=? x)); [|discriminate].
    apply bsend_ok in H. destruct H as [_ ->].
    split; [eapply HInv_ext; [..|exact I]; reflexivity|]. cbn. repeat split; auto using fac_mono_refl.
  - destruct (begin_block_inv_full _ _ _ _ _ H I) as (Q0 & Q1 & Q2 & Q3 & Q4).
    split; [assumption|]. split; [assumption|]. split; [assumption|]. intros u _. rewrite Q3, Q4. split; reflexivity.
  - apply ret_ok in H. subst s'.
    split; [eapply HInv_ext; [..|exact I]; reflexivity|]. cbn. repeat split; auto using fac_mono_refl.
Qed.

Lemma step'_inv e s o : HInv e s ->
  HInv e (step' e s o) /\ fac_mono (sfac s) (sfac (step' e s o)) /\ fac_mono (bfac s) (bfac (step' e s o)) /\
  (forall u, ~ targets o u -> dep (step' e s o) u = dep s u /\ bor (step' e s o) u = bor s u).
Proof.
  intros I. unfold step'. destruct (step e s o) as [s' []| |] eqn:E.
  - apply step_inv; assumption.
  - split; [assumption|]. repeat split; auto using fac_mono_refl.
  - split; [assumption|]. repeat split; auto using fac_mono_refl.
Qed.

Theorem run_inv e ops : forall s, HInv e s -> HInv e (run e s ops).
Proof.
  unfold run. induction ops as [|o ops IH]; intros s I; cbn [fold_left]; [exact I|].
  apply IH. apply step'_inv, I.
Qed.

Lemma genesis_inv e bals prices prevs mms : HInv e (mk_state bals prices prevs mms).
Proof.
  constructor; cbn; try (intros d; unfold czero; lia); intros x y E; discriminate.
Qed.

Theorem invariant_all_histories e bals prices prevs mms ops :
  HInv e (run e (mk_state bals prices prevs mms) ops).
Proof. apply run_inv, genesis_inv. Qed.

(** ** no action by the user: the synced amounts never decrease, whatever the others and the blocks do *)
Lemma run_monotone e u ops : forall s, HInv e s -> Forall (fun o => ~ targets o u) ops ->
  HInv e (run e s ops) /\ fac_mono (sfac s) (sfac (run e s ops)) /\ fac_mono (bfac s) (bfac (run e s ops)) /\
  dep (run e s ops) u = dep s u /\ bor (run e s ops) u = bor s u.
Proof.
  unfold run. induction ops as [|o ops IH]; intros s I Hf; cbn [fold_left].
  - split; [assumption|]. repeat split; auto using fac_mono_refl.
  - inversion Hf as [|o' ops' Ho Hf']; subst.
    destruct (step'_inv e s o I) as (Q0 & Q1 & Q2 & Q3). destruct (Q3 u Ho) as [Q4 Q5].
    destruct (IH _ Q0 Hf') as (R0 & R1 & R2 & R3 & R4).
    split; [assumption|]. split; [eapply fac_mono_trans; eauto|]. split; [eapply fac_mono_trans; eauto|].
    split; congruence.
Qed.

Theorem synced_deposit_monotone_history e s u ops c :
  HInv e s -> Forall (fun o => ~ targets o u) ops ->
  synced_deposit e s u = Some (Ok c tt) ->
  exists c', synced_deposit e (run e s ops) u = Some (Ok c' tt) /\ forall d, c d <= c' d.
Proof.
  intros I Hf Hc. destruct (run_monotone e u ops s I Hf) as (_ & M & _ & D & _).
  unfold synced_deposit in *. rewrite D. destruct (dep s u) as [r|] eqn:Er; [|discriminate].
  inversion Hc as [Hc']; clear Hc.
  pose proof (hi_dep _ _ I u r Er) as Rr.
  destruct (load_synced_sup_mono (nd e) _ _ r c (proj1 Rr) (fac_ge1_nonneg _ (hi_sfac _ _ I)) M
              (rec_sound_idx_sound _ _ _ Rr) Hc') as (c' & E & L).
  exists c'. rewrite E. split; [reflexivity|assumption].
Qed.

Theorem synced_borrow_monotone_history e s u ops c :
  HInv e s -> Forall (fun o => ~ targets o u) ops ->
  synced_borrow e s u = Some (Ok c tt) ->
  exists c', synced_borrow e (run e s ops) u = Some (Ok c' tt) /\ forall d, c d <= c' d.
Proof.
  intros I Hf Hc. destruct (run_monotone e u ops s I Hf) as (_ & _ & M & _ & B).
  unfold synced_borrow in *. rewrite B. destruct (bor s u) as [r|] eqn:Er; [|discriminate].
  inversion Hc as [Hc']; clear Hc.
  pose proof (hi_bor _ _ I u r Er) as Rr.
  destruct (load_synced_mono (nd e) _ _ r c (proj1 Rr) (fac_ge1_nonneg _ (hi_bfac _ _ I)) M
              (rec_sound_idx_sound _ _ _ Rr) Hc') as (c' & E & L).
  exists c'. rewrite E. split; [reflexivity|assumption].
Qed.

(** ** well-formed money-market parameters along histories; the begin blocker on reachable states *)
Definition op_params_ok (o : op) : Prop :=
  match o with
  | SetParams ps => forall d m, nth d ps None = Some m -> 0 <= m_reserve m <= PREC
  | _ => True
  end.
Definition mkts_ok (s : state) : Prop := mk_wf (mkts s) /\ mk_wf (params s).

Lemma begin_block_mkts_ok e s t fs s' : begin_block e s t fs = Ok s' tt -> mkts_ok s -> mkts_ok s'.
Proof.
  intros H P0. unfold begin_block in H.
  destruct (fold_left (apply_param_market e t fs) (seq 0 (nd e)) (ret s)) as [s1 []| |] eqn:F1.
  2,3: exfalso; match type of H with match ?x with _ => _ end = _ => destruct x as [s2 []| |] eqn:F2 end; try discriminate;
       eapply (fold_not_ok _ _ _ _ (drop_removed_market_bind e t fs)); [|exact F2]; discriminate.
  match type of H with match ?x with _ => _ end = _ => destruct x as [s2 []| |] eqn:F2 end; try discriminate.
  apply ret_ok in H. subst s2.
  assert (P1 : mkts_ok s1).
  { refine (fold_bind_inv mkts_ok _ _ _ (apply_param_market_bind e t fs) _ _ _ F1 P0).
    intros a d a2 [W1 W2] G. unfold apply_param_market in G. cbn [bind ret] in G.
    destruct (params a d) as [pm|] eqn:Ep; [|apply ret_ok in G; subst; split; assumption].
    inv_bind G as a1 E. apply ret_ok in G. destruct (accrue_frame_mk _ _ _ _ _ _ E) as [M Q].
    assert (Hpm : 0 <= m_reserve pm <= PREC) by (eapply W2; eauto).
    assert (W1' : mk_wf (mkts a1)).
    { rewrite M. destruct (mkts a d); [assumption|]. cbn. apply mk_wf_upd; assumption. }
    assert (W2' : mk_wf (params a1)) by (rewrite Q; destruct (mkts a d); assumption).
    subst a2. destruct (market_eqb _ pm); [split; assumption|]. split; cbn; [apply mk_wf_upd; assumption|assumption]. }
  refine (fold_bind_inv mkts_ok _ _ _ (drop_removed_market_bind e t fs) _ _ _ F2 P1).
  intros a d a2 [W1 W2] G. unfold drop_removed_market in G. cbn [bind ret] in G.
  destruct (mkts a d) as [m|]; [|apply ret_ok in G; subst; split; assumption].
  destruct (params a d); [apply ret_ok in G; subst; split; assumption|].
  inv_bind G as a1 E. apply ret_ok in G. destruct (accrue_frame_mk _ _ _ _ _ _ E) as [M Q]. subst a2.
  split; cbn; [apply mk_wf_del; rewrite M; assumption|rewrite Q; assumption].
Qed.

Lemma step_mkts_ok e s o s' : step e s o = Ok s' tt -> HInv e s -> op_params_ok o -> mkts_ok s -> mkts_ok s'.
Proof.
  destruct o as [u c|u c|u c|a b c|k b|d p|u d x|t fs|ps]; cbn [step op_params_ok]; intros H I Ho [W1 W2].
  - destruct (Nat.ltb u (nu e) && msg_ok e c) eqn:G; [|discriminate]. apply andb_prop in G. destruct G as [_ G].
    destruct (deposit_inv _ _ _ _ _ H (msg_ok_nonneg _ _ G) I) as (_ & _ & _ & _ & _ & Q1 & Q2).
    split; [rewrite Q1|rewrite Q2]; assumption.
  - destruct (Nat.ltb u (nu e) && msg_ok e c) eqn:G; [|discriminate]. apply andb_prop in G. destruct G as [_ G].
    destruct (withdraw_inv _ _ _ _ _ H (msg_ok_nonneg _ _ G) I) as (_ & _ & _ & Q1 & Q2).
    split; [rewrite Q1|rewrite Q2]; assumption.
  - destruct (Nat.ltb u (nu e) && msg_ok e c) eqn:G; [|discriminate]. apply andb_prop in G. destruct G as [_ G].
    destruct (borrow_inv _ _ _ _ _ H (msg_ok_nonneg _ _ G) I) as (_ & _ & _ & Q1 & Q2).
    split; [rewrite Q1|rewrite Q2]; assumption.
  - destruct (Nat.ltb a (nu e) && Nat.ltb b (nu e) && msg_ok e c) eqn:G; [|discriminate]. apply andb_prop in G. destruct G as [_ G].
    destruct (repay_inv _ _ _ _ _ _ H (msg_ok_nonneg _ _ G) I) as (_ & _ & _ & Q1 & Q2).
    split; [rewrite Q1|rewrite Q2]; assumption.
  - destruct (Nat.ltb k (nu e) && Nat.ltb b (nu e)); [|discriminate].
    destruct (liquidate_inv _ _ _ _ _ H I) as (_ & _ & _ & Q1 & Q2).
    split; [rewrite Q1|rewrite Q2]; assumption.
  - destruct (Nat.ltb d (nd e) && (0 <=? p)); [|discriminate]. apply ret_ok in H. subst s'. split; assumption.
  - destruct (Nat.ltb u (nu e) && Nat.ltb d (nd e) && (0 <=? x)); [|discriminate].
    apply bsend_ok in H. destruct H as [_ ->]. split; assumption.
  - eapply begin_block_mkts_ok; eauto. split; assumption.
  - apply ret_ok in H. subst s'. split; cbn; [assumption|]. intros d m E. eapply Ho; eauto.
Qed.

Theorem run_mkts_ok e ops : forall s, HInv e s -> Forall op_params_ok ops -> mkts_ok s ->
  HInv e (run e s ops) /\ mkts_ok (run e s ops).
Proof.
  unfold run. induction ops as [|o ops IH]; intros s I Hf W; cbn [fold_left]; [split; assumption|].
  inversion Hf as [|o' ops' Ho Hf']; subst.
  apply IH; [apply step'_inv, I|assumption|].
  unfold step'. destruct (step e s o) as [s' []| |] eqn:E; [|assumption|assumption].
  eapply step_mkts_ok; eauto.
Qed.

Lemma genesis_mkts_ok bals prices prevs mms :
  (forall d m, nthO mms d = Some m -> 0 <= m_reserve m <= PREC) -> mkts_ok (mk_state bals prices prevs mms).
Proof. intros H. split; cbn; exact H. Qed.

Theorem begin_block_no_panic_reachable e s ops t fs :
  HInv e s -> mkts_ok s -> Forall op_params_ok ops ->
  (forall d, (d < nd e)%nat -> PREC <= nthZ fs d) ->
  exists s', begin_block e (run e s ops) t fs = Ok s' tt.
Proof.
  intros I W Hf Ho. destruct (run_mkts_ok e ops s I Hf W) as [I' [W1 W2]].
  apply begin_block_no_panic; [assumption|assumption|assumption|apply (hi_tbor _ _ I')].
Qed.

(** ** caps on withdrawals and repayments without side hypotheses *)
Lemma sync_position_inv e s u s2 : sync_position e s u = Ok s2 tt -> HInv e s -> HInv e s2.
Proof.
  unfold sync_position. intros H I. inv_bind H as s1 E1.
  eapply sync_supply_inv; [exact H|]. eapply sync_borrow_inv; eauto.
Qed.

Lemma capped_le_req e c a d : 0 <= a d -> 0 <= c d -> capped e c a d <= c d.
Proof.
  intros Ha Hc. unfold capped. destruct (Z.eqb_spec (c d) 0); [lia|]. destruct (Z.ltb_spec (a d) (c d)); lia.
Qed.

Theorem withdraw_capped_inv e s u c s' : HInv e s -> step e s (Withdraw u c) = Ok s' tt ->
  exists s2 r, sync_position e s u = Ok s2 tt /\ dep s2 u = Some r /\
    let moved := capped e (of_list c) (amt r) in
    (forall d, bal s' u d = bal s u d + moved d /\ bal s' (hacc e) d = bal s (hacc e) d - moved d) /\
    (forall d, 0 <= moved d <= amt r d) /\ (forall d, moved d <= of_list c d) /\
    ceq (nd e) (amt_of (dep s' u)) (csub (amt r) moved).
Proof.
  intros I H. cbn [step] in H.
  destruct (Nat.ltb u (nu e) && msg_ok e c) eqn:G; [|discriminate]. apply andb_prop in G. destruct G as [Gu G].
  apply Nat.ltb_lt in Gu. pose proof (msg_ok_nonneg _ _ G) as Hc.
  assert (Hu : u <> hacc e) by (unfold hacc; lia).
  destruct (withdraw_capped _ _ _ _ _ H Hu) as (s2 & r & H1 & H2 & H3 & H4 & H5).
  exists s2, r. split; [assumption|]. split; [assumption|]. cbn zeta.
  pose proof (hi_dep _ _ (sync_position_inv _ _ _ _ H1 I) u r H2) as (Ra & _).
  split; [exact H3|]. split; [|split; [|exact H5]].
  - intros d. apply capped_bounds; [apply Ra|apply Hc].
  - intros d. apply capped_le_req; [apply Ra|apply Hc].
Qed.

Theorem repay_capped_inv e s a o c s' : HInv e s -> step e s (Repay a o c) = Ok s' tt ->
  exists s2 r, sync_borrow e s o = Ok s2 tt /\ bor s2 o = Some r /\
    let pay := capped e (of_list c) (amt r) in
    (forall d, bal s' a d = bal s a d - pay d /\ bal s' (hacc e) d = bal s (hacc e) d + pay d) /\
    (forall d, 0 <= pay d <= amt r d) /\ (forall d, pay d <= of_list c d) /\
    ceq (nd e) (amt_of (bor s' o)) (csub (amt r) pay).
Proof.
  intros I H. cbn [step] in H.
  destruct (Nat.ltb a (nu e) && Nat.ltb o (nu e) && msg_ok e c) eqn:G; [|discriminate].
  apply andb_prop in G. destruct G as [Gu G]. apply andb_prop in Gu. destruct Gu as [Ga _].
  apply Nat.ltb_lt in Ga. pose proof (msg_ok_nonneg _ _ G) as Hc.
  assert (Ha : a <> hacc e) by (unfold hacc; lia).
  destruct (repay_capped _ _ _ _ _ _ H Ha) as (s2 & r & H1 & H2 & H3 & H4 & H5).
  exists s2, r. split; [assumption|]. split; [assumption|]. cbn zeta.
  pose proof (hi_bor _ _ (sync_borrow_inv _ _ _ _ H1 I) o r H2) as (Ra & _).
  split; [exact H3|]. split; [|split; [|exact H5]].
  - intros d. apply capped_bounds; [apply Ra|apply Hc].
  - intros d. apply capped_le_req; [apply Ra|apply Hc].
Qed.

(** ** a liquidation leaves every other user's position as it was: records with their index lists,
       the global factors, hence the synced amounts *)
Lemma liquidate_frame e s k b s' : liquidate e s k b = Ok s' tt ->
  sfac s' = sfac s /\ bfac s' = bfac s /\ prev s' = prev s /\ tres s' = tres s /\ mkts s' = mkts s /\ params s' = params s.
Proof.
  unfold liquidate. intros H.
  inv_bind H as u1 G1. inv_bind H as u2 G2. inv_bind H as u3 G3. inv_bind H as u4 G4.
  inv_bind H as s1 E1. inv_bind H as s2 E2.
  destruct (dep s2 b) as [dp|]; [|discriminate]. destruct (bor s2 b) as [bw|]; [|discriminate].
  inv_bind H as w E3. inv_bind H as u5 G5. inv_bind H as s3 E4. apply ret_ok in H.
  destruct (sync_borrow_frame _ _ _ _ E1) as (_ & [_ Bm] & _ & B4 & B5 & B6 & _ & _ & B9 & _).
  destruct (sync_supply_frame _ _ _ _ E2) as (_ & [_ Sm] & _ & S4 & S5 & S6 & _ & _ & S9 & _).
  pose proof (sync_borrow_params _ _ _ _ E1) as Bp. pose proof (sync_supply_params _ _ _ _ E2) as Sp.
  destruct (seize_store _ _ _ _ _ _ _ E4) as ([_ Zm] & _ & _ & Z4 & Z5 & Z6 & Z7 & Z8).
  subst s'. cbn. repeat split; congruence.
Qed.

Theorem liquidate_others_untouched e s k b s' : liquidate e s k b = Ok s' tt -> forall v, v <> b ->
  dep s' v = dep s v /\ bor s' v = bor s v /\
  synced_deposit e s' v = synced_deposit e s v /\ synced_borrow e s' v = synced_borrow e s v.
Proof.
  intros H v Hv. destruct (liquidate_frame _ _ _ _ _ H) as (F1 & F2 & _).
  apply liquidate_spec in H. destruct H as (s2 & dp & bw & s3 & _ & _ & _ & _ & _ & _ & _ & X & _).
  destruct (X v Hv) as [X1 X2]. unfold synced_deposit, synced_borrow. rewrite X1, X2, F1, F2. repeat split.
Qed.

(* MsgLiquidate on a state satisfying the invariant: the statement of [liq_scope] with the keeper's
   side conditions discharged by the message's own checks, the synced deposit non-negative, and
   every other user's position (records, index lists, synced amounts) untouched *)
Theorem liq_scope_inv e s k b s' : HInv e s -> step e s (Liquidate k b) = Ok s' tt ->
  exists s2 dp, sync_position e s b = Ok s2 tt /\ dep s2 b = Some dp /\ (forall d, 0 <= amt dp d) /\
    dep s' b = None /\ bor s' b = None /\
    (forall v, v <> b -> dep s' v = dep s v /\ bor s' v = bor s v /\
                         synced_deposit e s' v = synced_deposit e s v /\ synced_borrow e s' v = synced_borrow e s v) /\
    (forall d, (d < nd e)%nat -> bal s (hacc e) d - bal s' (hacc e) d <= amt dp d) /\
    (k <> b -> forall d, (d < nd e)%nat ->
       bal s' k d = bal s k d + Z.max 0 (dec_trunc_int (dec_mul_int (keeper_pct s2 d) (amt dp d)))) /\
    (forall x d, x <> hacc e -> x <> aacc e -> x <> b -> x <> k -> bal s' x d = bal s x d).
Proof.
  intros I H. cbn [step] in H. destruct (Nat.ltb k (nu e) && Nat.ltb b (nu e)) eqn:G; [|discriminate].
  apply andb_prop in G. destruct G as [Gk _]. apply Nat.ltb_lt in Gk.
  assert (K1 : k <> hacc e) by (unfold hacc; lia). assert (K2 : k <> aacc e) by (unfold aacc; lia).
  pose proof (liquidate_others_untouched _ _ _ _ _ H) as O.
  destruct (liq_scope _ _ _ _ _ H K1) as (s2 & dp & H1 & H2 & H3 & H4 & H5 & H6 & H7 & H8).
  exists s2, dp. split; [assumption|]. split; [assumption|].
  split; [apply (hi_dep _ _ (sync_position_inv _ _ _ _ H1 I) b dp H2)|].
  split; [assumption|]. split; [assumption|]. split; [exact O|]. split; [assumption|].
  split; [intros Hkb; apply H7; assumption|assumption].
Qed.

(* one begin block, without the side hypotheses of [interest_monotone_borrow] / [interest_monotone_supply] *)
Theorem interest_monotone_block e s t fs s' u : HInv e s -> begin_block e s t fs = Ok s' tt ->
  (forall c, synced_deposit e s u = Some (Ok c tt) ->
     exists c', synced_deposit e s' u = Some (Ok c' tt) /\ forall d, c d <= c' d) /\
  (forall c, synced_borrow e s u = Some (Ok c tt) ->
     exists c', synced_borrow e s' u = Some (Ok c' tt) /\ forall d, c d <= c' d).
Proof.
  intros I H.
  assert (R : run e s [BeginBlock t fs] = s').
  { unfold run. cbn [fold_left]. unfold step'. cbn [step]. rewrite H. reflexivity. }
  assert (F : Forall (fun o => ~ targets o u) [BeginBlock t fs]) by (constructor; [intros []|constructor]).
  rewrite <- R. split; intros c Hc.
  - apply synced_deposit_monotone_history; assumption.
  - apply synced_borrow_monotone_history; assumption.
Qed.
